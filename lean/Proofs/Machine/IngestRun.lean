import Proofs.IngestTrunc
import Proofs.Machine.BodyText
import Proofs.Machine.BodyCombinedText
import Proofs.Machine.BodyPlain
import Proofs.Machine.Total
/-!
C01 / T4: whole runs of the state machine on lines *made by the ingest model*
(`IngestMachine.runRaw`). The whole-run theorems about `Machine.run` hold for every list of lines,
hence for the ingested ones; what the ingest step did to each line is `ingestItems_spec`.
-/
namespace IngestMachine
open Line Machine Headers

/-! ### one line -/

/-- What `ingest_line_utf8` does to a line: nothing — or, only under a positive limit that the
line exceeds both in bytes and in columns, it keeps the longest prefix of the line's grapheme
clusters that fits next to the truncation mark (one blank in place of a wide cluster that had to be
split), every escape sequence of the line, and appends the mark. -/
theorem ingestItems_spec (hstop : Generated.StyleTables.truncateStopsAfterCut = true) {ic : ICfg} {r : RawLine}
    {o : List Item} (h : ingestItems ic r = some o) :
    o = r.items ∨
    (0 < ic.maxLen ∧ ic.maxLen < utf8Len r.r1 ∧ ic.maxLen < gWidth (gsOf r.items) ∧
      ∃ rt kept f, truncNoTail ic.maxLen (some ' ') ic.sym = some rt ∧ o = kept ++ rt ∧ Filler (some ' ') f ∧
        fitCount ic.maxLen (width rt) (gsOf r.items) < (gsOf r.items).length ∧
        gsOf kept = (gsOf r.items).take (fitCount ic.maxLen (width rt) (gsOf r.items)) ++ f) := by
  unfold ingestItems at h
  split at h
  · rename_i hg
    obtain ⟨hpos, hlen⟩ := truncates_only_when_longer hg
    rcases truncate_cases _ _ _ _ _ h with ⟨_, rfl⟩ | ⟨hw, rt, kept, hrt, hk, rfl⟩
    · exact Or.inl rfl
    · right
      rw [width_eq_gWidth] at hw
      obtain ⟨f, hf, _, hgs⟩ := (truncGo_spec hstop _ _ _ _ _ _ hk).2 rfl
      refine ⟨hpos, hlen, hw, rt, kept, f, hrt, rfl, hf, ?_, hgs⟩
      rcases Nat.lt_or_ge (fitCount ic.maxLen (width rt) (gsOf r.items)) (gsOf r.items).length with hlt | hge
      · exact hlt
      · have heq : fitCount ic.maxLen (width rt) (gsOf r.items) = (gsOf r.items).length :=
          Nat.le_antisymm (fitCount_le _ _ _) hge
        rcases fitCount_all _ _ _ heq with hnil | hfit
        · rw [hnil] at hw; simp [gWidth] at hw
        · omega
  · exact Or.inl (by simpa using h.symm)

/-- a line is left alone when there is no limit, or it is not longer than the limit in bytes, or it
fits in the limit's columns -/
theorem ingestItems_whole {ic : ICfg} {r : RawLine}
    (h : ic.maxLen = 0 ∨ utf8Len r.r1 ≤ ic.maxLen ∨ width r.items ≤ ic.maxLen) :
    ingestItems ic r = some r.items := by
  unfold ingestItems
  split
  · rename_i hg
    obtain ⟨hpos, hlen⟩ := truncates_only_when_longer hg
    rcases h with h | h | h
    · omega
    · omega
    · simp [truncate, h]
  · rfl

theorem toL_some {ic : ICfg} {r : RawLine} {l : L} (h : toL ic r = some l) :
    ∃ o, ingestItems ic r = some o ∧ l = { r.facts with raw := flatten o, text := textOf o } := by
  unfold toL at h
  cases ho : ingestItems ic r with
  | none => rw [ho] at h; cases h
  | some o => rw [ho] at h; exact ⟨o, rfl, by simpa using h.symm⟩

/-- text items only: the visible text is the line itself -/
def noEsc : List Item → Bool
  | [] => true
  | .text _ :: rest => noEsc rest
  | .esc _ :: _ => false

theorem textOf_noEsc (items : List Item) (h : noEsc items = true) : textOf items = flatten items := by
  induction items with
  | nil => rfl
  | cons x xs ih =>
    cases x with
    | esc s => simp [noEsc] at h
    | text gs =>
      have := ih (by simpa [noEsc] using h)
      simp only [textOf, gsOf, gChars_append] at this ⊢
      simp [flatten, Item.chars, gChars] at this ⊢
      exact this

theorem splitLastCr_none (s : Str) (h : '\r' ∉ s) : splitLastCr s = none := by
  induction s with
  | nil => rfl
  | cons c cs ih =>
    simp only [List.mem_cons, not_or] at h
    simp only [splitLastCr, ih h.2]
    simp [Ne.symm h.1]

/-- a line without `\r` is not touched by the CR step -/
theorem crStep_noCr (tz : Bool) (s : Str) (h : '\r' ∉ s) : crStep tz s = s := by
  simp [crStep, splitLastCr_none s h]

/-- A plain line (no `\r`, no escape sequence) within the limit is ingested unchanged:
`raw_line` = `line` = the input line. -/
theorem toL_plain_whole {ic : ICfg} {r : RawLine} (hwf : r.wf = true) (hcr : '\r' ∉ r.chars)
    (hesc : noEsc r.items = true) (h : ic.maxLen = 0 ∨ utf8Len r.chars ≤ ic.maxLen ∨ width r.items ≤ ic.maxLen) :
    toL ic r = some { r.facts with raw := r.chars, text := r.chars } := by
  have hr1 : r.r1 = r.chars := crStep_noCr _ _ hcr
  have hfl : flatten r.items = r.chars := by
    have : flatten r.items = r.r1 := by simpa [RawLine.wf] using hwf
    rw [this, hr1]
  unfold toL
  rw [ingestItems_whole (by rw [hr1]; exact h)]
  simp [textOf_noEsc _ hesc, hfl]

/-! ### lists of lines -/

theorem ingestAll_append_cons {ic : ICfg} : ∀ {pre : List RawLine} {r : RawLine} {post : List RawLine} {ls : List L},
    ingestAll ic (pre ++ r :: post) = some ls →
    ∃ lsPre l lsPost, ingestAll ic pre = some lsPre ∧ toL ic r = some l ∧ ingestAll ic post = some lsPost ∧
      ls = lsPre ++ l :: lsPost ∧ lsPre.length = pre.length
  | [], r, post, ls, h => by
    simp only [List.nil_append, ingestAll] at h
    cases hl : toL ic r with
    | none => rw [hl] at h; cases h
    | some l =>
      rw [hl] at h
      cases hp : ingestAll ic post with
      | none => rw [hp] at h; cases h
      | some lsPost =>
        rw [hp] at h
        exact ⟨[], l, lsPost, rfl, rfl, rfl, by simpa using h.symm, rfl⟩
  | p :: pre, r, post, ls, h => by
    simp only [List.cons_append, ingestAll] at h
    cases hl : toL ic p with
    | none => rw [hl] at h; cases h
    | some lp =>
      rw [hl] at h
      cases hp : ingestAll ic (pre ++ r :: post) with
      | none => rw [hp] at h; cases h
      | some rest =>
        rw [hp] at h
        obtain ⟨lsPre, l, lsPost, h1, h2, h3, h4, h5⟩ := ingestAll_append_cons hp
        refine ⟨lp :: lsPre, l, lsPost, ?_, h2, h3, ?_, by simp [h5]⟩
        · simp [ingestAll, hl, h1]
        · have : ls = lp :: rest := by simpa using h.symm
          rw [this, h4]; rfl

theorem ingestAll_length {ic : ICfg} : ∀ {rs : List RawLine} {ls : List L}, ingestAll ic rs = some ls → ls.length = rs.length
  | [], ls, h => by simp [ingestAll] at h; subst h; rfl
  | r :: rs, ls, h => by
    simp only [ingestAll] at h
    cases hl : toL ic r with
    | none => rw [hl] at h; cases h
    | some l =>
      rw [hl] at h
      cases hp : ingestAll ic rs with
      | none => rw [hp] at h; cases h
      | some rest =>
        rw [hp] at h
        have : ls = l :: rest := by simpa using h.symm
        rw [this]; simp [ingestAll_length hp]

/-- a run on raw lines is the machine's run on the ingested lines -/
theorem runRaw_ok {ic : ICfg} {cfg : Cfg} {rs : List RawLine} {m : M} (e : runRaw ic cfg rs = .ok m) :
    ∃ ls, ingestAll ic rs = some ls ∧ run cfg ls = .ok m := by
  unfold runRaw at e
  cases h : ingestAll ic rs with
  | none => rw [h] at e; cases e
  | some ls => rw [h] at e; exact ⟨ls, rfl, e⟩

/-- `delta` on raw lines ends without panic unless the `debug_assert!` of `truncate_str_impl` fires -/
theorem runRaw_total {ic : ICfg} {cfg : Cfg} {rs : List RawLine} {ls : List L} (h : ingestAll ic rs = some ls) :
    ∃ m, runRaw ic cfg rs = .ok m := by
  unfold runRaw; rw [h]; exact Machine.run_total cfg ls

/-- Since fix d6cf9d0 (`truncateAssertsWideCluster = false`, read from the source on every run) every line is
ingested, whatever the widths of its clusters … -/
theorem ingestItems_isSome (hno : Generated.StyleTables.truncateAssertsWideCluster = false) (ic : ICfg) (r : RawLine) :
    ∃ o, ingestItems ic r = some o := by
  unfold ingestItems
  split
  · exact truncate_isSome hno _ _ _ _
  · exact ⟨_, rfl⟩

theorem ingestAll_isSome (hno : Generated.StyleTables.truncateAssertsWideCluster = false) (ic : ICfg)
    (rs : List RawLine) : ∃ ls, ingestAll ic rs = some ls := by
  induction rs with
  | nil => exact ⟨[], rfl⟩
  | cons r rs ih =>
    obtain ⟨o, ho⟩ := ingestItems_isSome hno ic r
    obtain ⟨ls, hls⟩ := ih
    exact ⟨{ r.facts with raw := flatten o, text := textOf o } :: ls, by simp only [ingestAll, toL, ho, Option.map_some, hls]⟩

/-- … and `delta` on raw lines ends without panic, unconditionally. -/
theorem runRaw_total_any (hno : Generated.StyleTables.truncateAssertsWideCluster = false) (ic : ICfg) (cfg : Cfg)
    (rs : List RawLine) : ∃ m, runRaw ic cfg rs = .ok m := by
  obtain ⟨ls, hls⟩ := ingestAll_isSome hno ic rs
  exact runRaw_total hls

/-! ### whole runs -/

/-- unified hunk of a git diff -/
theorem raw_run_hunk_line_row {ic : ICfg} {cfg : Cfg} {pre post : List RawLine} {r : RawLine} {lsPre : List L} {l : L}
    {mi m : M} (hpre : ingestAll ic pre = some lsPre) (hl : toL ic r = some l)
    (hmc : ∀ ls, ingestAll ic (pre ++ r :: post) = some ls → ∀ x ∈ ls, startsWith x.text Generated.Markers.mcBegin = false)
    (ei : runFrom cfg {} lsPre = .ok mi) (hsrc : mi.source = .gitDiff) (hst : isHunkState mi.st = true)
    (hdt : hunkDiffType mi.st = some .unified) (hb : firstIs l isMarker) (hc : l.commitRe = false)
    (hsub : l.submodule = none) (e : runRaw ic cfg (pre ++ r :: post) = .ok m) :
    (m.out.filter (fun x => isBody x.kind)).filter (fun x => x.src = pre.length) = [expectedRow cfg l pre.length] := by
  obtain ⟨ls, hls, erun⟩ := runRaw_ok e
  obtain ⟨lsPre', l', lsPost, h1, h2, _, h4, h5⟩ := ingestAll_append_cons hls
  rw [hpre] at h1; cases h1
  rw [hl] at h2; cases h2
  subst h4
  have := run_hunk_line_row (hmc _ hls) ei hsrc hst hdt hb hc hsub erun
  rwa [h5] at this

/-- hunk of a combined diff with `n` parents -/
theorem raw_run_combined_line_row {ic : ICfg} {cfg : Cfg} {pre post : List RawLine} {r : RawLine} {lsPre : List L} {l : L}
    {mi m : M} {n : Nat} (hpre : ingestAll ic pre = some lsPre) (hl : toL ic r = some l)
    (hmc : ∀ ls, ingestAll ic (pre ++ r :: post) = some ls → ∀ x ∈ ls, startsWith x.text Generated.Markers.mcBegin = false)
    (ei : runFrom cfg {} lsPre = .ok mi) (hsrc : mi.source = .gitDiff)
    (hdt : hunkDiffType mi.st = some (.combined (.number n) false)) (hb : HunkBody l)
    (hsub : l.submodule = none) (e : runRaw ic cfg (pre ++ r :: post) = .ok m) :
    (m.out.filter (fun x => isBody x.kind)).filter (fun x => x.src = pre.length) =
      [expectedRowCombined cfg n l pre.length] := by
  obtain ⟨ls, hls, erun⟩ := runRaw_ok e
  obtain ⟨lsPre', l', lsPost, h1, h2, _, h4, h5⟩ := ingestAll_append_cons hls
  rw [hpre] at h1; cases h1
  rw [hl] at h2; cases h2
  subst h4
  have := run_combined_line_row (hmc _ hls) ei hsrc hdt hb hsub erun
  rwa [h5] at this

open Machine.Plain in
/-- plain `diff -u` -/
theorem raw_run_plain_line {ic : ICfg} {cfg : Cfg} {pre post : List RawLine} {r : RawLine} {lsPre : List L} {l : L}
    {s s' : PS} {b : Bool} {m : M} (hpre : ingestAll ic pre = some lsPre) (hl : toL ic r = some l)
    (hin : ∀ ls, ingestAll ic (pre ++ r :: post) = some ls → PlainInput ls)
    (hs : plainAfter .top lsPre = some s) (hn : plainNext s l = some (s', b))
    (e : runRaw ic cfg (pre ++ r :: post) = .ok m) :
    (m.out.filter (fun x => isBody x.kind)).filter (fun x => x.src = pre.length) =
      if b then [plainRow cfg l pre.length] else [] := by
  obtain ⟨ls, hls, erun⟩ := runRaw_ok e
  obtain ⟨lsPre', l', lsPost, h1, h2, _, h4, h5⟩ := ingestAll_append_cons hls
  rw [hpre] at h1; cases h1
  rw [hl] at h2; cases h2
  subst h4
  have := run_plain_line (hin _ hls) hs hn erun
  rwa [h5] at this

/-! ### the text of the row -/

/-- the text of a unified hunk row whose line starts with an ASCII marker: marker (if kept) followed by
the rest of the line with tabs expanded -/
theorem expectedRow_text {cfg : Cfg} {l : L} {idx : Nat} {c : Char} {rest : Str} (ht : l.text = c :: rest)
    (hc : isMarker c = true) :
    (expectedRow cfg l idx).text = keptMarker cfg c ++ Text.expand cfg.tab rest ∧
    (expectedRow cfg l idx).kind = (if c = '-' then .minus else if c = '+' then .plus else .zero) := by
  have hascii : c.toNat < 128 := by
    simp [isMarker] at hc
    rcases hc with (rfl | rfl) | rfl <;> decide
  have hp : prepare cfg 1 l = Text.expand cfg.tab rest := by
    unfold prepare; simp [ht, hascii]
  simp [isMarker] at hc
  rcases hc with (rfl | rfl) | rfl <;> simp [expectedRow, ht, hp]

/-- the truncated line still starts with the line's first character when its first cluster fits next to
the mark -/
theorem kept_head {dw used : Nat} {gs : List G} {g : G} {rest : List G} {c : Char} {cs : Str} {f : List G} {tl : Str}
    (hgs : gs = g :: rest) (hg : g.s = c :: cs) (hfit : used + g.w ≤ dw) :
    ∃ tl', gChars (gs.take (fitCount dw used gs) ++ f) ++ tl = c :: tl' := by
  subst hgs
  have : fitCount dw used (g :: rest) = fitCount dw (used + g.w) rest + 1 := by
    simp [fitCount]; omega
  rw [this]
  simp [gChars, hg]

end IngestMachine
