import Proofs.Machine.BodyText
/-!
C01 for plain `diff -u` input (`Source::DiffUnified`).

In plain `diff -u` output a file section starts with `--- old` / `+++ new` and nothing else, and a
hunk can contain a removed line whose text starts with `-- ` (input line `--- …`) or an added line
`++ …` (input `+++ …`). delta tells the two apart with a counter of the old-file lines still
expected in the current hunk (`AmbiguousDiffMinusCounter`: armed when the source is detected, set
from the hunk header, decremented by every removed / unchanged line).

Here: a reference reading of plain `diff -u` (`plainNext`, three states: between sections / after a
`--- ` line / inside a hunk with `rem` old-file lines to come) that is independent of the machine,
and a simulation (`Sim`): as long as the hunk headers announce the true number of old-file lines
(= the reference reading accepts the input), `m.counter` IS the number of old-file lines still
expected, the machine is in a unified hunk state exactly inside hunks, every line the reference
reads as a hunk line is claimed by `handle_hunk_line` and gets exactly one row (`plainRow`), and
every other line (`--- `, `+++ `, `@@`, `diff -u …`, `Only in …`) gets none.
Whole runs: `run_plain_rows`.
-/
set_option linter.unusedSimpArgs false
set_option linter.unusedVariables false
namespace Machine.Plain
open Machine Headers Generated

-- the reference reading ---------------------------------------------------------------

/-- `--- ` -/
def threeDashes : Str := Markers.minusLine.getD 0 []
/-- `+++ ` -/
def threePluses : Str := Markers.plusLine.getD 0 []

def isDashes (l : L) : Bool := startsWith l.text threeDashes
def isPluses (l : L) : Bool := startsWith l.text threePluses
/-- a `diff -u a b` command line (as `diff -ru` writes before each file), not a combined-diff line -/
def isCmd (l : L) : Bool := startsWith l.text Markers.diffLine && !startsWithAny l.text Markers.combinedDiffLine
def isOnlyIn (l : L) : Bool := startsWith l.text Markers.onlyIn

/-- the number of old-file lines a hunk header announces (`@@ -a,N +c,d @@`: `N`), as delta parses it -/
def announcedOld (l : L) : Option Nat :=
  if startsWith l.text Markers.hunkHeader then
    match parseHunkHeader l.text with
    | some hh =>
      match hh.coords with
      | (_, ml) :: _ :: _ => if ml < 2 ^ 63 then some ml else none
      | _ => none
    | none => none
  else none

/-- a line of the old file: removed (`-`) or unchanged (blank first column) -/
def oldLine (l : L) : Bool :=
  match l.text.head? with
  | some '-' | some ' ' => true
  | _ => false

/-- a hunk line that is not a line of the old file: added (`+`) or `\ No newline at end of file` -/
def newOnlyLine (l : L) : Bool :=
  match l.text.head? with
  | some '+' | some '\\' => true
  | _ => false

/-- state of the reference reading -/
inductive PS
  | top                 -- between sections / before a hunk
  | afterMinus          -- the `--- ` line of a section has been read
  | hunk (rem : Nat)    -- inside a hunk; `rem` lines of the old file are still to come
  deriving DecidableEq, Repr

/-- what may follow where no line of the old file is expected: a new section, a `diff` command
line, an `Only in` line, the next hunk -/
def plainOutside (l : L) : Option (PS × Bool) :=
  if isDashes l then some (.afterMinus, false)
  else if isCmd l then some (.top, false)
  else if isOnlyIn l then some (.top, false)
  else match announcedOld l with
    | some ml => some (.hunk ml, false)
    | none => none

/-- One line of the reference reading: the next state and whether the line is a line of a hunk
body; `none` = the input is not plain `diff -u` output whose headers tell the truth.
Inside a hunk with old-file lines outstanding every line is a hunk line (`--- x` is the removed
line `-- x`); once the announced number has been reached, only `+` / `\` lines still belong to it
(`+++ x` is the added line `++ x`) and `--- ` starts the next file section. -/
def plainNext (s : PS) (l : L) : Option (PS × Bool) :=
  if l.commitRe then none else
  match s with
  | .top => plainOutside l
  | .afterMinus => if isPluses l then some (.top, false) else none
  | .hunk (rem + 1) =>
    if l.submodule.isSome then none
    else if oldLine l then some (.hunk rem, true)
    else if newOnlyLine l then some (.hunk (rem + 1), true)
    else none
  | .hunk 0 =>
    if newOnlyLine l then (if l.submodule.isSome then none else some (.hunk 0, true))
    else plainOutside l

/-- the reference reading accepts the lines -/
def plainAccepts : PS → List L → Bool
  | _, [] => true
  | s, l :: ls =>
    match plainNext s l with
    | none => false
    | some (s', _) => plainAccepts s' ls

/-- the state of the reference reading after the lines -/
def plainAfter : PS → List L → Option PS
  | s, [] => some s
  | s, l :: ls =>
    match plainNext s l with
    | none => none
    | some (s', _) => plainAfter s' ls

/-- the row that shows hunk line `l` (input index `n`) of a plain diff: `expectedRow` (kind by the
first column, that column removed — kept if markers are requested —, tabs expanded) for `-`, `+`,
blank; the raw line with tabs expanded for `\ No newline at end of file` -/
def plainRow (cfg : Cfg) (l : L) (n : Nat) : Row :=
  if l.text.head? = some '\\' then { kind := .other, text := Text.expand cfg.tab l.raw, src := n }
  else expectedRow cfg l n

/-- the rows of the hunk lines, as the reference reading sees them -/
def plainRows (cfg : Cfg) : PS → Nat → List L → List Row
  | _, _, [] => []
  | s, n, l :: ls =>
    match plainNext s l with
    | none => []
    | some (s', true) => plainRow cfg l n :: plainRows cfg s' (n + 1) ls
    | some (s', false) => plainRows cfg s' (n + 1) ls

-- frame lemmas: the counter ------------------------------------------------------------

@[simp] theorem emit_counter (m : M) : (emit m).counter = m.counter := rfl
@[simp] theorem flushMP_counter (m : M) : (flushMP m).counter = m.counter := by unfold flushMP; split <;> rfl
@[simp] theorem direct_counter (m : M) (rows : List Row) : (direct m rows).counter = m.counter := by
  unfold direct; split <;> rfl
@[simp] theorem writeGeneric_counter (cfg : Cfg) (m : M) (t r : Str) : (writeGeneric cfg m t r).counter = m.counter := by
  unfold writeGeneric; split <;> simp
@[simp] theorem handleHeaderLine_counter (cfg : Cfg) (m : M) (c : Bool) : (handleHeaderLine cfg m c).counter = m.counter := by
  unfold handleHeaderLine; simp
@[simp] theorem handleHeaderLine_source (cfg : Cfg) (m : M) (c : Bool) : (handleHeaderLine cfg m c).source = m.source := by
  unfold handleHeaderLine; simp
@[simp] theorem pendingDiffName_counter (cfg : Cfg) (m : M) : (pendingDiffName cfg m).counter = m.counter := by
  unfold pendingDiffName; repeat' split
  all_goals simp
@[simp] theorem pendingDiffName_source (cfg : Cfg) (m : M) : (pendingDiffName cfg m).source = m.source := by
  unfold pendingDiffName; repeat' split
  all_goals simp
@[simp] theorem emitLineUnchanged_counter (m : M) (l : L) : (emitLineUnchanged m l).counter = m.counter := by
  unfold emitLineUnchanged; simp
@[simp] theorem emitLineUnchanged_source (m : M) (l : L) : (emitLineUnchanged m l).source = m.source := by
  unfold emitLineUnchanged; simp

/-- counter, source and state are those of `x`, the hunk-line rows those of `m` -/
structure PV (m x y : M) : Prop where
  bv : BV m y
  st : y.st = x.st
  counter : y.counter = x.counter
  source : y.source = x.source

theorem PV.start {m x : M} (h : BV m x) : PV m x x := ⟨h, rfl, rfl, rfl⟩

theorem PV.emit {m x y : M} (h : PV m x y) : PV m x (emit y) := ⟨h.bv.emit, h.st, h.counter, h.source⟩
theorem PV.flushMP {m x y : M} (h : PV m x y) : PV m x (flushMP y) :=
  ⟨h.bv.flushMP, by simp [h.st], by simp [h.counter], by simp [h.source]⟩
theorem PV.writeGeneric {m x y : M} (h : PV m x y) (cfg : Cfg) (t r : Str) : PV m x (writeGeneric cfg y t r) :=
  ⟨h.bv.writeGeneric cfg t r, by simp [h.st], by simp [h.counter], by simp [h.source]⟩
theorem PV.emitLineUnchanged {m x y : M} (h : PV m x y) (l : L) : PV m x (emitLineUnchanged y l) :=
  ⟨h.bv.emitLineUnchanged l, by simp [h.st], by simp [h.counter], by simp [h.source]⟩
theorem PV.pendingDiffName {m x y : M} (h : PV m x y) (cfg : Cfg) : PV m x (pendingDiffName cfg y) :=
  ⟨h.bv.pendingDiffName cfg, by rw [pendingDiffName_st, h.st], by simp [h.counter], by simp [h.source]⟩

theorem PV.shouldWriteGeneric {m x y : M} (h : PV m x y) (cfg : Cfg) (l : L) :
    PV m x (shouldWriteGeneric cfg y l).2 := by
  unfold Machine.shouldWriteGeneric
  split
  · exact h.flushMP.emit.writeGeneric cfg _ _
  · exact h

theorem PV.plusLineFinish {m x y : M} (h : PV m x y) (cfg : Cfg) (l : L) :
    PV m x (plusLineFinish cfg y l).2 := by
  unfold Machine.plusLineFinish
  split
  · exact h.shouldWriteGeneric cfg l
  · split
    · refine ⟨((h.bv.emit.handleHeaderLine cfg _).of_tl rfl rfl), ?_, ?_, ?_⟩
      · simp [h.st]
      · simp [h.counter]
      · simp [h.source]
    · exact h

-- first characters ---------------------------------------------------------------------

theorem head_of_startsWith {s p : Str} {d : Char} {r : Str} (hp : p = d :: r) (h : startsWith s p = true) :
    s.head? = some d := by
  subst hp
  cases s with
  | nil => simp [startsWith, List.isPrefixOf] at h
  | cons c cs =>
    simp only [startsWith, List.isPrefixOf, Bool.and_eq_true, beq_iff_eq] at h
    simp [h.1]

theorem not_startsWith_of_head {s p : Str} {c d : Char} {r : Str} (hs : s.head? = some c) (hp : p = d :: r)
    (hne : c ≠ d) : startsWith s p = false := by
  cases h : startsWith s p
  · rfl
  · have := head_of_startsWith hp h
    rw [hs] at this
    exact absurd (Option.some.inj this) hne

/-- pattern `p` starts with a character other than `c` -/
def headOther (c : Char) : Str → Bool
  | d :: _ => d != c
  | [] => false

theorem not_startsWithAny_of_head {s : Str} {ps : List Str} {c : Char} (hs : s.head? = some c)
    (hp : ps.all (headOther c) = true) : startsWithAny s ps = false := by
  unfold startsWithAny
  rw [List.any_eq_false]
  intro p hmem
  have hh := List.all_eq_true.mp hp p hmem
  cases p with
  | nil => simp [headOther] at hh
  | cons d r =>
    have hne : c ≠ d := by
      intro h; subst h; simp [headOther] at hh
    simp [not_startsWith_of_head hs rfl hne]

-- the handler chain, by class of line ----------------------------------------------------

def tailNames : List String :=
  ["handle_submodule_log_line", "handle_submodule_short_line", "handle_merge_conflict_line", "handle_hunk_line",
   "handle_git_show_file_line", "handle_blame_line", "handle_grep_line", "should_skip_line", "emit_line_unchanged"]

theorem order_split : Generated.handlerOrder =
    "handle_commit_meta_header_line" :: "handle_diff_stat_line" :: "handle_diff_header_diff_line" ::
    "handle_diff_header_file_operation_line" :: "handle_diff_header_minus_line" :: "handle_diff_header_plus_line" ::
    "handle_hunk_header_line" :: "handle_diff_header_mode_line" :: "handle_diff_header_misc_line" :: tailNames := by
  decide

/-- from `handle_submodule_log_line` on, in a `DiffHeader` state: nothing but pass-through happens -/
theorem chain_tail {cfg : Cfg} {m0 x m m' : M} {l : L} (pv : PV m0 x m) (hst : isDiffHeader x.st = true)
    (hS : startsWith l.text Markers.submoduleLog = false) (e : chain cfg l tailNames m = .ok m') : PV m0 x m' := by
  have hst' : isDiffHeader m.st = true := by rw [pv.st]; exact hst
  obtain ⟨dt, hdt⟩ : ∃ dt, m.st = .diffHeader dt := by
    cases h : m.st <;> simp [h, isDiffHeader] at hst' ⊢
  have e10 := handleSubmoduleLog_not_mine cfg m l hS
  have e11 : handleSubmoduleShort cfg m l = .ok (false, m) := by
    unfold handleSubmoduleShort submoduleShortTest; simp [hdt, pairableHunkHeader]
  have e12 := handleMergeConflict_not_mine cfg m l (by simp [hdt, hunkCombinedParents]) (by simp [hdt, isMergeConflict])
  have e13 : handleHunkLine cfg m l = .ok (false, m) := by unfold handleHunkLine; simp [hdt, isHunkState]
  have e15 : handleBlame cfg (emit m) l = .ok (false, emit (emit m)) := by
    unfold handleBlame; simp [hdt]
  have e16 : handleGrep cfg (emit (emit m)) l = .ok (false, emit (emit (emit m))) := by
    unfold handleGrep; simp [hdt]
  simp only [tailNames, chain, handlerOf, e10, e11, e12, e13, handleGitShowFile, e15, e16, handleShouldSkip,
    handleEmitUnchanged] at e
  cases hss : shouldSkipLine cfg (emit (emit (emit m)))
  · simp only [hss] at e
    cases e
    exact pv.emit.emit.emit.emitLineUnchanged l
  · simp only [hss] at e
    cases e
    exact pv.emit.emit.emit

theorem startsWithAny_of_mem {s p : Str} {ps : List Str} (hm : p ∈ ps) (h : startsWith s p = true) :
    startsWithAny s ps = true := by
  unfold startsWithAny
  rw [List.any_eq_true]
  exact ⟨p, hm, h⟩

theorem handleMinusLine_claim {cfg : Cfg} {m : M} {l : L} (ht : minusLineTest m l = true)
    (hsrc : m.source = .diffUnified) :
    ∃ m1, handleMinusLine cfg m l = .ok (shouldWriteGeneric cfg (flushMP m1) l) ∧ m1.st = .diffHeader .unified ∧
      m1.counter = m.counter ∧ m1.source = m.source ∧ timeline m1 = timeline m ∧ m1.n = m.n := by
  unfold handleMinusLine
  simp only [ht, Bool.not_true, Bool.false_eq_true, if_false]
  exact ⟨_, rfl, by simp [hsrc], rfl, rfl, rfl, rfl⟩

theorem handlePlusLine_claim {cfg : Cfg} {m : M} {l : L} (ht : plusLineTest m l = true) :
    ∃ m1, handlePlusLine cfg m l = .ok (plusLineFinish cfg (flushMP m1) l) ∧ m1.st = m.st ∧
      m1.counter = m.counter ∧ m1.source = m.source ∧ timeline m1 = timeline m ∧ m1.n = m.n := by
  unfold handlePlusLine
  simp only [ht, Bool.not_true, Bool.false_eq_true, if_false]
  exact ⟨_, rfl, rfl, rfl, rfl, rfl, rfl⟩

/-- a `--- ` line met while no old-file line is outstanding: a file header (state `DiffHeader`), no
hunk-line row -/
theorem chain_dashes {cfg : Cfg} {m m' : M} {l : L} (hsrc : m.source = .diffUnified)
    (hcnt : threeDashesExpected m.counter = true) (hd : isDashes l = true) (hc : l.commitRe = false)
    (e : chain cfg l Generated.handlerOrder m = .ok m') :
    m'.st = .diffHeader .unified ∧ m'.counter = m.counter ∧ m'.source = m.source ∧ BV m m' := by
  have hh : l.text.head? = some '-' := head_of_startsWith (p := threeDashes) (d := '-') (r := ['-', '-', ' ']) (by decide) hd
  have e1 := handleCommitMeta_not_mine cfg m l hc
  have e3 := handleDiffHeaderDiff_not_mine cfg m l (not_startsWith_of_head hh (p := Markers.diffLine) rfl (by decide))
  have e4 := handleFileOperation_not_mine cfg m l
    (by simp [not_startsWithAny_of_head hh (ps := Markers.fileOperationLine) (by decide)])
  have ht : minusLineTest m l = true := by
    unfold minusLineTest headerLineTest
    have h1 : startsWith l.text (Markers.minusLine.getD 0 []) = true := hd
    have h2 : (isDiffHeader m.st || decide (m.source = Source.diffUnified)) = true := by simp [hsrc]
    simp only [h1, h2, hcnt, Bool.and_self, Bool.true_or, Bool.true_and]
  have e6 : ∀ x, handlePlusLine cfg x l = .ok (false, x) := fun x => handlePlusLine_not_mine cfg x l
    (by simp [plusLineTest, not_startsWithAny_of_head hh (ps := Markers.plusLine) (by decide)])
  have e7 : ∀ x, handleHunkHeader cfg x l = .ok (false, x) := fun x => handleHunkHeader_not_mine cfg x l
    (not_startsWith_of_head hh (p := Markers.hunkHeader) rfl (by decide))
  have e8 : ∀ x, handleModeLine cfg x l = .ok (false, x) := fun x => handleModeLine_not_mine cfg x l
    (not_startsWith_of_head hh (p := Markers.oldMode) rfl (by decide))
    (not_startsWith_of_head hh (p := Markers.newMode) rfl (by decide))
  have e9 : ∀ x, handleMisc cfg x l = .ok (false, x) := fun x => handleMisc_not_mine cfg x l
    (not_startsWith_of_head hh (p := Markers.onlyIn) rfl (by decide))
    (not_startsWith_of_head hh (p := Markers.binaryFiles) rfl (by decide))
  have hS := not_startsWith_of_head hh (p := Markers.submoduleLog) rfl (by decide)
  rw [order_split] at e
  simp only [chain, handlerOf, e1, handleDiffStat, e3, e4] at e
  obtain ⟨m1, hm, hm1st, hm1c, hm1s, hm1t, hm1n⟩ := handleMinusLine_claim (cfg := cfg) ht hsrc
  simp only [hm] at e
  have pv1 : PV m m1 m1 := PV.start ((BV.refl m).of_tl hm1t hm1n)
  have pv2 := pv1.flushMP.shouldWriteGeneric cfg l
  generalize hp : shouldWriteGeneric cfg (flushMP m1) l = p at e pv2
  obtain ⟨b, m2⟩ := p
  have fin : ∀ y, PV m m1 y → y.st = .diffHeader .unified ∧ y.counter = m.counter ∧ y.source = m.source ∧ BV m y :=
    fun y pv => ⟨pv.st.trans hm1st, pv.counter.trans hm1c, pv.source.trans hm1s, pv.bv⟩
  cases b
  · simp only [e6, e7, e8, e9] at e
    exact fin _ (chain_tail pv2 (by rw [hm1st]; rfl) hS e)
  · simp only [Except.ok.injEq] at e
    subst e
    exact fin _ pv2

/-- a `+++ ` line after a `--- ` line (state `DiffHeader`): a file header, no hunk-line row -/
theorem chain_pluses {cfg : Cfg} {m m' : M} {l : L} (hst : m.st = .diffHeader .unified)
    (hd : isPluses l = true) (hc : l.commitRe = false)
    (e : chain cfg l Generated.handlerOrder m = .ok m') :
    m'.st = .diffHeader .unified ∧ m'.counter = m.counter ∧ m'.source = m.source ∧ BV m m' := by
  have hh : l.text.head? = some '+' := head_of_startsWith (p := threePluses) (d := '+') (r := ['+', '+', ' ']) (by decide) hd
  have e1 := handleCommitMeta_not_mine cfg m l hc
  have e3 := handleDiffHeaderDiff_not_mine cfg m l (not_startsWith_of_head hh (p := Markers.diffLine) rfl (by decide))
  have e4 := handleFileOperation_not_mine cfg m l
    (by simp [not_startsWithAny_of_head hh (ps := Markers.fileOperationLine) (by decide)])
  have e5 := handleMinusLine_not_mine cfg m l (by
    unfold minusLineTest
    simp only [not_startsWith_of_head hh (p := Markers.minusLine.getD 0 []) (d := '-') (r := ['-', '-', ' ']) (by decide) (by decide),
      not_startsWithAny_of_head hh (ps := Markers.minusLine.drop 1) (by decide), Bool.false_and, Bool.or_self, Bool.and_false])
  have ht : plusLineTest m l = true := by
    unfold plusLineTest
    simp [hst, isDiffHeader, startsWithAny_of_mem (p := threePluses) (ps := Markers.plusLine) (by decide) hd]
  have e7 : ∀ x, handleHunkHeader cfg x l = .ok (false, x) := fun x => handleHunkHeader_not_mine cfg x l
    (not_startsWith_of_head hh (p := Markers.hunkHeader) rfl (by decide))
  have e8 : ∀ x, handleModeLine cfg x l = .ok (false, x) := fun x => handleModeLine_not_mine cfg x l
    (not_startsWith_of_head hh (p := Markers.oldMode) rfl (by decide))
    (not_startsWith_of_head hh (p := Markers.newMode) rfl (by decide))
  have e9 : ∀ x, handleMisc cfg x l = .ok (false, x) := fun x => handleMisc_not_mine cfg x l
    (not_startsWith_of_head hh (p := Markers.onlyIn) rfl (by decide))
    (not_startsWith_of_head hh (p := Markers.binaryFiles) rfl (by decide))
  have hS := not_startsWith_of_head hh (p := Markers.submoduleLog) rfl (by decide)
  rw [order_split] at e
  simp only [chain, handlerOf, e1, handleDiffStat, e3, e4, e5] at e
  obtain ⟨m1, hm, hm1st', hm1c, hm1s, hm1t, hm1n⟩ := handlePlusLine_claim (cfg := cfg) ht
  have hm1st : m1.st = .diffHeader .unified := hm1st'.trans hst
  simp only [hm] at e
  have pv1 : PV m m1 m1 := PV.start ((BV.refl m).of_tl hm1t hm1n)
  have pv2 := pv1.flushMP.plusLineFinish cfg l
  generalize hp : plusLineFinish cfg (flushMP m1) l = p at e pv2
  obtain ⟨b, m2⟩ := p
  have fin : ∀ y, PV m m1 y → y.st = .diffHeader .unified ∧ y.counter = m.counter ∧ y.source = m.source ∧ BV m y :=
    fun y pv => ⟨pv.st.trans hm1st, pv.counter.trans hm1c, pv.source.trans hm1s, pv.bv⟩
  cases b
  · simp only [e7, e8, e9] at e
    exact fin _ (chain_tail pv2 (by rw [hm1st]; rfl) hS e)
  · simp only [Except.ok.injEq] at e
    subst e
    exact fin _ pv2

theorem handleDiffHeaderDiff_claim (cfg : Cfg) (m : M) {l : L} (hd : startsWith l.text Markers.diffLine = true) :
    ∃ y, handleDiffHeaderDiff cfg m l = .ok (true, y) ∧ PV m { flushMP m with st := diffLineState l } y := by
  have pv0 : PV m { flushMP m with st := diffLineState l } { flushMP m with st := diffLineState l } :=
    PV.start ((BV.refl m).flushMP.of_tl rfl rfl)
  have pv1 := pv0.pendingDiffName cfg
  have pv2 : PV m { flushMP m with st := diffLineState l }
      (diffLineFields (pendingDiffName cfg { flushMP m with st := diffLineState l }) l) :=
    ⟨pv1.bv.of_tl rfl rfl, pv1.st, pv1.counter, pv1.source⟩
  unfold handleDiffHeaderDiff
  simp only [hd, Bool.not_true, Bool.false_eq_true, if_false]
  split
  · exact ⟨_, rfl, pv2⟩
  · exact ⟨_, rfl, pv2.emitLineUnchanged l⟩

theorem handleAdditionalCases_claim (cfg : Cfg) (m : M) (l : L) (to : State) :
    ∃ b y, handleAdditionalCases cfg m l to = .ok (b, y) ∧ PV m { flushMP m with st := to } y ∧
      (b = false → y = { flushMP m with st := to }) := by
  have pv0 : PV m { flushMP m with st := to } { flushMP m with st := to } :=
    PV.start ((BV.refl m).flushMP.of_tl rfl rfl)
  unfold handleAdditionalCases
  split
  · exact ⟨true, _, rfl, pv0.emit.writeGeneric cfg _ _, fun h => by cases h⟩
  · exact ⟨false, _, rfl, pv0, fun _ => rfl⟩

/-- a `diff -u a b` command line: claimed by `handle_diff_header_diff_line`, no hunk-line row -/
theorem chain_cmd {cfg : Cfg} {m m' : M} {l : L} (hd : isCmd l = true) (hc : l.commitRe = false)
    (e : chain cfg l Generated.handlerOrder m = .ok m') :
    m'.st = .diffHeader .unified ∧ m'.counter = m.counter ∧ m'.source = m.source ∧ BV m m' := by
  simp only [isCmd, Bool.and_eq_true, Bool.not_eq_true'] at hd
  have hdl : diffLineState l = .diffHeader .unified := by unfold diffLineState; simp [hd.2]
  have e1 := handleCommitMeta_not_mine cfg m l hc
  obtain ⟨y, hy, pv⟩ := handleDiffHeaderDiff_claim cfg m hd.1
  rw [order_split] at e
  simp only [chain, handlerOf, e1, handleDiffStat, hy, Except.ok.injEq] at e
  subst e
  exact ⟨pv.st.trans hdl, pv.counter.trans (flushMP_counter m), pv.source.trans (flushMP_source m), pv.bv⟩

/-- an `Only in …` line: claimed by `handle_diff_header_misc_line`, no hunk-line row -/
theorem chain_onlyIn {cfg : Cfg} {m m' : M} {l : L} (hsrc : m.source = .diffUnified)
    (hto : (if isDiffHeader m.st then m.st else .diffHeader .unified) = .diffHeader .unified)
    (hd : isOnlyIn l = true) (hc : l.commitRe = false)
    (e : chain cfg l Generated.handlerOrder m = .ok m') :
    m'.st = .diffHeader .unified ∧ m'.counter = m.counter ∧ m'.source = m.source ∧ BV m m' := by
  have hh : l.text.head? = some 'O' := head_of_startsWith (p := Markers.onlyIn) rfl hd
  have e1 := handleCommitMeta_not_mine cfg m l hc
  have e3 := handleDiffHeaderDiff_not_mine cfg m l (not_startsWith_of_head hh (p := Markers.diffLine) rfl (by decide))
  have e4 := handleFileOperation_not_mine cfg m l
    (by simp [not_startsWithAny_of_head hh (ps := Markers.fileOperationLine) (by decide)])
  have e5 := handleMinusLine_not_mine cfg m l (by
    unfold minusLineTest
    simp only [not_startsWith_of_head hh (p := Markers.minusLine.getD 0 []) (d := '-') (r := ['-', '-', ' ']) (by decide) (by decide),
      not_startsWithAny_of_head hh (ps := Markers.minusLine.drop 1) (by decide), Bool.false_and, Bool.or_self, Bool.and_false])
  have e6 := handlePlusLine_not_mine cfg m l
    (by simp [plusLineTest, not_startsWithAny_of_head hh (ps := Markers.plusLine) (by decide)])
  have e7 := handleHunkHeader_not_mine cfg m l (not_startsWith_of_head hh (p := Markers.hunkHeader) rfl (by decide))
  have e8 := handleModeLine_not_mine cfg m l
    (not_startsWith_of_head hh (p := Markers.oldMode) rfl (by decide))
    (not_startsWith_of_head hh (p := Markers.newMode) rfl (by decide))
  have hS := not_startsWith_of_head hh (p := Markers.submoduleLog) rfl (by decide)
  have hB := not_startsWith_of_head hh (p := Markers.binaryFiles) rfl (by decide)
  have hO : startsWith l.text Markers.onlyIn = true := hd
  rw [order_split] at e
  simp only [chain, handlerOf, e1, handleDiffStat, e3, e4, e5, e6, e7, e8] at e
  have hmisc : handleMisc cfg m l = handleAdditionalCases cfg m l (.diffHeader .unified) := by
    unfold handleMisc
    simp only [hsrc, hO, hB, decide_true, Bool.and_self, Bool.not_true, Bool.false_and, Bool.false_eq_true, if_false,
      and_false, hto]
  obtain ⟨b, y, hy, pv, hyf⟩ := handleAdditionalCases_claim cfg m l (.diffHeader .unified)
  simp only [hmisc, hy] at e
  have fin : ∀ y, PV m { flushMP m with st := State.diffHeader DiffType.unified } y →
      y.st = .diffHeader .unified ∧ y.counter = m.counter ∧ y.source = m.source ∧ BV m y :=
    fun y pv => ⟨pv.st, pv.counter.trans (flushMP_counter m), pv.source.trans (flushMP_source m), pv.bv⟩
  cases b
  · simp only at e
    exact fin _ (chain_tail pv rfl hS e)
  · simp only [Except.ok.injEq] at e
    subst e
    exact fin _ pv

/-- unified hunk states -/
def uniHunk : State → Bool
  | .hunkHeader .unified .. | .hunkZero .unified | .hunkMinus .unified | .hunkPlus .unified => true
  | _ => false

/-- states from which a hunk header opens a unified hunk -/
def uniBase (s : State) : Prop := s = .unknown ∨ s = .diffHeader .unified ∨ uniHunk s = true

theorem uniHunk_hunkState {s : State} (h : uniHunk s = true) : isHunkState s = true := by
  cases s <;> simp_all [uniHunk, isHunkState]

theorem uniHunk_nomc {s : State} (h : uniBase s) : isMergeConflict s = false := by
  rcases h with h | h | h
  · subst h; rfl
  · subst h; rfl
  · cases s <;> simp_all [uniHunk, isMergeConflict]

theorem uniHunk_cases {s : State} (h : uniHunk s = true) :
    (∃ hh line raw src, s = .hunkHeader .unified hh line raw src) ∨ s = .hunkZero .unified ∨ s = .hunkMinus .unified ∨
      s = .hunkPlus .unified := by
  cases s with
  | hunkHeader dt hh line raw src => cases dt <;> simp_all [uniHunk]
  | hunkZero dt => cases dt <;> simp_all [uniHunk]
  | hunkMinus dt => cases dt <;> simp_all [uniHunk]
  | hunkPlus dt => cases dt <;> simp_all [uniHunk]
  | _ => simp [uniHunk] at h

/-- a hunk header that announces `ml` old-file lines, met while the counter is live: the counter
becomes `ml`, the state a pending unified hunk header, no hunk-line row -/
theorem chain_hunkHeader {cfg : Cfg} {m m' : M} {l : L} {ml : Nat} (hsrc : m.source = .diffUnified)
    (hcnt : m.counter = 0) (hst : uniBase m.st) (hd : announcedOld l = some ml) (hc : l.commitRe = false)
    (e : chain cfg l Generated.handlerOrder m = .ok m') :
    uniHunk m'.st = true ∧ m'.counter = (ml : Int) ∧ m'.source = m.source ∧ BV m m' := by
  unfold announcedOld at hd
  split at hd
  · rename_i hsw
    split at hd
    · rename_i hh hparse
      split at hd
      · rename_i a ml' c2 rest hcoords
        -- names: first coordinate pair (a, ml')
        split at hd
        · rename_i hlt
          cases hd
          have hhd : l.text.head? = some '@' := head_of_startsWith (p := Markers.hunkHeader) rfl hsw
          have e1 := handleCommitMeta_not_mine cfg m l hc
          have e3 := handleDiffHeaderDiff_not_mine cfg m l (not_startsWith_of_head hhd (p := Markers.diffLine) rfl (by decide))
          have e4 := handleFileOperation_not_mine cfg m l
            (by simp [not_startsWithAny_of_head hhd (ps := Markers.fileOperationLine) (by decide)])
          have e5 := handleMinusLine_not_mine cfg m l (by
            unfold minusLineTest
            simp only [not_startsWith_of_head hhd (p := Markers.minusLine.getD 0 []) (d := '-') (r := ['-', '-', ' ']) (by decide) (by decide),
              not_startsWithAny_of_head hhd (ps := Markers.minusLine.drop 1) (by decide), Bool.false_and, Bool.or_self, Bool.and_false])
          have e6 := handlePlusLine_not_mine cfg m l
            (by simp [plusLineTest, not_startsWithAny_of_head hhd (ps := Markers.plusLine) (by decide)])
          have hnmc := uniHunk_nomc hst
          rw [order_split] at e
          simp only [chain, handlerOf, e1, handleDiffStat, e3, e4, e5, e6] at e
          unfold handleHunkHeader at e
          simp only [hsw, hnmc, Bool.not_false, Bool.and_self, Bool.not_true, Bool.false_eq_true, if_false, hparse,
            Except.ok.injEq] at e
          subst e
          have hdt : hunkHeaderDiffType m l = .unified := by
            unfold hunkHeaderDiffType
            rcases hst with h | h | h
            · rw [h]
            · rw [h]
            · rcases uniHunk_cases h with ⟨hh', line, raw, src, h'⟩ | h' | h' | h' <;> rw [h']
          refine ⟨by simp [hdt, uniHunk], ?_, rfl, (BV.refl m).of_tl rfl rfl⟩
          show hunkHeaderCounter m hh = (ml : Int)
          unfold hunkHeaderCounter countFrom
          simp [hcnt, hcoords, hlt]
        · cases hd
      · cases hd
    · cases hd
  · cases hd

-- hunk lines ------------------------------------------------------------------------------

theorem bodyChar_of_kind {l : L} (hk : oldLine l = true ∨ newOnlyLine l = true) :
    l.text.head?.all bodyChar = true ∧
      ∃ c rest, l.text = c :: rest ∧ (c = '-' ∨ c = ' ' ∨ c = '+' ∨ c = '\\') := by
  cases ht : l.text with
  | nil => simp [oldLine, newOnlyLine, ht] at hk
  | cons c rest =>
    have : c = '-' ∨ c = ' ' ∨ c = '+' ∨ c = '\\' := by
      rcases hk with h | h
      · unfold oldLine at h; rw [ht] at h; simp only [List.head?_cons] at h
        split at h
        · rename_i h'; left; exact (Option.some.inj h')
        · rename_i h'; right; left; exact (Option.some.inj h')
        · cases h
      · unfold newOnlyLine at h; rw [ht] at h; simp only [List.head?_cons] at h
        split at h
        · rename_i h'; right; right; left; exact (Option.some.inj h')
        · rename_i h'; right; right; right; exact (Option.some.inj h')
        · cases h
    refine ⟨?_, c, rest, rfl, this⟩
    rcases this with h | h | h | h <;> subst h <;> simp [bodyChar]

/-- a hunk line of a plain diff met in a unified hunk state — a `--- …` line only while old-file
lines are outstanding — is handled by `handle_hunk_line` and by no handler before it -/
theorem chain_body (cfg : Cfg) (m : M) (l : L) (hsrc : m.source = .diffUnified) (hst : uniHunk m.st = true)
    (hb : l.text.head?.all bodyChar = true) (hc : l.commitRe = false) (hsub : l.submodule = none)
    (hcnt : isDashes l = true → 0 < m.counter) :
    chain cfg l Generated.handlerOrder m =
      (match handleHunkLine cfg m l with
       | .ok (_, m') => .ok m'
       | .error e => .error e) := by
  have hhs := uniHunk_hunkState hst
  have hnd : isDiffHeader m.st = false := by
    cases hs : m.st <;> simp [hs, isHunkState, isDiffHeader] at hhs ⊢
  have hnm : isMergeConflict m.st = false := uniHunk_nomc (Or.inr (Or.inr hst))
  have hun : hunkCombinedParents m.st = none := by
    rcases uniHunk_cases hst with ⟨hh', line, raw, src, h'⟩ | h' | h' | h' <;> rw [h'] <;> rfl
  have e1 := handleCommitMeta_not_mine cfg m l hc
  have e3 := handleDiffHeaderDiff_not_mine cfg m l (startsWith_false_of_bodyHead hb nonBody_diffLine)
  have e4 := handleFileOperation_not_mine cfg m l
    (by simp [startsWithAny_false_of_bodyHead hb (ps := Markers.fileOperationLine) (by decide)])
  have e5 := handleMinusLine_not_mine cfg m l (by
    unfold minusLineTest
    have h2 := startsWithAny_false_of_bodyHead hb (ps := Markers.minusLine.drop 1) (by decide)
    cases h1 : startsWith l.text (Markers.minusLine.getD 0 [])
    · simp only [h1, h2, Bool.false_and, Bool.or_self, Bool.and_false]
    · have hpos := hcnt h1
      have h3 : threeDashesExpected m.counter = false := by
        unfold threeDashesExpected
        have : m.counter > -4096 := by omega
        simp only [this, if_true, decide_eq_false_iff_not]
        omega
      simp only [h1, h2, h3, Bool.and_false, Bool.or_self])
  have e6 := handlePlusLine_not_mine cfg m l (by simp [plusLineTest, hnd])
  have e7 := handleHunkHeader_not_mine cfg m l (startsWith_false_of_bodyHead hb nonBody_hunkHeader)
  have e8 := handleModeLine_not_mine cfg m l (startsWith_false_of_bodyHead hb nonBody_oldMode)
    (startsWith_false_of_bodyHead hb nonBody_newMode)
  have e9 := handleMisc_not_mine cfg m l (startsWith_false_of_bodyHead hb nonBody_onlyIn)
    (startsWith_false_of_bodyHead hb nonBody_binaryFiles)
  have e10 := handleSubmoduleLog_not_mine cfg m l (startsWith_false_of_bodyHead hb nonBody_submoduleLog)
  have e11 := handleSubmoduleShort_not_mine cfg m l hsub
  have e12 := handleMergeConflict_not_mine cfg m l hun hnm
  simp only [Generated.handlerOrder, chain, handlerOf, e1, handleDiffStat, e3, e4, e5, e6, e7, e8, e9, e10, e11, e12]
  unfold handleHunkLine
  simp only [hhs, Bool.not_true, Bool.false_eq_true, if_false]
  cases hunkLinePre cfg m with
  | error e => rfl
  | ok m2 =>
    simp only
    cases hunkLinePush cfg m2 l with
    | error e => rfl
    | ok m3 => rfl

theorem hunkLinePre_cs {cfg : Cfg} {m m' : M} (e : hunkLinePre cfg m = .ok m') :
    m'.counter = m.counter ∧ m'.source = m.source := by
  unfold hunkLinePre at e
  simp only at e
  have h1 : (if m.minus.length > cfg.bufSize ∨ m.plus.length > cfg.bufSize then flushMP m else m).counter = m.counter := by
    split <;> simp
  have h2 : (if m.minus.length > cfg.bufSize ∨ m.plus.length > cfg.bufSize then flushMP m else m).source = m.source := by
    split <;> simp
  split at e
  · unfold emitHunkHeader at e
    split at e
    · cases e
    · cases e
      exact ⟨by simp [h1], by simp [h2]⟩
  · cases e; exact ⟨h1, h2⟩

theorem uniHunk_diffType {s : State} (h : uniHunk s = true) : hunkDiffType s = some .unified := by
  rcases uniHunk_cases h with ⟨hh', line, raw, src, h'⟩ | h' | h' | h' <;> rw [h'] <;> rfl

theorem uniHunk_stateDiffType {s : State} (h : uniHunk s = true) : stateDiffType s = .unified := by
  rcases uniHunk_cases h with ⟨hh', line, raw, src, h'⟩ | h' | h' | h' <;> rw [h'] <;> rfl

/-- the second part of `handle_hunk_line` on a hunk line of a plain diff: the row is `plainRow`, the
counter goes down by one for a line of the old file -/
theorem hunkLinePush_plain {cfg : Cfg} {m m' : M} {l : L} (hu : uniHunk m.st = true)
    (hk : oldLine l = true ∨ newOnlyLine l = true) (e : hunkLinePush cfg m l = .ok m')
    (hplus : isHunkPlus m.st = false → m.plus = []) :
    timeline m' = timeline m ++ [plainRow cfg l m.n] ∧ uniHunk m'.st = true ∧ m'.source = m.source ∧
      m'.counter = m.counter - (if oldLine l then 1 else 0) := by
  have hdt := uniHunk_diffType hu
  have hn : newLineState m.st l = .ok (classifyUnified l) := by unfold newLineState; rw [hdt]
  obtain ⟨_, c, rest, ht, hcs⟩ := bodyChar_of_kind hk
  rcases hcs with hcc | hcc | hcc | hcc <;> subst hcc
  · -- removed line
    have hb : firstIs l isMarker := ⟨'-', rest, ht, rfl⟩
    have htl := hunkLinePush_unified hdt hb e hplus
    have hrow : plainRow cfg l m.n = expectedRow cfg l m.n := by unfold plainRow; simp [ht]
    have hold : oldLine l = true := by unfold oldLine; simp [ht]
    have hcl : classifyUnified l = some (.minus, .unified) := by unfold classifyUnified; simp [ht]
    unfold hunkLinePush at e
    simp only [hn, hcl, nParents] at e
    cases e
    refine ⟨by rw [hrow]; exact htl, rfl, ?_, ?_⟩
    · split <;> simp
    · simp only [hold, if_true]; split <;> simp
  · -- unchanged line
    have hb : firstIs l isMarker := ⟨' ', rest, ht, rfl⟩
    have htl := hunkLinePush_unified hdt hb e hplus
    have hrow : plainRow cfg l m.n = expectedRow cfg l m.n := by unfold plainRow; simp [ht]
    have hold : oldLine l = true := by unfold oldLine; simp [ht]
    have hcl : classifyUnified l = some (.zero, .unified) := by unfold classifyUnified; simp [ht]
    unfold hunkLinePush at e
    simp only [hn, hcl, nParents] at e
    cases e
    exact ⟨by rw [hrow]; exact htl, rfl, by simp, by simp [hold]⟩
  · -- added line
    have hb : firstIs l isMarker := ⟨'+', rest, ht, rfl⟩
    have htl := hunkLinePush_unified hdt hb e hplus
    have hrow : plainRow cfg l m.n = expectedRow cfg l m.n := by unfold plainRow; simp [ht]
    have hold : oldLine l = false := by unfold oldLine; simp [ht]
    have hcl : classifyUnified l = some (.plus, .unified) := by unfold classifyUnified; simp [ht]
    unfold hunkLinePush at e
    simp only [hn, hcl, nParents] at e
    cases e
    exact ⟨by rw [hrow]; exact htl, rfl, rfl, by simp [hold]⟩
  · -- `\ No newline at end of file`
    have hrow : plainRow cfg l m.n = { kind := .other, text := Text.expand cfg.tab l.raw, src := m.n } := by
      unfold plainRow; simp [ht]
    have hold : oldLine l = false := by unfold oldLine; simp [ht]
    have hcl : classifyUnified l = none := by unfold classifyUnified; simp [ht]
    unfold hunkLinePush at e
    simp only [hn, hcl] at e
    cases e
    refine ⟨?_, by simp [uniHunk_stateDiffType hu, uniHunk], by simp, by simp [hold]⟩
    rw [hrow, timeline_of_flushed m]; simp [timeline]

theorem plainRow_body (cfg : Cfg) (l : L) (n : Nat) : isBody (plainRow cfg l n).kind = true := by
  unfold plainRow; split
  · rfl
  · exact expectedRow_body cfg l n

theorem plainRow_src (cfg : Cfg) (l : L) (n : Nat) : (plainRow cfg l n).src = n := by
  unfold plainRow; split
  · rfl
  · exact expectedRow_src cfg l n

/-- `handle_hunk_line` on a hunk line of a plain diff, in a unified hunk state -/
theorem handleHunkLine_plain {cfg : Cfg} {m m' : M} {l : L} {b : Bool} (hu : uniHunk m.st = true)
    (hk : oldLine l = true ∨ newOnlyLine l = true) (g : Good m) (e : handleHunkLine cfg m l = .ok (b, m')) :
    uniHunk m'.st = true ∧ m'.source = m.source ∧ m'.counter = m.counter - (if oldLine l then 1 else 0) ∧
      bodyTL m' = bodyTL m ++ [plainRow cfg l m.n] := by
  have hs' := uniHunk_hunkState hu
  unfold handleHunkLine at e
  split at e
  · rename_i hst; simp [hs'] at hst
  · split at e
    · cases e
    · rename_i m2 e2
      split at e
      · cases e
      · rename_i m3 e3
        cases e
        obtain ⟨r2, hst2, hhdr, _, _⟩ := hunkLinePre_spec e2 g
        obtain ⟨pre, htl2, hkinds⟩ := hunkLinePre_rows e2
        obtain ⟨hc2, hs2⟩ := hunkLinePre_cs e2
        have hplus : isHunkPlus m2.st = false → m2.plus = [] := by
          intro hnp
          rw [hst2] at hnp
          rcases isHunkState_cases hs' with h | ⟨dt, h⟩ | ⟨dt, h⟩ | ⟨dt, h⟩
          · exact (hhdr h).2
          · have := (g.quiet (by rw [h]; rfl)).2
            rcases r2.shrink.2 with s | s <;> simp [s, this]
          · have := g.noPlus (by rw [h]; rfl)
            rcases r2.shrink.2 with s | s <;> simp [s, this]
          · rw [h] at hnp; simp [isHunkPlus] at hnp
        obtain ⟨htl3, hu3, hs3, hc3⟩ := hunkLinePush_plain (by rw [hst2]; exact hu) hk e3 hplus
        have hpre : pre.filter (fun r => isBody r.kind) = [] := by
          refine filter_nonbody ?_
          intro x hx
          obtain ⟨h1, h2, h3, h4⟩ := hkinds x hx
          cases hk' : x.kind <;> simp_all [isBody]
        refine ⟨by simpa using hu3, by simp [hs3, hs2], by simp [hc3, hc2], ?_⟩
        unfold bodyTL
        rw [timeline_emit, htl3, htl2, r2.ext.n]
        simp [List.filter_append, hpre, plainRow_body]

-- the simulation ---------------------------------------------------------------------------

/-- the machine agrees with the reference reading: plain-diff source; between sections the counter
is 0 (so `--- ` is expected); inside a hunk the counter IS the number of old-file lines still to
come and the state is a unified hunk state -/
def Sim (s : PS) (m : M) : Prop :=
  m.source = .diffUnified ∧
  match s with
  | .top => m.counter = 0 ∧ (m.st = .unknown ∨ m.st = .diffHeader .unified)
  | .afterMinus => m.counter = 0 ∧ m.st = .diffHeader .unified
  | .hunk rem => m.counter = (rem : Int) ∧ uniHunk m.st = true

theorem outside_sim {cfg : Cfg} {m m' : M} {l : L} {s' : PS} {b : Bool} (hsrc : m.source = .diffUnified)
    (hcnt : m.counter = 0) (hst : uniBase m.st) (hc : l.commitRe = false)
    (hn : plainOutside l = some (s', b)) (e : chain cfg l Generated.handlerOrder m = .ok m') :
    Sim s' m' ∧ BV m m' ∧ b = false := by
  unfold plainOutside at hn
  split at hn
  · rename_i hd
    cases hn
    obtain ⟨h1, h2, h3, h4⟩ := chain_dashes hsrc (by rw [hcnt]; decide) hd hc e
    exact ⟨⟨h3.trans hsrc, h2.trans hcnt, h1⟩, h4, rfl⟩
  · split at hn
    · rename_i hd
      cases hn
      obtain ⟨h1, h2, h3, h4⟩ := chain_cmd hd hc e
      exact ⟨⟨h3.trans hsrc, h2.trans hcnt, Or.inr h1⟩, h4, rfl⟩
    · split at hn
      · rename_i hd
        cases hn
        have hto : (if isDiffHeader m.st then m.st else .diffHeader .unified) = .diffHeader .unified := by
          rcases hst with h | h | h
          · rw [h]; rfl
          · rw [h]; rfl
          · rcases uniHunk_cases h with ⟨hh', line, raw, src, h'⟩ | h' | h' | h' <;> rw [h'] <;> rfl
        obtain ⟨h1, h2, h3, h4⟩ := chain_onlyIn hsrc hto hd hc e
        exact ⟨⟨h3.trans hsrc, h2.trans hcnt, Or.inr h1⟩, h4, rfl⟩
      · split at hn
        · rename_i ml hd
          cases hn
          obtain ⟨h1, h2, h3, h4⟩ := chain_hunkHeader hsrc hcnt hst hd hc e
          exact ⟨⟨h3.trans hsrc, h2, h1⟩, h4, rfl⟩
        · cases hn

/-- one line, at the level of the handler chain -/
theorem chain_sim {cfg : Cfg} {s s' : PS} {b : Bool} {m m' : M} {l : L} (hs : Sim s m) (g : Good m)
    (hn : plainNext s l = some (s', b)) (e : chain cfg l Generated.handlerOrder m = .ok m') :
    Sim s' m' ∧ m'.n = m.n ∧ bodyTL m' = bodyTL m ++ (if b then [plainRow cfg l m.n] else []) := by
  obtain ⟨hsrc, hs⟩ := hs
  unfold plainNext at hn
  split at hn
  · cases hn
  · rename_i hc
    have hc : l.commitRe = false := by simpa using hc
    have body : ∀ (rem : Nat), m.counter = (rem : Int) → uniHunk m.st = true → l.submodule.isSome = false →
        (oldLine l = true ∨ newOnlyLine l = true) → (isDashes l = true → 0 < m.counter) →
        (uniHunk m'.st = true ∧ m'.source = m.source ∧ m'.counter = m.counter - (if oldLine l then 1 else 0)) ∧
          m'.n = m.n ∧ bodyTL m' = bodyTL m ++ [plainRow cfg l m.n] := by
      intro rem hcnt hu hsub hk hd
      have hsub' : l.submodule = none := by cases h : l.submodule <;> simp [h] at hsub ⊢
      rw [chain_body cfg m l hsrc hu (bodyChar_of_kind hk).1 hc hsub' hd] at e
      cases hh : handleHunkLine cfg m l with
      | error err => simp [hh] at e
      | ok p =>
        obtain ⟨b', m2⟩ := p
        simp only [hh, Except.ok.injEq] at e
        subst e
        obtain ⟨h1, h2, h3, h4⟩ := handleHunkLine_plain hu hk g hh
        obtain ⟨_, hn', _⟩ := handleHunkLine_body (uniHunk_hunkState hu) g hh
        exact ⟨⟨h1, h2, h3⟩, hn', h4⟩
    split at hn
    · -- top
      obtain ⟨hcnt, hst⟩ := hs
      have hub : uniBase m.st := by rcases hst with h | h; exact Or.inl h; exact Or.inr (Or.inl h)
      obtain ⟨h1, h2, h3⟩ := outside_sim hsrc hcnt hub hc hn e
      subst h3
      exact ⟨h1, h2.n, by simpa using h2.body⟩
    · -- after `--- `
      obtain ⟨hcnt, hst⟩ := hs
      split at hn
      · rename_i hd
        cases hn
        obtain ⟨h1, h2, h3, h4⟩ := chain_pluses hst hd hc e
        exact ⟨⟨h3.trans hsrc, h2.trans hcnt, Or.inr h1⟩, h4.n, by simpa using h4.body⟩
      · cases hn
    · -- inside a hunk, old-file lines outstanding
      rename_i rem
      obtain ⟨hcnt, hu⟩ := hs
      split at hn
      · cases hn
      · rename_i hsub
        have hsub : l.submodule.isSome = false := by simpa using hsub
        split at hn
        · rename_i hold
          cases hn
          obtain ⟨⟨h1, h2, h3⟩, h4, h5⟩ := body (rem + 1) hcnt hu hsub (Or.inl hold) (fun _ => by rw [hcnt]; omega)
          refine ⟨⟨h2.trans hsrc, ?_, h1⟩, h4, by simpa using h5⟩
          rw [h3, hcnt]; simp [hold]
        · rename_i hold
          have hold : oldLine l = false := by simpa using hold
          split at hn
          · rename_i hnew
            cases hn
            obtain ⟨⟨h1, h2, h3⟩, h4, h5⟩ := body (rem + 1) hcnt hu hsub (Or.inr hnew) (fun _ => by rw [hcnt]; omega)
            refine ⟨⟨h2.trans hsrc, ?_, h1⟩, h4, by simpa using h5⟩
            rw [h3, hcnt]; simp [hold]
          · cases hn
    · -- inside a hunk, every old-file line seen
      obtain ⟨hcnt, hu⟩ := hs
      split at hn
      · rename_i hnew
        split at hn
        · cases hn
        · rename_i hsub
          have hsub : l.submodule.isSome = false := by simpa using hsub
          cases hn
          have hold : oldLine l = false := by
            unfold newOnlyLine at hnew
            unfold oldLine
            split at hnew <;> simp_all
          have hnd : isDashes l = true → 0 < m.counter := by
            intro hd
            have h1 : l.text.head? = some '-' :=
              head_of_startsWith (p := threeDashes) (d := '-') (r := ['-', '-', ' ']) (by decide) hd
            unfold newOnlyLine at hnew
            rw [h1] at hnew
            simp at hnew
          obtain ⟨⟨h1, h2, h3⟩, h4, h5⟩ := body 0 hcnt hu hsub (Or.inr hnew) hnd
          refine ⟨⟨h2.trans hsrc, ?_, h1⟩, h4, by simpa using h5⟩
          rw [h3, hcnt]; simp [hold]
      · obtain ⟨h1, h2, h3⟩ := outside_sim hsrc (by simpa using hcnt) (Or.inr (Or.inr hu)) hc hn e
        subst h3
        exact ⟨h1, h2.n, by simpa using h2.body⟩

theorem plainRows_cons {cfg : Cfg} {s s' : PS} {b : Bool} {l : L} (n : Nat) (ls : List L)
    (hn : plainNext s l = some (s', b)) :
    plainRows cfg s n (l :: ls) = (if b then [plainRow cfg l n] else []) ++ plainRows cfg s' (n + 1) ls := by
  rw [plainRows.eq_2]
  cases b <;> simp [hn]

theorem stepInit_of_sim {s : PS} {m : M} (hs : Sim s m) (l : L) : stepInit m l = m := by
  unfold stepInit; simp [hs.1]

/-- one input line -/
theorem step_sim {cfg : Cfg} {s s' : PS} {b : Bool} {m m' : M} {l : L} (hs : Sim s (stepInit m l)) (g : Good m)
    (hn : plainNext s l = some (s', b)) (e : step cfg m l = .ok m') :
    Sim s' m' ∧ m'.n = m.n + 1 ∧ bodyTL m' = bodyTL m ++ (if b then [plainRow cfg l m.n] else []) := by
  unfold step at e
  split at e
  · cases e
  · rename_i m2 e2
    cases e
    obtain ⟨htl, hn0, hst0⟩ := stepInit_body m l
    have g0 := (stepInit_stepS l g).good
    obtain ⟨h1, h2, h3⟩ := chain_sim hs g0 hn e2
    refine ⟨h1, by show m2.n + 1 = m.n + 1; rw [h2, hn0], ?_⟩
    show bodyTL m2 = _
    rw [h3, bodyTL_congr htl, hn0]

theorem runFrom_sim {cfg : Cfg} : ∀ (ls : List L) {s : PS} {m m' : M}, Sim s m → Good m →
    plainAccepts s ls = true → runFrom cfg m ls = .ok m' →
    bodyTL m' = bodyTL m ++ plainRows cfg s m.n ls
  | [], s, m, m', _, _, _, e => by simp only [runFrom] at e; cases e; simp [plainRows]
  | l :: ls, s, m, m', hs, g, hacc, e => by
    simp only [runFrom] at e
    split at e
    · cases e
    · rename_i m1 e1
      unfold plainAccepts at hacc
      cases hn : plainNext s l with
      | none => simp [hn] at hacc
      | some p =>
        obtain ⟨s', b⟩ := p
        simp only [hn] at hacc
        obtain ⟨h1, h2, h3⟩ := step_sim (by rw [stepInit_of_sim hs]; exact hs) g hn e1
        have ih := runFrom_sim ls h1 (step_spec e1 g).1 hacc e
        rw [ih, h3, h2, plainRows_cons m.n ls hn]
        simp

/-- the input is plain `diff -u` output: its first line tells so (`detect_source`), and the reference
reading accepts it (sections `--- ` / `+++ ` / hunks whose headers announce the true number of
old-file lines, `diff -u …` command lines, `Only in …` lines) -/
def PlainInput (ls : List L) : Prop :=
  (∃ l0 rest, ls = l0 :: rest ∧ detectSource l0.text = .diffUnified) ∧ plainAccepts .top ls = true

/-- **Plain `diff -u`: the hunk-line rows of the output are exactly the hunk lines of the reference
reading, in order, each shown by its `plainRow`.** For every configuration of the model and every
plain `diff -u` input whose hunk headers announce the true number of old-file lines. -/
theorem run_plain_rows {cfg : Cfg} {ls : List L} {m : M} (hin : PlainInput ls) (e : run cfg ls = .ok m) :
    m.out.filter (fun r => isBody r.kind) = plainRows cfg .top 0 ls := by
  obtain ⟨⟨l0, rest, hls, hdet⟩, hacc⟩ := hin
  subst hls
  have hout := (run_spec e).2
  unfold run at e
  split at e
  · cases e
  · rename_i m1 e1
    simp only [runFrom] at e1
    split at e1
    · cases e1
    · rename_i m0 e0
      have hs0 : Sim .top (stepInit {} l0) := by
        unfold stepInit armCounter
        simp [hdet, Markers.prepareToCount, Sim]
      unfold plainAccepts at hacc
      cases hn : plainNext .top l0 with
      | none => simp [hn] at hacc
      | some p =>
        obtain ⟨s', b⟩ := p
        simp only [hn] at hacc
        obtain ⟨h1, h2, h3⟩ := step_sim hs0 good_init hn e0
        have ih := runFrom_sim rest h1 (step_spec e0 good_init).1 hacc e1
        have hfin : bodyTL m = bodyTL m1 := tailOps_body _ e
        rw [← hout]
        show bodyTL m = _
        rw [hfin, ih, h3, h2]
        have hb0 : bodyTL ({} : M) = [] := by simp [bodyTL, timeline]
        rw [hb0, plainRows_cons 0 rest hn]
        simp

-- one line of a plain diff, whatever precedes and follows it ---------------------------------

theorem plainRows_src {cfg : Cfg} : ∀ (ls : List L) (s : PS) (n : Nat), ∀ r ∈ plainRows cfg s n ls, n ≤ r.src
  | [], s, n, r, hr => by simp [plainRows] at hr
  | l :: ls, s, n, r, hr => by
    cases hn : plainNext s l with
    | none => rw [plainRows.eq_2] at hr; simp [hn] at hr
    | some p =>
      obtain ⟨s', b⟩ := p
      rw [plainRows_cons n ls hn] at hr
      rcases List.mem_append.mp hr with h | h
      · cases b
        · simp at h
        · simp at h; subst h; rw [plainRow_src]; omega
      · have := plainRows_src ls s' (n + 1) r h; omega

theorem plainRows_src_lt {cfg : Cfg} : ∀ (ls : List L) (s : PS) (n : Nat), ∀ r ∈ plainRows cfg s n ls,
    r.src < n + ls.length
  | [], s, n, r, hr => by simp [plainRows] at hr
  | l :: ls, s, n, r, hr => by
    cases hn : plainNext s l with
    | none => rw [plainRows.eq_2] at hr; simp [hn] at hr
    | some p =>
      obtain ⟨s', b⟩ := p
      rw [plainRows_cons n ls hn] at hr
      rcases List.mem_append.mp hr with h | h
      · cases b
        · simp at h
        · simp at h; subst h; rw [plainRow_src]; simp
      · have := plainRows_src_lt ls s' (n + 1) r h
        simp only [List.length_cons]; omega

theorem plainRows_append {cfg : Cfg} : ∀ (pre : List L) (s s1 : PS) (n : Nat) (post : List L),
    plainAfter s pre = some s1 →
    plainRows cfg s n (pre ++ post) = plainRows cfg s n pre ++ plainRows cfg s1 (n + pre.length) post
  | [], s, s1, n, post, h => by
    simp only [plainAfter, Option.some.injEq] at h
    subst h; simp [plainRows]
  | l :: pre, s, s1, n, post, h => by
    rw [plainAfter.eq_2] at h
    cases hn : plainNext s l with
    | none => simp [hn] at h
    | some p =>
      obtain ⟨s', b⟩ := p
      simp only [hn] at h
      rw [List.cons_append, plainRows_cons n _ hn, plainRows_cons n _ hn, plainRows_append pre s' s1 (n + 1) post h]
      simp only [List.length_cons, List.append_assoc]
      congr 3
      omega

/-- **A line of a plain `diff -u`, whatever precedes and follows it.** If the reference reading
takes line `l` (at index `pre.length`) for a hunk line, delta's output has exactly one hunk-line row
with that index, and it is `plainRow`; if it takes it for anything else (`--- ` / `+++ ` of the next
section, `@@`, a `diff` command line, `Only in`), there is none. -/
theorem run_plain_line {cfg : Cfg} {pre post : List L} {l : L} {s s' : PS} {b : Bool} {m : M}
    (hin : PlainInput (pre ++ l :: post)) (hpre : plainAfter .top pre = some s)
    (hn : plainNext s l = some (s', b)) (e : run cfg (pre ++ l :: post) = .ok m) :
    (m.out.filter (fun r => isBody r.kind)).filter (fun r => r.src = pre.length) =
      if b then [plainRow cfg l pre.length] else [] := by
  rw [run_plain_rows hin e, plainRows_append pre .top s 0 (l :: post) hpre, plainRows_cons _ post hn]
  simp only [Nat.zero_add, List.filter_append]
  have c1 : (plainRows cfg .top 0 pre).filter (fun r => r.src = pre.length) = [] := by
    rw [List.filter_eq_nil_iff]
    intro r hr
    have := plainRows_src_lt pre .top 0 r hr
    simp; omega
  have c3 : (plainRows cfg s' (pre.length + 1) post).filter (fun r => r.src = pre.length) = [] := by
    rw [List.filter_eq_nil_iff]
    intro r hr
    have := plainRows_src post s' (pre.length + 1) r hr
    simp; omega
  rw [c1, c3]
  cases b <;> simp [plainRow_src]

theorem count_src_eq_filter (rs : List Row) (k : Nat) :
    (rs.map (·.src)).count k = (rs.filter (fun r => r.src = k)).length := by
  induction rs with
  | nil => simp
  | cons r rs ih =>
    simp only [List.map_cons, List.count_cons, List.filter_cons, ih]
    by_cases h : r.src = k <;> simp [h]

/-- … in particular it is shown exactly once / not at all -/
theorem run_plain_line_count {cfg : Cfg} {pre post : List L} {l : L} {s s' : PS} {b : Bool} {m : M}
    (hin : PlainInput (pre ++ l :: post)) (hpre : plainAfter .top pre = some s)
    (hn : plainNext s l = some (s', b)) (e : run cfg (pre ++ l :: post) = .ok m) :
    ((m.out.filter (fun r => isBody r.kind)).map (·.src)).count pre.length = if b then 1 else 0 := by
  have h := run_plain_line hin hpre hn e
  rw [count_src_eq_filter, h]
  cases b <;> simp

/-- the indices of the hunk-line rows are strictly increasing -/
theorem plainRows_sorted {cfg : Cfg} : ∀ (ls : List L) (s : PS) (n : Nat),
    ((plainRows cfg s n ls).map (·.src)).Pairwise (· < ·)
  | [], s, n => by simp [plainRows]
  | l :: ls, s, n => by
    cases hn : plainNext s l with
    | none => rw [plainRows.eq_2]; simp [hn]
    | some p =>
      obtain ⟨s', b⟩ := p
      rw [plainRows_cons n ls hn]
      cases b
      · simpa using plainRows_sorted ls s' (n + 1)
      · simp only [if_true, List.singleton_append, List.map_cons, List.pairwise_cons]
        refine ⟨?_, plainRows_sorted ls s' (n + 1)⟩
        intro a ha
        obtain ⟨r, hr, rfl⟩ := List.mem_map.mp ha
        have := plainRows_src ls s' (n + 1) r hr
        rw [plainRow_src]; omega

end Machine.Plain
