import DeltaModel.Grep
import Proofs.GrepColoured
/-!
Helper lemmas for C16 (plain-text grep lines): the leftmost-first search `longest`, the
path-shape predicates, the separator part and the look-alike detectors.
(Closed facts `textKinds_eq`, `sep_match`, `sep_context`, `sep_contextHeader`,
`kindOfSep_colon`, `kindOfSep_dash`, `kindOfSep_eq` come from Proofs.GrepColoured.)
-/
namespace Grep

theorem plainVariants_eq : plainVariants = [.extNum, .extNoSpaces, .ext, .noSep] := by
  decide

/-! The extension length bounds regenerated from the source (one pair per regex variant) are
the ones the fragments of the round-trip theorems are stated with. Every round-trip proof
goes through these equations: a source edit to a variant's `{lo,hi}` breaks them. -/
theorem extMinNum_eq : Generated.Grep.extMinNum = docExtMin := by decide
theorem extMaxNum_eq : Generated.Grep.extMaxNum = docExtMax := by decide
theorem extMin_eq : Generated.Grep.extMin = docExtMin := by decide
theorem extMax_eq : Generated.Grep.extMax = docExtMax := by decide
theorem extMinNoSpaces_eq : Generated.Grep.extMinNoSpaces = docExtMin := by decide
theorem extMaxNoSpaces_eq : Generated.Grep.extMaxNoSpaces = docExtMaxNoSpaces := by decide

theorem splitLastDot_append (a b : List Char) (hb : b.contains '.' = false) :
    splitLastDot (a ++ '.' :: b) = some (a, b) := by
  have hnone : ∀ l : List Char, l.contains '.' = false → splitLastDot l = none := by
    intro l
    induction l with
    | nil => intro _; rfl
    | cons c cs ih =>
      intro h
      simp only [List.contains_cons, Bool.or_eq_false_iff] at h
      have hc : c ≠ '.' := by
        intro e; subst e; simp at h
      simp [splitLastDot, ih h.2, hc]
  induction a with
  | nil => simp [splitLastDot, hnone b hb]
  | cons x xs ih => simp [splitLastDot, ih]

theorem splitLastDot_some {l a b : List Char} (h : splitLastDot l = some (a, b)) :
    l = a ++ '.' :: b ∧ b.contains '.' = false := by
  induction l generalizing a b with
  | nil => simp [splitLastDot] at h
  | cons c cs ih =>
    unfold splitLastDot at h
    cases hs : splitLastDot cs with
    | some r =>
      obtain ⟨a1, b1⟩ := r
      rw [hs] at h
      simp only [Option.some.injEq, Prod.mk.injEq] at h
      obtain ⟨h1, h2⟩ := h
      subst h1; subst h2
      obtain ⟨e1, e2⟩ := ih hs
      exact ⟨by rw [e1]; rfl, e2⟩
    | none =>
      rw [hs] at h
      simp only at h
      by_cases hc : c = '.'
      · rw [if_pos hc] at h
        simp only [Option.some.injEq, Prod.mk.injEq] at h
        obtain ⟨h1, h2⟩ := h
        subst h1; subst h2; subst hc
        refine ⟨rfl, ?_⟩
        -- no dot in cs since splitLastDot cs = none
        have hnone : ∀ l : List Char, splitLastDot l = none → l.contains '.' = false := by
          intro l
          induction l with
          | nil => intro _; rfl
          | cons d ds ihd =>
            intro hd
            unfold splitLastDot at hd
            cases hs2 : splitLastDot ds with
            | some r => rw [hs2] at hd; simp at hd
            | none =>
              rw [hs2] at hd
              simp only at hd
              by_cases hdd : d = '.'
              · rw [if_pos hdd] at hd; simp at hd
              · simp only [List.contains_cons, Bool.or_eq_false_iff]
                refine ⟨?_, ihd hs2⟩
                simp only [beq_eq_false_iff_ne, ne_eq]
                exact fun e => hdd e.symm
        exact hnone cs hs
      · rw [if_neg hc] at h; simp at h

theorem longest_none {β : Type} (P : List Char → Bool) (Q : List Char → Option β)
    (pre post : List Char)
    (h : ∀ u' v', post = u' ++ v' → ¬ (P (pre ++ u') = true ∧ (Q v').isSome = true)) :
    longest P Q pre post = none := by
  have hatt : attempt P Q pre post = none := by
    have := h [] post rfl
    simp only [List.append_nil] at this
    unfold attempt
    by_cases hp : P pre = true
    · rw [if_pos hp]
      cases hq : Q post with
      | none => rfl
      | some b => exact absurd ⟨hp, by simp [hq]⟩ this
    · rw [if_neg hp]
  induction post generalizing pre with
  | nil => simpa [longest] using hatt
  | cons c cs ih =>
    have hrec : longest P Q (pre ++ [c]) cs = none := by
      have h' : ∀ u' v', cs = u' ++ v' → ¬ (P (pre ++ [c] ++ u') = true ∧ (Q v').isSome = true) := by
        intro u' v' e
        have := h (c :: u') v' (by rw [e]; rfl)
        simpa [List.append_assoc] using this
      apply ih (pre ++ [c]) h'
      have := h' [] cs rfl
      simp only [List.append_nil] at this
      unfold attempt
      by_cases hp : P (pre ++ [c]) = true
      · rw [if_pos hp]
        cases hq : Q cs with
        | none => rfl
        | some b => exact absurd ⟨hp, by simp [hq]⟩ this
      · rw [if_neg hp]
    rw [longest, hrec]
    exact hatt

theorem longest_some {β : Type} (P : List Char → Bool) (Q : List Char → Option β)
    (pre u v : List Char) (b : β)
    (hP : P (pre ++ u) = true) (hQ : Q v = some b)
    (hmax : ∀ u' v', u ++ v = u' ++ v' → u.length < u'.length →
      ¬ (P (pre ++ u') = true ∧ (Q v').isSome = true)) :
    longest P Q pre (u ++ v) = some (pre ++ u, b) := by
  induction u generalizing pre with
  | nil =>
    simp only [List.nil_append, List.append_nil] at *
    have hatt : attempt P Q pre v = some (pre, b) := by
      simp [attempt, hP, hQ]
    cases v with
    | nil => simpa [longest] using hatt
    | cons c cs =>
      have hrec : longest P Q (pre ++ [c]) cs = none := by
        apply longest_none
        intro u' v' e
        have := hmax (c :: u') v' (by rw [e]; rfl) (by simp)
        simpa [List.append_assoc] using this
      rw [longest, hrec]
      exact hatt
  | cons c u1 ih =>
    have := ih (pre ++ [c]) (by simpa [List.append_assoc] using hP) (by
      intro u' v' e hl
      have := hmax (c :: u') v' (by simp [e]) (by simpa using hl)
      simpa [List.append_assoc] using this)
    simp only [List.cons_append, longest, this]
    simp [List.append_assoc]


theorem isSepChar_cases {t : Char} (h : isSepChar t = true) : t = ':' ∨ t = '-' ∨ t = '=' := by
  simp only [isSepChar, Bool.or_eq_true, beq_iff_eq] at h
  rcases h with (h | h) | h
  · exact Or.inl h
  · exact Or.inr (Or.inl h)
  · exact Or.inr (Or.inr h)

theorem kindOfSep_isSome (c : Char) : (kindOfSep c).isSome = isSepChar c := by
  by_cases h1 : c = ':'
  · subst h1; decide
  by_cases h2 : c = '-'
  · subst h2; decide
  by_cases h3 : c = '='
  · subst h3; decide
  have hs : isSepChar c = false := by simp [isSepChar, h1, h2, h3]
  rw [hs]
  have : kindOfSep c = none := by
    unfold kindOfSep
    rw [textKinds_eq]
    simp [List.find?, sep_match, sep_context, sep_contextHeader, Ne.symm h1, Ne.symm h2, Ne.symm h3]
  rw [this]; rfl

theorem extOk_of_isSepChar {t : Char} (h : isSepChar t = true) : extOk t = false := by
  rcases isSepChar_cases h with h | h | h <;> subst h <;> decide

theorem isDigit_of_isSepChar {t : Char} (h : isSepChar t = true) : isDigit t = false := by
  rcases isSepChar_cases h with h | h | h <;> subst h <;> decide

theorem midOkNoSep_of_isSepChar {t : Char} (h : isSepChar t = true) : midOkNoSep t = false := by
  rcases isSepChar_cases h with h | h | h <;> subst h <;> decide

theorem extOk_dot : extOk '.' = false := by decide

theorem isDigit_ne_dot {c : Char} (h : isDigit c = true) : c ≠ '.' := by
  intro h2; subst h2; revert h; decide

theorem sep_of_textKind {k : Kind} (h : textKinds.contains k = true) :
    ∃ s, k.sep = [s] ∧ kindOfSep s = some k ∧ isSepChar s = true ∧ (k = .match_ ↔ s = ':') := by
  cases k with
  | match_ => exact ⟨':', sep_match, kindOfSep_colon, by decide, by decide⟩
  | context => exact ⟨'-', sep_context, kindOfSep_dash, by decide, by decide⟩
  | contextHeader => exact ⟨'=', sep_contextHeader, kindOfSep_eq, by decide, by decide⟩
  | fileHeader => rw [textKinds_eq] at h; exact absurd h (by decide)
  | ignore => rw [textKinds_eq] at h; exact absurd h (by decide)



theorem extShapeOk_elim {lo hi : Nat} {ext : List Char} (h : extShapeOk lo hi ext = true) :
    ext.all extOk = true ∧ lo ≤ ext.length ∧ ext.length ≤ hi := by
  simp only [extShapeOk, Bool.and_eq_true, decide_eq_true_eq] at h
  exact ⟨h.1.1, h.1.2, h.2⟩

theorem getLast?_some_split {l : List Char} {e : Char} (h : l.getLast? = some e) :
    l = l.dropLast ++ [e] := by
  obtain ⟨ys, rfl⟩ := List.getLast?_eq_some_iff.mp h
  simp

theorem extPathOk_elim {lo hi : Nat} {p : List Char} (h : extPathOk lo hi p = true) :
    ∃ c0 mid e ext, p = c0 :: (mid ++ e :: '.' :: ext) ∧ startOk c0 = true ∧
      mid.contains ':' = false ∧ e ≠ ' ' ∧ ext.all extOk = true ∧ lo ≤ ext.length ∧ ext.length ≤ hi := by
  unfold extPathOk at h
  cases hs : splitLastDot p with
  | none => rw [hs] at h; simp at h
  | some r =>
    obtain ⟨a, ext⟩ := r
    rw [hs] at h
    simp only [Bool.and_eq_true] at h
    obtain ⟨hshape, h2⟩ := h
    obtain ⟨hp, _⟩ := splitLastDot_some hs
    obtain ⟨e1, e2, e3⟩ := extShapeOk_elim hshape
    cases a with
    | nil => simp at h2
    | cons c0 rest =>
      simp only [Bool.and_eq_true] at h2
      obtain ⟨hc0, h3⟩ := h2
      cases hl : rest.getLast? with
      | none => rw [hl] at h3; simp at h3
      | some e =>
        rw [hl] at h3
        simp only [Bool.and_eq_true, bne_iff_ne, ne_eq, Bool.not_eq_true'] at h3
        refine ⟨c0, rest.dropLast, e, ext, ?_, hc0, h3.2, h3.1, e1, e2, e3⟩
        rw [hp]
        conv => lhs; rw [getLast?_some_split hl]
        simp

theorem noSpacePathOk_elim {lo hi : Nat} {p : List Char} (h : noSpacePathOk lo hi p = true) :
    ∃ body e ext, p = body ++ e :: '.' :: ext ∧ body ≠ [] ∧ body.all startOk = true ∧ e ≠ ' ' ∧
      ext.all extOk = true ∧ lo ≤ ext.length ∧ ext.length ≤ hi := by
  unfold noSpacePathOk at h
  cases hs : splitLastDot p with
  | none => rw [hs] at h; simp at h
  | some r =>
    obtain ⟨a, ext⟩ := r
    rw [hs] at h
    simp only [Bool.and_eq_true] at h
    obtain ⟨hshape, h2⟩ := h
    obtain ⟨hp, _⟩ := splitLastDot_some hs
    obtain ⟨e1, e2, e3⟩ := extShapeOk_elim hshape
    cases hl : a.getLast? with
    | none => rw [hl] at h2; simp at h2
    | some e =>
      rw [hl] at h2
      simp only [Bool.and_eq_true, bne_iff_ne, ne_eq, Bool.not_eq_true', List.isEmpty_eq_false_iff] at h2
      refine ⟨a.dropLast, e, ext, ?_, h2.1.2, h2.2, h2.1.1, e1, e2, e3⟩
      rw [hp]
      conv => lhs; rw [getLast?_some_split hl]
      simp

theorem noSepPathOk_elim {p : List Char} (h : noSepPathOk p = true) :
    ∃ c0 mid e, p = c0 :: (mid ++ [e]) ∧ startOkNoSep c0 = true ∧ mid.all midOkNoSep = true ∧
      lastOkNoSep e = true := by
  unfold noSepPathOk at h
  cases p with
  | nil => simp at h
  | cons c0 rest =>
    simp only [Bool.and_eq_true] at h
    obtain ⟨hc0, h3⟩ := h
    cases hl : rest.getLast? with
    | none => rw [hl] at h3; simp at h3
    | some e =>
      rw [hl] at h3
      simp only [Bool.and_eq_true] at h3
      refine ⟨c0, rest.dropLast, e, ?_, hc0, h3.2, h3.1⟩
      rw [← getLast?_some_split hl]



theorem all_takeWhile (f : Char → Bool) (l : List Char) : (l.takeWhile f).all f = true := by
  induction l with
  | nil => rfl
  | cons c cs ih =>
    by_cases h : f c = true
    · simp [h]
    · simp [h]

theorem isSepChar_of_kindOfSep {s : Char} {k : Kind} (h : kindOfSep s = some k) :
    isSepChar s = true := by
  rw [← kindOfSep_isSome, h]; rfl

theorem parseSep_some_head {req : Bool} {post : List Char} {r : Kind × Option (List Char) × List Char}
    (h : parseSep req post = some r) : ∃ t rest, post = t :: rest ∧ isSepChar t = true := by
  cases post with
  | nil => simp [parseSep] at h
  | cons s rest =>
    refine ⟨s, rest, rfl, ?_⟩
    cases hk : kindOfSep s with
    | none => simp [parseSep, hk] at h
    | some k => exact isSepChar_of_kindOfSep hk

theorem parseSep_true_elim {post : List Char} {k : Kind} {dg : Option (List Char)} {code : List Char}
    (h : parseSep true post = some (k, dg, code)) :
    ∃ t ds, post = t :: (ds ++ t :: code) ∧ isSepChar t = true ∧ ds ≠ [] ∧ ds.all isDigit = true ∧
      dg = some ds := by
  cases post with
  | nil => simp [parseSep] at h
  | cons s rest =>
    cases hk : kindOfSep s with
    | none => simp [parseSep, hk] at h
    | some k' =>
      have hsep := isSepChar_of_kindOfSep hk
      have hsplit : rest = rest.takeWhile isDigit ++ rest.dropWhile isDigit :=
        (List.takeWhile_append_dropWhile).symm
      have hall : (rest.takeWhile isDigit).all isDigit = true := by
        exact all_takeWhile isDigit rest
      unfold parseSep at h
      simp only [hk] at h
      generalize hds : rest.takeWhile isDigit = ds at h hsplit hall
      generalize hdr : rest.dropWhile isDigit = dr at h hsplit
      cases ds with
      | nil => simp at h
      | cons d ds' =>
        cases dr with
        | nil => simp at h
        | cons t code' =>
          simp only [if_true] at h
          by_cases hts : t = s
          · subst hts
            rw [if_pos rfl] at h
            by_cases hc : codeOk code' = true
            · rw [if_pos hc] at h
              simp only [Option.some.injEq, Prod.mk.injEq] at h
              obtain ⟨_, h2, h3⟩ := h
              subst h3
              exact ⟨t, d :: ds', by rw [hsplit], hsep, by simp, hall, h2.symm⟩
            · rw [if_neg hc] at h; simp at h
          · rw [if_neg hts] at h; simp at h

theorem parseSep_numbered (req : Bool) (s : Char) (k : Kind) (ds code : List Char)
    (hs : kindOfSep s = some k) (hd : digitsOk ds = true) (hc : codeOk code = true) :
    parseSep req (s :: (ds ++ s :: code)) = some (k, some ds, code) := by
  obtain ⟨⟨d, t, hdt⟩, hall⟩ := digitsOk_spec ds hd
  have hsd : isDigit s = false := isDigit_of_isSepChar (isSepChar_of_kindOfSep hs)
  unfold parseSep
  simp only [hs]
  rw [takeWhile_append_cons isDigit ds s _ hall hsd, dropWhile_append_cons isDigit ds s _ hall hsd]
  subst hdt
  simp [hc]

theorem parseSep_unnumbered (s : Char) (k : Kind) (code : List Char)
    (hs : kindOfSep s = some k) (hn : startsWithNum s code = false) (hc : codeOk code = true) :
    parseSep false (s :: code) = some (k, none, code) := by
  unfold parseSep
  simp only [hs]
  unfold startsWithNum at hn
  generalize hds : code.takeWhile isDigit = ds at hn
  generalize hdr : code.dropWhile isDigit = dr at hn
  cases ds with
  | nil => simp [hc]
  | cons d ds' =>
    cases dr with
    | nil => simp [hc]
    | cons t code' =>
      have hts : t ≠ s := by
        intro e; subst e; simp at hn
      simp [hts, hc]

theorem numLookAlikeAt_intro (hi : Nat) (x d r : List Char) (t : Char)
    (hx : x.all extOk = true) (hx1 : 1 ≤ x.length) (hx2 : x.length ≤ hi)
    (ht : isSepChar t = true) (hd : d ≠ []) (hd2 : d.all isDigit = true) :
    numLookAlikeAt hi ('.' :: (x ++ t :: (d ++ t :: r))) = true := by
  have hx' : ∀ c ∈ x, extOk c = true := by simpa using hx
  have hd' : ∀ c ∈ d, isDigit c = true := by simpa using hd2
  unfold numLookAlikeAt
  simp only []
  rw [takeWhile_append_cons extOk x t _ hx' (extOk_of_isSepChar ht),
    dropWhile_append_cons extOk x t _ hx' (extOk_of_isSepChar ht)]
  simp only []
  rw [takeWhile_append_cons isDigit d t _ hd' (isDigit_of_isSepChar ht),
    dropWhile_append_cons isDigit d t _ hd' (isDigit_of_isSepChar ht)]
  simp [hx1, hx2, ht, hd]

theorem hasNumLookAlike_intro (hi : Nat) (a x d r : List Char) (t : Char)
    (hx : x.all extOk = true) (hx1 : 1 ≤ x.length) (hx2 : x.length ≤ hi)
    (ht : isSepChar t = true) (hd : d ≠ []) (hd2 : d.all isDigit = true) :
    hasNumLookAlike hi (a ++ '.' :: (x ++ t :: (d ++ t :: r))) = true := by
  induction a with
  | nil =>
    simp only [List.nil_append, hasNumLookAlike, numLookAlikeAt_intro hi x d r t hx hx1 hx2 ht hd hd2,
      Bool.true_or]
  | cons c cs ih =>
    simp only [List.cons_append, hasNumLookAlike, ih, Bool.or_true]

theorem sepLookAlikeAt_intro (hi : Nat) (x r : List Char) (t : Char)
    (hx : x.all extOk = true) (hx1 : 1 ≤ x.length) (hx2 : x.length ≤ hi)
    (ht : isSepChar t = true) :
    sepLookAlikeAt hi ('.' :: (x ++ t :: r)) = true := by
  have hx' : ∀ c ∈ x, extOk c = true := by simpa using hx
  unfold sepLookAlikeAt
  simp only []
  rw [takeWhile_append_cons extOk x t _ hx' (extOk_of_isSepChar ht),
    dropWhile_append_cons extOk x t _ hx' (extOk_of_isSepChar ht)]
  simp [hx1, hx2, ht]

theorem hasSepLookAlike_intro (hi : Nat) (a x r : List Char) (t : Char)
    (hx : x.all extOk = true) (hx1 : 1 ≤ x.length) (hx2 : x.length ≤ hi)
    (ht : isSepChar t = true) :
    hasSepLookAlike hi (a ++ '.' :: (x ++ t :: r)) = true := by
  induction a with
  | nil =>
    simp only [List.nil_append, hasSepLookAlike, sepLookAlikeAt_intro hi x r t hx hx1 hx2 ht,
      Bool.true_or]
  | cons c cs ih =>
    simp only [List.cons_append, hasSepLookAlike, ih, Bool.or_true]

theorem append_eq_append_dot {z c a y : List Char} (hz : z.contains '.' = false)
    (h : z ++ c = a ++ '.' :: y) : ∃ a', a = z ++ a' ∧ c = a' ++ '.' :: y := by
  induction z generalizing a with
  | nil => exact ⟨a, rfl, h⟩
  | cons d ds ih =>
    simp only [List.contains_cons, Bool.or_eq_false_iff] at hz
    cases a with
    | nil =>
      simp only [List.cons_append, List.nil_append, List.cons.injEq] at h
      obtain ⟨h1, _⟩ := h
      subst h1
      simp at hz
    | cons e es =>
      simp only [List.cons_append, List.cons.injEq] at h
      obtain ⟨h1, h2⟩ := h
      obtain ⟨a', e1, e2⟩ := ih hz.2 h2
      exact ⟨a', by rw [h1, e1]; rfl, e2⟩

end Grep
