import DeltaModel.Options
/-!
Lemmas about the value readers of `DeltaModel/OptionsValues.lean` (property C13):
* an `int64_t` that `git_config_parse_int64` returns is in range (`gitParseInt64_range`), so a
  non-negative one survives `as usize` unchanged (`asUsize_nonneg`);
* `git__strntol64` on a decimal digit string without leading zero computes its value
  (`digitLoop_decimal`, `strntol64_decimal`), and `git_config_parse_int64` scales it by the unit
  suffix (`gitParseInt64_decimal_suffix`);
* the file half of every getter reads a value git accepts for the type as git does
  (`fileRead_eq_gitReading`).
-/
namespace Options

theorem fitsI64_iff (x : Int) :
    fitsI64 x = true ↔ (-9223372036854775808 ≤ x ∧ x ≤ 9223372036854775807) := by
  simp [fitsI64]

/-! ### Range -/

theorem digitLoop_fits (base : Nat) (neg : Bool) :
    ∀ (cs : List Char) (n : Int) (ov : Bool) (nd : Nat), fitsI64 n = true →
      fitsI64 (digitLoop base neg cs n ov nd).1 = true := by
  intro cs
  induction cs with
  | nil => intro n ov nd h; simpa [digitLoop] using h
  | cons c cs ih =>
    intro n ov nd h
    unfold digitLoop
    by_cases hb : base ≤ digitVal c
    · simpa [hb] using h
    · simp only [hb, ↓reduceIte]
      cases neg <;> simp only [Bool.false_eq_true, ↓reduceIte] <;>
      · split
        · exact ih _ _ _ h
        · rename_i hfit
          refine ih _ _ _ ?_
          simp only [Bool.or_eq_true, Bool.not_eq_true', not_or, Bool.not_eq_false] at hfit
          exact hfit.2

theorem strntol64_eq (s : List Char) :
    strntol64 s =
      (match digitLoop (baseOf (signOf (dropSpaces s)).2).1 (signOf (dropSpaces s)).1
          (baseOf (signOf (dropSpaces s)).2).2 0 false 0 with
       | (n, ov, nd, rest) => if nd = 0 then none else if ov then none else some (n, rest)) := rfl

theorem strntol64_fits (s : List Char) (n : Int) (rest : List Char)
    (h : strntol64 s = some (n, rest)) : fitsI64 n = true := by
  rw [strntol64_eq] at h
  have hf := digitLoop_fits (baseOf (signOf (dropSpaces s)).2).1 (signOf (dropSpaces s)).1
    (baseOf (signOf (dropSpaces s)).2).2 0 false 0 (by decide)
  revert h hf
  generalize digitLoop (baseOf (signOf (dropSpaces s)).2).1 (signOf (dropSpaces s)).1
    (baseOf (signOf (dropSpaces s)).2).2 0 false 0 = r
  obtain ⟨a, b, c, d⟩ := r
  intro h hf
  simp only at h hf
  split at h
  · cases h
  · split at h
    · cases h
    · simp only [Option.some.injEq, Prod.mk.injEq] at h
      rw [← h.1]; exact hf

theorem wrapI64_fits (x : Int) : fitsI64 (wrapI64 x) = true := by
  rw [fitsI64_iff]
  unfold wrapI64
  omega

theorem wrapI64_of_fits (x : Int) (h : fitsI64 x = true) : wrapI64 x = x := by
  rw [fitsI64_iff] at h
  unfold wrapI64
  omega

/-- What `git_config_parse_int64` returns is an `int64_t`. -/
theorem gitParseInt64_range (v : Option String) (n : Int) (h : gitParseInt64 v = some n) :
    fitsI64 n = true := by
  unfold gitParseInt64 at h
  cases v with
  | none => cases h
  | some v =>
    simp only at h
    cases hs : strntol64 v.toList with
    | none => simp [hs] at h
    | some p =>
      obtain ⟨num, rest⟩ := p
      simp only [hs] at h
      cases rest with
      | nil => simp only [Option.some.injEq] at h; rw [← h]; exact strntol64_fits _ _ _ hs
      | cons c t =>
        simp only at h
        split at h
        · cases h
        · split at h
          · simp only [Option.some.injEq] at h; rw [← h]; exact wrapI64_fits _
          · cases h

/-- `value as usize` of a non-negative `i64` is the number itself. -/
theorem asUsize_nonneg (n : Int) (h : fitsI64 n = true) (h0 : 0 ≤ n) : asUsize n = n.toNat := by
  rw [fitsI64_iff] at h
  unfold asUsize
  congr 1
  omega

/-! ### Decimal digit strings -/

theorem decFrom_cons (n : Nat) (c : Char) (ds : List Char) :
    decFrom n (c :: ds) = decFrom (n * 10 + digitVal c) ds := rfl

theorem le_decFrom (ds : List Char) : ∀ n, n ≤ decFrom n ds := by
  induction ds with
  | nil => intro n; exact Nat.le_refl _
  | cons c ds ih =>
    intro n
    rw [decFrom_cons]
    exact Nat.le_trans (by omega) (ih _)

/-- The digit loop in base ten over decimal digits `ds` followed by something that is not a
    decimal digit: no overflow as long as the number fits. -/
theorem digitLoop_decimal (ds rest : List Char) (hd : ∀ c ∈ ds, digitVal c < 10)
    (hrest : ∀ c, rest.head? = some c → 10 ≤ digitVal c) :
    ∀ (n nd : Nat), decFrom n ds ≤ 9223372036854775807 →
      digitLoop 10 false (ds ++ rest) (n : Int) false nd =
        (((decFrom n ds : Nat) : Int), false, nd + ds.length, rest) := by
  induction ds with
  | nil =>
    intro n nd _
    cases rest with
    | nil => simp [digitLoop, decFrom]
    | cons c t =>
      have := hrest c rfl
      simp [digitLoop, decFrom, this]
  | cons c ds ih =>
    intro n nd hfit
    have hc : digitVal c < 10 := hd c List.mem_cons_self
    have hle := le_decFrom ds (n * 10 + digitVal c)
    rw [decFrom_cons] at hfit
    have h1 : fitsI64 ((n : Int) * ((10 : Nat) : Int)) = true := by
      rw [fitsI64_iff]; omega
    have h2 : fitsI64 ((n : Int) * ((10 : Nat) : Int) + (digitVal c : Int)) = true := by
      rw [fitsI64_iff]; omega
    have hnb : ¬ 10 ≤ digitVal c := by omega
    rw [List.cons_append, digitLoop]
    simp only [hnb, ↓reduceIte, Bool.false_eq_true, h1, h2, Bool.not_true, Bool.or_self]
    have hcast : (n : Int) * ((10 : Nat) : Int) + (digitVal c : Int) = ((n * 10 + digitVal c : Nat) : Int) := by
      push_cast; rfl
    rw [hcast, ih (fun c' hc' => hd c' (List.mem_cons_of_mem _ hc')) _ _ hfit, decFrom_cons]
    simp only [List.length_cons]
    congr 3
    omega

theorem digitVal_lt_ten_not_space (c : Char) (h : digitVal c < 10) :
    isSpaceC c = false ∧ c ≠ '-' ∧ c ≠ '+' := by
  refine ⟨?_, ?_, ?_⟩
  · cases hs : isSpaceC c with
    | false => rfl
    | true =>
      exfalso
      simp only [isSpaceC, Bool.or_eq_true, decide_eq_true_eq] at hs
      rcases hs with ((((h' | h') | h') | h') | h') | h' <;> (subst h'; revert h; decide)
  · intro h'; subst h'; revert h; decide
  · intro h'; subst h'; revert h; decide

/-- `git__strntol64` on `ds ++ rest`, `ds` decimal digits not starting with `0`. -/
theorem strntol64_decimal (c : Char) (ds rest : List Char) (hc : digitVal c < 10) (hc0 : c ≠ '0')
    (hd : ∀ x ∈ ds, digitVal x < 10) (hrest : ∀ x, rest.head? = some x → 10 ≤ digitVal x)
    (hfit : decVal (c :: ds) ≤ 9223372036854775807) :
    strntol64 (c :: ds ++ rest) = some (((decVal (c :: ds) : Nat) : Int), rest) := by
  obtain ⟨hsp, hm, hp⟩ := digitVal_lt_ten_not_space c hc
  have hdrop : dropSpaces (c :: ds ++ rest) = c :: ds ++ rest := by
    simp [dropSpaces, hsp]
  have hsign : signOf (c :: ds ++ rest) = (false, c :: ds ++ rest) := by
    simp [signOf, hm, hp]
  have hbase : baseOf (c :: ds ++ rest) = (10, c :: ds ++ rest) := by
    simp [baseOf, hc0]
  rw [strntol64_eq, hdrop, hsign]
  simp only [hbase]
  have := digitLoop_decimal (c :: ds) rest
    (by intro x hx; rcases List.mem_cons.mp hx with h | h; exact h ▸ hc; exact hd x h) hrest 0 0 hfit
  rw [show ((0 : Nat) : Int) = 0 from rfl] at this
  rw [show c :: ds ++ rest = (c :: ds) ++ rest from rfl, this]
  simp [decVal]

theorem unitFactor_cases (u : Char) (f : Nat) (h : unitFactor u = some f) :
    10 ≤ digitVal u ∧ 1 ≤ f := by
  unfold unitFactor at h
  split at h
  · rename_i hu
    simp only [Bool.or_eq_true, decide_eq_true_eq] at hu
    simp only [Option.some.injEq] at h
    rcases hu with hu | hu <;> subst hu <;> subst h <;> decide
  · split at h
    · rename_i hu
      simp only [Bool.or_eq_true, decide_eq_true_eq] at hu
      simp only [Option.some.injEq] at h
      rcases hu with hu | hu <;> subst hu <;> subst h <;> decide
    · split at h
      · rename_i hu
        simp only [Bool.or_eq_true, decide_eq_true_eq] at hu
        simp only [Option.some.injEq] at h
        rcases hu with hu | hu <;> subst hu <;> subst h <;> decide
      · cases h

/-- A decimal number (no leading zero, any number of digits, within `int64_t`) is read by
    `git_config_parse_int64` as itself. -/
theorem gitParseInt64_decimal (c : Char) (ds : List Char)
    (hc : digitVal c < 10) (hc0 : c ≠ '0') (hd : ∀ x ∈ ds, digitVal x < 10)
    (hfit : decVal (c :: ds) ≤ 9223372036854775807) :
    gitParseInt64 (some (String.ofList (c :: ds))) = some ((decVal (c :: ds) : Nat) : Int) := by
  have hst := strntol64_decimal c ds [] hc hc0 hd (by simp) hfit
  rw [List.append_nil] at hst
  unfold gitParseInt64
  simp only [String.toList_ofList, hst]

/-- git's documented integer syntax — a decimal number followed by `k`, `m` or `g` (either case),
    scaling it by 1024, 1024², 1024³ — is read by `git_config_parse_int64` as that product (for
    every number of digits, as long as the product is an `int64_t`). -/
theorem gitParseInt64_decimal_unit (c : Char) (ds : List Char) (u : Char) (f : Nat)
    (hc : digitVal c < 10) (hc0 : c ≠ '0') (hd : ∀ x ∈ ds, digitVal x < 10)
    (hu : unitFactor u = some f) (hfit : decVal (c :: ds) * f ≤ 9223372036854775807) :
    gitParseInt64 (some (String.ofList (c :: ds ++ [u]))) = some ((decVal (c :: ds) * f : Nat) : Int) := by
  obtain ⟨hu10, hf1⟩ := unitFactor_cases u f hu
  have hfit' : decVal (c :: ds) ≤ 9223372036854775807 :=
    Nat.le_trans (Nat.le_mul_of_pos_right _ hf1) hfit
  have hst := strntol64_decimal c ds [u] hc hc0 hd
    (by intro x hx; simp only [List.head?_cons, Option.some.injEq] at hx; exact hx ▸ hu10) hfit'
  have hfits : fitsI64 (((decVal (c :: ds) : Nat) : Int) * (f : Int)) = true := by
    rw [fitsI64_iff]
    have : ((decVal (c :: ds) : Nat) : Int) * (f : Int) = ((decVal (c :: ds) * f : Nat) : Int) := by
      push_cast; rfl
    rw [this]; omega
  unfold gitParseInt64
  simp only [String.toList_ofList, hst, hu, List.isEmpty_nil, ↓reduceIte]
  rw [wrapI64_of_fits _ hfits]
  push_cast
  rfl

/-! ### Each file-half function against git's own reading -/

theorem fileReadBy_gitString (v : String) :
    fileReadBy "git-string" v = some ((fileValue v).getD "") := by
  simp [fileReadBy]

theorem fileReadBy_gitBool (v : String) :
    fileReadBy "git-bool" v = (gitParseBool (fileValue v)).map boolText := by
  simp [fileReadBy]

theorem fileReadBy_gitI64 (v : String) :
    fileReadBy "git-i64-as-usize" v = (gitParseInt64 (fileValue v)).map fun n => toString (asUsize n) := by
  simp [fileReadBy]

theorem fileReadBy_parseF64 (v : String) :
    fileReadBy "string-parse-f64" v =
      (if rustF64Accepts ((fileValue v).getD "").toList then some ((fileValue v).getD "") else none) := by
  simp [fileReadBy]

theorem gitReading_usize (val : Option String) :
    gitReading "usize" val = (gitParseInt64 val).bind fun n => if 0 ≤ n then some (toString n.toNat) else none := by
  simp [gitReading]

theorem gitReading_bool (val : Option String) : gitReading "bool" val = (gitParseBool val).map boolText := by
  simp [gitReading]

theorem gitReading_f64 (val : Option String) :
    gitReading "f64" val = val.filter fun v => rustF64Accepts v.toList := by
  simp [gitReading]

theorem gitReading_string (val : Option String) : gitReading "string" val = some (val.getD "") := by
  simp [gitReading]

theorem gitReading_optString (val : Option String) : gitReading "optString" val = some (val.getD "") := by
  simp [gitReading]

/-- `get_i64(key)` then `as usize` reads every non-negative git integer as git does. -/
theorem fileReadBy_gitI64_eq_gitReading (v r : String) (h : gitReading "usize" (fileValue v) = some r) :
    fileReadBy "git-i64-as-usize" v = some r := by
  rw [gitReading_usize] at h
  rw [fileReadBy_gitI64]
  cases hp : gitParseInt64 (fileValue v) with
  | none => simp [hp] at h
  | some n =>
    simp only [hp, Option.bind_some] at h
    by_cases h0 : 0 ≤ n
    · simp only [h0, ↓reduceIte, Option.some.injEq] at h
      simp only [Option.map_some, Option.some.injEq]
      rw [asUsize_nonneg n (gitParseInt64_range _ _ hp) h0, h]
    · simp [h0] at h

/-- `get_string(key)` then `parse::<f64>()`: every value in the float syntax sets the option. -/
theorem fileReadBy_parseF64_eq_gitReading (v r : String) (h : gitReading "f64" (fileValue v) = some r) :
    fileReadBy "string-parse-f64" v = some r := by
  rw [gitReading_f64] at h
  rw [fileReadBy_parseF64]
  cases hv : fileValue v with
  | none => simp [hv] at h
  | some w =>
    simp only [hv, Option.filter] at h
    split at h
    · rename_i ha
      simp only [Option.some.injEq] at h
      subst h
      simp [ha]
    · cases h

/-! ### The GIT_CONFIG_PARAMETERS half -/

theorem envReadBy_string (v : String) : envReadBy "string" v = some v := by
  simp [envReadBy]

theorem envReadBy_parseF64 (v : String) :
    envReadBy "parse-f64" v = (if rustF64Accepts v.toList then some v else none) := by
  simp [envReadBy]

theorem envReadBy_gitBool (v : String) :
    envReadBy "git-bool" v = (gitParseBool (some v)).map boolText := by
  simp [envReadBy]

theorem envReadBy_gitI64 (v : String) :
    envReadBy "git-i64-as-usize" v = (gitParseInt64 (some v)).map fun n => toString (asUsize n) := by
  simp [envReadBy]

theorem envReadBy_gitI64_eq_gitReading (v r : String) (h : gitReading "usize" (some v) = some r) :
    envReadBy "git-i64-as-usize" v = some r := by
  rw [gitReading_usize] at h
  rw [envReadBy_gitI64]
  cases hp : gitParseInt64 (some v) with
  | none => simp [hp] at h
  | some n =>
    simp only [hp, Option.bind_some] at h
    by_cases h0 : 0 ≤ n
    · simp only [h0, ↓reduceIte, Option.some.injEq] at h
      simp only [Option.map_some, Option.some.injEq]
      rw [asUsize_nonneg n (gitParseInt64_range _ _ hp) h0, h]
    · simp [h0] at h

theorem envReadBy_parseF64_eq_gitReading (v r : String) (h : gitReading "f64" (some v) = some r) :
    envReadBy "parse-f64" v = some r := by
  rw [gitReading_f64] at h
  rw [envReadBy_parseF64]
  simp only [Option.filter] at h
  split at h
  · rename_i ha
    simp only [Option.some.injEq] at h
    subst h
    simp [ha]
  · cases h

/-! ### Boolean words -/

theorem eqIgnoreAsciiCase_excl (v a b : String) (ha : eqIgnoreAsciiCase v a = true)
    (hne : (a.toList.map Char.toLower == b.toList.map Char.toLower) = false) :
    eqIgnoreAsciiCase v b = false := by
  unfold eqIgnoreAsciiCase at *
  cases hb : (v.toList.map Char.toLower == b.toList.map Char.toLower) with
  | false => rfl
  | true =>
    rw [beq_iff_eq] at ha hb
    rw [ha] at hb
    rw [hb] at hne
    simp at hne

/-- `git__parse_bool`: `true` / `yes` / `on` in any case, and a key without value, are true. -/
theorem gitParseBool_true_words (val : Option String)
    (h : val = none ∨ ∃ v, val = some v ∧
      (eqIgnoreAsciiCase v "true" = true ∨ eqIgnoreAsciiCase v "yes" = true ∨ eqIgnoreAsciiCase v "on" = true)) :
    gitParseBool val = some true := by
  rcases h with h | ⟨v, h, hw⟩
  · subst h; rfl
  · subst h
    unfold gitParseBool gitParseBoolWord
    rcases hw with hw | hw | hw <;> simp [hw]

/-- `git__parse_bool`: `false` / `no` / `off` in any case, and the empty value, are false. -/
theorem gitParseBool_false_words (v : String)
    (h : eqIgnoreAsciiCase v "false" = true ∨ eqIgnoreAsciiCase v "no" = true ∨
      eqIgnoreAsciiCase v "off" = true ∨ v = "") :
    gitParseBool (some v) = some false := by
  have hnot : eqIgnoreAsciiCase v "true" = false ∧ eqIgnoreAsciiCase v "yes" = false ∧
      eqIgnoreAsciiCase v "on" = false := by
    rcases h with h | h | h | h
    · exact ⟨eqIgnoreAsciiCase_excl v _ _ h (by decide), eqIgnoreAsciiCase_excl v _ _ h (by decide),
        eqIgnoreAsciiCase_excl v _ _ h (by decide)⟩
    · exact ⟨eqIgnoreAsciiCase_excl v _ _ h (by decide), eqIgnoreAsciiCase_excl v _ _ h (by decide),
        eqIgnoreAsciiCase_excl v _ _ h (by decide)⟩
    · exact ⟨eqIgnoreAsciiCase_excl v _ _ h (by decide), eqIgnoreAsciiCase_excl v _ _ h (by decide),
        eqIgnoreAsciiCase_excl v _ _ h (by decide)⟩
    · subst h; decide
  unfold gitParseBool gitParseBoolWord
  simp only [hnot.1, hnot.2.1, hnot.2.2, Bool.or_self, Bool.false_eq_true, ↓reduceIte]
  rcases h with h | h | h | h
  · simp [h]
  · simp [h]
  · simp [h]
  · subst h; simp

end Options
