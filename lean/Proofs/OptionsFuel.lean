import DeltaModel.Options
/-!
C13 helper: the fuel of the gathering functions suffices. With `U` a list containing every
name that can be pushed, the number of elements of `U` not yet in the deque bounds the recursion
depth; any two fuels above it give the same result.
-/
namespace Options

/-- Elements of `U` not yet in `acc` (with multiplicity). -/
def mu (U acc : List Name) : Nat := (U.filter fun x => decide (x ∉ acc)).length

theorem mu_mono (U : List Name) {a b : List Name} (h : ∀ x, x ∈ a → x ∈ b) : mu U b ≤ mu U a := by
  unfold mu
  induction U with
  | nil => simp
  | cons u U ih =>
    by_cases hb : u ∈ b
    · by_cases ha : u ∈ a
      · simpa [List.filter_cons, ha, hb] using ih
      · simp only [List.filter_cons, ha, hb, not_true_eq_false, decide_false, Bool.false_eq_true,
          ↓reduceIte, not_false_eq_true, decide_true, List.length_cons]
        omega
    · have ha : u ∉ a := fun hx => hb (h u hx)
      simpa [List.filter_cons, ha, hb] using ih

theorem mu_cons_lt (U : List Name) {acc : List Name} {f : Name} (hU : f ∈ U)
    (hf : f ∉ acc) : mu U (f :: acc) < mu U acc := by
  unfold mu
  induction U with
  | nil => cases hU
  | cons u U ih =>
    have hmono : (U.filter fun x => decide (x ∉ f :: acc)).length ≤
        (U.filter fun x => decide (x ∉ acc)).length :=
      mu_mono U (a := acc) (b := f :: acc) (fun x hx => List.mem_cons_of_mem _ hx)
    by_cases huf : u = f
    · subst huf
      have hfm : u ∈ u :: acc := List.mem_cons_self
      simp only [List.filter_cons, hfm, not_true_eq_false, decide_false,
        Bool.false_eq_true, ↓reduceIte, hf, not_false_eq_true, decide_true, List.length_cons]
      omega
    · have hU' : f ∈ U := by
        cases hU with
        | head => exact absurd rfl huf
        | tail _ h => exact h
      have ih' := ih hU'
      by_cases ha : u ∈ acc
      · have : u ∈ f :: acc := List.mem_cons_of_mem _ ha
        simpa [List.filter_cons, this, ha] using ih'
      · have hne : u ∉ f :: acc := by
          intro hx
          cases hx with
          | head => exact huf rfl
          | tail _ h => exact ha h
        simp only [List.filter_cons, hne, ha, not_false_eq_true, decide_true, ↓reduceIte,
          List.length_cons]
        omega

/-- Generic fold lemma: two step functions that agree (and preserve `P`) wherever `P` holds give
    the same fold. -/
theorem foldl_agree {F G : List Name → Name → List Name} (P : List Name → Prop) (cs : List Name)
    (hstep : ∀ c ∈ cs, ∀ a, P a → F a c = G a c ∧ P (G a c)) :
    ∀ a, P a → cs.foldl F a = cs.foldl G a ∧ P (cs.foldl G a) := by
  induction cs with
  | nil => intro a ha; exact ⟨rfl, ha⟩
  | cons c cs ih =>
    intro a ha
    have h1 := hstep c List.mem_cons_self a ha
    simp only [List.foldl_cons]
    rw [h1.1]
    exact ih (fun c' hc' => hstep c' (List.mem_cons_of_mem _ hc')) _ h1.2

/-- The invariant carried through the folds: the deque only grows, and stays below the bound. -/
def Grows (U : List Name) (n : Nat) (acc0 a : List Name) : Prop :=
  (∀ x, x ∈ acc0 → x ∈ a) ∧ mu U a < n

theorem Grows.refl {U n acc} (h : mu U acc < n) : Grows U n acc acc := ⟨fun _ hx => hx, h⟩

theorem Grows.trans_sub {U n acc0 a b} (h : Grows U n acc0 a) (hab : ∀ x, x ∈ a → x ∈ b) :
    Grows U n acc0 b :=
  ⟨fun x hx => hab x (h.1 x hx), Nat.lt_of_le_of_lt (mu_mono U hab) h.2⟩

/-- What `U` must contain for `gatherB`. -/
structure ClosedB (bs : Builtins) (π U : List Name) : Prop where
  pi : ∀ c ∈ π, c ∈ U
  feat : ∀ f t, lookup f bs = some t → ∀ c ∈ featuresOf t, c ∈ U

theorem gatherB_stable (bs : Builtins) (π U : List Name) (hU : ClosedB bs π U) :
    ∀ n m f acc, f ∈ U → mu U acc < n → n ≤ m →
      gatherB bs π m f acc = gatherB bs π n f acc ∧ (∀ x, x ∈ acc → x ∈ gatherB bs π n f acc) ∧
        f ∈ gatherB bs π n f acc := by
  intro n
  induction n with
  | zero => intro m f acc _ h; omega
  | succ n ih =>
    intro m f acc hf hmu hnm
    obtain ⟨m, rfl⟩ : ∃ m', m = m' + 1 := ⟨m - 1, by omega⟩
    have hnm' : n ≤ m := by omega
    unfold gatherB
    by_cases hc : f ∈ acc
    · simp [hc]
    · have hc' : acc.contains f = false := by simpa using hc
      simp only [hc', Bool.false_eq_true, ↓reduceIte]
      cases hl : lookup f bs with
      | none => exact ⟨rfl, fun x hx => List.mem_cons_of_mem _ hx, List.mem_cons_self⟩
      | some t =>
        simp only []
        have h0 : Grows U n (f :: acc) (f :: acc) :=
          Grows.refl (by have := mu_cons_lt U hf hc; omega)
        -- first fold: the `features` entry
        have s1 := foldl_agree (F := fun a c => gatherB bs π m c a) (G := fun a c => gatherB bs π n c a)
          (Grows U n (f :: acc)) (featuresOf t)
          (fun c hcm a ha => by
            have := ih m c a (hU.feat f t hl c hcm) ha.2 hnm'
            exact ⟨this.1, ha.trans_sub this.2.1⟩)
          (f :: acc) h0
        rw [s1.1]
        -- second fold: boolean entries naming builtin features
        have s2 := foldl_agree
          (F := fun a c => if flagTrue t c then gatherB bs π m c a else a)
          (G := fun a c => if flagTrue t c then gatherB bs π n c a else a)
          (Grows U n (f :: acc)) π
          (fun c hcm a ha => by
            by_cases hft : flagTrue t c
            · simp only [hft, ↓reduceIte]
              have := ih m c a (hU.pi c hcm) ha.2 hnm'
              exact ⟨this.1, ha.trans_sub this.2.1⟩
            · simp only [hft]
              exact ⟨rfl, ha⟩)
          _ s1.2
        refine ⟨s2.1, fun x hx => s2.2.1 x (List.mem_cons_of_mem _ hx), s2.2.1 f List.mem_cons_self⟩

theorem gatherB_stable' (bs : Builtins) (π U : List Name) (hU : ClosedB bs π U)
    (n m : Nat) (f : Name) (acc : List Name) (hf : f ∈ U) (hn : mu U acc < n) (hm : mu U acc < m) :
    gatherB bs π m f acc = gatherB bs π n f acc := by
  by_cases h : n ≤ m
  · exact (gatherB_stable bs π U hU n m f acc hf hn h).1
  · exact ((gatherB_stable bs π U hU m n f acc hf hm (by omega)).1).symm

theorem gatherB_sub (bs : Builtins) (π U : List Name) (hU : ClosedB bs π U)
    (n : Nat) (f : Name) (acc : List Name) (hf : f ∈ U) (hn : mu U acc < n) :
    ∀ x, x ∈ acc → x ∈ gatherB bs π n f acc :=
  (gatherB_stable bs π U hU n n f acc hf hn (Nat.le_refl _)).2.1

theorem gatherB_self (bs : Builtins) (π U : List Name) (hU : ClosedB bs π U)
    (n : Nat) (f : Name) (acc : List Name) (hf : f ∈ U) (hn : mu U acc < n) :
    f ∈ gatherB bs π n f acc :=
  (gatherB_stable bs π U hU n n f acc hf hn (Nat.le_refl _)).2.2

theorem mu_le_length (U acc : List Name) : mu U acc ≤ U.length := by
  unfold mu; exact List.length_filter_le _ _

/-! ### `gatherFlags`, `gatherR` -/

theorem gatherFlags_stable (bs : Builtins) (π U : List Name) (hU : ClosedB bs π U) (g : GitCfg)
    (sec : Option Name) (fb fb' : Nat) (acc : List Name) (h : mu U acc < fb) (h' : mu U acc < fb') :
    gatherFlags bs π fb' g sec acc = gatherFlags bs π fb g sec acc ∧
      (∀ x, x ∈ acc → x ∈ gatherFlags bs π fb g sec acc) := by
  unfold gatherFlags
  have s := foldl_agree
    (F := fun a c => if g.getBool sec c = some true then gatherB bs π fb' c a else a)
    (G := fun a c => if g.getBool sec c = some true then gatherB bs π fb c a else a)
    (fun a => (∀ x, x ∈ acc → x ∈ a)) π
    (fun c hcm a ha => by
      have hmu : mu U a ≤ mu U acc := mu_mono U ha
      by_cases hb : g.getBool sec c = some true
      · simp only [hb, ↓reduceIte]
        refine ⟨gatherB_stable' bs π U hU fb fb' c a (hU.pi c hcm) (by omega) (by omega), ?_⟩
        intro x hx
        exact gatherB_sub bs π U hU fb c a (hU.pi c hcm) (by omega) x (ha x hx)
      · simp only [hb]
        exact ⟨rfl, ha⟩)
    acc (fun _ hx => hx)
  exact s

/-- What `U` must contain for `gatherR`. -/
structure ClosedR (g : GitCfg) (U : List Name) : Prop where
  sec : ∀ f, ∀ c ∈ secFeatures g (some f), c ∈ U

theorem gatherR_stable (bs : Builtins) (π U : List Name) (hU : ClosedB bs π U) (g : GitCfg)
    (hR : ClosedR g U) (fb fb' : Nat) (hfb : U.length < fb) (hfb' : U.length < fb') :
    ∀ n m f acc, f ∈ U → f ∉ acc → mu U acc ≤ n → n ≤ m →
      gatherR bs π fb' g (m + 1) f acc = gatherR bs π fb g (n + 1) f acc ∧
        (∀ x, x ∈ acc → x ∈ gatherR bs π fb g (n + 1) f acc) := by
  intro n
  induction n with
  | zero =>
    intro m f acc hf hfa hmu _
    have := mu_cons_lt U hf hfa
    omega
  | succ n ih =>
    intro m f acc hf hfa hmu hnm
    obtain ⟨m, rfl⟩ : ∃ m', m = m' + 1 := ⟨m - 1, by omega⟩
    have hnm' : n ≤ m := by omega
    have hlen := mu_le_length U acc
    rw [gatherR, gatherR]
    -- the head
    have hhead : (if (lookup f bs).isSome then gatherB bs π fb' f acc else f :: acc) =
        (if (lookup f bs).isSome then gatherB bs π fb f acc else f :: acc) := by
      by_cases hb : (lookup f bs).isSome
      · simp only [hb, ↓reduceIte]
        exact gatherB_stable' bs π U hU fb fb' f acc hf (by omega) (by omega)
      · simp [hb]
    rw [hhead]
    generalize ha1 : (if (lookup f bs).isSome then gatherB bs π fb f acc else f :: acc) = a1
    have hsub1 : ∀ x, x ∈ f :: acc → x ∈ a1 := by
      subst ha1
      intro x hx
      by_cases hb : (lookup f bs).isSome
      · simp only [hb, ↓reduceIte]
        cases hx with
        | head => exact gatherB_self bs π U hU fb f acc hf (by omega)
        | tail _ h => exact gatherB_sub bs π U hU fb f acc hf (by omega) x h
      · simpa [hb] using hx
    have hmu1 : mu U a1 ≤ n := by
      have h1 := mu_mono U hsub1
      have h2 := mu_cons_lt U hf hfa
      omega
    -- the `features` key of the section
    have s1 := foldl_agree
      (F := fun a c => if a.contains c then a else gatherR bs π fb' g (m + 1) c a)
      (G := fun a c => if a.contains c then a else gatherR bs π fb g (n + 1) c a)
      (fun a => (∀ x, x ∈ a1 → x ∈ a)) (secFeatures g (some f))
      (fun c hcm a ha => by
        by_cases hc : c ∈ a
        · have : a.contains c = true := by simpa using hc
          simp only [this, ↓reduceIte]
          exact ⟨by trivial, ha⟩
        · have hcf : a.contains c = false := by simpa using hc
          simp only [hcf, Bool.false_eq_true, ↓reduceIte]
          have hmua : mu U a ≤ n := Nat.le_trans (mu_mono U ha) hmu1
          have := ih m c a (hR.sec f c hcm) hc hmua hnm'
          exact ⟨this.1, fun x hx => this.2 x (ha x hx)⟩)
      a1 (fun _ hx => hx)
    rw [s1.1]
    -- the flags of the section
    have s1sub := s1.2
    generalize (secFeatures g (some f)).foldl
        (fun a c => if a.contains c then a else gatherR bs π fb g (n + 1) c a) a1 = a2 at s1sub ⊢
    have hlen2 := mu_le_length U a2
    have s2 := gatherFlags_stable bs π U hU g (some f) fb fb' a2 (by omega) (by omega)
    refine ⟨s2.1, fun x hx => s2.2 x (s1sub x (hsub1 x (List.mem_cons_of_mem _ hx)))⟩

/-- A call of `gatherR` whose argument may already be in the deque (the calls made by
    `gather_features` itself). -/
theorem gatherR_top_stable (bs : Builtins) (π U : List Name) (hU : ClosedB bs π U) (g : GitCfg)
    (hR : ClosedR g U) (k : Nat) (hk : U.length + 2 ≤ k) (f : Name) (acc : List Name) (hf : f ∈ U) :
    gatherR bs π k g k f acc = gatherR bs π (U.length + 2) g (U.length + 2) f acc := by
  obtain ⟨m, rfl⟩ : ∃ m', k = m' + 2 := ⟨k - 2, by omega⟩
  have hlen := mu_le_length U acc
  rw [gatherR, gatherR]
  have hhead : (if (lookup f bs).isSome then gatherB bs π (m + 2) f acc else f :: acc) =
      (if (lookup f bs).isSome then gatherB bs π (U.length + 2) f acc else f :: acc) := by
    by_cases hb : (lookup f bs).isSome
    · simp only [hb, ↓reduceIte]
      exact gatherB_stable' bs π U hU _ _ f acc hf (by omega) (by omega)
    · simp [hb]
  rw [hhead]
  generalize (if (lookup f bs).isSome then gatherB bs π (U.length + 2) f acc else f :: acc) = a1
  have s1 := foldl_agree
    (F := fun a c => if a.contains c then a else gatherR bs π (m + 2) g (m + 1) c a)
    (G := fun a c => if a.contains c then a else gatherR bs π (U.length + 2) g (U.length + 1) c a)
    (fun _ => True) (secFeatures g (some f))
    (fun c hcm a _ => by
      by_cases hc : c ∈ a
      · have : a.contains c = true := by simpa using hc
        simp only [this, ↓reduceIte]
        exact ⟨by trivial, trivial⟩
      · have hcf : a.contains c = false := by simpa using hc
        simp only [hcf, Bool.false_eq_true, ↓reduceIte]
        have := gatherR_stable bs π U hU g hR (U.length + 2) (m + 2) (by omega) (by omega)
          U.length m c a (hR.sec f c hcm) hc (mu_le_length U a) (by omega)
        exact ⟨this.1, trivial⟩)
    a1 trivial
  rw [s1.1]
  generalize (secFeatures g (some f)).foldl
      (fun a c => if a.contains c then a else gatherR bs π (U.length + 2) g (U.length + 1) c a) a1 = a2
  have hlen2 := mu_le_length U a2
  exact (gatherFlags_stable bs π U hU g (some f) (U.length + 2) (m + 2) a2 (by omega) (by omega)).1

theorem lookup_mem {β : Type} (k : String) (l : List (String × β)) (v : β)
    (h : lookup k l = some v) : (k, v) ∈ l := by
  induction l with
  | nil => simp [lookup] at h
  | cons p t ih =>
    obtain ⟨a, b⟩ := p
    by_cases hk : a = k
    · subst hk
      simp [lookup] at h
      subst h
      exact List.mem_cons_self
    · simp [lookup, hk] at h
      exact List.mem_cons_of_mem _ (ih h)

theorem foldl_congr_pointwise {α : Type} {F G : List Name → α → List Name} (cs : List α)
    (h : ∀ c ∈ cs, ∀ a, F a c = G a c) : ∀ a, cs.foldl F a = cs.foldl G a := by
  induction cs with
  | nil => intro a; rfl
  | cons c cs ih =>
    intro a
    simp only [List.foldl_cons]
    rw [h c List.mem_cons_self a]
    exact ih (fun c' hc' => h c' (List.mem_cons_of_mem _ hc')) _

theorem closedB_universe (bs : Builtins) (π : List Name) (inp : Inputs) (g : Option GitCfg) :
    ClosedB bs π (nameUniverse bs π inp g) := by
  constructor
  · intro c hc
    simp only [nameUniverse, List.mem_append]
    exact Or.inl (Or.inl (Or.inl (Or.inl hc)))
  · intro f t hl c hc
    simp only [nameUniverse, List.mem_append]
    refine Or.inl (Or.inl (Or.inr ?_))
    exact List.mem_flatMap.mpr ⟨(f, t), lookup_mem f bs t hl, hc⟩

theorem filter_true {α : Type} (x : Option α) : x.filter (fun _ => true) = x := by
  cases x <;> rfl

/-- The file half of the `String` getter is `get_string`: the value itself, `""` for a key without
    value (a fact about the generated `getterParsers` row). -/
theorem fileRead_string (v : String) : fileRead .string v = some ((fileValue v).getD "") := by
  have h : (parsersOf GType.string.name).2 = "git-string" := by decide
  unfold fileRead
  rw [h]
  simp [fileReadBy]

theorem fileRead_string_cases (v : String) :
    fileRead .string v = some v ∨ fileRead .string v = some "" := by
  rw [fileRead_string]
  unfold fileValue
  by_cases h : v = bareMark
  · right; simp [h]
  · left; simp [h]

/-- The `String` getter on a `[delta "f"]` section: the file only. -/
theorem get_section (g : GitCfg) (f k : Name) :
    g.get (some f) k =
      if g.enabled then
        (match lookup f g.file.sections with
         | some sct => (lookup k sct).bind (fileRead .string)
         | none => none)
      else none := by
  unfold GitCfg.get GitCfg.getT
  by_cases he : g.enabled
  · simp only [he, ↓reduceIte]
    cases lookup f g.file.sections <;> rfl
  · simp [he]

theorem getBool_section (g : GitCfg) (f k : Name) :
    g.getBool (some f) k =
      if g.enabled then
        (match lookup f g.file.sections with
         | some sct => ((lookup k sct).bind (fileRead .bool)).bind parseBool
         | none => none)
      else none := by
  unfold GitCfg.getBool GitCfg.getT
  by_cases he : g.enabled
  · simp only [he, ↓reduceIte]
    cases lookup f g.file.sections with
    | none => rfl
    | some sct => rfl
  · simp [he]

theorem closedR_universe (bs : Builtins) (π : List Name) (inp : Inputs) (g : GitCfg) :
    ClosedR g (nameUniverse bs π inp (some g)) := by
  constructor
  intro f c hc
  simp only [nameUniverse, List.mem_append]
  refine Or.inr (Or.inr ?_)
  unfold secFeatures at hc
  rw [get_section] at hc
  by_cases he : g.enabled
  · simp only [he, ↓reduceIte] at hc ⊢
    cases hs : lookup f g.file.sections with
    | none => simp [hs] at hc
    | some sct =>
      simp only [hs] at hc
      refine List.mem_flatMap.mpr ⟨(f, sct), lookup_mem f _ sct hs, ?_⟩
      cases hv : lookup "features" sct with
      | none => simp [hv] at hc
      | some v =>
        simp only [hv, Option.bind_some] at hc ⊢
        rcases fileRead_string_cases v with h | h
        · simpa [h] using hc
        · rw [h] at hc
          have : splitFeatureString "" = [] := by decide
          simp [this] at hc
  · simp [he] at hc

/-- **The fuel suffices**: any fuel at least `fuelFor …` gives the result the model computes. -/
theorem gatherFeaturesWith_stable (π : List Name) (inp : Inputs) (k : Nat)
    (hk : fuelFor (builtinsFor inp) (keysOf (builtinsFor inp) π) inp (finalConfig inp) ≤ k) :
    gatherFeaturesWith k π inp = gatherFeatures π inp := by
  unfold gatherFeatures
  generalize hN : fuelFor (builtinsFor inp) (keysOf (builtinsFor inp) π) inp (finalConfig inp) = N at hk
  unfold fuelFor at hN
  generalize hbs : builtinsFor inp = bs at hN
  generalize hπ : keysOf bs π = π' at hN
  generalize hU : nameUniverse bs π' inp (finalConfig inp) = U at hN
  have hB : ClosedB bs π' U := hU ▸ closedB_universe bs π' inp (finalConfig inp)
  have hmemU : ∀ x, (x ∈ π' ∨ x ∈ Generated.Options.cliFlagOrder.map (·.2) ∨ x ∈ inputFeatures inp) → x ∈ U := by
    intro x hx
    subst hU
    simp only [nameUniverse, List.mem_append]
    rcases hx with h | h | h
    · exact Or.inl (Or.inl (Or.inl (Or.inl h)))
    · exact Or.inl (Or.inl (Or.inl (Or.inr h)))
    · exact Or.inl (Or.inr h)
  subst hN
  have hlen : ∀ a, mu U a < U.length + 2 := fun a => by have := mu_le_length U a; omega
  have hlenk : ∀ a, mu U a < k := fun a => by have := mu_le_length U a; omega
  unfold gatherFeaturesWith
  simp only [hbs, hπ]
  cases hg : finalConfig inp with
  | none =>
    simp only []
    have e1 := foldl_congr_pointwise
      (F := fun a f => if (Generated.Options.noConfigExpands && (lookup f bs).isSome) = true then
        gatherB bs π' k f a else f :: a)
      (G := fun a f => if (Generated.Options.noConfigExpands && (lookup f bs).isSome) = true then
        gatherB bs π' (U.length + 2) f a else f :: a)
      (inputFeatures inp)
      (fun f hf a => by
        by_cases hc : (Generated.Options.noConfigExpands && (lookup f bs).isSome) = true
        · simp only [hc, ↓reduceIte]
          exact gatherB_stable' bs π' U hB _ _ f a (hmemU f (Or.inr (Or.inr hf))) (hlen a) (hlenk a)
        · simp [hc])
      []
    rw [e1]
    exact foldl_congr_pointwise Generated.Options.cliFlagOrder
      (fun p hp a => by
        by_cases hc : flagOn inp p.1
        · simp only [hc, ↓reduceIte]
          exact gatherB_stable' bs π' U hB _ _ p.2 a
            (hmemU p.2 (Or.inr (Or.inl (List.mem_map.mpr ⟨p, hp, rfl⟩)))) (hlen a) (hlenk a)
        · simp [hc]) _
  | some g =>
    simp only []
    rw [hg] at hU
    have hR : ClosedR g U := hU ▸ closedR_universe bs π' inp g
    have hmain : ∀ c ∈ secFeatures g none, c ∈ U := by
      intro c hc
      subst hU
      simp only [nameUniverse, List.mem_append]
      exact Or.inr (Or.inl hc)
    have e1 := foldl_congr_pointwise
      (F := fun a f => gatherR bs π' k g k f a)
      (G := fun a f => gatherR bs π' (U.length + 2) g (U.length + 2) f a)
      (inputFeatures inp)
      (fun f hf a => gatherR_top_stable bs π' U hB g hR k hk f a (hmemU f (Or.inr (Or.inr hf))))
      []
    rw [e1]
    have e2 := foldl_congr_pointwise
      (F := fun a (p : String × String) => if flagOn inp p.1 then gatherB bs π' k p.2 a else a)
      (G := fun a (p : String × String) => if flagOn inp p.1 then gatherB bs π' (U.length + 2) p.2 a else a)
      Generated.Options.cliFlagOrder
      (fun p hp a => by
        by_cases hc : flagOn inp p.1
        · simp only [hc, ↓reduceIte]
          exact gatherB_stable' bs π' U hB _ _ p.2 a
            (hmemU p.2 (Or.inr (Or.inl (List.mem_map.mpr ⟨p, hp, rfl⟩)))) (hlen a) (hlenk a)
        · simp [hc])
    rw [e2]
    generalize List.foldl (fun a (p : String × String) => if flagOn inp p.1 then gatherB bs π' (U.length + 2) p.2 a else a)
      (List.foldl (fun a f => gatherR bs π' (U.length + 2) g (U.length + 2) f a) [] (inputFeatures inp))
      Generated.Options.cliFlagOrder = a2
    have e3 : (if featuresIsNone inp then
          (secFeatures g none).foldl (fun a f => gatherR bs π' k g k f a) a2 else a2) =
        (if featuresIsNone inp then
          (secFeatures g none).foldl (fun a f => gatherR bs π' (U.length + 2) g (U.length + 2) f a) a2
          else a2) := by
      by_cases hc : featuresIsNone inp
      · simp only [hc, ↓reduceIte]
        exact foldl_congr_pointwise _
          (fun f hf a => gatherR_top_stable bs π' U hB g hR k hk f a (hmain f hf)) a2
      · simp [hc]
    rw [e3]
    exact (gatherFlags_stable bs π' U hB g none _ _ _ (hlen _) (hlenk _)).1

end Options
