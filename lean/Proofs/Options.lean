import DeltaModel.Options
/-!
Helper lemmas for C13: the lookup loop of `get_option_value` as a first-`some` over layers.
-/
namespace Options

theorem firstSome_cons_some {α : Type} (a : α) (t : List (Option α)) :
    firstSome (some a :: t) = some a := rfl

theorem firstSome_cons_none {α : Type} (t : List (Option α)) :
    firstSome (none :: t) = firstSome t := rfl

theorem firstSome_append {α : Type} (l₁ l₂ : List (Option α)) :
    firstSome (l₁ ++ l₂) = (firstSome l₁).or (firstSome l₂) := by
  induction l₁ with
  | nil => simp [firstSome]
  | cons x t ih =>
    cases x with
    | none => simpa [firstSome] using ih
    | some a => simp [firstSome]

/-- The two layers a feature contributes to option `o`. -/
def featureLayers (bs : Builtins) (git : Option GitCfg) (o : Name) (f : Name) : List (Option Val) :=
  [ (optGet git (some f) o).map Val.git,
    (lookup f bs).bind fun t => (tableGet t o).map (evalEntry git) ]

theorem provenanced_eq (bs : Builtins) (git : Option GitCfg) (o f : Name) :
    provenanced bs git o f = firstSome (featureLayers bs git o f) := by
  unfold provenanced featureLayers
  cases h : optGet git (some f) o with
  | some v => simp [firstSome]
  | none =>
    cases h2 : lookup f bs with
    | none => simp [firstSome]
    | some t =>
      cases h3 : tableGet t o with
      | none => simp [firstSome, h3]
      | some e => simp [firstSome, h3]

theorem searchFeatures_eq (bs : Builtins) (git : Option GitCfg) (o : Name) (fs : List Name) :
    searchFeatures bs git o fs = firstSome (fs.flatMap (featureLayers bs git o)) := by
  induction fs with
  | nil => rfl
  | cons f fs ih =>
    simp only [searchFeatures, List.flatMap_cons, firstSome_append, ← provenanced_eq, ← ih]
    cases provenanced bs git o f <;> rfl

end Options
