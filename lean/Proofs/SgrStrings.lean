import Proofs.SgrTerm
/-! `write_prefix`, `RESET`, `Difference::between` and `ANSIStrings` as seen by the terminal. -/
namespace SgrTerm
open Term Sgr Generated.StyleTables

theorem overlay_plain (r : Rendition) : overlay r {} = r := by
  simp [overlay]

/-- A non-plain (well-formed) style writes at least one SGR parameter. -/
theorem prefixCmds_ne_nil (st : Sgr.Style) (hwf : Style.wf st) (hp : st.isPlain = false) :
    (prefixCmds st).flatten ≠ [] := by
  intro h
  obtain ⟨hf, hb⟩ := hwf
  obtain ⟨fg, bg, b, d, i, u, bl, rv, hd, sk⟩ := st
  simp only [prefixCmds, attrCmds, attrCodes_eq, colorOrder_eq, List.flatMap_cons, List.flatMap_nil,
    layerCmds, List.append_nil, Style.get] at h
  have hfg : fg = none := by
    cases fg with
    | none => rfl
    | some c =>
      exfalso
      have hc := hf c rfl
      cases c with
      | basic n => simp [fgParams, colorParams, fgNamed n hc] at h
      | fixed n => simp [fgParams, colorParams, fgFixed_eq] at h
      | rgb x y z => simp [fgParams, colorParams, fgRgb_eq] at h
  have hbg : bg = none := by
    cases bg with
    | none => rfl
    | some c =>
      exfalso
      have hc := hb c rfl
      cases c with
      | basic n => simp [bgParams, colorParams, bgNamed n hc] at h
      | fixed n => simp [bgParams, colorParams, bgFixed_eq] at h
      | rgb x y z => simp [bgParams, colorParams, bgRgb_eq] at h
  subst hfg hbg
  cases b <;> cases d <;> cases i <;> cases u <;> cases bl <;> cases rv <;> cases hd <;> cases sk <;>
    simp_all [Style.isPlain]

/-- `write_prefix` read in ground mode overlays the style; nothing is displayed. -/
theorem run_pre (st : Sgr.Style) (hwf : Style.wf st) (s : State) (hm : s.mode = .ground) :
    run s (pre st) = ({ s with rend := overlay s.rend st }, []) := by
  unfold pre
  cases hp : st.isPlain with
  | true =>
    have : st = {} := by simpa [Style.isPlain] using hp
    subst this
    simp [run, overlay_plain]
  | false =>
    simp only [Bool.false_eq_true, if_false]
    rw [run_csi_m _ (prefixCmds_ne_nil st hwf hp) s hm, applySgr_prefix _ st hwf]

/-- `RESET` read in ground mode restores the default rendition (the hyperlink is untouched). -/
theorem run_reset (s : State) (hm : s.mode = .ground) :
    run s Sgr.reset = ({ s with rend := {} }, []) := by
  rw [reset_eq, run_csi_m [0] (by simp) s hm]
  simp [applySgr, applySgrAux, applyOne]

/-! ### `Difference::between` -/

theorem get_set (s : Sgr.Style) (a b : Attr) (v : Bool) :
    (s.set a v).get b = if a = b then v else s.get b := by
  cases a <;> cases b <;> simp [Style.set, Style.get]

theorem set_fg (s : Sgr.Style) (a : Attr) (v : Bool) : (s.set a v).fg = s.fg := by
  cases a <;> rfl

theorem set_bg (s : Sgr.Style) (a : Attr) (v : Bool) : (s.set a v).bg = s.bg := by
  cases a <;> rfl

theorem fold_get (L : List Attr) (p : Attr → Bool) (init : Sgr.Style) (y : Attr) :
    (L.foldl (fun acc x => if p x then acc.set x true else acc) init).get y =
      (init.get y || (L.contains y && p y)) := by
  induction L generalizing init with
  | nil => simp
  | cons x L ih =>
    simp only [List.foldl_cons, ih, List.contains_cons]
    by_cases hxy : x = y
    · subst hxy
      cases hp : p x <;> simp [get_set, hp]
    · have : (y == x) = false := by simp [Ne.symm hxy]
      cases hp : p x <;> simp [get_set, hxy, this]

theorem fold_fg (L : List Attr) (p : Attr → Bool) (init : Sgr.Style) :
    (L.foldl (fun acc x => if p x then acc.set x true else acc) init).fg = init.fg := by
  induction L generalizing init with
  | nil => rfl
  | cons x L ih =>
    simp only [List.foldl_cons, ih]
    split <;> simp [set_fg]

theorem fold_bg (L : List Attr) (p : Attr → Bool) (init : Sgr.Style) :
    (L.foldl (fun acc x => if p x then acc.set x true else acc) init).bg = init.bg := by
  induction L generalizing init with
  | nil => rfl
  | cons x L ih =>
    simp only [List.foldl_cons, ih]
    split <;> simp [set_bg]

theorem all_contains (y : Attr) : Attr.all.contains y = true := by cases y <;> decide

theorem ofStyle_get (st : Sgr.Style) :
    ofStyle st = { fg := st.fg.map tcolor, bg := st.bg.map tcolor, bold := st.get .bold,
                   faint := st.get .dimmed, italic := st.get .italic, underline := st.get .underline,
                   blink := st.get .blink, inverse := st.get .reverse, conceal := st.get .hidden,
                   crossed := st.get .strike } := by
  simp only [ofStyle, overlay, Style.get, Bool.false_or]
  cases st.fg <;> cases st.bg <;> rfl

theorem rend_ext (x y : Rendition) (h1 : x.fg = y.fg) (h2 : x.bg = y.bg) (h3 : x.bold = y.bold)
    (h4 : x.faint = y.faint) (h5 : x.italic = y.italic) (h6 : x.underline = y.underline)
    (h7 : x.blink = y.blink) (h8 : x.inverse = y.inverse) (h9 : x.conceal = y.conceal)
    (h10 : x.crossed = y.crossed) : x = y := by
  cases x; cases y; simp_all

/-- When `between` answers `ExtraStyles(e)`, writing `e`'s prefix on top of the first style's
rendition gives exactly the second style's rendition. -/
theorem between_extra (a b e : Sgr.Style) (h : between a b = .extra e) :
    overlay (ofStyle a) e = ofStyle b := by
  unfold between at h
  split at h
  · exact absurd h (by simp)
  split at h
  · exact absurd h (by simp)
  next hany =>
  split at h
  · exact absurd h (by simp)
  next hfg =>
  split at h
  · exact absurd h (by simp)
  next hbg =>
  simp only [Difference.extra.injEq] at h
  rw [resetAttrs_eq] at hany
  rw [extraAttrs_eq] at h
  have hno : ∀ y : Attr, ¬ (a.get y = true ∧ b.get y = false) := by
    intro y hy
    apply hany
    rw [List.any_eq_true]
    exact ⟨y, by simpa using all_contains y, by simp [hy.1, hy.2]⟩
  obtain ⟨F, hF⟩ : ∃ F, F = Attr.all.foldl
      (fun acc x => if (a.get x != b.get x) = true then acc.set x true else acc) ({} : Sgr.Style) := ⟨_, rfl⟩
  rw [← hF] at h
  have hget : ∀ y : Attr, e.get y = (a.get y != b.get y) := by
    intro y
    have h1 : e.get y = F.get y := by rw [← h]; cases y <;> rfl
    have h0 : ({} : Sgr.Style).get y = false := by cases y <;> rfl
    rw [h1, hF, fold_get, all_contains, h0]
    simp
  have hefg : e.fg = if a.fg != b.fg then b.fg else none := by rw [← h]
  have hebg : e.bg = if a.bg != b.bg then b.bg else none := by rw [← h]
  have key : ∀ y : Attr, (a.get y || e.get y) = b.get y := by
    intro y
    have := hno y
    rw [hget y]
    cases ha : a.get y <;> cases hb : b.get y <;> simp_all
  have hfg' : (overlay (ofStyle a) e).fg = (ofStyle b).fg := by
    simp only [overlay, ofStyle, hefg]
    cases hafg : a.fg <;> cases hbfg : b.fg <;> simp_all
    split <;> simp_all
  have hbg' : (overlay (ofStyle a) e).bg = (ofStyle b).bg := by
    simp only [overlay, ofStyle, hebg]
    cases habg : a.bg <;> cases hbbg : b.bg <;> simp_all
    split <;> simp_all
  apply rend_ext
  · exact hfg'
  · exact hbg'
  · exact key .bold
  · exact key .dimmed
  · exact key .italic
  · exact key .underline
  · exact key .blink
  · exact key .reverse
  · exact key .hidden
  · exact key .strike

theorem between_none (a b : Sgr.Style) (h : between a b = .none) : a = b := by
  unfold between at h
  split at h
  · assumption
  all_goals (repeat' split at h) <;> simp at h

end SgrTerm
