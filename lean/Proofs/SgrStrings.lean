import Proofs.SgrTerm
/-! `write_prefix`, `RESET`, `Difference::between` and `ANSIStrings` as seen by the terminal. -/
namespace SgrTerm
open Term Sgr Generated.StyleTables

theorem overlay_plain (r : Rendition) : overlay r {} = r := by
  simp [overlay]

/-- A non-plain (well-formed) style writes at least one SGR parameter. -/
theorem prefixCmds_ne_nil (st : Sgr.Style) (hwf : Style.wf st) (hp : st.isPlain = false) :
    (prefixCmds st).flatten ≠ [] := by
  intro h
  obtain ⟨hf, hb⟩ := hwf
  obtain ⟨fg, bg, b, d, i, u, bl, rv, hd, sk⟩ := st
  simp only [prefixCmds, attrCmds, attrCodes_eq, colorOrder_eq, List.flatMap_cons, List.flatMap_nil,
    layerCmds, List.append_nil, Style.get] at h
  have hfg : fg = none := by
    cases fg with
    | none => rfl
    | some c =>
      exfalso
      have hc := hf c rfl
      cases c with
      | basic n => simp [fgParams, colorParams, fgNamed n hc] at h
      | fixed n => simp [fgParams, colorParams, fgFixed_eq] at h
      | rgb x y z => simp [fgParams, colorParams, fgRgb_eq] at h
  have hbg : bg = none := by
    cases bg with
    | none => rfl
    | some c =>
      exfalso
      have hc := hb c rfl
      cases c with
      | basic n => simp [bgParams, colorParams, bgNamed n hc] at h
      | fixed n => simp [bgParams, colorParams, bgFixed_eq] at h
      | rgb x y z => simp [bgParams, colorParams, bgRgb_eq] at h
  subst hfg hbg
  cases b <;> cases d <;> cases i <;> cases u <;> cases bl <;> cases rv <;> cases hd <;> cases sk <;>
    simp_all [Style.isPlain]

/-- `write_prefix` read in ground mode overlays the style; nothing is displayed. -/
theorem run_pre (st : Sgr.Style) (hwf : Style.wf st) (s : State) (hm : s.mode = .ground) :
    run s (pre st) = ({ s with rend := overlay s.rend st }, []) := by
  unfold pre
  cases hp : st.isPlain with
  | true =>
    have : st = {} := by simpa [Style.isPlain] using hp
    subst this
    simp [run, overlay_plain]
  | false =>
    simp only [Bool.false_eq_true, if_false]
    rw [run_csi_m _ (prefixCmds_ne_nil st hwf hp) s hm, applySgr_prefix _ st hwf]

/-- `RESET` read in ground mode restores the default rendition (the hyperlink is untouched). -/
theorem run_reset (s : State) (hm : s.mode = .ground) :
    run s Sgr.reset = ({ s with rend := {} }, []) := by
  rw [reset_eq, run_csi_m [0] (by simp) s hm]
  simp [applySgr, applySgrAux, applyOne]

/-! ### `Difference::between` -/

/-- `Difference::between` written out (all eight attributes in both generated lists). -/
def betweenSpec (a b : Sgr.Style) : Difference :=
  if a = b then .none
  else if (a.bold && !b.bold) || (a.dimmed && !b.dimmed) || (a.italic && !b.italic) ||
      (a.underline && !b.underline) || (a.blink && !b.blink) || (a.reverse && !b.reverse) ||
      (a.hidden && !b.hidden) || (a.strike && !b.strike) then .reset
  else if a.fg.isSome && b.fg.isNone then .reset
  else if a.bg.isSome && b.bg.isNone then .reset
  else .extra
    { fg := if a.fg != b.fg then b.fg else none,
      bg := if a.bg != b.bg then b.bg else none,
      bold := a.bold != b.bold, dimmed := a.dimmed != b.dimmed, italic := a.italic != b.italic,
      underline := a.underline != b.underline, blink := a.blink != b.blink,
      reverse := a.reverse != b.reverse, hidden := a.hidden != b.hidden,
      strike := a.strike != b.strike }

theorem between_eq (a b : Sgr.Style) : between a b = betweenSpec a b := by
  unfold between betweenSpec
  rw [resetAttrs_eq, extraAttrs_eq]
  obtain ⟨afg, abg, a1, a2, a3, a4, a5, a6, a7, a8⟩ := a
  obtain ⟨bfg, bbg, b1, b2, b3, b4, b5, b6, b7, b8⟩ := b
  simp only [Attr.all, List.any, List.foldl, Style.get, Style.set, Bool.or_false]
  cases a1 <;> cases a2 <;> cases a3 <;> cases a4 <;> cases a5 <;> cases a6 <;> cases a7 <;> cases a8 <;>
    cases b1 <;> cases b2 <;> cases b3 <;> cases b4 <;> cases b5 <;> cases b6 <;> cases b7 <;> cases b8 <;>
    simp

end SgrTerm
