import Proofs.AlignValid
/-!
The table is optimal: the cost in the final cell is the cost of the script read back, and no
valid edit script is cheaper. Cost of a script: `deletionCost` / `insertionCost` per edited
token plus `initialMismatchPenalty` for every group of edits opened after a no-op (the start
counts as a no-op: cell 0 carries `NoOp`).

The proof needs `initialMismatchPenalty ≤ 1` and that ties go to the edit operations
(no-op last in the candidate order): the table keeps one cell per position, not one per
(position, last operation).
-/
set_option linter.unusedSimpArgs false
namespace Align
open Generated.Align

/-- Cost of a script given first operation first; `prevNoop`: the operation before it was a no-op. -/
def scriptCostFrom (prevNoop : Bool) : List Op → Nat
  | [] => 0
  | .noOp :: r => scriptCostFrom true r
  | .deletion :: r =>
    deletionCost + (if prevNoop then initialMismatchPenalty else 0) + scriptCostFrom false r
  | .insertion :: r =>
    insertionCost + (if prevNoop then initialMismatchPenalty else 0) + scriptCostFrom false r

def scriptCost (ops : List Op) : Nat := scriptCostFrom true ops

/-- Last-operation-first view used in the induction. -/
def endsNoop : List Op → Bool
  | [] => true
  | o :: _ => decide (o = .noOp)

def costR : List Op → Nat
  | [] => 0
  | .noOp :: r => costR r
  | .deletion :: r => costR r + deletionCost + (if endsNoop r then initialMismatchPenalty else 0)
  | .insertion :: r => costR r + insertionCost + (if endsNoop r then initialMismatchPenalty else 0)

def endsNoopF (prev : Bool) : List Op → Bool
  | [] => prev
  | o :: r => endsNoopF (decide (o = .noOp)) r

theorem endsNoopF_snoc (prev : Bool) (s : List Op) (o : Op) :
    endsNoopF prev (s ++ [o]) = decide (o = .noOp) := by
  induction s generalizing prev with
  | nil => rfl
  | cons a s ih => simp [endsNoopF, ih]

theorem endsNoopF_reverse (s : List Op) : endsNoopF true s.reverse = endsNoop s := by
  cases s with
  | nil => rfl
  | cons o s => simp [endsNoopF_snoc, endsNoop]

theorem scriptCostFrom_snoc (prev : Bool) (s : List Op) (o : Op) :
    scriptCostFrom prev (s ++ [o]) = scriptCostFrom prev s +
      (match o with
       | .noOp => 0
       | .deletion => deletionCost + (if endsNoopF prev s then initialMismatchPenalty else 0)
       | .insertion => insertionCost + (if endsNoopF prev s then initialMismatchPenalty else 0)) := by
  induction s generalizing prev with
  | nil => cases o <;> cases prev <;> simp [scriptCostFrom, endsNoopF]
  | cons a s ih =>
    cases a <;> simp only [List.cons_append, scriptCostFrom, endsNoopF, ih] <;> simp <;> omega

theorem scriptCost_reverse (s : List Op) : scriptCost s.reverse = costR s := by
  induction s with
  | nil => rfl
  | cons o s ih =>
    unfold scriptCost at ih ⊢
    rw [List.reverse_cons, scriptCostFrom_snoc, ih, endsNoopF_reverse]
    cases o <;> simp [costR] <;> omega

variable {α : Type}

theorem ValidScript.right_nil {s : List Op} {X Y : List α} (h : ValidScript s X Y) (hY : Y = []) :
    s = List.replicate X.length .deletion := by
  induction h with
  | nil => rfl
  | noop c _ _ => simp at hY
  | del c _ ih => simp [ih hY, List.replicate_succ]
  | ins c _ _ => simp at hY

theorem ValidScript.left_nil {s : List Op} {X Y : List α} (h : ValidScript s X Y) (hX : X = []) :
    s = List.replicate Y.length .insertion := by
  induction h with
  | nil => rfl
  | noop c _ _ => simp at hX
  | del c _ _ => simp at hX
  | ins c _ ih => simp [ih hX, List.replicate_succ]

theorem costR_replicate_del (k : Nat) :
    costR (List.replicate (k + 1) .deletion) = (k + 1) * deletionCost + initialMismatchPenalty := by
  induction k with
  | zero => simp [costR, endsNoop]
  | succ k ih =>
    rw [List.replicate_succ, costR, ih]
    simp [List.replicate_succ, endsNoop, Nat.succ_mul]
    omega

theorem costR_replicate_ins (k : Nat) :
    costR (List.replicate (k + 1) .insertion) = (k + 1) * insertionCost + initialMismatchPenalty := by
  induction k with
  | zero => simp [costR, endsNoop]
  | succ k ih =>
    rw [List.replicate_succ, costR, ih]
    simp [List.replicate_succ, endsNoop, Nat.succ_mul]
    omega

theorem chooseSpec_cost_le_ins (up left diag : Nbr) (eq : Bool) :
    (chooseSpec up left diag eq).cost ≤ (insCand up).cost := by
  rcases chooseSpec_cases up left diag eq with h | h | h <;> rw [h.1] <;> omega

theorem chooseSpec_cost_le_del (up left diag : Nbr) (eq : Bool) :
    (chooseSpec up left diag eq).cost ≤ (delCand left).cost := by
  rcases chooseSpec_cases up left diag eq with h | h | h <;> rw [h.1] <;> omega

theorem chooseSpec_cost_le_noop (up left diag : Nbr) :
    (chooseSpec up left diag true).cost ≤ (noopCand diag).cost := by
  rcases chooseSpec_cases up left diag true with h | h | h
  · rw [h.1]; exact h.2.2 rfl
  · rw [h.1]; exact h.2.2 rfl
  · rw [h.1]; omega

theorem chooseSpec_noOp_lt (up left diag : Nbr) (eq : Bool) (h : (chooseSpec up left diag eq).op = .noOp) :
    (chooseSpec up left diag eq).cost < (insCand up).cost ∧
    (chooseSpec up left diag eq).cost < (delCand left).cost := by
  rcases chooseSpec_cases up left diag eq with h' | h' | h'
  · rw [h'.1] at h; simp [insCand] at h
  · rw [h'.1] at h; simp [delCand] at h
  · rw [h'.1]; exact ⟨h'.2.2.1, h'.2.2.2⟩

variable [DecidableEq α]

/-- A mismatch candidate is at most the cost of any script that extends a script `s'` of the
parent cell by one edit (uses `initialMismatchPenalty ≤ 1` and the tie rule recorded in the
second component of the invariant). -/
theorem mismatch_le_of_parent (c : Cell) (basic : Nat) (s' : List Op)
    (h1 : c.cost ≤ costR s')
    (h2 : costR s' = c.cost → endsNoop s' = false → c.op ≠ .noOp) :
    mismatchCost c basic ≤ costR s' + basic + (if endsNoop s' then initialMismatchPenalty else 0) := by
  have hp := penalty_le_one
  unfold mismatchCost
  rw [penaltyAfter_eq]
  cases he : endsNoop s' with
  | true => simp; split <;> omega
  | false =>
    simp only [Bool.false_eq_true, if_false, Nat.add_zero]
    by_cases hc : costR s' = c.cost
    · have := h2 hc he
      simp [this]; omega
    · split <;> omega

/-- Invariant of the table: the cell cost is a lower bound for every valid script, and when
some optimal script ends in an edit the cell's operation is an edit. -/
theorem cellP_optimal :
    ∀ (n : Nat) (X Y : List α), X.length + Y.length = n → ∀ s : List Op, ValidScript s X Y →
      (cellP X Y).cost ≤ costR s ∧
      (costR s = (cellP X Y).cost → endsNoop s = false → (cellP X Y).op ≠ .noOp) := by
  intro n
  induction n using Nat.strongRecOn with
  | _ n ih =>
    intro X Y hn s hs
    match X, Y, hs with
    | [], [], hs =>
      cases hs
      simp [cellP, origin, costR, endsNoop]
    | a :: xs, [], hs =>
      have := hs.right_nil rfl
      subst this
      simp only [cellP, colTop, List.length_cons, costR_replicate_del, firstRowStep_eq,
        firstRowExtra_eq, firstRowOp_eq]
      simp
    | [], b :: ys, hs =>
      have := hs.left_nil rfl
      subst this
      simp only [cellP, colLeft, List.length_cons, costR_replicate_ins, firstColStep_eq,
        firstColExtra_eq, firstColOp_eq]
      simp
    | a :: xs, b :: ys, hs =>
      simp only [List.length_cons] at hn
      rw [cellP_cons_cons]
      cases hs with
      | noop c hs' =>
        have ih' := ih (xs.length + ys.length) (by omega) xs ys rfl _ hs'
        have hle := chooseSpec_cost_le_noop ⟨cellP (a :: xs) ys, (xs.length + 1, ys.length)⟩
          ⟨cellP xs (a :: ys), (xs.length, ys.length + 1)⟩ ⟨cellP xs ys, (xs.length, ys.length)⟩
        simp only [decide_true]
        constructor
        · simp only [noopCand] at hle
          simp only [costR]
          omega
        · intro _ he; simp [endsNoop] at he
      | del c hs' =>
        have ih' := ih (xs.length + (ys.length + 1)) (by omega) xs (b :: ys) (by simp) _ hs'
        have hm := mismatch_le_of_parent _ deletionCost _ ih'.1 ih'.2
        have hle := chooseSpec_cost_le_del ⟨cellP (a :: xs) ys, (xs.length + 1, ys.length)⟩
          ⟨cellP xs (b :: ys), (xs.length, ys.length + 1)⟩ ⟨cellP xs ys, (xs.length, ys.length)⟩
          (decide (a = b))
        simp only [delCand] at hle
        constructor
        · simp only [costR]; omega
        · intro hc _ hop
          have := (chooseSpec_noOp_lt _ _ _ _ hop).2
          simp only [delCand] at this
          simp only [costR] at hc
          omega
      | ins c hs' =>
        have ih' := ih (xs.length + 1 + ys.length) (by omega) (a :: xs) ys (by simp) _ hs'
        have hm := mismatch_le_of_parent _ insertionCost _ ih'.1 ih'.2
        have hle := chooseSpec_cost_le_ins ⟨cellP (a :: xs) ys, (xs.length + 1, ys.length)⟩
          ⟨cellP xs (b :: ys), (xs.length, ys.length + 1)⟩ ⟨cellP xs ys, (xs.length, ys.length)⟩
          (decide (a = b))
        simp only [insCand] at hle
        constructor
        · simp only [costR]; omega
        · intro hc _ hop
          have := (chooseSpec_noOp_lt _ _ _ _ hop).1
          simp only [insCand] at this
          simp only [costR] at hc
          omega

theorem cellP_cost_of_del (a b : α) (xs ys : List α) (h : (cellP (a :: xs) (b :: ys)).op = .deletion) :
    (cellP (a :: xs) (b :: ys)).cost = mismatchCost (cellP xs (b :: ys)) deletionCost := by
  rw [cellP_cons_cons] at h ⊢
  rcases chooseSpec_cases ⟨cellP (a :: xs) ys, (xs.length + 1, ys.length)⟩
      ⟨cellP xs (b :: ys), (xs.length, ys.length + 1)⟩
      ⟨cellP xs ys, (xs.length, ys.length)⟩ (decide (a = b)) with h' | h' | h'
  · rw [h'.1] at h; simp [insCand] at h
  · rw [h'.1]; rfl
  · rw [h'.1] at h; simp [noopCand] at h

theorem cellP_cost_of_ins (a b : α) (xs ys : List α) (h : (cellP (a :: xs) (b :: ys)).op = .insertion) :
    (cellP (a :: xs) (b :: ys)).cost = mismatchCost (cellP (a :: xs) ys) insertionCost := by
  rw [cellP_cons_cons] at h ⊢
  rcases chooseSpec_cases ⟨cellP (a :: xs) ys, (xs.length + 1, ys.length)⟩
      ⟨cellP xs (b :: ys), (xs.length, ys.length + 1)⟩
      ⟨cellP xs ys, (xs.length, ys.length)⟩ (decide (a = b)) with h' | h' | h'
  · rw [h'.1]; rfl
  · rw [h'.1] at h; simp [delCand] at h
  · rw [h'.1] at h; simp [noopCand] at h

theorem cellP_cost_of_noOp (a b : α) (xs ys : List α) (h : (cellP (a :: xs) (b :: ys)).op = .noOp) :
    (cellP (a :: xs) (b :: ys)).cost = (cellP xs ys).cost := by
  rw [cellP_cons_cons] at h ⊢
  rcases chooseSpec_cases ⟨cellP (a :: xs) ys, (xs.length + 1, ys.length)⟩
      ⟨cellP xs (b :: ys), (xs.length, ys.length + 1)⟩
      ⟨cellP xs ys, (xs.length, ys.length)⟩ (decide (a = b)) with h' | h' | h'
  · rw [h'.1] at h; simp [insCand] at h
  · rw [h'.1] at h; simp [delCand] at h
  · rw [h'.1]; rfl

theorem costR_noOp (r : List Op) : costR (.noOp :: r) = costR r := rfl
theorem costR_del (r : List Op) : costR (.deletion :: r) =
    costR r + deletionCost + (if endsNoop r then initialMismatchPenalty else 0) := rfl
theorem costR_ins (r : List Op) : costR (.insertion :: r) =
    costR r + insertionCost + (if endsNoop r then initialMismatchPenalty else 0) := rfl
theorem endsNoop_cons (o : Op) (r : List Op) : endsNoop (o :: r) = decide (o = .noOp) := rfl

theorem mismatchCost_eq_costR (c : Cell) (basic : Nat) (r : List Op)
    (h1 : costR r = c.cost) (h2 : endsNoop r = (c.op == .noOp)) :
    mismatchCost c basic = costR r + basic + (if endsNoop r then initialMismatchPenalty else 0) := by
  unfold mismatchCost
  rw [penaltyAfter_eq, h1, h2]
  simp

/-- The script read back has exactly the cost stored in the cell (given equal first tokens). -/
theorem pathP_cost (t : α) :
    ∀ (n : Nat) (xs ys : List α), xs.length + ys.length = n →
      costR (pathP (xs ++ [t]) (ys ++ [t])) = (cellP (xs ++ [t]) (ys ++ [t])).cost ∧
      endsNoop (pathP (xs ++ [t]) (ys ++ [t])) = ((cellP (xs ++ [t]) (ys ++ [t])).op == .noOp) := by
  intro n
  induction n using Nat.strongRecOn with
  | _ n ih =>
    intro xs ys hn
    match xs, ys with
    | [], [] =>
      simp only [List.nil_append]
      rw [pathP_cons_cons]
      simp only [cellP_single]
      simp [pathP, costR, endsNoop]
    | a :: xs, [] =>
      simp only [List.nil_append, List.cons_append]
      have hop : (cellP (a :: (xs ++ [t])) [t]).op = .deletion := by rw [cellP_row1]
      rw [pathP_cons_cons, cellP_cost_of_del _ _ _ _ hop]
      simp only [hop]
      have := ih (xs.length + 0) (by simp at hn; omega) xs [] rfl
      simp only [List.nil_append] at this
      simp only [costR_noOp, costR_del, costR_ins, endsNoop_cons]
      rw [mismatchCost_eq_costR _ _ _ this.1 this.2]
      simp
    | [], b :: ys =>
      simp only [List.nil_append, List.cons_append]
      have hop : (cellP [t] (b :: (ys ++ [t]))).op = .insertion := by rw [cellP_col1]
      rw [pathP_cons_cons, cellP_cost_of_ins _ _ _ _ hop]
      simp only [hop]
      have := ih (0 + ys.length) (by simp at hn; omega) [] ys (by simp)
      simp only [List.nil_append] at this
      simp only [costR_noOp, costR_del, costR_ins, endsNoop_cons]
      rw [mismatchCost_eq_costR _ _ _ this.1 this.2]
      simp
    | a :: xs, b :: ys =>
      simp only [List.cons_append]
      rw [pathP_cons_cons]
      simp only [List.length_cons] at hn
      cases hop : (cellP (a :: (xs ++ [t])) (b :: (ys ++ [t]))).op with
      | insertion =>
        have := ih (xs.length + 1 + ys.length) (by omega) (a :: xs) ys (by simp)
        simp only [List.cons_append] at this
        simp only [costR_noOp, costR_del, costR_ins, endsNoop_cons]
        rw [cellP_cost_of_ins _ _ _ _ hop, mismatchCost_eq_costR _ _ _ this.1 this.2]
        simp
      | deletion =>
        have := ih (xs.length + (ys.length + 1)) (by omega) xs (b :: ys) (by simp)
        simp only [List.cons_append] at this
        simp only [costR_noOp, costR_del, costR_ins, endsNoop_cons]
        rw [cellP_cost_of_del _ _ _ _ hop, mismatchCost_eq_costR _ _ _ this.1 this.2]
        simp
      | noOp =>
        have := ih (xs.length + ys.length) (by omega) xs ys rfl
        simp only [costR_noOp, costR_del, costR_ins, endsNoop_cons]
        rw [cellP_cost_of_noOp _ _ _ _ hop]
        simp [this.1]

/-- `dp_optimal` at specification level. -/
theorem opsSpec_optimal (t : α) (x y : List α) :
    scriptCost (opsSpec (t :: x) (t :: y)) = (cellP (t :: x).reverse (t :: y).reverse).cost ∧
    ∀ s : List Op, ValidScript s (t :: x) (t :: y) →
      (cellP (t :: x).reverse (t :: y).reverse).cost ≤ scriptCost s := by
  constructor
  · unfold opsSpec
    simp only [reduceCtorEq, false_and, if_false, List.reverse_cons]
    rw [scriptCost_reverse]
    exact (pathP_cost t _ x.reverse y.reverse rfl).1
  · intro s hs
    have := (cellP_optimal _ _ _ rfl s.reverse hs.reverse).1
    rw [← scriptCost_reverse, List.reverse_reverse] at this
    exact this

end Align
