import Proofs.AlignRefine
/-!
The operations read back from the table are a valid edit script, provided both token
sequences start with the same token (`tokenize` makes both start with the empty token).
Without that proviso the claim is false: the border cells all point at cell 0.
-/
namespace Align
open Generated.Align

/-- `ops` (first operation first) is an edit script from `x` to `y`: `noOp` consumes one token
from each and they are equal, `deletion` one from `x`, `insertion` one from `y`. -/
inductive ValidScript {α : Type} : List Op → List α → List α → Prop
  | nil : ValidScript [] [] []
  | noop {ops x y} (a : α) : ValidScript ops x y → ValidScript (.noOp :: ops) (a :: x) (a :: y)
  | del {ops x y} (a : α) : ValidScript ops x y → ValidScript (.deletion :: ops) (a :: x) y
  | ins {ops x y} (b : α) : ValidScript ops x y → ValidScript (.insertion :: ops) x (b :: y)

variable {α : Type}

theorem ValidScript.snoc_noop {ops : List Op} {x y : List α} (a : α) (h : ValidScript ops x y) :
    ValidScript (ops ++ [.noOp]) (x ++ [a]) (y ++ [a]) := by
  induction h with
  | nil => exact .noop a .nil
  | noop c _ ih => exact .noop c ih
  | del c _ ih => exact .del c ih
  | ins c _ ih => exact .ins c ih

theorem ValidScript.snoc_del {ops : List Op} {x y : List α} (a : α) (h : ValidScript ops x y) :
    ValidScript (ops ++ [.deletion]) (x ++ [a]) y := by
  induction h with
  | nil => exact .del a .nil
  | noop c _ ih => exact .noop c ih
  | del c _ ih => exact .del c ih
  | ins c _ ih => exact .ins c ih

theorem ValidScript.snoc_ins {ops : List Op} {x y : List α} (b : α) (h : ValidScript ops x y) :
    ValidScript (ops ++ [.insertion]) x (y ++ [b]) := by
  induction h with
  | nil => exact .ins b .nil
  | noop c _ ih => exact .noop c ih
  | del c _ ih => exact .del c ih
  | ins c _ ih => exact .ins c ih

/-- A script read backwards is a script between the reversed sequences. -/
theorem ValidScript.reverse {ops : List Op} {x y : List α} (h : ValidScript ops x y) :
    ValidScript ops.reverse x.reverse y.reverse := by
  induction h with
  | nil => exact .nil
  | noop c _ ih => simpa using ih.snoc_noop c
  | del c _ ih => simpa using ih.snoc_del c
  | ins c _ ih => simpa using ih.snoc_ins c

theorem ValidScript.of_reverse {ops : List Op} {x y : List α}
    (h : ValidScript ops.reverse x.reverse y.reverse) : ValidScript ops x y := by
  simpa using h.reverse

def countOp (o : Op) (ops : List Op) : Nat := ops.count o

theorem ValidScript.length_left {ops : List Op} {x y : List α} (h : ValidScript ops x y) :
    countOp .deletion ops + countOp .noOp ops = x.length := by
  induction h <;> simp_all [countOp] <;> omega

theorem ValidScript.length_right {ops : List Op} {x y : List α} (h : ValidScript ops x y) :
    countOp .insertion ops + countOp .noOp ops = y.length := by
  induction h <;> simp_all [countOp] <;> omega

variable [DecidableEq α]

/-! ### Row 1 and column 1 never point at the border (given equal first tokens) -/

theorem le_mismatchCost (c : Cell) (basic : Nat) : basic ≤ mismatchCost c basic := by
  unfold mismatchCost; omega

theorem mismatchCost_colTop (i basic : Nat) :
    mismatchCost (colTop i) basic = i * deletionCost + initialMismatchPenalty + basic := by
  simp [mismatchCost, colTop, firstRowOp_eq, firstRowStep_eq, firstRowExtra_eq, penaltyAfter_eq]

theorem mismatchCost_colLeft (j basic : Nat) :
    mismatchCost (colLeft j) basic = j * insertionCost + initialMismatchPenalty + basic := by
  simp [mismatchCost, colLeft, firstColOp_eq, firstColStep_eq, firstColExtra_eq, penaltyAfter_eq]

theorem cellP_single (t : α) : cellP [t] [t] = ⟨(0, 0), .noOp, 0⟩ := by
  rw [cellP_cons_cons]
  simp only [cellP, List.length_nil, decide_true]
  have h1 := deletionCost_pos
  have h2 := insertionCost_pos
  rcases chooseSpec_cases ⟨colTop (0 + 1), (0 + 1, 0)⟩ ⟨colLeft (0 + 1), (0, 0 + 1)⟩ ⟨origin, (0, 0)⟩ true
    with h | h | h
  · have h3 := h.2.2 rfl
    have h4 := le_mismatchCost (colTop (0 + 1)) insertionCost
    simp only [insCand, noopCand, origin] at h3
    omega
  · have h3 := h.2.2 rfl
    have h4 := le_mismatchCost (colLeft (0 + 1)) deletionCost
    simp only [delCand, noopCand, origin] at h3
    omega
  · rw [h.1]; simp [noopCand, origin]

theorem row1_step (k : Nat) (left : Cell) (eq : Bool)
    (hl : mismatchCost left deletionCost = (k + 1) * deletionCost + initialMismatchPenalty) :
    chooseSpec ⟨colTop (k + 1 + 1), (k + 1 + 1, 0)⟩ ⟨left, (k + 1, 0 + 1)⟩ ⟨colTop (k + 1), (k + 1, 0)⟩ eq =
      ⟨(k + 1, 1), .deletion, (k + 1) * deletionCost + initialMismatchPenalty⟩ := by
  have h1 := deletionCost_pos
  have h2 := insertionCost_pos
  have hi := mismatchCost_colTop (k + 1 + 1) insertionCost
  have e : (k + 1 + 1) * deletionCost = (k + 1) * deletionCost + deletionCost := by
    simp [Nat.succ_mul]
  rcases chooseSpec_cases ⟨colTop (k + 1 + 1), (k + 1 + 1, 0)⟩ ⟨left, (k + 1, 0 + 1)⟩
      ⟨colTop (k + 1), (k + 1, 0)⟩ eq with h | h | h
  · have h3 := h.2.1
    simp only [insCand, delCand] at h3
    omega
  · rw [h.1]; simp [delCand, hl]
  · have h3 := h.2.2.2
    simp only [noopCand, delCand, colTop, firstRowStep_eq, firstRowExtra_eq] at h3
    omega

theorem col1_step (k : Nat) (up : Cell) (eq : Bool)
    (hu : mismatchCost up insertionCost = (k + 1) * insertionCost + initialMismatchPenalty) :
    chooseSpec ⟨up, (0 + 1, k + 1)⟩ ⟨colLeft (k + 1 + 1), (0, k + 1 + 1)⟩ ⟨colLeft (k + 1), (0, k + 1)⟩ eq =
      ⟨(1, k + 1), .insertion, (k + 1) * insertionCost + initialMismatchPenalty⟩ := by
  have h1 := deletionCost_pos
  have h2 := insertionCost_pos
  have hi := mismatchCost_colLeft (k + 1 + 1) deletionCost
  have e : (k + 1 + 1) * insertionCost = (k + 1) * insertionCost + insertionCost := by
    simp [Nat.succ_mul]
  rcases chooseSpec_cases ⟨up, (0 + 1, k + 1)⟩ ⟨colLeft (k + 1 + 1), (0, k + 1 + 1)⟩
      ⟨colLeft (k + 1), (0, k + 1)⟩ eq with h | h | h
  · rw [h.1]; simp [insCand, hu]
  · have h3 := h.2.1
    simp only [insCand, delCand] at h3
    omega
  · have h3 := h.2.2.1
    simp only [noopCand, insCand, colLeft, firstColStep_eq, firstColExtra_eq] at h3
    omega

/-- Row 1: cell `(i, 1)` for `i ≥ 2` is a deletion from `(i-1, 1)`. -/
theorem cellP_row1 (t : α) (xs : List α) (a : α) :
    cellP (a :: (xs ++ [t])) [t] =
      ⟨(xs.length + 1, 1), .deletion, (xs.length + 1) * deletionCost + initialMismatchPenalty⟩ := by
  induction xs generalizing a with
  | nil =>
    rw [cellP_cons_cons]
    simp only [List.nil_append, cellP_single, List.length_nil, List.length_cons]
    simp only [cellP, List.length_nil, List.length_cons]
    exact row1_step 0 _ _ (by simp [mismatchCost, penaltyAfter_eq])
  | cons c xs ih =>
    rw [cellP_cons_cons]
    have := ih c
    simp only [List.cons_append] at this ⊢
    rw [this]
    simp only [cellP, List.length_nil, List.length_cons, List.length_append]
    exact row1_step (xs.length + 1) _ _ (by
      simp [mismatchCost, penaltyAfter_eq, Nat.succ_mul]; omega)

/-- Column 1: cell `(1, j)` for `j ≥ 2` is an insertion from `(1, j-1)`. -/
theorem cellP_col1 (t : α) (ys : List α) (b : α) :
    cellP [t] (b :: (ys ++ [t])) =
      ⟨(1, ys.length + 1), .insertion, (ys.length + 1) * insertionCost + initialMismatchPenalty⟩ := by
  induction ys generalizing b with
  | nil =>
    rw [cellP_cons_cons]
    simp only [List.nil_append, cellP_single, List.length_nil, List.length_cons]
    simp only [cellP, List.length_nil, List.length_cons]
    exact col1_step 0 _ _ (by simp [mismatchCost, penaltyAfter_eq])
  | cons c ys ih =>
    rw [cellP_cons_cons]
    have := ih c
    simp only [List.cons_append] at this ⊢
    rw [this]
    simp only [cellP, List.length_nil, List.length_cons, List.length_append]
    exact col1_step (ys.length + 1) _ _ (by
      simp [mismatchCost, penaltyAfter_eq, Nat.succ_mul]; omega)

theorem cellP_op_noOp_imp_eq (a b : α) (xs ys : List α) (h : (cellP (a :: xs) (b :: ys)).op = .noOp) :
    a = b := by
  rw [cellP_cons_cons] at h
  rcases chooseSpec_cases ⟨cellP (a :: xs) ys, (xs.length + 1, ys.length)⟩
      ⟨cellP xs (b :: ys), (xs.length, ys.length + 1)⟩
      ⟨cellP xs ys, (xs.length, ys.length)⟩ (decide (a = b)) with h' | h' | h'
  · rw [h'.1] at h; simp [insCand] at h
  · rw [h'.1] at h; simp [delCand] at h
  · simpa using h'.2.1

/-- The path read back from `(|X|, |Y|)` is an edit script between the prefixes, when both
sequences start with the same token `t` (here: the reversed prefixes end with `t`). -/
theorem pathP_valid (t : α) :
    ∀ (n : Nat) (xs ys : List α), xs.length + ys.length = n →
      ValidScript (pathP (xs ++ [t]) (ys ++ [t])) (xs ++ [t]) (ys ++ [t]) := by
  intro n
  induction n using Nat.strongRecOn with
  | _ n ih =>
    intro xs ys hn
    match xs, ys with
    | [], [] =>
      simp only [List.nil_append]
      rw [pathP_cons_cons, cellP_single]
      simp only [pathP]
      exact .noop t .nil
    | a :: xs, [] =>
      simp only [List.nil_append, List.cons_append]
      rw [pathP_cons_cons, cellP_row1]
      simp only
      have := ih (xs.length + 0) (by simp at hn; omega) xs [] rfl
      exact .del a (by simpa using this)
    | [], b :: ys =>
      simp only [List.nil_append, List.cons_append]
      rw [pathP_cons_cons, cellP_col1]
      simp only
      have := ih (0 + ys.length) (by simp at hn; omega) [] ys (by simp)
      exact .ins b (by simpa using this)
    | a :: xs, b :: ys =>
      simp only [List.cons_append]
      rw [pathP_cons_cons]
      simp only [List.length_cons] at hn
      cases hop : (cellP (a :: (xs ++ [t])) (b :: (ys ++ [t]))).op with
      | insertion =>
        simp only
        have := ih (xs.length + 1 + ys.length) (by omega) (a :: xs) ys (by simp)
        exact .ins b (by simpa using this)
      | deletion =>
        simp only
        have := ih (xs.length + (ys.length + 1)) (by omega) xs (b :: ys) (by simp)
        exact .del a (by simpa using this)
      | noOp =>
        simp only
        have hab := cellP_op_noOp_imp_eq _ _ _ _ hop
        subst hab
        have := ih (xs.length + ys.length) (by omega) xs ys rfl
        exact .noop a this

/-- `opsSpec` is a valid edit script when both sequences start with the same token. -/
theorem opsSpec_valid (t : α) (x y : List α) :
    ValidScript (opsSpec (t :: x) (t :: y)) (t :: x) (t :: y) := by
  unfold opsSpec
  simp only [reduceCtorEq, false_and, if_false, List.reverse_cons]
  apply ValidScript.of_reverse
  simp only [List.reverse_reverse, List.reverse_cons]
  have := pathP_valid t _ x.reverse y.reverse rfl
  simpa using this

/-! ### Identical sequences: all no-ops -/

theorem cellP_diag (a : α) (xs : List α) :
    cellP (a :: xs) (a :: xs) = ⟨(xs.length, xs.length), .noOp, 0⟩ := by
  induction xs generalizing a with
  | nil => exact cellP_single a
  | cons c xs ih =>
    rw [cellP_cons_cons, ih c]
    have h1 := deletionCost_pos
    have h2 := insertionCost_pos
    have h3 := le_mismatchCost (cellP (c :: xs) (a :: c :: xs)) deletionCost
    have h4 := le_mismatchCost (cellP (a :: c :: xs) (c :: xs)) insertionCost
    rcases chooseSpec_cases ⟨cellP (a :: c :: xs) (c :: xs), ((c :: xs).length + 1, (c :: xs).length)⟩
      ⟨cellP (c :: xs) (a :: c :: xs), ((c :: xs).length, (c :: xs).length + 1)⟩
      ⟨⟨(xs.length, xs.length), .noOp, 0⟩, ((c :: xs).length, (c :: xs).length)⟩ (decide (a = a)) with h | h | h
    · have := h.2.2 (by simp)
      simp only [insCand, noopCand] at this
      omega
    · have := h.2.2 (by simp)
      simp only [delCand, noopCand] at this
      omega
    · rw [h.1]; simp [noopCand]

theorem pathP_diag (X : List α) : pathP X X = List.replicate X.length .noOp := by
  induction X with
  | nil => simp [pathP]
  | cons a xs ih =>
    rw [pathP_cons_cons, cellP_diag]
    simp only [ih, List.length_cons, List.replicate_succ]

theorem opsSpec_self (x : List α) (h : x ≠ []) : opsSpec x x = List.replicate x.length .noOp := by
  unfold opsSpec
  simp [h, pathP_diag]

end Align
