import DeltaModel.Pager
/-!
Helper lemmas for `Props/C18.lean`.

The `decide` lemmas at the top evaluate the model's interpreters on the *generated* shape of
`run_app` (`Generated.PagerShape`): they are the point where an edit to the match arms, the
exit-code literals or the statement order of the source stops the proofs from checking.
-/
namespace Pager
open Generated

/-! ### facts read off the generated shape -/

theorem shapeOk_true : shapeOk = true := by decide

theorem onError_stdin_bp : onError "stdin" .brokenPipe = some ⟨0, true, true, false⟩ := by decide
theorem onError_stdin_other : onError "stdin" .other = some ⟨2, false, true, false⟩ := by decide
theorem onError_sub_bp : onError "sub" .brokenPipe = some ⟨0, true, true, true⟩ := by decide
theorem onError_sub_other : onError "sub" .other = some ⟨2, false, true, true⟩ := by decide
theorem onError_early_bp : onError "early" .brokenPipe = some ⟨0, true, true, false⟩ := by decide
theorem onError_early_other : onError "early" .other = some ⟨2, false, false, false⟩ := by decide

theorem stdinTail_zero : evalCode PagerShape.stdinTail 0 = some 0 := by decide
theorem subTail_status (st : Int) : evalCode PagerShape.subTail st = some st := by
  simp [evalCode, PagerShape.subTail]
/-- the error exits of `run_app` outside the rendering are *returns* (message, status 2): these
    three `decide`s are where a `return Ok(code)` turned into `fatal(..)` / `process::exit(..)`
    stops the proofs from checking -/
theorem spawnFail_exit : (spawnFailExit.bind errExit) = some ⟨[Event.message], 2, false, true⟩ := by decide
theorem stdinTty_exit : errExit PagerShape.stdinTtyExit = some ⟨[Event.message], 2, false, true⟩ := by decide
theorem diffArgs_exit : errExit PagerShape.diffArgsErrExit = some ⟨[Event.message], 2, false, true⟩ := by decide
/-- after `from_mode`, outside the rendering, the only exit primitives `run_app` and the helpers it
    calls (`build_diff_cmd`, …) contain are `delta_unreachable` guards -/
theorem setupExits_unreachable :
    PagerShape.setupPhaseExits.all (fun e => e.2.1 == "unreachable") = true := by decide
theorem fatalExitCode_two : PagerShape.fatalExitCode = 2 := by decide
theorem dropWaits : PagerShape.dropWaitsForPager = true := by decide
theorem subStatusFromCode_true : PagerShape.subStatusFromCode = true := by decide
theorem subNoStatus_true : PagerShape.subNoStatusIsErrorCode = true := by decide
theorem subNoStatusPrints_true : PagerShape.subNoStatusPrints = true := by decide
theorem errorExitCode_two : PagerShape.errorExitCode = 2 := by decide

/-! ### events of the body -/

/-- Events that `body` can produce (no pager event, no exit). -/
def Event.isBodyEvent : Event → Bool
  | .spawnSub => true
  | .writeOk => true
  | .writeFail _ => true
  | .waitSub => true
  | .message => true
  | _ => false

theorem renderEvents_body (s : Scenario) : (renderEvents s).all Event.isBodyEvent = true := by
  unfold renderEvents
  cases effectiveFault s <;> simp [List.all_append, List.all_replicate, Event.isBodyEvent]

theorem msg_body (b : Bool) : (msg b).all Event.isBodyEvent = true := by
  cases b <;> simp [msg, Event.isBodyEvent]

theorem effectiveFault_of_lt (m : Mode) (p : Bool) (w pos : Nat) (k : FaultKind) (h : pos < w) :
    effectiveFault ⟨m, p, w, some ⟨pos, k⟩⟩ = some ⟨pos, k⟩ := by
  simp [effectiveFault, h]

theorem abortBody_unreachable (pre : List Event) : abortBody "unreachable" pre = none := by
  simp [abortBody]

/-- No entry of `setupPhaseExits` gives a run: they are all `delta_unreachable` guards. -/
theorem setupAbort_none (i : Nat) (pager : Bool) (writes : Nat) (fault : Option Fault) :
    body ⟨.setupAbort i, pager, writes, fault⟩ = none := by
  simp only [body]
  cases h : PagerShape.setupPhaseExits[i]? with
  | none => rfl
  | some e =>
    obtain ⟨site, kind, via⟩ := e
    have hm : (site, kind, via) ∈ PagerShape.setupPhaseExits := List.mem_of_getElem? h
    have := List.all_eq_true.mp setupExits_unreachable _ hm
    simp at this
    subst this
    exact abortBody_unreachable []

def Mode.isRenderAbort : Mode → Bool
  | .renderAbort _ => true
  | _ => false

theorem abortBody_spec (kind : String) (pre : List Event) (b : Body) (h : abortBody kind pre = some b) :
    b = ⟨pre ++ [Event.message], PagerShape.fatalExitCode, false, false⟩ := by
  unfold abortBody at h
  split at h
  · simp at h; exact h.symm
  · simp at h

/-- Every event of the body is a body event, and when the mode runs with an `OutputType` the
    body returns to `run_app`'s end (so that `output_type` is dropped) - unless an exit primitive
    reachable through the rendering call is executed (`renderAbort`). -/
theorem body_spec (s : Scenario) (b : Body) (h : body s = some b) :
    b.events.all Event.isBodyEvent = true ∧
      (usesOutputType s.mode = true → s.mode.isRenderAbort = false → b.returns = true) := by
  have hr := renderEvents_body s
  obtain ⟨mode, pager, writes, fault⟩ := s
  cases mode with
  | stdin =>
    simp only [body] at h
    cases hf : effectiveFault ⟨.stdin, pager, writes, fault⟩ with
    | none =>
      simp [hf, stdinTail_zero] at h
      subst h; simp [hr]
    | some f =>
      obtain ⟨pos, k⟩ := f
      cases k <;> simp [hf, onError_stdin_bp, onError_stdin_other] at h <;> subst h <;>
        simp [hr, List.all_append, msg, Event.isBodyEvent]
  | stdinTty =>
    simp [body, stdinTty_exit] at h
    subst h; simp [Event.isBodyEvent]
  | diffArgsError =>
    simp [body, diffArgs_exit] at h
    subst h; simp [Event.isBodyEvent]
  | setupAbort i =>
    rw [setupAbort_none] at h
    cases h
  | renderAbort i =>
    simp only [body] at h
    cases hk : PagerShape.renderPhaseExits[i]? with
    | none => simp [hk] at h
    | some e =>
      obtain ⟨site, kind⟩ := e
      simp only [hk] at h
      have := abortBody_spec _ _ _ h
      subst this
      simp [List.all_append, List.all_replicate, Event.isBodyEvent, Mode.isRenderAbort]
  | sub kind spawnOk status n =>
    simp only [body] at h
    cases spawnOk with
    | false =>
      have hs := spawnFail_exit
      cases hx : spawnFailExit with
      | none => simp [hx] at hs
      | some x =>
        simp [hx] at hs h
        rw [hs] at h
        cases h; simp [Event.isBodyEvent]
    | true =>
      cases hf : effectiveFault ⟨.sub kind true status n, pager, writes, fault⟩ with
      | some f =>
        obtain ⟨pos, k⟩ := f
        cases k <;> simp [hf, onError_sub_bp, onError_sub_other] at h <;> subst h <;>
          simp [hr, List.all_append, msg, Event.isBodyEvent]
      | none =>
        cases status with
        | some st =>
          simp [hf, subStatusFromCode_true, subTail_status] at h
          subst h
          simp [hr, List.all_append, msg_body, Event.isBodyEvent]
        | none =>
          simp [hf, subStatusFromCode_true, subNoStatus_true, subTail_status] at h
          subst h
          simp [hr, List.all_append, msg_body, Event.isBodyEvent]
  | early =>
    simp only [body] at h
    cases hf : effectiveFault ⟨.early, pager, writes, fault⟩ with
    | none =>
      simp [hf, onError_early_bp] at h
      subst h; simp [hr, usesOutputType]
    | some f =>
      obtain ⟨pos, k⟩ := f
      cases k <;> simp [hf, onError_early_bp, onError_early_other] at h <;> subst h <;>
        simp [hr, List.all_append, msg, Event.isBodyEvent, usesOutputType]
  | oneshot =>
    simp only [body] at h
    cases hf : effectiveFault ⟨.oneshot, pager, writes, fault⟩ with
    | none =>
      simp [hf] at h
      subst h; simp [hr, usesOutputType]
    | some f =>
      simp only [hf] at h
      simp only [usesOutputType]
      split at h
      · simp at h; subst h; simp [hr, List.all_append, Event.isBodyEvent]
      · split at h
        · obtain ⟨pos, k⟩ := f
          cases k <;> simp at h <;> subst h <;> simp [hr, List.all_append, Event.isBodyEvent]
        · simp at h

theorem not_mem_of_all_body {l : List Event} (h : l.all Event.isBodyEvent = true) (e : Event)
    (he : e.isBodyEvent = false) : e ∉ l := by
  intro hm
  have := List.all_eq_true.mp h e hm
  simp [he] at this

end Pager
