/-
Lemmas composing `Grep.emit` (classic output style) with the row layout of `DeltaModel/GrepRow.lean`
(C16, session 4 / T10b): what a reader gets from the rows of a stream is what `attach` says of them.
-/
import Proofs.GrepRow
import Proofs.GrepEmit

namespace GrepRow

open Grep

/-- Every row is a classic-style hit row or a line passed through. -/
def classicOnly : List Row → Bool
  | [] => true
  | .code (some _) _ _ _ _ :: rest => classicOnly rest
  | .raw _ :: rest => classicOnly rest
  | _ => false

theorem classicOnly_append (a b : List Row) : classicOnly (a ++ b) = (classicOnly a && classicOnly b) := by
  induction a with
  | nil => simp [classicOnly]
  | cons r rest ih =>
    cases r with
    | code p n k s t => cases p <;> simp [classicOnly, ih]
    | raw l => simp [classicOnly, ih]
    | _ => simp [classicOnly]

theorem stepHit_classicOnly (cfg : Grep.Cfg) (st : St) (h : Hit) (st' : St) (rows : List Row)
    (hs : cfg.outputType.getD h.gtype = .classic)
    (hh : (h.kind = .contextHeader && cfg.headerAsHunkHeader) = false)
    (e : stepHit cfg st h = .ok (st', rows)) : classicOnly rows = true := by
  unfold stepHit at e
  split at e
  · cases e; rfl
  · simp only at e
    split at e
    · cases e
    · rw [hs] at e
      simp only [hh] at e
      split at e
      · rename_i hc; simp at hc
      · split at e
        · cases e
        · cases e; simp [classicOnly]

theorem emitFrom_classicOnly (cfg : Grep.Cfg) : ∀ (lines : List Line) (st : St) (rows : List Row),
    (∀ h, Line.hit h ∈ lines → cfg.outputType.getD h.gtype = .classic) →
    (∀ h, Line.hit h ∈ lines → (h.kind = .contextHeader && cfg.headerAsHunkHeader) = false) →
    emitFrom cfg st lines = .ok rows → classicOnly rows = true
  | [], _, rows, _, _, e => by simp [emitFrom] at e; subst e; rfl
  | .other raw :: rest, st, rows, h1, h2, e => by
    simp only [emitFrom] at e
    split at e
    · cases e
    · rename_i more hm
      cases e
      simp only [classicOnly]
      exact emitFrom_classicOnly cfg rest st more (fun h hh => h1 h (List.mem_cons_of_mem _ hh))
        (fun h hh => h2 h (List.mem_cons_of_mem _ hh)) hm
  | .hit h :: rest, st, rows, h1, h2, e => by
    simp only [emitFrom] at e
    split at e
    · cases e
    · rename_i st' r0 hstep
      split at e
      · cases e
      · rename_i more hm
        cases e
        rw [classicOnly_append, stepHit_classicOnly cfg st h st' r0 (h1 h (List.mem_cons_self ..)) (h2 h (List.mem_cons_self ..)) hstep,
          emitFrom_classicOnly cfg rest st' more (fun h hh => h1 h (List.mem_cons_of_mem _ hh))
            (fun h hh => h2 h (List.mem_cons_of_mem _ hh)) hm]
        rfl

def encode (x : Option (List Char) × Option Nat × Bytes) : List Bytes × List Bytes × Bytes :=
  ([RipGrepJson.bytesOfChars (x.1.getD [])], x.2.1.toList.map digitsOf, x.2.2)

def rowsReading (cfg : GrepRow.Cfg) (rows : List Row) : List (List Bytes × List Bytes × Bytes) :=
  rows.filterMap fun r => (rowCells cfg r).map reading

theorem rowsReading_attach (cfg : GrepRow.Cfg) : ∀ (rows : List Row) (cur : Option (List Char)), classicOnly rows = true →
    rowsReading cfg rows = (attachFrom cur rows).map encode
  | [], _, _ => rfl
  | .code (some p) n k secs t :: rest, cur, h => by
    simp only [classicOnly] at h
    simp [rowsReading, attachFrom, rowCells, reading_classicRow, encode]
    exact rowsReading_attach cfg rest cur h
  | .raw l :: rest, cur, h => by
    simp only [classicOnly] at h
    simp [rowsReading, attachFrom, rowCells]
    exact rowsReading_attach cfg rest cur h
  | .code none _ _ _ _ :: _, _, h => by simp [classicOnly] at h
  | .blank :: _, _, h => by simp [classicOnly] at h
  | .header _ :: _, _, h => by simp [classicOnly] at h
  | .sep :: _, _, h => by simp [classicOnly] at h
  | .funcHeader _ _ _ :: _, _, h => by simp [classicOnly] at h

end GrepRow
