import DeltaModel.Grep
import Proofs.GrepSections
/-!
Helper lemmas for C16: the emission state machine of `handle_grep_line`.
-/
namespace Grep

/-- The hits of a stream, in order. -/
def hitsOf : List Line → List Hit
  | [] => []
  | .hit h :: rest => h :: hitsOf rest
  | .other _ :: rest => hitsOf rest

/-- What the theorem asks of a hit shown in output style `style` (see Props/C16.lean).
Each disjunct `Generated.Grep.fix…` is a repair of the source the model follows
(notes/C16.md): once it is present the corresponding demand is dropped. -/
def hitOk (cfg : Cfg) (style : GrepType) (h : Hit) : Bool :=
  h.kind != .ignore && (h.num != some 0 || Generated.Grep.fixLineNumberZero) &&
  (match h.subs with
   | none =>
     h.kind != .match_ || h.prefixOk || Generated.Grep.fixPrefixCheck ||
       (style == .ripgrep && h.code.isEmpty)
   | some ss =>
     h.kind != .match_ || Generated.Grep.fixSectionsGuard ||
       spansOk (expandTabs cfg.tabWidth h.code ss).1 0 (expandTabs cfg.tabWidth h.code ss).2) &&
  (match style with
   | .ripgrep => h.num.isSome || !h.code.isEmpty || Generated.Grep.fixEmptyRow
   | .classic =>
     !(h.kind == .contextHeader && cfg.headerAsHunkHeader) || h.num.isSome ||
       Generated.Grep.fixHeaderNumber)

theorem expandB_nil (w : Nat) : expandB w [] = [] := by
  unfold expandB; split <;> simp

theorem secsText_nil : secsText [] = [] := rfl

theorem secsText_single (b : Bool) (t : Bytes) : secsText [(b, t)] = t := by
  simp [secsText]

/-- Under `hitOk` the code sections are computed without panic and spell the expanded code. -/
theorem codeSections_ok (cfg : Cfg) (style : GrepType) (h : Hit)
    (hok : hitOk cfg style h = true) :
    ∃ secs trail, codeSections cfg style h = .ok (secs, trail) ∧
      secsText secs = expandB cfg.tabWidth h.code := by
  have hplain : ∀ b : Bool, ∃ secs trail,
      (Except.ok (if (expandB cfg.tabWidth h.code).isEmpty then []
        else [(false, expandB cfg.tabWidth h.code)], b) :
          Except Panic (List (Bool × Bytes) × Bool)) = .ok (secs, trail) ∧
      secsText secs = expandB cfg.tabWidth h.code := by
    intro b
    by_cases he : (expandB cfg.tabWidth h.code).isEmpty = true
    · refine ⟨[], b, ?_, ?_⟩
      · simp [he]
      · rw [secsText_nil]; exact (List.isEmpty_iff.mp he).symm
    · refine ⟨[(false, expandB cfg.tabWidth h.code)], b, ?_, ?_⟩
      · simp [he]
      · exact secsText_single _ _
  unfold codeSections
  split
  · rename_i subs hk hs
    have hsp : Generated.Grep.fixSectionsGuard = true ∨
        spansOk (expandTabs cfg.tabWidth h.code subs).1 0
          (expandTabs cfg.tabWidth h.code subs).2 = true := by
      simp only [hitOk, hk, hs, Bool.and_eq_true, Bool.or_eq_true] at hok
      rcases hok.1.2 with (h1 | h1) | h1
      · simp at h1
      · exact .inl h1
      · exact .inr h1
    rcases hsp with hfix | hsp
    · obtain ⟨secs, h1, h2⟩ := makeStyleSections_total hfix
        (expandTabs cfg.tabWidth h.code subs).1 (expandTabs cfg.tabWidth h.code subs).2
      refine ⟨secs, false, ?_, ?_⟩
      · simp only [h1]
      · exact h2
    · obtain ⟨secs, h1, h2, _⟩ := makeStyleSections_ok _ _ hsp
      refine ⟨secs, false, ?_, ?_⟩
      · simp only [h1]
      · exact h2
  · rename_i hk hs
    by_cases hp : h.prefixOk = true
    · simp only [hp, if_true]
      exact hplain false
    · rw [if_neg hp]
      by_cases hfix : Generated.Grep.fixPrefixCheck = true
      · rw [if_pos hfix]
        exact hplain true
      · rw [if_neg hfix]
        simp only [hitOk, hk, hs, Bool.and_eq_true, Bool.or_eq_true] at hok
        rcases hok.1.2 with ((h1 | h1) | h1) | h1
        · simp at h1
        · exact absurd h1 hp
        · exact absurd h1 hfix
        · have hst : style = .ripgrep := by simpa using h1.1
          have hc : h.code = [] := by simpa using h1.2
          have he : expandB cfg.tabWidth h.code = [] := by rw [hc, expandB_nil]
          refine ⟨[], false, ?_, ?_⟩
          · simp [he, hst]
          · rw [secsText_nil, he]
  · exact hplain true

theorem lineNumberJump_ok (prev cur : Option Nat)
    (h : cur ≠ some 0 ∨ Generated.Grep.fixLineNumberZero = true) :
    ∃ b, lineNumberJump prev cur = .ok b := by
  unfold lineNumberJump
  split
  · exact ⟨_, rfl⟩
  · rcases h with h | h
    · exact absurd rfl h
    · rw [if_pos h]; exact ⟨_, rfl⟩
  · split <;> exact ⟨_, rfl⟩

/-- In ripgrep style the last header row seen is the path of the state. -/
def Inv (style : GrepType) (st : St) (cur : Option (List Char)) : Prop :=
  style = .ripgrep → match st with
    | none => True
    | some (_, p, _) => cur = some p

/-- The header shown above the rows after a hit. -/
def curAfter (style : GrepType) (cur : Option (List Char)) (h : Hit) : Option (List Char) :=
  match style with
  | .ripgrep => some h.path
  | .classic => cur

theorem inv_after (style : GrepType) (cur : Option (List Char)) (h : Hit) :
    Inv style (some (h.kind, h.path, h.num)) (curAfter style cur h) := by
  intro hs; subst hs; rfl

theorem stepHit_ok (cfg : Cfg) (style : GrepType) (st : St) (cur : Option (List Char)) (h : Hit)
    (hs : cfg.outputType.getD h.gtype = style) (hok : hitOk cfg style h = true)
    (inv : Inv style st cur) :
    ∃ rows, stepHit cfg st h = .ok (some (h.kind, h.path, h.num), rows) ∧
      ∀ more, attachFrom cur (rows ++ more) =
        (some h.path, h.num, expandB cfg.tabWidth h.code) ::
          attachFrom (curAfter style cur h) more := by
  obtain ⟨secs, trail, hcs, htxt⟩ := codeSections_ok cfg style h hok
  have hk : h.kind ≠ .ignore := by
    intro hk; simp [hitOk, hk] at hok
  have hn : h.num ≠ some 0 ∨ Generated.Grep.fixLineNumberZero = true := by
    simp only [hitOk, Bool.and_eq_true, Bool.or_eq_true] at hok
    rcases hok.1.1.2 with h1 | h1
    · exact .inl (by simpa using h1)
    · exact .inr h1
  unfold stepHit
  rw [if_neg hk]
  cases style with
  | ripgrep =>
    -- the row written for the hit, whichever branch is taken
    have hrow : ∃ n' secs' trail',
        (if (Generated.Grep.fixEmptyRow && h.code.isEmpty && h.num.isNone) = true then
            (none : Option Nat) = n' ∧ ([] : List (Bool × Bytes)) = secs' ∧ false = trail'
          else (h.code.isEmpty && h.num.isNone) = false ∧ h.num = n' ∧ secs = secs' ∧ trail = trail') ∧
        n' = h.num ∧ secsText secs' = expandB cfg.tabWidth h.code := by
      by_cases hE : (Generated.Grep.fixEmptyRow && h.code.isEmpty && h.num.isNone) = true
      · refine ⟨none, [], false, ?_, ?_, ?_⟩
        · rw [if_pos hE]; exact ⟨rfl, rfl, rfl⟩
        · simp only [Bool.and_eq_true] at hE
          have := hE.2; simp at this; exact this.symm
        · simp only [Bool.and_eq_true] at hE
          have hc : h.code = [] := by simpa using hE.1.2
          rw [hc, expandB_nil]; rfl
      · refine ⟨h.num, secs, trail, ?_, rfl, htxt⟩
        rw [if_neg hE]
        refine ⟨?_, rfl, rfl, rfl⟩
        simp only [hitOk, Bool.and_eq_true, Bool.or_eq_true] at hok
        rcases hok.2 with (h1 | h1) | h1
        · cases hnum : h.num <;> simp_all
        · cases hc : h.code <;> simp_all
        · cases hb : (h.code.isEmpty && h.num.isNone)
          · rfl
          · exfalso; apply hE
            rw [Bool.and_assoc, hb, h1]; rfl
    obtain ⟨n', secs', trail', hshape, hn', htxt'⟩ := hrow
    have hstep : ∀ (pre : List Row),
        (if (Generated.Grep.fixEmptyRow && h.code.isEmpty && h.num.isNone) = true then
          (Except.ok (some (h.kind, h.path, h.num), pre ++ [Row.code none none h.kind [] false]) :
            Except Panic (St × List Row))
        else
          match codeSections cfg .ripgrep h with
          | .error e => .error e
          | .ok (secs, trail) =>
            .ok (some (h.kind, h.path, h.num), pre ++
              (if (h.code.isEmpty && h.num.isNone) = true then []
               else [Row.code none h.num h.kind secs trail]))) =
        .ok (some (h.kind, h.path, h.num), pre ++ [Row.code none n' h.kind secs' trail']) := by
      intro pre
      by_cases hE : (Generated.Grep.fixEmptyRow && h.code.isEmpty && h.num.isNone) = true
      · rw [if_pos hE] at hshape ⊢
        obtain ⟨h1, h2, h3⟩ := hshape
        subst h1 h2 h3; rfl
      · rw [if_neg hE] at hshape ⊢
        obtain ⟨h0, h1, h2, h3⟩ := hshape
        subst h1 h2 h3
        simp only [hcs, h0]
        rfl
    cases st with
    | none =>
      obtain ⟨jump, hj⟩ := lineNumberJump_ok none h.num hn
      simp only [hj, hs]
      refine ⟨_, hstep _, ?_⟩
      intro more
      simp [attachFrom, curAfter, htxt', hn']
    | some s =>
      obtain ⟨k, p, n⟩ := s
      obtain ⟨jump, hj⟩ := lineNumberJump_ok n h.num hn
      simp only [hj, hs]
      refine ⟨_, hstep _, ?_⟩
      intro more
      have hc : cur = some p := inv rfl
      by_cases hp : p = h.path
      · subst hp
        by_cases hsec : ((k == Kind.context || h.kind == Kind.context) && jump) = true
        · simp [hsec, attachFrom, curAfter, htxt', hc, hn']
        · simp [hsec, attachFrom, curAfter, htxt', hc, hn']
      · simp [hp, attachFrom, curAfter, htxt', hn']
  | classic =>
    have hatt : ∀ more, attachFrom cur ([Row.code (some h.path) h.num h.kind secs false] ++ more) =
        (some h.path, h.num, expandB cfg.tabWidth h.code) ::
          attachFrom (curAfter .classic cur h) more := by
      intro more; simp [attachFrom, curAfter, htxt]
    have hatt2 : (h.kind = .contextHeader && cfg.headerAsHunkHeader) = true →
        ∀ more, attachFrom cur ([Row.funcHeader h.path
          (if Generated.Grep.fixHeaderNumber = true then h.num else some (h.num.getD 0))
          (expandB cfg.tabWidth h.code)] ++ more) =
        (some h.path, h.num, expandB cfg.tabWidth h.code) ::
          attachFrom (curAfter .classic cur h) more := by
      intro hf more
      have hnum : (if Generated.Grep.fixHeaderNumber = true then h.num else some (h.num.getD 0))
          = h.num := by
        by_cases hfix : Generated.Grep.fixHeaderNumber = true
        · rw [if_pos hfix]
        · rw [if_neg hfix]
          simp only [hitOk, Bool.and_eq_true, Bool.or_eq_true] at hok
          simp at hf
          rcases hok.2 with (h1 | h1) | h1
          · simp [hf.1, hf.2] at h1
          · obtain ⟨n, hn'⟩ := Option.isSome_iff_exists.mp h1
            simp [hn']
          · exact absurd h1 hfix
      rw [hnum]
      simp [attachFrom, curAfter]
    cases st with
    | none =>
      obtain ⟨jump, hj⟩ := lineNumberJump_ok none h.num hn
      simp only [hj, hs, hcs]
      by_cases hf : (h.kind = .contextHeader && cfg.headerAsHunkHeader) = true
      · rw [if_pos hf]; exact ⟨_, rfl, hatt2 hf⟩
      · rw [if_neg hf]; exact ⟨_, rfl, hatt⟩
    | some s =>
      obtain ⟨k, p, n⟩ := s
      obtain ⟨jump, hj⟩ := lineNumberJump_ok n h.num hn
      simp only [hj, hs, hcs]
      by_cases hf : (h.kind = .contextHeader && cfg.headerAsHunkHeader) = true
      · rw [if_pos hf]; exact ⟨_, rfl, hatt2 hf⟩
      · rw [if_neg hf]; exact ⟨_, rfl, hatt⟩

theorem emitFrom_ok (cfg : Cfg) (style : GrepType) (lines : List Line) :
    ∀ (st : St) (cur : Option (List Char)),
    (∀ h, Line.hit h ∈ lines → cfg.outputType.getD h.gtype = style) →
    (∀ h, Line.hit h ∈ lines → hitOk cfg style h = true) →
    Inv style st cur →
    ∃ rows, emitFrom cfg st lines = .ok rows ∧
      attachFrom cur rows =
        (hitsOf lines).map fun h => (some h.path, h.num, expandB cfg.tabWidth h.code) := by
  induction lines with
  | nil => intro st cur _ _ _; exact ⟨[], rfl, rfl⟩
  | cons l rest ih =>
    intro st cur hstyle hok inv
    have hstyle' : ∀ h, Line.hit h ∈ rest → cfg.outputType.getD h.gtype = style :=
      fun h hm => hstyle h (List.mem_cons_of_mem _ hm)
    have hok' : ∀ h, Line.hit h ∈ rest → hitOk cfg style h = true :=
      fun h hm => hok h (List.mem_cons_of_mem _ hm)
    cases l with
    | other raw =>
      obtain ⟨rows, h1, h2⟩ := ih st cur hstyle' hok' inv
      refine ⟨Row.raw raw :: rows, ?_, ?_⟩
      · simp only [emitFrom, h1]
      · simp only [attachFrom, hitsOf, h2]
    | hit h =>
      obtain ⟨rows, hstep, hatt⟩ := stepHit_ok cfg style st cur h
        (hstyle h List.mem_cons_self) (hok h List.mem_cons_self) inv
      obtain ⟨more, h1, h2⟩ := ih (some (h.kind, h.path, h.num)) (curAfter style cur h)
        hstyle' hok' (inv_after style cur h)
      refine ⟨rows ++ more, ?_, ?_⟩
      · simp only [emitFrom, hstep, h1]
      · rw [hatt more, h2]; simp [hitsOf]

theorem emit_one_row_per_hit (cfg : Cfg) (style : GrepType) (lines : List Line)
    (hstyle : ∀ h, Line.hit h ∈ lines → cfg.outputType.getD h.gtype = style)
    (hok : ∀ h, Line.hit h ∈ lines → hitOk cfg style h = true) :
    ∃ rows, emit cfg lines = .ok rows ∧
      attach rows = (hitsOf lines).map fun h => (some h.path, h.num, expandB cfg.tabWidth h.code) := by
  unfold emit attach
  exact emitFrom_ok cfg style lines none none hstyle hok (fun _ => trivial)

end Grep
