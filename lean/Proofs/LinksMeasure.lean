import Proofs.LinksSites
import Proofs.AnsiGit
/-!
Layout transparency: delta's own width measurement (`measure_text_width`, over the element
iterator model) and `strip_ansi_codes` do not see OSC 8 links.
-/
namespace Links
open Ansi

/-- A piece whose text comes with its token decomposition (characters and benign sequences, e.g.
the SGR sequences of painted text). -/
inductive TPiece where
  | plain (ts : List Tok)
  | link (url : Bytes) (ts : List Tok)

def TPiece.toPiece : TPiece → Piece
  | .plain ts => .plain (tokBytes ts)
  | .link u ts => .link u (tokBytes ts)

def TPiece.wf : TPiece → Prop
  | .plain ts => ∀ t ∈ ts, t.WF
  | .link u ts => (∀ b ∈ u, 0x20 ≤ b.toNat) ∧ ∀ t ∈ ts, t.WF

def TPiece.toks (links : Bool) : TPiece → List Tok
  | .plain ts => ts
  | .link u ts => if links then [.osc (eightSemis ++ u) false] ++ ts ++ [.osc eightSemis false] else ts

theorem tokBytes_append (a b : List Tok) : tokBytes (a ++ b) = tokBytes a ++ tokBytes b := by
  induction a with
  | nil => rfl
  | cons x xs ih => simp [tokBytes, ih]

theorem plainOf_append (a b : List Tok) : plainOf (a ++ b) = plainOf a ++ plainOf b := by
  induction a with
  | nil => rfl
  | cons x xs ih => cases x <;> simp [plainOf, ih]

def allToks (links : Bool) : List TPiece → List Tok
  | [] => []
  | p :: ps => p.toks links ++ allToks links ps

theorem render_toks (links : Bool) (tps : List TPiece) :
    render links (tps.map TPiece.toPiece) = tokBytes (allToks links tps) := by
  induction tps with
  | nil => rfl
  | cons p ps ih =>
    cases p with
    | plain ts => simp [render, TPiece.toPiece, allToks, TPiece.toks, tokBytes_append, ih]
    | link u ts =>
      cases links
      · simp [render, TPiece.toPiece, allToks, TPiece.toks, tokBytes_append, ih]
      · simp [render, TPiece.toPiece, allToks, TPiece.toks, tokBytes_append, ih, osc8, tokBytes,
          Tok.bytes, oscIntro, stTerm]

theorem allToks_wf (links : Bool) (tps : List TPiece) (h : ∀ p ∈ tps, p.wf) :
    ∀ t ∈ allToks links tps, t.WF := by
  induction tps with
  | nil => intro t ht; simp [allToks] at ht
  | cons p ps ih =>
    intro t ht
    simp only [allToks, List.mem_append] at ht
    rcases ht with ht | ht
    · have hp := h p (by simp)
      cases p with
      | plain ts => exact hp t ht
      | link u ts =>
        cases links
        · exact hp.2 t (by simpa [TPiece.toks] using ht)
        · simp only [TPiece.toks, if_true, List.mem_append, List.mem_singleton] at ht
          rcases ht with (rfl | ht) | rfl
          · intro b hb
            simp only [List.mem_append] at hb
            rcases hb with hb | hb
            · revert b; decide
            · exact hp.1 b hb
          · exact hp.2 t ht
          · show ∀ b ∈ eightSemis, 0x20 ≤ b.toNat
            decide
    · exact ih (fun q hq => h q (by simp [hq])) t ht

theorem allToks_plain (tps : List TPiece) : plainOf (allToks true tps) = plainOf (allToks false tps) := by
  induction tps with
  | nil => rfl
  | cons p ps ih =>
    cases p with
    | plain ts => simp [allToks, TPiece.toks, plainOf_append, ih]
    | link u ts => simp [allToks, TPiece.toks, plainOf_append, plainOf, ih]

/-- **Measured width ignores links.** -/
theorem measure_render (U : Uni) (hU : Additive U) (tps : List TPiece) (h : ∀ p ∈ tps, p.wf) :
    measure U (render true (tps.map TPiece.toPiece)) = measure U (render false (tps.map TPiece.toPiece)) := by
  rw [render_toks, render_toks, measure_tokens U hU _ (allToks_wf true tps h),
    measure_tokens U hU _ (allToks_wf false tps h), allToks_plain]

/-- `strip_ansi_codes` gives the same text with and without links. -/
theorem strip_render (tps : List TPiece) (h : ∀ p ∈ tps, p.wf) :
    strip (render true (tps.map TPiece.toPiece)) = strip (render false (tps.map TPiece.toPiece)) := by
  rw [render_toks, render_toks, strip_tokens _ (allToks_wf true tps h),
    strip_tokens _ (allToks_wf false tps h), allToks_plain]

end Links
