import DeltaModel.MaxLineLength
import Proofs.WrapLossless
/-!
Arithmetic of `WrapConfig::config_max_line_length` (generated: `Generated.configMaxLineLength`) and what
it means for the truncation step of `ingest_line_utf8`.
-/
namespace MaxLen
open SideBySide

/-- The generated function, arm by arm (exact characterisation for all values). -/
theorem cml_spec (n mll w : Nat) :
    Generated.configMaxLineLength n mll w =
      if n = 1 then mll
      else if n = 0 ∨ mll = 0 then 0
      else max mll (w / 2 * n + max (w / 2 * n / 4) (w / 2)) := by
  unfold Generated.configMaxLineLength
  by_cases h1 : n = 1
  · simp [h1]
  · by_cases h0 : n = 0
    · simp [h0]
    · by_cases hm : mll = 0
      · simp [h1, h0, hm]
      · simp only [h1, h0, hm, if_false, false_or]
        have : w / 2 * n * 250 / 1000 = w / 2 * n / 4 := by omega
        rw [this]

theorem cml_unlimited (mll w : Nat) : Generated.configMaxLineLength 0 mll w = 0 := by
  rw [cml_spec]; simp

theorem cml_one (mll w : Nat) : Generated.configMaxLineLength 1 mll w = mll := by
  rw [cml_spec]; simp

theorem cml_zero_iff (n mll w : Nat) : Generated.configMaxLineLength n mll w = 0 ↔ n = 0 ∨ mll = 0 := by
  rw [cml_spec]
  by_cases h1 : n = 1
  · simp [h1]
  · by_cases h : n = 0 ∨ mll = 0
    · simp [h1, h]
    · simp only [h1, h, if_false, iff_false]
      have : mll ≠ 0 := fun e => h (Or.inr e)
      omega

theorem cml_ge_requested (n mll w : Nat) :
    Generated.configMaxLineLength n mll w = 0 ∨ mll ≤ Generated.configMaxLineLength n mll w := by
  rw [cml_spec]
  by_cases h1 : n = 1
  · simp [h1]
  · by_cases h : n = 0 ∨ mll = 0
    · simp [h1, h]
    · simp only [h1, h, if_false]
      right; omega

theorem cml_rows (n mll w : Nat) (hn : 2 ≤ n) (hm : 0 < mll) :
    Generated.configMaxLineLength n mll w = max mll (w / 2 * n + max (w / 2 * n / 4) (w / 2)) := by
  rw [cml_spec]
  have h1 : n ≠ 1 := by omega
  have h : ¬ (n = 0 ∨ mll = 0) := by omega
  simp [h1, h]

/-- For `n ≥ 2` rows: at least one pane more than `n` full panes, and at least 125 % of `n` panes. -/
theorem cml_enough (n mll w : Nat) (hn : 2 ≤ n) (hm : 0 < mll) :
    (n + 1) * (w / 2) ≤ Generated.configMaxLineLength n mll w ∧
    w / 2 * n + w / 2 * n / 4 ≤ Generated.configMaxLineLength n mll w ∧
    mll ≤ Generated.configMaxLineLength n mll w := by
  rw [cml_rows n mll w hn hm]
  have e : (n + 1) * (w / 2) = w / 2 * n + w / 2 := by
    rw [Nat.add_mul, Nat.mul_comm]; simp
  refine ⟨?_, ?_, ?_⟩ <;> omega

/-- `n` rows of a line width `lw ≤ pane + 1` hold fewer columns than the value computed for `n` rows of
that pane (one column for the `+`/`-`/blank the raw line starts with, one to spare for the mark). -/
theorem capacity_lt (n lw p : Nat) (hlw : lw ≤ p + 1) (hp : 2 ≤ p) :
    rowsCapacity n lw + 1 ≤ (n + 1) * p := by
  unfold rowsCapacity
  have h1 : n * (lw - 1) ≤ n * p := Nat.mul_le_mul_left n (by omega)
  have h2 : (n + 1) * p = n * p + p := by rw [Nat.add_mul]; simp
  omega

theorem capacity_lt' (n lw p : Nat) (hn : 2 ≤ n) (hlw : lw ≤ p) (hp : 1 ≤ p) :
    rowsCapacity n lw + 2 ≤ (n + 1) * p := by
  unfold rowsCapacity
  have h2 : (n + 1) * p = n * p + p := by rw [Nat.add_mul]; simp
  by_cases h0 : lw = 0
  · subst h0
    have : n * p ≥ 2 * 1 := Nat.mul_le_mul hn hp
    simp; omega
  · have h1 : n * (lw - 1) + n = n * lw := by
      have : lw = (lw - 1) + 1 := by omega
      conv => rhs; rw [this, Nat.mul_add]
      simp
    have h3 : n * lw ≤ n * p := Nat.mul_le_mul_left n hlw
    omega

/-- The guard of the truncation is off when the limit is 0 or the line is not longer (in bytes). -/
theorem truncGuard_false (maxLen len : Nat) (sw : List UInt8 → Bool) (h : maxLen = 0 ∨ len ≤ maxLen) :
    Generated.truncGuard maxLen len sw = false := by
  unfold Generated.truncGuard
  rcases h with h | h
  · simp [h]
  · have : ¬ (len > maxLen) := by omega
    simp [this]

/-- A line is left alone by the truncation step when the limit is 0, or it is not longer than the limit
in bytes, or it is not wider than the limit in columns. -/
theorem ingestTrunc_keeps (maxLen len : Nat) (sw : List UInt8 → Bool) (raw tail : List Item)
    (h : maxLen = 0 ∨ len ≤ maxLen ∨ measure raw ≤ maxLen) :
    ingestTrunc maxLen len sw raw tail = .ok raw := by
  unfold ingestTrunc
  rcases h with h | h | h
  · simp [truncGuard_false maxLen len sw (Or.inl h)]
  · simp [truncGuard_false maxLen len sw (Or.inr h)]
  · split
    · simp [truncateStr, truncateImpl, truncateImplF, h]
    · rfl

/-! ### How much text the rows of a wrapped line hold -/
open Wrap in
/-- Rows that end with the (one-section) wrap symbol and fit the line width carry at most
`line width − symbol width` columns of the line each. -/
theorem rowWidth_stripResult_le (sym : Nat) (g : G) (lw : Nat) (rs : List Row)
    (h : ∀ r ∈ rs, (∃ init, r = init ++ [(sym, [g])]) ∧ rowWidth r ≤ lw) :
    rowWidth (stripResult rs) ≤ rs.length * (lw - g.w) := by
  induction rs with
  | nil => simp [stripResult, rowWidth]
  | cons r rs ih =>
    obtain ⟨⟨init, hi⟩, hw⟩ := h r (by simp)
    have ih' := ih (fun x hx => h x (by simp [hx]))
    have e : stripResult (r :: rs) = init ++ stripResult rs := by
      simp [stripResult, hi]
    rw [e, rowWidth_append]
    rw [hi, rowWidth_append] at hw
    have : rowWidth [(sym, [g])] = g.w := by simp [rowWidth, gsWidth]
    rw [this] at hw
    have e2 : (r :: rs).length * (lw - g.w) = rs.length * (lw - g.w) + (lw - g.w) := by
      simp [Nat.succ_mul]
    omega

theorem rowsCapacity_mono (a b lw : Nat) (h : a ≤ b) : rowsCapacity a lw ≤ rowsCapacity b lw := by
  unfold rowsCapacity
  have := Nat.mul_le_mul_right (lw - 1) h
  omega

end MaxLen
