import DeltaModel.MaxLineLength
import Proofs.WrapLossless
/-!
Arithmetic of `WrapConfig::config_max_line_length` (generated: `Generated.configMaxLineLength`) and what
it means for the truncation step of `ingest_line_utf8`.
-/
namespace MaxLen
open SideBySide

open Generated.Usize
set_option linter.unusedSimpArgs false
set_option linter.unusedVariables false

/-! The proof scripts below serve both shapes of the source: `config_max_line_length` /
`adapt_wrap_max_lines_argument` with plain `+ *` (as pinned) and with `saturating_add` / `saturating_mul`
(notes/fix-wrap-max-lines-overflow.diff); every statement is one that holds of both. `U` below = `usizeMax`. -/

/-- The generated function, arm by arm, for all values: the value of the last arm is `max mll F` with
`min E U ≤ F ≤ E`, `E = n panes + max (a quarter of n panes) (one pane)` — `F = E` with plain arithmetic,
`F = min E U` with saturating arithmetic (`F` is read off the generated term). -/
theorem cml_spec (n mll w : Nat) :
    ∃ F, min (w / 2 * n + max (w / 2 * n / 4) (w / 2)) usizeMax ≤ F ∧ F ≤ w / 2 * n + max (w / 2 * n / 4) (w / 2) ∧
      Generated.configMaxLineLength n mll w =
        if n = 1 then mll
        else if n = 0 ∨ mll = 0 then 0
        else max mll F := by
  by_cases h1 : n = 1
  · exact ⟨_, Nat.min_le_left _ _, Nat.le_refl _, by simp [Generated.configMaxLineLength, h1]⟩
  · by_cases h0 : n = 0
    · exact ⟨_, Nat.min_le_left _ _, Nat.le_refl _, by simp [Generated.configMaxLineLength, h0]⟩
    · by_cases hm : mll = 0
      · exact ⟨_, Nat.min_le_left _ _, Nat.le_refl _, by simp [Generated.configMaxLineLength, h1, h0, hm]⟩
      · unfold Generated.configMaxLineLength
        simp only [h1, h0, hm, if_false, false_or]
        refine ⟨_, ?_, ?_, rfl⟩
        · try simp only [satAdd, satMul, satSub]
          omega
        · try simp only [satAdd, satMul, satSub]
          omega

/-- Exact value wherever the formula stays within `usize` (both shapes). -/
theorem cml_exact (n mll w : Nat) (hU : w / 2 * n + max (w / 2 * n / 4) (w / 2) ≤ usizeMax) :
    Generated.configMaxLineLength n mll w =
      if n = 1 then mll
      else if n = 0 ∨ mll = 0 then 0
      else max mll (w / 2 * n + max (w / 2 * n / 4) (w / 2)) := by
  obtain ⟨F, h1, h2, h⟩ := cml_spec n mll w
  have : F = w / 2 * n + max (w / 2 * n / 4) (w / 2) := by omega
  rw [h, this]

theorem cml_unlimited (mll w : Nat) : Generated.configMaxLineLength 0 mll w = 0 := by
  obtain ⟨F, _, _, h⟩ := cml_spec 0 mll w
  rw [h]; simp

theorem cml_one (mll w : Nat) : Generated.configMaxLineLength 1 mll w = mll := by
  obtain ⟨F, _, _, h⟩ := cml_spec 1 mll w
  rw [h]; simp

theorem cml_zero_iff (n mll w : Nat) : Generated.configMaxLineLength n mll w = 0 ↔ n = 0 ∨ mll = 0 := by
  obtain ⟨F, _, _, h⟩ := cml_spec n mll w
  rw [h]
  by_cases h1 : n = 1
  · simp [h1]
  · by_cases h : n = 0 ∨ mll = 0
    · simp [h1, h]
    · simp only [h1, h, if_false, iff_false]
      have : mll ≠ 0 := fun e => h (Or.inr e)
      omega

theorem cml_ge_requested (n mll w : Nat) :
    Generated.configMaxLineLength n mll w = 0 ∨ mll ≤ Generated.configMaxLineLength n mll w := by
  obtain ⟨F, _, _, h⟩ := cml_spec n mll w
  rw [h]
  by_cases h1 : n = 1
  · simp [h1]
  · by_cases h : n = 0 ∨ mll = 0
    · simp [h1, h]
    · simp only [h1, h, if_false]
      right; omega

/-- `n ≥ 2` rows, non-zero option: between `max mll (min E U)` and `max mll E`. -/
theorem cml_rows (n mll w : Nat) (hn : 2 ≤ n) (hm : 0 < mll) :
    max mll (min (w / 2 * n + max (w / 2 * n / 4) (w / 2)) usizeMax) ≤ Generated.configMaxLineLength n mll w ∧
    Generated.configMaxLineLength n mll w ≤ max mll (w / 2 * n + max (w / 2 * n / 4) (w / 2)) := by
  obtain ⟨F, hlo, hhi, h⟩ := cml_spec n mll w
  rw [h]
  have h1 : n ≠ 1 := by omega
  have h' : ¬ (n = 0 ∨ mll = 0) := by omega
  simp only [h1, h', if_false]
  omega

/-- For `n ≥ 2` rows: at least one pane more than `n` full panes, and at least 125 % of `n` panes — or
`usize::MAX` where those exceed it (saturating arithmetic). -/
theorem cml_enough (n mll w : Nat) (hn : 2 ≤ n) (hm : 0 < mll) :
    min ((n + 1) * (w / 2)) usizeMax ≤ Generated.configMaxLineLength n mll w ∧
    min (w / 2 * n + w / 2 * n / 4) usizeMax ≤ Generated.configMaxLineLength n mll w ∧
    mll ≤ Generated.configMaxLineLength n mll w := by
  have hr := (cml_rows n mll w hn hm).1
  have e : (n + 1) * (w / 2) = w / 2 * n + w / 2 := by
    rw [Nat.add_mul, Nat.mul_comm]; simp
  refine ⟨?_, ?_, ?_⟩ <;> omega

/-! ### `--wrap-max-lines N`: `WrapConfig.max_lines` -/

/-- `N + 1`, or `usize::MAX` where `N + 1` exceeds it (both shapes of `adapt_wrap_max_lines_argument`). -/
theorem maxLinesOfArg_some (N : Nat) :
    min (N + 1) usizeMax ≤ maxLinesOfArg (some N) ∧ maxLinesOfArg (some N) ≤ N + 1 := by
  show min (N + 1) usizeMax ≤ Generated.wrapMaxLinesOfNumber N ∧ Generated.wrapMaxLinesOfNumber N ≤ N + 1
  unfold Generated.wrapMaxLinesOfNumber
  try unfold satAdd
  omega

theorem usizeMax_eq : usizeMax = 18446744073709551615 := rfl

theorem maxLinesOfArg_some_ne_zero (N : Nat) : maxLinesOfArg (some N) ≠ 0 := by
  have := maxLinesOfArg_some N
  have := usizeMax_eq
  omega

theorem maxLinesOfArg_some_eq_one (N : Nat) : maxLinesOfArg (some N) = 1 ↔ N = 0 := by
  have := maxLinesOfArg_some N
  have := usizeMax_eq
  omega

theorem maxLinesOfArg_some_ge_two (N : Nat) (hN : 1 ≤ N) : 2 ≤ maxLinesOfArg (some N) := by
  have := maxLinesOfArg_some N
  have := usizeMax_eq
  omega

/-- `--wrap-max-lines N`, `N ≥ 1`, non-zero option, pane `p = w / 2`: the value is at least `N + 2` panes, at least
125 % of `N + 1` panes — or `usize::MAX` where those exceed it — and at least the option. -/
theorem cml_enough_arg (N mll w : Nat) (hN : 1 ≤ N) (hm : 0 < mll) :
    min ((N + 2) * (w / 2)) usizeMax ≤ Generated.configMaxLineLength (maxLinesOfArg (some N)) mll w ∧
    min (w / 2 * (N + 1) + w / 2 * (N + 1) / 4) usizeMax ≤ Generated.configMaxLineLength (maxLinesOfArg (some N)) mll w ∧
    mll ≤ Generated.configMaxLineLength (maxLinesOfArg (some N)) mll w := by
  have hb := maxLinesOfArg_some N
  obtain ⟨h1, h2, h3⟩ := cml_enough (maxLinesOfArg (some N)) mll w (maxLinesOfArg_some_ge_two N hN) hm
  generalize maxLinesOfArg (some N) = n at hb h1 h2 h3 ⊢
  refine ⟨?_, ?_, h3⟩
  · by_cases hs : n = N + 1
    · subst hs; exact h1
    · -- saturated: max_lines = usize::MAX < N + 1
      by_cases hp : w / 2 = 0
      · rw [hp]; simp
      · have : n + 1 ≤ (n + 1) * (w / 2) := Nat.le_mul_of_pos_right _ (by omega)
        omega
  · by_cases hs : n = N + 1
    · subst hs; exact h2
    · by_cases hp : w / 2 = 0
      · rw [hp]; simp
      · have : n ≤ w / 2 * n := Nat.le_mul_of_pos_left _ (by omega)
        omega

/-! ### The arithmetic of a build with overflow checks (`Generated.configMaxLineLengthChecked`) -/

/-- Whenever the overflow-checked evaluation returns a value it is the value of the `Nat` translation: the
proviso "no intermediate value exceeds `usize::MAX`" made precise (both shapes). -/
theorem cmlChecked_sound (n mll w v : Nat)
    (h : Generated.configMaxLineLengthChecked n mll w = some v) : v = Generated.configMaxLineLength n mll w := by
  unfold Generated.configMaxLineLengthChecked at h
  unfold Generated.configMaxLineLength
  by_cases h1 : n = 1
  · simp_all
  · by_cases h0 : n = 0
    · simp_all
    · by_cases hm : mll = 0
      · simp_all
      · simp only [h1, h0, hm, if_false] at h ⊢
        simp [ckAdd, ckMul, ckDiv, ckRem, ckSatAdd, ckSatMul, ckSatSub, ckMax, ckMin, ck2, Option.bind_eq_some_iff] at h
        first
          | exact h.symm
          | grind

/-- If the corner `(usize::MAX, usize::MAX, usize::MAX)` evaluates without a panic (false with plain `+ *`, true
with saturating arithmetic: `decide`), every triple does. -/
theorem cmlChecked_total (hfix : (Generated.configMaxLineLengthChecked usizeMax usizeMax usizeMax).isSome = true)
    (n mll w : Nat) : ∃ v, Generated.configMaxLineLengthChecked n mll w = some v := by
  first
    | exact absurd hfix (by decide)
    | unfold Generated.configMaxLineLengthChecked
      by_cases h1 : n = 1
      · simp [h1]
      · by_cases h0 : n = 0
        · simp [h0]
        · by_cases hm : mll = 0
          · simp [h1, h0, hm]
          · simp [h1, h0, hm, ckAdd, ckMul, ckDiv, ckRem, ckSatAdd, ckSatMul, ckSatSub, ckMax, ckMin, ck2]

/-- … and the value is a `usize` again. -/
theorem cml_le_usizeMax (hfix : (Generated.configMaxLineLengthChecked usizeMax usizeMax usizeMax).isSome = true)
    (n mll w : Nat) (hm : mll ≤ usizeMax) : Generated.configMaxLineLength n mll w ≤ usizeMax := by
  first
    | exact absurd hfix (by decide)
    | unfold Generated.configMaxLineLength
      by_cases h1 : n = 1
      · simp [h1, hm]
      · by_cases h0 : n = 0
        · simp [h0]
        · by_cases hm0 : mll = 0
          · simp [h1, h0, hm0]
          · simp only [h1, h0, hm0, if_false, satAdd, satMul]
            omega

theorem wmlChecked_sound (n v : Nat) (h : Generated.wrapMaxLinesOfNumberChecked n = some v) :
    v = Generated.wrapMaxLinesOfNumber n := by
  unfold Generated.wrapMaxLinesOfNumberChecked at h
  unfold Generated.wrapMaxLinesOfNumber
  simp [ckAdd, ckSatAdd, ck2] at h
  first
    | exact h.symm
    | exact h.2.symm

theorem wmlChecked_total (hfix : (Generated.wrapMaxLinesOfNumberChecked usizeMax).isSome = true) (n : Nat) :
    ∃ v, Generated.wrapMaxLinesOfNumberChecked n = some v ∧ v ≤ usizeMax := by
  first
    | exact absurd hfix (by decide)
    | unfold Generated.wrapMaxLinesOfNumberChecked
      simp [ckSatAdd, ck2, satAdd]
      omega

/-- `n` rows of a line width `lw ≤ pane + 1` hold fewer columns than the value computed for `n` rows of
that pane (one column for the `+`/`-`/blank the raw line starts with, one to spare for the mark). -/
theorem capacity_lt (n lw p : Nat) (hlw : lw ≤ p + 1) (hp : 2 ≤ p) :
    rowsCapacity n lw + 1 ≤ (n + 1) * p := by
  unfold rowsCapacity
  have h1 : n * (lw - 1) ≤ n * p := Nat.mul_le_mul_left n (by omega)
  have h2 : (n + 1) * p = n * p + p := by rw [Nat.add_mul]; simp
  omega

theorem capacity_lt' (n lw p : Nat) (hn : 2 ≤ n) (hlw : lw ≤ p) (hp : 1 ≤ p) :
    rowsCapacity n lw + 2 ≤ (n + 1) * p := by
  unfold rowsCapacity
  have h2 : (n + 1) * p = n * p + p := by rw [Nat.add_mul]; simp
  by_cases h0 : lw = 0
  · subst h0
    have : n * p ≥ 2 * 1 := Nat.mul_le_mul hn hp
    simp; omega
  · have h1 : n * (lw - 1) + n = n * lw := by
      have : lw = (lw - 1) + 1 := by omega
      conv => rhs; rw [this, Nat.mul_add]
      simp
    have h3 : n * lw ≤ n * p := Nat.mul_le_mul_left n hlw
    omega

/-- The guard of the truncation is off when the limit is 0 or the line is not longer (in bytes). -/
theorem truncGuard_false (maxLen len : Nat) (sw : List UInt8 → Bool) (h : maxLen = 0 ∨ len ≤ maxLen) :
    Generated.truncGuard maxLen len sw = false := by
  unfold Generated.truncGuard
  rcases h with h | h
  · simp [h]
  · have : ¬ (len > maxLen) := by omega
    simp [this]

/-- A line is left alone by the truncation step when the limit is 0, or it is not longer than the limit
in bytes, or it is not wider than the limit in columns. -/
theorem ingestTrunc_keeps (maxLen len : Nat) (sw : List UInt8 → Bool) (raw tail : List Item)
    (h : maxLen = 0 ∨ len ≤ maxLen ∨ measure raw ≤ maxLen) :
    ingestTrunc maxLen len sw raw tail = .ok raw := by
  unfold ingestTrunc
  rcases h with h | h | h
  · simp [truncGuard_false maxLen len sw (Or.inl h)]
  · simp [truncGuard_false maxLen len sw (Or.inr h)]
  · split
    · simp [truncateStr, truncateImpl, truncateImplF, h]
    · rfl

/-! ### How much text the rows of a wrapped line hold -/
open Wrap in
/-- Rows that end with the (one-section) wrap symbol and fit the line width carry at most
`line width − symbol width` columns of the line each. -/
theorem rowWidth_stripResult_le (sym : Nat) (g : G) (lw : Nat) (rs : List Row)
    (h : ∀ r ∈ rs, (∃ init, r = init ++ [(sym, [g])]) ∧ rowWidth r ≤ lw) :
    rowWidth (stripResult rs) ≤ rs.length * (lw - g.w) := by
  induction rs with
  | nil => simp [stripResult, rowWidth]
  | cons r rs ih =>
    obtain ⟨⟨init, hi⟩, hw⟩ := h r (by simp)
    have ih' := ih (fun x hx => h x (by simp [hx]))
    have e : stripResult (r :: rs) = init ++ stripResult rs := by
      simp [stripResult, hi]
    rw [e, rowWidth_append]
    rw [hi, rowWidth_append] at hw
    have : rowWidth [(sym, [g])] = g.w := by simp [rowWidth, gsWidth]
    rw [this] at hw
    have e2 : (r :: rs).length * (lw - g.w) = rs.length * (lw - g.w) + (lw - g.w) := by
      simp [Nat.succ_mul]
    omega

theorem rowsCapacity_mono (a b lw : Nat) (h : a ≤ b) : rowsCapacity a lw ≤ rowsCapacity b lw := by
  unfold rowsCapacity
  have := Nat.mul_le_mul_right (lw - 1) h
  omega

end MaxLen
