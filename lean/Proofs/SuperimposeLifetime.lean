import DeltaModel.Superimpose
/-!
Helper lemmas for C15 about the lifetime of the highlighter (`Superimpose.Lifetime`).
Core Lean only.
-/
namespace Superimpose.Lifetime
open Generated.SuperimposeLifetime

variable {σ : Type}

/-- The element was painted by the highlighter the property asks for. -/
def Ok (p : Painted σ) : Prop := p.used = some p.expected

def feedN : Nat → Option (Hl σ) → Option (Hl σ)
  | 0, h => h
  | n + 1, h => feedN n (feed h)

/-- The buffered lines expect exactly what the highlighter will be when they reach it. -/
def Consec : Option (Hl σ) → List (Hl σ) → Prop
  | _, [] => True
  | hl, e :: rest => hl = some e ∧ Consec (feed hl) rest

theorem paintBuf_ok (hl : Option (Hl σ)) (buf : List (Hl σ)) (h : Consec hl buf) :
    (∀ p ∈ (paintBuf hl buf).2, Ok p) ∧ (paintBuf hl buf).1 = feedN buf.length hl := by
  induction buf generalizing hl with
  | nil => simp [paintBuf, feedN]
  | cons e rest ih =>
    obtain ⟨h1, h2⟩ := h
    obtain ⟨a, b⟩ := ih (feed hl) h2
    refine ⟨?_, ?_⟩
    · intro p hp
      simp only [paintBuf, List.mem_cons] at hp
      rcases hp with rfl | hp
      · exact h1
      · exact a p hp
    · simpa [paintBuf, feedN] using b

theorem consec_append (hl : Option (Hl σ)) (buf : List (Hl σ)) (e : Hl σ)
    (h : Consec hl buf) (he : feedN buf.length hl = some e) : Consec hl (buf ++ [e]) := by
  induction buf generalizing hl with
  | nil => exact ⟨by simpa [feedN] using he, trivial⟩
  | cons x rest ih =>
    obtain ⟨h1, h2⟩ := h
    exact ⟨h1, ih (feed hl) h2 (by simpa [feedN] using he)⟩

theorem feedN_succ (n : Nat) (hl : Option (Hl σ)) : feedN (n + 1) hl = feed (feedN n hl) := by
  induction n generalizing hl with
  | zero => rfl
  | succ k ih => rw [feedN, ih (feed hl)]; rfl

theorem feed_some (l : σ) (n : Nat) : feed (some (l, n)) = some (l, n + 1) := rfl

/-- The invariant carried along an event sequence. -/
def Inv (u : Bool) (ph : Phase) (s : State σ) : Prop :=
  s.unified = u ∧
  Consec s.hl s.buffered ∧
  (ph ≠ .start → s.syn = s.cur) ∧
  (ph = .hunk → feedN s.buffered.length s.hl = some (s.cur, s.lineNo))

/-- Phase after an event. -/
def next : Phase → Event → Phase
  | _, .fileMinus _ _ => .header
  | _, .filePlus _ _ => .header
  | _, .hunkHeader => .hunk
  | _, .changedLine _ => .hunk
  | _, .contextLine => .hunk
  | ph, .flush => ph

/-- The event is allowed in this phase (one step of `wf`). -/
def allowed (u : Bool) : Phase → Event → Bool
  | _, .fileMinus n mk => !u || mk == n
  | ph, .filePlus n mk => (n.isSome || ph != .start) && (!u || mk == n)
  | ph, .hunkHeader => ph != .start
  | ph, .changedLine _ => ph == .hunk
  | ph, .contextLine => ph == .hunk
  | _, .flush => true

theorem wf_cons (u : Bool) (ph : Phase) (e : Event) (rest : List Event) :
    wf u ph (e :: rest) = (allowed u ph e && wf u (next ph e) rest) := by
  cases e <;> simp [wf, allowed, next, Bool.and_assoc]

/-- `paint_buffered_minus_and_plus_lines` under the invariant. -/
theorem flush_ok (lang : Option (List Char) → σ) (s : State σ) (h : Consec s.hl s.buffered) :
    (∀ p ∈ (execStmt lang s .paintBuffered).2, Ok p) ∧
    (execStmt lang s .paintBuffered).1 =
      { s with hl := feedN s.buffered.length s.hl, buffered := [] } := by
  obtain ⟨a, b⟩ := paintBuf_ok s.hl s.buffered h
  exact ⟨a, by simp [execStmt, b]⟩

theorem step_inv (lang : Option (List Char) → σ) (u : Bool) (ph : Phase) (s : State σ) (e : Event)
    (hi : Inv u ph s) (ha : allowed u ph e = true) :
    (∀ p ∈ (step lang s e).2, Ok p) ∧ Inv u (next ph e) (step lang s e).1 := by
  obtain ⟨hu, hc, hsyn, hh⟩ := hi
  -- the shapes of `handle_diff_header_minus_line` under which the property holds: the parsed path
  -- for git input; for plain `diff -u` input either the raw line (then `mk = n` is needed) or the
  -- parsed path as well
  have hm : minusHeaderStmts = [(.ifSourceDiffUnified, .setSyntax .minus .markerLine),
        (.ifSourceNotDiffUnified, .setSyntax .minus .parsedPath), (.always, .paintBuffered)] ∨
      minusHeaderStmts = [(.ifSourceDiffUnified, .setSyntax .minus .parsedPath),
        (.ifSourceNotDiffUnified, .setSyntax .minus .parsedPath), (.always, .paintBuffered)] ∨
      minusHeaderStmts = [(.always, .setSyntax .minus .parsedPath), (.always, .paintBuffered)] := by
    decide
  have hpl : plusHeaderStmts = [(.ifPlusNotDevNull, .setSyntax .plus .parsedPath),
      (.always, .paintBuffered)] := by decide
  cases e with
  | fileMinus n mk =>
    have hmk : s.unified = true → mk = n := by
      intro h
      rw [hu] at h
      simpa [allowed, h] using ha
    obtain ⟨a, b⟩ := flush_ok lang
      { s with minusName := n, minusMarker := mk, cur := lang n, syn := lang n } hc
    rcases hm with hm | hm | hm
    · cases hun : s.unified with
      | true =>
        have := hmk hun
        subst this
        simp only [step, hm, execStmts, evalGuard, hun, Bool.not_true, Bool.false_eq_true, if_true,
          if_false, execStmt, List.nil_append, List.append_nil] at a b ⊢
        refine ⟨a, ?_⟩
        simp [Inv, next, Consec, ← hu, hun]
      | false =>
        simp only [step, hm, execStmts, evalGuard, hun, Bool.not_false, Bool.false_eq_true, if_true,
          if_false, execStmt, List.nil_append, List.append_nil] at a b ⊢
        refine ⟨a, ?_⟩
        simp [Inv, next, Consec, ← hu, hun]
    · cases hun : s.unified with
      | true =>
        simp only [step, hm, execStmts, evalGuard, hun, Bool.not_true, Bool.false_eq_true, if_true,
          if_false, execStmt, List.nil_append, List.append_nil] at a b ⊢
        refine ⟨a, ?_⟩
        simp [Inv, next, Consec, ← hu, hun]
      | false =>
        simp only [step, hm, execStmts, evalGuard, hun, Bool.not_false, Bool.false_eq_true, if_true,
          if_false, execStmt, List.nil_append, List.append_nil] at a b ⊢
        refine ⟨a, ?_⟩
        simp [Inv, next, Consec, ← hu, hun]
    · simp only [step, hm, execStmts, evalGuard, if_true, execStmt, List.nil_append,
        List.append_nil] at a b ⊢
      refine ⟨a, ?_⟩
      simp [Inv, next, Consec, hu]
  | filePlus n mk =>
    cases n with
    | none =>
      have hph : ph ≠ .start := by
        have := ha
        simp only [allowed, Option.isSome_none, Bool.false_or, Bool.and_eq_true] at this
        simpa using this.1
      obtain ⟨a, b⟩ := flush_ok lang { s with plusName := none, plusMarker := mk } hc
      simp only [step, hpl, execStmts, evalGuard, Option.isSome_none, Bool.false_eq_true,
        if_false, if_true, execStmt, List.nil_append, List.append_nil] at a b ⊢
      refine ⟨a, ?_⟩
      simp [Inv, next, Consec, hsyn hph, hu]
    | some m =>
      obtain ⟨a, b⟩ := flush_ok lang
        { s with plusName := some m, plusMarker := mk, cur := lang (some m), syn := lang (some m) } hc
      simp only [step, hpl, execStmts, evalGuard, Option.isSome_some, if_true, execStmt,
        List.nil_append, List.append_nil] at a b ⊢
      refine ⟨a, ?_⟩
      simp [Inv, next, Consec, hu]
  | hunkHeader =>
    have hph : ph ≠ .start := by simpa [allowed] using ha
    have hs := hsyn hph
    obtain ⟨a, b⟩ := flush_ok lang { s with lineNo := 0 } hc
    have hov : hunkHeaderStmts = [(.always, .paintBuffered), (.always, .setHighlighter),
        (.always, .paintFragment), (.always, .setHighlighter)] := by decide
    simp only [step, hov, execStmts, evalGuard, if_true, execStmt, List.nil_append,
      List.append_nil] at a b ⊢
    refine ⟨?_, ?_⟩
    · intro p hp
      rcases List.mem_append.mp hp with hp | hp
      · exact a p hp
      · simp only [List.mem_singleton] at hp
        subst hp
        simp [Ok, hs]
    · simp [Inv, next, Consec, feedN, hs, hu]
  | changedLine fl =>
    have hph : ph = .hunk := by simpa [allowed] using ha
    have hn := hh hph
    cases fl with
    | false =>
      simp only [step, Bool.false_eq_true, if_false]
      refine ⟨by simp, ?_⟩
      refine ⟨hu, consec_append _ _ _ hc hn, fun _ => hsyn (by simp [hph]), fun _ => ?_⟩
      simp only [List.length_append, List.length_singleton]
      rw [feedN_succ, hn]; rfl
    | true =>
      obtain ⟨a, b⟩ := flush_ok lang s hc
      simp only [step, if_true]
      refine ⟨a, ?_⟩
      rw [b]
      refine ⟨hu, ?_, fun _ => hsyn (by simp [hph]), fun _ => ?_⟩
      · exact ⟨by simpa using hn, trivial⟩
      · simp only [List.nil_append, List.length_singleton]
        rw [feedN_succ]
        simp only [feedN]
        rw [hn]; rfl
  | contextLine =>
    have hph : ph = .hunk := by simpa [allowed] using ha
    have hn := hh hph
    obtain ⟨a, b⟩ := flush_ok lang s hc
    simp only [step]
    rw [b]
    refine ⟨?_, ?_⟩
    · intro p hp
      rcases List.mem_append.mp hp with hp | hp
      · exact a p hp
      · simp only [List.mem_singleton] at hp
        subst hp
        simpa [Ok] using hn
    · refine ⟨hu, trivial, fun _ => hsyn (by simp [hph]), fun _ => ?_⟩
      simp only [List.length_nil, feedN]
      rw [hn]; rfl
  | flush =>
    obtain ⟨a, b⟩ := flush_ok lang s hc
    simp only [step]
    refine ⟨a, ?_⟩
    rw [b]
    exact ⟨hu, trivial, hsyn, fun h => by simpa [feedN] using hh h⟩

theorem run_inv (lang : Option (List Char) → σ) (u : Bool) (evs : List Event) (ph : Phase)
    (s : State σ) (hi : Inv u ph s) (hw : wf u ph evs = true) : ∀ p ∈ (run lang s evs).2, Ok p := by
  induction evs generalizing ph s with
  | nil => simp [run]
  | cons e rest ih =>
    rw [wf_cons, Bool.and_eq_true] at hw
    obtain ⟨a, b⟩ := step_inv lang u ph s e hi hw.1
    intro p hp
    simp only [run, List.mem_append] at hp
    rcases hp with hp | hp
    · exact a p hp
    · exact ih (next ph e) _ b hw.2 p hp

/-! ### What is expected is the language of the current file -/

def isFileEvent : Event → Bool
  | .fileMinus _ _ => true
  | .filePlus _ _ => true
  | _ => false

/-- Without a file header line in between, everything painted expects the same language,
and a hunk-header fragment expects a fresh highlighter. -/
theorem expected_is_cur (lang : Option (List Char) → σ) (evs : List Event) (s : State σ) (c : σ)
    (hcur : s.cur = c) (hbuf : ∀ e ∈ s.buffered, e.1 = c)
    (hnf : ∀ e ∈ evs, isFileEvent e = false) :
    ∀ p ∈ (run lang s evs).2, p.expected.1 = c ∧ (p.kind = .fragment → p.expected.2 = 0) := by
  have pb : ∀ (hl : Option (Hl σ)) (buf : List (Hl σ)), (∀ e ∈ buf, e.1 = c) →
      ∀ p ∈ (paintBuf hl buf).2, p.expected.1 = c ∧ (p.kind = .fragment → p.expected.2 = 0) := by
    intro hl buf
    induction buf generalizing hl with
    | nil => simp [paintBuf]
    | cons e rest ih =>
      intro h p hp
      simp only [paintBuf, List.mem_cons] at hp
      rcases hp with rfl | hp
      · exact ⟨h e List.mem_cons_self, fun hk => by cases hk⟩
      · exact ih (feed hl) (fun x hx => h x (List.mem_cons_of_mem _ hx)) p hp
  induction evs generalizing s with
  | nil => simp [run]
  | cons e rest ih =>
    have hrest : ∀ x ∈ rest, isFileEvent x = false := fun x hx => hnf x (List.mem_cons_of_mem _ hx)
    have he := hnf e List.mem_cons_self
    have hov : hunkHeaderStmts = [(.always, .paintBuffered), (.always, .setHighlighter),
        (.always, .paintFragment), (.always, .setHighlighter)] := by decide
    intro p hp
    simp only [run, List.mem_append] at hp
    cases e with
    | fileMinus n mk => simp [isFileEvent] at he
    | filePlus n mk => simp [isFileEvent] at he
    | hunkHeader =>
      simp only [step, hov, execStmts, evalGuard, if_true, execStmt, List.nil_append,
        List.append_nil] at hp
      rcases hp with hp | hp
      · rcases List.mem_append.mp hp with hp | hp
        · exact pb _ _ hbuf p hp
        · simp only [List.mem_singleton] at hp
          subst hp
          exact ⟨hcur, fun _ => rfl⟩
      · refine ih _ ?_ ?_ hrest p hp
        · exact hcur
        · intro x hx; simp at hx
    | changedLine fl =>
      cases fl with
      | false =>
        simp only [step, Bool.false_eq_true, if_false] at hp
        rcases hp with hp | hp
        · simp at hp
        · refine ih _ ?_ ?_ hrest p hp
          · exact hcur
          · intro x hx
            rcases List.mem_append.mp hx with hx | hx
            · exact hbuf x hx
            · simp only [List.mem_singleton] at hx; subst hx; exact hcur
      | true =>
        simp only [step, if_true, execStmt] at hp
        rcases hp with hp | hp
        · exact pb _ _ hbuf p hp
        · refine ih _ ?_ ?_ hrest p hp
          · exact hcur
          · intro x hx
            simp only [List.nil_append, List.mem_singleton] at hx
            subst hx; exact hcur
    | contextLine =>
      simp only [step, execStmt] at hp
      rcases hp with hp | hp
      · rcases List.mem_append.mp hp with hp | hp
        · exact pb _ _ hbuf p hp
        · simp only [List.mem_singleton] at hp
          subst hp
          exact ⟨hcur, fun hk => by cases hk⟩
      · refine ih _ ?_ ?_ hrest p hp
        · exact hcur
        · intro x hx; simp at hx
    | flush =>
      simp only [step, execStmt] at hp
      rcases hp with hp | hp
      · exact pb _ _ hbuf p hp
      · refine ih _ ?_ ?_ hrest p hp
        · exact hcur
        · intro x hx; simp at hx

end Superimpose.Lifetime
