import DeltaModel.SetSyntax
import Proofs.SuperimposeLifetime
/-!
`runP` (every `set_syntax` interpreted from its generated description, on a painter that has memo
tables) agrees with `Lifetime.run` as soon as `set_syntax` is faithful. Core Lean only.
-/
namespace Superimpose.Lifetime
open Generated.SuperimposeLifetime

variable {σ : Type}

theorem execStmt_setSyntax (lang : Name → σ) (s : State σ) (side : Side) (src : NameSource) :
    execStmt lang s (.setSyntax side src) = ({ s with syn := lang (nameArg s side src) }, []) := by
  cases side <;> cases src <;> rfl

theorem execStmtP_sim (env : SetSyntaxEnv σ) (rhs : SyntaxRhs) (h : Faithful env rhs)
    (ps : PState σ) (st : Stmt) :
    (execStmtP env rhs ps st).1.st = (execStmt env.lang ps.st st).1 ∧
    (execStmtP env rhs ps st).2 = (execStmt env.lang ps.st st).2 := by
  cases st with
  | setSyntax side src =>
    rw [execStmt_setSyntax]
    refine ⟨?_, rfl⟩
    show ({ ps.st with
      syn := (setSyntax env ⟨ps.st.syn, ps.tables⟩ (nameArg ps.st side src) rhs).syn } : State σ) = _
    rw [h]
  | paintBuffered => exact ⟨rfl, rfl⟩
  | setHighlighter => exact ⟨rfl, rfl⟩
  | paintFragment => exact ⟨rfl, rfl⟩

theorem execStmtsP_sim (env : SetSyntaxEnv σ) (rhs : SyntaxRhs) (h : Faithful env rhs)
    (l : List (Guard × Stmt)) (ps : PState σ) :
    (execStmtsP env rhs ps l).1.st = (execStmts env.lang ps.st l).1 ∧
    (execStmtsP env rhs ps l).2 = (execStmts env.lang ps.st l).2 := by
  induction l generalizing ps with
  | nil => exact ⟨rfl, rfl⟩
  | cons x rest ih =>
    obtain ⟨g, st⟩ := x
    simp only [execStmtsP, execStmts]
    split
    · obtain ⟨a, b⟩ := execStmtP_sim env rhs h ps st
      obtain ⟨c, d⟩ := ih (execStmtP env rhs ps st).1
      rw [a] at c d
      exact ⟨c, by rw [b, d]⟩
    · exact ih ps

theorem stepP_sim (env : SetSyntaxEnv σ) (rhs : SyntaxRhs) (h : Faithful env rhs)
    (ps : PState σ) (e : Event) :
    (stepP env rhs ps e).1.st = (step env.lang ps.st e).1 ∧
    (stepP env rhs ps e).2 = (step env.lang ps.st e).2 := by
  cases e with
  | fileMinus n mk => exact execStmtsP_sim env rhs h _ _
  | filePlus n mk => exact execStmtsP_sim env rhs h _ _
  | hunkHeader => exact execStmtsP_sim env rhs h _ _
  | changedLine fl => exact ⟨rfl, rfl⟩
  | contextLine => exact ⟨rfl, rfl⟩
  | flush => exact ⟨rfl, rfl⟩

/-- With a faithful `set_syntax`, the painter's other tables are invisible: same states, same
painted elements. -/
theorem runP_sim (env : SetSyntaxEnv σ) (rhs : SyntaxRhs) (h : Faithful env rhs)
    (evs : List Event) (ps : PState σ) :
    (runP env rhs ps evs).1.st = (run env.lang ps.st evs).1 ∧
    (runP env rhs ps evs).2 = (run env.lang ps.st evs).2 := by
  induction evs generalizing ps with
  | nil => exact ⟨rfl, rfl⟩
  | cons e rest ih =>
    obtain ⟨a, b⟩ := stepP_sim env rhs h ps e
    obtain ⟨c, d⟩ := ih (stepP env rhs ps e).1
    simp only [runP, run]
    rw [a] at c d
    exact ⟨c, by rw [b, d]⟩

/-- The plain right-hand side is faithful. -/
theorem faithful_getSyntaxOfArgument (env : SetSyntaxEnv σ) : Faithful env .getSyntaxOfArgument :=
  fun _ _ => rfl

/-- Key collisions are what makes a memo unfaithful: from an *empty* table, two calls with names
that share a key store the first name's language for the second. -/
theorem memo_second_call (env : SetSyntaxEnv σ) (field : String) (key : MemoKey)
    (p : PainterSyn σ) (a b : Name) (hempty : p.tables field = [])
    (hk : memoKey env key a = memoKey env key b) :
    (setSyntax env (setSyntax env p a (.memoOrGetSyntax field key)) b
      (.memoOrGetSyntax field key)).syn = env.lang a := by
  simp [setSyntax, hempty, memoFind, hk]

end Superimpose.Lifetime
