import Proofs.Links
import Proofs.LinksTemplate
/-!
Every call site that consults `config.hyperlinks`, written as a list of pieces; the generic piece
theorems then give transparency, balance and targets for each site.
-/
namespace Links
open Ansi

/-! ### URLs contain no ESC / BEL -/

theorem mem_replaceSkip (pat rep : Bytes) (s : Bytes) : ∀ n b, b ∈ replaceSkip pat rep n s → b ∈ s ∨ b ∈ rep := by
  induction s with
  | nil => intro n b h; simp [replaceSkip_nil] at h
  | cons x xs ih =>
    intro n b h
    cases n with
    | succ k =>
      rw [replaceSkip] at h
      rcases ih k b h with h | h
      · exact Or.inl (List.mem_cons_of_mem _ h)
      · exact Or.inr h
    | zero =>
      rw [replaceSkip] at h
      split at h
      · simp only [List.mem_append] at h
        rcases h with h | h
        · exact Or.inr h
        · rcases ih _ b h with h | h
          · exact Or.inl (List.mem_cons_of_mem _ h)
          · exact Or.inr h
      · simp only [List.mem_cons] at h
        rcases h with h | h
        · exact Or.inl (by simp [h])
        · rcases ih _ b h with h | h
          · exact Or.inl (List.mem_cons_of_mem _ h)
          · exact Or.inr h

theorem noEscBel_iff (u : Bytes) : noEscBel u = true ↔ ∀ b ∈ u, b ≠ 0x1b ∧ b ≠ 0x07 := by
  simp [noEscBel, List.all_eq_true]

theorem noEscBel_replaceAll (s pat rep : Bytes) (hs : noEscBel s = true) (hr : noEscBel rep = true) :
    noEscBel (replaceAll s pat rep) = true := by
  rw [noEscBel_iff] at *
  intro b hb
  rcases mem_replaceSkip pat rep s 0 b hb with h | h
  · exact hs b h
  · exact hr b h

theorem noEscBel_natBytes (n : Nat) : noEscBel (natBytes n) = true := by
  rw [noEscBel_iff]
  intro b hb
  simp only [natBytes, List.mem_map] at hb
  obtain ⟨c, hc, rfl⟩ := hb
  have hd := Nat.isDigit_of_mem_toDigits (by decide) (by decide) hc
  simp only [Char.isDigit, Bool.and_eq_true, decide_eq_true_eq] at hd
  have h1 : 48 ≤ c.toNat := by
    have := UInt32.le_iff_toNat_le.mp hd.1
    exact this
  have h2 : c.toNat ≤ 57 := by
    have := UInt32.le_iff_toNat_le.mp hd.2
    exact this
  constructor
  · intro e
    have := congrArg UInt8.toNat e
    simp [UInt8.toNat_ofNat'] at this
    omega
  · intro e
    have := congrArg UInt8.toNat e
    simp [UInt8.toNat_ofNat'] at this
    omega

theorem noEscBel_lineBytes (line : Option Nat) : noEscBel (lineBytes line) = true := by
  cases line with
  | none => rfl
  | some n => exact noEscBel_natBytes n

theorem noEscBel_fileUrl (fmt p : Bytes) (host : Option Bytes) (line : Option Nat)
    (hf : noEscBel fmt = true) (hp : noEscBel p = true) (hh : ∀ h, host = some h → noEscBel h = true) :
    noEscBel (fileUrl fmt p host line) = true := by
  unfold fileUrl
  split
  · unfold fileUrlPathLast
    cases host with
    | none =>
      exact noEscBel_replaceAll _ _ _ (noEscBel_replaceAll _ _ _ hf (noEscBel_lineBytes line)) hp
    | some h =>
      exact noEscBel_replaceAll _ _ _
        (noEscBel_replaceAll _ _ _ (noEscBel_replaceAll _ _ _ hf (hh h rfl)) (noEscBel_lineBytes line)) hp
  · unfold fileUrlPathFirst
    have h1 := noEscBel_replaceAll fmt phPath p hf hp
    cases host with
    | none => exact noEscBel_replaceAll _ _ _ h1 (noEscBel_lineBytes line)
    | some h =>
      exact noEscBel_replaceAll _ _ _ (noEscBel_replaceAll _ phHost h h1 (hh h rfl)) (noEscBel_lineBytes line)

/-! ### File links at the sites -/

/-- What the configuration must satisfy for links to be well formed: no ESC / BEL in the link
format, the host name, or an absolute path (git quotes control characters in file names). -/
structure CfgOk (c : Cfg) : Prop where
  fmt : noEscBel c.fileFmt = true
  host : ∀ h, c.host = some h → noEscBel h = true
  abs : ∀ rel p, absolutePath c.path rel = some p → noEscBel p = true

/-- The piece a displayed file text becomes: linked iff the absolute path is known. -/
def filePiece (c : Cfg) (file text : Bytes) (line : Option Nat) : Piece :=
  match absolutePath c.path file with
  | some p => .link (fileUrl c.fileFmt p c.host line) text
  | none => .plain text

theorem linkFile_eq (c : Cfg) (links : Bool) (file text : Bytes) (line : Option Nat) :
    linkFile c links file text line = render links [filePiece c file text line] := by
  unfold linkFile filePiece
  cases links <;> cases absolutePath c.path file <;> simp [render, fileLink]

theorem filePiece_okT (c : Cfg) (hc : CfgOk c) (file text : Bytes) (line : Option Nat)
    (ht : escSafe text = true) : (filePiece c file text line).okT := by
  unfold filePiece
  cases h : absolutePath c.path file with
  | none => exact ht
  | some p => exact ⟨noEscBel_fileUrl _ _ _ _ hc.fmt (hc.abs file p h) hc.host, ht⟩

theorem render_cons (links : Bool) (p : Piece) (ps : List Piece) :
    render links (p :: ps) = render links [p] ++ render links ps := by
  cases p <;> simp [render]

theorem render_plain (links : Bool) (t : Bytes) : render links [.plain t] = t := by simp [render]

theorem okT_of_mem {ps : List Piece} (h : ∀ p ∈ ps, p.okT) {p : Piece} (hp : p ∈ ps) : p.okT := h p hp

/-- src/handlers/diff_header.rs `get_file_change_description_from_file_paths` -/
def fileChangePieces (c : Cfg) (kind : FileChange) (label arrow minus plus : Bytes)
    (shown : Bytes → Bytes) : List Piece :=
  match kind with
  | .same => [.plain label, filePiece c minus (shown minus) none]
  | .removed => [.plain label, filePiece c minus (shown minus) none]
  | .added => [.plain label, filePiece c plus (shown plus) none]
  | .renamed => [.plain label, filePiece c minus (shown minus) none, .plain [0x20], .plain arrow,
      .plain [0x20], filePiece c plus (shown plus) none]

theorem fileChangeDescription_eq (c : Cfg) (links : Bool) (kind : FileChange) (label arrow minus plus : Bytes)
    (shown : Bytes → Bytes) :
    fileChangeDescription c links kind label arrow minus plus shown =
      render links (fileChangePieces c kind label arrow minus plus shown) := by
  cases kind <;> simp only [fileChangeDescription, fileChangePieces, linkFile_eq] <;>
    (repeat rw [render_cons links _ (_ :: _)]) <;> simp [render_plain]

/-- src/handlers/diff_header.rs `handle_pending_line_with_diff_name` -/
def pendingPieces (c : Cfg) (label name : Bytes) : List Piece := [.plain label, filePiece c name name none]

theorem pendingDiffNameLine_eq (c : Cfg) (links : Bool) (label name : Bytes) :
    pendingDiffNameLine c links label name = render links (pendingPieces c label name) := by
  simp only [pendingDiffNameLine, pendingPieces, linkFile_eq]
  rw [render_cons links _ (_ :: _)]; simp [render_plain]

/-- src/handlers/diff_stat.rs `relativize_path_in_diff_stat_line` -/
def diffStatPieces (c : Cfg) (pathInRepo relPath suffix : Bytes) (alignWidth : Nat) : List Piece :=
  [.plain [0x20], filePiece c (diffStatLinked pathInRepo relPath) relPath none,
   .plain (List.replicate (alignWidth - relPath.length) 0x20), .plain suffix]

theorem diffStatLine_eq (c : Cfg) (links : Bool) (pathInRepo relPath suffix : Bytes) (alignWidth : Nat) :
    diffStatLine c links pathInRepo relPath suffix alignWidth =
      render links (diffStatPieces c pathInRepo relPath suffix alignWidth) := by
  simp only [diffStatLine, diffStatPieces, linkFile_eq]
  (repeat rw [render_cons links _ (_ :: _)]); simp [render_plain]

/-- src/paint.rs `paint_file_path_with_line_number` -/
def filePathPieces (c : Cfg) (file : Bytes) (line : Option Nat) (painted : Bytes) : List Piece :=
  if painted.isEmpty then [.plain painted] else [filePiece c file painted line]

theorem filePathWithLineNumber_eq (c : Cfg) (links : Bool) (file : Bytes) (line : Option Nat) (painted : Bytes) :
    filePathWithLineNumber c links file line painted = render links (filePathPieces c file line painted) := by
  unfold filePathWithLineNumber filePathPieces filePiece
  cases links <;> cases hp : painted.isEmpty <;> cases absolutePath c.path file <;>
    simp [render, fileLink, hp]
  all_goals simp_all

/-- src/features/line_numbers.rs `format_line_number` -/
def lineNumberPieces (c : Cfg) (n : Option Nat) (plusFile : Option Bytes) (padded : Nat → Bytes)
    (blank : Bytes) : List Piece :=
  match n, plusFile with
  | none, _ => [.plain blank]
  | some n, some file => [filePiece c file (padded n) (some n)]
  | some n, none => [.plain (padded n)]

theorem formatLineNumber_eq (c : Cfg) (links : Bool) (n : Option Nat) (plusFile : Option Bytes)
    (padded : Nat → Bytes) (blank : Bytes)
    (habs : Generated.gutterNumberWithoutAbs = true ∨
      ∀ file, plusFile = some file → absolutePath c.path file ≠ none) :
    formatLineNumber c links n plusFile padded blank =
      render links (lineNumberPieces c n plusFile padded blank) := by
  unfold formatLineNumber lineNumberPieces filePiece
  cases n with
  | none => simp [render]
  | some k =>
    cases plusFile with
    | none => cases links <;> simp [render]
    | some file =>
      cases hq : absolutePath c.path file with
      | none =>
        rcases habs with hg | habs
        · cases links <;> simp [render, hg, hq]
        · exact absurd hq (habs file rfl)
      | some p => cases links <;> simp [render, fileLink, hq]

/-- The deviation: with links on and no absolute path (the working directory of the delta process
cannot be determined), the *file name* is printed in place of the line number. -/
theorem formatLineNumber_no_abs (c : Cfg) (k : Nat) (file : Bytes) (padded : Nat → Bytes) (blank : Bytes)
    (h : absolutePath c.path file = none) :
    formatLineNumber c true (some k) (some file) padded blank =
      (if Generated.gutterNumberWithoutAbs then padded k else file) ∧
    formatLineNumber c false (some k) (some file) padded blank = padded k := by
  simp [formatLineNumber, h]

/-! ### Commit links -/

/-- The regex matches handed to the model: ordered, disjoint, in range, on char boundaries —
what `Regex::find_iter` guarantees. -/
def ValidSpans (line : Bytes) : Nat → List (Nat × Nat) → Prop
  | pos, [] => pos ≤ line.length ∧ isBoundary line pos = true
  | pos, (a, b) :: rest =>
    pos ≤ a ∧ a ≤ b ∧ b ≤ line.length ∧ isBoundary line pos = true ∧ isBoundary line a = true ∧
      isBoundary line b = true ∧ ValidSpans line b rest

def commitPieces (f : CommitFmt) (line : Bytes) : Nat → List (Nat × Nat) → List Piece
  | pos, [] => [.plain (line.drop pos)]
  | pos, (a, b) :: rest =>
    let commit := (line.drop a).take (b - a)
    .plain ((line.drop pos).take (a - pos)) ::
      (if hasHexLetter commit then .link (f.url commit) commit else .plain commit) ::
      commitPieces f line b rest

theorem isBoundary_length (s : Bytes) : isBoundary s s.length = true := by
  unfold isBoundary
  split
  · rfl
  · simp

theorem slice_ok (s : Bytes) (i j : Nat) (h1 : i ≤ j) (h2 : j ≤ s.length) (h3 : isBoundary s i = true)
    (h4 : isBoundary s j = true) : slice s i j = .ok ((s.drop i).take (j - i)) := by
  simp [slice, h1, h2, h3, h4]

theorem drop_split (l : Bytes) (pos a : Nat) (h : pos ≤ a) :
    (l.drop pos).take (a - pos) ++ l.drop a = l.drop pos := by
  have := List.take_append_drop (a - pos) (l.drop pos)
  rw [List.drop_drop] at this
  have e : pos + (a - pos) = a := by omega
  rw [e] at this
  exact this

theorem commitGo_eq (f : CommitFmt) (line : Bytes) (spans : List (Nat × Nat)) : ∀ pos,
    ValidSpans line pos spans →
    commitGo f line pos spans = .ok (render true (commitPieces f line pos spans)) ∧
      render false (commitPieces f line pos spans) = line.drop pos := by
  induction spans with
  | nil =>
    intro pos h
    obtain ⟨h1, h2⟩ := h
    have := slice_ok line pos line.length h1 (Nat.le_refl _) h2 (isBoundary_length line)
    have e : (line.drop pos).take (line.length - pos) = line.drop pos := by
      apply List.take_of_length_le; simp
    simp [commitGo, commitPieces, render, this, e]
  | cons ab rest ih =>
    intro pos h
    obtain ⟨a, b⟩ := ab
    obtain ⟨h1, h2, h3, h4, h5, h6, h7⟩ := h
    obtain ⟨ih1, ih2⟩ := ih b h7
    have s1 := slice_ok line pos a h1 (by omega) h4 h5
    have s2 := slice_ok line a b h2 h3 h5 h6
    constructor
    · simp only [commitGo, s1, s2, ih1, commitPieces]
      by_cases hh : hasHexLetter ((line.drop a).take (b - a)) = true
      · simp [hh, render]
      · simp [hh, render]
    · simp only [commitPieces]
      have e1 := drop_split line pos a h1
      have e2 := drop_split line a b h2
      by_cases hh : hasHexLetter ((line.drop a).take (b - a)) = true
      · simp only [hh, if_true, render, Bool.false_eq_true, if_false, ih2, e2, e1]
      · simp only [Bool.not_eq_true] at hh
        simp only [hh, Bool.false_eq_true, if_false, render, ih2, e2, e1]

theorem validSpans_take (line : Bytes) (spans : List (Nat × Nat)) : ∀ pos k,
    ValidSpans line pos spans → ValidSpans line pos (spans.take k) := by
  induction spans with
  | nil => intro pos k h; simpa using h
  | cons ab rest ih =>
    intro pos k h
    obtain ⟨a, b⟩ := ab
    cases k with
    | zero =>
      obtain ⟨h1, h2, h3, h4, _⟩ := h
      exact ⟨by omega, h4⟩
    | succ k =>
      obtain ⟨h1, h2, h3, h4, h5, h6, h7⟩ := h
      exact ⟨h1, h2, h3, h4, h5, h6, ih b k h7⟩

/-- The pieces of a commit line (`links` off: the line itself). -/
def commitLinePieces (f : CommitFmt) (spans : List (Nat × Nat)) (line : Bytes) : List Piece :=
  match f with
  | .none => [.plain line]
  | _ => match spans with
    | [] => [.plain line]
    | _ => commitPieces f line 0 (spans.take 13)

theorem formatCommitLine_eq (f : CommitFmt) (spans : List (Nat × Nat)) (line : Bytes)
    (h : ValidSpans line 0 spans) :
    formatCommitLine f spans line = .ok (render true (commitLinePieces f spans line)) ∧
      render false (commitLinePieces f spans line) = line := by
  have hv := validSpans_take line spans 0 13 h
  have := commitGo_eq f line (spans.take 13) 0 hv
  cases f with
  | none => simp [formatCommitLine, commitLinePieces, render]
  | template fmt =>
    cases spans with
    | nil => simp [formatCommitLine, commitLinePieces, render]
    | cons x xs => simpa [formatCommitLine, commitLinePieces] using this
  | remote r =>
    cases spans with
    | nil => simp [formatCommitLine, commitLinePieces, render]
    | cons x xs => simpa [formatCommitLine, commitLinePieces] using this

/-- src/delta.rs `format_raw_line` -/
theorem formatRawLine_eq (c : Cfg) (tty : Bool) (spans : List (Nat × Nat)) (links : Bool) (line : Bytes)
    (h : ValidSpans line 0 spans) :
    formatRawLine c tty spans links line =
      .ok (render (links && tty) (commitLinePieces c.commitFmt spans line)) := by
  obtain ⟨h1, h2⟩ := formatCommitLine_eq c.commitFmt spans line h
  cases links <;> cases tty <;> simp [formatRawLine, h1, h2]

/-- src/handlers/commit_meta.rs `_handle_commit_meta_header_line` -/
theorem commitMetaLines_eq (c : Cfg) (links : Bool) (spans rawSpans : List (Nat × Nat)) (line raw : Bytes)
    (h : ValidSpans line 0 spans) (hr : ValidSpans raw 0 rawSpans) :
    commitMetaLines c links spans rawSpans line raw =
      .ok (render links (commitLinePieces c.commitFmt spans line),
           render links (commitLinePieces c.commitFmt rawSpans raw)) := by
  obtain ⟨h1, h2⟩ := formatCommitLine_eq c.commitFmt spans line h
  obtain ⟨h3, h4⟩ := formatCommitLine_eq c.commitFmt rawSpans raw hr
  cases links <;> simp [commitMetaLines, h1, h2, h3, h4]

/-! ### Well-formedness of commit-line pieces -/

theorem escSafe_of_noEscBel (t : Bytes) (h : noEscBel t = true) : escSafe t = true := by
  induction t with
  | nil => rfl
  | cons b bs ih =>
    simp only [noEscBel, List.all_cons, Bool.and_eq_true, bne_iff_ne, ne_eq] at h
    rw [escSafe_cons_ne b h.1.1]
    exact ih (by simpa [noEscBel] using h.2)

theorem noEscBel_sub (t s : Bytes) (hs : noEscBel s = true) (hsub : ∀ b ∈ t, b ∈ s) : noEscBel t = true := by
  rw [noEscBel_iff] at *
  intro b hb; exact hs b (hsub b hb)

theorem commitPieces_okT (f : CommitFmt) (hf : ∀ c, noEscBel c = true → noEscBel (f.url c) = true)
    (line : Bytes) (hline : noEscBel line = true) (spans : List (Nat × Nat)) :
    ∀ pos, ∀ p ∈ commitPieces f line pos spans, p.okT := by
  have sub1 : ∀ i, noEscBel (line.drop i) = true := fun i =>
    noEscBel_sub _ line hline (fun b hb => List.mem_of_mem_drop hb)
  have sub2 : ∀ i n, noEscBel ((line.drop i).take n) = true := fun i n =>
    noEscBel_sub _ line hline (fun b hb => List.mem_of_mem_drop (List.mem_of_mem_take hb))
  induction spans with
  | nil =>
    intro pos p hp
    simp only [commitPieces, List.mem_singleton] at hp
    subst hp; exact escSafe_of_noEscBel _ (sub1 pos)
  | cons ab rest ih =>
    intro pos p hp
    obtain ⟨a, b⟩ := ab
    simp only [commitPieces, List.mem_cons] at hp
    rcases hp with rfl | rfl | hp
    · exact escSafe_of_noEscBel _ (sub2 pos _)
    · split
      · exact ⟨hf _ (sub2 a _), escSafe_of_noEscBel _ (sub2 a _)⟩
      · exact escSafe_of_noEscBel _ (sub2 a _)
    · exact ih b p hp

theorem commitLinePieces_okT (f : CommitFmt) (hf : ∀ c, noEscBel c = true → noEscBel (f.url c) = true)
    (spans : List (Nat × Nat)) (line : Bytes) (hline : noEscBel line = true) :
    ∀ p ∈ commitLinePieces f spans line, p.okT := by
  have base : ∀ p ∈ [Piece.plain line], p.okT := by
    intro p hp; simp only [List.mem_singleton] at hp; subst hp
    exact escSafe_of_noEscBel _ hline
  cases f with
  | none => exact base
  | template fmt =>
    cases spans with
    | nil => exact base
    | cons x xs => exact commitPieces_okT _ hf line hline _ 0
  | remote r =>
    cases spans with
    | nil => exact base
    | cons x xs => exact commitPieces_okT _ hf line hline _ 0

theorem template_url_ok (fmt : Bytes) (h : noEscBel fmt = true) :
    ∀ c, noEscBel c = true → noEscBel ((CommitFmt.template fmt).url c) = true :=
  fun c hc => noEscBel_replaceAll fmt phCommit c h hc

/-- A commit-link template `pre{commit}post` yields `pre ++ hash ++ post`. -/
theorem commit_url_template (pre post c : Bytes) (h1 : noBrace pre = true) (h2 : noBrace post = true) :
    (CommitFmt.template (pre ++ phCommit ++ post)).url c = pre ++ c ++ post := by
  have hc : ∀ x ∈ [pre, phCommit, post], x = phCommit ∨ (x ≠ phCommit ∧ Inert phCommit c x) := by
    intro x hx
    simp only [List.mem_cons, List.not_mem_nil, or_false] at hx
    rcases hx with rfl | rfl | rfl
    · exact Or.inr ⟨noBrace_ne _ _ h1 (by decide), inert_noBrace _ c _ h1⟩
    · exact Or.inl rfl
    · exact Or.inr ⟨noBrace_ne _ _ h2 (by decide), inert_noBrace _ c _ h2⟩
  have := replace_chunks phCommit c (by decide) [pre, phCommit, post] hc []
  simp only [List.flatten_cons, List.flatten_nil, List.append_nil, replaceSkip_nil, List.map_cons,
    List.map_nil] at this
  have e1 : pre ≠ phCommit := noBrace_ne _ _ h1 (by decide)
  have e2 : post ≠ phCommit := noBrace_ne _ _ h2 (by decide)
  simp only [e1, e2, if_false, if_true] at this
  simp only [CommitFmt.url, replaceAll, List.append_assoc]
  simpa using this

end Links
