import DeltaModel.Sgr
import Proofs.TermRun
/-! The terminal reads back the control sequences `Sgr.csi` writes: decimal parameters and the
final byte. -/
namespace SgrTerm
open Term Sgr

theorem digitChar_spec : ∀ d, d < 10 →
    (Term.isDigit (digitChar d) = true ∧ digitChar d ≠ Term.ESC ∧ (digitChar d).toNat - 48 = d) := by
  decide

theorem run_digitsAux (f n : Nat) (hf : n ≤ f) (s : State) (done : List Nat) (plain : Bool)
    (hm : s.mode = .csi done 0 plain) :
    run s (digitsAux f n) = ({ s with mode := .csi done n plain }, []) := by
  induction f generalizing n s with
  | zero =>
    have : n = 0 := by omega
    subst this
    obtain ⟨h1, h2, h3⟩ := digitChar_spec 0 (by omega)
    simp [digitsAux, run, step, hm, h1, h2, h3]
  | succ f ih =>
    unfold digitsAux
    split
    · next h =>
      obtain ⟨h1, h2, h3⟩ := digitChar_spec n h
      simp [run, step, hm, h1, h2, h3]
    · next h =>
      obtain ⟨h1, h2, h3⟩ := digitChar_spec (n % 10) (by omega)
      rw [run_append, ih (n / 10) (by omega) s hm]
      simp [run, step, h1, h2, h3]
      omega

/-- Reading the decimal digits of `n` in a fresh parameter position yields `n`. -/
theorem run_digits (n : Nat) (s : State) (done : List Nat) (plain : Bool)
    (hm : s.mode = .csi done 0 plain) :
    run s (digits n) = ({ s with mode := .csi done n plain }, []) :=
  run_digitsAux n n (Nat.le_refl n) s done plain hm

theorem final_m : ('m' ≠ Term.ESC) ∧ Term.isDigit 'm' = false ∧ 'm' ≠ ';' ∧ ('@' ≤ 'm' ∧ 'm' ≤ '~') := by
  decide

theorem semi_spec : (';' ≠ Term.ESC) ∧ Term.isDigit ';' = false := by decide

/-- Reading `p1;p2;…;pk m` (k ≥ 1) inside a plain CSI applies the SGR parameters. -/
theorem run_params (ps : List Nat) (hne : ps ≠ []) (s : State) (done : List Nat)
    (hm : s.mode = .csi done 0 true) :
    run s (joinWith ';' (ps.map digits) ++ ['m']) =
      ({ s with mode := .ground, rend := applySgr s.rend (done ++ ps) }, []) := by
  induction ps generalizing s done with
  | nil => exact absurd rfl hne
  | cons p rest ih =>
    cases rest with
    | nil =>
      simp only [List.map, joinWith]
      rw [run_append, run_digits p s done true hm]
      obtain ⟨h1, h2, h3, h4, h5⟩ := final_m
      simp [run, step, h1, h2, h3, h4, h5]
    | cons q rest' =>
      simp only [List.map, joinWith, List.append_assoc, List.cons_append]
      rw [run_append, run_digits p s done true hm]
      obtain ⟨h1, h2⟩ := semi_spec
      have := ih (by simp) ({ s with mode := Mode.csi (done ++ [p]) 0 true }) (done ++ [p]) rfl
      simp only [List.map] at this
      simp [run, step, h1, h2, this]

/-- `ESC [ params m` read in ground mode. -/
theorem run_csi_m (ps : List Nat) (hne : ps ≠ []) (s : State) (hm : s.mode = .ground) :
    run s (csi ps 'm') = ({ s with rend := applySgr s.rend ps }, []) := by
  have hE : ('\x1b' : Char) = Term.ESC := rfl
  have hb : ('[' ≠ Term.ESC) := by decide
  unfold csi
  simp only [run, step, hm, hE, if_true]
  have := run_params ps hne ({ s with mode := Mode.csi [] 0 true }) [] rfl
  simp [afterEsc, this]

end SgrTerm
