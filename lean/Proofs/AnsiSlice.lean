import Proofs.AnsiTokens
/-!
Slicing the elements of a benign line: `items`, `strip`, `measure`, the partition property.
-/
namespace Ansi

/-- The first byte, if any, is not a UTF-8 continuation byte. -/
def HeadOk (l : Bytes) : Prop := ∀ b, l.head? = some b → isCont b = false

theorem headOk_nil : HeadOk [] := by intro b h; simp at h

theorem headOk_append {a b : Bytes} (ha : HeadOk a) (hb : HeadOk b) : HeadOk (a ++ b) := by
  cases a with
  | nil => simpa using hb
  | cons x xs => intro y hy; apply ha; simpa using hy

theorem headOk_append_left {a b : Bytes} (ha : HeadOk a) (hne : a ≠ []) : HeadOk (a ++ b) := by
  cases a with
  | nil => exact absurd rfl hne
  | cons x xs => intro y hy; apply ha; simpa using hy

theorem isBoundary_at (a c : Bytes) (hc : HeadOk c) : isBoundary (a ++ c) a.length = true := by
  unfold isBoundary
  split
  · rfl
  · simp only [List.drop_left]
    cases c with
    | nil => simp
    | cons x xs => simpa using hc x (by simp)

theorem slice_mid (a b c : Bytes) (hb : HeadOk (b ++ c)) (hc : HeadOk c) :
    slice (a ++ b ++ c) a.length (a.length + b.length) = .ok b := by
  have h1 : isBoundary (a ++ b ++ c) a.length = true := by
    rw [List.append_assoc]; exact isBoundary_at a (b ++ c) hb
  have h2 : isBoundary (a ++ b ++ c) (a.length + b.length) = true := by
    have := isBoundary_at (a ++ b) c hc
    simpa using this
  unfold slice
  rw [if_pos]
  · simp [List.append_assoc]
  · exact ⟨by omega, by simp, h1, h2⟩

theorem headOk_char {c : Bytes} (h : IsChar c) : HeadOk c := by
  cases h <;> intro b hb <;> simp at hb <;> subst hb <;> simp [isCont] <;> omega

theorem tok_headOk {t : Tok} (h : t.WF) : HeadOk t.bytes ∧ t.bytes ≠ [] := by
  cases t with
  | chr c =>
    refine ⟨headOk_char h.1, ?_⟩
    have := isChar_length_pos h.1
    intro e; simp [Tok.bytes] at e; simp [e] at this
  | csi body fin =>
    refine ⟨?_, by simp [Tok.bytes]⟩
    intro b hb; simp [Tok.bytes] at hb; subst hb; decide
  | osc pl bel =>
    cases bel <;> refine ⟨?_, by simp [Tok.bytes]⟩ <;>
      (intro b hb; simp [Tok.bytes] at hb; subst hb; decide)

theorem headOk_tokBytes (ts : List Tok) (h : ∀ t ∈ ts, t.WF) (x : Bytes) (hx : HeadOk x) :
    HeadOk (tokBytes ts ++ x) := by
  cases ts with
  | nil => simpa [tokBytes] using hx
  | cons t ts =>
    obtain ⟨h1, h2⟩ := tok_headOk (h t (by simp))
    simp only [tokBytes, List.append_assoc]
    exact headOk_append_left h1 h2

/-! ### Items -/

def seqItems : Tok → List (Bytes × Bool)
  | .chr _ => []
  | .csi body fin => [((Tok.csi body fin).bytes, true)]
  | .osc pl true => [((Tok.osc pl true).bytes, true)]
  | .osc pl false => [(0x1b :: 0x5d :: (pl ++ [0x1b]), true), ([0x5c], true)]

/-- The `(text, is_ansi)` items of a token list: maximal runs of characters, and the sequences. -/
def chunksGo (pend : Bytes) : List Tok → List (Bytes × Bool)
  | [] => if pend.length > 0 then [(pend, false)] else []
  | .chr c :: ts => chunksGo (pend ++ c) ts
  | t :: ts => (if pend.length > 0 then [(pend, false)] else []) ++ seqItems t ++ chunksGo [] ts

theorem sliceAll_append (s : Bytes) (xs ys : List Element) (a b : List (Bytes × Bool))
    (hx : sliceAll s xs = .ok a) (hy : sliceAll s ys = .ok b) :
    sliceAll s (xs ++ ys) = .ok (a ++ b) := by
  induction xs generalizing a with
  | nil => simp [sliceAll] at hx; subst hx; simpa using hy
  | cons e es ih =>
    simp only [sliceAll, List.cons_append] at hx ⊢
    split at hx
    · simp at hx
    · rename_i t ht
      split at hx
      · simp at hx
      · rename_i r hr
        simp at hx; subst hx
        simp [ht, ih r hr]

theorem sliceAll_text (s pre pend rest : Bytes) (hs : s = pre ++ pend ++ rest)
    (h1 : HeadOk (pend ++ rest)) (h2 : HeadOk rest) :
    sliceAll s (if pend.length > 0 then [⟨.text, pre.length, pre.length + pend.length⟩] else []) =
      .ok (if pend.length > 0 then [(pend, false)] else []) := by
  subst hs
  split
  · simp only [sliceAll]
    rw [slice_mid pre pend rest h1 h2]
    simp [Element.isText]
  · simp [sliceAll]

theorem sliceAll_tokens (ts : List Tok) : ∀ (pre pend s : Bytes), (∀ t ∈ ts, t.WF) → HeadOk pend →
    s = pre ++ pend ++ tokBytes ts →
    sliceAll s (tokElements pend.length pre.length ts) = .ok (chunksGo pend ts) := by
  induction ts with
  | nil =>
    intro pre pend s _ hp hs
    simp only [tokElements, chunksGo]
    exact sliceAll_text s pre pend [] (by simpa [tokBytes] using hs) (by simpa using hp) headOk_nil
  | cons t ts ih =>
    intro pre pend s hwf hp hs
    have ht := hwf t (by simp)
    have hts : ∀ t ∈ ts, t.WF := fun x hx => hwf x (by simp [hx])
    have hrest : HeadOk (tokBytes ts) := by simpa using headOk_tokBytes ts hts [] headOk_nil
    obtain ⟨hth, htne⟩ := tok_headOk ht
    have htl : HeadOk (t.bytes ++ tokBytes ts) := headOk_append_left hth htne
    cases t with
    | chr c =>
      simp only [tokElements, chunksGo]
      have := ih pre (pend ++ c) s hts (headOk_append hp (headOk_char ht.1))
        (by simp [hs, tokBytes, Tok.bytes, List.append_assoc])
      simpa using this
    | csi body fin =>
      simp only [tokElements, chunksGo, seqElements, seqItems]
      have hs' : s = pre ++ pend ++ ((Tok.csi body fin).bytes ++ tokBytes ts) := by simpa [tokBytes] using hs
      have a1 := sliceAll_text s pre pend _ hs' (headOk_append hp htl) htl
      have hs2 : s = (pre ++ pend) ++ (Tok.csi body fin).bytes ++ tokBytes ts := by
        simp [hs', List.append_assoc]
      have a2 : sliceAll s [⟨ofKind (csiKind body fin), pre.length + pend.length,
          pre.length + pend.length + (body.length + 3)⟩] = .ok [((Tok.csi body fin).bytes, true)] := by
        have := slice_mid (pre ++ pend) (Tok.csi body fin).bytes (tokBytes ts) htl hrest
        rw [← hs2, len_csi] at this
        simp only [List.length_append] at this
        simp [sliceAll, this, Element.isText, ofKind]
        cases csiKind body fin <;> simp [ofKind]
      have a3 := ih (pre ++ pend ++ (Tok.csi body fin).bytes) [] s hts headOk_nil (by simp [hs2])
      simp only [List.length_nil, List.length_append] at a3
      simp only [List.append_assoc]
      exact sliceAll_append s _ _ _ _ a1 (sliceAll_append s _ _ _ _ a2 a3)
    | osc pl bel =>
      have hs' : s = pre ++ pend ++ ((Tok.osc pl bel).bytes ++ tokBytes ts) := by simpa [tokBytes] using hs
      have a1 := sliceAll_text s pre pend _ hs' (headOk_append hp htl) htl
      cases bel with
      | true =>
        simp only [tokElements, chunksGo, seqElements, seqItems]
        have hs2 : s = (pre ++ pend) ++ (Tok.osc pl true).bytes ++ tokBytes ts := by
          simp [hs', List.append_assoc]
        have a2 : sliceAll s [⟨.osc, pre.length + pend.length,
            pre.length + pend.length + (pl.length + 3)⟩] = .ok [((Tok.osc pl true).bytes, true)] := by
          have := slice_mid (pre ++ pend) (Tok.osc pl true).bytes (tokBytes ts) htl hrest
          rw [← hs2, len_osc_bel] at this
          simp only [List.length_append] at this
          simp [sliceAll, this, Element.isText]
        have a3 := ih (pre ++ pend ++ (Tok.osc pl true).bytes) [] s hts headOk_nil (by simp [hs2])
        simp only [List.length_nil, List.length_append] at a3
        simp only [List.append_assoc]
        exact sliceAll_append s _ _ _ _ a1 (sliceAll_append s _ _ _ _ a2 a3)
      | false =>
        simp only [tokElements, chunksGo, seqElements, seqItems]
        -- the OSC part `ESC ] payload ESC`, then the one-byte `\`
        have hb : (Tok.osc pl false).bytes = (0x1b :: 0x5d :: (pl ++ [0x1b])) ++ [0x5c] := by
          simp [Tok.bytes]
        have hs2 : s = (pre ++ pend) ++ (0x1b :: 0x5d :: (pl ++ [0x1b])) ++ ([0x5c] ++ tokBytes ts) := by
          simp [hs', hb, List.append_assoc]
        have hst : HeadOk ([0x5c] ++ tokBytes ts) := by
          intro b hb'; simp at hb'; subst hb'; decide
        have hosc : HeadOk ((0x1b :: 0x5d :: (pl ++ [0x1b])) ++ ([0x5c] ++ tokBytes ts)) := by
          intro b hb'; simp at hb'; subst hb'; decide
        have a2 : sliceAll s [⟨.osc, pre.length + pend.length, pre.length + pend.length + (pl.length + 3)⟩] =
            .ok [(0x1b :: 0x5d :: (pl ++ [0x1b]), true)] := by
          have := slice_mid (pre ++ pend) (0x1b :: 0x5d :: (pl ++ [0x1b])) ([0x5c] ++ tokBytes ts) hosc hst
          rw [← hs2] at this
          simp only [List.length_append, List.length_cons, List.length_nil] at this
          simp [sliceAll, this, Element.isText]
        have hs3 : s = (pre ++ pend ++ (0x1b :: 0x5d :: (pl ++ [0x1b]))) ++ [0x5c] ++ tokBytes ts := by
          simp [hs2, List.append_assoc]
        have a2' : sliceAll s [⟨.esc, pre.length + pend.length + (pl.length + 3),
            pre.length + pend.length + (pl.length + 4)⟩] = .ok [([0x5c], true)] := by
          have := slice_mid (pre ++ pend ++ (0x1b :: 0x5d :: (pl ++ [0x1b]))) [0x5c] (tokBytes ts) hst hrest
          rw [← hs3] at this
          simp only [List.length_append, List.length_cons, List.length_nil] at this
          have e1 : pre.length + pend.length + (pl.length + 1 + 1 + 1) = pre.length + pend.length + (pl.length + 3) := by omega
          have e2 : pre.length + pend.length + (pl.length + 1 + 1 + 1) + (0 + 1) = pre.length + pend.length + (pl.length + 4) := by omega
          rw [e1] at this
          rw [e1, e2] at this
          simp [sliceAll, this, Element.isText]
        have a3 := ih (pre ++ pend ++ (Tok.osc pl false).bytes) [] s hts headOk_nil
          (by simp [hs', List.append_assoc])
        simp only [List.length_nil, List.length_append, len_osc_st] at a3
        rw [len_osc_st]
        simp only [List.append_assoc]
        exact sliceAll_append s _ _ _ _ a1
          (sliceAll_append s [_, _] _ [_, _] _ (sliceAll_append s [_] [_] [_] [_] a2 a2') a3)

end Ansi
