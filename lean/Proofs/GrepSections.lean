import DeltaModel.Grep
/-!
Helper lemmas for C16: `make_style_sections` and the `expand_tabs` span shift (byte level).
-/
namespace Grep

theorem isBoundary_length (l : Bytes) : isBoundary l l.length = true := by
  simp [isBoundary]

theorem isBoundary_zero (l : Bytes) : isBoundary l 0 = true := by
  simp [isBoundary]

theorem slice_ok (l : Bytes) (a b : Nat) (hab : a ≤ b) (hbl : b ≤ l.length)
    (ha : isBoundary l a = true) (hb : isBoundary l b = true) :
    slice l a b = .ok ((l.drop a).take (b - a)) := by
  simp [slice, hab, hbl, ha, hb]

theorem take_drop_append_drop (l : Bytes) (a b : Nat) (hab : a ≤ b) :
    (l.drop a).take (b - a) ++ l.drop b = l.drop a := by
  have : l.drop b = (l.drop a).drop (b - a) := by
    rw [List.drop_drop]; congr 1; omega
  rw [this, List.take_append_drop]

theorem isBoundary_le_length (l : Bytes) (i : Nat) (h : isBoundary l i = true) :
    i ≤ l.length := by
  apply Classical.byContradiction
  intro hn
  have hlt : l.length < i := by omega
  have hnone : l[i]? = none := List.getElem?_eq_none (by omega)
  have h0 : (i == 0) = false := by
    rw [beq_eq_false_iff_ne]; omega
  have h1 : (i == l.length) = false := by
    rw [beq_eq_false_iff_ne]; omega
  simp only [isBoundary, hnone, h0, h1, Bool.or_false] at h
  exact Bool.noConfusion h

/-- A valid span is never skipped, whatever the value of the repair flag. -/
theorem spanSkipped_false_of_valid (line : Bytes) (curr a b : Nat) (hca : curr ≤ a) (hab : a ≤ b)
    (ha : isBoundary line a = true) (hb : isBoundary line b = true) :
    spanSkipped line curr a b = false := by
  have h1 : decide (a < curr) = false := decide_eq_false (by omega)
  have h2 : decide (b < a) = false := decide_eq_false (by omega)
  unfold spanSkipped
  rw [h1, h2, ha, hb]
  simp

/-- With the repair flag on, a span that is not skipped is valid. -/
theorem valid_of_spanSkipped_false (hfix : Generated.Grep.fixSectionsGuard = true)
    (line : Bytes) (curr a b : Nat) (h : spanSkipped line curr a b = false) :
    curr ≤ a ∧ a ≤ b ∧ isBoundary line a = true ∧ isBoundary line b = true := by
  unfold spanSkipped at h
  rw [hfix, Bool.true_and] at h
  simp only [Bool.or_eq_false_iff, decide_eq_false_iff_not, Bool.not_eq_false'] at h
  obtain ⟨⟨⟨h1, h2⟩, h3⟩, h4⟩ := h
  exact ⟨by omega, by omega, h3, h4⟩

theorem sectionsFrom_nil_ok (line : Bytes) (curr : Nat)
    (hc : curr ≤ line.length) (hb : isBoundary line curr = true) :
    ∃ secs, sectionsFrom line curr [] = .ok secs ∧ secsText secs = line.drop curr ∧
      matchSpans curr secs = [] := by
  unfold sectionsFrom
  by_cases hlt : curr < line.length
  · rw [if_pos hlt, slice_ok line curr line.length hc (Nat.le_refl _) hb (isBoundary_length _)]
    refine ⟨_, rfl, ?_, ?_⟩
    · simp only [secsText, List.flatMap_cons, List.flatMap_nil, List.append_nil]
      exact List.take_of_length_le (by simp [List.length_drop])
    · simp [matchSpans]
  · rw [if_neg hlt]
    refine ⟨[], rfl, ?_, rfl⟩
    have : curr = line.length := by omega
    simp [secsText, this]

/-- One turn of the loop on a valid span, given the result of the rest of the loop. -/
theorem sectionsFrom_cons_ok (line : Bytes) (curr a b : Nat) (rest : List (Nat × Nat))
    (tl : List (Bool × Bytes))
    (hb : isBoundary line curr = true)
    (hca : curr ≤ a) (hab : a ≤ b) (hbl : b ≤ line.length)
    (hba : isBoundary line a = true) (hbb : isBoundary line b = true)
    (htl : sectionsFrom line b rest = .ok tl) (htxt : secsText tl = line.drop b) :
    ∃ secs, sectionsFrom line curr ((a, b) :: rest) = .ok secs ∧
      secsText secs = line.drop curr ∧ matchSpans curr secs = (a, b) :: matchSpans b tl := by
  unfold sectionsFrom
  rw [spanSkipped_false_of_valid line curr a b hca hab hba hbb]
  simp only [Bool.false_eq_true, if_false]
  rw [slice_ok line a b hab hbl hba hbb, htl]
  by_cases hgt : a > curr
  · rw [if_pos hgt, slice_ok line curr a (by omega) (by omega) hb hba]
    refine ⟨_, rfl, ?_, ?_⟩
    · simp only [secsText, List.flatMap_cons,
        List.cons_append, List.nil_append] at htxt ⊢
      rw [htxt, take_drop_append_drop line a b hab,
        take_drop_append_drop line curr a (by omega)]
    · have h1 : ((line.drop curr).take (a - curr)).length = a - curr := by
        simp [List.length_take, List.length_drop]; omega
      have h2 : ((line.drop a).take (b - a)).length = b - a := by
        simp [List.length_take, List.length_drop]; omega
      simp only [List.cons_append, List.nil_append, matchSpans, h1, h2]
      have e1 : curr + (a - curr) = a := by omega
      have e2 : a + (b - a) = b := by omega
      simp [e1, e2]
  · rw [if_neg hgt]
    have hac : a = curr := by omega
    subst hac
    refine ⟨_, rfl, ?_, ?_⟩
    · simp only [secsText, List.flatMap_cons, List.nil_append] at htxt ⊢
      rw [htxt, take_drop_append_drop line a b hab]
    · have h2 : ((line.drop a).take (b - a)).length = b - a := by
        simp [List.length_take, List.length_drop]; omega
      simp only [List.nil_append, matchSpans, h2]
      have e2 : a + (b - a) = b := by omega
      simp [e2]

/-- For sorted, disjoint, in-range, boundary-aligned spans starting at or after the
(boundary) offset `curr`, the loop does not panic, the sections concatenate to the rest of
the line and the match-styled sections sit exactly at the spans. -/
theorem sectionsFrom_ok (line : Bytes) (curr : Nat) (subs : List (Nat × Nat))
    (hc : curr ≤ line.length) (hb : isBoundary line curr = true)
    (h : spansOk line curr subs = true) :
    ∃ secs, sectionsFrom line curr subs = .ok secs ∧ secsText secs = line.drop curr ∧
      matchSpans curr secs = subs := by
  induction subs generalizing curr with
  | nil => exact sectionsFrom_nil_ok line curr hc hb
  | cons s rest ih =>
    obtain ⟨a, b⟩ := s
    simp only [spansOk, Bool.and_eq_true, decide_eq_true_eq] at h
    obtain ⟨⟨⟨⟨⟨hca, hab⟩, hbl⟩, hba⟩, hbb⟩, hrest⟩ := h
    obtain ⟨tl, htl, htxt, hsp⟩ := ih b hbl hbb hrest
    obtain ⟨secs, h1, h2, h3⟩ :=
      sectionsFrom_cons_ok line curr a b rest tl hb hca hab hbl hba hbb htl htxt
    exact ⟨secs, h1, h2, by rw [h3, hsp]⟩

theorem makeStyleSections_ok (line : Bytes) (subs : List (Nat × Nat))
    (h : spansOk line 0 subs = true) :
    ∃ secs, makeStyleSections line subs = .ok secs ∧ secsText secs = line ∧
      matchSpans 0 secs = subs := by
  have := sectionsFrom_ok line 0 subs (Nat.zero_le _) (isBoundary_zero _) h
  simpa [makeStyleSections] using this

/-! ### `expand_tabs` -/

theorem expandB_append_notab (w : Nat) (ind rest : Bytes) (hrest : rest.contains tab = false) :
    expandB w (ind ++ rest) = expandB w ind ++ rest := by
  unfold expandB
  by_cases hw : w = 0
  · simp [hw]
  · simp only [hw, if_false, List.flatMap_append]
    congr 1
    induction rest with
    | nil => rfl
    | cons c cs ih =>
      have hc : c ≠ tab := by
        intro hc; subst hc; simp at hrest
      have hcs : cs.contains tab = false := by
        simp at hrest ⊢; exact hrest.2
      simp [List.flatMap_cons, hc, ih hcs]

theorem expandB_length_ge (w : Nat) (l : Bytes) : l.length ≤ (expandB w l).length := by
  unfold expandB
  by_cases hw : w = 0
  · simp [hw]
  · simp only [hw, if_false]
    induction l with
    | nil => simp
    | cons c cs ih =>
      rw [List.flatMap_cons, List.length_append, List.length_cons]
      by_cases hc : c = tab
      · rw [if_pos hc, List.length_replicate]; omega
      · rw [if_neg hc, List.length_singleton]; omega

/-- Boundaries behind a prefix only depend on the suffix (and on the prefix being empty). -/
theorem isBoundary_shift (p e r : Bytes) (k : Nat) (hpe : p.length ≤ e.length)
    (hp : p.length = 0 → e.length = 0)
    (h : isBoundary (p ++ r) (p.length + k) = true) :
    isBoundary (e ++ r) (e.length + k) = true := by
  simp only [isBoundary, List.length_append, Bool.or_eq_true, beq_iff_eq,
    List.getElem?_append_right (Nat.le_add_right _ _), Nat.add_sub_cancel_left] at h ⊢
  rcases h with (h | h) | h
  · left; left; omega
  · left; right; omega
  · right; exact h

theorem spansOk_shift (p e r : Bytes) (hpe : p.length ≤ e.length)
    (hp : p.length = 0 → e.length = 0) (subs : List (Nat × Nat)) (c c' : Nat)
    (hc : c' ≤ c + (e.length - p.length))
    (hsub : subs.all (fun s => decide (p.length ≤ s.1)) = true)
    (hok : spansOk (p ++ r) c subs = true) :
    spansOk (e ++ r) c'
      (subs.map fun (a, b) => (a + (e.length - p.length), b + (e.length - p.length))) = true := by
  induction subs generalizing c c' with
  | nil => simp [spansOk]
  | cons s rest ih =>
    obtain ⟨a, b⟩ := s
    simp only [List.all_cons, Bool.and_eq_true, decide_eq_true_eq] at hsub
    obtain ⟨hpa, hsub'⟩ := hsub
    simp only [spansOk, Bool.and_eq_true, decide_eq_true_eq, List.length_append] at hok
    obtain ⟨⟨⟨⟨⟨hca, hab⟩, hbl⟩, hba⟩, hbb⟩, hrest⟩ := hok
    simp only [List.map_cons, spansOk, Bool.and_eq_true, decide_eq_true_eq, List.length_append]
    have hba' : isBoundary (e ++ r) (a + (e.length - p.length)) = true := by
      have := isBoundary_shift p e r (a - p.length) hpe hp (by
        have : p.length + (a - p.length) = a := by omega
        rw [this]; exact hba)
      have e1 : e.length + (a - p.length) = a + (e.length - p.length) := by omega
      rw [e1] at this; exact this
    have hbb' : isBoundary (e ++ r) (b + (e.length - p.length)) = true := by
      have := isBoundary_shift p e r (b - p.length) hpe hp (by
        have : p.length + (b - p.length) = b := by omega
        rw [this]; exact hbb)
      have e1 : e.length + (b - p.length) = b + (e.length - p.length) := by omega
      rw [e1] at this; exact this
    refine ⟨⟨⟨⟨⟨by omega, by omega⟩, by omega⟩, hba'⟩, hbb'⟩, ?_⟩
    exact ih b _ (Nat.le_refl _) hsub' hrest

theorem sub_shift (p e r : Bytes) (hpe : p.length ≤ e.length) (a b : Nat) (hpa : p.length ≤ a) :
    sub (e ++ r) (a + (e.length - p.length), b + (e.length - p.length)) = sub (p ++ r) (a, b) := by
  simp only [sub]
  have e1 : a + (e.length - p.length) = e.length + (a - p.length) := by omega
  have e2 : b + (e.length - p.length) - (e.length + (a - p.length)) = b - a := by omega
  have e3 : a = p.length + (a - p.length) := by omega
  rw [e1, e2]
  conv => rhs; rw [e3]
  have e4 : b - (p.length + (a - p.length)) = b - a := by omega
  rw [e4]
  rw [List.drop_append, List.drop_append,
    List.drop_eq_nil_of_le (Nat.le_add_right _ _), List.drop_eq_nil_of_le (Nat.le_add_right _ _)]
  simp

/-- Tabs only in the leading indentation, all spans behind it: the shifted spans are valid
for the expanded line and select the same text. -/
theorem expandTabs_leading (w : Nat) (ind rest : Bytes) (subs : List (Nat × Nat))
    (hind : ind.all (fun b => b == tab || b == space) = true)
    (hrest : rest.contains tab = false)
    (hsub : subs.all (fun s => decide (ind.length ≤ s.1)) = true)
    (hok : spansOk (ind ++ rest) 0 subs = true) :
    spansOk (expandTabs w (ind ++ rest) subs).1 0 (expandTabs w (ind ++ rest) subs).2 = true ∧
    (expandTabs w (ind ++ rest) subs).2.map (sub (expandTabs w (ind ++ rest) subs).1) =
      subs.map (sub (ind ++ rest)) := by
  have hpe := expandB_length_ge w ind
  have hp : ind.length = 0 → (expandB w ind).length = 0 := by
    intro h0
    have : ind = [] := List.eq_nil_of_length_eq_zero h0
    subst this
    simp [expandB]
  have hshift : (expandB w ind ++ rest).length - (ind ++ rest).length
      = (expandB w ind).length - ind.length := by
    simp only [List.length_append]; omega
  simp only [expandTabs, expandB_append_notab w ind rest hrest, hshift]
  refine ⟨spansOk_shift ind (expandB w ind) rest hpe hp subs 0 0 (Nat.zero_le _) hsub hok, ?_⟩
  clear hok
  induction subs with
  | nil => rfl
  | cons s tl ih =>
    obtain ⟨a, b⟩ := s
    simp only [List.all_cons, Bool.and_eq_true, decide_eq_true_eq] at hsub
    simp only [List.map_cons, List.cons.injEq]
    exact ⟨sub_shift ind (expandB w ind) rest hpe a b hsub.1, ih hsub.2⟩

/-- With the submatch guard of the repaired `make_style_sections` the loop cannot panic,
whatever the submatches are, and the sections still concatenate to the rest of the line. -/
theorem sectionsFrom_total (hfix : Generated.Grep.fixSectionsGuard = true)
    (line : Bytes) (curr : Nat) (subs : List (Nat × Nat))
    (hc : curr ≤ line.length) (hb : isBoundary line curr = true) :
    ∃ secs, sectionsFrom line curr subs = .ok secs ∧ secsText secs = line.drop curr := by
  induction subs generalizing curr with
  | nil =>
    obtain ⟨secs, h1, h2, _⟩ := sectionsFrom_nil_ok line curr hc hb
    exact ⟨secs, h1, h2⟩
  | cons s rest ih =>
    obtain ⟨a, b⟩ := s
    cases hsk : spanSkipped line curr a b with
    | true =>
      obtain ⟨secs, h1, h2⟩ := ih curr hc hb
      refine ⟨secs, ?_, h2⟩
      rw [← h1]
      conv => lhs; unfold sectionsFrom
      rw [hsk]
      rfl
    | false =>
      obtain ⟨hca, hab, hba, hbb⟩ := valid_of_spanSkipped_false hfix line curr a b hsk
      have hbl := isBoundary_le_length line b hbb
      obtain ⟨tl, htl, htxt⟩ := ih b hbl hbb
      obtain ⟨secs, h1, h2, _⟩ :=
        sectionsFrom_cons_ok line curr a b rest tl hb hca hab hbl hba hbb htl htxt
      exact ⟨secs, h1, h2⟩

theorem makeStyleSections_total (hfix : Generated.Grep.fixSectionsGuard = true)
    (line : Bytes) (subs : List (Nat × Nat)) :
    ∃ secs, makeStyleSections line subs = .ok secs ∧ secsText secs = line := by
  have := sectionsFrom_total hfix line 0 subs (Nat.zero_le _) (isBoundary_zero _)
  simpa [makeStyleSections] using this

end Grep
