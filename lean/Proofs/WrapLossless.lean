import Proofs.Wrap
/-
C07 helper: the lossless invariant of the `wrap_line` loop, and the structure of `finish`.
-/
namespace Wrap

/-- Styled clusters of a list of sections: the text with its styles, section boundaries
forgotten. -/
def explode (secs : List Sec) : List (Nat × G) :=
  secs.flatMap fun s => s.2.map fun g => (s.1, g)

theorem explode_append (a b : List Sec) : explode (a ++ b) = explode a ++ explode b := by
  simp [explode]

theorem explode_cons (s : Sec) (r : List Sec) : explode (s :: r) = s.2.map (fun g => (s.1, g)) ++ explode r := by
  simp [explode]

theorem explode_nil : explode [] = [] := rfl

theorem explode_split (style : Nat) (a b : List G) :
    explode [(style, a), (style, b)] = explode [(style, a ++ b)] := by
  simp [explode]

/-- Rows with their last (inserted symbol) section removed. -/
def stripResult (result : List Row) : List Sec := result.flatMap List.dropLast

theorem stripResult_append (a b : List Row) : stripResult (a ++ b) = stripResult a ++ stripResult b := by
  simp [stripResult]

theorem stripResult_single_concat (r : Row) (s : Sec) : stripResult [r ++ [s]] = r := by
  simp [stripResult]

def explodeWidth (l : List (Nat × G)) : Nat := gsWidth (l.map (·.2))

theorem explodeWidth_explode (r : Row) : explodeWidth (explode r) = rowWidth r := by
  induction r with
  | nil => simp [explode, explodeWidth, rowWidth, gsWidth]
  | cons s r ih =>
    unfold explodeWidth at ih ⊢
    rw [explode_cons, List.map_append, gsWidth_append, ih]
    simp [rowWidth, Function.comp_def]

/-- A newline cluster has display width 0 (true of `unicode-width`; checked by the harness on
every answer of `text.graphemes`). The lone-newline rule of `wrap_line` relies on it
("Do not count the '\\n': + 0"). -/
def NlZero (secs : List Sec) : Prop := ∀ sec ∈ secs, ∀ g ∈ sec.2, g.s = "\n" → g.w = 0

theorem isLoneNl_width {rest : List Sec} (h : isLoneNl rest = true) (hz : NlZero rest) :
    rowWidth rest = 0 := by
  unfold isLoneNl at h
  split at h
  · rename_i st g
    have := hz (st, [g]) (by simp) g (by simp) (by simpa using h)
    simp [rowWidth, gsWidth, this]
  · cases h

/-- The invariants of the loop that `wrap_lossless` needs. -/
structure InvL (cfg : Cfg) (lw : Nat) (line : List Sec) (st : St) : Prop where
  text : explode (stripResult st.result ++ st.curr ++ st.stack) = explode line
  len : rowWidth st.curr = st.len
  count : 0 < effMax cfg lw → st.result.length + 1 ≤ effMax cfg lw
  fresh : limitReached (effMax cfg lw) st.result.length = true → st.curr = [] ∧ st.len = 0
  nlz : NlZero st.stack

theorem invL_init (cfg : Cfg) (lw : Nat) (line : List Sec) (hz : NlZero line) :
    InvL cfg lw line (initSt line) := by
  refine ⟨by simp [initSt, stripResult], by simp [initSt, rowWidth], ?_, ?_, hz⟩
  · intro h; simp [initSt]; omega
  · intro _; simp [initSt]

theorem invL_step {fx : Fixes} {cfg : Cfg} {sym lw : Nat} {line : List Sec} (st st' : St)
    (hi : InvL cfg lw line st) (h : StepRel fx cfg sym lw st st') : InvL cfg lw line st' := by
  obtain ⟨htext, hlen, hcount, hfresh, hnlz⟩ := hi
  have hsub : ∀ {style gs rest}, st.stack = (style, gs) :: rest → NlZero rest := by
    intro style gs rest hs sec hsec
    exact hnlz sec (by rw [hs]; exact List.mem_cons_of_mem _ hsec)
  cases h with
  | push style gs rest hs hl hfit =>
    refine ⟨?_, ?_, hcount, ?_, hsub hs⟩
    · rw [← htext, hs]; simp
    · simp [rowWidth_append, rowWidth, hlen]
    · intro h; simp at h; rw [hl] at h; cases h
  | nl style gs rest hs hl heq hnl =>
    refine ⟨?_, ?_, hcount, ?_, by intro sec hsec; cases hsec⟩
    · rw [← htext, hs]; simp
    · have := isLoneNl_width hnl (hsub hs)
      simp only [rowWidth_append, rowWidth, hlen, this]; omega
    · intro h; simp at h; rw [hl] at h; cases h
  | split0 style gs rest hs hl hge hnf hns hw =>
    refine ⟨?_, by simp [rowWidth], ?_, ?_, by rw [← hs]; exact hnlz⟩
    · rw [← htext, hs]
      simp only [stripResult_append, stripResult_single_concat]
      simp
    · intro hp
      have := not_limit_lt hl hp
      simp; omega
    · intro _; simp
  | splitk style gs rest hs hl hge hnf hns hw =>
    refine ⟨?_, by simp [rowWidth], ?_, ?_, ?_⟩
    · rw [← htext, hs]
      simp only [stripResult_append]
      have : st.curr ++ [(style, (takeFit (widthLeft cfg lw st.len gs) gs).1), (sym, [cfg.leftSym])]
           = (st.curr ++ [(style, (takeFit (widthLeft cfg lw st.len gs) gs).1)]) ++ [(sym, [cfg.leftSym])] := by simp
      rw [this, stripResult_single_concat]
      simp only [explode_append, explode_cons, explode_nil, List.append_nil, List.append_assoc]
      congr 2
      rw [← List.append_assoc, ← List.map_append, takeFit_append]
    · intro hp
      have := not_limit_lt hl hp
      simp; omega
    · intro _; simp
    · intro sec hsec g hg
      simp at hsec
      cases hsec with
      | inl h1 =>
        subst h1
        exact hnlz (style, gs) (by rw [hs]; simp) g (takeFit_snd_subset _ _ g hg)
      | inr h2 => exact hsub hs sec h2 g hg

end Wrap
