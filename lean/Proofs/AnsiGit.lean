import Proofs.AnsiSlice
/-!
Consequences for benign lines and git colourings: `items`, `strip`, `measure`, the partition.
-/
namespace Ansi

theorem items_tokens (ts : List Tok) (hwf : ∀ t ∈ ts, t.WF) :
    items (tokBytes ts) = .ok (chunksGo [] ts) := by
  unfold items
  rw [elements_tokens ts hwf]
  have := sliceAll_tokens ts [] [] (tokBytes ts) hwf headOk_nil (by simp)
  simpa using this

theorem joinTexts_append (a b : List (Bytes × Bool)) : joinTexts (a ++ b) = joinTexts a ++ joinTexts b := by
  induction a with
  | nil => rfl
  | cons x xs ih => obtain ⟨t, f⟩ := x; simp [joinTexts, ih]

theorem joinTexts_seqItems (t : Tok) : joinTexts (seqItems t) = [] := by
  cases t with
  | chr c => rfl
  | csi b f => simp [seqItems, joinTexts]
  | osc pl bel => cases bel <;> simp [seqItems, joinTexts]

theorem joinTexts_pend (pend : Bytes) :
    joinTexts (if pend.length > 0 then [(pend, false)] else []) = pend := by
  split
  · simp [joinTexts]
  · rename_i h; simp at h; simp [joinTexts, h]

theorem joinTexts_chunks (ts : List Tok) : ∀ pend, joinTexts (chunksGo pend ts) = pend ++ plainOf ts := by
  induction ts with
  | nil => intro pend; simp [chunksGo, plainOf, joinTexts_pend]
  | cons t ts ih =>
    intro pend
    cases t with
    | chr c => simp [chunksGo, plainOf, ih]
    | csi b f => simp [chunksGo, plainOf, joinTexts_append, joinTexts_pend, joinTexts_seqItems, ih]
    | osc pl bel => simp [chunksGo, plainOf, joinTexts_append, joinTexts_pend, joinTexts_seqItems, ih]

/-- Stripping a benign line leaves exactly its characters. -/
theorem strip_tokens (ts : List Tok) (hwf : ∀ t ∈ ts, t.WF) :
    strip (tokBytes ts) = .ok (plainOf ts) := by
  simp [strip, items_tokens ts hwf, joinTexts_chunks]

/-! ### Width -/

/-- Width is additive over concatenation (true of per-character widths; not of ligatures or emoji
sequences split by a sequence boundary — the harness checks this domain condition per case). -/
def Additive (U : Uni) : Prop := ∀ a b, U.width (a ++ b) = U.width a + U.width b

theorem additive_nil {U : Uni} (h : Additive U) : U.width [] = 0 := by
  have := h [] []; simp at this; omega

theorem sumWidths_append (U : Uni) (a b : List (Bytes × Bool)) :
    sumWidths U (a ++ b) = sumWidths U a + sumWidths U b := by
  induction a with
  | nil => simp [sumWidths]
  | cons x xs ih => obtain ⟨t, f⟩ := x; simp [sumWidths, ih]; omega

theorem sumWidths_seqItems (U : Uni) (t : Tok) : sumWidths U (seqItems t) = 0 := by
  cases t with
  | chr c => rfl
  | csi b f => simp [seqItems, sumWidths]
  | osc pl bel => cases bel <;> simp [seqItems, sumWidths]

theorem sumWidths_pend (U : Uni) (h : Additive U) (pend : Bytes) :
    sumWidths U (if pend.length > 0 then [(pend, false)] else []) = U.width pend := by
  split
  · simp [sumWidths]
  · rename_i hh; simp at hh; simp [sumWidths, hh, additive_nil h]

theorem sumWidths_chunks (U : Uni) (h : Additive U) (ts : List Tok) :
    ∀ pend, sumWidths U (chunksGo pend ts) = U.width (pend ++ plainOf ts) := by
  induction ts with
  | nil => intro pend; simp [chunksGo, plainOf, sumWidths_pend U h]
  | cons t ts ih =>
    intro pend
    cases t with
    | chr c => simp [chunksGo, plainOf, ih]
    | csi b f =>
      simp [chunksGo, plainOf, sumWidths_append, sumWidths_pend U h, sumWidths_seqItems, ih, h pend]
    | osc pl bel =>
      simp [chunksGo, plainOf, sumWidths_append, sumWidths_pend U h, sumWidths_seqItems, ih, h pend]

/-- The measured width of a benign line is the width of its characters. -/
theorem measure_tokens (U : Uni) (h : Additive U) (ts : List Tok) (hwf : ∀ t ∈ ts, t.WF) :
    measure U (tokBytes ts) = .ok (U.width (plainOf ts)) := by
  simp [measure, items_tokens ts hwf, sumWidths_chunks U h]

/-! ### Git colouring -/

theorem sgrBody_wf {body : Bytes} (h : SgrBody body) : (Tok.csi body 0x6d).WF := by
  refine ⟨?_, h.2, by decide, by decide⟩
  intro b hb
  rcases h.1 b hb with h1 | h1 <;> omega

theorem gitColouring_tokens {p q : Bytes} (h : GitColouring p q) :
    ∃ ts : List Tok, (∀ t ∈ ts, t.WF) ∧ tokBytes ts = q ∧ plainOf ts = p := by
  induction h with
  | nil => exact ⟨[], by simp, rfl, rfl⟩
  | chr c hc hne _ ih =>
    obtain ⟨ts, h1, h2, h3⟩ := ih
    refine ⟨.chr c :: ts, ?_, by simp [tokBytes, Tok.bytes, h2], by simp [plainOf, h3]⟩
    intro t ht; simp at ht; rcases ht with rfl | ht
    · exact ⟨hc, hne⟩
    · exact h1 t ht
  | sgr body hb _ ih =>
    obtain ⟨ts, h1, h2, h3⟩ := ih
    refine ⟨.csi body 0x6d :: ts, ?_, by simp [tokBytes, Tok.bytes, h2], by simp [plainOf, h3]⟩
    intro t ht; simp at ht; rcases ht with rfl | ht
    · exact sgrBody_wf hb
    · exact h1 t ht

/-- The uncoloured side of a git colouring is itself a (sequence-free) benign line. -/
theorem gitColouring_plain_tokens {p q : Bytes} (h : GitColouring p q) :
    ∃ ts : List Tok, (∀ t ∈ ts, t.WF) ∧ tokBytes ts = p ∧ plainOf ts = p := by
  induction h with
  | nil => exact ⟨[], by simp, rfl, rfl⟩
  | chr c hc hne _ ih =>
    obtain ⟨ts, h1, h2, h3⟩ := ih
    refine ⟨.chr c :: ts, ?_, by simp [tokBytes, Tok.bytes, h2], by simp [plainOf, h3]⟩
    intro t ht; simp at ht; rcases ht with rfl | ht
    · exact ⟨hc, hne⟩
    · exact h1 t ht
  | sgr body hb _ ih => exact ih

/-! ### Partition -/

theorem contiguous_append (s : Bytes) (xs ys : List Element) (pos mid : Nat)
    (hx : ∀ rest, contiguousFrom s mid rest = true → contiguousFrom s pos (xs ++ rest) = true)
    (hy : contiguousFrom s mid ys = true) : contiguousFrom s pos (xs ++ ys) = true := hx ys hy

theorem contiguous_one (s : Bytes) (k : EKind) (a b : Nat) (hab : a ≤ b) (hb : isBoundary s b = true)
    (rest : List Element) (h : contiguousFrom s b rest = true) :
    contiguousFrom s a (⟨k, a, b⟩ :: rest) = true := by
  simp [contiguousFrom, hab, hb, h]

theorem boundary_split (s a c : Bytes) (hs : s = a ++ c) (hc : HeadOk c) :
    isBoundary s a.length = true := by
  subst hs; exact isBoundary_at a c hc

theorem contiguous_tokens (ts : List Tok) : ∀ (pre pend s : Bytes), (∀ t ∈ ts, t.WF) →
    s = pre ++ pend ++ tokBytes ts →
    contiguousFrom s pre.length (tokElements pend.length pre.length ts) = true := by
  induction ts with
  | nil =>
    intro pre pend s _ hs
    simp only [tokElements]
    split
    · apply contiguous_one _ _ _ _ (by omega)
      · have := boundary_split s (pre ++ pend) [] (by simpa [tokBytes] using hs) headOk_nil
        simpa using this
      · simp [contiguousFrom, hs, tokBytes]
    · rename_i h; simp at h; simp [contiguousFrom, hs, tokBytes, h]
  | cons t ts ih =>
    intro pre pend s hwf hs
    have ht := hwf t (by simp)
    have hts : ∀ t ∈ ts, t.WF := fun x hx => hwf x (by simp [hx])
    have hrest : HeadOk (tokBytes ts) := by simpa using headOk_tokBytes ts hts [] headOk_nil
    obtain ⟨hth, htne⟩ := tok_headOk ht
    have htl : HeadOk (t.bytes ++ tokBytes ts) := headOk_append_left hth htne
    -- the pending text element, if any
    have text_part : ∀ rest, contiguousFrom s (pre.length + pend.length) rest = true →
        contiguousFrom s pre.length
          ((if pend.length > 0 then [⟨.text, pre.length, pre.length + pend.length⟩] else []) ++ rest) = true := by
      intro rest hr
      split
      · apply contiguous_one _ _ _ _ (by omega) _ _ hr
        have := boundary_split s (pre ++ pend) (t.bytes ++ tokBytes ts) (by simpa [tokBytes] using hs) htl
        simpa using this
      · rename_i h; simp at h; simpa [h] using hr
    cases t with
    | chr c =>
      simp only [tokElements]
      have := ih pre (pend ++ c) s hts (by simp [hs, tokBytes, Tok.bytes, List.append_assoc])
      simpa using this
    | csi body fin =>
      simp only [tokElements, seqElements, List.append_assoc]
      apply text_part
      have hb := boundary_split s (pre ++ pend ++ (Tok.csi body fin).bytes) (tokBytes ts)
        (by simp [hs, tokBytes, List.append_assoc]) hrest
      simp only [List.length_append, len_csi] at hb
      apply contiguous_one _ _ _ _ (by omega) hb
      have := ih (pre ++ pend ++ (Tok.csi body fin).bytes) [] s hts (by simp [hs, tokBytes, List.append_assoc])
      simpa [len_csi, Nat.add_assoc] using this
    | osc pl bel =>
      cases bel with
      | true =>
        simp only [tokElements, seqElements, List.append_assoc]
        apply text_part
        have hb := boundary_split s (pre ++ pend ++ (Tok.osc pl true).bytes) (tokBytes ts)
          (by simp [hs, tokBytes, List.append_assoc]) hrest
        simp only [List.length_append, len_osc_bel] at hb
        apply contiguous_one _ _ _ _ (by omega) hb
        have := ih (pre ++ pend ++ (Tok.osc pl true).bytes) [] s hts (by simp [hs, tokBytes, List.append_assoc])
        simpa [len_osc_bel, Nat.add_assoc] using this
      | false =>
        simp only [tokElements, seqElements, List.append_assoc]
        apply text_part
        have hst : HeadOk ([0x5c] ++ tokBytes ts) := by
          intro b hb'; simp at hb'; subst hb'; decide
        have hb1 := boundary_split s (pre ++ pend ++ (0x1b :: 0x5d :: (pl ++ [0x1b]))) ([0x5c] ++ tokBytes ts)
          (by simp [hs, tokBytes, Tok.bytes, List.append_assoc]) hst
        simp only [List.length_append, List.length_cons, List.length_nil] at hb1
        have hb2 := boundary_split s (pre ++ pend ++ (Tok.osc pl false).bytes) (tokBytes ts)
          (by simp [hs, tokBytes, List.append_assoc]) hrest
        simp only [List.length_append, len_osc_st] at hb2
        simp only [List.cons_append, List.nil_append]
        apply contiguous_one _ _ _ _ (by omega) (by
          have e : pre.length + pend.length + (pl.length + 0 + 1 + 1 + 1) = pre.length + pend.length + (pl.length + 3) := by omega
          rw [← e]; simpa using hb1)
        apply contiguous_one _ _ _ _ (by omega) hb2
        have := ih (pre ++ pend ++ (Tok.osc pl false).bytes) [] s hts (by simp [hs, tokBytes, List.append_assoc])
        simpa [len_osc_st, Nat.add_assoc] using this

/-- On a benign line the element ranges partition the string on char boundaries. -/
theorem partition_tokens (ts : List Tok) (hwf : ∀ t ∈ ts, t.WF) : isPartition (tokBytes ts) = true := by
  unfold isPartition
  rw [elements_tokens ts hwf]
  have := contiguous_tokens ts [] [] (tokBytes ts) hwf (by simp)
  simpa using this

end Ansi
