import DeltaModel.Style
/-!
`parse_ansi_term_style` equals a declarative reading of the style string (`denoteWords`):
attributes = the attribute words present, foreground = the first colour word, background = the
second, a third colour is the fatal error.
-/
namespace DeltaStyle
open Sgr (Attr Color)

instance instDecEqExcept {ε α : Type} [DecidableEq ε] [DecidableEq α] : DecidableEq (Except ε α) :=
  fun a b => match a, b with
  | .ok x, .ok y => if h : x = y then isTrue (by rw [h]) else isFalse (fun h' => h (Except.ok.inj h'))
  | .error x, .error y =>
    if h : x = y then isTrue (by rw [h]) else isFalse (fun h' => h (Except.error.inj h'))
  | .ok _, .error _ => isFalse (fun h => by cases h)
  | .error _, .ok _ => isFalse (fun h => by cases h)

/-! ### The declarative reading -/

/-- Words that are not attribute words (nor accepted-and-ignored words) are colour words. -/
def colourWords (ws : List String) : List String := ws.filter fun w => (effectOf w).isNone

/-- Some word of the list is the attribute word for `a` / is `omit` / is `raw`. -/
def present (ws : List String) (a : Attr) : Bool := ws.any fun w => effectOf w == some (.attr a)
def hasOmit (ws : List String) : Bool := ws.any fun w => effectOf w == some .omitW
def hasRaw (ws : List String) : Bool := ws.any fun w => effectOf w == some .rawW

/-- What the (at most two) colour words say. -/
structure Colours where
  fg : Option Color := none
  bg : Option Color := none
  fgAuto : Bool := false
  bgAuto : Bool := false
  synt : Bool := false
  deriving DecidableEq, Repr

/-- First colour word: `syntax`, `auto` (the default's foreground and syntax flag) or a colour. -/
def readFg (env : Env) (d : Option DStyle) (w : String) : Except Fatal Colours :=
  if w = "syntax" then .ok { synt := true }
  else if w = "auto" then .ok { fg := defFg d, fgAuto := true, synt := defSyntax d }
  else match parseColor env w with
    | .ok c => .ok { fg := c }
    | .error e => .error e

/-- Second colour word: `syntax` is an error, `auto` is the default's background. -/
def readBg (env : Env) (d : Option DStyle) (c : Colours) (w : String) : Except Fatal Colours :=
  if w = "syntax" then .error .syntaxAsBackground
  else if w = "auto" then .ok { c with bg := defBg d, bgAuto := true }
  else match parseColor env w with
    | .ok b => .ok { c with bg := b }
    | .error e => .error e

def readColours (env : Env) (d : Option DStyle) : List String → Except Fatal Colours
  | [] => .ok {}
  | [f] => readFg env d f
  | [f, b] =>
    match readFg env d f with
    | .ok c => readBg env d c b
    | .error e => .error e
  | f :: b :: _ :: _ =>
    match readFg env d f with
    | .ok c =>
      match readBg env d c b with
      | .ok _ => .error .tooManyColors
      | .error e => .error e
    | .error e => .error e

/-- The declarative reading of a word list. -/
def denoteWords (env : Env) (d : Option DStyle) (ws : List String) : Except Fatal Parsed :=
  match readColours env d (colourWords ws) with
  | .error e => .error e
  | .ok c =>
    let both := c.fgAuto && c.bgAuto
    .ok { ansi := { fg := c.fg, bg := c.bg,
                    bold := present ws .bold, dimmed := present ws .dimmed,
                    italic := present ws .italic, underline := present ws .underline,
                    blink := present ws .blink, reverse := present ws .reverse,
                    hidden := present ws .hidden, strike := present ws .strike },
          omitted := if both && !hasOmit ws then defOmitted d else hasOmit ws,
          raw := if both && !hasRaw ws then defRaw d else hasRaw ws,
          synt := c.synt }

/-- The declarative reading of a style string. -/
def denote (env : Env) (d : Option DStyle) (s : List Char) : Except Fatal Parsed :=
  denoteWords env d (words s)

/-! ### Attribute steps commute with colour steps -/

def effects (ws : List String) : List Effect := ws.filterMap effectOf

theorem set_with_fg (s : Sgr.Style) (a : Attr) (v : Bool) (x : Option Color) :
    ({ s with fg := x } : Sgr.Style).set a v = { s.set a v with fg := x } := by
  cases a <;> rfl

theorem set_with_bg (s : Sgr.Style) (a : Attr) (v : Bool) (x : Option Color) :
    ({ s with bg := x } : Sgr.Style).set a v = { s.set a v with bg := x } := by
  cases a <;> rfl

def mapOk (f : PState → PState) : Except Fatal PState → Except Fatal PState
  | .ok s => .ok (f s)
  | .error e => .error e

theorem stepColour_comm (env : Env) (d : Option DStyle) (st : PState) (e : Effect) (w : String) :
    stepColour env d (applyEffect st e) w = mapOk (fun s => applyEffect s e) (stepColour env d st w) := by
  have h1 : (applyEffect st e).seenFg = st.seenFg := by cases e <;> rfl
  have h2 : (applyEffect st e).seenBg = st.seenBg := by cases e <;> rfl
  unfold stepColour
  rw [h1, h2]
  cases hf : st.seenFg with
  | false =>
    simp only [Bool.not_false, if_true]
    split
    · cases e <;> simp [mapOk, applyEffect]
    · split
      · cases e <;> simp [mapOk, applyEffect, set_with_fg]
      · cases parseColor env w with
        | error x => simp [mapOk]
        | ok c => cases e <;> simp [mapOk, applyEffect, set_with_fg]
  | true =>
    simp only [Bool.not_true, Bool.false_eq_true, if_false]
    cases hb : st.seenBg with
    | false =>
      simp only [Bool.not_false, if_true]
      split
      · simp [mapOk]
      · split
        · cases e <;> simp [mapOk, applyEffect, set_with_bg]
        · cases parseColor env w with
          | error x => simp [mapOk]
          | ok c => cases e <;> simp [mapOk, applyEffect, set_with_bg]
    | true => simp [mapOk]

theorem mapOk_mapOk (f g : PState → PState) (x : Except Fatal PState) :
    mapOk g (mapOk f x) = mapOk (fun s => g (f s)) x := by
  cases x <;> rfl

theorem loop_colour_cons (env : Env) (d : Option DStyle) (st : PState) (w : String) (ws : List String)
    (hw : effectOf w = none) :
    loop env d st (w :: ws) = match stepColour env d st w with
      | .ok st' => loop env d st' ws
      | .error e => .error e := by
  simp only [loop, stepWord, hw]
  cases stepColour env d st w <;> rfl

theorem loop_effect_cons (env : Env) (d : Option DStyle) (st : PState) (w : String) (ws : List String)
    (e : Effect) (hw : effectOf w = some e) :
    loop env d st (w :: ws) = loop env d (applyEffect st e) ws := by
  simp [loop, stepWord, hw]

/-- An attribute step may be moved behind a run of colour words. -/
theorem loop_comm (env : Env) (d : Option DStyle) (cws : List String)
    (hc : ∀ w ∈ cws, effectOf w = none) (st : PState) (e : Effect) :
    loop env d (applyEffect st e) cws = mapOk (fun s => applyEffect s e) (loop env d st cws) := by
  induction cws generalizing st with
  | nil => simp [loop, mapOk]
  | cons w ws ih =>
    have hw := hc w List.mem_cons_self
    have hws : ∀ w ∈ ws, effectOf w = none := fun w h => hc w (List.mem_cons_of_mem _ h)
    rw [loop_colour_cons env d _ w ws hw, loop_colour_cons env d _ w ws hw, stepColour_comm]
    cases stepColour env d st w with
    | error x => simp [mapOk]
    | ok st' => simp [mapOk, ih hws]

theorem colourWords_none (ws : List String) : ∀ w ∈ colourWords ws, effectOf w = none := by
  intro w hw
  simp only [colourWords, List.mem_filter] at hw
  cases h : effectOf w with
  | none => rfl
  | some e => simp [h] at hw

/-- The loop = the loop over the colour words alone, then all attribute effects. -/
theorem loop_split (env : Env) (d : Option DStyle) (ws : List String) (st : PState) :
    loop env d st ws =
      mapOk (fun s => (effects ws).foldl applyEffect s) (loop env d st (colourWords ws)) := by
  induction ws generalizing st with
  | nil => simp [loop, colourWords, effects, mapOk]
  | cons w ws ih =>
    cases hw : effectOf w with
    | some e =>
      have h1 : colourWords (w :: ws) = colourWords ws := by simp [colourWords, hw]
      have h2 : effects (w :: ws) = e :: effects ws := by simp [effects, hw]
      rw [loop_effect_cons env d st w ws e hw, ih, h1, h2,
        loop_comm env d (colourWords ws) (colourWords_none ws) st e, mapOk_mapOk]
      simp [List.foldl_cons]
    | none =>
      have h1 : colourWords (w :: ws) = w :: colourWords ws := by simp [colourWords, hw]
      have h2 : effects (w :: ws) = effects ws := by simp [effects, hw]
      rw [loop_colour_cons env d st w ws hw, h1, loop_colour_cons env d st w _ hw, h2]
      cases stepColour env d st w with
      | error x => simp [mapOk]
      | ok st' => simp [ih]

end DeltaStyle
