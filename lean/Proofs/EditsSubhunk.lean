import DeltaModel.EditsSubhunk
/-!
Subhunk formation keeps every block a contiguous stretch `-…- +…+` of the hunk: all its minus
lines precede all its plus lines and nothing else lies between its first and last line.
The proof uses the generated flush table only through the four facts below.
-/
set_option linter.unusedSimpArgs false
set_option linter.unusedVariables false
namespace Subhunk
open Generated.HunkFlush

/-! The flush rules the proofs rely on (re-checked against the regenerated table on every run);
the overflow flush may be present or not. -/
theorem flushBeforeMinus_eq : flushBeforeMinus = some [.prevIsPlus] := by decide
theorem flushBeforePlus_eq : flushBeforePlus = none := by decide
theorem flushBeforeZero_eq : flushBeforeZero = some [] := by decide
theorem flushBeforeOther_eq : flushBeforeOther = some [] := by decide

/-- A block is a contiguous `minus* plus*` stretch of the input. -/
structure GoodBlock (kinds : List Kind) (b : List Nat × List Nat) : Prop where
  mkind : ∀ m ∈ b.1, kinds[m]? = some .minus
  pkind : ∀ p ∈ b.2, kinds[p]? = some .plus
  lt : ∀ m ∈ b.1, ∀ p ∈ b.2, m < p
  closed : ∀ i, (i ∈ b.1 ∨ i ∈ b.2) → ∀ j, (j ∈ b.1 ∨ j ∈ b.2) → ∀ k, i ≤ k → k ≤ j → (k ∈ b.1 ∨ k ∈ b.2)

structure Inv (kinds : List Kind) (n : Nat) (s : SState) : Prop where
  mkind : ∀ m ∈ s.minus, kinds[m]? = some .minus
  pkind : ∀ p ∈ s.plus, kinds[p]? = some .plus
  mb : ∀ m ∈ s.minus, m < n
  pb : ∀ p ∈ s.plus, p < n
  lt : ∀ m ∈ s.minus, ∀ p ∈ s.plus, m < p
  closed : ∀ i, (i ∈ s.minus ∨ i ∈ s.plus) → ∀ k, i ≤ k → k < n → (k ∈ s.minus ∨ k ∈ s.plus)
  pp : s.plus ≠ [] → s.prevPlus = true
  out : ∀ b ∈ s.out, GoodBlock kinds b

theorem flush_buffers (s : SState) : (flush s).minus = [] ∧ (flush s).plus = [] ∧
    (flush s).prevPlus = s.prevPlus := by
  unfold flush
  split
  · rename_i h; exact ⟨h.1, h.2, rfl⟩
  · exact ⟨rfl, rfl, rfl⟩

theorem flush_inv {kinds : List Kind} {n : Nat} {s : SState} (inv : Inv kinds n s) :
    Inv kinds n (flush s) := by
  unfold flush
  split
  · exact inv
  · constructor <;> simp only [List.not_mem_nil, false_implies, implies_true, false_or, or_false,
      ne_eq, not_true_eq_false]
    · intro b hb
      simp only [List.mem_append, List.mem_singleton] at hb
      rcases hb with hb | rfl
      · exact inv.out b hb
      · refine ⟨inv.mkind, inv.pkind, inv.lt, ?_⟩
        intro i hi j hj k hik hkj
        have hjn : j < n := by
          rcases hj with hj | hj
          · exact inv.mb j hj
          · exact inv.pb j hj
        exact inv.closed i hi k hik (by omega)

theorem step_inv {kinds : List Kind} (bufSize : Nat) {n : Nat} {s : SState} {k : Kind}
    (hk : kinds[n]? = some k) (inv : Inv kinds n s) : Inv kinds (n + 1) (step bufSize s n k) := by
  unfold step
  -- the overflow flush (present or not) keeps the invariant
  have inv1 : Inv kinds n (if (overflowFlush && (decide (s.minus.length > bufSize) || decide (s.plus.length > bufSize))) = true
      then flush s else s) := by
    split
    · exact flush_inv inv
    · exact inv
  generalize (if (overflowFlush && (decide (s.minus.length > bufSize) || decide (s.plus.length > bufSize))) = true
      then flush s else s) = s1 at inv1
  simp only
  cases k with
  | minus =>
    simp only [flushBeforeMinus_eq, applyRule, List.all_cons, List.all_nil, Bool.and_true, evalAtom]
    have key : ∀ s2 : SState, Inv kinds n s2 → s2.plus = [] →
        Inv kinds (n + 1) { s2 with minus := s2.minus ++ [n], prevPlus := false, prevMinus := true } := by
      intro s2 inv2 hp
      constructor <;> simp only [hp, List.not_mem_nil, false_implies, implies_true, or_false, ne_eq,
        not_true_eq_false, List.mem_append, List.mem_singleton]
      · intro m hm
        rcases hm with hm | rfl
        · exact inv2.mkind m hm
        · exact hk
      · intro m hm
        rcases hm with hm | rfl
        · have := inv2.mb m hm; omega
        · omega
      · intro i hi k' hik hk'
        by_cases hkn : k' = n
        · right; exact hkn
        · rcases hi with hi | rfl
          · have := inv2.closed i (Or.inl hi) k' hik (by omega)
            simp only [hp, List.not_mem_nil, or_false] at this
            left; exact this
          · omega
      · exact inv2.out
    split
    · exact key _ (flush_inv inv1) (flush_buffers s1).2.1
    · rename_i hpp
      have : s1.plus = [] := by
        by_cases h : s1.plus = []
        · exact h
        · exact absurd (inv1.pp h) (by simpa using hpp)
      exact key _ inv1 this
  | plus =>
    simp only [flushBeforePlus_eq, applyRule]
    constructor <;> simp only [List.mem_append, List.mem_singleton]
    · exact inv1.mkind
    · intro p hp
      rcases hp with hp | rfl
      · exact inv1.pkind p hp
      · exact hk
    · intro m hm; have := inv1.mb m hm; omega
    · intro p hp
      rcases hp with hp | rfl
      · have := inv1.pb p hp; omega
      · omega
    · intro m hm p hp
      rcases hp with hp | rfl
      · exact inv1.lt m hm p hp
      · exact inv1.mb m hm
    · intro i hi k' hik hk'
      by_cases hkn : k' = n
      · right; right; exact hkn
      · have hi' : i ∈ s1.minus ∨ i ∈ s1.plus := by
          rcases hi with hi | hi | rfl
          · exact Or.inl hi
          · exact Or.inr hi
          · omega
        rcases inv1.closed i hi' k' hik (by omega) with h | h
        · exact Or.inl h
        · exact Or.inr (Or.inl h)
    · intro _; trivial
    · exact inv1.out
  | zero =>
    simp only [flushBeforeZero_eq, applyRule, List.all_nil, if_true]
    have inv2 := flush_inv inv1
    obtain ⟨hm, hp, _⟩ := flush_buffers s1
    constructor <;> simp only [hm, hp, List.not_mem_nil, false_implies, implies_true, or_false, ne_eq,
      not_true_eq_false]
    · exact inv2.out
  | other =>
    simp only [flushBeforeOther_eq, applyRule, List.all_nil, if_true]
    have inv2 := flush_inv inv1
    obtain ⟨hm, hp, _⟩ := flush_buffers s1
    constructor <;> simp only [hm, hp, List.not_mem_nil, false_implies, implies_true, or_false, ne_eq,
      not_true_eq_false]
    · exact inv2.out

theorem run_inv (kinds : List Kind) (bufSize : Nat) :
    ∀ (ks : List Kind) (idx : Nat) (s : SState), (∀ j, ks[j]? = kinds[idx + j]?) → Inv kinds idx s →
      Inv kinds (idx + ks.length) (run bufSize ks idx s) := by
  intro ks
  induction ks with
  | nil => intro idx s _ inv; simpa [run] using inv
  | cons k ks ih =>
    intro idx s hks inv
    have hk : kinds[idx]? = some k := by have := hks 0; simpa using this.symm
    have := ih (idx + 1) (step bufSize s idx k) (fun j => by
      have := hks (j + 1); simp only [List.getElem?_cons_succ] at this
      rw [this]; congr 1; omega) (step_inv bufSize hk inv)
    simp only [run, List.length_cons]
    rw [show idx + (ks.length + 1) = idx + 1 + ks.length by omega]
    exact this

theorem init_inv (kinds : List Kind) : Inv kinds 0 init := by
  constructor <;> simp [init]

/-- Every block handed to `infer_edits` is a contiguous `minus* plus*` stretch of the hunk. -/
theorem subhunks_good (bufSize : Nat) (kinds : List Kind) :
    ∀ b ∈ subhunks bufSize kinds, GoodBlock kinds b := by
  have := run_inv kinds bufSize kinds 0 init (by simp) (init_inv kinds)
  exact (flush_inv this).out

/-- What a good block implies for a minus line `m` and a plus line `p` of it. -/
theorem GoodBlock.between {kinds : List Kind} {b : List Nat × List Nat} (g : GoodBlock kinds b)
    {m p : Nat} (hm : m ∈ b.1) (hp : p ∈ b.2) :
    m < p ∧
    (∀ k, m ≤ k → k ≤ p → kinds[k]? = some .minus ∨ kinds[k]? = some .plus) ∧
    (∀ k, m ≤ k → k + 1 ≤ p → ¬ (kinds[k]? = some .plus ∧ kinds[k + 1]? = some .minus)) := by
  refine ⟨g.lt m hm p hp, ?_, ?_⟩
  · intro k h1 h2
    rcases g.closed m (Or.inl hm) p (Or.inr hp) k h1 h2 with h | h
    · exact Or.inl (g.mkind k h)
    · exact Or.inr (g.pkind k h)
  · intro k h1 h2 ⟨hkp, hkm⟩
    have hk : k ∈ b.2 := by
      rcases g.closed m (Or.inl hm) p (Or.inr hp) k h1 (by omega) with h | h
      · have := g.mkind k h; rw [hkp] at this; cases this
      · exact h
    have hk1 : k + 1 ∈ b.1 := by
      rcases g.closed m (Or.inl hm) p (Or.inr hp) (k + 1) (by omega) h2 with h | h
      · exact h
      · have := g.pkind (k + 1) h; rw [hkm] at this; cases this
    have := g.lt (k + 1) hk1 k hk
    omega

/-- The pairs `blockPairs` reports are a minus line and a plus line of that block. -/
theorem blockPairs_mem (cfg : Edits.Cfg) (lineAt : Nat → Edits.Line) (tagM tagP : Edits.Tag)
    (b : List Nat × List Nat) (ps : List (Nat × Nat))
    (h : blockPairs cfg lineAt tagM tagP b = .ok ps) (m p : Nat) (hmp : (m, p) ∈ ps) :
    m ∈ b.1 ∧ p ∈ b.2 := by
  unfold blockPairs at h
  split at h
  · cases h
  · injection h with h
    subst h
    simp only [List.mem_filterMap] at hmp
    obtain ⟨e, _, he⟩ := hmp
    obtain ⟨a, c⟩ := e
    cases a <;> cases c <;> simp only at he
    · cases he
    · cases he
    · cases he
    · rename_i i j
      split at he
      · rename_i m' p' h1 h2
        injection he with he; injection he with e1 e2
        subst e1 e2
        exact ⟨List.mem_of_getElem? h1, List.mem_of_getElem? h2⟩
      · cases he

end Subhunk
