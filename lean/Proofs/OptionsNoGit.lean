import DeltaModel.Options
import Proofs.OptionsPerm
/-!
C13 helper: with `--no-gitconfig` the git config object is either absent or disabled; a
disabled object answers `none` to every query, so nothing it contains can matter.
-/
namespace Options

theorem getT_disabled (g : GitCfg) (h : g.enabled = false) (ty : GType) (sec : Option Name) (k : Name) :
    g.getT ty sec k = none := by simp [GitCfg.getT, h]

theorem get_disabled (g : GitCfg) (h : g.enabled = false) (sec : Option Name) (k : Name) :
    g.get sec k = none := by simp [GitCfg.get, getT_disabled g h]

theorem getBool_disabled (g : GitCfg) (h : g.enabled = false) (sec : Option Name) (k : Name) :
    g.getBool sec k = none := by simp [GitCfg.getBool, getT_disabled g h]

theorem getOther_disabled (g : GitCfg) (h : g.enabled = false) (k : String) :
    g.getOther k = none := by simp [GitCfg.getOther, h]

theorem secFeatures_disabled (g : GitCfg) (h : g.enabled = false) (sec : Option Name) :
    secFeatures g sec = [] := by simp [secFeatures, get_disabled g h]

theorem gatherFlags_disabled (bs : Builtins) (π : List Name) (fb : Nat) (g : GitCfg)
    (h : g.enabled = false) (sec : Option Name) (acc : List Name) :
    gatherFlags bs π fb g sec acc = acc := by
  unfold gatherFlags
  have := foldl_none (fun c => decide (g.getBool sec c = some true))
    (fun a c => gatherB bs π fb c a) π acc (by intro c _; simp [getBool_disabled g h])
  simpa using this

theorem gatherR_disabled (bs : Builtins) (π : List Name) (fb : Nat) (g : GitCfg)
    (h : g.enabled = false) (n : Nat) (f : Name) (acc : List Name) :
    gatherR bs π fb g (n + 1) f acc =
      (if (lookup f bs).isSome then gatherB bs π fb f acc else f :: acc) := by
  rw [gatherR, gatherFlags_disabled bs π fb g h, secFeatures_disabled g h]
  rfl

/-- The features gathered when no git config source can contribute; `expand` says whether a
    builtin feature named by `--features` / `DELTA_FEATURES` is expanded. -/
def gatherOff (expand : Bool) (N : Nat) (π : List Name) (inp : Inputs) : List Name :=
  let bs := builtinsFor inp
  let π := keysOf bs π
  Generated.Options.cliFlagOrder.foldl
    (fun a p => if flagOn inp p.1 then gatherB bs π N p.2 a else a)
    ((inputFeatures inp).foldl
      (fun a f => if expand && (lookup f bs).isSome then gatherB bs π N f a else f :: a) [])

theorem finalConfig_noGit (inp : Inputs) (h : inp.noGitconfig = true) :
    finalConfig inp =
      inp.configFile.map fun f => { enabled := false, params := inp.params, file := f } := by
  unfold finalConfig
  cases hc : inp.configFile <;> simp [h]

theorem gatherFeaturesWith_noGit_none (N : Nat) (π : List Name) (inp : Inputs)
    (h : inp.noGitconfig = true) (hc : inp.configFile = none) :
    gatherFeaturesWith N π inp = gatherOff Generated.Options.noConfigExpands N π inp := by
  have hf : finalConfig inp = none := by rw [finalConfig_noGit inp h, hc]; rfl
  unfold gatherFeaturesWith gatherOff
  simp only [hf]

theorem gatherFeaturesWith_noGit_some (N : Nat) (π : List Name) (inp : Inputs)
    (h : inp.noGitconfig = true) (f : GitFile) (hc : inp.configFile = some f) :
    gatherFeaturesWith (N + 1) π inp = gatherOff true (N + 1) π inp := by
  have hf : finalConfig inp = some { enabled := false, params := inp.params, file := f } := by
    rw [finalConfig_noGit inp h, hc]; rfl
  unfold gatherFeaturesWith gatherOff
  simp only [hf]
  rw [gatherFlags_disabled _ _ _ _ rfl, secFeatures_disabled _ rfl]
  simp only [List.foldl_nil, ite_self, Bool.true_and]
  congr 1
  exact foldl_congr_pointwise _ (fun c _ a => gatherR_disabled _ _ _ _ rfl N c a) []

theorem fuelFor_noGit (π : List Name) (inp : Inputs) (h : inp.noGitconfig = true) :
    fuelFor (builtinsFor inp) π inp (finalConfig inp) =
      (π ++ Generated.Options.cliFlagOrder.map (·.2) ++
        (builtinsFor inp).flatMap (fun p => featuresOf p.2) ++ inputFeatures inp).length + 2 := by
  rw [finalConfig_noGit inp h]
  unfold fuelFor nameUniverse
  cases inp.configFile with
  | none => simp
  | some f => simp [secFeatures_disabled]

/-- The value of a builtin entry when git config cannot contribute. -/
theorem evalEntry_disabled (g : GitCfg) (h : g.enabled = false) (e : BEntry) :
    evalEntry (some g) e = evalEntry none e := by
  unfold evalEntry
  cases e.gitKey with
  | none => rfl
  | some k => simp [getOther_disabled g h]

theorem provenanced_disabled (bs : Builtins) (g : GitCfg) (h : g.enabled = false) (o f : Name) :
    provenanced bs (some g) o f = provenanced bs none o f := by
  unfold provenanced optGet
  simp only [getT_disabled g h]
  cases lookup f bs with
  | none => rfl
  | some t =>
    simp only []
    cases tableGet t o with
    | none => rfl
    | some e => simp [evalEntry_disabled g h]

theorem searchFeatures_disabled (bs : Builtins) (g : GitCfg) (h : g.enabled = false) (o : Name)
    (fs : List Name) : searchFeatures bs (some g) o fs = searchFeatures bs none o fs := by
  induction fs with
  | nil => rfl
  | cons f fs ih => simp only [searchFeatures, provenanced_disabled bs g h, ih]

/-- `effectiveWith` when git config cannot contribute. -/
def effectiveOff (feats : List Name) (inp : Inputs) (o : Name) : Val :=
  match lookup o inp.cli with
  | some v => .cli v
  | none =>
    match searchFeatures (builtinsFor inp) none o feats.reverse with
    | some v => v
    | none => .dflt

theorem effectiveWith_noGit (feats : List Name) (inp : Inputs) (h : inp.noGitconfig = true)
    (o : Name) : effectiveWith feats inp o = effectiveOff feats inp o := by
  unfold effectiveWith effectiveOff getOptionValue
  rw [finalConfig_noGit inp h]
  cases inp.configFile with
  | none => rfl
  | some f =>
    have hd : ({ enabled := false, params := inp.params, file := f } : GitCfg).enabled = false := rfl
    simp only [Option.map_some, optGet, getT_disabled _ hd, searchFeatures_disabled _ _ hd]
    rfl

/-- Inputs that agree on everything that is not read from git config. -/
def SameButGit (a b : Inputs) : Prop :=
  a.cli = b.cli ∧ a.cliFeatures = b.cliFeatures ∧ a.envFeatures = b.envFeatures ∧
    a.envNavigate = b.envNavigate ∧ a.noGitconfig = b.noGitconfig

instance (a b : Inputs) : Decidable (SameButGit a b) := by
  unfold SameButGit; infer_instance

theorem SameButGit.builtinsFor {a b : Inputs} (h : SameButGit a b) : builtinsFor a = builtinsFor b := by
  unfold Options.builtinsFor cliHas; rw [h.1]

theorem SameButGit.inputFeatures {a b : Inputs} (h : SameButGit a b) :
    inputFeatures a = inputFeatures b := by
  unfold Options.inputFeatures; rw [h.2.1, h.2.2.1]

theorem SameButGit.flagOn {a b : Inputs} (h : SameButGit a b) (fl : Name) : flagOn a fl = flagOn b fl := by
  unfold Options.flagOn cliHas; rw [h.1, h.2.2.2.1]

def fuelOff (π : List Name) (inp : Inputs) : Nat :=
  (keysOf (builtinsFor inp) π ++ Generated.Options.cliFlagOrder.map (·.2) ++
    (builtinsFor inp).flatMap (fun p => featuresOf p.2) ++ inputFeatures inp).length + 2

theorem gatherFeatures_noGit (π : List Name) (inp : Inputs) (h : inp.noGitconfig = true) :
    gatherFeatures π inp =
      gatherOff (inp.configFile.isSome || Generated.Options.noConfigExpands) (fuelOff π inp) π inp := by
  unfold gatherFeatures
  rw [fuelFor_noGit _ inp h]
  cases hc : inp.configFile with
  | none => simpa [fuelOff] using gatherFeaturesWith_noGit_none _ π inp h hc
  | some f => simpa [fuelOff] using gatherFeaturesWith_noGit_some _ π inp h f hc

theorem gatherOff_congr (e : Bool) (N : Nat) (π : List Name) {a b : Inputs} (h : SameButGit a b) :
    gatherOff e N π a = gatherOff e N π b := by
  unfold gatherOff
  simp only [h.builtinsFor, h.inputFeatures, h.flagOn]

theorem fuelOff_congr (π : List Name) {a b : Inputs} (h : SameButGit a b) : fuelOff π a = fuelOff π b := by
  unfold fuelOff; rw [h.builtinsFor, h.inputFeatures]

theorem effectiveOff_congr (feats : List Name) {a b : Inputs} (h : SameButGit a b) (o : Name) :
    effectiveOff feats a o = effectiveOff feats b o := by
  unfold effectiveOff; rw [h.1, h.builtinsFor]

/-- When no feature named by `--features` / `DELTA_FEATURES` is a builtin, expanding them or not
    is the same. -/
theorem gatherOff_expand_irrelevant (e e' : Bool) (N : Nat) (π : List Name) (inp : Inputs)
    (hf : ∀ f ∈ inputFeatures inp, lookup f (builtinsFor inp) = none) :
    gatherOff e N π inp = gatherOff e' N π inp := by
  unfold gatherOff
  simp only []
  congr 1
  exact foldl_congr_pointwise _ (fun f hfm a => by simp [hf f hfm]) []

end Options
