import DeltaModel.PagerTail
import Proofs.Pager
/-! Lemmas about `PagerTail.runFull` (C18): the interpreted destructor / `main` tail. -/
namespace PagerTail
open Pager Generated

/-- The destructor, for every status of the pager: wait iff there is a pager, nothing else. -/
theorem dropEvents_spec (pager : Bool) (st : PagerStatus) (code : Int) :
    dropEvents pager st code = if pager then [Event.closePager, Event.waitPager] else [] := by
  cases pager <;> cases st <;> rfl

/-- The tail of `main`: `process::exit(exit_code)` and nothing else. -/
theorem mainTailEvents_spec (st : PagerStatus) (code : Int) :
    mainTailEvents st code = [Event.exit code] := by
  cases st <;> simp [mainTailEvents, interp, rowEvents, PagerTail.mainTail, exitArg, Event.isExit]

/-- The interpreted suffix is the abstract one of `Pager.run`: for every scenario and every way the
    pager ends. -/
theorem runFull_eq_run (s : Scenario) (st : PagerStatus) : runFull s st = run s := by
  unfold runFull run
  simp only [shapeOk_true, Bool.not_true]
  cases hb : body s with
  | none => rfl
  | some b =>
    simp only [dropEvents_spec, mainTailEvents_spec, dropWaits, Bool.and_true]
    cases hr : b.returns <;> cases hp : hasPager s <;> simp

/-- `Pager.run` when write `pos` fails with EPIPE, in the three rendering modes. -/
theorem run_broken_pipe_stdin (pager : Bool) (writes pos : Nat) (h : pos < writes) :
    run ⟨.stdin, pager, writes, some ⟨pos, .brokenPipe⟩⟩ =
      ((if pager then [Event.spawnPager] else []) ++ List.replicate pos Event.writeOk)
      ++ [Event.writeFail .brokenPipe] ++ quietTail false pager := by
  cases pager <;>
    simp [run, shapeOk_true, body, effectiveFault, h, onError_stdin_bp, renderEvents, msg, hasPager,
      usesOutputType, dropWaits, quietTail]

theorem run_broken_pipe_sub (k : SubKind) (cst : Option Int) (n : Nat) (pager : Bool) (writes pos : Nat)
    (h : pos < writes) :
    run ⟨.sub k true cst n, pager, writes, some ⟨pos, .brokenPipe⟩⟩ =
      ((if pager then [Event.spawnPager] else []) ++ [Event.spawnSub] ++ List.replicate pos Event.writeOk)
      ++ [Event.writeFail .brokenPipe] ++ quietTail true pager := by
  cases pager <;>
    simp [run, shapeOk_true, body, effectiveFault, h, onError_sub_bp, renderEvents, msg, hasPager,
      usesOutputType, dropWaits, quietTail]

theorem run_broken_pipe_early (pager : Bool) (writes pos : Nat) (h : pos < writes) :
    run ⟨.early, pager, writes, some ⟨pos, .brokenPipe⟩⟩ =
      List.replicate pos Event.writeOk ++ [Event.writeFail .brokenPipe] ++ quietTail false false := by
  cases pager <;>
    simp [run, shapeOk_true, body, effectiveFault, h, onError_early_bp, renderEvents, msg, hasPager,
      usesOutputType, quietTail]

end PagerTail
