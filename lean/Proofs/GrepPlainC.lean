import DeltaModel.Grep
import Proofs.GrepLongest
/-! C16, fragment C: extension-less name free of separators. -/
namespace Grep

/-- A split whose left part ends in `.ext` and whose right part starts with a separator
cannot exist in `z ++ code` when `z` has no dot and `code` no `.ext`-sep look-alike. -/
theorem noext_dot_absurd {req : Bool} {z code A ext v' : List Char}
    (hz : z.contains '.' = false) (hcode : hasSepLookAlike 10 code = false)
    (heq : z ++ code = (A ++ '.' :: ext) ++ v')
    (hext : ext.all extOk = true) (h1 : 1 ≤ ext.length) (h2 : ext.length ≤ 10)
    (hv : (parseSep req v').isSome = true) : False := by
  obtain ⟨r, hr⟩ := Option.isSome_iff_exists.mp hv
  obtain ⟨t, rest, rfl, ht⟩ := parseSep_some_head hr
  have heq' : z ++ code = A ++ '.' :: (ext ++ t :: rest) := by
    rw [heq]; simp [List.append_assoc]
  obtain ⟨a', _, hc⟩ := append_eq_append_dot hz heq'
  have := hasSepLookAlike_intro 10 a' ext rest t hext h1 h2 ht
  rw [← hc, hcode] at this
  exact Bool.noConfusion this

theorem noext_variant_none (v : Variant) (hv : v ≠ .noSep) {z code : List Char}
    (hz : z.contains '.' = false) (hcode : hasSepLookAlike 10 code = false) :
    parseVariant v (z ++ code) = none := by
  unfold parseVariant
  rw [longest_none]
  · rfl
  · intro u' v' heq hPQ
    obtain ⟨hP, hQ⟩ := hPQ
    rw [List.nil_append] at hP
    cases v with
    | noSep => exact hv rfl
    | extNum =>
      obtain ⟨c0, mid, e, ext, rfl, _, _, _, hext, hlo, hhi⟩ := extPathOk_elim hP
      have hlo' : 1 ≤ ext.length := hlo
      have hhi' : ext.length ≤ 10 := hhi
      refine noext_dot_absurd (A := c0 :: (mid ++ [e])) hz hcode ?_ hext hlo' hhi' hQ
      rw [heq]; simp [List.append_assoc]
    | ext =>
      obtain ⟨c0, mid, e, ext, rfl, _, _, _, hext, hlo, hhi⟩ := extPathOk_elim hP
      have hlo' : 1 ≤ ext.length := hlo
      have hhi' : ext.length ≤ 10 := hhi
      refine noext_dot_absurd (A := c0 :: (mid ++ [e])) hz hcode ?_ hext hlo' hhi' hQ
      rw [heq]; simp [List.append_assoc]
    | extNoSpaces =>
      obtain ⟨body, e, ext, rfl, _, _, _, hext, hlo, hhi⟩ := noSpacePathOk_elim hP
      have hlo' : 1 ≤ ext.length := hlo
      have hhi' : ext.length ≤ 6 := hhi
      refine noext_dot_absurd (A := body ++ [e]) hz hcode ?_ hext hlo' (by omega) hQ
      rw [heq]; simp [List.append_assoc]

theorem noext_longest (path v : List Char) (s : Char) (b : Kind × Option (List Char) × List Char)
    (hpath : noSepPathOk path = true) (hsep : isSepChar s = true)
    (hQ : parseSep false (s :: v) = some b)
    (hno : (parseSep false v).isSome = true → lastOkNoSep s = false) :
    longest noSepPathOk (parseSep false) [] (path ++ s :: v) = some (path, b) := by
  have hmax : ∀ u' v', path ++ s :: v = u' ++ v' → path.length < u'.length →
      ¬ (noSepPathOk ([] ++ u') = true ∧ (parseSep false v').isSome = true) := by
    intro u' v' heq hlen hPQ
    obtain ⟨hP, hQ'⟩ := hPQ
    rw [List.nil_append] at hP
    rcases List.append_eq_append_iff.mp heq with ⟨a', hu, hv⟩ | ⟨c', hp, _⟩
    · subst hu
      cases a' with
      | nil => simp at hlen
      | cons s' w0 =>
        simp only [List.cons_append, List.cons.injEq] at hv
        obtain ⟨rfl, hv⟩ := hv
        obtain ⟨c0, mid, e, hu', _, hmid', hlast⟩ := noSepPathOk_elim hP
        obtain ⟨p0, pm, pe, rfl, _, _, _⟩ := noSepPathOk_elim hpath
        simp only [List.cons_append, List.cons.injEq] at hu'
        obtain ⟨_, hu'⟩ := hu'
        rcases List.eq_nil_or_concat w0 with rfl | ⟨w0', x, rfl⟩
        · -- `u' = path ++ [s]`
          have h2 : (pm ++ [pe]) ++ [s] = mid ++ [e] := by
            rw [← hu']
          obtain ⟨_, he⟩ := List.append_inj' h2 rfl
          simp only [List.cons.injEq, and_true] at he
          subst he
          simp only [List.nil_append] at hv
          subst hv
          rw [hno hQ'] at hlast
          exact Bool.noConfusion hlast
        · have h2 : (pm ++ [pe] ++ s :: w0') ++ [x] = mid ++ [e] := by
            rw [← hu']; simp [List.append_assoc]
          obtain ⟨hm, _⟩ := List.append_inj' h2 rfl
          have hsm : s ∈ mid := by rw [← hm]; simp
          have := List.all_eq_true.mp hmid' s hsm
          rw [midOkNoSep_of_isSepChar hsep] at this
          exact Bool.noConfusion this
    · subst hp
      simp at hlen
      omega
  have := longest_some noSepPathOk (parseSep false) [] path (s :: v) b
    (by simpa using hpath) hQ hmax
  simpa using this

theorem parsePlain_of_noSep {z code : List Char} {r : Parsed}
    (hz : z.contains '.' = false) (hcode : hasSepLookAlike 10 code = false)
    (hr : parseVariant .noSep (z ++ code) = some r) :
    parsePlain (z ++ code) = some r := by
  unfold parsePlain
  rw [plainVariants_eq]
  simp only [List.findSome?, noext_variant_none .extNum (by decide) hz hcode,
    noext_variant_none .extNoSpaces (by decide) hz hcode,
    noext_variant_none .ext (by decide) hz hcode, hr]

theorem parsePlain_noext (p : Parsed) (h : fragNoExt p = true) :
    parsePlain (fmtPlain p) = some p := by
  obtain ⟨path, kind, digits, code⟩ := p
  unfold fragNoExt at h
  simp only [Bool.and_eq_true, Bool.not_eq_true'] at h
  obtain ⟨⟨⟨⟨⟨⟨hk, hpath⟩, _⟩, hdot⟩, hcode⟩, hla⟩, hd⟩ := h
  have hla' : hasSepLookAlike 10 code = false := hla
  obtain ⟨s, hs, hks, hsep, hmatch⟩ := sep_of_textKind hk
  have hsdot : s ≠ '.' := by
    rcases isSepChar_cases hsep with rfl | rfl | rfl <;> decide
  cases digits with
  | some ds =>
    simp only at hd
    obtain ⟨⟨d0, dt, hds⟩, hdall⟩ := digitsOk_spec ds hd
    have hfmt : fmtPlain ⟨path, kind, some ds, code⟩ = (path ++ s :: (ds ++ [s])) ++ code := by
      unfold fmtPlain
      simp [hs, List.append_assoc]
    have hz : (path ++ s :: (ds ++ [s])).contains '.' = false := by
      rw [Bool.eq_false_iff]
      intro hc
      simp only [List.contains_eq_mem, List.mem_append, List.mem_cons, List.not_mem_nil,
        or_false, decide_eq_true_eq] at hc
      rcases hc with hc | hc | hc | hc
      · have : path.contains '.' = true := by simp [hc]
        rw [hdot] at this; exact Bool.noConfusion this
      · exact hsdot hc.symm
      · exact isDigit_ne_dot (hdall _ hc) rfl
      · exact hsdot hc.symm
    rw [hfmt]
    apply parsePlain_of_noSep hz hla'
    have hQ := parseSep_numbered false s kind ds code hks hd hcode
    have hl := noext_longest path (ds ++ s :: code) s (kind, some ds, code) hpath hsep hQ (by
      intro hsome
      obtain ⟨r, hr⟩ := Option.isSome_iff_exists.mp hsome
      obtain ⟨t, rest, ht, htsep⟩ := parseSep_some_head hr
      subst hds
      simp only [List.cons_append, List.cons.injEq] at ht
      obtain ⟨rfl, _⟩ := ht
      have h1 := hdall d0 (by simp)
      rw [isDigit_of_isSepChar htsep] at h1
      exact Bool.noConfusion h1)
    unfold parseVariant
    have e : (path ++ s :: (ds ++ [s])) ++ code = path ++ s :: (ds ++ s :: code) := by
      simp [List.append_assoc]
    rw [e]
    show Option.map mkParsed (longest noSepPathOk (parseSep false) [] _) = _
    rw [hl]
    rfl
  | none =>
    simp only [hs, Bool.and_eq_true, Bool.not_eq_true', Bool.or_eq_true, beq_iff_eq] at hd
    obtain ⟨hnum, hstart⟩ := hd
    have hfmt : fmtPlain ⟨path, kind, none, code⟩ = (path ++ [s]) ++ code := by
      unfold fmtPlain
      simp [hs, List.append_assoc]
    have hz : (path ++ [s]).contains '.' = false := by
      rw [Bool.eq_false_iff]
      intro hc
      simp only [List.contains_eq_mem, List.mem_append, List.mem_cons, List.not_mem_nil,
        or_false, decide_eq_true_eq] at hc
      rcases hc with hc | hc
      · have : path.contains '.' = true := by simp [hc]
        rw [hdot] at this; exact Bool.noConfusion this
      · exact hsdot hc.symm
    rw [hfmt]
    apply parsePlain_of_noSep hz hla'
    have hQ := parseSep_unnumbered s kind code hks hnum hcode
    have hl := noext_longest path code s (kind, none, code) hpath hsep hQ (by
      intro hsome
      obtain ⟨r, hr⟩ := Option.isSome_iff_exists.mp hsome
      obtain ⟨t, rest, ht, htsep⟩ := parseSep_some_head hr
      subst ht
      rcases hstart with hm | hns
      · have := hmatch.mp hm
        subst this
        decide
      · simp only at hns
        rw [htsep] at hns
        exact Bool.noConfusion hns)
    unfold parseVariant
    have e : (path ++ [s]) ++ code = path ++ s :: code := by
      simp [List.append_assoc]
    rw [e]
    show Option.map mkParsed (longest noSepPathOk (parseSep false) [] _) = _
    rw [hl]
    rfl

end Grep
