import Proofs.GitParamsScan
import DeltaModel.Options
/-!
`GitParams`: the reader never reaches the panicking `captures[i]` (`scan_never_panics`), and the map it builds hands
`Options.GitCfg` the value of the LAST pair with a given key (`toParams_last_wins`).
-/
namespace GitParams
open Generated.GitParams

/-- Every match has one of the two group patterns the `match` of `parse_config_from_env_var_value` names. -/
theorem matchAt_groups {t : List Char} {m : Match} (h : matchAt t = some m) :
    (∃ k v, m.groups = [some k, some v, none, none]) ∨ (∃ k v, m.groups = [none, none, some k, some v]) := by
  unfold matchAt at h
  split at h
  · split at h
    · cases h
    · simp only at h
      split at h
      · cases h
      · split at h
        · split at h
          · cases h; exact Or.inl ⟨_, _, rfl⟩
          · cases h
        · split at h
          · cases h; exact Or.inr ⟨_, _, rfl⟩
          · cases h
        · cases h
  · cases h

theorem pairOf_isSome {t : List Char} {m : Match} (h : matchAt t = some m) : (pairOf m).isSome = true := by
  obtain ⟨w, g⟩ := m
  rcases matchAt_groups h with ⟨k, v, hg⟩ | ⟨k, v, hg⟩
  · simp only at hg; subst hg; rw [pairOf_old]; rfl
  · simp only at hg; subst hg; rw [pairOf_new]; rfl

theorem allSome_cons_isSome {α : Type} (a : Option α) (l : List (Option α))
    (ha : a.isSome = true) (hl : (allSome l).isSome = true) : (allSome (a :: l)).isSome = true := by
  cases a with
  | none => cases ha
  | some x => simp only [allSome, Option.isSome_map]; exact hl

theorem scanAux_never_panics (t : List Char) (n : Nat) : (allSome (scanAux t n)).isSome = true := by
  induction t generalizing n with
  | nil => rfl
  | cons c cs ih =>
    cases n with
    | succ n => simpa [scanAux] using ih n
    | zero =>
      simp only [scanAux]
      split
      · rename_i m hm
        exact allSome_cons_isSome _ _ (pairOf_isSome hm) (ih _)
      · exact ih 0

/-- `parse_config_from_env_var_value` cannot panic: whatever the variable holds, every match selects an arm whose
    two groups took part in it. -/
theorem scan_never_panics (s : String) : (parsePairs s).isSome = true := by
  simp only [parsePairs, Option.isSome_map]
  exact scanAux_never_panics _ 0

/-! ## The map -/

theorem strip_delta {p : String} {k : List Char} (h : stripPrefix "delta.".toList p.toList = some k) :
    p = "delta." ++ String.ofList k := by
  have := stripPrefix_some h
  apply String.toList_inj.mp
  simp [this]

theorem lookup_filterMap_skip (o : String) (qs : List (String × String)) (rest : List (String × String))
    (hq : ∀ p ∈ qs, p.1 ≠ "delta." ++ o) :
    Options.lookup o ((qs ++ rest).filterMap fun p =>
        (stripPrefix "delta.".toList p.1.toList).map fun k => (String.ofList k, p.2)) =
      Options.lookup o (rest.filterMap fun p =>
        (stripPrefix "delta.".toList p.1.toList).map fun k => (String.ofList k, p.2)) := by
  induction qs with
  | nil => rfl
  | cons q qs ih =>
    have ih' := ih (fun p hp => hq p (by simp [hp]))
    simp only [List.cons_append, List.filterMap_cons]
    cases hs : stripPrefix "delta.".toList q.1.toList with
    | none => simpa using ih'
    | some k =>
      have hne : String.ofList k ≠ o := by
        intro e
        apply hq q (by simp)
        rw [strip_delta hs, e]
      simp only [Option.map_some, Options.lookup, hne, if_false]
      exact ih'

/-- Later occurrences override earlier ones: the option `o` is looked up as the value of the LAST pair whose key is
    `delta.<o>`. -/
theorem toParams_last_wins (ps qs : List (String × String)) (o v : String)
    (hq : ∀ p ∈ qs, p.1 ≠ "delta." ++ o) :
    Options.lookup o (toParams (ps ++ ("delta." ++ o, v) :: qs)) = some v := by
  unfold toParams
  rw [List.reverse_append, List.reverse_cons, List.append_assoc,
    lookup_filterMap_skip o qs.reverse _ (fun p hp => hq p (by simpa using hp))]
  have : stripPrefix "delta.".toList ("delta." ++ o).toList = some o.toList := by
    rw [String.toList_append]; exact stripPrefix_append _ _
  simp only [List.singleton_append, List.filterMap_cons, this, Option.map_some, Options.lookup,
    String.ofList_toList, if_true]

/-- A key that occurs nowhere is not set. -/
theorem toParams_absent (ps : List (String × String)) (o : String) (hq : ∀ p ∈ ps, p.1 ≠ "delta." ++ o) :
    Options.lookup o (toParams ps) = none := by
  unfold toParams
  have := lookup_filterMap_skip o ps.reverse [] (fun p hp => hq p (by simpa using hp))
  simpa [Options.lookup] using this

end GitParams
