import DeltaModel.PairThresholds
/-!
Lemmas about `DeltaModel/PairThresholds.lean` (C06): what the generated expression trees evaluate to, and the
pairing test on `Q` thresholds against the one of the `infer_edits` model. Core tactics only; `decide` only on the
generated tables.
-/
set_option linter.unusedVariables false
namespace PairThresholds
open Generated.PairThresholds Edits

/-- The generated trees, as they are on the unchanged source: the caller passes the two `Config` fields as they
are, `Config::from` copies `opt.max_line_distance` and reads the naive threshold from the environment variable
(0 when unset or unparseable). -/
theorem generated_trees :
    inferMaxArg = .field "config" "max_line_distance" ∧
    inferNaiveArg = .field "config" "max_line_distance_for_naively_paired_lines" ∧
    configThresholdFields.lookup "max_line_distance" = some (.field "opt" "max_line_distance") ∧
    configThresholdFields.lookup "max_line_distance_for_naively_paired_lines" =
      some (.envParse "experimental_max_line_distance_for_naively_paired_lines" (.lit 0 1) (.lit 0 1)) := by
  decide

theorem configValue_max (inp : Inputs) : configValue inp "max_line_distance" = some inp.maxLineDistance := by
  unfold configValue
  rw [generated_trees.2.2.1]
  simp [eval, optField]

theorem configValue_naive (inp : Inputs) :
    configValue inp "max_line_distance_for_naively_paired_lines" = some (naiveOf inp.naiveEnv) := by
  unfold configValue
  rw [generated_trees.2.2.2]
  simp only [Option.bind_some, eval, envField, if_true]
  cases inp.naiveEnv <;> simp [naiveOf, Q.zero]

/-- The thresholds `infer_edits` is called with are the configured ones. -/
theorem effective_eq (inp : Inputs) : effective inp = some (inp.maxLineDistance, naiveOf inp.naiveEnv) := by
  unfold effective
  rw [generated_trees.1, generated_trees.2.1]
  simp [eval, cfgField, configValue_max, configValue_naive]

theorem configuredCfg_spec (inp : Inputs) (del ins : Tag) (cfg : Cfg) (h : configuredCfg inp del ins = .ok cfg) :
    cfg.del = del ∧ cfg.ins = ins ∧
    (cfg.maxNum : Int) = inp.maxLineDistance.num ∧ cfg.maxDen = inp.maxLineDistance.den ∧
    (cfg.naiveNum : Int) = (naiveOf inp.naiveEnv).num ∧ cfg.naiveDen = (naiveOf inp.naiveEnv).den := by
  unfold configuredCfg at h
  rw [effective_eq] at h
  simp only [cfgOf] at h
  split at h
  · rename_i hnn
    injection h with h
    subst h
    refine ⟨rfl, rfl, ?_, rfl, ?_, rfl⟩
    · exact Int.toNat_of_nonneg hnn.1
    · exact Int.toNat_of_nonneg hnn.2
  · cases h

theorem configuredCfg_total (inp : Inputs) (del ins : Tag)
    (h1 : 0 ≤ inp.maxLineDistance.num) (h2 : 0 ≤ (naiveOf inp.naiveEnv).num) :
    ∃ cfg, configuredCfg inp del ins = .ok cfg := by
  unfold configuredCfg
  rw [effective_eq]
  simp [cfgOf, h1, h2]

/-- On non-negative thresholds the test on `Q` is the test of the `infer_edits` model. -/
theorem withinQ_eq (strict : Bool) (numer denom : Nat) (t : Q) (k : Nat) (hk : (k : Int) = t.num) :
    withinQ strict numer denom t = distanceWithin strict numer denom k t.den := by
  unfold withinQ distanceWithin
  rw [← hk]
  cases strict <;> simp only [Bool.false_eq_true, if_false, if_true] <;> split <;> norm_cast

end PairThresholds
