import Proofs.SuperimposeLifetime
/-!
Helper lemmas for C15: the lines of a file section that are still buffered when the next file's `--- ` line
arrives expect (and, by `run_inv`, get) the language of their own file. Core Lean only.
-/
namespace Superimpose.Lifetime
open Generated.SuperimposeLifetime

variable {σ : Type}

theorem paintBuf_expected (c : σ) (hl : Option (Hl σ)) (buf : List (Hl σ)) (h : ∀ e ∈ buf, e.1 = c) :
    ∀ p ∈ (paintBuf hl buf).2, p.expected.1 = c ∧ p.kind = .line := by
  induction buf generalizing hl with
  | nil => simp [paintBuf]
  | cons e rest ih =>
    intro p hp
    simp only [paintBuf, List.mem_cons] at hp
    rcases hp with rfl | hp
    · exact ⟨h e List.mem_cons_self, rfl⟩
    · exact ih (feed hl) (fun x hx => h x (List.mem_cons_of_mem _ hx)) p hp

/-- A handler statement list without a fragment painter paints only buffered lines. -/
theorem execStmts_expected (lang : Option (List Char) → σ) (c : σ) (l : List (Guard × Stmt))
    (hl : ∀ x ∈ l, x.2 ≠ .paintFragment) (s : State σ) (hb : ∀ e ∈ s.buffered, e.1 = c) :
    ∀ p ∈ (execStmts lang s l).2, p.expected.1 = c ∧ p.kind = .line := by
  induction l generalizing s with
  | nil => simp [execStmts]
  | cons x rest ih =>
    obtain ⟨g, st⟩ := x
    have hrest : ∀ y ∈ rest, y.2 ≠ .paintFragment := fun y hy => hl y (List.mem_cons_of_mem _ hy)
    have hst : st ≠ .paintFragment := hl (g, st) List.mem_cons_self
    simp only [execStmts]
    split
    · intro p hp
      rcases List.mem_append.mp hp with hp | hp
      · cases st with
        | setSyntax side src => cases side <;> cases src <;> simp [execStmt] at hp
        | paintBuffered => exact paintBuf_expected c _ _ hb p (by simpa [execStmt] using hp)
        | setHighlighter => simp [execStmt] at hp
        | paintFragment => exact absurd rfl hst
      · refine ih hrest _ ?_ p hp
        cases st with
        | setSyntax side src => cases side <;> cases src <;> simpa [execStmt] using hb
        | paintBuffered => simp [execStmt]
        | setHighlighter => simpa [execStmt] using hb
        | paintFragment => exact absurd rfl hst
    · exact ih hrest s hb

/-- Without a file header line in between, the current language and what the buffered lines expect stay. -/
theorem buffered_expect_cur (lang : Option (List Char) → σ) (evs : List Event) (s : State σ) (c : σ)
    (hcur : s.cur = c) (hbuf : ∀ e ∈ s.buffered, e.1 = c)
    (hnf : ∀ e ∈ evs, isFileEvent e = false) :
    (run lang s evs).1.cur = c ∧ ∀ e ∈ (run lang s evs).1.buffered, e.1 = c := by
  induction evs generalizing s with
  | nil => exact ⟨hcur, hbuf⟩
  | cons e rest ih =>
    have hrest : ∀ x ∈ rest, isFileEvent x = false := fun x hx => hnf x (List.mem_cons_of_mem _ hx)
    have he := hnf e List.mem_cons_self
    have hov : hunkHeaderStmts = [(.always, .paintBuffered), (.always, .setHighlighter),
        (.always, .paintFragment), (.always, .setHighlighter)] := by decide
    simp only [run]
    cases e with
    | fileMinus n mk => simp [isFileEvent] at he
    | filePlus n mk => simp [isFileEvent] at he
    | hunkHeader =>
      refine ih _ ?_ ?_ hrest
      · simpa [step, hov, execStmts, evalGuard, execStmt] using hcur
      · simp [step, hov, execStmts, evalGuard, execStmt]
    | changedLine fl =>
      cases fl with
      | false =>
        refine ih _ ?_ ?_ hrest
        · simpa [step] using hcur
        · intro x hx
          simp only [step, Bool.false_eq_true, if_false, List.mem_append, List.mem_singleton] at hx
          rcases hx with hx | hx
          · exact hbuf x hx
          · subst hx; exact hcur
      | true =>
        refine ih _ ?_ ?_ hrest
        · simpa [step, execStmt] using hcur
        · intro x hx
          simp only [step, if_true, execStmt, List.nil_append, List.mem_singleton] at hx
          subst hx; exact hcur
    | contextLine =>
      refine ih _ ?_ ?_ hrest
      · simpa [step, execStmt] using hcur
      · simp [step, execStmt]
    | flush =>
      refine ih _ ?_ ?_ hrest
      · simpa [step, execStmt] using hcur
      · simp [step, execStmt]

theorem run_append_out (lang : Option (List Char) → σ) (s : State σ) (a b : List Event) :
    (run lang s (a ++ b)).2 = (run lang s a).2 ++ (run lang (run lang s a).1 b).2 := by
  induction a generalizing s with
  | nil => simp [run]
  | cons e rest ih => simp [run, ih, List.append_assoc]

theorem run_append_state (lang : Option (List Char) → σ) (s : State σ) (a b : List Event) :
    (run lang s (a ++ b)).1 = (run lang (run lang s a).1 b).1 := by
  induction a generalizing s with
  | nil => simp [run]
  | cons e rest ih => simp [run, ih]

/-- The language of a file section: that of the new name, or of the old name for a deleted file. -/
def sectionLang (lang : Option (List Char) → σ) (minus plus : Option (List Char)) : σ :=
  if plus.isSome then lang plus else lang minus

/-- **A whole file section up to and including the next file's `--- ` line**: whatever preceded (`s`: any state
satisfying the invariant), for git and for plain `diff -u` input (`u`), every element painted after the header
lines `--- m` / `+++ p` — the hunk-header fragments, the hunk lines, and the lines that are still buffered when
the next file's `--- n` line arrives and are flushed by it, after `set_syntax(n)` has already run — goes
through a highlighter created for the language of `m` / `p`, whatever `n` is. -/
theorem section_language (lang : Option (List Char) → σ) (u : Bool) (s : State σ)
    (hs : Inv u .start s) (m p mkm mkp n mkn : Option (List Char)) (body : List Event)
    (hnf : ∀ e ∈ body, isFileEvent e = false)
    (hw : wf u .start (.fileMinus m mkm :: .filePlus p mkp :: (body ++ [.fileMinus n mkn])) = true) :
    ∀ q ∈ (run lang (run lang s [.fileMinus m mkm, .filePlus p mkp]).1 (body ++ [.fileMinus n mkn])).2,
      ∃ k, q.used = some (sectionLang lang m p, k) ∧ (q.kind = .fragment → k = 0) := by
  rw [wf_cons, Bool.and_eq_true] at hw
  obtain ⟨ha1, hw⟩ := hw
  rw [wf_cons, Bool.and_eq_true] at hw
  obtain ⟨ha2, hw⟩ := hw
  obtain ⟨_, i1⟩ := step_inv lang u .start s (.fileMinus m mkm) hs ha1
  obtain ⟨_, i2⟩ := step_inv lang u _ _ (.filePlus p mkp) i1 ha2
  have hs1 : (run lang s [.fileMinus m mkm, .filePlus p mkp]).1 =
      (step lang (step lang s (.fileMinus m mkm)).1 (.filePlus p mkp)).1 := by simp [run]
  have cur_stmts : ∀ (t : State σ) (l : List (Guard × Stmt)), (execStmts lang t l).1.cur = t.cur := by
    intro t l
    induction l generalizing t with
    | nil => rfl
    | cons x rest ih =>
      obtain ⟨g, st⟩ := x
      simp only [execStmts]
      split
      · rw [ih]; cases st <;> try rfl
        rename_i side src; cases side <;> cases src <;> rfl
      · exact ih t
  have hcur : (run lang s [.fileMinus m mkm, .filePlus p mkp]).1.cur = sectionLang lang m p := by
    rw [hs1]
    simp only [step, cur_stmts, sectionLang]
  have hpl : plusHeaderStmts = [(.ifPlusNotDevNull, .setSyntax .plus .parsedPath),
      (.always, .paintBuffered)] := by decide
  have hbuf : (run lang s [.fileMinus m mkm, .filePlus p mkp]).1.buffered = [] := by
    rw [hs1]
    cases p <;> simp [step, hpl, execStmts, evalGuard, execStmt]
  have hnext : next (next Phase.start (.fileMinus m mkm)) (.filePlus p mkp) = .header := rfl
  rw [hnext] at hw i2
  intro q hq
  have hok := run_inv lang u (body ++ [.fileMinus n mkn]) .header _ (by rw [hs1]; exact i2) hw q hq
  rw [run_append_out] at hq
  simp only [List.mem_append] at hq
  rcases hq with hq | hq
  · obtain ⟨e1, e2⟩ := expected_is_cur lang body _ (sectionLang lang m p) hcur
      (by rw [hbuf]; intro e he; cases he) hnf q hq
    exact ⟨q.expected.2, by rw [hok, ← e1], e2⟩
  · obtain ⟨c1, c2⟩ := buffered_expect_cur lang body _ (sectionLang lang m p) hcur
      (by rw [hbuf]; intro e he; cases he) hnf
    have hmn : ∀ x ∈ minusHeaderStmts, x.2 ≠ Stmt.paintFragment := by decide
    generalize (run lang (run lang s [.fileMinus m mkm, .filePlus p mkp]).1 body).1 = S at hq c1 c2
    simp only [run, List.append_nil, step] at hq
    obtain ⟨e1, e2⟩ := execStmts_expected lang (sectionLang lang m p) minusHeaderStmts hmn
      { S with minusName := n, minusMarker := mkn, cur := lang n } c2 q hq
    exact ⟨q.expected.2, by rw [hok, ← e1], fun hk => by rw [e2] at hk; cases hk⟩

end Superimpose.Lifetime
