import DeltaModel.Startup
import Proofs.StartupExpr
/-!
Lemmas for `Props/C03.lean` (task T9): which option values can make delta panic before the first input
line is read. All statements are for ALL strings / numbers; the generated arithmetic enters through
`range` (interval evaluation, `Proofs/StartupExpr.lean`).
-/
namespace Startup
open Generated.Startup

/-! ### parsing -/

theorem parseUsize_le {s : Str} {n : Nat} (h : parseUsize s = some n) : n ≤ usizeMax := by
  unfold parseUsize at h
  simp only at h
  split at h
  · split at h
    · simp only [Option.some.injEq] at h; omega
    · cases h
  · cases h

theorem parseIsize_range {s : Str} {v : Int} (h : parseIsize s = some v) :
    -((isizeMax : Int) + 1) ≤ v ∧ v ≤ (isizeMax : Int) := by
  unfold parseIsize at h
  split at h
  · split at h
    · split at h
      · simp only [Option.some.injEq] at h; omega
      · cases h
    · cases h
  · split at h
    · split at h
      · simp only [Option.some.injEq] at h; omega
      · cases h
    · cases h
  · split at h
    · split at h
      · simp only [Option.some.injEq] at h; omega
      · cases h
    · cases h

/-- a number whose text does not start with `-` is not negative -/
theorem parseIsize_nonneg {s : Str} {v : Int} (hd : ∀ r, s ≠ '-' :: r) (h : parseIsize s = some v) : 0 ≤ v := by
  unfold parseIsize at h
  split at h
  · exact absurd rfl (hd _)
  · split at h
    · split at h
      · simp only [Option.some.injEq] at h; omega
      · cases h
    · cases h
  · split at h
    · split at h
      · simp only [Option.some.injEq] at h; omega
      · cases h
    · cases h

theorem parseSigned_some {b : Bool} {w : Str} {v : Int} (h : parseSigned b w = some v) :
    parseIsize (w.filter fun c => !widthRemoved.contains c) = some v ∧ (b && isPositive v) = false := by
  unfold parseSigned at h
  split at h
  · cases h
  · rename_i v' hp
    by_cases hc : (b && isPositive v') = true
    · rw [if_pos hc] at h; cases h
    · rw [if_neg hc] at h
      simp only [Option.some.injEq] at h
      subst h
      exact ⟨hp, by simpa using hc⟩

theorem parseSigned_range {b : Bool} {w : Str} {v : Int} (h : parseSigned b w = some v) :
    -((isizeMax : Int) + 1) ≤ v ∧ v ≤ (isizeMax : Int) := parseIsize_range (parseSigned_some h).1

/-- with `must_be_negative` the value is never positive -/
theorem parseSigned_true_nonpos {w : Str} {v : Int} (h : parseSigned true w = some v) : v ≤ 0 := by
  have hp := (parseSigned_some h).2
  simp only [Bool.true_and] at hp
  unfold isPositive at hp
  split at hp
  · simp only [decide_eq_false_iff_not] at hp; omega
  · simp only [decide_eq_false_iff_not] at hp; omega

/-- text without the dash character parses to a non-negative number -/
theorem parseSigned_nonneg_of_no_dash {b : Bool} {w : Str} {v : Int} (hw : ∀ c ∈ w, c ≠ '-')
    (h : parseSigned b w = some v) : 0 ≤ v := by
  refine parseIsize_nonneg ?_ (parseSigned_some h).1
  intro r hr
  have : '-' ∈ List.filter (fun c => !widthRemoved.contains c) w := by rw [hr]; simp
  exact hw '-' (List.mem_filter.mp this).1 rfl

theorem toUsize_le {v : Int} {n : Nat} (hv : v ≤ (isizeMax : Int)) (h : toUsize v = some n) : n ≤ isizeMax := by
  unfold toUsize at h
  split at h
  · simp only [Option.some.injEq] at h; omega
  · cases h

theorem addIsize_ok {a b : Int} (h1 : -((isizeMax : Int) + 1) ≤ a + b) (h2 : a + b ≤ (isizeMax : Int)) :
    addIsize a b = .ok (a + b) := by
  unfold addIsize; rw [if_pos ⟨h1, h2⟩]

theorem asIsize_small {n : Nat} (h : n ≤ isizeMax) : asIsize n = (n : Int) := by
  unfold asIsize; rw [if_pos h]

/-! ### `--width` -/

theorem dash_is_minus : widthDash = '-' := by decide

theorem split_fst_no_dash (d : Char) (a : Str) : ∀ c ∈ (splitAtChar d a).1, c ≠ d := by
  induction a with
  | nil => intro c hc; simp [splitAtChar] at hc
  | cons x xs ih =>
    intro c hc
    unfold splitAtChar at hc
    split at hc
    · simp at hc
    · rename_i hne
      simp only [List.mem_cons] at hc
      rcases hc with rfl | hc
      · exact hne
      · exact ih c hc

theorem split_snd_nil (d : Char) (a : Str) (h : (splitAtChar d a).2 = []) : ∀ c ∈ a, c ≠ d := by
  induction a with
  | nil => intro c hc; cases hc
  | cons x xs ih =>
    intro c hc
    unfold splitAtChar at h
    split at h
    · cases h
    · rename_i hne
      simp only [List.mem_cons] at hc
      rcases hc with rfl | hc
      · exact hne
      · exact ih h c hc

/-- **`--width`: no string makes `parse_width_specifier` panic** (terminal widths are `u16`; the hypothesis
`tw ≤ isize::MAX` is what `terminal_width as isize` needs) — and what it returns fits `isize`. -/
theorem parseWidthSpecifier_total (arg : Str) (tw : Nat) (htw : tw ≤ isizeMax) :
    (∃ n, parseWidthSpecifier arg tw = .ok n ∧ n ≤ isizeMax) ∨ parseWidthSpecifier arg tw = .error badWidth := by
  unfold parseWidthSpecifier
  simp only
  generalize (if widthTrims = true then trim arg else arg) = a
  split
  · -- no dash
    rename_i l hsp
    have hnd : ∀ c ∈ a, c ≠ '-' := by
      have := split_snd_nil widthDash a (by rw [hsp])
      rwa [dash_is_minus] at this
    split
    · exact .inr rfl
    · rename_i v hv
      have hnn : 0 ≤ v := parseSigned_nonneg_of_no_dash hnd hv
      have hr := parseSigned_range hv
      split
      · rename_i n hn
        exact .inl ⟨n, rfl, toUsize_le hr.2 hn⟩
      · rename_i hn
        unfold toUsize at hn
        rw [if_pos hnn] at hn
        cases hn
  · -- relative
    split
    · exact .inr rfl
    · rename_i v hv
      have h0 : widthRelativeMustBeNegative = true := by decide
      rw [h0] at hv
      have hle := parseSigned_true_nonpos hv
      have hr := parseSigned_range hv
      rw [asIsize_small htw, addIsize_ok (by omega) (by omega)]
      simp only
      split
      · rename_i n hn
        exact .inl ⟨n, rfl, toUsize_le (by omega) hn⟩
      · rw [if_pos (by decide)]; exact .inr rfl
  · -- A-B
    rename_i l r hne1 hne2 hsplit
    split
    · exact .inr rfl
    · rename_i x hx
      split
      · exact .inr rfl
      · rename_i y hy
        have h0 : widthRightMustBeNegative = true := by decide
        rw [h0] at hy
        have hyle := parseSigned_true_nonpos hy
        have hyr := parseSigned_range hy
        have hxr := parseSigned_range hx
        have hxnn : 0 ≤ x := by
          refine parseSigned_nonneg_of_no_dash ?_ hx
          have := split_fst_no_dash widthDash a
          rw [hsplit, dash_is_minus] at this
          exact this
        rw [addIsize_ok (by omega) (by omega)]
        simp only
        split
        · rename_i n hn
          exact .inl ⟨n, rfl, toUsize_le (by omega) hn⟩
        · exact .inr rfl

theorem setWidths_total (width : Option Str) (tw : Nat) (htw : tw ≤ isizeMax) :
    (∃ w, setWidths width tw = .ok w ∧ ∀ n, w = .fixed n → n ≤ isizeMax) ∨ setWidths width tw = .error badWidth := by
  unfold setWidths
  split
  · exact .inl ⟨_, rfl, by intro n h; cases h; exact htw⟩
  · rename_i w
    split
    · exact .inl ⟨_, rfl, by intro n h; cases h⟩
    · rcases parseWidthSpecifier_total w tw htw with ⟨n, hn, hle⟩ | he
      · rw [hn]; exact .inl ⟨_, rfl, by intro m h; cases h; exact hle⟩
      · rw [he]; exact .inr rfl

/-! ### `--wrap-max-lines` -/

theorem inEnv1 {v lo hi : Nat} (h1 : lo ≤ v) (h2 : v ≤ hi) : InEnv [v] [(lo, hi)] := ⟨h1, h2, trivial⟩

theorem inEnv3 {a b c la ha lb hb lc hc : Nat} (h1 : la ≤ a) (h2 : a ≤ ha) (h3 : lb ≤ b) (h4 : b ≤ hb)
    (h5 : lc ≤ c) (h6 : c ≤ hc) : InEnv [a, b, c] [(la, ha), (lb, hb), (lc, hc)] :=
  ⟨h1, h2, h3, h4, h5, h6, trivial⟩

/-- below `usize::MAX` the arithmetic on the parsed number cannot overflow -/
theorem wrapArith_ok_below_max : (range [(0, usizeMax - 1)] wrapMaxLinesArith).isSome = true := by decide

/-- `adapt_wrap_max_lines_argument` ends in one of three ways; a panic only for the text of `usize::MAX` -/
theorem adaptWrapMaxLines_cases (arg : Str) :
    (∃ n, adaptWrapMaxLines arg = .ok n) ∨ (∃ m, adaptWrapMaxLines arg = .error (.fatal m)) ∨
      parseUsize arg = some usizeMax := by
  unfold adaptWrapMaxLines
  split
  · exact .inl ⟨_, rfl⟩
  · split
    · exact .inr (.inl ⟨_, rfl⟩)
    · rename_i n hn
      have hle := parseUsize_le hn
      by_cases hmax : n = usizeMax
      · subst hmax; exact .inr (.inr hn)
      · obtain ⟨v, hv⟩ := eval_ok_of_range (inEnv1 (Nat.zero_le n) (by omega : n ≤ usizeMax - 1)) _ wrapArith_ok_below_max
        exact .inl ⟨v, hv⟩

/-- the value stored in `WrapConfig.max_lines` for a number below `B` is at most … (interval of the arithmetic) -/
theorem adaptWrapMaxLines_bound (arg : Str) (B hi : Nat) (hB : ∀ n, parseUsize arg = some n → n ≤ B)
    (hr : ∃ lo, range [(0, B)] wrapMaxLinesArith = some (lo, hi)) (hu : wrapMaxLinesUnlimited ≤ hi) :
    (∃ n, adaptWrapMaxLines arg = .ok n ∧ n ≤ hi) ∨ (∃ m, adaptWrapMaxLines arg = .error (.fatal m)) := by
  unfold adaptWrapMaxLines
  split
  · exact .inl ⟨_, rfl, hu⟩
  · split
    · exact .inr ⟨_, rfl⟩
    · rename_i n hn
      obtain ⟨lo, hr⟩ := hr
      obtain ⟨v, hv, _, h2⟩ := range_sound (inEnv1 (Nat.zero_le n) (hB n hn)) _ lo hi hr
      exact .inl ⟨v, hv, h2⟩

/-! ### `max_line_length` in side-by-side mode -/

theorem configMaxLineLength_ok {B W : Nat}
    (hr : rangeArms [(0, B), (0, usizeMax), (0, W)] configMaxLineLengthArms = true)
    (ml mll tw : Nat) (h1 : ml ≤ B) (h2 : mll ≤ usizeMax) (h3 : tw ≤ W) :
    ∃ v, configMaxLineLength ml mll tw = .ok v :=
  evalArms_ok_of_range (inEnv3 (Nat.zero_le _) h1 (Nat.zero_le _) h2 (Nat.zero_le _) h3) _ hr

/-! ### panels -/

theorem panelDiv_ok : (range [(0, usizeMax)] panelDivFixed).isSome = true ∧
    (range [(0, usizeMax)] panelDivVariable).isSome = true := by decide

/-- the right panel of an odd width: `w / 2 + 1` cannot overflow -/
theorem oddRight_ok : ∃ lo hi, range [(0, usizeMax)] panelDivFixed = some (lo, hi) ∧
    (range [(0, hi)] oddRightArith).isSome = true :=
  match h : range [(0, usizeMax)] panelDivFixed with
  | some (lo, hi) => ⟨lo, hi, rfl, by
      have : (range [(0, ((range [(0, usizeMax)] panelDivFixed).getD (0, usizeMax)).2)] oddRightArith).isSome = true := by decide
      rw [h] at this; exact this⟩
  | none => absurd h (by decide)

theorem panels_total (w : Width) (tw : Nat) (ansi : Bool) (hw : ∀ n, w = .fixed n → n ≤ usizeMax) (htw : tw ≤ usizeMax) :
    ∃ p0 p, newSbs w tw = .ok p0 ∧ sbsOddFix w ansi p0 = .ok p := by
  cases w with
  | «variable» =>
    obtain ⟨v, hv⟩ := eval_ok_of_range (inEnv1 (Nat.zero_le tw) htw) _ panelDiv_ok.2
    exact ⟨⟨v, v⟩, ⟨v, v⟩, by simp [newSbs, hv], by simp [sbsOddFix]⟩
  | fixed n =>
    obtain ⟨lo, hi, hr, hodd⟩ := oddRight_ok
    obtain ⟨v, hv, _, hvhi⟩ := range_sound (inEnv1 (Nat.zero_le n) (hw n rfl)) _ lo hi hr
    refine ⟨⟨v, v⟩, ?_⟩
    have h1 : newSbs (.fixed n) tw = .ok ⟨v, v⟩ := by simp [newSbs, hv]
    unfold sbsOddFix
    simp only
    by_cases ha : ansi = true
    · subst ha
      have hm : ¬ (oddModulus = 0) := by decide
      simp only [Bool.not_true, Bool.false_eq_true, if_false, hm]
      split
      · obtain ⟨r, hr'⟩ := eval_ok_of_range (inEnv1 (Nat.zero_le v) hvhi) _ hodd
        simp only [hr']
        exact ⟨_, h1, rfl⟩
      · exact ⟨_, h1, rfl⟩
    · simp only [Bool.not_eq_true] at ha
      subst ha
      exact ⟨_, h1, rfl⟩

/-! ### `--tabs` -/

theorem tabCfgNew_panics_iff (w : Nat) : isPanic (tabCfgNew w) = true ↔ isizeMax < w * tabUnitBytes := by
  unfold tabCfgNew
  split
  · simp only [isPanic]; constructor
    · intro h; cases h
    · intro h; omega
  · simp only [isPanic]; constructor
    · intro _; omega
    · intro _; trivial

/-! ### line-number formats: `fatal` at worst -/

theorem lineNumberFormat_not_panic (s : Str) : isPanic (lineNumberFormat s) = false := by
  unfold lineNumberFormat
  split <;> rfl

/-! ### the whole start-up -/

/-- **No panic before the first input line.** For every option text: if the terminal is at most `W` columns
wide, `--wrap-max-lines` (when it is a number) is at most `B`, and the tab replacement fits `isize`, then
start-up ends normally or with a clean refusal — provided the generated arithmetic passes the interval check
for exactly these bounds (`hwrap`, `hmll`: decided by evaluation in `Props/C03.lean`). -/
theorem startup_not_panic (o : Opts) (tw B hi W : Nat) (htwI : tw ≤ isizeMax) (htw : tw ≤ W)
    (hwid : ∀ n, setWidths o.width tw = .ok (.fixed n) → n ≤ W)
    (hB : ∀ n, parseUsize o.wrapMaxLines = some n → n ≤ B)
    (hwrap : ∃ lo, range [(0, B)] wrapMaxLinesArith = some (lo, hi)) (hu : wrapMaxLinesUnlimited ≤ hi)
    (hmll : rangeArms [(0, hi), (0, usizeMax), (0, W)] configMaxLineLengthArms = true)
    (hm : o.maxLineLength ≤ usizeMax) (htabs : o.tabs * tabUnitBytes ≤ isizeMax) :
    isPanic (startup o tw) = false := by
  have hi64 : isizeMax ≤ usizeMax := by decide
  unfold startup
  rcases setWidths_total o.width tw htwI with ⟨w, hw, hwle⟩ | he
  · have hwW : maxLineLengthWidthArg w.fixed? tw ≤ W := by
      unfold maxLineLengthWidthArg
      split
      · cases w with
        | fixed n => exact hwid n hw
        | «variable» => exact htw
      · exact htw
    rw [hw]; simp only
    rcases adaptWrapMaxLines_bound o.wrapMaxLines B hi hB hwrap hu with ⟨ml, hml, hmlle⟩ | ⟨m, hm'⟩
    · rw [hml]; simp only
      split
      · rename_i e he; have := lineNumberFormat_not_panic o.lnLeft; rw [he] at this; cases e <;> first | rfl | exact absurd this (by simp [isPanic])
      · split
        · rename_i e he; have := lineNumberFormat_not_panic o.lnRight; rw [he] at this; cases e <;> first | rfl | exact absurd this (by simp [isPanic])
        · obtain ⟨p0, p, hp0, hp⟩ := panels_total w tw o.ansiFill (fun n h => by have := hwle n h; omega) (by omega)
          rw [hp0]; simp only; rw [hp]; simp only
          have hmm : ∃ v, (if o.sideBySide = true then configMaxLineLength ml o.maxLineLength (maxLineLengthWidthArg w.fixed? tw)
              else .ok o.maxLineLength) = .ok v := by
            split
            · exact configMaxLineLength_ok hmll ml _ _ hmlle hm hwW
            · exact ⟨_, rfl⟩
          obtain ⟨v, hv⟩ := hmm
          rw [hv]; simp only
          unfold tabCfgNew
          rw [if_pos htabs]
          rfl
    · rw [hm']; rfl
  · rw [he]; rfl

/-- an accepted `--width` fits `isize` -/
theorem setWidths_fixed_le (width : Option Str) (tw n : Nat) (htw : tw ≤ isizeMax)
    (h : setWidths width tw = .ok (.fixed n)) : n ≤ isizeMax := by
  rcases setWidths_total width tw htw with ⟨w, hw, hle⟩ | he
  · rw [hw] at h; cases h; exact hle n rfl
  · rw [he] at h; cases h

end Startup
