import DeltaModel.Grep
import Proofs.GrepLongest
import Proofs.GrepPlainB
/-!
C16, fragment B2: unnumbered text line whose path has an extension of up to 10 characters
and may contain blanks — the lines the *third* regex of `parse_grep_line`
(`WithFileExtension`) reads: the first regex needs a line number, the second one neither
admits blanks nor an extension longer than 6 characters.
-/
namespace Grep

/-- `takeWhile` keeps a prefix all of whose elements pass. -/
theorem takeWhile_prefix (f : Char → Bool) (a b : List Char) (h : ∀ c ∈ a, f c = true) :
    (a ++ b).takeWhile f = a ++ b.takeWhile f := by
  induction a with
  | nil => rfl
  | cons x xs ih =>
    have hx : f x = true := h x (by simp)
    have hxs : ∀ c ∈ xs, f c = true := fun c hc => h c (by simp [hc])
    simp only [List.cons_append, List.takeWhile_cons, hx, if_true, ih hxs]

theorem ne_space_of_startOk {c : Char} (h : startOk c = true) : (c != ' ') = true := by
  simp only [startOk, Bool.and_eq_true] at h
  exact h.2

theorem ne_space_of_extOk {c : Char} (h : extOk c = true) : (c != ' ') = true := by
  simp only [extOk, Bool.and_eq_true] at h
  exact h.1.1.1.2

theorem ne_space_of_isSepChar {c : Char} (h : isSepChar c = true) : (c != ' ') = true := by
  rcases isSepChar_cases h with h | h | h <;> subst h <;> decide

/-- In `path ++ s :: w0 = A ++ '.' :: ext` with `ext` free of separator characters and dots,
the dot lies behind the separator `s`. -/
theorem dot_behind_sep {path w0 A ext : List Char} {s : Char}
    (hsc : isSepChar s = true) (hext : ext.all extOk = true)
    (h : path ++ (s :: w0) = A ++ ('.' :: ext)) : ∃ w1, w0 = w1 ++ '.' :: ext := by
  have hsext : extOk s = false := extOk_of_isSepChar hsc
  have hsdot : s ≠ '.' := by
    rcases isSepChar_cases hsc with h | h | h <;> rw [h] <;> decide
  rcases List.append_eq_append_iff.mp h with ⟨a', _, hb⟩ | ⟨c', _, hd⟩
  · cases a' with
    | nil =>
      simp at hb
      exact absurd hb.1 hsdot
    | cons x xs =>
      simp at hb
      exact ⟨xs, hb.2⟩
  · -- s lies in '.' :: ext
    have hmem : s ∈ '.' :: ext := by
      rw [hd]; simp
    rcases List.mem_cons.mp hmem with h1 | h1
    · exact absurd h1 hsdot
    · have := List.all_eq_true.mp hext s h1
      rw [hsext] at this
      exact Bool.noConfusion this

/-- A split of `path ++ s :: code` strictly behind `path`: the left part is `path ++ s :: w0`. -/
theorem split_behind {path code u' v' : List Char} {s : Char}
    (hsplit : path ++ s :: code = u' ++ v') (hlen : path.length < u'.length) :
    ∃ w0, u' = path ++ s :: w0 ∧ code = w0 ++ v' := by
  rcases List.append_eq_append_iff.mp hsplit with ⟨a', ha, hb⟩ | ⟨c', hc, _⟩
  · cases a' with
    | nil => simp at ha; subst ha; omega
    | cons x xs =>
      simp at hb
      obtain ⟨hx, hb⟩ := hb
      subst hx
      exact ⟨xs, ha, hb⟩
  · subst hc
    simp at hlen
    omega

/-- The second regex (no blanks, short extension) rejects `path s code` when the path is not
of its shape, the blank-free head of the path has no `.ext`-sep look-alike with a short
extension, and the code no `.ext`-sep look-alike. -/
theorem parseVariant_extNoSpaces_none (path code : List Char) (s : Char)
    (hsc : isSepChar s = true)
    (hnot : noSpacePathOk docExtMin docExtMaxNoSpaces path = false)
    (hhead : hasSepLookAlike docExtMaxNoSpaces (path.takeWhile (· != ' ')) = false)
    (hsepLA : hasSepLookAlike docExtMax code = false) :
    parseVariant .extNoSpaces (path ++ s :: code) = none := by
  rw [← extMinNoSpaces_eq, ← extMaxNoSpaces_eq] at hnot
  have hl : longest (noSpacePathOk Generated.Grep.extMinNoSpaces Generated.Grep.extMaxNoSpaces)
      (parseSep false) [] (path ++ s :: code) = none := by
    apply longest_none
    intro u' v' hsplit hboth
    obtain ⟨hP, hQ⟩ := hboth
    rw [List.nil_append] at hP
    obtain ⟨r, hr⟩ := Option.isSome_iff_exists.mp hQ
    obtain ⟨t, rest, hv, ht⟩ := parseSep_some_head hr
    obtain ⟨body, e, ext, hu, _, hbody, he, hext, hlo, hhi⟩ := noSpacePathOk_elim hP
    have hlo' : 1 ≤ ext.length := hlo
    have hhi6 : ext.length ≤ docExtMaxNoSpaces := extMaxNoSpaces_eq ▸ hhi
    have hhi' : ext.length ≤ docExtMax := by
      have h6' : ext.length ≤ 6 := hhi6
      show ext.length ≤ 10
      omega
    by_cases hlen : path.length < u'.length
    · -- the left part reaches into the code
      obtain ⟨w0, hu', hcodeEq⟩ := split_behind hsplit hlen
      have hsplit2 : path ++ (s :: w0) = (body ++ [e]) ++ ('.' :: ext) := by
        rw [← hu', hu]; simp
      obtain ⟨w1, hw0⟩ := dot_behind_sep hsc hext hsplit2
      have hcode2 : code = w1 ++ '.' :: (ext ++ t :: rest) := by
        rw [hcodeEq, hw0, hv]; simp
      have := hasSepLookAlike_intro docExtMax w1 ext rest t hext hlo' hhi' ht
      rw [← hcode2, hsepLA] at this
      exact Bool.noConfusion this
    · -- the left part is a prefix of the path
      rcases List.append_eq_append_iff.mp hsplit with ⟨a', ha, _⟩ | ⟨c', hc, hd⟩
      · -- u' = path ++ a' with a' = []
        have ha' : a' = [] := by
          cases a' with
          | nil => rfl
          | cons x xs => subst ha; simp at hlen
        subst ha'
        simp at ha
        subst ha
        rw [hP] at hnot
        exact Bool.noConfusion hnot
      · cases c' with
        | nil =>
          simp at hc
          subst hc
          rw [hP] at hnot
          exact Bool.noConfusion hnot
        | cons t' r' =>
          -- path = u' ++ t' :: r' and t' is the separator character the right part starts with
          have htt : t' = t := by
            rw [hv] at hd
            simp at hd
            exact hd.1.symm
          subst htt
          have hall : ∀ c ∈ u' ++ [t'], (c != ' ') = true := by
            intro c hcm
            rw [hu] at hcm
            simp only [List.mem_append, List.mem_cons, List.not_mem_nil, or_false] at hcm
            rcases hcm with (hcm | hcm | hcm | hcm) | hcm
            · exact ne_space_of_startOk (List.all_eq_true.mp hbody c hcm)
            · subst hcm
              simpa using he
            · subst hcm
              decide
            · exact ne_space_of_extOk (List.all_eq_true.mp hext c hcm)
            · subst hcm
              exact ne_space_of_isSepChar ht
          have hpathEq : path = (u' ++ [t']) ++ r' := by
            rw [hc]; simp
          have htw : path.takeWhile (· != ' ') =
              (body ++ [e]) ++ '.' :: (ext ++ t' :: r'.takeWhile (· != ' ')) := by
            rw [hpathEq, takeWhile_prefix _ _ _ hall, hu]
            simp
          have := hasSepLookAlike_intro docExtMaxNoSpaces (body ++ [e]) ext
            (r'.takeWhile (· != ' ')) t' hext hlo' hhi6 ht
          rw [← htw, hhead] at this
          exact Bool.noConfusion this
  show Option.map mkParsed (longest
    (noSpacePathOk Generated.Grep.extMinNoSpaces Generated.Grep.extMaxNoSpaces)
    (parseSep false) [] (path ++ s :: code)) = none
  rw [hl]
  rfl

/-- The third regex reads `path s code` back when the code has no `.ext`-sep look-alike. -/
theorem parseVariant_ext_some (path code : List Char) (s : Char) (kind : Kind)
    (hpath : extPathOk docExtMin docExtMax path = true)
    (hks : kindOfSep s = some kind) (hsc : isSepChar s = true)
    (hcode : codeOk code = true)
    (hsepLA : hasSepLookAlike docExtMax code = false)
    (hstart : startsWithNum s code = false) :
    parseVariant .ext (path ++ s :: code) = some ⟨path, kind, none, code⟩ := by
  -- the fragment is stated with the documented bounds; the third regex has the regenerated ones
  rw [← extMin_eq, ← extMax_eq] at hpath
  have hl : longest (extPathOk Generated.Grep.extMin Generated.Grep.extMax)
      (parseSep false) [] (path ++ s :: code) = some ([] ++ path, (kind, none, code)) := by
    apply longest_some
    · simpa using hpath
    · exact parseSep_unnumbered s kind code hks hstart hcode
    · intro u' v' hsplit hlen hboth
      obtain ⟨hP, hQ⟩ := hboth
      rw [List.nil_append] at hP
      obtain ⟨r, hr⟩ := Option.isSome_iff_exists.mp hQ
      obtain ⟨t, rest, hv, ht⟩ := parseSep_some_head hr
      obtain ⟨c0, mid, e, ext, hu, _, _, _, hext, hlo, hhi⟩ := extPathOk_elim hP
      have hlo' : 1 ≤ ext.length := hlo
      have hhi' : ext.length ≤ docExtMax := extMax_eq ▸ hhi
      obtain ⟨w0, hu', hcodeEq⟩ := split_behind hsplit hlen
      have hsplit2 : path ++ (s :: w0) = (c0 :: (mid ++ [e])) ++ ('.' :: ext) := by
        rw [← hu', hu]; simp
      obtain ⟨w1, hw0⟩ := dot_behind_sep hsc hext hsplit2
      have hcode2 : code = w1 ++ '.' :: (ext ++ t :: rest) := by
        rw [hcodeEq, hw0, hv]; simp
      have := hasSepLookAlike_intro docExtMax w1 ext rest t hext hlo' hhi' ht
      rw [← hcode2, hsepLA] at this
      exact Bool.noConfusion this
  show Option.map mkParsed (longest (extPathOk Generated.Grep.extMin Generated.Grep.extMax)
    (parseSep false) [] (path ++ s :: code)) = _
  rw [hl]
  simp [mkParsed]

theorem parsePlain_unnumbered_ext (p : Parsed) (h : fragUnnumberedExt p = true) :
    parsePlain (fmtPlain p) = some p := by
  obtain ⟨path, kind, digits, code⟩ := p
  simp only [fragUnnumberedExt, Bool.and_eq_true, Bool.not_eq_true', Option.isNone_iff_eq_none] at h
  obtain ⟨⟨⟨⟨⟨⟨⟨⟨hd, hk⟩, hpath⟩, _hcolon⟩, hcode⟩, hnum⟩, hsepLA⟩, hstart⟩, hhead⟩ := h
  subst hd
  obtain ⟨s, hs, hks, hsc, _⟩ := sep_of_textKind hk
  rw [hs] at hstart
  simp only [Bool.not_eq_true'] at hstart
  have hline : fmtPlain ⟨path, kind, none, code⟩ = path ++ s :: code := by
    simp [fmtPlain, hs]
  rw [hline] at hnum ⊢
  have h1 := parseVariant_extNum_none _ hnum
  unfold parsePlain
  rw [plainVariants_eq]
  by_cases hns : noSpacePathOk docExtMin docExtMaxNoSpaces path = true
  · -- also of the shape of the second regex: that one reads it (fragment B)
    have h2 := parseVariant_extNoSpaces_some path code s kind hns hks hsc hcode hsepLA hstart
    simp [List.findSome?, h1, h2]
  · have hns' : noSpacePathOk docExtMin docExtMaxNoSpaces path = false := by
      simpa using hns
    have h2 := parseVariant_extNoSpaces_none path code s hsc hns' hhead hsepLA
    have h3 := parseVariant_ext_some path code s kind hpath hks hsc hcode hsepLA hstart
    simp [List.findSome?, h1, h2, h3]

end Grep
