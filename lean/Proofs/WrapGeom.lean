import DeltaModel.SideBySide
import Proofs.Wrap
/-
C07 helper: truncation and panel geometry.
-/
namespace SideBySide
open Wrap (G gsWidth Err spaceG gsWidth_append)

theorem measure_append (a b : List Item) : measure (a ++ b) = measure a + measure b := by
  induction a with
  | nil => simp [measure]
  | cons i a ih => cases i <;> simp [measure, ih] <;> omega

/-- No cluster wider than one column. -/
def NoWideG (gs : List G) : Prop := ∀ g ∈ gs, g.w ≤ 1

def NoWide : List Item → Prop
  | [] => True
  | .text gs :: r => NoWideG gs ∧ NoWide r
  | .ansi _ :: r => NoWide r

theorem gsWidth_replicate_space (n : Nat) : gsWidth (List.replicate n spaceG) = n := by
  induction n with
  | zero => rfl
  | succ n ih => rw [List.replicate_succ]; simp only [gsWidth, spaceG] at ih ⊢; omega

/-- What one text run contributes, in the two situations in which the result is exact:
`fill = some spaceG` (then the width actually output reaches `dw` at a cut even when `used`
does not), or no wide cluster at all. -/
theorem truncText_spec (dw : Nat) (fill : Option G) (gs : List G) (used : Nat) (out : List G) (u : Nat) (c : Bool)
    (hu : used ≤ dw) (h : truncText dw fill gs used = .ok (out, u, c))
    (hok : fill = some spaceG ∨ NoWideG gs) :
    used ≤ u ∧ u ≤ dw ∧
    (c = false → out = gs ∧ u = used + gsWidth gs) ∧
    (c = true → gsWidth out + used = dw ∧ dw < used + gsWidth gs) ∧
    (NoWideG gs → gsWidth out + used = u) := by
  induction gs generalizing used out u c with
  | nil =>
    simp [truncText] at h
    obtain ⟨rfl, rfl, rfl⟩ := h
    simp [gsWidth, hu]
  | cons g gs ih =>
    unfold truncText at h
    split at h
    · rename_i hcut
      -- the cluster does not fit
      have hnarrow : (fill = some spaceG ∨ NoWideG (g :: gs)) → True := fun _ => trivial
      cases fill with
      | none =>
        simp only at h
        cases h
        rcases hok with h1 | h1
        · cases h1
        · have hg := h1 g (by simp)
          refine ⟨Nat.le_refl _, hu, ?_, ?_, ?_⟩
          · intro h; cases h
          · intro _; simp only [gsWidth]; omega
          · intro _; simp [gsWidth]
      | some f =>
        simp only at h
        split at h
        · rename_i h2
          cases h
          rcases hok with h1 | h1
          · cases h1
            refine ⟨Nat.le_refl _, hu, ?_, ?_, ?_⟩
            · intro h; cases h
            · intro _; simp only [gsWidth, spaceG]; omega
            · intro hn; have := hn g (by simp); omega
          · have := h1 g (by simp); omega
        · rename_i h2
          split at h
          · rename_i h3
            -- a cluster wider than 2 columns: (before fix d6cf9d0 the assertion) the fallback fills up to `dw`
            split at h
            · cases h
            · cases h
              rcases hok with h1 | h1
              · cases h1
                refine ⟨Nat.le_refl _, hu, ?_, ?_, ?_⟩
                · intro h; cases h
                · intro _; rw [gsWidth_replicate_space]; simp only [gsWidth]; omega
                · intro hn; have := hn g (by simp); omega
              · have := h1 g (by simp); omega
          · rename_i h3
            cases h
            refine ⟨Nat.le_refl _, hu, ?_, ?_, ?_⟩
            · intro h; cases h
            · intro _; simp only [gsWidth]; omega
            · intro _; simp [gsWidth]
    · rename_i hfit
      split at h
      · cases h
      · rename_i out1 u1 c1 hrec
        cases h
        have hok' : fill = some spaceG ∨ NoWideG gs := by
          rcases hok with h1 | h1
          · exact Or.inl h1
          · exact Or.inr (fun g' hg' => h1 g' (List.mem_cons_of_mem _ hg'))
        obtain ⟨a1, a2, a3, a4, a5⟩ := ih (used + g.w) out1 u c (by omega) hrec hok'
        refine ⟨by omega, a2, ?_, ?_, ?_⟩
        · intro hc
          obtain ⟨b1, b2⟩ := a3 hc
          simp only [b1, gsWidth]
          exact ⟨trivial, by omega⟩
        · intro hc
          obtain ⟨b1, b2⟩ := a4 hc
          simp only [gsWidth]; omega
        · intro hn
          have := a5 (fun g' hg' => hn g' (List.mem_cons_of_mem _ hg'))
          simp only [gsWidth]; omega

/-- Since fix d6cf9d0 (the `debug_assert!` no longer stands in front of the fallback:
`Generated.wrapTruncAssertsWideCluster = false`, read from the source on every run) the inner loop of
`truncate_str_impl` has no panic point, whatever the cluster widths. -/
theorem truncText_total (hno : Generated.wrapTruncAssertsWideCluster = false) (dw : Nat) (fill : Option G)
    (gs : List G) (used : Nat) : ∃ r, truncText dw fill gs used = .ok r := by
  induction gs generalizing used with
  | nil => exact ⟨_, rfl⟩
  | cons g gs ih =>
    unfold truncText
    split
    · cases fill with
      | none => exact ⟨_, rfl⟩
      | some f =>
        simp only [hno]
        split
        · exact ⟨_, rfl⟩
        · split
          · exact ⟨_, rfl⟩
          · exact ⟨_, rfl⟩
    · obtain ⟨⟨o, u, c⟩, hr⟩ := ih (used + g.w)
      rw [hr]; exact ⟨_, rfl⟩

theorem truncItems_total (hno : Generated.wrapTruncAssertsWideCluster = false) (stopFix : Bool) (dw : Nat)
    (fill : Option G) (items : List Item) (used : Nat) (cut : Bool) :
    ∃ r, truncItems stopFix dw fill items used cut = .ok r := by
  induction items generalizing used cut with
  | nil => exact ⟨_, rfl⟩
  | cons i r ih =>
    cases i with
    | ansi a =>
      obtain ⟨o, ho⟩ := ih used cut
      exact ⟨.ansi a :: o, by simp only [truncItems, ho]⟩
    | text gs =>
      simp only [truncItems]
      split
      · exact ih used cut
      · obtain ⟨⟨t, u, c⟩, ht⟩ := truncText_total hno dw fill gs used
        obtain ⟨o, ho⟩ := ih u (cut || c)
        exact ⟨.text t :: o, by simp only [ht, ho]⟩

/-- **`truncate_str_impl` never panics** (since fix d6cf9d0): any line, any width, any tail, with or without fill
character, whatever the cluster widths (3 and more included). -/
theorem truncateImplF_total (hno : Generated.wrapTruncAssertsWideCluster = false) (stopFix : Bool) (s : List Item)
    (dw : Nat) (tail : List Item) (fill : Option G) : ∃ out, truncateImplF stopFix s dw tail fill = .ok out := by
  unfold truncateImplF
  split
  · exact ⟨_, rfl⟩
  · have hrt : ∃ rt, (if tail = [] then (.ok [] : Except Err (List Item))
        else if measure tail ≤ dw then .ok tail else truncItems stopFix dw fill tail 0 false) = .ok rt := by
      split
      · exact ⟨_, rfl⟩
      · split
        · exact ⟨_, rfl⟩
        · exact truncItems_total hno stopFix dw fill tail 0 false
    obtain ⟨rt, hrt⟩ := hrt
    obtain ⟨body, hb⟩ := truncItems_total hno stopFix dw fill s (measure rt) false
    simp only [hrt, hb]
    exact ⟨_, rfl⟩

theorem truncateStr_total (hno : Generated.wrapTruncAssertsWideCluster = false) (s : List Item) (dw : Nat)
    (tail : List Item) : ∃ out, truncateStr s dw tail = .ok out :=
  truncateImplF_total hno _ s dw tail _

/-- `pad_panel_line_to_width` never panics (since fix d6cf9d0). -/
theorem padPanel_total (hno : Generated.wrapTruncAssertsWideCluster = false) (pw : Nat) (line tail : List Item)
    (fill : Fill) : ∃ out, padPanel pw line tail fill = .ok out := by
  unfold padPanel
  simp only
  have hl : ∃ l, (if pw < measure line then truncateStr line pw tail else .ok line) = .ok l := by
    split
    · exact truncateStr_total hno line pw tail
    · exact ⟨_, rfl⟩
  obtain ⟨l, hl⟩ := hl
  rw [hl]
  cases fill with
  | spaces => simp only; split <;> exact ⟨_, rfl⟩
  | ansiSeq q => exact ⟨_, rfl⟩
  | none => exact ⟨_, rfl⟩

/-- After the cut, with the repair, nothing visible is added. -/
theorem truncItems_after_cut (dw : Nat) (fill : Option G) (items : List Item) (used : Nat) (out : List Item)
    (h : truncItems true dw fill items used true = .ok out) : measure out = 0 := by
  induction items generalizing out with
  | nil => simp [truncItems] at h; subst h; rfl
  | cons i r ih =>
    cases i with
    | ansi a =>
      simp only [truncItems] at h
      split at h
      · cases h
      · rename_i o ho; cases h; simp [measure, ih o ho]
    | text gs =>
      simp only [truncItems] at h
      simp at h
      exact ih out h

/-- The body loop of `truncate_str_impl` is exact when text after the cut is skipped
(repaired code) and the fill character is used. -/
theorem truncItems_spec_fix (dw : Nat) (items : List Item) (used : Nat)
    (out : List Item) (hu : used ≤ dw)
    (h : truncItems true dw (some spaceG) items used false = .ok out) :
    measure out + used ≤ dw ∧ (dw < used + measure items → measure out + used = dw) := by
  induction items generalizing used out with
  | nil => simp [truncItems] at h; subst h; simp [measure]; omega
  | cons i r ih =>
    cases i with
    | ansi a =>
      simp only [truncItems] at h
      split at h
      · cases h
      · rename_i o ho
        cases h
        simpa [measure] using ih used o hu ho
    | text gs =>
      simp only [truncItems] at h
      simp only [Bool.false_eq_true, and_false, if_false, Bool.false_or] at h
      split at h
      · cases h
      · rename_i t u c ht
        split at h
        · cases h
        · rename_i o ho
          cases h
          obtain ⟨a1, a2, a3, a4, a5⟩ := truncText_spec dw (some spaceG) gs used t u c hu ht (Or.inl rfl)
          cases c with
          | false =>
            obtain ⟨b1, b2⟩ := a3 rfl
            subst b1
            have := ih u o a2 ho
            simp only [measure]
            omega
          | true =>
            obtain ⟨b1, b2⟩ := a4 rfl
            have := truncItems_after_cut dw (some spaceG) r u o ho
            simp only [measure]
            omega

/-- … and, repaired or not, when no cluster is wide (then `used` is the width actually
output, and after a cut only zero-width text can follow). -/
theorem truncItems_spec_narrow (stopFix : Bool) (dw : Nat) (fill : Option G) (items : List Item) (used : Nat)
    (cut : Bool) (out : List Item) (hu : used ≤ dw) (hcut : cut = true → used = dw)
    (hok : NoWide items)
    (h : truncItems stopFix dw fill items used cut = .ok out) :
    measure out + used ≤ dw ∧ (dw < used + measure items → measure out + used = dw) := by
  induction items generalizing used cut out with
  | nil => simp [truncItems] at h; subst h; simp [measure]; omega
  | cons i r ih =>
    cases i with
    | ansi a =>
      simp only [truncItems] at h
      split at h
      · cases h
      · rename_i o ho
        cases h
        simpa [measure] using ih used cut o hu hcut hok ho
    | text gs =>
      simp only [truncItems] at h
      split at h
      · rename_i hskip
        have hud := hcut hskip.2
        have := ih used cut out hu hcut hok.2 h
        simp only [measure]
        omega
      · split at h
        · cases h
        · rename_i t u c ht
          split at h
          · cases h
          · rename_i o ho
            cases h
            obtain ⟨a1, a2, a3, a4, a5⟩ := truncText_spec dw fill gs used t u c hu ht (Or.inr hok.1)
            have hu' := a5 hok.1
            have hcut' : (cut || c) = true → u = dw := by
              intro hc
              cases hcc : c with
              | true =>
                obtain ⟨b1, b2⟩ := a4 hcc
                omega
              | false =>
                rw [hcc] at hc
                simp at hc
                have := hcut hc
                omega
            have := ih u (cut || c) o a2 hcut' hok.2 ho
            simp only [measure]
            cases hcc : c with
            | false =>
              obtain ⟨b1, b2⟩ := a3 hcc
              subst b1
              omega
            | true =>
              obtain ⟨b1, b2⟩ := a4 hcc
              omega

/-- **Width of the truncation result.** -/
theorem truncateImplF_width (stopFix : Bool) (s : List Item) (dw : Nat) (tail : List Item) (out : List Item)
    (hok : stopFix = true ∨ (NoWide s ∧ NoWide tail))
    (h : truncateImplF stopFix s dw tail (some spaceG) = .ok out) :
    measure out ≤ dw ∧ (dw < measure s → measure out = dw) := by
  have spec : ∀ items used o, (items = s ∨ items = tail) → used ≤ dw →
      truncItems stopFix dw (some spaceG) items used false = .ok o →
      measure o + used ≤ dw ∧ (dw < used + measure items → measure o + used = dw) := by
    intro items used o hi hu ho
    rcases hok with h1 | h1
    · subst h1
      exact truncItems_spec_fix dw items used o hu ho
    · have hn : NoWide items := by
        rcases hi with rfl | rfl
        · exact h1.1
        · exact h1.2
      exact truncItems_spec_narrow stopFix dw _ items used false o hu (fun h => by cases h) hn ho
  unfold truncateImplF at h
  split at h
  · rename_i hfit
    cases h
    exact ⟨hfit, fun h => by omega⟩
  · rename_i hlong
    simp only at h
    split at h
    · cases h
    · rename_i rt hrt
      have hrtw : measure rt ≤ dw := by
        split at hrt
        · cases hrt; simp [measure]
        · split at hrt
          · rename_i hf; cases hrt; exact hf
          · have := spec tail 0 rt (Or.inr rfl) (Nat.zero_le _) hrt
            omega
      split at h
      · cases h
      · rename_i body hbody
        cases h
        have := spec s (measure rt) body (Or.inl rfl) hrtw hbody
        rw [measure_append]
        omega

/-- The ANSI escape items, in order. -/
def escapes : List Item → List String
  | [] => []
  | .ansi a :: r => a :: escapes r
  | .text _ :: r => escapes r

theorem escapes_append (a b : List Item) : escapes (a ++ b) = escapes a ++ escapes b := by
  induction a with
  | nil => rfl
  | cons i a ih => cases i <;> simp [escapes, ih]

theorem truncItems_escapes (stopFix : Bool) (dw : Nat) (fill : Option G) (items : List Item) (used : Nat) (cut : Bool)
    (out : List Item) (h : truncItems stopFix dw fill items used cut = .ok out) : escapes out = escapes items := by
  induction items generalizing used cut out with
  | nil => simp [truncItems] at h; subst h; rfl
  | cons i r ih =>
    cases i with
    | ansi a =>
      simp only [truncItems] at h
      split at h
      · cases h
      · rename_i o ho; cases h; simp [escapes, ih _ _ o ho]
    | text gs =>
      simp only [truncItems] at h
      split at h
      · simp [escapes, ih _ _ out h]
      · split at h
        · cases h
        · split at h
          · cases h
          · rename_i o ho; cases h; simp [escapes, ih _ _ o ho]

theorem measure_spaces (n : Nat) : measure [.text (List.replicate n spaceG)] = n := by
  induction n with
  | zero => simp [measure, gsWidth]
  | succ k ih =>
    simp only [measure, List.replicate_succ, gsWidth, spaceG] at ih ⊢
    omega

/-- The panel after `pad_panel_line_to_width`. -/
theorem padPanel_width (pw : Nat) (line tail out : List Item) (fill : Fill)
    (hok : Generated.wrapTruncStopsAfterCut = true ∨ (NoWide line ∧ NoWide tail))
    (h : padPanel pw line tail fill = .ok out) :
    measure out ≤ pw ∧ (fill = .spaces → measure out = pw) := by
  unfold padPanel at h
  simp only at h
  split at h
  · cases h
  · rename_i l hl
    have hlw : measure l ≤ pw ∧ (pw < measure line → measure l = pw) ∧ (¬ pw < measure line → l = line) := by
      split at hl
      · rename_i hlong
        have := truncateImplF_width Generated.wrapTruncStopsAfterCut line pw tail l hok hl
        exact ⟨this.1, this.2, fun h => absurd hlong h⟩
      · rename_i hshort
        cases hl
        exact ⟨by omega, fun h => absurd h hshort, fun _ => rfl⟩
    obtain ⟨w1, w2, w3⟩ := hlw
    cases fill with
    | spaces =>
      simp only at h
      split at h
      · rename_i hge
        cases h
        refine ⟨w1, fun _ => ?_⟩
        by_cases hlt : pw < measure line
        · exact w2 hlt
        · rw [w3 hlt]; omega
      · rename_i hlt
        cases h
        have : l = line := w3 (by omega)
        subst this
        rw [measure_append, measure_spaces]
        exact ⟨by omega, fun _ => by omega⟩
    | ansiSeq q =>
      simp only at h
      cases h
      rw [measure_append]
      simp only [measure]
      exact ⟨by omega, fun h => by cases h⟩
    | none =>
      simp only at h
      cases h
      exact ⟨w1, fun h => by cases h⟩

theorem panelWidths_spec (w : Nat) (ansi : Bool) :
    (panelWidths w ansi).1 = w / 2 ∧
    (panelWidths w ansi).1 ≤ (panelWidths w ansi).2 ∧
    (panelWidths w ansi).1 + (panelWidths w ansi).2 ≤ w ∧
    (ansi = true → (panelWidths w ansi).1 + (panelWidths w ansi).2 = w) ∧
    (ansi = false → (panelWidths w ansi).2 = w / 2) := by
  unfold panelWidths Generated.panelDivisor Generated.oddRightIncrement
  cases ansi
  · simp; omega
  · by_cases h : w % 2 = 1
    · simp [h]; omega
    · simp [h]; omega

end SideBySide
