/-
C16, session 4 / T23: lemmas about `DeltaModel/GrepHelper.lean` — the text of a ripgrep-style row and of the
path header, and the header rows of a whole stream.
-/
import DeltaModel.GrepHelper
import Proofs.GrepEmit

namespace GrepHelper

open Grep GrepRow Generated.GrepHelperCalls

/-! ## The arguments of the three call sites, as regenerated -/

theorem row_args :
    argOf rowCall "code_fragment" = "code" ∧ argOf rowCall "include_code_fragment" = "yes" ∧
    argOf rowCall "include_file_path" = "no" ∧ argOf rowCall "include_line_number" = "ifNumbered" ∧
    argOf rowCall "line_numbers_and_hunk_lengths" = "numberOrZero" ∧
    argOf rowCall "file_path_separator" = "kindSeparator" ∧ argOf rowCall "include_hunk_label" = "no" := by decide

theorem header_args :
    argOf headerCall "code_fragment" = "empty" ∧ argOf headerCall "include_code_fragment" = "yes" ∧
    argOf headerCall "include_file_path" = "yes" ∧ argOf headerCall "include_line_number" = "no" ∧
    argOf headerCall "line_numbers_and_hunk_lengths" = "zero" ∧
    argOf headerCall "file_path_separator" = "empty" ∧ argOf headerCall "include_hunk_label" = "yes" := by decide

theorem bytes_bareTail : GrepRow.bytes bareTail = [space] := by decide
theorem bytes_fragmentTail : GrepRow.bytes fragmentTail = [space] := by decide

/-- The text of a hit row in the ripgrep style. -/
def ripgrepText (kind : Kind) (num : Option Nat) (secs : List (Bool × Bytes)) (trail : Bool) : Bytes :=
  (match num with
   | some n => digitsOf n ++ RipGrepJson.bytesOfChars kind.sep ++
       (if (secsText secs).isEmpty then [space] else [])
   | none => []) ++
  (if (secsText secs).isEmpty then [] else secsText secs ++ (if trail then [space] else []))

theorem rowText_code (hc : HCfg) (kind : Kind) (num : Option Nat) (secs : List (Bool × Bytes)) (trail : Bool) :
    rowText hc (.code none num kind secs trail) = some (ripgrepText kind num secs trail) := by
  obtain ⟨a1, a2, a3, a4, a5, a6, a7⟩ := row_args
  cases num <;> cases he : (secsText secs).isEmpty <;> cases trail <;>
    simp [rowText, helperText, a1, a2, a3, a4, a5, a6, a7, he, ripgrepText, paintedOf, bytes_bareTail,
      bytes_fragmentTail]

/-- The text of a path header row. -/
def headerText (hc : HCfg) (path : List Char) : Bytes :=
  (if hc.hunkLabel.isEmpty then [] else hc.hunkLabel ++ [space]) ++ RipGrepJson.bytesOfChars path ++ [space]

theorem rowText_header (hc : HCfg) (path : List Char)
    (hp : (RipGrepJson.bytesOfChars path).isEmpty = false ∨ hc.filePlain = false) :
    rowText hc (.header path) = some (headerText hc path) := by
  obtain ⟨a1, a2, a3, a4, a5, a6, a7⟩ := header_args
  cases hl : hc.hunkLabel.isEmpty <;> rcases hp with hp | hp <;>
    simp [rowText, helperText, a1, a2, a3, a4, a6, a7, hl, hp, headerText, bytes_bareTail]

/-! ## Header rows of a stream -/

theorem headerPaths_append (a b : List Row) : headerPaths (a ++ b) = headerPaths a ++ headerPaths b := by
  induction a with
  | nil => rfl
  | cons r rest ih => cases r <;> simp [headerPaths, ih]

theorem headerPaths_sep (c : Prop) [Decidable c] : headerPaths (if c then [Row.sep] else []) = [] := by
  split <;> rfl

theorem headerPaths_row (c : Prop) [Decidable c] (r : Row) (hr : headerPaths [r] = []) :
    headerPaths (if c then [] else [r]) = [] := by
  split
  · rfl
  · exact hr

theorem stepHit_headers (cfg : Grep.Cfg) (st : St) (h : Hit) (st' : St) (rows : List Row)
    (hs : cfg.outputType.getD h.gtype = .ripgrep) (hk : h.kind ≠ .ignore)
    (e : stepHit cfg st h = .ok (st', rows)) :
    st' = some (h.kind, h.path, h.num) ∧
      headerPaths rows = (if st.map (fun s => s.2.1) = some h.path then [] else [h.path]) := by
  have fin : ∀ (hdr sp row : List Row) (x : List (List Char)), headerPaths hdr = x → headerPaths sp = [] →
      headerPaths row = [] → headerPaths (hdr ++ sp ++ row) = x := by
    intro hdr sp row x h1 h2 h3
    rw [headerPaths_append, headerPaths_append, h1, h2, h3]; simp
  cases st with
  | none =>
    simp only [stepHit, if_neg hk, hs] at e
    split at e
    · cases e
    · split at e
      · cases e
        exact ⟨rfl, fin _ _ _ _ (by simp [headerPaths]) (headerPaths_sep _) rfl⟩
      · split at e
        · cases e
        · cases e
          exact ⟨rfl, fin _ _ _ _ (by simp [headerPaths]) (headerPaths_sep _) (headerPaths_row _ _ rfl)⟩
  | some s =>
    obtain ⟨k, p, n⟩ := s
    simp only [stepHit, if_neg hk, hs] at e
    split at e
    · cases e
    · split at e
      · cases e
        refine ⟨rfl, fin _ _ _ _ ?_ (headerPaths_sep _) rfl⟩
        by_cases hp : p = h.path <;> simp [hp, headerPaths]
      · split at e
        · cases e
        · cases e
          refine ⟨rfl, fin _ _ _ _ ?_ (headerPaths_sep _) (headerPaths_row _ _ rfl)⟩
          by_cases hp : p = h.path <;> simp [hp, headerPaths]

/-- Ripgrep style: the header rows of a stream are the first paths of the groups of consecutive hits of one path. -/
theorem emitFrom_headers (cfg : Grep.Cfg) : ∀ (lines : List Line) (st : St) (rows : List Row),
    (∀ h, Line.hit h ∈ lines → cfg.outputType.getD h.gtype = .ripgrep) →
    (∀ h, Line.hit h ∈ lines → h.kind ≠ .ignore) →
    emitFrom cfg st lines = .ok rows →
    headerPaths rows = groupHeads (st.map fun s => s.2.1) ((hitsOf lines).map (·.path))
  | [], _, rows, _, _, e => by simp [emitFrom] at e; subst e; rfl
  | .other raw :: rest, st, rows, h1, h2, e => by
    simp only [emitFrom] at e
    split at e
    · cases e
    · rename_i more hm
      cases e
      simp only [headerPaths, hitsOf]
      exact emitFrom_headers cfg rest st more (fun h hh => h1 h (List.mem_cons_of_mem _ hh))
        (fun h hh => h2 h (List.mem_cons_of_mem _ hh)) hm
  | .hit h :: rest, st, rows, h1, h2, e => by
    simp only [emitFrom] at e
    split at e
    · cases e
    · rename_i st' r0 hstep
      split at e
      · cases e
      · rename_i more hm
        cases e
        obtain ⟨hst, hh⟩ := stepHit_headers cfg st h st' r0 (h1 h (List.mem_cons_self ..)) (h2 h (List.mem_cons_self ..)) hstep
        have ih := emitFrom_headers cfg rest st' more (fun h hh => h1 h (List.mem_cons_of_mem _ hh))
          (fun h hh => h2 h (List.mem_cons_of_mem _ hh)) hm
        rw [headerPaths_append, hh, ih, hst]
        simp [hitsOf, groupHeads]

/-! ## The hit rows of a stream in the ripgrep style -/

/-- The ripgrep-style hit rows among the rows. -/
def codeRows (rows : List Row) : List Row :=
  rows.filter fun r => match r with | .code none _ _ _ _ => true | _ => false

theorem codeRows_append (a b : List Row) : codeRows (a ++ b) = codeRows a ++ codeRows b := by
  simp [codeRows, List.filter_append]

theorem codeRows_sep (c : Prop) [Decidable c] : codeRows (if c then [Row.sep] else []) = [] := by
  split <;> rfl

theorem stepHit_ripgrep_code (cfg : Grep.Cfg) (st : St) (h : Hit) (st' : St) (rows : List Row)
    (hs : cfg.outputType.getD h.gtype = .ripgrep) (hok : hitOk cfg .ripgrep h = true)
    (e : stepHit cfg st h = .ok (st', rows)) :
    ∃ secs trail, codeRows rows = [Row.code none h.num h.kind secs trail] ∧
      secsText secs = expandB cfg.tabWidth h.code := by
  have hk : h.kind ≠ .ignore := by
    intro hk; simp [hitOk, hk] at hok
  obtain ⟨secs0, trail0, hcs0, htxt0⟩ := codeSections_ok cfg .ripgrep h hok
  have fin : ∀ (hdr sp row : List Row) (x : List Row), codeRows hdr = [] → codeRows sp = [] →
      codeRows row = x → codeRows (hdr ++ sp ++ row) = x := by
    intro hdr sp row x h1 h2 h3
    rw [codeRows_append, codeRows_append, h1, h2, h3]; simp
  have hfix : Generated.Grep.fixEmptyRow = true := rfl
  have main : ∀ (hdr : List Row), codeRows hdr = [] → ∀ (c : Prop) [Decidable c],
      ∀ rows', (if (Generated.Grep.fixEmptyRow && h.code.isEmpty && h.num.isNone) = true then
          (Except.ok (some (h.kind, h.path, h.num), hdr ++ (if c then [Row.sep] else []) ++ [Row.code none none h.kind [] false]) :
            Except Panic (St × List Row))
        else
          match codeSections cfg .ripgrep h with
          | .error e => .error e
          | .ok (secs, trail) =>
            .ok (some (h.kind, h.path, h.num), hdr ++ (if c then [Row.sep] else []) ++
              (if (h.code.isEmpty && h.num.isNone) = true then [] else [Row.code none h.num h.kind secs trail]))) =
        .ok (st', rows') →
      ∃ secs trail, codeRows rows' = [Row.code none h.num h.kind secs trail] ∧
        secsText secs = expandB cfg.tabWidth h.code := by
    intro hdr hh c _ rows' e
    by_cases hc : (Generated.Grep.fixEmptyRow && h.code.isEmpty && h.num.isNone) = true
    · rw [if_pos hc] at e
      cases e
      simp only [hfix, Bool.true_and, Bool.and_eq_true, List.isEmpty_iff, Option.isNone_iff_eq_none] at hc
      refine ⟨[], false, ?_, ?_⟩
      · rw [hc.2]
        exact fin _ _ _ _ hh (codeRows_sep _) rfl
      · rw [hc.1, expandB_nil]; rfl
    · rw [if_neg hc, hcs0] at e
      cases e
      have hc' : (h.code.isEmpty && h.num.isNone) = false := by
        cases hce : h.code.isEmpty <;> cases hn : h.num.isNone <;> simp_all
      refine ⟨secs0, trail0, ?_, htxt0⟩
      rw [hc']
      exact fin _ _ _ _ hh (codeRows_sep _) rfl
  cases st with
  | none =>
    simp only [stepHit, if_neg hk, hs] at e
    split at e
    · cases e
    · exact main _ (by simp [codeRows]) _ _ e
  | some s =>
    obtain ⟨k, p, n⟩ := s
    simp only [stepHit, if_neg hk, hs] at e
    split at e
    · cases e
    · refine main _ ?_ _ _ e
      by_cases hp : p = h.path <;> simp [hp, codeRows]

/-- `rows` are, one per hit and in order, ripgrep-style hit rows with the hit's number and kind whose sections spell
its code with tabs expanded. -/
def RowsFor (w : Nat) : List Row → List Hit → Prop
  | [], [] => True
  | r :: rs, h :: hs =>
    (∃ secs trail, r = Row.code none h.num h.kind secs trail ∧ secsText secs = expandB w h.code) ∧ RowsFor w rs hs
  | _, _ => False

/-- Ripgrep style: the hit rows of a stream are, one per hit and in order, rows with the hit's number and kind
whose sections spell its code with tabs expanded. -/
theorem emitFrom_ripgrep_code (cfg : Grep.Cfg) : ∀ (lines : List Line) (st : St) (rows : List Row),
    (∀ h, Line.hit h ∈ lines → cfg.outputType.getD h.gtype = .ripgrep) →
    (∀ h, Line.hit h ∈ lines → hitOk cfg .ripgrep h = true) →
    emitFrom cfg st lines = .ok rows →
    RowsFor cfg.tabWidth (codeRows rows) (hitsOf lines)
  | [], _, rows, _, _, e => by simp [emitFrom] at e; subst e; exact True.intro
  | .other raw :: rest, st, rows, h1, h2, e => by
    simp only [emitFrom] at e
    split at e
    · cases e
    · rename_i more hm
      cases e
      simp only [codeRows, List.filter_cons, hitsOf]
      exact emitFrom_ripgrep_code cfg rest st more (fun h hh => h1 h (List.mem_cons_of_mem _ hh))
        (fun h hh => h2 h (List.mem_cons_of_mem _ hh)) hm
  | .hit h :: rest, st, rows, h1, h2, e => by
    simp only [emitFrom] at e
    split at e
    · cases e
    · rename_i st' r0 hstep
      split at e
      · cases e
      · rename_i more hm
        cases e
        obtain ⟨secs, trail, hr, htxt⟩ := stepHit_ripgrep_code cfg st h st' r0 (h1 h (List.mem_cons_self ..))
          (h2 h (List.mem_cons_self ..)) hstep
        have ih := emitFrom_ripgrep_code cfg rest st' more (fun h hh => h1 h (List.mem_cons_of_mem _ hh))
          (fun h hh => h2 h (List.mem_cons_of_mem _ hh)) hm
        rw [codeRows_append, hr]
        exact ⟨⟨secs, trail, rfl, htxt⟩, ih⟩

end GrepHelper
