import DeltaModel.Ingest
import Proofs.AnsiRaw
/-!
Lemmas about `Ingest.ingest`.
-/
namespace Ingest
open Ansi

theorem lastCr_none_of_not_mem (s : Bytes) (h : (0x0d : UInt8) ∉ s) : lastCr s = none := by
  induction s with
  | nil => rfl
  | cons b bs ih =>
    have hb : b ≠ 0x0d := fun e => h (by simp [e])
    have hbs : (0x0d : UInt8) ∉ bs := fun m => h (List.mem_cons_of_mem _ m)
    simp [lastCr, ih hbs, hb]

/-- `lastCr` really finds the last CR. -/
theorem lastCr_some (s : Bytes) : ∀ i, lastCr s = some i →
    s = s.take i ++ [0x0d] ++ s.drop (i + 1) ∧ (0x0d : UInt8) ∉ s.drop (i + 1) := by
  induction s with
  | nil => intro i h; simp [lastCr] at h
  | cons b bs ih =>
    intro i h
    simp only [lastCr] at h
    cases hl : lastCr bs with
    | some j =>
      simp only [hl, Option.some.injEq] at h
      subst h
      obtain ⟨h1, h2⟩ := ih j hl
      refine ⟨?_, by simpa using h2⟩
      simp only [List.take_succ_cons, List.drop_succ_cons, List.cons_append]
      congr 1
    | none =>
      simp only [hl] at h
      split at h
      · rename_i hb
        simp only [Option.some.injEq] at h
        subst h; subst hb
        refine ⟨by simp, ?_⟩
        -- no CR in `bs`, or `lastCr bs` would have found it
        intro hm
        have : ∀ t : Bytes, (0x0d : UInt8) ∈ t → lastCr t ≠ none := by
          intro t
          induction t with
          | nil => intro h; simp at h
          | cons x xs ihx =>
            intro hx
            simp only [lastCr]
            cases hxs : lastCr xs with
            | some k => simp
            | none =>
              have : x = 0x0d := by
                rcases List.mem_cons.mp hx with e | e
                · exact e.symm
                · exact absurd hxs (ihx e)
              simp [this]
        exact this bs (by simpa using hm) hl
      · simp at h

theorem not_truncates_of_small (maxLen : Nat) (r : Bytes) (h : maxLen = 0 ∨ r.length ≤ maxLen) :
    truncates maxLen r = false := by
  unfold truncates Generated.truncGuard
  rcases h with h | h
  · simp [h]
  · have : ¬ r.length > maxLen := by omega
    simp [this]

/-- The CR step either leaves the line alone or removes its last `\r`, whose tail the generated test
accepted. -/
theorem removeCr_cases (U : Uni) (raw r : Bytes) (h : removeCr U raw = .ok r) :
    r = raw ∨ ∃ a t w, raw = a ++ [0x0d] ++ t ∧ (0x0d : UInt8) ∉ t ∧ measure U t = .ok w ∧
      Generated.crRemovedWhen w t.isEmpty (t.head? == some 0x1b) = true ∧ r = a ++ t := by
  unfold removeCr at h
  cases hl : lastCr raw with
  | none => simp [hl] at h; exact Or.inl h.symm
  | some i =>
    simp only [hl] at h
    obtain ⟨hsplit, hno⟩ := lastCr_some raw i hl
    cases hm : measure U (raw.drop (i + 1)) with
    | error m => simp [hm] at h
    | ok w =>
      simp only [hm] at h
      split at h
      · rename_i hc
        simp only [Except.ok.injEq] at h
        exact Or.inr ⟨raw.take i, raw.drop (i + 1), w, hsplit, hno, hm, hc, h.symm⟩
      · simp only [Except.ok.injEq] at h
        exact Or.inl h.symm

theorem removeCr_length_le (U : Uni) (raw r : Bytes) (h : removeCr U raw = .ok r) : r.length ≤ raw.length := by
  rcases removeCr_cases U raw r h with rfl | ⟨a, t, w, h1, _, _, _, h2⟩
  · exact Nat.le_refl _
  · subst h1; subst h2; simp

theorem lastCr_split (a t : Bytes) (ht : (0x0d : UInt8) ∉ t) : lastCr (a ++ [0x0d] ++ t) = some a.length := by
  induction a with
  | nil => simp [lastCr, lastCr_none_of_not_mem t ht]
  | cons x xs ih =>
    have ih' : lastCr (xs ++ 0x0d :: t) = some xs.length := by simpa using ih
    simp [lastCr, ih']

theorem crRemovedWhen_zero (w : Nat) (e s : Bool) (h : Generated.crRemovedWhen w e s = true) : w = 0 := by
  simpa [Generated.crRemovedWhen] using h

theorem crRemovedWhen_of_zero (e s : Bool) : Generated.crRemovedWhen 0 e s = true := by
  simp [Generated.crRemovedWhen]

theorem tokBytes_app (a b : List Tok) : tokBytes (a ++ b) = tokBytes a ++ tokBytes b := by
  induction a with
  | nil => rfl
  | cons x xs ih => simp [tokBytes, ih]

theorem plainOf_app (a b : List Tok) : plainOf (a ++ b) = plainOf a ++ plainOf b := by
  induction a with
  | nil => rfl
  | cons x xs ih => cases x <;> simp [plainOf, ih]

end Ingest
