import Proofs.WrapBlock
/-
C07 helper: paired lines start on the same row; a valid alignment never panics.
-/
namespace Wrap

theorem flatMap_lineStates_length (l : List Nat) : (l.flatMap lineStates).length = l.sum := by
  induction l with
  | nil => rfl
  | cons a l ih => simp [lineStates_length, ih]

theorem blockStep_both {b b' : BSt} {m p : Nat} (h : blockStep b (some m, some p) = .ok b') :
    m = b.mExp ∧ p = b.pExp ∧ ∃ cm mc' cp pc', b.mc = cm :: mc' ∧ b.pc = cp :: pc' ∧
      b'.al = b.al
        ++ (List.range (min cm cp)).map (fun i => (some (b.mOff + i), some (b.pOff + i)))
        ++ (List.range' (b.mOff + min cm cp) (cm - min cm cp)).map (fun i => (some i, none))
        ++ (List.range' (b.pOff + min cm cp) (cp - min cm cp)).map (fun i => (none, some i)) ∧
      b'.ms = b.ms ++ lineStates cm ∧ b'.ps = b.ps ++ lineStates cp := by
  simp only [blockStep] at h
  split at h
  · cases h
  · rename_i hm
    split at h
    · cases h
    · rename_i cm mc' hmc
      split at h
      · cases h
      · rename_i hp
        split at h
        · cases h
        · rename_i cp pc' hpc
          cases h
          exact ⟨by simpa using hm, by simpa using hp, cm, mc', cp, pc', hmc, hpc, rfl, rfl, rfl⟩

/-- Paired lines start on the same row, and that row is a real-line row on both sides. -/
theorem paired_start {al : Align} {mc pc : List Nat} {al' : Align} {ms ps : List Bool}
    (h : wrapBlock al mc pc = .ok (al', ms, ps))
    {pre post : Align} {m p : Nat} (hal : al = pre ++ (some m, some p) :: post) :
    ∃ cm cp, mc[m]? = some cm ∧ pc[p]? = some cp ∧
      (0 < cm → 0 < cp →
        (some (mc.take m).sum, some (pc.take p).sum) ∈ al' ∧
        ms[(mc.take m).sum]? = some true ∧ ps[(pc.take p).sum]? = some true) := by
  unfold wrapBlock at h
  split at h
  · cases h
  · rename_i bf hbf
    cases h
    rw [hal] at hbf
    obtain ⟨b1, h1, h2⟩ := blockLoop_append pre _ _ _ hbf
    have hi1 := bInv_loop pre _ _ (bInv_init mc pc) h1
    unfold blockLoop at h2
    split at h2
    · cases h2
    · rename_i b2 hb2
      obtain ⟨hm, hp, cm, mc', cp, pc', hmc, hpc, hal2, hms2, hps2⟩ := blockStep_both hb2
      obtain ⟨_, _, _, f4⟩ := drop_cons_facts (hi1.mc ▸ hmc)
      obtain ⟨_, _, _, g4⟩ := drop_cons_facts (hi1.pc ▸ hpc)
      refine ⟨cm, cp, by rw [hm]; exact f4, by rw [hp]; exact g4, ?_⟩
      intro hcm hcp
      obtain ⟨⟨x1, k1⟩, ⟨x2, k2⟩, ⟨x3, k3⟩⟩ := blockLoop_mono post b2 bf h2
      have hmo : b1.mOff = (mc.take m).sum := by rw [hm]; exact hi1.mOff
      have hpo : b1.pOff = (pc.take p).sum := by rw [hp]; exact hi1.pOff
      have hmsl : b1.ms.length = b1.mOff := by
        rw [hi1.ms, flatMap_lineStates_length, hi1.mOff]
      have hpsl : b1.ps.length = b1.pOff := by
        rw [hi1.ps, flatMap_lineStates_length, hi1.pOff]
      refine ⟨?_, ?_, ?_⟩
      · rw [k1, hal2, ← hmo, ← hpo]
        apply List.mem_append_left
        apply List.mem_append_left
        apply List.mem_append_left
        apply List.mem_append_right
        rw [List.mem_map]
        exact ⟨0, by simp; omega, by simp⟩
      · rw [k2, hms2, ← hmo, ← hmsl]
        cases cm with
        | zero => omega
        | succ k => simp [lineStates]
      · rw [k3, hps2, ← hpo, ← hpsl]
        cases cp with
        | zero => omega
        | succ k => simp [lineStates]

/-- A well-formed alignment for `nm` minus and `np` plus lines: every minus index once, in
order; every plus index once, in order; no empty entry. (What `edits::infer_edits` returns;
C06.) -/
structure ValidAlign (al : Align) (nm np : Nat) : Prop where
  minus : al.filterMap (·.1) = List.range nm
  plus : al.filterMap (·.2) = List.range np
  noEmpty : (none, none) ∉ al

theorem blockLoop_ok : ∀ (al : Align) (b : BSt),
    al.filterMap (·.1) = List.range' b.mExp b.mc.length →
    al.filterMap (·.2) = List.range' b.pExp b.pc.length →
    (none, none) ∉ al → ∃ b', blockLoop b al = .ok b' := by
  intro al
  induction al with
  | nil => intro b _ _ _; exact ⟨b, rfl⟩
  | cons e es ih =>
    intro b hm hp hne
    obtain ⟨m, p⟩ := e
    have hne' : (none, none) ∉ es := fun h => hne (List.mem_cons_of_mem _ h)
    cases m with
    | none =>
      cases p with
      | none => exact absurd (List.mem_cons_self) hne
      | some p =>
        simp only [List.filterMap_cons] at hm hp
        match hpc : b.pc with
        | [] => rw [hpc] at hp; simp at hp
        | c :: pc' =>
          rw [hpc] at hp
          simp only [List.length_cons, List.range'_succ, List.cons.injEq] at hp
          unfold blockLoop
          simp only [blockStep, hp.1, ne_eq, not_true_eq_false, if_false, hpc]
          apply ih
          · exact hm
          · simpa using hp.2
          · exact hne'
    | some m =>
      cases p with
      | none =>
        simp only [List.filterMap_cons] at hm hp
        match hmc : b.mc with
        | [] => rw [hmc] at hm; simp at hm
        | c :: mc' =>
          rw [hmc] at hm
          simp only [List.length_cons, List.range'_succ, List.cons.injEq] at hm
          unfold blockLoop
          simp only [blockStep, hm.1, ne_eq, not_true_eq_false, if_false, hmc]
          apply ih
          · simpa using hm.2
          · exact hp
          · exact hne'
      | some p =>
        simp only [List.filterMap_cons] at hm hp
        match hmc : b.mc, hpc : b.pc with
        | [], _ => rw [hmc] at hm; simp at hm
        | _ :: _, [] => rw [hpc] at hp; simp at hp
        | cm :: mc', cp :: pc' =>
          rw [hmc] at hm
          rw [hpc] at hp
          simp only [List.length_cons, List.range'_succ, List.cons.injEq] at hm hp
          unfold blockLoop
          simp only [blockStep, hm.1, hp.1, ne_eq, not_true_eq_false, if_false, hmc, hpc]
          apply ih
          · simpa using hm.2
          · simpa using hp.2
          · exact hne'

end Wrap

namespace Wrap

theorem blockStep_exp {b b' : BSt} {e : Option Nat × Option Nat} (h : blockStep b e = .ok b') :
    b'.mExp = b.mExp + (if e.1.isSome then 1 else 0) ∧ b'.pExp = b.pExp + (if e.2.isSome then 1 else 0) := by
  obtain ⟨m, p⟩ := e
  cases m <;> cases p <;> simp only [blockStep] at h
  · cases h
  · split at h
    · cases h
    · split at h
      · cases h
      · cases h; simp
  · split at h
    · cases h
    · split at h
      · cases h
      · cases h; simp
  · split at h
    · cases h
    · split at h
      · cases h
      · split at h
        · cases h
        · split at h
          · cases h
          · cases h; simp

theorem blockLoop_exp : ∀ (al : Align) (b b' : BSt), blockLoop b al = .ok b' →
    b'.mExp = b.mExp + (al.filterMap (·.1)).length ∧ b'.pExp = b.pExp + (al.filterMap (·.2)).length := by
  intro al
  induction al with
  | nil => intro b b' h; simp [blockLoop] at h; subst h; simp
  | cons e es ih =>
    intro b b' h
    unfold blockLoop at h
    split at h
    · cases h
    · rename_i b2 hb2
      obtain ⟨h1, h2⟩ := blockStep_exp hb2
      obtain ⟨k1, k2⟩ := ih b2 b' h
      obtain ⟨m, p⟩ := e
      cases m <;> cases p <;> simp_all <;> omega

/-- Rows of the expanded alignment: every row index once per side, in order; the states are
the per-line state blocks in line order. -/
theorem block_rows {al : Align} {mc pc : List Nat} {al' : Align} {ms ps : List Bool}
    (h : wrapBlock al mc pc = .ok (al', ms, ps)) :
    al'.filterMap (·.1) = List.range ms.length ∧
    al'.filterMap (·.2) = List.range ps.length ∧
    ms = (mc.take (al.filterMap (·.1)).length).flatMap lineStates ∧
    ps = (pc.take (al.filterMap (·.2)).length).flatMap lineStates := by
  unfold wrapBlock at h
  split at h
  · cases h
  · rename_i bf hbf
    cases h
    have hi := bInv_loop al _ _ (bInv_init mc pc) hbf
    obtain ⟨e1, e2⟩ := blockLoop_exp al _ _ hbf
    simp only [initB, Nat.zero_add] at e1 e2
    refine ⟨?_, ?_, ?_, ?_⟩
    · rw [hi.alm, hi.ms, flatMap_lineStates_length, hi.mOff]
    · rw [hi.alp, hi.ps, flatMap_lineStates_length, hi.pOff]
    · rw [hi.ms, e1]
    · rw [hi.ps, e2]

theorem wrapBlock_ok {al : Align} {mc pc : List Nat} (hv : ValidAlign al mc.length pc.length) :
    ∃ r, wrapBlock al mc pc = .ok r := by
  obtain ⟨b, hb⟩ := blockLoop_ok al (initB mc pc)
    (by simp only [initB]; rw [hv.minus, List.range_eq_range'])
    (by simp only [initB]; rw [hv.plus, List.range_eq_range'])
    hv.noEmpty
  unfold wrapBlock
  rw [hb]
  exact ⟨_, rfl⟩

end Wrap
