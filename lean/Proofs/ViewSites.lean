import DeltaModel.ViewSites
namespace ViewSites
open Generated.ViewSites

theorem arms_of_inventoryOk {bs : List ViewBranch} {fs : List FnFact} (h : inventoryOk bs fs = true) :
    ∀ b ∈ bs, b.sbs = b.uni := by
  intro b hb
  simp only [inventoryOk, Bool.and_eq_true, List.all_eq_true] at h
  have := h.1 b hb
  simp only [beq_iff_eq] at this
  exact this.1.1.1.1.1

theorem effIn_view_indep {bs : List ViewBranch} (fs : List FnFact) (h : ∀ b ∈ bs, b.sbs = b.uni) (file fn : String) :
    effIn bs fs .unified file fn = effIn bs fs .sideBySide file fn := by
  unfold effIn
  cases e : bs.find? (fun b => b.file == file && b.fn == fn) with
  | none => rfl
  | some b =>
    have hb : b ∈ bs := List.mem_of_find?_eq_some e
    simp only [armOf, h b hb]

theorem runCalls_view_indep (h : ∀ b ∈ viewBranches, b.sbs = b.uni) (cs : List (String × String)) (ps : PS) :
    runCalls .unified cs ps = runCalls .sideBySide cs ps := by
  induction cs generalizing ps with
  | nil => rfl
  | cons c cs ih =>
    obtain ⟨file, fn⟩ := c
    simp only [runCalls, effOf, effIn_view_indep fnFacts h file fn]
    exact ih _

end ViewSites
