import DeltaModel.FeatureGather
/-! Termination of the guarded walk over an arbitrary (cyclic) feature graph. -/
namespace FeatureGather

theorem missing_le_length (U acc : List Name) : missing U acc ≤ U.length := by
  unfold missing; exact List.length_filter_le _ _

theorem missing_mono (U : List Name) {acc acc' : List Name} (h : ∀ x, x ∈ acc → x ∈ acc') :
    missing U acc' ≤ missing U acc := by
  unfold missing
  simp only [List.contains_eq_mem]
  induction U with
  | nil => simp
  | cons u us ih =>
    simp only [List.filter_cons]
    by_cases hu : u ∈ acc
    · have hu' := h u hu
      simp [hu, hu']; exact ih
    · by_cases hu' : u ∈ acc'
      · simp [hu, hu']; omega
      · simp [hu, hu']; exact ih

theorem missing_lt (U : List Name) {acc acc' : List Name} {f : Name} (hf : f ∈ U) (hn : f ∉ acc) (hm : f ∈ acc')
    (h : ∀ x, x ∈ acc → x ∈ acc') : missing U acc' < missing U acc := by
  induction U with
  | nil => cases hf
  | cons u us ih =>
    have hmono := missing_mono us h
    unfold missing at *
    simp only [List.contains_eq_mem] at *
    simp only [List.filter_cons]
    by_cases huf : u = f
    · subst huf
      simp [hn, hm]; omega
    · have hf' : f ∈ us := by
        cases hf with
        | head => exact absurd rfl huf
        | tail _ h' => exact h'
      have := ih hf'
      by_cases hu : u ∈ acc
      · have hu' := h u hu
        simp [hu, hu']; exact this
      · by_cases hu' : u ∈ acc'
        · simp [hu, hu']; omega
        · simp [hu, hu']; exact this

theorem foldOpt_ok (step : List Name → Name → Option (List Name)) (P : List Name → Prop) (cs : List Name)
    (hstep : ∀ a c, c ∈ cs → P a → ∃ a', step a c = some a' ∧ P a') (acc : List Name) (h0 : P acc) :
    ∃ r, foldOpt step cs acc = some r ∧ P r := by
  induction cs generalizing acc with
  | nil => exact ⟨acc, rfl, h0⟩
  | cons c cs ih =>
    obtain ⟨a', ha, hp⟩ := hstep acc c (List.mem_cons_self ..) h0
    obtain ⟨r, hr, hpr⟩ := ih (fun a c' hc hp' => hstep a c' (List.mem_cons_of_mem _ hc) hp') a' hp
    exact ⟨r, by simp [foldOpt, ha, hr], hpr⟩

section
variable (sh : Shape) (builtin : Name → Bool) (enterB leave : Name → List Name → List Name)
  (children : Name → List Name) (U : List Name)
  (hE : ∀ f acc, builtin f = true → f ∈ enterB f acc ∧ ∀ x, x ∈ acc → x ∈ enterB f acc)
  (hL : ∀ f acc x, x ∈ acc → x ∈ leave f acc)
  (hU : ∀ f c, c ∈ children f → c ∈ U)
include hE hL hU

omit hL hU in
theorem enter_sup (f : Name) (acc : List Name) : ∀ x, x ∈ acc → x ∈ enter sh builtin enterB f acc := by
  intro x hx
  unfold enter
  split
  · rename_i hb; exact (hE f acc hb).2 x hx
  · split
    · exact hx
    · exact List.mem_cons_of_mem _ hx

omit hL hU in
theorem enter_mem (f : Name) (acc : List Name) (hn : f ∉ acc) : f ∈ enter sh builtin enterB f acc := by
  unfold enter
  split
  · rename_i hb; exact (hE f acc hb).1
  · simp [hn]

/-- one level of the walk, given that the walk with fuel `n` ends for every feature that is not yet in a list with at
    most `n` names missing -/
theorem walk_succ (hg : sh.recGuarded = true) (n : Nat)
    (hQ : ∀ c a, c ∈ U → c ∉ a → missing U a ≤ n →
      ∃ r, walk sh builtin enterB leave children n c a = some r ∧ ∀ x, x ∈ a → x ∈ r)
    (f : Name) (acc : List Name) (hm : missing U (enter sh builtin enterB f acc) ≤ n) :
    ∃ r, walk sh builtin enterB leave children (n + 1) f acc = some r ∧ ∀ x, x ∈ acc → x ∈ r := by
  have hfold := foldOpt_ok
    (fun a c => if sh.recGuarded && a.contains c then some a else walk sh builtin enterB leave children n c a)
    (fun a => ∀ x, x ∈ enter sh builtin enterB f acc → x ∈ a) (children f)
    (by
      intro a c hc hp
      by_cases hca : c ∈ a
      · exact ⟨a, by simp [hg, hca], hp⟩
      · have hle : missing U a ≤ n := Nat.le_trans (missing_mono U hp) hm
        obtain ⟨r, hr, hsup⟩ := hQ c a (hU f c hc) hca hle
        exact ⟨r, by simp [hg, hca, hr], fun x hx => hsup x (hp x hx)⟩)
    (enter sh builtin enterB f acc) (fun x hx => hx)
  obtain ⟨r, hr, hp⟩ := hfold
  refine ⟨leave f r, by rw [walk, hr], ?_⟩
  intro x hx
  exact hL f r x (hp x (enter_sup sh builtin enterB hE f acc x hx))

/-- the guarded walk ends for every feature that is not yet in the list, with fuel = number of names still missing -/
theorem walk_new (hg : sh.recGuarded = true) (n : Nat) : ∀ c a, c ∈ U → c ∉ a → missing U a ≤ n →
    ∃ r, walk sh builtin enterB leave children n c a = some r ∧ ∀ x, x ∈ a → x ∈ r := by
  induction n with
  | zero =>
    intro c a hc hn hm
    have := missing_lt U hc hn (List.mem_cons_self ..) (fun x hx => List.mem_cons_of_mem c hx)
    omega
  | succ n ih =>
    intro c a hc hn hm
    apply walk_succ sh builtin enterB leave children U hE hL hU hg n ih c a
    have := missing_lt U hc hn (enter_mem sh builtin enterB hE c a hn)
      (enter_sup sh builtin enterB hE c a)
    omega

/-- **the guarded walk terminates**: from any feature (new, repeated, unknown) and any list, on any feature graph
    (cycles, self-loops) whose `features` words all belong to `U`, fuel `|U| + 1` is never used up. -/
theorem walk_terminates (hg : sh.recGuarded = true) (f : Name) (acc : List Name) :
    ∃ r, walk sh builtin enterB leave children (U.length + 1) f acc = some r ∧ ∀ x, x ∈ acc → x ∈ r := by
  apply walk_succ sh builtin enterB leave children U hE hL hU hg U.length
    (walk_new sh builtin enterB leave children U hE hL hU hg U.length) f acc
  exact missing_le_length U _

end

end FeatureGather
