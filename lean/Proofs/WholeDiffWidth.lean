import Proofs.WholeDiff
import Proofs.LineNumbersPad
set_option linter.unusedSimpArgs false
set_option linter.unusedVariables false
/-!
Helper lemmas for C05: the width of the number fields of a hunk (`hunk_max_line_number_width`, a function of
the hunk header alone) is at least the digit count of every number shown in the hunk, so that — for every
format string — the number fields of all rows of the hunk are equally wide; hunk-header coordinates over the
whole `usize` range.
-/
namespace LineNumbers.Whole
open Generated.LineNum

/-- more digits for larger numbers -/
theorem digits_length_mono : ∀ (n m : Nat), n ≤ m → (digits n).length ≤ (digits m).length := by
  intro n
  induction n using Nat.strongRecOn with
  | _ n ih =>
    intro m h
    by_cases hn : n < 10
    · rw [digits_lt n hn]
      have := digits_length_pos m
      simp only [List.length_singleton]
      omega
    · have hn' : 10 ≤ n := by omega
      have hm' : 10 ≤ m := by omega
      rw [digits_length_ge n hn', digits_length_ge m hm']
      have := ih (n / 10) (by omega) (m / 10) (Nat.div_le_div_right h)
      omega

/-- the numbers of `trueRows` lie between the start and the start plus the number of old / new lines -/
theorem trueRows_bounds : ∀ (ks : List Kind) (a c : Nat) (cell : Cell), some cell ∈ trueRows a c ks →
    (∀ n, cell.minus = some n → a ≤ n ∧ n < a + countOld ks) ∧
    (∀ n, cell.plus = some n → c ≤ n ∧ n < c + countNew ks) ∧ cell.emitL = true ∧ cell.emitR = true
  | [], _, _, _, h => by simp [trueRows] at h
  | k :: ks, a, c, cell, h => by
    simp only [trueRows, List.mem_cons] at h
    rcases h with h | h
    · have hc : cell = trueCell a c k := by simpa using h
      subst hc
      rw [countOld_cons, countNew_cons]
      cases k <;> simp [trueCell, Kind.isOld, Kind.isNew] <;> omega
    · obtain ⟨h1, h2, h3⟩ := trueRows_bounds ks _ _ cell h
      rw [countOld_cons, countNew_cons]
      refine ⟨?_, ?_, h3⟩
      · intro n hn
        have := h1 n hn
        cases k <;> simp [Kind.isOld] at this ⊢ <;> omega
      · intro n hn
        have := h2 n hn
        cases k <;> simp [Kind.isNew] at this ⊢ <;> omega

/-- a hunk does not have more old / new lines than its header announces -/
def Hunk.truthful (h : Hunk) : Prop := countOld h.ks ≤ h.b.getD 1 ∧ countNew h.ks ≤ h.d.getD 1

instance (h : Hunk) : Decidable h.truthful := by unfold Hunk.truthful; exact inferInstance

/-- every number shown in a truthful hunk has at most `h.width` digits -/
theorem width_covers (h : Hunk) (ht : h.truthful) (cell : Cell) (hc : some cell ∈ trueRows h.a h.c h.ks) :
    (∀ n, cell.minus = some n → (digits n).length ≤ h.width) ∧
    (∀ n, cell.plus = some n → (digits n).length ≤ h.width) := by
  obtain ⟨h1, h2, _⟩ := trueRows_bounds h.ks h.a h.c cell hc
  refine ⟨fun n hn => ?_, fun n hn => ?_⟩
  · have := h1 n hn
    exact digits_length_mono _ _ (by have := ht.1; omega)
  · have := h2 n hn
    exact digits_length_mono _ _ (by have := ht.2; omega)

/-! ### rendering -/

theorem formatLineNumber_length (n : Option Nat) (al : Align) (width : Nat)
    (h : ∀ k, n = some k → (digits k).length ≤ width) : (formatLineNumber n al width).length = width := by
  cases n with
  | none => simp [formatLineNumber]
  | some k =>
    obtain ⟨i, j, hp, hl⟩ := pad_shape k width al
    have := h k rfl
    simp only [formatLineNumber, hp, List.length_append, List.length_replicate]
    omega

/-- the text of a number field is as long whatever numbers (of at most `minW` digits) it shows -/
theorem renderFieldGo_length (minW : Nat) (m p : Option Nat)
    (hm : ∀ k, m = some k → (digits k).length ≤ minW) (hp : ∀ k, p = some k → (digits k).length ≤ minW) :
    ∀ (fd : List PH) (acc acc' suf : List Char), acc.length = acc'.length →
      (renderFieldGo minW m p fd acc suf).length = (renderFieldGo minW none none fd acc' suf).length
  | [], acc, acc', suf, h => by simp [renderFieldGo, h]
  | ph :: rest, acc, acc', suf, h => by
    simp only [renderFieldGo]
    apply renderFieldGo_length minW m p hm hp rest
    have hw : minW ≤ (match ph.width with | some w => max w minW | none => minW) := by
      cases ph.width <;> simp <;> omega
    simp only [List.length_append, h]
    congr 1
    rcases hph : ph.ph with _ | (_ | _ | _ | x)
    · rfl
    · rfl
    · simp only []
      exact (formatLineNumber_length m _ _ (fun k hk => Nat.le_trans (hm k hk) hw)).trans
        (formatLineNumber_length none _ _ (by intro k hk; cases hk)).symm
    · simp only []
      exact (formatLineNumber_length p _ _ (fun k hk => Nat.le_trans (hp k hk) hw)).trans
        (formatLineNumber_length none _ _ (by intro k hk; cases hk)).symm
    · rfl

theorem renderField_length (fd : List PH) (minW : Nat) (m p : Option Nat)
    (hm : ∀ k, m = some k → (digits k).length ≤ minW) (hp : ∀ k, p = some k → (digits k).length ≤ minW) :
    (renderField fd minW m p).length = (renderField fd minW none none).length :=
  renderFieldGo_length minW m p hm hp fd [] [] [] rfl

/-! ### coordinates over the whole `usize` range -/

/-- `initialize_hunk` on a two-way header, all cases: inside `usize` the width is the digit count of the
    largest `start + length`; beyond, the sum saturates or the addition panics, as the source says -/
theorem initializeHunk_two_any (a b c d : Nat) :
    initializeHunk [(a, b), (c, d)] =
      (if a + b ≤ usizeMax ∧ c + d ≤ usizeMax then .ok (⟨a, c⟩, (digits (max (a + b) (c + d))).length)
       else if maxSumSaturates = true then
         .ok (⟨a, c⟩, (digits (max (min (a + b) usizeMax) (min (c + d) usizeMax))).length)
       else .error "attempt to add with overflow") := by
  by_cases h1 : a + b ≤ usizeMax <;> by_cases h2 : c + d ≤ usizeMax <;>
    cases hs : maxSumSaturates <;>
    simp [initializeHunk, initUsesLast, maxSum, addUsizeSat, h1, h2, hs, Nat.min_def] <;>
    (try omega)

end LineNumbers.Whole
