import DeltaModel.WholeDiff
import Proofs.LineNumbersUnified
import Proofs.LineNumbersHeader
set_option linter.unusedSimpArgs false
set_option linter.unusedVariables false
/-!
Helper lemmas for C05, whole diffs: specification of a multi-file, multi-hunk input (`Hunk`, `FileSec`,
their items and the rows they must produce) and the invariant that carries the proof over hunk and file
boundaries (`settled`: rows written so far ++ the true rows of the lines still buffered).
-/
namespace LineNumbers.Whole
open Generated.HunkInit Generated.LineNum

/-! ### specification -/

/-- a hunk of a two-way diff: header `@@ -a[,b] +c[,d] @@frag` and the kinds of its lines -/
structure Hunk where
  a : Nat
  b : Option Nat
  c : Nat
  d : Option Nat
  frag : List Char
  ks : List Kind

def Hunk.pairs (h : Hunk) : List (Nat × Nat) := [(h.a, h.b.getD 1), (h.c, h.d.getD 1)]

/-- digits of the largest number the header announces -/
def Hunk.width (h : Hunk) : Nat := (digits (max (h.a + h.b.getD 1) (h.c + h.d.getD 1))).length

/-- hypotheses on a hunk: it has a line (a header followed by no hunk line is never written), its code
    fragment does not start with `@`, the numbers announced and the numbers reached fit `usize` -/
def Hunk.wf (h : Hunk) : Prop :=
  h.ks ≠ [] ∧ h.frag.head? ≠ some '@' ∧
  h.a + max (h.b.getD 1) (countOld h.ks) ≤ usizeMax ∧ h.c + max (h.d.getD 1) (countNew h.ks) ≤ usizeMax

instance (h : Hunk) : Decidable h.wf := by unfold Hunk.wf; exact inferInstance

def Hunk.items (h : Hunk) : List Item :=
  .header (fmtHunkHeader h.a h.b h.c h.d h.frag) :: h.ks.map (fun k => Item.line (some k))

/-- what a hunk of the file `minusFile → plusFile` must show: the header row with the file's path and the
    new-file start, then per line its true numbers, in fields of this hunk's width -/
def Hunk.rows (minusFile plusFile : String) (h : Hunk) : List ORow :=
  .header (headerPath minusFile plusFile) h.c ::
    (trueRows h.a h.c h.ks).map (fun cell => ORow.line cell h.width plusFile)

structure FileSec where
  minusFile : String
  plusFile : String
  hunks : List Hunk

def hunksItems : List Hunk → List Item
  | [] => []
  | h :: hs => h.items ++ hunksItems hs

def hunksRows (mf pf : String) : List Hunk → List ORow
  | [] => []
  | h :: hs => h.rows mf pf ++ hunksRows mf pf hs

def FileSec.items (f : FileSec) : List Item := .names f.minusFile f.plusFile :: hunksItems f.hunks
def FileSec.rows (f : FileSec) : List ORow := hunksRows f.minusFile f.plusFile f.hunks

def diffItems : List FileSec → List Item
  | [] => []
  | f :: fs => f.items ++ diffItems fs

def diffRows : List FileSec → List ORow
  | [] => []
  | f :: fs => f.rows ++ diffRows fs

/-! ### the generated shapes the proofs below rely on -/

theorem hunkLineOrder_eq : hunkLineOrder =
    ["test_hunk_line", "buffer_bound", "emit_hunk_header_line", "new_line_state", "emit"] := rfl

theorem emitHeaderOrder_eq : emitHeaderOrder =
    ["paint_buffered_minus_and_plus_lines", "set_highlighter", "emit", "initialize_hunk", "write_header",
     "set_highlighter"] := rfl

theorem assigns_all : assigns "line_number" = true ∧ assigns "hunk_max_line_number_width" = true ∧
    assigns "plus_file" = true := by decide

theorem initArgs_eq : initArgs = ("line_numbers_and_hunk_lengths", "self.plus_file") := rfl

theorem headerLineOps_eq : headerLineOps = ["set_state_hunk_header"] := rfl

/-! ### statements by name -/

theorem hlo_test (b : Nat) (k : Option Kind) (s : WState) : hunkLineOp b k s "test_hunk_line" = .ok s := rfl
theorem hlo_bound (b : Nat) (k : Option Kind) (s : WState) :
    hunkLineOp b k s "buffer_bound" = liftU (preFlush b) s := rfl
theorem hlo_header (b : Nat) (k : Option Kind) (s : WState) :
    hunkLineOp b k s "emit_hunk_header_line" =
      (match s.pending with | none => .ok s | some pairs => emitHeader pairs s) := rfl
theorem hlo_push (b : Nat) (k : Option Kind) (s : WState) :
    hunkLineOp b k s "new_line_state" =
      (match pushLine s.u k with | .error e => .error e | .ok u => .ok { s with u := u, pending := none }) := rfl
theorem hlo_emit (b : Nat) (k : Option Kind) (s : WState) : hunkLineOp b k s "emit" = .ok s := rfl

theorem eho_flush (p : List (Nat × Nat)) (s : WState) :
    emitHeaderOp p s "paint_buffered_minus_and_plus_lines" = liftU flushU s := rfl
theorem eho_hl (p : List (Nat × Nat)) (s : WState) : emitHeaderOp p s "set_highlighter" = .ok s := rfl
theorem eho_emit (p : List (Nat × Nat)) (s : WState) : emitHeaderOp p s "emit" = .ok s := rfl
theorem eho_init (p : List (Nat × Nat)) (s : WState) :
    emitHeaderOp p s "initialize_hunk" =
      (if initArgs.1 = "line_numbers_and_hunk_lengths" then
        match argFile s initArgs.2 with
        | .error e => .error e
        | .ok f => initializeHunkData s p f
      else .error ("model does not know the argument " ++ initArgs.1)) := rfl
theorem eho_write (p : List (Nat × Nat)) (s : WState) :
    emitHeaderOp p s "write_header" =
      (match headerNumber p with
       | .error e => .error e
       | .ok n => .ok { drain s with out := (drain s).out ++ [ORow.header (headerPath s.minusFile s.plusFile) n] }) := rfl

/-! ### the line step is `stepLineU` -/

theorem stepLineU_eq (b : Nat) (u : UState) (k : Kind) :
    stepLineU b u k =
      (match preFlush b u with | .error e => .error e | .ok u1 => pushLine u1 (some k)) := by
  unfold stepLineU preFlush
  cases k <;> rfl

theorem flushU_empty (u : UState) (hm : u.minusBuf = 0) (hp : u.plusBuf = 0) : flushU u = .ok u := by
  cases u with
  | mk c mb pb pp out =>
    simp only at hm hp
    subst hm; subst hp
    simp [flushU, paintSubhunkU]

theorem preFlush_empty (b : Nat) (u : UState) (hm : u.minusBuf = 0) (hp : u.plusBuf = 0) :
    preFlush b u = .ok u := by
  unfold preFlush
  split
  · exact flushU_empty u hm hp
  · rfl

/-- a hunk line met when no header is pending -/
theorem hunkLine_plain (b : Nat) (k : Kind) (s : WState) (hin : s.inHunk = true) (hp : s.pending = none) :
    hunkLine b (some k) s =
      (match stepLineU b s.u k with | .error e => .error e | .ok u => .ok { s with u := u }) := by
  unfold hunkLine
  simp only [hin, Bool.not_true, Bool.false_eq_true, if_false, hunkLineOrder_eq, hunkLineOps, hlo_test,
    hlo_bound, liftU, stepLineU_eq]
  cases h1 : preFlush b s.u with
  | error e => rfl
  | ok u1 =>
    simp only [hlo_header, hp, hlo_push]
    cases h2 : pushLine u1 (some k) with
    | error e => rfl
    | ok u2 =>
      simp only [hlo_emit]

/-- the lines of a hunk after the first: the unified counter machine of `LineNumbers` -/
theorem lines_plain (b : Nat) : ∀ (ks : List Kind) (s : WState), s.inHunk = true → s.pending = none →
    stepItems b s (ks.map (fun k => Item.line (some k))) =
      (match stepLinesU b s.u ks with | .error e => .error e | .ok u => .ok { s with u := u })
  | [], s, _, _ => by simp [stepItems, stepLinesU]
  | k :: ks, s, hin, hp => by
    simp only [List.map_cons, stepItems, stepItem, hunkLine_plain b k s hin hp, stepLinesU]
    cases h1 : stepLineU b s.u k with
    | error e => rfl
    | ok u1 =>
      simp only []
      rw [lines_plain b ks { s with u := u1 } hin hp]

/-! ### the invariant -/

/-- rows written so far, then what the cells painted since the last initialisation and the lines still
    buffered must come out as -/
def settled (s : WState) : List ORow :=
  s.out ++ (s.u.out ++ trueRows s.u.c.left s.u.c.right (pending s.u.minusBuf s.u.plusBuf)).map
    (fun c => ORow.line c s.width s.lnPlusFile)

/-- the numbers of the buffered lines fit `usize` -/
def Fits (s : WState) : Prop :=
  s.u.c.left + s.u.minusBuf ≤ usizeMax ∧ s.u.c.right + s.u.plusBuf ≤ usizeMax

/-- the buffer bound followed by a flush: the buffered lines come out with their true numbers -/
theorem preFlush_flush (b : Nat) (u : UState)
    (h : u.c.left + u.minusBuf ≤ usizeMax) (h' : u.c.right + u.plusBuf ≤ usizeMax) :
    ∃ u1, preFlush b u = .ok u1 ∧
      flushU u1 = .ok ⟨⟨u.c.left + u.minusBuf, u.c.right + u.plusBuf⟩, 0, 0, u.prevPlus,
        u.out ++ trueRows u.c.left u.c.right (pending u.minusBuf u.plusBuf)⟩ := by
  unfold preFlush
  split
  · refine ⟨_, flushU_spec u h h', ?_⟩
    rw [flushU_empty _ rfl rfl]
  · exact ⟨u, rfl, flushU_spec u h h'⟩

/-- the state after `emit_hunk_header_line` for the header `[(a, b), (c, d)]` -/
def afterHeader (s : WState) (a b c d : Nat) : WState :=
  { s with
    u := ⟨⟨a, c⟩, 0, 0, s.u.prevPlus, []⟩,
    width := (digits (max (a + b) (c + d))).length,
    lnPlusFile := s.plusFile,
    pending := none,
    out := s.out ++ (s.u.out ++ trueRows s.u.c.left s.u.c.right (pending s.u.minusBuf s.u.plusBuf)).map
        (fun x => ORow.line x s.width s.lnPlusFile) ++ [ORow.header (headerPath s.minusFile s.plusFile) c] }

/-- the first line after an `@@` line: the buffered lines of the previous hunk are painted with the old
    counters / width / plus-file, then everything is re-initialised from this header, the header row is
    written, and the line is handled from the fresh state -/
theorem first_line (bsz : Nat) (k : Kind) (s : WState) (a b c d : Nat)
    (hin : s.inHunk = true) (hp : s.pending = some [(a, b), (c, d)]) (hf : Fits s)
    (hab : a + b ≤ usizeMax) (hcd : c + d ≤ usizeMax) :
    hunkLine bsz (some k) s =
      (match stepLineU bsz (afterHeader s a b c d).u k with
       | .error e => .error e
       | .ok u => .ok { afterHeader s a b c d with u := u }) := by
  obtain ⟨u1, hpf, hfl⟩ := preFlush_flush bsz s.u hf.1 hf.2
  unfold hunkLine
  simp only [hin, Bool.not_true, Bool.false_eq_true, if_false, hunkLineOrder_eq, hunkLineOps, hlo_test,
    hlo_bound, liftU, hpf, hlo_header, hp, emitHeader, emitHeaderOrder_eq, emitHeaderOps, eho_flush, hfl,
    eho_hl, eho_emit, eho_init, initArgs_eq, argFile, if_true, initializeHunkData,
    initializeHunk_two a b c d hab hcd, assigns_all, drain, eho_write, headerNumber_two, hlo_push, hlo_emit]
  rw [stepLineU_eq, preFlush_empty bsz (afterHeader s a b c d).u rfl rfl]
  simp only [afterHeader, List.map_nil, List.append_nil]
  cases pushLine ⟨⟨a, c⟩, 0, 0, s.u.prevPlus, []⟩ (some k) <;> simp [hin]

theorem stepItems_append (b : Nat) : ∀ (xs ys : List Item) (s : WState),
    stepItems b s (xs ++ ys) =
      (match stepItems b s xs with | .error e => .error e | .ok s1 => stepItems b s1 ys)
  | [], ys, s => rfl
  | x :: xs, ys, s => by
    simp only [List.cons_append, stepItems]
    cases stepItem b s x with
    | error e => rfl
    | ok s1 => exact stepItems_append b xs ys s1

theorem stepLinesU_cons_ok {b : Nat} {u u' : UState} {k : Kind} {ks : List Kind}
    (e : stepLinesU b u (k :: ks) = .ok u') : ∃ u1, stepLineU b u k = .ok u1 ∧ stepLinesU b u1 ks = .ok u' := by
  simp only [stepLinesU] at e
  split at e
  · cases e
  · rename_i u1 e1; exact ⟨u1, e1, e⟩

/-- **one hunk, from any state the previous hunks / files left behind**: its items run without error, and add
    exactly the hunk's rows (header row with this file's path and this header's new-file start; every line with
    its true numbers counted from this header's starts, in fields of this header's width, under this file's
    plus-file name) to what the earlier input settles to. Nothing of the state before survives except the rows. -/
theorem hunk_spec (bsz : Nat) (h : Hunk) (hw : h.wf) (s : WState) (hf : Fits s) :
    ∃ s', stepItems bsz s h.items = .ok s' ∧
      settled s' = settled s ++ h.rows s.minusFile s.plusFile ∧ Fits s' ∧
      s'.minusFile = s.minusFile ∧ s'.plusFile = s.plusFile := by
  obtain ⟨hne, hfrag, ha, hc⟩ := hw
  cases hks : h.ks with
  | nil => exact absurd hks hne
  | cons k rest =>
    rw [hks] at ha hc
    have hab : h.a + h.b.getD 1 ≤ usizeMax := by omega
    have hcd : h.c + h.d.getD 1 ≤ usizeMax := by omega
    have hparse := parseHunkHeader_fmt h.a h.b h.c h.d h.frag hfrag (by omega)
      (by intro x hx; rw [hx] at hab; simp at hab; omega) (by omega)
      (by intro x hx; rw [hx] at hcd; simp at hcd; omega)
    -- the header line is parked
    let s1 : WState := { s with pending := some [(h.a, h.b.getD 1), (h.c, h.d.getD 1)], inHunk := true,
                                u := { s.u with prevPlus := false } }
    have hf1 : Fits s1 := hf
    have hfirst := first_line bsz k s1 h.a (h.b.getD 1) h.c (h.d.getD 1) rfl rfl hf1 hab hcd
    -- the lines: the unified counter machine from the fresh state
    obtain ⟨u', hrun, htot, hl, hr⟩ := stepLinesU_spec bsz (k :: rest) (afterHeader s1 h.a (h.b.getD 1) h.c (h.d.getD 1)).u
      (by intro hp; simp [afterHeader] at hp) (by simp [afterHeader]; omega) (by simp [afterHeader]; omega)
    obtain ⟨u1, hu1, hrest⟩ := stepLinesU_cons_ok hrun
    refine ⟨{ afterHeader s1 h.a (h.b.getD 1) h.c (h.d.getD 1) with u := u' }, ?_, ?_, ?_, rfl, rfl⟩
    · simp only [Hunk.items, hks, List.map_cons, stepItems, stepItem, headerLine, hparse, headerLineOps_eq, if_true]
      show (match hunkLine bsz (some k) s1 with
        | Except.error e => Except.error e
        | Except.ok s' => stepItems bsz s' (rest.map fun k => Item.line (some k))) = _
      rw [hfirst, hu1]
      simp only []
      rw [lines_plain bsz rest _ rfl rfl, hrest]
    · simp only [UState.total, List.append_nil, afterHeader, pending_zero, List.nil_append] at htot
      simp only [settled, htot, Hunk.rows, hks, Hunk.width, afterHeader, List.append_assoc, List.cons_append,
        List.nil_append, s1]
    · simp only [afterHeader, Nat.add_zero] at hl hr
      exact ⟨by show u'.c.left + u'.minusBuf ≤ usizeMax; omega, by show u'.c.right + u'.plusBuf ≤ usizeMax; omega⟩

/-- the state after the header lines of a file section -/
def afterNames (s : WState) (mf pf : String) : WState :=
  { s with
    u := { c := ⟨s.u.c.left + s.u.minusBuf, s.u.c.right + s.u.plusBuf⟩, minusBuf := 0, plusBuf := 0,
           prevPlus := false,
           out := s.u.out ++ trueRows s.u.c.left s.u.c.right (LineNumbers.pending s.u.minusBuf s.u.plusBuf) },
    minusFile := mf, plusFile := pf, pending := none, inHunk := false }

/-- the header lines of a file section: buffered lines are painted (old counters), nothing else is shown -/
theorem names_spec (bsz : Nat) (mf pf : String) (s : WState) (hf : Fits s) :
    ∃ s', stepItem bsz s (.names mf pf) = .ok s' ∧ settled s' = settled s ∧ Fits s' ∧
      s'.minusFile = mf ∧ s'.plusFile = pf := by
  have hfl := flushU_spec s.u hf.1 hf.2
  refine ⟨afterNames s mf pf, by simp only [stepItem, liftU, hfl, afterNames], ?_, ?_, rfl, rfl⟩
  · simp [settled, afterNames, pending_zero, trueRows]
  · exact ⟨by simpa [afterNames] using hf.1, by simpa [afterNames] using hf.2⟩

theorem hunks_spec (bsz : Nat) : ∀ (hs : List Hunk), (∀ h ∈ hs, h.wf) → ∀ (s : WState), Fits s →
    ∃ s', stepItems bsz s (hunksItems hs) = .ok s' ∧
      settled s' = settled s ++ hunksRows s.minusFile s.plusFile hs ∧ Fits s' ∧
      s'.minusFile = s.minusFile ∧ s'.plusFile = s.plusFile
  | [], _, s, hf => ⟨s, rfl, by simp [hunksRows], hf, rfl, rfl⟩
  | h :: hs, hw, s, hf => by
    obtain ⟨s1, e1, hs1, hf1, hm1, hp1⟩ := hunk_spec bsz h (hw h (List.mem_cons_self ..)) s hf
    obtain ⟨s2, e2, hs2, hf2, hm2, hp2⟩ := hunks_spec bsz hs (fun x hx => hw x (List.mem_cons_of_mem _ hx)) s1 hf1
    refine ⟨s2, ?_, ?_, hf2, by rw [hm2, hm1], by rw [hp2, hp1]⟩
    · simp only [hunksItems]
      rw [stepItems_append, e1]
      exact e2
    · rw [hs2, hs1, hm1, hp1]; simp [hunksRows]

theorem files_spec (bsz : Nat) : ∀ (fs : List FileSec), (∀ f ∈ fs, ∀ h ∈ f.hunks, h.wf) → ∀ (s : WState), Fits s →
    ∃ s', stepItems bsz s (diffItems fs) = .ok s' ∧ settled s' = settled s ++ diffRows fs ∧ Fits s'
  | [], _, s, hf => ⟨s, rfl, by simp [diffRows], hf⟩
  | f :: fs, hw, s, hf => by
    obtain ⟨s1, e1, hs1, hf1, hm1, hp1⟩ := names_spec bsz f.minusFile f.plusFile s hf
    obtain ⟨s2, e2, hs2, hf2, _, _⟩ := hunks_spec bsz f.hunks (hw f (List.mem_cons_self ..)) s1 hf1
    obtain ⟨s3, e3, hs3, hf3⟩ := files_spec bsz fs (fun x hx => hw x (List.mem_cons_of_mem _ hx)) s2 hf2
    refine ⟨s3, ?_, ?_, hf3⟩
    · simp only [diffItems, FileSec.items, List.cons_append, stepItems, e1]
      rw [stepItems_append, e2]
      exact e3
    · rw [hs3, hs2, hs1, hm1, hp1]; simp [diffRows, FileSec.rows]

/-- **whole diffs**: the run over all files and hunks ends normally and its rows are, file by file and hunk
    by hunk, the header row and the truly numbered lines of that hunk -/
theorem runWhole_spec (bsz : Nat) (fs : List FileSec) (hw : ∀ f ∈ fs, ∀ h ∈ f.hunks, h.wf) :
    runWhole bsz (diffItems fs) = .ok (diffRows fs) := by
  obtain ⟨s1, e1, hs1, hf1⟩ := files_spec bsz fs hw {} ⟨by decide, by decide⟩
  have hfl := flushU_spec s1.u hf1.1 hf1.2
  have h0 : settled ({} : WState) = [] := by simp [settled, pending_zero, trueRows]
  simp only [runWhole, e1, liftU, hfl, drain]
  rw [h0, List.nil_append] at hs1
  rw [← hs1]
  simp [settled]

end LineNumbers.Whole
