import Proofs.WrapWidth
import Proofs.WrapProgress
/-
C07 helper: assembling the loop invariants and `finish` into statements about `wrapFull`.
-/
namespace Wrap

structure InvR (lw : Nat) (st : St) : Prop where
  nonempty : ∀ r ∈ st.result, r ≠ []
  wide : st.result ≠ [] → 2 ≤ lw

theorem invR_init (lw : Nat) (line : List Sec) : InvR lw (initSt line) :=
  ⟨by simp [initSt], by simp [initSt]⟩

theorem invR_step {fx : Fixes} {cfg : Cfg} {sym lw : Nat} (st st' : St) (hi : InvR lw st)
    (h : StepRel fx cfg sym lw st st') : InvR lw st' := by
  obtain ⟨hn, hw⟩ := hi
  cases h with
  | push style gs rest hs hl hfit => exact ⟨hn, hw⟩
  | nl style gs rest hs hl heq hnl => exact ⟨hn, hw⟩
  | split0 style gs rest hs hl hge hnf hns hw0 =>
    refine ⟨?_, fun _ => lw_ge_two_of_not_limit hl⟩
    intro r hr
    simp only [List.mem_append, List.mem_singleton] at hr
    cases hr with
    | inl h => exact hn r h
    | inr h => subst h; simp
  | splitk style gs rest hs hl hge hnf hns hw0 =>
    refine ⟨?_, fun _ => lw_ge_two_of_not_limit hl⟩
    intro r hr
    simp only [List.mem_append, List.mem_singleton] at hr
    cases hr with
    | inl h => exact hn r h
    | inr h => subst h; simp

/-- What is known about the state in which the loop stops. -/
theorem loop_spec {fx : Fixes} {cfg : Cfg} {line : List Sec} {lw sym : Nat} {st : St} {stop : Stop}
    (hz : NlZero line)
    (hloop : loop fx cfg sym lw (fuelFor cfg lw line) (initSt line) = some (st, stop)) :
    InvL cfg lw line st ∧ InvR lw st ∧
      (cfg.leftSym.w ≤ 1 → InvW fx cfg sym lw st) ∧
      (Fits cfg lw line → Fits cfg lw st.stack) ∧
      step fx cfg sym lw st = .done stop := by
  have hinv := loop_inv (fx := fx) (cfg := cfg) (sym := sym) (lw := lw)
    (fun st => InvL cfg lw line st ∧ InvR lw st ∧
      (cfg.leftSym.w ≤ 1 → InvW fx cfg sym lw st) ∧ (Fits cfg lw line → Fits cfg lw st.stack))
    (by
      intro s s' ⟨a, b, c, d⟩ hs
      exact ⟨invL_step s s' a hs, invR_step s s' b hs,
        fun hw => invW_step hw s s' a (c hw) hs, fun hf => fits_step (d hf) hs⟩)
    _ _ _ _ ⟨invL_init cfg lw line hz, invR_init lw line, fun _ => invW_init fx cfg _ lw line, fun hf => hf⟩ hloop
  obtain ⟨⟨a, b, c, d⟩, hd⟩ := hinv
  exact ⟨a, b, c, d, hd⟩

/-- `wrapFullF` is the loop followed by `finish`. -/
theorem wrapFull_loop {fx : Fixes} {cfg : Cfg} {line : List Sec} {lw fill : Nat} {hint : Option Nat} {o : Out}
    (h : wrapFullF fx cfg line lw fill hint = .ok o) :
    ∃ st stop, loop fx cfg (symStyleOf fill hint) lw (fuelFor cfg lw line) (initSt line) = some (st, stop) ∧
      finish cfg fill (symStyleOf fill hint) lw st stop = .ok o := by
  unfold wrapFullF at h
  split at h
  · cases h
  · rename_i st stop hloop
    exact ⟨st, stop, hloop, h⟩

/-- What is known about a successful run of `wrapFullF`. -/
theorem wrapFull_spec {fx : Fixes} {cfg : Cfg} {line : List Sec} {lw fill : Nat} {hint : Option Nat} {o : Out}
    (hz : NlZero line) (h : wrapFullF fx cfg line lw fill hint = .ok o) :
    ∃ st stop, InvL cfg lw line st ∧ InvR lw st ∧
      (cfg.leftSym.w ≤ 1 → InvW fx cfg (symStyleOf fill hint) lw st) ∧
      (Fits cfg lw line → Fits cfg lw st.stack) ∧
      step fx cfg (symStyleOf fill hint) lw st = .done stop ∧
      FinishShape cfg fill (symStyleOf fill hint) lw st stop o := by
  obtain ⟨st, stop, hloop, hf⟩ := wrapFull_loop h
  obtain ⟨a, b, c, d, hd⟩ := loop_spec hz hloop
  exact ⟨st, stop, a, b, c, d, hd, finish_shape a b.nonempty hd hf⟩

theorem rightAlign_no_panic {cfg : Cfg} {fill sym lw : Nat} {st : St}
    (hr : InvR lw st) : ∃ x, rightAlign cfg fill sym lw st = .ok x := by
  unfold rightAlign
  by_cases h1 : st.result.length = 1 ∧ 0 < st.len
  · rw [if_pos h1]
    have hne : st.result ≠ [] := by intro h; rw [h] at h1; simp at h1
    have hlw : ¬ lw = 0 := by have := hr.wide hne; omega
    rw [if_neg hlw]
    simp only
    by_cases h2 : st.len * Generated.permilleFactor / lw < cfg.permille ∧ 0 < lw - (st.len + cfg.rightPrefixSym.w)
    · rw [if_pos h2]
      match hres : st.result, h1.1 with
      | [r], _ =>
        have hrne : r ≠ [] := hr.nonempty r (by rw [hres]; simp)
        simp [hrne]
    · rw [if_neg h2]
      exact ⟨_, rfl⟩
  · rw [if_neg h1]
    exact ⟨_, rfl⟩

/-- `finish` has no reachable panic point. -/
theorem finish_no_panic {cfg : Cfg} {fill sym lw : Nat} {st : St} {stop : Stop}
    (hr : InvR lw st) : ∃ o, finish cfg fill sym lw st stop = .ok o := by
  obtain ⟨x, hx⟩ := rightAlign_no_panic (cfg := cfg) (fill := fill) (sym := sym) hr
  unfold finish
  rw [hx]
  exact ⟨_, rfl⟩

theorem wrapFull_result (fx : Fixes) (cfg : Cfg) (line : List Sec) (lw fill : Nat) (hint : Option Nat) :
    wrapFullF fx cfg line lw fill hint = .error .hang ∨ ∃ o, wrapFullF fx cfg line lw fill hint = .ok o := by
  unfold wrapFullF
  split
  · left; rfl
  · rename_i st stop hloop
    right
    have hinv := loop_inv (fx := fx) (cfg := cfg) (sym := symStyleOf fill hint) (lw := lw) (fun st => InvR lw st)
      (fun s s' a hs => invR_step s s' a hs) _ _ _ _ (invR_init lw line) hloop
    exact finish_no_panic hinv.1

/-- Termination of the loop gives a result of `wrapFullF`. -/
theorem wrapFull_ok_of_loop {fx : Fixes} {cfg : Cfg} {line : List Sec} {lw fill : Nat} {hint : Option Nat}
    (h : ∃ r, loop fx cfg (symStyleOf fill hint) lw (fuelFor cfg lw line) (initSt line) = some r) :
    ∃ o, wrapFullF fx cfg line lw fill hint = .ok o := by
  obtain ⟨r, hr⟩ := h
  cases wrapFull_result fx cfg line lw fill hint with
  | inl hh =>
    unfold wrapFullF at hh
    rw [hr] at hh
    obtain ⟨o, ho⟩ := finish_no_panic (cfg := cfg) (fill := fill) (sym := symStyleOf fill hint) (lw := lw)
      (st := r.1) (stop := r.2)
      ((loop_inv (fx := fx) (cfg := cfg) (sym := symStyleOf fill hint) (lw := lw) (fun st => InvR lw st)
        (fun s s' a hs => invR_step s s' a hs) _ _ r.1 r.2 (invR_init lw line) hr).1)
    simp only [ho] at hh
    cases hh
  | inr ho => exact ho

end Wrap
