import DeltaModel.WholeDiffSbs
import Proofs.LineNumbersSbs2
import Proofs.LineNumbersUnified
set_option linter.unusedSimpArgs false
set_option linter.unusedVariables false
/-!
Helper lemmas for C05, whole runs in the side-by-side view, part 1: the lines of one hunk.

`Adv al u u' bs added`: from painter state `u` to `u'` the blocks `bs` were painted — their rows are
`hunkSpec` from the counters of `u`, the counters advanced by the blocks' lines — and `added` is what came in:
(lines of the painted blocks) ++ (lines buffered in `u'`) = (lines buffered in `u`) ++ `added`. The steps of
`handle_hunk_line` are compositions of four primitive `Adv`s (flush, buffer a removed line, buffer an added line,
paint an unchanged line).
-/
namespace LineNumbers.WholeSbs
open Generated.HunkInit Generated.SbsDispatch Generated.LineNum LineNumbers.Whole

/-! ### specification vocabulary -/

abbrev LK := Kind × SLine

/-- buffered lines of a subhunk, in input order -/
def pend (mb pb : List SLine) : List LK := mb.map (fun l => (Kind.minus, l)) ++ pb.map (fun l => (Kind.plus, l))

/-- the hunk lines a block paints, in input order -/
def SBlock.flat : SBlock → List LK
  | .zero l => [(Kind.ctx, l)]
  | .sub ms ps => pend ms ps

def flatAll : List SBlock → List LK
  | [] => []
  | b :: bs => b.flat ++ flatAll bs

/-- every line of the block occupies at least one display row -/
def SBlock.wf : SBlock → Prop
  | .zero _ => True
  | .sub ms ps => (∀ l ∈ ms, 1 ≤ l.rows) ∧ (∀ l ∈ ps, 1 ≤ l.rows)

/-- the alignment function uses every buffered line once and in order, whatever it is given
    (what `infer_edits` produces and `wrap_minusplus_block` asserts) -/
def ValidAlign (al : AlignOf) : Prop := ∀ ms ps, validFrom (al ms ps) 0 0 = some (ms.length, ps.length)

def blocksOf (al : AlignOf) (bs : List SBlock) : List Block := bs.map (·.toBlock al)

/-- what the rows of the blocks `bs` must show when the first one starts at old / new line `a` / `c` -/
def specRows (al : AlignOf) (a c : Nat) (bs : List SBlock) : List (Option Nat × Option Nat) :=
  hunkSpec a c (blocksOf al bs)

def tOld (al : AlignOf) (bs : List SBlock) : Nat := totalOld (blocksOf al bs)
def tNew (al : AlignOf) (bs : List SBlock) : Nat := totalNew (blocksOf al bs)

def cntOld (ls : List LK) : Nat := countOld (ls.map (·.1))
def cntNew (ls : List LK) : Nat := countNew (ls.map (·.1))

theorem toBlock_wf (al : AlignOf) (hal : ValidAlign al) (b : SBlock) (hb : b.wf) : (b.toBlock al).wf := by
  cases b with
  | zero l => trivial
  | sub ms ps =>
    refine ⟨hal ms ps, by simp, by simp, ?_, ?_⟩
    · intro x hx
      obtain ⟨l, hl, rfl⟩ := List.mem_map.mp hx
      exact hb.1 l hl
    · intro x hx
      obtain ⟨l, hl, rfl⟩ := List.mem_map.mp hx
      exact hb.2 l hl

theorem blocksOf_wf (al : AlignOf) (hal : ValidAlign al) (bs : List SBlock) (hb : ∀ b ∈ bs, b.wf) :
    ∀ b ∈ blocksOf al bs, b.wf := by
  intro b hb'
  obtain ⟨sb, hsb, rfl⟩ := List.mem_map.mp hb'
  exact toBlock_wf al hal sb (hb sb hsb)

theorem totalOld_append (xs ys : List Block) : totalOld (xs ++ ys) = totalOld xs + totalOld ys := by
  induction xs with
  | nil => simp [totalOld]
  | cons b xs ih => simp [totalOld, ih, Nat.add_assoc]

theorem totalNew_append (xs ys : List Block) : totalNew (xs ++ ys) = totalNew xs + totalNew ys := by
  induction xs with
  | nil => simp [totalNew]
  | cons b xs ih => simp [totalNew, ih, Nat.add_assoc]

theorem hunkSpec_append (xs ys : List Block) : ∀ (a c : Nat),
    hunkSpec a c (xs ++ ys) = hunkSpec a c xs ++ hunkSpec (a + totalOld xs) (c + totalNew xs) ys := by
  induction xs with
  | nil => intro a c; simp [hunkSpec, totalOld, totalNew]
  | cons b xs ih => intro a c; simp [hunkSpec, totalOld, totalNew, ih, Nat.add_assoc]

theorem tOld_append (al : AlignOf) (xs ys : List SBlock) : tOld al (xs ++ ys) = tOld al xs + tOld al ys := by
  simp [tOld, blocksOf, totalOld_append]

theorem tNew_append (al : AlignOf) (xs ys : List SBlock) : tNew al (xs ++ ys) = tNew al xs + tNew al ys := by
  simp [tNew, blocksOf, totalNew_append]

theorem specRows_append (al : AlignOf) (xs ys : List SBlock) (a c : Nat) :
    specRows al a c (xs ++ ys) = specRows al a c xs ++ specRows al (a + tOld al xs) (c + tNew al xs) ys := by
  simp [specRows, tOld, tNew, blocksOf, hunkSpec_append]

theorem flatAll_append (xs ys : List SBlock) : flatAll (xs ++ ys) = flatAll xs ++ flatAll ys := by
  induction xs with
  | nil => rfl
  | cons b xs ih => simp [flatAll, ih, List.append_assoc]

theorem cntOld_append (xs ys : List LK) : cntOld (xs ++ ys) = cntOld xs + cntOld ys := by
  simp [cntOld, countOld_append]

theorem cntNew_append (xs ys : List LK) : cntNew (xs ++ ys) = cntNew xs + cntNew ys := by
  simp [cntNew, countNew_append]

theorem cnt_pend (mb pb : List SLine) : cntOld (pend mb pb) = mb.length ∧ cntNew (pend mb pb) = pb.length := by
  have h1 : ∀ (l : List SLine), countOld (l.map (fun _ => Kind.minus)) = l.length ∧ countNew (l.map (fun _ => Kind.minus)) = 0 := by
    intro l; induction l with
    | nil => exact ⟨rfl, rfl⟩
    | cons x l ih => simp [countOld_cons, countNew_cons, ih.1, ih.2, Kind.isOld, Kind.isNew]; omega
  have h2 : ∀ (l : List SLine), countOld (l.map (fun _ => Kind.plus)) = 0 ∧ countNew (l.map (fun _ => Kind.plus)) = l.length := by
    intro l; induction l with
    | nil => exact ⟨rfl, rfl⟩
    | cons x l ih => simp [countOld_cons, countNew_cons, ih.1, ih.2, Kind.isOld, Kind.isNew]; omega
  simp [cntOld, cntNew, pend, countOld_append, countNew_append, List.map_map, Function.comp_def, h1, h2]

theorem cnt_flatAll (al : AlignOf) (bs : List SBlock) :
    cntOld (flatAll bs) = tOld al bs ∧ cntNew (flatAll bs) = tNew al bs := by
  induction bs with
  | nil => exact ⟨rfl, rfl⟩
  | cons b bs ih =>
    cases b with
    | zero l =>
      simp only [flatAll, SBlock.flat, cntOld_append, cntNew_append, ih.1, ih.2, tOld, tNew, blocksOf, List.map_cons,
        SBlock.toBlock, totalOld, totalNew, Block.old, Block.new]
      exact ⟨by simp [cntOld, countOld, Kind.isOld, List.filter], by simp [cntNew, countNew, Kind.isNew, List.filter]⟩
    | sub ms ps =>
      simp only [flatAll, SBlock.flat, cntOld_append, cntNew_append, ih.1, ih.2, tOld, tNew, blocksOf, List.map_cons,
        SBlock.toBlock, totalOld, totalNew, Block.old, Block.new, (cnt_pend ms ps).1, (cnt_pend ms ps).2, and_self]

/-! ### the generated shapes the proofs rely on -/

theorem bufferedOrder_eq : bufferedOrder =
    ["return_if_both_empty", "paint_minus_and_plus_lines", "clear_minus_lines", "clear_plus_lines"] := rfl

theorem painterKnown_all (b : SBlock) : painterKnown b = true := by
  cases b <;> rfl

/-! ### one block -/

/-- one block through the side-by-side painter: the rows are `blockSpec` from the current counters, the counters
    advance by the lines of the block -/
theorem paintBlockS_spec (al : AlignOf) (hal : ValidAlign al) (u : SU) (b : SBlock) (hb : b.wf)
    (hl : u.c.left + tOld al [b] + 1 ≤ usizeMax) (hr : u.c.right + tNew al [b] + 1 ≤ usizeMax) :
    ∃ rows, paintBlockS al u b =
        .ok { u with c := ⟨u.c.left + tOld al [b], u.c.right + tNew al [b]⟩, out := u.out ++ rows } ∧
      rows.map SbsRow.shown = (specRows al u.c.left u.c.right [b]).map some := by
  obtain ⟨rows, hrun, hs⟩ := runBlocksSbs_spec (blocksOf al [b]) u.c.left u.c.right
    (blocksOf_wf al hal [b] (by intro x hx; simp at hx; subst hx; exact hb)) hl hr
  refine ⟨rows, ?_, hs⟩
  have hc : u.c = ⟨u.c.left, u.c.right⟩ := rfl
  unfold paintBlockS
  rw [painterKnown_all, if_pos rfl, hc]
  simp only [blocksOf, List.map_cons, List.map_nil] at hrun
  rw [hrun]
  rfl

/-! ### the flush -/

theorem flushS_empty (al : AlignOf) (u : SU) (hm : u.minusBuf = []) (hp : u.plusBuf = []) : flushS al u = .ok u := by
  simp [flushS, bufferedOrder_eq, flushOpsS, flushOpS, hm, hp]

theorem flo_ret (al : AlignOf) (u : SU) :
    flushOpS al u "return_if_both_empty" = .ok (u, u.minusBuf.isEmpty && u.plusBuf.isEmpty) := rfl
theorem flo_paint (al : AlignOf) (u : SU) :
    flushOpS al u "paint_minus_and_plus_lines" =
      (match paintBlockS al u (.sub u.minusBuf u.plusBuf) with
       | .error e => .error e
       | .ok u1 => .ok (u1, false)) := rfl
theorem flo_cm (al : AlignOf) (u : SU) :
    flushOpS al u "clear_minus_lines" = .ok ({ u with minusBuf := [] }, false) := rfl
theorem flo_cp (al : AlignOf) (u : SU) :
    flushOpS al u "clear_plus_lines" = .ok ({ u with plusBuf := [] }, false) := rfl

/-- the buffered lines fit: every one has a display row, and their numbers stay inside `usize` (one to spare:
    the left counter is transiently one ahead in the row loop) -/
structure BufOk (u : SU) (n m : Nat) : Prop where
  rowsM : ∀ l ∈ u.minusBuf, 1 ≤ l.rows
  rowsP : ∀ l ∈ u.plusBuf, 1 ≤ l.rows
  left : u.c.left + u.minusBuf.length + n + 1 ≤ usizeMax
  right : u.c.right + u.plusBuf.length + m + 1 ≤ usizeMax

/-- the state a flush leaves, given the rows it painted -/
def flushed (u : SU) (rows : List SbsRow) : SU :=
  ⟨⟨u.c.left + u.minusBuf.length, u.c.right + u.plusBuf.length⟩, [], [], u.prevPlus, u.out ++ rows⟩

theorem tOld_sub (al : AlignOf) (ms ps : List SLine) : tOld al [.sub ms ps] = ms.length ∧ tNew al [.sub ms ps] = ps.length := by
  simp [tOld, tNew, blocksOf, SBlock.toBlock, totalOld, totalNew, Block.old, Block.new]

theorem tOld_zero (al : AlignOf) (l : SLine) : tOld al [.zero l] = 1 ∧ tNew al [.zero l] = 1 := by
  simp [tOld, tNew, blocksOf, SBlock.toBlock, totalOld, totalNew, Block.old, Block.new]

/-- `paint_buffered_minus_and_plus_lines`: the buffered lines are painted as ONE subhunk, the buffers are empty
    afterwards -/
theorem flushS_spec (al : AlignOf) (hal : ValidAlign al) (u : SU) (n m : Nat) (ok : BufOk u n m) :
    ∃ rows, flushS al u = .ok (flushed u rows) ∧
      rows.map SbsRow.shown = (specRows al u.c.left u.c.right [.sub u.minusBuf u.plusBuf]).map some := by
  by_cases he : (u.minusBuf.isEmpty && u.plusBuf.isEmpty) = true
  · have hm : u.minusBuf = [] := by
      cases h : u.minusBuf with
      | nil => rfl
      | cons x xs => simp [h] at he
    have hp : u.plusBuf = [] := by
      cases h : u.plusBuf with
      | nil => rfl
      | cons x xs => simp [h] at he
    refine ⟨[], ?_, ?_⟩
    · rw [flushS_empty al u hm hp]
      cases u with
      | mk c mb pb pp out =>
        simp only at hm hp
        subst hm; subst hp
        simp [flushed]
    · rw [hm, hp]
      have hv := validFrom_zero (al [] []) (hal [] [])
      simp [specRows, blocksOf, SBlock.toBlock, hunkSpec, blockSpec, sbsSpec, hv]
  · obtain ⟨rows, hp, hs⟩ := paintBlockS_spec al hal u (.sub u.minusBuf u.plusBuf) ⟨ok.rowsM, ok.rowsP⟩
      (by rw [(tOld_sub al _ _).1]; have := ok.left; omega) (by rw [(tOld_sub al _ _).2]; have := ok.right; omega)
    refine ⟨rows, ?_, hs⟩
    simp only [flushS, bufferedOrder_eq, flushOpsS, flo_ret, he, flo_paint, hp, flo_cm, flo_cp,
      (tOld_sub al _ _).1, (tOld_sub al _ _).2, flushed]
    simp

/-! ### `Adv` -/

structure Adv (al : AlignOf) (u u' : SU) (bs : List SBlock) (added : List LK) : Prop where
  out : u'.out.map SbsRow.shown = u.out.map SbsRow.shown ++ (specRows al u.c.left u.c.right bs).map some
  cl : u'.c.left = u.c.left + tOld al bs
  cr : u'.c.right = u.c.right + tNew al bs
  flat : flatAll bs ++ pend u'.minusBuf u'.plusBuf = pend u.minusBuf u.plusBuf ++ added
  wf : ∀ b ∈ bs, b.wf

theorem Adv.refl (al : AlignOf) (u : SU) : Adv al u u [] [] :=
  ⟨by simp [specRows, blocksOf, hunkSpec], by simp [tOld, blocksOf, totalOld], by simp [tNew, blocksOf, totalNew],
   by simp [flatAll], by intro b hb; cases hb⟩

theorem Adv.trans {al : AlignOf} {u u1 u2 : SU} {bs1 bs2 : List SBlock} {xs ys : List LK}
    (h1 : Adv al u u1 bs1 xs) (h2 : Adv al u1 u2 bs2 ys) : Adv al u u2 (bs1 ++ bs2) (xs ++ ys) := by
  refine ⟨?_, ?_, ?_, ?_, ?_⟩
  · rw [h2.out, h1.out, specRows_append, h1.cl, h1.cr]; simp [List.append_assoc]
  · rw [h2.cl, h1.cl, tOld_append]; omega
  · rw [h2.cr, h1.cr, tNew_append]; omega
  · rw [flatAll_append, List.append_assoc, h2.flat, ← List.append_assoc, h1.flat, List.append_assoc]
  · intro b hb
    rcases List.mem_append.mp hb with h | h
    · exact h1.wf b h
    · exact h2.wf b h

/-- position: counter + buffered lines moves by what came in -/
theorem Adv.pos {al : AlignOf} {u u' : SU} {bs : List SBlock} {xs : List LK} (h : Adv al u u' bs xs) :
    u'.c.left + u'.minusBuf.length = u.c.left + u.minusBuf.length + cntOld xs ∧
    u'.c.right + u'.plusBuf.length = u.c.right + u.plusBuf.length + cntNew xs := by
  have e1 := congrArg cntOld h.flat
  have e2 := congrArg cntNew h.flat
  rw [cntOld_append, cntOld_append, (cnt_flatAll al bs).1, (cnt_pend _ _).1, (cnt_pend _ _).1] at e1
  rw [cntNew_append, cntNew_append, (cnt_flatAll al bs).2, (cnt_pend _ _).2, (cnt_pend _ _).2] at e2
  have := h.cl; have := h.cr
  omega

theorem adv_flush (al : AlignOf) (u : SU) (rows : List SbsRow) (hwf : (SBlock.sub u.minusBuf u.plusBuf).wf)
    (hs : rows.map SbsRow.shown = (specRows al u.c.left u.c.right [.sub u.minusBuf u.plusBuf]).map some) :
    Adv al u (flushed u rows) [.sub u.minusBuf u.plusBuf] [] :=
  ⟨by simp [flushed, hs], by simp [flushed, (tOld_sub al _ _).1], by simp [flushed, (tOld_sub al _ _).2],
   by simp [flushed, flatAll, SBlock.flat, pend], by intro b hb; simp at hb; subst hb; exact hwf⟩

theorem adv_minus (al : AlignOf) (u : SU) (l : SLine) (hp : u.plusBuf = []) :
    Adv al u { u with minusBuf := u.minusBuf ++ [l], prevPlus := false } [] [(Kind.minus, l)] :=
  ⟨by simp [specRows, blocksOf, hunkSpec], by simp [tOld, blocksOf, totalOld], by simp [tNew, blocksOf, totalNew],
   by simp [flatAll, pend, hp], by intro b hb; cases hb⟩

theorem adv_plus (al : AlignOf) (u : SU) (l : SLine) :
    Adv al u { u with plusBuf := u.plusBuf ++ [l], prevPlus := true } [] [(Kind.plus, l)] :=
  ⟨by simp [specRows, blocksOf, hunkSpec], by simp [tOld, blocksOf, totalOld], by simp [tNew, blocksOf, totalNew],
   by simp [flatAll, pend], by intro b hb; cases hb⟩

theorem adv_zero (al : AlignOf) (u : SU) (l : SLine) (rows : List SbsRow) (hm : u.minusBuf = []) (hp : u.plusBuf = [])
    (hs : rows.map SbsRow.shown = (specRows al u.c.left u.c.right [.zero l]).map some) :
    Adv al u { u with c := ⟨u.c.left + tOld al [.zero l], u.c.right + tNew al [.zero l]⟩, out := u.out ++ rows,
                       prevPlus := false } [.zero l] [(Kind.ctx, l)] :=
  ⟨by simp [hs], rfl, rfl, by simp [flatAll, SBlock.flat, pend, hm, hp], by intro b hb; simp at hb; subst hb; trivial⟩

end LineNumbers.WholeSbs
