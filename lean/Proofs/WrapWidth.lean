import Proofs.WrapFinish
import Proofs.WrapProgress
/-
C07 helper: the width invariant of the `wrap_line` loop.
-/
namespace Wrap

structure InvW (fx : Fixes) (cfg : Cfg) (sym lw : Nat) (st : St) : Prop where
  rows : ∀ r ∈ st.result, (∃ init, r = init ++ [(sym, [cfg.leftSym])]) ∧ rowWidth r ≤ lw
  lenlt : 2 ≤ lw → (st.len < lw ∨ st.stack = [] ∨ (fx.zwPerfectFit = true ∧ allZeroWidth st.stack = true))
  lenle : st.len ≤ lw

theorem invW_init (fx : Fixes) (cfg : Cfg) (sym lw : Nat) (line : List Sec) :
    InvW fx cfg sym lw (initSt line) := by
  refine ⟨by simp [initSt], ?_, by simp [initSt]⟩
  intro h; left; simp [initSt]; omega

theorem rowWidth_sym (sym : Nat) (g : G) : rowWidth [(sym, [g])] = g.w := by
  simp [rowWidth, gsWidth]

/-- At a split the current row is not yet full. -/
theorem len_lt_of_split {fx : Fixes} {lw : Nat} {st : St} {style : Nat} {gs : List G} {rest : List Sec}
    (hs : st.stack = (style, gs) :: rest) (h2 : 2 ≤ lw)
    (hlt : 2 ≤ lw → (st.len < lw ∨ st.stack = [] ∨ (fx.zwPerfectFit = true ∧ allZeroWidth st.stack = true)))
    (hle : st.len ≤ lw) (hge : lw ≤ st.len + gsWidth gs)
    (hnf : ¬ (st.len + gsWidth gs = lw ∧ PerfectRest fx rest)) : st.len < lw := by
  rcases hlt h2 with h | h | h
  · exact h
  · rw [hs] at h; cases h
  · rw [hs, allZeroWidth_cons] at h
    obtain ⟨hz, hgs, hr⟩ := h
    simp only at hgs
    exact absurd ⟨by omega, Or.inr (Or.inr ⟨hz, hr⟩)⟩ hnf

theorem invW_step {fx : Fixes} {cfg : Cfg} {sym lw : Nat} {line : List Sec} (hsym : cfg.leftSym.w ≤ 1)
    (st st' : St) (hl : InvL cfg lw line st) (hi : InvW fx cfg sym lw st)
    (h : StepRel fx cfg sym lw st st') : InvW fx cfg sym lw st' := by
  obtain ⟨hrows, hlt, hle⟩ := hi
  have hcur := hl.len
  cases h with
  | push style gs rest hs hlim hfit =>
    refine ⟨hrows, ?_, ?_⟩
    · intro _
      rcases hfit with h1 | ⟨_, h2 | h3⟩
      · left; exact h1
      · right; left; exact h2
      · right; right; exact h3.2
    · simp only; omega
  | nl style gs rest hs hlim heq hnl =>
    refine ⟨hrows, fun _ => Or.inr (Or.inl rfl), ?_⟩
    simp only; omega
  | split0 style gs rest hs hlim hge hnf hns hw =>
    have h2 := lw_ge_two_of_not_limit hlim
    have hlen : st.len < lw := len_lt_of_split hs h2 hlt hle hge hnf
    refine ⟨?_, fun _ => Or.inl (by simp only; omega), by simp⟩
    intro r hr
    simp only [List.mem_append, List.mem_singleton] at hr
    cases hr with
    | inl h => exact hrows r h
    | inr h =>
      subst h
      refine ⟨⟨st.curr, rfl⟩, ?_⟩
      rw [rowWidth_append, rowWidth_sym, hcur]
      omega
  | splitk style gs rest hs hlim hge hnf hns hw =>
    have h2 := lw_ge_two_of_not_limit hlim
    have hlen : st.len < lw := len_lt_of_split hs h2 hlt hle hge hnf
    refine ⟨?_, fun _ => Or.inl (by simp only; omega), by simp⟩
    intro r hr
    simp only [List.mem_append, List.mem_singleton] at hr
    cases hr with
    | inl h => exact hrows r h
    | inr h =>
      subst h
      refine ⟨⟨st.curr ++ [(style, (takeFit (widthLeft cfg lw st.len gs) gs).1)], by simp⟩, ?_⟩
      have ht := takeFit_width (widthLeft cfg lw st.len gs) gs
      rw [rowWidth_append, hcur]
      unfold widthLeft at ht ⊢
      simp only [rowWidth, gsWidth]
      omega

/-- Width of the right-align padding. -/
theorem rowWidth_replicate_space (fill n : Nat) : rowWidth [(fill, List.replicate n spaceG)] = n := by
  induction n with
  | zero => simp [rowWidth, gsWidth]
  | succ k ih =>
    simp only [rowWidth, List.replicate_succ, gsWidth] at ih ⊢
    simp only [spaceG] at ih ⊢
    omega

theorem rowWidth_replicate_secs (k : Nat) (s : Sec) : rowWidth (List.replicate k s) = k * gsWidth s.2 := by
  induction k with
  | zero => simp [rowWidth]
  | succ k ih => simp only [List.replicate_succ, rowWidth, ih]; rw [Nat.succ_mul]; omega

theorem rowWidth_padSecs (fill n : Nat) : rowWidth (padSecs fill n) = n := by
  unfold padSecs
  rw [rowWidth_append, rowWidth_replicate_secs]
  have h64 : gsWidth (List.replicate Generated.spacesLen spaceG) = Generated.spacesLen := by
    have := rowWidth_replicate_space 0 Generated.spacesLen
    simpa [rowWidth] using this
  simp only [h64]
  have hpos : 0 < Generated.spacesLen := by decide
  split
  · rename_i h
    simp only [rowWidth]
    have := Nat.div_add_mod n Generated.spacesLen
    rw [Nat.mul_comm] at this
    omega
  · rw [rowWidth_replicate_space]
    have := Nat.div_add_mod n Generated.spacesLen
    rw [Nat.mul_comm] at this
    omega

end Wrap
