import Proofs.WrapFinish
/-
C07 helper: the width invariant of the `wrap_line` loop.
-/
namespace Wrap

structure InvW (cfg : Cfg) (sym lw : Nat) (st : St) : Prop where
  rows : ∀ r ∈ st.result, (∃ init, r = init ++ [(sym, [cfg.leftSym])]) ∧ rowWidth r ≤ lw
  lenlt : 2 ≤ lw → (st.len < lw ∨ st.stack = [])
  lenle : st.len ≤ lw

theorem invW_init (cfg : Cfg) (sym lw : Nat) (line : List Sec) : InvW cfg sym lw (initSt line) := by
  refine ⟨by simp [initSt], ?_, by simp [initSt]⟩
  intro h; left; simp [initSt]; omega

theorem rowWidth_sym (sym : Nat) (g : G) : rowWidth [(sym, [g])] = g.w := by
  simp [rowWidth, gsWidth]

theorem invW_step {cfg : Cfg} {sym lw : Nat} {line : List Sec} (hsym : cfg.leftSym.w ≤ 1) (st st' : St)
    (hl : InvL cfg lw line st) (hi : InvW cfg sym lw st) (h : StepRel cfg sym lw st st') :
    InvW cfg sym lw st' := by
  obtain ⟨hrows, hlt, hle⟩ := hi
  have hcur := hl.len
  cases h with
  | push style gs rest hs hlim hfit =>
    refine ⟨hrows, ?_, ?_⟩
    · intro _
      cases hfit with
      | inl h1 => left; exact h1
      | inr h2 => right; exact h2.2
    · simp only; omega
  | nl style gs rest hs hlim heq hnl =>
    refine ⟨hrows, fun _ => Or.inr rfl, ?_⟩
    simp only; omega
  | split0 style gs rest hs hlim hge hnf hw =>
    have h2 := lw_ge_two_of_not_limit hlim
    have hlen : st.len < lw := by
      cases hlt h2 with
      | inl h => exact h
      | inr h => rw [hs] at h; cases h
    refine ⟨?_, fun _ => Or.inl (by simp only; omega), by simp⟩
    intro r hr
    simp only [List.mem_append, List.mem_singleton] at hr
    cases hr with
    | inl h => exact hrows r h
    | inr h =>
      subst h
      refine ⟨⟨st.curr, rfl⟩, ?_⟩
      rw [rowWidth_append, rowWidth_sym, hcur]
      omega
  | splitk style gs rest hs hlim hge hnf hw =>
    have h2 := lw_ge_two_of_not_limit hlim
    have hlen : st.len < lw := by
      cases hlt h2 with
      | inl h => exact h
      | inr h => rw [hs] at h; cases h
    refine ⟨?_, fun _ => Or.inl (by simp only; omega), by simp⟩
    intro r hr
    simp only [List.mem_append, List.mem_singleton] at hr
    cases hr with
    | inl h => exact hrows r h
    | inr h =>
      subst h
      refine ⟨⟨st.curr ++ [(style, (takeFit ((gsWidth gs - (st.len + gsWidth gs - lw)) - cfg.leftSym.w) gs).1)], by simp⟩, ?_⟩
      have ht := takeFit_width ((gsWidth gs - (st.len + gsWidth gs - lw)) - cfg.leftSym.w) gs
      rw [rowWidth_append, hcur]
      simp only [rowWidth, gsWidth]
      omega

/-- Width of the right-align padding. -/
theorem rowWidth_replicate_space (fill n : Nat) : rowWidth [(fill, List.replicate n spaceG)] = n := by
  induction n with
  | zero => simp [rowWidth, gsWidth]
  | succ k ih =>
    simp only [rowWidth, List.replicate_succ, gsWidth] at ih ⊢
    simp only [spaceG] at ih ⊢
    omega

theorem rowWidth_replicate_secs (k : Nat) (s : Sec) : rowWidth (List.replicate k s) = k * gsWidth s.2 := by
  induction k with
  | zero => simp [rowWidth]
  | succ k ih => simp only [List.replicate_succ, rowWidth, ih]; rw [Nat.succ_mul]; omega

theorem rowWidth_padSecs (fill n : Nat) : rowWidth (padSecs fill n) = n := by
  unfold padSecs
  rw [rowWidth_append, rowWidth_replicate_secs]
  have h64 : gsWidth (List.replicate Generated.spacesLen spaceG) = Generated.spacesLen := by
    have := rowWidth_replicate_space 0 Generated.spacesLen
    simpa [rowWidth] using this
  simp only [h64]
  have hpos : 0 < Generated.spacesLen := by decide
  split
  · rename_i h
    simp only [rowWidth]
    have := Nat.div_add_mod n Generated.spacesLen
    rw [Nat.mul_comm] at this
    omega
  · rw [rowWidth_replicate_space]
    have := Nat.div_add_mod n Generated.spacesLen
    rw [Nat.mul_comm] at this
    omega

end Wrap
