import Proofs.AnsiGit
/-!
When does delta look at the raw (coloured) line?  `line_has_style_other_than` on lines that start
with an SGR sequence / with a character; and the `truncate` facts used by C08.
-/
deriving instance DecidableEq for Except

namespace Ansi
open Vte

/-- A line that starts with a plain CSI sequence: its first element is that sequence, whatever
follows. -/
theorem elements_csi_prefix (body : Bytes) (fin : UInt8) (hwf : (Tok.csi body fin).WF) (rest : Bytes) :
    ∃ tail, elements ((Tok.csi body fin).bytes ++ rest) =
      ⟨ofKind (csiKind body fin), 0, body.length + 3⟩ :: tail := by
  obtain ⟨ev, _⟩ := events_csi Parser.init ground_init body fin hwf
  refine ⟨assemble 0 (0 + (body.length + 2) + 1) (0 + (body.length + 2) + 1)
    (events (run Parser.init (Tok.csi body fin).bytes) rest), ?_⟩
  simp only [elements, events_append, ev, List.append_assoc, assemble_quiet, List.singleton_append,
    assemble_elem]
  simp

theorem lineHasStyleOtherThan_sgr_prefix (body : Bytes) (hb : SgrBody body) (rest : Bytes)
    (styles : List Style) :
    ∃ ps, csiKind body 0x6d = .sgr ps ∧
      lineHasStyleOtherThan (0x1b :: 0x5b :: (body ++ 0x6d :: rest)) styles =
        !(styles.any fun st => styleEq (sgrToStyle ps) st) := by
  have hwf := sgrBody_wf hb
  obtain ⟨ps, hps⟩ := csiKind_sgr body hwf
  obtain ⟨tail, he⟩ := elements_csi_prefix body 0x6d hwf rest
  have hbytes : (0x1b :: 0x5b :: (body ++ 0x6d :: rest) : Bytes) = (Tok.csi body 0x6d).bytes ++ rest := by
    simp [Tok.bytes]
  refine ⟨ps, hps, ?_⟩
  rw [hbytes]
  simp [lineHasStyleOtherThan, startsWithSgr, isAppliedTo, parseFirstStyle, he, hps, ofKind, firstStyleOf]

/-- Pending text comes out first. -/
theorem assemble_text_first (es : List Perf) : ∀ (tl start pos : Nat), tl > 0 → pos > start →
    ∃ stop tail, assemble tl start pos es = ⟨.text, start, stop⟩ :: tail := by
  induction es with
  | nil => intro tl start pos h hp; exact ⟨pos, [], by simp [assemble, h, hp]⟩
  | cons e es ih =>
    intro tl start pos h hp
    cases he : e.elem with
    | none =>
      simp only [assemble, he]
      split
      · exact ih _ start (pos + 1) (by omega) (by omega)
      · exact ih _ start (pos + 1) (by omega) (by omega)
    | some k =>
      have : tl + e.text > 0 := by omega
      exact ⟨start + (tl + e.text),
        ⟨ofKind k, start + (tl + e.text), pos + 1⟩ :: assemble 0 (pos + 1) (pos + 1) es,
        by simp [assemble, he, this]⟩

/-- A line that starts with a character (not ESC) is never taken for a styled raw line. -/
theorem lineHasStyleOtherThan_char_prefix (c : Bytes) (hc : IsChar c) (hne : c ≠ [0x1b]) (rest : Bytes)
    (styles : List Style) : lineHasStyleOtherThan (c ++ rest) styles = false := by
  obtain ⟨ev, _⟩ := events_char Parser.init ground_init c hc hne
  have hpos := isChar_length_pos hc
  have : ∃ stop tail, elements (c ++ rest) = ⟨.text, 0, stop⟩ :: tail := by
    simp only [elements, events_append, ev, List.append_assoc, assemble_quiet, List.singleton_append]
    rw [assemble_text _ _ _ _ _ hpos (by omega)]
    exact assemble_text_first _ _ _ _ (by omega) (by omega)
  obtain ⟨stop, tail, he⟩ := this
  simp [lineHasStyleOtherThan, startsWithSgr, he]

/-! ### Truncation -/

/-- The text of a benign line is itself a benign line of characters only. -/
def chrsOf : List Tok → List Tok
  | [] => []
  | .chr c :: ts => .chr c :: chrsOf ts
  | _ :: ts => chrsOf ts

theorem chrsOf_wf (ts : List Tok) (h : ∀ t ∈ ts, t.WF) : ∀ t ∈ chrsOf ts, t.WF := by
  induction ts with
  | nil => simp [chrsOf]
  | cons t ts ih =>
    have hts : ∀ t ∈ ts, t.WF := fun x hx => h x (by simp [hx])
    cases t with
    | chr c =>
      intro x hx; simp [chrsOf] at hx
      rcases hx with rfl | hx
      · exact h _ (by simp)
      · exact ih hts x hx
    | csi b f => simpa [chrsOf] using ih hts
    | osc pl bel => simpa [chrsOf] using ih hts

theorem chrsOf_bytes (ts : List Tok) : tokBytes (chrsOf ts) = plainOf ts ∧ plainOf (chrsOf ts) = plainOf ts := by
  induction ts with
  | nil => simp [chrsOf, tokBytes, plainOf]
  | cons t ts ih =>
    cases t with
    | chr c => simp [chrsOf, tokBytes, plainOf, Tok.bytes, ih.1, ih.2]
    | csi b f => simpa [chrsOf, plainOf] using ih
    | osc pl bel => simpa [chrsOf, plainOf] using ih

/-- When the line fits, truncation and stripping commute (both sides are the stripped line). -/
theorem truncate_fits (U : Uni) (ts : List Tok) (hwf : ∀ t ∈ ts, t.WF) (dw : Nat) (tail : Bytes)
    (fill : Option Bytes) (hfit : U.width (plainOf ts) ≤ dw) :
    truncate U (tokBytes ts) dw tail fill = .ok (tokBytes ts) ∧
    truncate U (plainOf ts) dw tail fill = .ok (plainOf ts) := by
  constructor
  · simp [truncate, items_tokens ts hwf, joinTexts_chunks, hfit]
  · have h2 := chrsOf_bytes ts
    have := items_tokens (chrsOf ts) (chrsOf_wf ts hwf)
    rw [h2.1] at this
    simp [truncate, this, joinTexts_chunks, h2.2, hfit]

/-- Since fix d6cf9d0 (the `debug_assert!` no longer stands in front of the fallback:
`Generated.truncAssertsWideCluster = false`, read from the source on every run) the grapheme loop of
`truncate_str_impl` has no panic point, whatever the Unicode oracle says about widths. -/
theorem takeGraphemes_total (hno : Generated.truncAssertsWideCluster = false) (U : Uni) (dw : Nat)
    (fill : Option Bytes) (gs : List Bytes) : ∀ used acc, ∃ r, takeGraphemes U dw fill gs used acc = .ok r := by
  induction gs with
  | nil => intro used acc; exact ⟨_, rfl⟩
  | cons g gs ih =>
    intro used acc
    simp only [takeGraphemes, hno]
    split
    · cases fill with
      | none => exact ⟨_, rfl⟩
      | some c =>
        simp only
        split
        · exact ⟨_, rfl⟩
        · split
          · exact ⟨_, rfl⟩
          · exact ⟨_, rfl⟩
    · exact ih _ _

/-- … and neither has the loop over the elements of the line. -/
theorem truncItems_total (hno : Generated.truncAssertsWideCluster = false) (U : Uni) (dw : Nat)
    (fill : Option Bytes) (its : List (Bytes × Bool)) :
    ∀ used acc cut, ∃ r, truncItems U dw fill its used acc cut = .ok r := by
  induction its with
  | nil => intro used acc cut; exact ⟨_, rfl⟩
  | cons it r ih =>
    intro used acc cut
    obtain ⟨t, ansi⟩ := it
    simp only [truncItems]
    split
    · exact ih _ _ _
    · split
      · exact ih _ _ _
      · obtain ⟨⟨u, a, c⟩, hr⟩ := takeGraphemes_total hno U dw fill (U.graphemes t) used acc
        rw [hr]
        exact ih _ _ _

/-- what the fallback pushes: the fill character `n` times -/
theorem pushFill_eq (c : Bytes) (n : Nat) (acc : Bytes) :
    pushFill c n acc = acc ++ (List.replicate n c).flatten := by
  induction n generalizing acc with
  | zero => simp [pushFill]
  | succ n ih => rw [pushFill, ih, List.replicate_succ]; simp

/-- A small concrete Unicode oracle for witnesses: clusters = UTF-8 characters; ASCII and 2-byte
characters have width 1, 3- and 4-byte characters width 2. -/
def demoChars : Nat → Bytes → List Bytes
  | 0, _ => []
  | _, [] => []
  | fuel + 1, b :: bs =>
    let n := if b.toNat < 0x80 then 1 else if b.toNat < 0xE0 then 2 else if b.toNat < 0xF0 then 3 else 4
    (b :: bs.take (n - 1)) :: demoChars fuel (bs.drop (n - 1))

def demoWidth : Bytes → Nat
  | [] => 0
  | b :: bs => (if b.toNat < 0x80 then 1 else if b.toNat < 0xC0 then 0 else if b.toNat < 0xE0 then 1 else 2) + demoWidth bs

def demoUni : Uni := { width := demoWidth, graphemes := fun t => demoChars t.length t }

/-- An oracle with a three-column cluster: a text is its first byte (one column) and the rest (one cluster, one column
more than it has bytes: three columns when it is two bytes long). -/
def wideUni : Uni :=
  { width := fun t => if t.length ≤ 1 then t.length else t.length + 1, graphemes := fun t => [t.take 1, t.drop 1] }

end Ansi
