/-
Lemmas about `DeltaModel/RipGrepJson.lean` (C16, session 4 / T10): a record keeps its reading
when members the record structs do not name are added, removed or changed, at every level.
-/
import DeltaModel.RipGrepJson

namespace RipGrepJson

open Generated.RipGrepJsonShape (Ty Fields)

theorem pointwise_cons {α : Type} {R : α → α → Prop} {x y : α} {xs ys : List α} :
    Pointwise R (x :: xs) (y :: ys) ↔ (R x y ∧ Pointwise R xs ys) := by
  simp [Pointwise]

theorem pointwise_nil_cons {α : Type} {R : α → α → Prop} {y : α} {ys : List α} :
    ¬ Pointwise R [] (y :: ys) := by
  simp [Pointwise]

theorem pointwise_cons_nil {α : Type} {R : α → α → Prop} {x : α} {xs : List α} :
    ¬ Pointwise R (x :: xs) [] := by
  simp [Pointwise]

theorem pointwise_refl {α : Type} {R : α → α → Prop} (h : ∀ x, R x x) : ∀ xs, Pointwise R xs xs
  | [] => by simp [Pointwise]
  | x :: xs => pointwise_cons.2 ⟨h x, pointwise_refl h xs⟩

theorem pointwise_eq {α : Type} : ∀ (xs ys : List α), Pointwise (fun a b => b = a) xs ys → ys = xs
  | [], [], _ => rfl
  | [], _ :: _, h => absurd h pointwise_nil_cons
  | _ :: _, [], h => absurd h pointwise_cons_nil
  | x :: xs, y :: ys, h => by
    have h' := pointwise_cons.1 h
    rw [h'.1, pointwise_eq xs ys h'.2]

theorem mapOpt_pointwise {α β : Type} {R : α → α → Prop} {f : α → Option β}
    (h : ∀ x x', R x x' → f x' = f x) :
    ∀ xs xs', Pointwise R xs xs' → mapOpt f xs' = mapOpt f xs
  | [], [], _ => rfl
  | [], _ :: _, hp => absurd hp pointwise_nil_cons
  | _ :: _, [], hp => absurd hp pointwise_cons_nil
  | x :: xs, y :: ys, hp => by
    have hp' := pointwise_cons.1 hp
    simp only [mapOpt, h x y hp'.1, mapOpt_pointwise h xs ys hp'.2]

/-- The reading of a field's members depends on them only up to `R`. -/
theorem here_pointwise {β : Type} {R : JVal → JVal → Prop} {f : JVal → Option β} (a : Option β)
    (h : ∀ x x', R x x' → f x' = f x) :
    ∀ l l', Pointwise R l l' → pick a f l' = pick a f l
  | [], [], _ => rfl
  | [], _ :: _, hp => absurd hp pointwise_nil_cons
  | _ :: _, [], hp => absurd hp pointwise_cons_nil
  | [x], [y], hp => by simp only [pick, h x y (pointwise_cons.1 hp).1]
  | [_], _ :: _ :: _, hp => absurd (pointwise_cons.1 hp).2 pointwise_nil_cons
  | _ :: _ :: _, [_], hp => absurd (pointwise_cons.1 hp).2 pointwise_cons_nil
  | _ :: _ :: _, _ :: _ :: _, _ => rfl

theorem agree_vec_cases {t : Ty} {v v' : JVal} (h : AgreeOnKnown (.vec t) v v') :
    (∃ xs xs', v = .arr xs ∧ v' = .arr xs' ∧ Pointwise (AgreeOnKnown t) xs xs') ∨ v' = v := by
  cases v <;> cases v' <;> simp_all [AgreeOnKnown]

theorem agree_struct_cases {n : String} {d : Bool} {fs : Fields} {v v' : JVal}
    (h : AgreeOnKnown (.struct n d fs) v v') :
    (∃ ms ms', v = .obj ms ∧ v' = .obj ms' ∧ AgreeMembers fs ms ms') ∨
    (∃ xs xs', v = .arr xs ∧ v' = .arr xs' ∧ AgreeSeq fs xs xs') ∨ v' = v := by
  cases v <;> cases v' <;> simp_all [AgreeOnKnown]

mutual
/-- Under lenient structs, values that agree on the known members decode alike. -/
theorem decode_agree : ∀ (ty : Ty) (v v' : JVal), tyLenient ty = true → AgreeOnKnown ty v v' →
    decode ty v' = decode ty v
  | .usize, v, v', _, h => by simp only [AgreeOnKnown] at h; rw [h]
  | .string, v, v', _, h => by simp only [AgreeOnKnown] at h; rw [h]
  | .enum _ _, v, v', _, h => by simp only [AgreeOnKnown] at h; rw [h]
  | .option t, v, v', hl, h => by
    simp only [AgreeOnKnown] at h
    simp only [tyLenient] at hl
    have ih := decode_agree t v v' hl h.2
    cases v <;> cases v' <;> simp_all [decode]
  | .vec t, v, v', hl, h => by
    simp only [tyLenient] at hl
    rcases agree_vec_cases h with ⟨xs, xs', rfl, rfl, hp⟩ | rfl
    · simp only [decode, mapOpt_pointwise (fun x x' hx => decode_agree t x x' hl hx) xs xs' hp]
    · rfl
  | .struct _ deny fs, v, v', hl, h => by
    simp only [tyLenient, Bool.and_eq_true, Bool.not_eq_true'] at hl
    obtain ⟨hd, hf⟩ := hl
    subst hd
    rcases agree_struct_cases h with ⟨ms, ms', rfl, rfl, hp⟩ | ⟨xs, xs', rfl, rfl, hp⟩ | rfl
    · simp only [decode, decodeFields_agree fs ms ms' hf hp]
    · simp only [decode, decodeSeq_agree fs xs xs' hf hp]
    · rfl
theorem decodeFields_agree : ∀ (fs : Fields) (ms ms' : List (String × JVal)),
    fieldsLenient fs = true → AgreeMembers fs ms ms' →
    decodeFields false fs ms' = decodeFields false fs ms
  | .nil, _, _, _, _ => by simp [decodeFields]
  | .cons rust json dflt ty rest, ms, ms', hl, h => by
    simp only [fieldsLenient, Bool.and_eq_true] at hl
    simp only [AgreeMembers] at h
    have ih := decodeFields_agree rest _ _ hl.2 h.2
    have hh := here_pointwise (missingOf dflt ty) (fun x x' hx => decode_agree ty x x' hl.1 hx) _ _ h.1
    simp only [decodeFields, ih, hh]
theorem decodeSeq_agree : ∀ (fs : Fields) (xs xs' : List JVal),
    fieldsLenient fs = true → AgreeSeq fs xs xs' → decodeSeq fs xs' = decodeSeq fs xs
  | .nil, _, _, _, h => by simp only [AgreeSeq] at h; rw [h]
  | .cons rust json dflt ty rest, xs, xs', hl, h => by
    simp only [fieldsLenient, Bool.and_eq_true] at hl
    cases xs <;> cases xs' <;> simp only [AgreeSeq] at h
    · rfl
    · rename_i x xs x' xs'
      simp only [decodeSeq, decode_agree ty x x' hl.1 h.1, decodeSeq_agree rest xs xs' hl.2 h.2]
end

mutual
theorem agree_refl : ∀ (ty : Ty) (v : JVal), AgreeOnKnown ty v v
  | .usize, _ => by simp [AgreeOnKnown]
  | .string, _ => by simp [AgreeOnKnown]
  | .enum _ _, _ => by simp [AgreeOnKnown]
  | .option t, v => by simp [AgreeOnKnown, agree_refl t v]
  | .vec t, v => by
    cases v <;> simp only [AgreeOnKnown]
    exact pointwise_refl (agree_refl t) _
  | .struct _ _ fs, v => by
    cases v <;> simp only [AgreeOnKnown]
    · exact agreeSeq_refl fs _
    · exact agreeMembers_refl fs _
theorem agreeMembers_refl : ∀ (fs : Fields) (ms : List (String × JVal)), AgreeMembers fs ms ms
  | .nil, _ => by simp [AgreeMembers]
  | .cons _ json _ ty rest, ms => by
    simp only [AgreeMembers]
    exact ⟨pointwise_refl (agree_refl ty) _, agreeMembers_refl rest _⟩
theorem agreeSeq_refl : ∀ (fs : Fields) (xs : List JVal), AgreeSeq fs xs xs
  | .nil, _ => by simp [AgreeSeq]
  | .cons _ _ _ ty rest, xs => by
    cases xs <;> simp only [AgreeSeq]
    exact ⟨agree_refl ty _, agreeSeq_refl rest _⟩
end

/-! ### Inserting a member of a new name -/

theorem valuesOf_insert (j k : String) (x : JVal) (hk : (k == j) = false) (ms₁ ms₂ : List (String × JVal)) :
    valuesOf j (ms₁ ++ (k, x) :: ms₂) = valuesOf j (ms₁ ++ ms₂) := by
  simp [valuesOf, List.filter_append, hk]

theorem others_insert (j k : String) (x : JVal) (hk : (k == j) = false) (ms₁ ms₂ : List (String × JVal)) :
    others j (ms₁ ++ (k, x) :: ms₂) = others j ms₁ ++ (k, x) :: others j ms₂ := by
  simp [others, List.filter_append, hk]

theorem others_append (j : String) (ms₁ ms₂ : List (String × JVal)) :
    others j (ms₁ ++ ms₂) = others j ms₁ ++ others j ms₂ := by
  simp [others, List.filter_append]

/-- A member whose name no field has can be put anywhere among the members. -/
theorem agreeMembers_insert : ∀ (fs : Fields) (k : String) (x : JVal) (ms₁ ms₂ : List (String × JVal)),
    hasJson fs k = false → AgreeMembers fs (ms₁ ++ ms₂) (ms₁ ++ (k, x) :: ms₂)
  | .nil, _, _, _, _, _ => by simp [AgreeMembers]
  | .cons _ json _ ty rest, k, x, ms₁, ms₂, hk => by
    simp only [hasJson, Bool.or_eq_false_iff] at hk
    have hkj : (k == json) = false := by
      have := hk.1
      simp only [beq_eq_false_iff_ne, ne_eq] at this ⊢
      exact fun e => this e.symm
    simp only [AgreeMembers, valuesOf_insert json k x hkj, others_insert json k x hkj, others_append]
    exact ⟨pointwise_refl (agree_refl ty) _, agreeMembers_insert rest k x _ _ hk.2⟩

/-! ### `parse_line` -/

open Generated.RipGrepJsonShape in
/-- An accepted record keeps its `GrepLine`. -/
theorem parseLine_agree_accepted (hl : tyLenient root = true) {v v' : JVal}
    (h : AgreeOnKnown root v v') {d : DVal} (hd : decode root v = some d) :
    parseLine v' = parseLine v := by
  have e := decode_agree root v v' hl h
  simp only [parseLine, e, hd]

theorem agree_enum_eq (n : String) (vs : List (String × String)) :
    AgreeOnKnown (.enum n vs) = fun a b => b = a := by
  funext a b
  simp [AgreeOnKnown]

open Generated.RipGrepJsonShape in
/-- The member the second branch of `parse_line` looks at is a field of the record (of the enum
type), so values that agree on the known members show the same word there. -/
theorem metaWord_agree {v v' : JVal} (h : AgreeOnKnown root v v') : metaWord v' = metaWord v := by
  unfold root at h
  rcases agree_struct_cases h with ⟨ms, ms', rfl, rfl, hp⟩ | ⟨xs, xs', rfl, rfl, _⟩ | rfl
  · simp only [AgreeMembers, agree_enum_eq] at hp
    have e := pointwise_eq _ _ hp.1
    simp only [metaWord, metaKey, e]
  · rfl
  · rfl

open Generated.RipGrepJsonShape in
/-- Every line: same answer of `parse_line`. -/
theorem parseLine_agree (hl : tyLenient root = true) {v v' : JVal} (h : AgreeOnKnown root v v') :
    parseLine v' = parseLine v := by
  have e := decode_agree root v v' hl h
  simp only [parseLine, e, metaWord_agree h]

theorem lineOf_agree {v v' : JVal} (e : parseLine v' = parseLine v) (raw raw' : Grep.Bytes)
    (hacc : parseLine v ≠ none) : lineOf v' raw' = lineOf v raw := by
  unfold lineOf
  rw [e]
  cases hp : parseLine v with
  | none => exact absurd hp hacc
  | some r => rfl

open Generated.RipGrepJsonShape in
/-- A JSON object whose (last) `"type"` member is one of the metadata words is never a record, and
is swallowed whatever else it contains. -/
theorem meta_swallowed (ms : List (String × JVal)) (w : String)
    (h : (valuesOf metaKey ms).getLast? = some (.str w)) (hw : metaWords.contains w = true) :
    parseLine (.obj ms) = metaRec := by
  have hd : decode root (.obj ms) = none := by
    unfold root
    simp only [decode, decodeFields]
    simp only [metaKey] at h
    generalize valuesOf "type" ms = l at h
    match l, h with
    | [x], h =>
      simp at h
      subst h
      simp only [metaWords] at hw
      have : w = "begin" ∨ w = "end" ∨ w = "summary" := by simpa using hw
      rcases this with rfl | rfl | rfl <;> simp [pick, decodeEnum, variantOf]
    | _ :: _ :: _, _ => simp [pick]
  simp only [parseLine, hd, metaWord, h, hw, if_true]

end RipGrepJson
