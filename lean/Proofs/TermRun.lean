import DeltaModel.Term
/-! Basic facts about the abstract terminal `Term.run`: concatenation, plain text, CSI … m. -/
namespace Term

theorem run_append (s : State) (a b : List Char) :
    run s (a ++ b) = ((run (run s a).1 b).1, (run s a).2 ++ (run (run s a).1 b).2) := by
  induction a generalizing s with
  | nil => simp [run]
  | cons c cs ih =>
    simp only [List.cons_append, run]
    cases h : step s c with
    | mk s' o =>
      cases o with
      | none => simp [ih]
      | some cell => simp [ih]

theorem final_append (s : State) (a b : List Char) : final s (a ++ b) = final (final s a) b := by
  simp [final, run_append]

theorem cells_append (s : State) (a b : List Char) :
    cells s (a ++ b) = cells s a ++ cells (final s a) b := by
  simp [cells, final, run_append]

/-- Text without ESC, read in ground mode, is displayed verbatim in the current rendition and
leaves the state alone. -/
theorem run_text (s : State) (t : List Char) (hm : s.mode = .ground) (ht : ESC ∉ t) :
    run s t = (s, t.map fun c => ⟨c, s.rend, s.link⟩) := by
  induction t with
  | nil => simp [run]
  | cons c cs ih =>
    have hc : c ≠ ESC := fun e => ht (e ▸ List.mem_cons_self)
    have hcs : ESC ∉ cs := fun m => ht (List.mem_cons_of_mem _ m)
    simp [run, step, hm, hc, ih hcs]

end Term
