import DeltaModel.LineNumbers
set_option linter.unusedSimpArgs false
/-!
Helper lemmas for C05, part 2: the unified view. Specification (`trueRows`) and the invariant of
`handle_hunk_line`'s buffer discipline.
-/
namespace LineNumbers
open Generated.LineNum

/-- Lines that exist in the old file. -/
def Kind.isOld : Kind → Bool
  | .minus => true | .ctx => true | .plus => false
/-- Lines that exist in the new file. -/
def Kind.isNew : Kind → Bool
  | .plus => true | .ctx => true | .minus => false

def countOld (ks : List Kind) : Nat := (ks.filter Kind.isOld).length
def countNew (ks : List Kind) : Nat := (ks.filter Kind.isNew).length

/-- The gutter a line of kind `k` must get when the next old/new numbers are `a`/`c`. -/
def trueCell (a c : Nat) (k : Kind) : Cell :=
  ⟨true, true, if k.isOld then some a else none, if k.isNew then some c else none⟩

/-- Specification: the gutters of a run of hunk lines starting at old line `a`, new line `c`. -/
def trueRows : Nat → Nat → List Kind → List (Option Cell)
  | _, _, [] => []
  | a, c, k :: ks =>
    some (trueCell a c k) :: trueRows (if k.isOld then a + 1 else a) (if k.isNew then c + 1 else c) ks

@[simp] theorem countOld_nil : countOld [] = 0 := rfl
@[simp] theorem countNew_nil : countNew [] = 0 := rfl

theorem countOld_cons (k : Kind) (ks : List Kind) :
    countOld (k :: ks) = (if k.isOld then 1 else 0) + countOld ks := by
  cases k <;> simp [countOld, List.filter_cons, Kind.isOld] <;> omega

theorem countNew_cons (k : Kind) (ks : List Kind) :
    countNew (k :: ks) = (if k.isNew then 1 else 0) + countNew ks := by
  cases k <;> simp [countNew, List.filter_cons, Kind.isNew] <;> omega

theorem countOld_append (xs ys : List Kind) : countOld (xs ++ ys) = countOld xs + countOld ys := by
  simp [countOld]

theorem countNew_append (xs ys : List Kind) : countNew (xs ++ ys) = countNew xs + countNew ys := by
  simp [countNew]

@[simp] theorem countOld_replicate_minus (n : Nat) : countOld (List.replicate n Kind.minus) = n := by
  induction n with
  | zero => rfl
  | succ n ih => rw [List.replicate_succ, countOld_cons, ih]; simp [Kind.isOld]; omega

@[simp] theorem countNew_replicate_minus (n : Nat) : countNew (List.replicate n Kind.minus) = 0 := by
  induction n with
  | zero => rfl
  | succ n ih => rw [List.replicate_succ, countNew_cons, ih]; simp [Kind.isNew]

@[simp] theorem countOld_replicate_plus (n : Nat) : countOld (List.replicate n Kind.plus) = 0 := by
  induction n with
  | zero => rfl
  | succ n ih => rw [List.replicate_succ, countOld_cons, ih]; simp [Kind.isOld]

@[simp] theorem countNew_replicate_plus (n : Nat) : countNew (List.replicate n Kind.plus) = n := by
  induction n with
  | zero => rfl
  | succ n ih => rw [List.replicate_succ, countNew_cons, ih]; simp [Kind.isNew]; omega

theorem trueRows_append (xs ys : List Kind) : ∀ (a c : Nat),
    trueRows a c (xs ++ ys) = trueRows a c xs ++ trueRows (a + countOld xs) (c + countNew xs) ys := by
  induction xs with
  | nil => intro a c; simp [trueRows]
  | cons k ks ih =>
    intro a c
    simp only [List.cons_append, trueRows, ih, countOld_cons, countNew_cons]
    cases k <;> simp [Kind.isOld, Kind.isNew, Nat.add_assoc]

theorem trueRows_length (ks : List Kind) : ∀ (a c : Nat), (trueRows a c ks).length = ks.length := by
  induction ks with
  | nil => intro a c; rfl
  | cons k ks ih => intro a c; simp [trueRows, ih]

/-- The `k`-th row of the specification, in the counting form of the property statement. -/
theorem trueRows_getElem (ks : List Kind) : ∀ (a c k : Nat) (h : k < ks.length),
    (trueRows a c ks)[k]? =
      some (some (trueCell (a + countOld (ks.take k)) (c + countNew (ks.take k)) ks[k])) := by
  induction ks with
  | nil => intro a c k h; simp at h
  | cons x xs ih =>
    intro a c k h
    cases k with
    | zero => simp [trueRows]
    | succ k =>
      have h' : k < xs.length := by simpa using h
      simp only [trueRows, List.getElem?_cons_succ, List.take_succ_cons, List.getElem_cons_succ,
        countOld_cons, countNew_cons]
      rw [ih _ _ k h']
      cases x <;> simp [Kind.isOld, Kind.isNew, Nat.add_assoc, Nat.add_comm, Nat.add_left_comm]

/-! ### single painted lines -/

theorem bumpN_zero (x inc : Nat) : bumpN x inc 0 = .ok x := rfl

theorem bumpN_one (x inc : Nat) (h : x + inc ≤ usizeMax) : bumpN x inc 1 = .ok (x + inc) := by
  simp [bumpN, addUsize, addUsizeSat, h]

theorem paintLine_u_minus (c : Counters) (h : c.left + 1 ≤ usizeMax) :
    paintLine false c .minus none = .ok (⟨c.left + 1, c.right⟩, some (trueCell c.left c.right .minus)) := by
  simp [paintLine, linenumbersAndStyles, lookupArm, numberArms, St.code, incrementFor, incrementRule,
    panelCode, bumpN, addUsize, addUsizeSat, h, emitFor, lookupEmit, emitArms, trueCell, Kind.isOld, Kind.isNew]

theorem paintLine_u_plus (c : Counters) (h : c.right + 1 ≤ usizeMax) :
    paintLine false c .plus none = .ok (⟨c.left, c.right + 1⟩, some (trueCell c.left c.right .plus)) := by
  simp [paintLine, linenumbersAndStyles, lookupArm, numberArms, St.code, incrementFor, incrementRule,
    panelCode, bumpN, addUsize, addUsizeSat, h, emitFor, lookupEmit, emitArms, trueCell, Kind.isOld, Kind.isNew]

theorem paintLine_u_zero (c : Counters) (h : c.left + 1 ≤ usizeMax) (h' : c.right + 1 ≤ usizeMax) :
    paintLine false c .zero none = .ok (⟨c.left + 1, c.right + 1⟩, some (trueCell c.left c.right .ctx)) := by
  simp [paintLine, linenumbersAndStyles, lookupArm, numberArms, St.code, incrementFor, incrementRule,
    panelCode, bumpN, addUsize, addUsizeSat, h, h', emitFor, lookupEmit, emitArms, trueCell, Kind.isOld, Kind.isNew]

theorem paintLinesU_minus : ∀ (n : Nat) (c : Counters), c.left + n ≤ usizeMax →
    paintLinesU c .minus n = .ok (⟨c.left + n, c.right⟩, trueRows c.left c.right (List.replicate n .minus)) := by
  intro n
  induction n with
  | zero => intro c _; simp [paintLinesU, trueRows]
  | succ n ih =>
    intro c h
    simp only [paintLinesU, paintLine_u_minus c (by omega)]
    rw [ih ⟨c.left + 1, c.right⟩ (by simp; omega)]
    simp [List.replicate_succ, trueRows, Kind.isOld, Kind.isNew, Nat.add_assoc, Nat.add_comm 1 n]

theorem paintLinesU_plus : ∀ (n : Nat) (c : Counters), c.right + n ≤ usizeMax →
    paintLinesU c .plus n = .ok (⟨c.left, c.right + n⟩, trueRows c.left c.right (List.replicate n .plus)) := by
  intro n
  induction n with
  | zero => intro c _; simp [paintLinesU, trueRows]
  | succ n ih =>
    intro c h
    simp only [paintLinesU, paintLine_u_plus c (by omega)]
    rw [ih ⟨c.left, c.right + 1⟩ (by simp; omega)]
    simp [List.replicate_succ, trueRows, Kind.isOld, Kind.isNew, Nat.add_assoc, Nat.add_comm 1 n]

/-- Buffered lines of a subhunk, in input order. -/
def pending (m p : Nat) : List Kind := List.replicate m .minus ++ List.replicate p .plus

/-- `paint_buffered_minus_and_plus_lines` (unified): minus lines first, then plus lines, each with its
    true number. -/
theorem paintSubhunkU_spec (c : Counters) (m p : Nat)
    (h : c.left + m ≤ usizeMax) (h' : c.right + p ≤ usizeMax) :
    paintSubhunkU c m p = .ok (⟨c.left + m, c.right + p⟩, trueRows c.left c.right (pending m p)) := by
  unfold paintSubhunkU
  by_cases h0 : m = 0 ∧ p = 0
  · obtain ⟨rfl, rfl⟩ := h0
    simp [pending, trueRows]
  · have hp := paintLinesU_plus p ⟨c.left + m, c.right⟩ (by simpa using h')
    simp only [] at hp
    simp [h0, unifiedOrder, paintSidesU, St.ofCode, paintLinesU_minus m c h, hp, pending, trueRows_append]

theorem paintZeroU_spec (c : Counters) (h : c.left + 1 ≤ usizeMax) (h' : c.right + 1 ≤ usizeMax) :
    paintZeroU c = .ok (⟨c.left + 1, c.right + 1⟩, trueRows c.left c.right [.ctx]) := by
  simp [paintZeroU, paintLinesU, paintLine_u_zero c h h', trueRows]

/-! ### `handle_hunk_line` -/

/-- What the rows painted so far plus the buffered lines plus the lines still to come must add up to. -/
def UState.total (s : UState) (rest : List Kind) : List (Option Cell) :=
  s.out ++ trueRows s.c.left s.c.right (pending s.minusBuf s.plusBuf ++ rest)

def UState.inv (s : UState) : Prop := s.plusBuf > 0 → s.prevPlus = true

theorem flushU_spec (s : UState)
    (h : s.c.left + s.minusBuf ≤ usizeMax) (h' : s.c.right + s.plusBuf ≤ usizeMax) :
    flushU s = .ok ⟨⟨s.c.left + s.minusBuf, s.c.right + s.plusBuf⟩, 0, 0, s.prevPlus,
      s.out ++ trueRows s.c.left s.c.right (pending s.minusBuf s.plusBuf)⟩ := by
  simp [flushU, paintSubhunkU_spec s.c s.minusBuf s.plusBuf h h']

theorem pending_zero : pending 0 0 = [] := rfl

theorem countOld_pending (m p : Nat) : countOld (pending m p) = m := by
  simp [pending, countOld_append]

theorem countNew_pending (m p : Nat) : countNew (pending m p) = p := by
  simp [pending, countNew_append]

/-- One hunk line: the step succeeds, keeps the invariant, does not change the total, and moves the
    "position" (counter + buffered) by the kind of the line. -/
theorem stepLineU_spec (bufSize : Nat) (s : UState) (k : Kind) (rest : List Kind)
    (hinv : s.inv)
    (h : s.c.left + s.minusBuf + (if k.isOld then 1 else 0) ≤ usizeMax)
    (h' : s.c.right + s.plusBuf + (if k.isNew then 1 else 0) ≤ usizeMax) :
    ∃ s', stepLineU bufSize s k = .ok s' ∧ s'.inv ∧ s'.total rest = s.total (k :: rest) ∧
      s'.c.left + s'.minusBuf = s.c.left + s.minusBuf + (if k.isOld then 1 else 0) ∧
      s'.c.right + s'.plusBuf = s.c.right + s.plusBuf + (if k.isNew then 1 else 0) := by
  -- first the optional flush of over-full buffers
  have hfl := flushU_spec s (by omega) (by omega)
  obtain ⟨s1, hs1, hinv1, htot1, hl1, hr1⟩ :
      ∃ s1, (if overFull bufSize s.minusBuf || overFull bufSize s.plusBuf then flushU s else .ok s) = .ok s1 ∧
        s1.inv ∧ (∀ r, s1.total r = s.total r) ∧
        s1.c.left + s1.minusBuf = s.c.left + s.minusBuf ∧ s1.c.right + s1.plusBuf = s.c.right + s.plusBuf := by
    by_cases hov : (overFull bufSize s.minusBuf || overFull bufSize s.plusBuf) = true
    · refine ⟨_, by rw [if_pos hov]; exact hfl, ?_, ?_, ?_, ?_⟩
      · intro hp; simp at hp
      · intro r
        simp [UState.total, pending_zero, trueRows_append, countOld_pending, countNew_pending, List.append_assoc]
      · simp
      · simp
    · exact ⟨s, by rw [if_neg hov], hinv, fun _ => rfl, rfl, rfl⟩
  unfold stepLineU
  rw [hs1]
  cases k with
  | minus =>
    simp only [Kind.isOld, Kind.isNew, if_true, if_false, Nat.add_zero] at h h' ⊢
    by_cases hpp : s1.prevPlus = true
    · -- previous line was a plus line: the subhunk is complete, flush it
      have hfl1 := flushU_spec s1 (by omega) (by omega)
      simp only [hpp, if_true, hfl1]
      refine ⟨_, rfl, ?_, ?_, ?_, ?_⟩
      · intro hp; simp at hp
      · rw [← htot1]
        simp [UState.total, pending, trueRows_append, List.append_assoc, trueRows, Kind.isOld, Kind.isNew]
      · first | omega | (simp; omega)
      · first | omega | (simp; omega)
    · have hp0 : s1.plusBuf = 0 := by
        by_cases hz : s1.plusBuf = 0
        · exact hz
        · exact absurd (hinv1 (by omega)) hpp
      simp only [hpp, if_false]
      refine ⟨_, rfl, ?_, ?_, ?_, ?_⟩
      · intro hp; simp [hp0] at hp
      · rw [← htot1]
        simp [UState.total, pending, hp0, List.replicate_succ', List.append_assoc]
      · first | omega | (simp; omega)
      · first | omega | (simp; omega)
  | plus =>
    simp only [Kind.isOld, Kind.isNew, if_true, if_false, Nat.add_zero] at h h' ⊢
    refine ⟨_, rfl, ?_, ?_, ?_, ?_⟩
    · intro _; rfl
    · rw [← htot1]
      simp [UState.total, pending, List.replicate_succ', List.append_assoc]
    · first | omega | (simp; omega)
    · first | omega | (simp; omega)
  | ctx =>
    simp only [Kind.isOld, Kind.isNew, if_true] at h h' ⊢
    have hfl1 := flushU_spec s1 (by omega) (by omega)
    have hz := paintZeroU_spec ⟨s1.c.left + s1.minusBuf, s1.c.right + s1.plusBuf⟩
      (by simp; omega) (by simp; omega)
    simp only [hfl1, hz]
    refine ⟨_, rfl, ?_, ?_, ?_, ?_⟩
    · intro hp; simp at hp
    · rw [← htot1]
      simp [UState.total, pending_zero, trueRows_append, countOld_pending, countNew_pending, trueRows,
        List.append_assoc, Kind.isOld, Kind.isNew]
    · first | omega | (simp; omega)
    · first | omega | (simp; omega)

theorem stepLinesU_spec (bufSize : Nat) (ks : List Kind) : ∀ (s : UState), s.inv →
    s.c.left + s.minusBuf + countOld ks ≤ usizeMax → s.c.right + s.plusBuf + countNew ks ≤ usizeMax →
    ∃ s', stepLinesU bufSize s ks = .ok s' ∧ s'.total [] = s.total ks ∧
      s'.c.left + s'.minusBuf = s.c.left + s.minusBuf + countOld ks ∧
      s'.c.right + s'.plusBuf = s.c.right + s.plusBuf + countNew ks := by
  induction ks with
  | nil => intro s _ _ _; exact ⟨s, rfl, rfl, by simp, by simp⟩
  | cons k ks ih =>
    intro s hinv h h'
    rw [countOld_cons] at h
    rw [countNew_cons] at h'
    obtain ⟨s1, hs1, hinv1, htot1, hl1, hr1⟩ := stepLineU_spec bufSize s k ks hinv (by omega) (by omega)
    obtain ⟨s2, hs2, htot2, hl2, hr2⟩ := ih s1 hinv1 (by omega) (by omega)
    refine ⟨s2, ?_, ?_, ?_, ?_⟩
    · simp [stepLinesU, hs1, hs2]
    · rw [htot2, htot1]
    · rw [countOld_cons]; omega
    · rw [countNew_cons]; omega

/-- The whole hunk in unified mode: every line gets its true numbers, in input order, and the
    counters end at `start + number of old/new lines`. -/
theorem runUnified_spec (bufSize a c : Nat) (ks : List Kind)
    (h : a + countOld ks ≤ usizeMax) (h' : c + countNew ks ≤ usizeMax) :
    runUnified bufSize ⟨a, c⟩ ks = .ok (⟨a + countOld ks, c + countNew ks⟩, trueRows a c ks) := by
  obtain ⟨s1, hs1, htot, hl, hr⟩ := stepLinesU_spec bufSize ks ⟨⟨a, c⟩, 0, 0, false, []⟩
    (by intro hp; simp at hp) (by simpa using h) (by simpa using h')
  have hfl := flushU_spec s1 (by simp at hl; omega) (by simp at hr; omega)
  unfold runUnified
  rw [hs1]
  simp only [hfl]
  simp only [UState.total, List.append_nil, pending_zero, List.nil_append] at htot
  simp at hl hr
  simp [htot, hl, hr]

end LineNumbers
