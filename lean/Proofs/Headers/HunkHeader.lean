import DeltaModel.Headers
/-! The hand-written `HUNK_HEADER_REGEX` matcher returns the fragment untouched. -/
set_option linter.unusedSimpArgs false
namespace Headers

theorem takeWhile_append_stop {α : Type} (p : α → Bool) (xs rest : List α)
    (hx : ∀ x ∈ xs, p x = true) (hr : ∀ y, rest.head? = some y → p y = false) :
    (xs ++ rest).takeWhile p = xs ∧ (xs ++ rest).dropWhile p = rest := by
  induction xs with
  | nil =>
    cases rest with
    | nil => simp
    | cons y ys => simp [List.takeWhile, List.dropWhile, hr y rfl]
  | cons x xs ih =>
    have hx' : p x = true := hx x (by simp)
    have := ih (fun z hz => hx z (by simp [hz]))
    simp [List.takeWhile, List.dropWhile, hx', this.1, this.2]

/-- `@`×k, a blank, coordinate text without `@`, `@`×j, then a fragment not starting with `@`:
the matcher returns exactly (coordinate text, fragment). -/
theorem matchHunkHeaderAt_shape (k j : Nat) (hk : 0 < k) (hj : 0 < j) (c f : Str)
    (hc : c ≠ []) (hcat : ∀ x ∈ c, x ≠ '@') (hf : f.head? ≠ some '@') :
    matchHunkHeaderAt (List.replicate k '@' ++ ' ' :: (c ++ (List.replicate j '@' ++ f))) = some (c, f) := by
  unfold matchHunkHeaderAt
  have h1 := takeWhile_append_stop (fun x => decide (x = '@')) (List.replicate k '@')
    (' ' :: (c ++ (List.replicate j '@' ++ f)))
    (by intro x hx; simp [List.mem_replicate] at hx; simp [hx.2])
    (by intro y hy; simp at hy; subst hy; decide)
  have h2 := takeWhile_append_stop (fun x => decide (x ≠ '@')) c (List.replicate j '@' ++ f)
    (by intro x hx; simpa using hcat x hx)
    (by
      intro y hy
      cases j with
      | zero => omega
      | succ j => simp [List.replicate_succ] at hy; subst hy; decide)
  have h3 := takeWhile_append_stop (fun x => decide (x = '@')) (List.replicate j '@') f
    (by intro x hx; simp [List.mem_replicate] at hx; simp [hx.2])
    (by intro y hy; simp; intro h; subst h; exact hf hy)
  simp only [h1.2]
  have hlen : (' ' :: (c ++ (List.replicate j '@' ++ f))).length ≠
      (List.replicate k '@' ++ ' ' :: (c ++ (List.replicate j '@' ++ f))).length := by
    simp; omega
  simp only [hlen, if_false, h2.1, h2.2, hc, h3.2]
  have hlen2 : f.length ≠ (List.replicate j '@' ++ f).length := by simp; omega
  simp [hlen2]; omega

/-- `hunk_header_fragment_intact`: a hunk header line `@@ <coords> @@<fragment>` (any number of `@`
for combined diffs) is matched at its start and the code fragment git supplied is returned
unchanged, whatever it contains (provided it does not itself begin with `@`). -/
theorem hunk_header_fragment_intact (k j : Nat) (hk : 0 < k) (hj : 0 < j) (c f : Str)
    (hc : c ≠ []) (hcat : ∀ x ∈ c, x ≠ '@') (hf : f.head? ≠ some '@') :
    searchHunkHeader (List.replicate k '@' ++ ' ' :: (c ++ (List.replicate j '@' ++ f))) = some (c, f) := by
  cases k with
  | zero => omega
  | succ k =>
    have := matchHunkHeaderAt_shape (k + 1) j (by omega) hj c f hc hcat hf
    simp only [List.replicate_succ, List.cons_append] at this ⊢
    simp only [searchHunkHeader, this]

end Headers
