import DeltaModel.Headers
/-! Path extraction from `diff --git` lines and the header descriptions. -/
set_option linter.unusedSimpArgs false
namespace Headers
open Generated

theorem parseFilePath_prefixed (p : Str) (x : Str) (hp : p ∈ Markers.diffPrefixes)
    (hx : (p ++ x).getLast? ≠ some '\t') : parseFilePath (p ++ x) true = x := by
  have hp2 : p.length = 2 ∧ p.head? ≠ some '"' ∧ p ≠ [] := by
    simp [Markers.diffPrefixes] at hp
    rcases hp with h | h | h | h | h | h <;> subst h <;> simp
  unfold parseFilePath removeSurroundingQuotes
  have hh : (p ++ x).head? ≠ some '"' := by
    cases p with
    | nil => exact absurd rfl hp2.2.2
    | cons c cs => simpa using hp2.2.1
  simp only [hh, false_and, and_false, if_false]
  simp only [hx, if_false]
  have hdn : p ++ x ≠ Markers.devNull := by
    simp [Markers.diffPrefixes] at hp
    rcases hp with h | h | h | h | h | h <;> subst h <;> simp [Markers.devNull]
  simp only [hdn, if_false]
  have hsw : startsWithAny (p ++ x) Markers.diffPrefixes = true := by
    unfold startsWithAny
    rw [List.any_eq_true]
    exact ⟨p, hp, by simp [startsWith]⟩
  simp [hsw, hp2.1]

/-- a string as single-character clusters -/
def singles (p : Str) : List Str := p.map (fun c => [c])

@[simp] theorem singles_flatten (p : Str) : (singles p).flatten = p := by
  induction p with
  | nil => rfl
  | cons c cs ih => simp [singles] at ih ⊢; exact ih

@[simp] theorem singles_length (p : Str) : (singles p).length = p.length := by simp [singles]

/-- `repeated_path`: for `diff --git <p1><X> <p2><X>` with mnemonic prefixes `p1`, `p2` and ANY path `X`
(given as its grapheme clusters: spaces, non-ASCII, anything), the path extracted is `X`. -/
theorem repeated_path (line : Str) (p1 p2 : Str) (X : List Str)
    (hl : startsWith line Markers.diffGit = true)
    (hp1 : p1 ∈ Markers.diffPrefixes) (hp2 : p2 ∈ Markers.diffPrefixes)
    (hx1 : (p1 ++ X.flatten).getLast? ≠ some '\t') (hx2 : (p2 ++ X.flatten).getLast? ≠ some '\t') :
    repeatedFilePath line (singles p1 ++ X ++ [[' ']] ++ singles p2 ++ X) = some X.flatten := by
  have l1 : p1.length = 2 := by
    simp [Markers.diffPrefixes] at hp1
    rcases hp1 with h | h | h | h | h | h <;> subst h <;> rfl
  have l2 : p2.length = 2 := by
    simp [Markers.diffPrefixes] at hp2
    rcases hp2 with h | h | h | h | h | h <;> subst h <;> rfl
  unfold repeatedFilePath
  simp only [hl, if_true]
  have hlen : (singles p1 ++ X ++ [[' ']] ++ singles p2 ++ X).length / 2 = X.length + 2 := by
    simp [l1, l2]; omega
  rw [hlen]
  have hget : (singles p1 ++ X ++ [[' ']] ++ singles p2 ++ X)[X.length + 2]? = some [' '] := by
    have : (singles p1 ++ X).length = X.length + 2 := by simp [l1]; omega
    rw [List.append_assoc (singles p1 ++ X ++ [[' ']]), List.append_assoc (singles p1 ++ X)]
    rw [List.getElem?_append_right (by omega)]
    simp [this]
  rw [hget]
  have htake : (singles p1 ++ X ++ [[' ']] ++ singles p2 ++ X).take (X.length + 2) = singles p1 ++ X := by
    have : (singles p1 ++ X).length = X.length + 2 := by simp [l1]; omega
    rw [List.append_assoc (singles p1 ++ X ++ [[' ']]), List.append_assoc (singles p1 ++ X)]
    rw [← this, List.take_left]
  have hdrop : (singles p1 ++ X ++ [[' ']] ++ singles p2 ++ X).drop (X.length + 2 + 1) = singles p2 ++ X := by
    have : (singles p1 ++ X ++ [[' ']]).length = X.length + 2 + 1 := by simp [l1]; omega
    rw [List.append_assoc (singles p1 ++ X ++ [[' ']])]
    rw [← this, List.drop_left]
  simp only [if_true, htake, hdrop, List.flatten_append, singles_flatten]
  rw [parseFilePath_prefixed p1 _ hp1 hx1, parseFilePath_prefixed p2 _ hp2 hx2]
  simp

end Headers
