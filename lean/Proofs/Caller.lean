import DeltaModel.Caller
/-!
Invariant of the calling-process protocol model and its preservation by every step.
Everything in Props/C20.lean follows from `Inv` by induction over the schedule.
-/
namespace Caller

/-- Background pcs at which the background thread holds the mutex. -/
def BPc.holds : BPc → Bool
  | .load | .store | .notify | .unlock => true
  | _ => false

/-- Main pcs at which the main thread holds the mutex. -/
def MPc.holds : MPc → Bool
  | .pubStore | .pubFlag | .pubNotify | .pubUnlock | .qCheck | .qSleep | .qRead | .qUnlock => true
  | _ => false

/-- Main has not yet executed `CALLER_INFO_SOURCE.store(CALLER_KNOWN)`. -/
def MPc.preFlag : MPc → Bool
  | .pubLock | .pubStore | .pubFlag => true
  | _ => false

/-- Main has not yet executed `*caller = result`. -/
def MPc.preStore : MPc → Bool
  | .pubLock | .pubStore => true
  | _ => false

def MPc.inPub : MPc → Bool
  | .pubLock | .pubStore | .pubFlag | .pubNotify | .pubUnlock => true
  | _ => false

/-- The background thread's `notify_all` is still ahead. -/
def BPc.notifyAhead : BPc → Bool
  | .compute | .lock | .load | .store | .notify => true
  | _ => false

/-- The background thread has not passed its (conditional) store. -/
def BPc.storeAhead : BPc → Bool
  | .compute | .lock | .load | .store => true
  | _ => false

/-- What a query may return in scenario `cfg`. -/
def GoodResult (cfg : Cfg) (r : Cell) : Prop :=
  r ≠ .pending ∧ (∀ k, cfg.known = some k → r = .val k) ∧ (cfg.known = none → r = .val cfg.guess)

structure Inv (cfg : Cfg) (s : State) : Prop where
  ownBg : s.owner = some .bg ↔ s.bpc.holds = true
  ownMain : s.owner = some .main ↔ s.mpc.holds = true
  waitSet : s.waiters = if s.mpc = .asleep then [.main] else []
  srcKnown : s.src = .known ↔ (cfg.known ≠ none ∧ s.mpc.preFlag = false)
  noPub : cfg.known = none → s.mpc.inPub = false
  knownCell : ∀ k, cfg.known = some k → s.mpc.preStore = false → s.cell = .val k
  storeGuard : s.bpc = .store → s.src = .guessed
  guessCell : cfg.known = none → s.cell = .pending ∨ s.cell = .val cfg.guess
  pendingBg : s.cell = .pending → s.bpc.storeAhead = true
  sleepPending : s.mpc = .qSleep → s.cell = .pending
  asleepBg : s.mpc = .asleep → s.bpc.notifyAhead = true
  readReady : s.mpc = .qRead → s.cell ≠ .pending
  results : ∀ r ∈ s.results, GoodResult cfg r

theorem inv_init (cfg : Cfg) : Inv cfg (init cfg) := by
  obtain ⟨g, k, q⟩ := cfg
  cases k <;> by_cases hq : q = 0 <;>
    constructor <;> simp [init, queryStart, hq, BPc.holds, MPc.holds, MPc.preFlag, MPc.preStore,
      MPc.inPub, BPc.notifyAhead, BPc.storeAhead]

theorem MPc.preFlag_free {m : MPc} (h : m.preFlag = true) (f : m.holds = false) :
    m.preStore = true := by
  cases m <;> simp_all [MPc.preFlag, MPc.holds, MPc.preStore]

theorem MPc.preStore_of_preFlag {m : MPc} (h : m.preFlag = false) : m.preStore = false := by
  cases m <;> simp_all [MPc.preFlag, MPc.preStore]

/-- Once the flag says KNOWN the cell holds the published value. -/
theorem Inv.known_cell {cfg : Cfg} {s : State} (h : Inv cfg s) (hk : s.src = .known) :
    ∃ k, cfg.known = some k ∧ s.cell = .val k := by
  obtain ⟨hsome, hpf⟩ := h.srcKnown.mp hk
  cases hkn : cfg.known with
  | none => exact absurd hkn hsome
  | some k => exact ⟨k, rfl, h.knownCell k hkn (MPc.preStore_of_preFlag hpf)⟩

theorem inv_stepBg {cfg : Cfg} {s s' : State}
    (h : Inv cfg s) (hs : stepBg cfg s = some s') : Inv cfg s' := by
  have hk := h.known_cell
  obtain ⟨h1, h2, h3, h4, h5, h6, h7, h8, h9, h10, h11, h12, h13⟩ := h
  unfold stepBg at hs
  have hp := @MPc.preFlag_free s.mpc
  have hsrc : s.src = .guessed ∨ s.src = .known := by cases s.src <;> simp
  constructor <;>
    grind [BPc.holds, MPc.holds, MPc.preFlag, MPc.preStore, MPc.inPub, BPc.notifyAhead,
      BPc.storeAhead, queryStart, notifyAll]

theorem BPc.notifyAhead_of_storeAhead {b : BPc} (h : b.storeAhead = true) :
    b.notifyAhead = true := by
  cases b <;> simp_all [BPc.storeAhead, BPc.notifyAhead]

theorem inv_stepMain {cfg : Cfg} {s s' : State}
    (h : Inv cfg s) (hs : stepMain cfg s = some s') : Inv cfg s' := by
  have hk := h.known_cell
  have hna := @BPc.notifyAhead_of_storeAhead s.bpc
  obtain ⟨h1, h2, h3, h4, h5, h6, h7, h8, h9, h10, h11, h12, h13⟩ := h
  unfold stepMain at hs
  have hsrc : s.src = .guessed ∨ s.src = .known := by cases s.src <;> simp
  constructor <;>
    grind [BPc.holds, MPc.holds, MPc.preFlag, MPc.preStore, MPc.inPub, BPc.notifyAhead,
      BPc.storeAhead, queryStart, notifyAll, GoodResult]

theorem inv_stepSpurious {cfg : Cfg} {s s' : State}
    (h : Inv cfg s) (hs : stepSpurious s = some s') : Inv cfg s' := by
  obtain ⟨h1, h2, h3, h4, h5, h6, h7, h8, h9, h10, h11, h12, h13⟩ := h
  unfold stepSpurious at hs
  constructor <;>
    grind [BPc.holds, MPc.holds, MPc.preFlag, MPc.preStore, MPc.inPub, BPc.notifyAhead,
      BPc.storeAhead, queryStart, notifyAll]

theorem inv_step {cfg : Cfg} {s s' : State} {c : Choice}
    (h : Inv cfg s) (hs : step cfg s c = some s') : Inv cfg s' := by
  cases c <;> simp only [step] at hs
  · exact inv_stepBg h hs
  · exact inv_stepMain h hs
  · exact inv_stepSpurious h hs

theorem inv_run {cfg : Cfg} : ∀ {cs : List Choice} {s s' : State},
    Inv cfg s → run cfg s cs = some s' → Inv cfg s'
  | [], s, s', h, hr => by
      simp only [run, Option.some.injEq] at hr
      exact hr ▸ h
  | c :: cs, s, s', h, hr => by
      simp only [run] at hr
      cases hst : step cfg s c with
      | none => simp [hst] at hr
      | some s1 =>
        rw [hst] at hr
        exact inv_run (inv_step h hst) hr

theorem inv_reachable {cfg : Cfg} {s : State} (h : Reachable cfg s) : Inv cfg s := by
  obtain ⟨cs, hr⟩ := h
  exact inv_run (inv_init cfg) hr

/-! ### Progress -/

theorem progress {cfg : Cfg} {s : State} (h : Inv cfg s) (hf : final s = false) :
    ∃ c, c ≠ Choice.spurious ∧ (step cfg s c).isSome = true := by
  obtain ⟨h1, h2, h3, h4, h5, h6, h7, h8, h9, h10, h11, h12, h13⟩ := h
  have ho : s.owner = none ∨ s.owner = some .bg ∨ s.owner = some .main := by
    rcases s.owner with _ | _ | _ <;> simp
  by_cases hb : (stepBg cfg s).isSome = true
  · exact ⟨.bg, by simp, by simpa [step] using hb⟩
  · refine ⟨.main, by simp, ?_⟩
    simp only [step]
    unfold stepBg at hb
    unfold stepMain
    unfold final at hf
    grind [BPc.holds, MPc.holds, MPc.preFlag, MPc.preStore, MPc.inPub, BPc.notifyAhead,
      BPc.storeAhead]

end Caller
