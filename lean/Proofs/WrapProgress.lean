import Proofs.Wrap
/-
C07 helper: termination measure of the `wrap_line` loop, the exact progress condition, and
the non-termination of the stuck state.
-/
namespace Wrap

/-- Every cluster still on the stack leaves room for the wrap symbol on a row. -/
def Fits (cfg : Cfg) (lw : Nat) (secs : List Sec) : Prop :=
  ∀ sec ∈ secs, ∀ g ∈ sec.2, g.w + cfg.leftSym.w ≤ lw

def mu (st : St) : Nat :=
  4 * clusterCount st.stack + 4 * st.stack.length + (if 0 < st.len then 2 else 0) +
    (if st.curr = [] then 0 else 1)

theorem gsWidth_pos {gs : List G} (h : 0 < gsWidth gs) : ∃ g ∈ gs, 0 < g.w := by
  induction gs with
  | nil => simp [gsWidth] at h
  | cons g gs ih =>
    by_cases hg : 0 < g.w
    · exact ⟨g, by simp, hg⟩
    · have : 0 < gsWidth gs := by simp [gsWidth] at h; omega
      obtain ⟨g', hm, hp⟩ := ih this
      exact ⟨g', List.mem_cons_of_mem _ hm, hp⟩

theorem fits_step {fx : Fixes} {cfg : Cfg} {sym lw : Nat} {st st' : St} (hf : Fits cfg lw st.stack)
    (h : StepRel fx cfg sym lw st st') : Fits cfg lw st'.stack := by
  cases h with
  | push style gs rest hs hl hfit =>
    intro sec hsec; exact hf sec (by rw [hs]; exact List.mem_cons_of_mem _ hsec)
  | nl style gs rest hs hl heq hnl => intro sec hsec; cases hsec
  | split0 style gs rest hs hl hge hnf hns hw => rw [← hs]; exact hf
  | splitk style gs rest hs hl hge hnf hns hw =>
    intro sec hsec g hg
    simp at hsec
    cases hsec with
    | inl h1 =>
      subst h1
      exact hf (style, gs) (by rw [hs]; simp) g (takeFit_snd_subset _ _ g hg)
    | inr h2 => exact hf sec (by rw [hs]; exact List.mem_cons_of_mem _ h2) g hg

/-- Under `Fits`, on a row without visible text, the first cluster of a section that must be
split fits next to the wrap symbol. -/
theorem first_fits_of_fits {cfg : Cfg} {lw : Nat} {g : G} {gs : List G}
    (hf : ∀ g' ∈ g :: gs, g'.w + cfg.leftSym.w ≤ lw) (hge : lw ≤ gsWidth (g :: gs)) (h2 : 2 ≤ lw) :
    g.w ≤ widthLeft cfg lw 0 (g :: gs) ∧ 0 < widthLeft cfg lw 0 (g :: gs) := by
  obtain ⟨g', hg', hp⟩ := gsWidth_pos (gs := g :: gs) (by omega)
  have h1 := hf g' hg'
  have h0 := hf g (by simp)
  unfold widthLeft
  omega

/-- What "no progress" means for an iteration that splits on a row without visible text. -/
theorem no_progress_cases {fx : Fixes} {cfg : Cfg} {sym lw : Nat} {st st' : St}
    (h : StepRel fx cfg sym lw st st') :
    mu st' < mu st ∨
    (st.len = 0 ∧ ∃ style gs rest, st.stack = (style, gs) :: rest ∧
      lw ≤ gsWidth gs ∧ ¬ (gsWidth gs = lw ∧ PerfectRest fx rest) ∧
      (widthLeft cfg lw 0 gs = 0 ∨ widthLeft cfg lw 0 gs < firstW gs) ∧
      ¬ StuckStop fx cfg lw st gs ∧ st.curr = [] ∧ st'.stack = st.stack ∧ st'.curr = [] ∧ st'.len = 0 ∧
      ∃ row, st'.result = st.result ++ [row]) := by
  cases h with
  | push style gs rest hs hl hfit =>
    left
    simp only [mu, hs, clusterCount, List.length_cons]
    have : (st.curr ++ [(style, gs)] = []) = False := by simp
    simp only [this, if_false]
    split <;> split <;> split <;> omega
  | nl style gs rest hs hl heq hnl =>
    left
    simp only [mu, hs, clusterCount, List.length_cons, List.length_nil]
    have : (st.curr ++ (style, gs) :: rest = []) = False := by simp
    simp only [this, if_false]
    split <;> split <;> split <;> omega
  | split0 style gs rest hs hl hge hnf hns hw =>
    by_cases hpos : 0 < st.len
    · left
      simp only [mu, hs, clusterCount, List.length_cons]
      simp [hpos]
      split <;> omega
    · have h0 : st.len = 0 := by omega
      by_cases hc : st.curr = []
      · right
        rw [h0] at hge hnf
        simp only [Nat.zero_add] at hge hnf
        refine ⟨h0, style, gs, rest, hs, hge, hnf, ?_, hns, hc, hs.symm, rfl, rfl, _, rfl⟩
        left
        have := hw.1
        rw [h0] at this
        exact this
      · left
        simp only [mu, hs, clusterCount, List.length_cons]
        simp [hc, h0]
  | splitk style gs rest hs hl hge hnf hns hw =>
    have hle := takeFit_snd_length_le (widthLeft cfg lw st.len gs) gs
    by_cases hpos : 0 < st.len
    · left
      simp only [mu, hs, clusterCount, List.length_cons]
      simp [hpos]
      split <;> omega
    · have h0 : st.len = 0 := by omega
      cases gs with
      | nil =>
        have h2 := lw_ge_two_of_not_limit hl
        rw [h0] at hge
        simp [gsWidth] at hge
        omega
      | cons g gs =>
        by_cases hfit : g.w ≤ widthLeft cfg lw st.len (g :: gs)
        · left
          have := takeFit_progress (widthLeft cfg lw st.len (g :: gs)) g gs hfit
          simp only [mu, hs, clusterCount, List.length_cons, h0] at this ⊢
          simp
          split <;> omega
        · by_cases hc : st.curr = []
          · right
            rw [h0] at hge hnf hfit
            simp only [Nat.zero_add] at hge hnf
            refine ⟨h0, style, g :: gs, rest, hs, hge, hnf, ?_, hns, hc, ?_, rfl, rfl, _, rfl⟩
            · right; simp only [firstW]; omega
            · rw [h0, takeFit_stuck _ g gs (by omega), hs]
          · left
            rw [takeFit_stuck _ g gs (by omega)]
            simp only [mu, hs, clusterCount, List.length_cons]
            simp [hc, h0]

/-- With `Fits`, or with the progress repair and no line limit, every iteration decreases the
measure. -/
theorem mu_step_fits {fx : Fixes} {cfg : Cfg} {sym lw : Nat} {st st' : St}
    (hf : (fx.stuckStop = true ∧ effMax cfg lw = 0) ∨ Fits cfg lw st.stack)
    (h : StepRel fx cfg sym lw st st') : mu st' < mu st := by
  have hl2 : 2 ≤ lw := by
    cases h with
    | push _ _ _ _ hl _ => exact lw_ge_two_of_not_limit hl
    | nl _ _ _ _ hl _ _ => exact lw_ge_two_of_not_limit hl
    | split0 _ _ _ _ hl _ _ _ _ => exact lw_ge_two_of_not_limit hl
    | splitk _ _ _ _ hl _ _ _ _ => exact lw_ge_two_of_not_limit hl
  rcases no_progress_cases h with hlt | ⟨h0, style, gs, rest, hs, hge, hnf, hno, hns, hc, _⟩
  · exact hlt
  · exfalso
    rcases hf with ⟨hss, hu⟩ | hf
    · exact hns ⟨hss, hu, hc, by rw [h0]; exact hno⟩
    · cases gs with
      | nil => simp [gsWidth] at hge; omega
      | cons g gs =>
        have hfs : ∀ g' ∈ g :: gs, g'.w + cfg.leftSym.w ≤ lw := hf (style, g :: gs) (by rw [hs]; simp)
        have := first_fits_of_fits hfs hge hl2
        simp only [firstW] at hno
        omega

/-- Without any hypothesis the measure never increases, and splits add a row. -/
theorem mu_step_limited {fx : Fixes} {cfg : Cfg} {sym lw : Nat} {st st' : St}
    (h : StepRel fx cfg sym lw st st') (hpos : 0 < effMax cfg lw) :
    mu st' + (effMax cfg lw - st'.result.length) < mu st + (effMax cfg lw - st.result.length) := by
  have hlim : st.result.length + 1 < effMax cfg lw := by
    cases h with
    | push _ _ _ _ hl _ => exact not_limit_lt hl hpos
    | nl _ _ _ _ hl _ _ => exact not_limit_lt hl hpos
    | split0 _ _ _ _ hl _ _ _ _ => exact not_limit_lt hl hpos
    | splitk _ _ _ _ hl _ _ _ _ => exact not_limit_lt hl hpos
  rcases no_progress_cases h with hlt | ⟨hl0, _, _, _, _, _, _, _, _, hc, hst, hc', hl', row, hrow⟩
  · have hres : st.result.length ≤ st'.result.length := by
      cases h <;> simp
    omega
  · have : mu st' = mu st := by
      simp only [mu, hst, hc, hc', hl', hl0]
    rw [this, hrow]
    simp
    omega

/-- A decreasing measure bounds the fuel the loop needs. -/
theorem loop_some_of_measure {fx : Fixes} {cfg : Cfg} {sym lw : Nat} (m : St → Nat) (P : St → Prop)
    (hP : ∀ st st', P st → StepRel fx cfg sym lw st st' → P st' ∧ m st' < m st) :
    ∀ (fuel : Nat) (st : St), P st → m st < fuel → ∃ r, loop fx cfg sym lw fuel st = some r := by
  intro fuel
  induction fuel with
  | zero => intro st _ h; omega
  | succ n ih =>
    intro st hp hm
    unfold loop
    split
    · exact ⟨_, rfl⟩
    · rename_i st2 hs
      obtain ⟨hp2, hlt⟩ := hP st st2 hp (step_next hs)
      exact ih st2 hp2 (by omega)

theorem mu_init_lt_fuel (cfg : Cfg) (lw : Nat) (line : List Sec) :
    mu (initSt line) + effMax cfg lw < fuelFor cfg lw line := by
  simp [mu, initSt, fuelFor, secCount]

/-- The loop terminates within the model's fuel when a line limit is in force. -/
theorem loop_terminates_limited (fx : Fixes) (cfg : Cfg) (sym lw : Nat) (line : List Sec)
    (hpos : 0 < effMax cfg lw) :
    ∃ r, loop fx cfg sym lw (fuelFor cfg lw line) (initSt line) = some r := by
  apply loop_some_of_measure (fun st => mu st + (effMax cfg lw - st.result.length)) (fun _ => True)
  · intro st st' _ h
    exact ⟨trivial, mu_step_limited h hpos⟩
  · trivial
  · have := mu_init_lt_fuel cfg lw line
    simp only [initSt, List.length_nil] at this ⊢
    omega

/-- The loop terminates within the model's fuel when every cluster leaves room for the wrap
symbol. -/
theorem loop_terminates_fits (fx : Fixes) (cfg : Cfg) (sym lw : Nat) (line : List Sec)
    (hf : Fits cfg lw line) :
    ∃ r, loop fx cfg sym lw (fuelFor cfg lw line) (initSt line) = some r := by
  apply loop_some_of_measure mu (fun st => Fits cfg lw st.stack)
  · intro st st' hp h
    exact ⟨fits_step hp h, mu_step_fits (Or.inr hp) h⟩
  · exact hf
  · have := mu_init_lt_fuel cfg lw line
    omega

/-- With the progress repair the loop always terminates within the model's fuel. -/
theorem loop_terminates_repaired (fx : Fixes) (cfg : Cfg) (sym lw : Nat) (line : List Sec)
    (hf : fx.stuckStop = true) :
    ∃ r, loop fx cfg sym lw (fuelFor cfg lw line) (initSt line) = some r := by
  by_cases hpos : 0 < effMax cfg lw
  · exact loop_terminates_limited fx cfg sym lw line hpos
  · apply loop_some_of_measure mu (fun _ => True)
    · intro st st' _ h
      exact ⟨trivial, mu_step_fits (Or.inl ⟨hf, by omega⟩) h⟩
    · trivial
    · have := mu_init_lt_fuel cfg lw line
      omega

/-! ### The stuck state -/

/-- A state at the start of a row whose next cluster does not leave room for the wrap symbol,
with no line limit, on the unrepaired code: the iteration emits a row holding only the wrap
symbol and returns to the same stack. -/
structure Stuck (fx : Fixes) (cfg : Cfg) (lw : Nat) (st : St) : Prop where
  unfixed : fx.stuckStop = false
  unlimited : effMax cfg lw = 0
  len0 : st.len = 0
  curr0 : st.curr = []
  top : ∃ style g gs rest, st.stack = (style, g :: gs) :: rest ∧ 0 < g.w ∧ lw < g.w + cfg.leftSym.w ∧
        lw ≤ gsWidth (g :: gs) ∧
        ¬ (gsWidth (g :: gs) = lw ∧ PerfectRest fx rest)

theorem stuck_step {fx : Fixes} {cfg : Cfg} {sym lw : Nat} {st : St} (h : Stuck fx cfg lw st) :
    ∃ row, step fx cfg sym lw st = .next { st with result := st.result ++ [row] } := by
  obtain ⟨hfx, hu, h0, hc, style, g, gs, rest, hs, hgpos, hwide, hge, hnf⟩ := h
  unfold step
  rw [hs]
  simp only [hu, limitReached, h0, Nat.zero_add]
  have h1 : ¬ gsWidth (g :: gs) < lw := by omega
  have h2 : ¬ (gsWidth (g :: gs) = lw ∧ rest = []) := fun ⟨a, b⟩ => hnf ⟨a, Or.inl b⟩
  have h3 : ¬ (gsWidth (g :: gs) = lw ∧ isLoneNl rest = true) := fun ⟨a, b⟩ => hnf ⟨a, Or.inr (Or.inl b)⟩
  have h4 : ¬ (gsWidth (g :: gs) = lw ∧ fx.zwPerfectFit = true ∧ allZeroWidth rest = true) :=
    fun ⟨a, b⟩ => hnf ⟨a, Or.inr (Or.inr b)⟩
  simp only [Nat.lt_irrefl, decide_false, Bool.false_and, Bool.false_eq_true, if_false, h1, h2, h3, h4,
    hfx, false_and]
  have hwl : widthLeft cfg lw 0 (g :: gs) < g.w := by
    unfold widthLeft
    omega
  split
  · refine ⟨st.curr ++ [(sym, [cfg.leftSym])], ?_⟩
    congr 1
    cases st; simp_all
  · rw [takeFit_stuck _ g gs hwl]
    refine ⟨st.curr ++ [(style, []), (sym, [cfg.leftSym])], ?_⟩
    congr 1
    cases st; simp_all

theorem stuck_preserved {fx : Fixes} {cfg : Cfg} {lw : Nat} {st : St} (row : Row) (h : Stuck fx cfg lw st) :
    Stuck fx cfg lw { st with result := st.result ++ [row] } :=
  ⟨h.unfixed, h.unlimited, h.len0, h.curr0, h.top⟩

/-- From a stuck state the loop never returns, whatever the fuel. -/
theorem stuck_never_terminates {fx : Fixes} {cfg : Cfg} {sym lw : Nat} :
    ∀ (fuel : Nat) (st : St), Stuck fx cfg lw st → loop fx cfg sym lw fuel st = none := by
  intro fuel
  induction fuel with
  | zero => intro st _; rfl
  | succ n ih =>
    intro st h
    obtain ⟨row, hrow⟩ := stuck_step (sym := sym) h
    unfold loop
    rw [hrow]
    exact ih _ (stuck_preserved row h)

end Wrap
