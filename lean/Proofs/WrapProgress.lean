import Proofs.Wrap
/-
C07 helper: termination measure of the `wrap_line` loop, the exact progress condition, and
the non-termination of the stuck state.
-/
namespace Wrap

/-- Every cluster still on the stack leaves room for the wrap symbol on a row. -/
def Fits (cfg : Cfg) (lw : Nat) (secs : List Sec) : Prop :=
  ∀ sec ∈ secs, ∀ g ∈ sec.2, g.w + cfg.leftSym.w ≤ lw

def mu (st : St) : Nat :=
  2 * clusterCount st.stack + 2 * st.stack.length + (if 0 < st.len then 1 else 0)

theorem gsWidth_pos {gs : List G} (h : 0 < gsWidth gs) : ∃ g ∈ gs, 0 < g.w := by
  induction gs with
  | nil => simp [gsWidth] at h
  | cons g gs ih =>
    by_cases hg : 0 < g.w
    · exact ⟨g, by simp, hg⟩
    · have : 0 < gsWidth gs := by simp [gsWidth] at h; omega
      obtain ⟨g', hm, hp⟩ := ih this
      exact ⟨g', List.mem_cons_of_mem _ hm, hp⟩

theorem fits_step {fx : Fixes} {cfg : Cfg} {sym lw : Nat} {st st' : St} (hf : Fits cfg lw st.stack)
    (h : StepRel fx cfg sym lw st st') : Fits cfg lw st'.stack := by
  cases h with
  | push style gs rest hs hl hfit =>
    intro sec hsec; exact hf sec (by rw [hs]; exact List.mem_cons_of_mem _ hsec)
  | nl style gs rest hs hl heq hnl => intro sec hsec; cases hsec
  | split0 style gs rest hs hl hge hnf hw hns hnfo => rw [← hs]; exact hf
  | splitk style gs rest hs hl hge hnf hw =>
    intro sec hsec g hg
    simp at hsec
    cases hsec with
    | inl h1 =>
      subst h1
      exact hf (style, gs) (by rw [hs]; simp) g (takeFitF_snd_subset _ _ _ _ g hg)
    | inr h2 => exact hf sec (by rw [hs]; exact List.mem_cons_of_mem _ h2) g hg

/-- Under `Fits`, on an empty line, the first cluster of a section that must be split fits:
the progress repair never has to force anything. -/
theorem takeFitF_fits {fx : Fixes} {cfg : Cfg} {lw len : Nat} {gs : List G}
    (hf : ∀ g ∈ gs, g.w + cfg.leftSym.w ≤ lw) (hge : lw ≤ len + gsWidth gs) :
    takeFitF fx len (widthLeft cfg lw len gs) gs = takeFit (widthLeft cfg lw len gs) gs := by
  apply takeFitF_eq
  by_cases h0 : len = 0
  · right; right
    subst h0
    intro g hg
    have := hf g hg
    unfold widthLeft
    omega
  · right; left; exact h0

/-- With `Fits`, or with the progress repair, every iteration decreases the measure. -/
theorem mu_step_fits {fx : Fixes} {cfg : Cfg} {sym lw : Nat} {st st' : St}
    (hf : fx.forceProgress = true ∨ Fits cfg lw st.stack)
    (h : StepRel fx cfg sym lw st st') : mu st' < mu st := by
  cases h with
  | push style gs rest hs hl hfit =>
    simp only [mu, hs, clusterCount, List.length_cons]
    split <;> split <;> omega
  | nl style gs rest hs hl heq hnl =>
    simp only [mu, hs, clusterCount, List.length_cons, List.length_nil]
    split <;> split <;> omega
  | split0 style gs rest hs hl hge hnf hw hns hnfo =>
    have h2 := lw_ge_two_of_not_limit hl
    have hpos : 0 < st.len := by
      apply Nat.pos_of_ne_zero
      intro h0
      cases hf with
      | inl hforce => exact hnfo ⟨hforce, h0⟩
      | inr hf =>
        rw [h0] at hge hw
        have hfs : ∀ g ∈ gs, g.w + cfg.leftSym.w ≤ lw := hf (style, gs) (by rw [hs]; simp)
        obtain ⟨g, hg, hgp⟩ := gsWidth_pos (gs := gs) (by omega)
        have := hfs g hg
        unfold widthLeft at hw
        omega
    simp only [mu, hs, clusterCount, List.length_cons]
    simp [hpos]
  | splitk style gs rest hs hl hge hnf hw =>
    have h2 := lw_ge_two_of_not_limit hl
    by_cases hpos : 0 < st.len
    · have := takeFitF_snd_length_le fx st.len (widthLeft cfg lw st.len gs) gs
      simp only [mu, hs, clusterCount, List.length_cons]
      simp [hpos]
      omega
    · have h0 : st.len = 0 := by omega
      rw [h0] at hge
      cases gs with
      | nil => simp [gsWidth] at hge; omega
      | cons g gs =>
        have hprog : (takeFitF fx 0 (widthLeft cfg lw 0 (g :: gs)) (g :: gs)).2.length < (g :: gs).length := by
          cases hf with
          | inl hforce => exact takeFitF_progress fx _ g gs hforce
          | inr hf =>
            have hfs : ∀ g' ∈ g :: gs, g'.w + cfg.leftSym.w ≤ lw := hf (style, g :: gs) (by rw [hs]; simp)
            rw [takeFitF_fits hfs (by omega)]
            have := hfs g (by simp)
            apply takeFit_progress
            unfold widthLeft
            omega
        simp only [mu, hs, clusterCount, List.length_cons, h0] at hprog ⊢
        simp
        omega

/-- Without any hypothesis the measure never increases, and splits add a row. -/
theorem mu_step_limited {fx : Fixes} {cfg : Cfg} {sym lw : Nat} {st st' : St}
    (h : StepRel fx cfg sym lw st st') (hpos : 0 < effMax cfg lw) :
    mu st' + (effMax cfg lw - st'.result.length) < mu st + (effMax cfg lw - st.result.length) := by
  cases h with
  | push style gs rest hs hl hfit =>
    simp only [mu, hs, clusterCount, List.length_cons]
    split <;> split <;> omega
  | nl style gs rest hs hl heq hnl =>
    simp only [mu, hs, clusterCount, List.length_cons, List.length_nil]
    split <;> split <;> omega
  | split0 style gs rest hs hl hge hnf hw hns hnfo =>
    have := not_limit_lt hl hpos
    simp only [mu, hs, clusterCount, List.length_cons, List.length_append, List.length_nil]
    split <;> simp <;> omega
  | splitk style gs rest hs hl hge hnf hw =>
    have := not_limit_lt hl hpos
    have := takeFitF_snd_length_le fx st.len (widthLeft cfg lw st.len gs) gs
    simp only [mu, hs, clusterCount, List.length_cons, List.length_append, List.length_nil]
    split <;> simp <;> omega

/-- A decreasing measure bounds the fuel the loop needs. -/
theorem loop_some_of_measure {fx : Fixes} {cfg : Cfg} {sym lw : Nat} (m : St → Nat) (P : St → Prop)
    (hP : ∀ st st', P st → StepRel fx cfg sym lw st st' → P st' ∧ m st' < m st) :
    ∀ (fuel : Nat) (st : St), P st → m st < fuel → ∃ r, loop fx cfg sym lw fuel st = some r := by
  intro fuel
  induction fuel with
  | zero => intro st _ h; omega
  | succ n ih =>
    intro st hp hm
    unfold loop
    split
    · exact ⟨_, rfl⟩
    · rename_i st2 hs
      obtain ⟨hp2, hlt⟩ := hP st st2 hp (step_next hs)
      exact ih st2 hp2 (by omega)

theorem mu_init_lt_fuel (cfg : Cfg) (lw : Nat) (line : List Sec) :
    mu (initSt line) + effMax cfg lw < fuelFor cfg lw line := by
  simp [mu, initSt, fuelFor, secCount]

/-- The loop terminates within the model's fuel when a line limit is in force. -/
theorem loop_terminates_limited (fx : Fixes) (cfg : Cfg) (sym lw : Nat) (line : List Sec)
    (hpos : 0 < effMax cfg lw) :
    ∃ r, loop fx cfg sym lw (fuelFor cfg lw line) (initSt line) = some r := by
  apply loop_some_of_measure (fun st => mu st + (effMax cfg lw - st.result.length)) (fun _ => True)
  · intro st st' _ h
    exact ⟨trivial, mu_step_limited h hpos⟩
  · trivial
  · have := mu_init_lt_fuel cfg lw line
    simp only [initSt, List.length_nil] at this ⊢
    omega

/-- The loop terminates within the model's fuel when every cluster leaves room for the wrap
symbol. -/
theorem loop_terminates_fits (fx : Fixes) (cfg : Cfg) (sym lw : Nat) (line : List Sec)
    (hf : Fits cfg lw line) :
    ∃ r, loop fx cfg sym lw (fuelFor cfg lw line) (initSt line) = some r := by
  apply loop_some_of_measure mu (fun st => Fits cfg lw st.stack)
  · intro st st' hp h
    exact ⟨fits_step hp h, mu_step_fits (Or.inr hp) h⟩
  · exact hf
  · have := mu_init_lt_fuel cfg lw line
    omega

/-- With the progress repair the loop always terminates within the model's fuel. -/
theorem loop_terminates_forced (fx : Fixes) (cfg : Cfg) (sym lw : Nat) (line : List Sec)
    (hf : fx.forceProgress = true) :
    ∃ r, loop fx cfg sym lw (fuelFor cfg lw line) (initSt line) = some r := by
  apply loop_some_of_measure mu (fun _ => True)
  · intro st st' _ h
    exact ⟨trivial, mu_step_fits (Or.inl hf) h⟩
  · trivial
  · have := mu_init_lt_fuel cfg lw line
    omega

/-! ### The stuck state -/

/-- A state at the start of a row whose next cluster does not leave room for the wrap symbol,
with no line limit: the iteration emits a row holding only the wrap symbol and returns to the
same stack. -/
structure Stuck (fx : Fixes) (cfg : Cfg) (lw : Nat) (st : St) : Prop where
  unfixed : fx.forceProgress = false
  unlimited : effMax cfg lw = 0
  len0 : st.len = 0
  curr0 : st.curr = []
  top : ∃ style g gs rest, st.stack = (style, g :: gs) :: rest ∧ 0 < g.w ∧ lw < g.w + cfg.leftSym.w ∧
        lw ≤ gsWidth (g :: gs) ∧
        ¬ (gsWidth (g :: gs) = lw ∧ PerfectRest fx rest)

theorem stuck_step {fx : Fixes} {cfg : Cfg} {sym lw : Nat} {st : St} (h : Stuck fx cfg lw st) :
    ∃ row, step fx cfg sym lw st = .next { st with result := st.result ++ [row] } := by
  obtain ⟨hfx, hu, h0, hc, style, g, gs, rest, hs, hgpos, hwide, hge, hnf⟩ := h
  unfold step
  rw [hs]
  simp only [hu, limitReached, h0, Nat.zero_add]
  have h1 : ¬ gsWidth (g :: gs) < lw := by omega
  have h2 : ¬ (gsWidth (g :: gs) = lw ∧ rest = []) := fun ⟨a, b⟩ => hnf ⟨a, Or.inl b⟩
  have h3 : ¬ (gsWidth (g :: gs) = lw ∧ isLoneNl rest = true) := fun ⟨a, b⟩ => hnf ⟨a, Or.inr (Or.inl b)⟩
  have h4 : ¬ (gsWidth (g :: gs) = lw ∧ fx.zwPerfectFit = true ∧ allZeroWidth rest = true) :=
    fun ⟨a, b⟩ => hnf ⟨a, Or.inr (Or.inr b)⟩
  simp only [Nat.lt_irrefl, decide_false, Bool.false_and, Bool.false_eq_true, if_false, h1, h2, h3, h4]
  have hwl : widthLeft cfg lw 0 (g :: gs) < g.w := by
    unfold widthLeft
    omega
  have hforce : ¬ (fx.forceProgress = true ∧ (0 : Nat) = 0) := by simp [hfx]
  have htf : takeFitF fx 0 (widthLeft cfg lw 0 (g :: gs)) (g :: gs) = ([], g :: gs) := by
    rw [takeFitF_eq fx 0 _ _ (Or.inl hfx), takeFit_stuck _ g gs hwl]
  split
  · refine ⟨st.curr ++ [(sym, [cfg.leftSym])], ?_⟩
    congr 1
    cases st; simp_all
  · rw [htf]
    refine ⟨st.curr ++ [(style, []), (sym, [cfg.leftSym])], ?_⟩
    congr 1
    cases st; simp_all

theorem stuck_preserved {fx : Fixes} {cfg : Cfg} {lw : Nat} {st : St} (row : Row) (h : Stuck fx cfg lw st) :
    Stuck fx cfg lw { st with result := st.result ++ [row] } :=
  ⟨h.unfixed, h.unlimited, h.len0, h.curr0, h.top⟩

/-- From a stuck state the loop never returns, whatever the fuel. -/
theorem stuck_never_terminates {fx : Fixes} {cfg : Cfg} {sym lw : Nat} :
    ∀ (fuel : Nat) (st : St), Stuck fx cfg lw st → loop fx cfg sym lw fuel st = none := by
  intro fuel
  induction fuel with
  | zero => intro st _; rfl
  | succ n ih =>
    intro st h
    obtain ⟨row, hrow⟩ := stuck_step (sym := sym) h
    unfold loop
    rw [hrow]
    exact ih _ (stuck_preserved row h)

end Wrap
