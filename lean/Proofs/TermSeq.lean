import Proofs.SgrRender
/-! The terminal on the fixed sequences delta appends: `ESC[0m`, `ESC[0K`, `ESC[1K`, OSC 8. -/
namespace Term

/-- `ESC [ 0 x` (x a final byte that is not a digit) from *any* parser mode ends in ground mode;
the link is kept; the rendition is reset exactly when `x = m`. -/
theorem final_esc_csi0 (s : State) (x : Char) (hx : x = 'm' ∨ x = 'M' ∨ x = 'K') :
    final s [ESC, '[', '0', x] =
      { mode := .ground, rend := if x = 'm' then {} else s.rend, link := s.link } := by
  obtain ⟨mode, rend, link⟩ := s
  rcases hx with h | h | h <;> subst h <;> cases mode <;>
    simp [final, run, step, afterEsc, isDigit, ESC, BEL, applySgr, applySgrAux, applyOne]

theorem final_esc_csi1K (s : State) (hm : s.mode = .ground) :
    final s [ESC, '[', '1', 'K'] = s := by
  obtain ⟨mode, rend, link⟩ := s
  simp only at hm
  subst hm
  simp [final, run, step, afterEsc, isDigit, ESC]

theorem run_osc_body (s : State) (buf body : List Char) (h1 : ESC ∉ body) (h2 : BEL ∉ body)
    (hm : s.mode = .osc buf) : run s body = ({ s with mode := .osc (buf ++ body) }, []) := by
  induction body generalizing s buf with
  | nil => cases s; simp_all [run]
  | cons c cs ih =>
    have hc1 : c ≠ ESC := fun e => h1 (e ▸ List.mem_cons_self)
    have hc2 : c ≠ BEL := fun e => h2 (e ▸ List.mem_cons_self)
    have := ih { s with mode := .osc (buf ++ [c]) } (buf ++ [c])
      (fun m => h1 (List.mem_cons_of_mem _ m)) (fun m => h2 (List.mem_cons_of_mem _ m)) rfl
    simp [run, step, hm, hc1, hc2, this]

/-- The link an `OSC 8 ; ; url ST` sets. -/
def linkOf (url : List Char) : Option (List Char) := if url = [] then none else some url

/-- `ESC ] 8 ; ; url ESC \` read in ground mode sets the link (closes it when `url` is empty). -/
theorem run_osc8 (s : State) (url : List Char) (h1 : ESC ∉ url) (h2 : BEL ∉ url)
    (hm : s.mode = .ground) :
    run s ([ESC, ']', '8', ';', ';'] ++ url ++ [ESC, '\\']) = ({ s with link := linkOf url }, []) := by
  obtain ⟨mode, rend, link⟩ := s
  simp only at hm
  subst hm
  have hopen : run { mode := Mode.ground, rend := rend, link := link } [ESC, ']', '8', ';', ';'] =
      ({ mode := Mode.osc ['8', ';', ';'], rend := rend, link := link }, []) := by
    simp [run, step, afterEsc, ESC, BEL]
  have hb := run_osc_body { mode := Mode.osc ['8', ';', ';'], rend := rend, link := link }
    ['8', ';', ';'] url h1 h2 rfl
  have hclose : run { mode := Mode.osc (['8', ';', ';'] ++ url), rend := rend, link := link } [ESC, '\\'] =
      ({ mode := Mode.ground, rend := rend, link := linkOf url }, []) := by
    simp [run, step, ESC, BEL, dispatchOsc, splitAtSemi, linkOf]
  rw [run_append, run_append, hopen, hb]
  simp only [List.nil_append, List.append_nil]
  rw [hclose]

end Term
