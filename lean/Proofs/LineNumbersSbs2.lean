import Proofs.LineNumbersSbs
set_option linter.unusedSimpArgs false
set_option linter.unusedVariables false
/-!
Helper lemmas for C05, part 4: whole alignment entries and the induction over the alignment.
-/
namespace LineNumbers
open Generated.LineNum

theorem segStates_length (sts : Nat × Nat) (x : Nat) : (segStates sts x).length = x := by
  cases x <;> simp [segStates]

theorem replicate_blank_append (n k : Nat) :
    List.replicate n (some ((none : Option Nat), (none : Option Nat))) ++ List.replicate k (some (none, none))
      = List.replicate (n + k) (some (none, none)) := by
  simp [List.replicate_append_replicate]

/-- Rows of a paired entry whose minus line takes `x` rows and whose plus line takes `y` rows. -/
theorem entry_pair (sl sr : List St) (rl rr : List Bool) (l r L R x y : Nat) (hx : 1 ≤ x) (hy : 1 ≤ y)
    (hl0 : sl[L]? = some .minus) (hlc : ∀ t, 1 ≤ t → t < x → sl[L + t]? = some .minusWrapped)
    (hr0 : sr[R]? = some .plus) (hrc : ∀ t, 1 ≤ t → t < y → sr[R + t]? = some .plusWrapped)
    (h1 : l + 2 ≤ usizeMax) (h2 : r + 1 ≤ usizeMax) :
    ∃ rows, sbsRows ⟨l, r⟩ sl sr rl rr (paired L R (min x y) ++ leftOnly (L + y) (x - y) ++ rightOnly (R + x) (y - x))
        = .ok (⟨l + 1, r + 1⟩, rows) ∧
      rows.map SbsRow.shown = some (some l, some r) :: List.replicate (max x y - 1) (some (none, none)) := by
  obtain ⟨k, hk⟩ : ∃ k, min x y = k + 1 := ⟨min x y - 1, by omega⟩
  have hfirst := row_pair_first l r L R sl sr (rawAt rl (some L)) (rawAt rr (some R)) hl0 hr0 (by omega) h2
  obtain ⟨rows1, hr1, hs1⟩ := rows_pair_cont sl sr rl rr (l + 1) (r + 1) k (L + 1) (R + 1)
    (fun t ht => by have := hlc (t + 1) (by omega) (by omega); rwa [show L + (t + 1) = L + 1 + t by omega] at this)
    (fun t ht => by have := hrc (t + 1) (by omega) (by omega); rwa [show R + (t + 1) = R + 1 + t by omega] at this)
  obtain ⟨rows2, hr2, hs2⟩ := rows_left_cont sl sr rl rr (l + 1) (r + 1) (by omega) (x - y) (L + y)
    (fun t ht => by have := hlc (y + t) (by omega) (by omega); rwa [show L + (y + t) = L + y + t by omega] at this)
  obtain ⟨rows3, hr3, hs3⟩ := rows_right_cont sl sr rl rr (l + 1) (r + 1) (by omega) (y - x) (R + x)
    (fun t ht => by have := hrc (x + t) (by omega) (by omega); rwa [show R + (x + t) = R + x + t by omega] at this)
  refine ⟨(⟨some ⟨true, false, some l, none⟩, some ⟨false, true, none, some r⟩⟩ : SbsRow) :: (rows1 ++ (rows2 ++ rows3)), ?_, ?_⟩
  · rw [hk, List.append_assoc]
    simp only [paired, List.cons_append, sbsRows, hfirst]
    rw [sbsRows_append, hr1]
    simp only []
    rw [sbsRows_append, hr2]
    simp only [hr3]
  · simp only [List.map_cons, List.map_append, hs1, hs2, hs3, row_pair_first_shown]
    rw [replicate_blank_append, replicate_blank_append]
    congr 2
    omega

/-- Rows of an unpaired minus line taking `x` rows. -/
theorem entry_left (sl sr : List St) (rl rr : List Bool) (l r L x : Nat) (hx : 1 ≤ x)
    (hl0 : sl[L]? = some .minus) (hlc : ∀ t, 1 ≤ t → t < x → sl[L + t]? = some .minusWrapped)
    (h1 : l + 2 ≤ usizeMax) :
    ∃ rows, sbsRows ⟨l, r⟩ sl sr rl rr (leftOnly L x) = .ok (⟨l + 1, r⟩, rows) ∧
      rows.map SbsRow.shown = some (some l, none) :: List.replicate (x - 1) (some (none, none)) := by
  obtain ⟨k, rfl⟩ : ∃ k, x = k + 1 := ⟨x - 1, by omega⟩
  have hfirst := row_left_first l r L sl sr (rawAt rl (some L)) (rawAt rr none) hl0 (by omega)
  obtain ⟨rows1, hr1, hs1⟩ := rows_left_cont sl sr rl rr (l + 1) r (by omega) k (L + 1)
    (fun t ht => by have := hlc (t + 1) (by omega) (by omega); rwa [show L + (t + 1) = L + 1 + t by omega] at this)
  refine ⟨(⟨some ⟨true, false, some l, none⟩, some ⟨false, true, some l, none⟩⟩ : SbsRow) :: rows1, ?_, ?_⟩
  · simp only [leftOnly, sbsRows, hfirst, hr1]
  · simp [hs1, SbsRow.shown, Cell.left, Cell.right]

/-- Rows of an unpaired plus line taking `y` rows. -/
theorem entry_right (sl sr : List St) (rl rr : List Bool) (l r R y : Nat) (hy : 1 ≤ y)
    (hr0 : sr[R]? = some .plus) (hrc : ∀ t, 1 ≤ t → t < y → sr[R + t]? = some .plusWrapped)
    (h2 : r + 1 ≤ usizeMax) :
    ∃ rows, sbsRows ⟨l, r⟩ sl sr rl rr (rightOnly R y) = .ok (⟨l, r + 1⟩, rows) ∧
      rows.map SbsRow.shown = some (none, some r) :: List.replicate (y - 1) (some (none, none)) := by
  obtain ⟨k, rfl⟩ : ∃ k, y = k + 1 := ⟨y - 1, by omega⟩
  have hfirst := row_right_first l r R sl sr (rawAt rl none) (rawAt rr (some R)) hr0 h2
  obtain ⟨rows1, hr1, hs1⟩ := rows_right_cont sl sr rl rr l (r + 1) (by omega) k (R + 1)
    (fun t ht => by have := hrc (t + 1) (by omega) (by omega); rwa [show R + (t + 1) = R + 1 + t by omega] at this)
  refine ⟨(⟨some ⟨true, false, none, some r⟩, some ⟨false, true, none, some r⟩⟩ : SbsRow) :: rows1, ?_, ?_⟩
  · simp only [rightOnly, sbsRows, hfirst, hr1]
  · simp [hs1, SbsRow.shown, Cell.left, Cell.right]

theorem getD_of_getElem? (l : List Nat) (i d w : Nat) (h : l[i]? = some w) : l.getD i d = w := by
  simp [List.getD, h]

theorem wrapStates_left : wrapStates.1 = (0, 1) := rfl
theorem wrapStates_right : wrapStates.2 = (4, 5) := rfl

/-- The wrapping path: `wrap_minusplus_block` followed by the row loop, by induction over the
    alignment. Invariant: before the entry for minus line `i` / plus line `j` the counters are
    `(a + i, c + j)`. -/
theorem wrapped_block (a c m p : Nat) (wl wr : List Nat)
    (hwl : wl.length = m) (hwr : wr.length = p)
    (hposl : ∀ x ∈ wl, 1 ≤ x) (hposr : ∀ y ∈ wr, 1 ≤ y)
    (hbl : a + m + 1 ≤ usizeMax) (hbr : c + p ≤ usizeMax) :
    ∀ (al : Alignment) (i j : Nat) (preL preR : List St) (rl rr : List Bool),
      validFrom al i j = some (m, p) →
      ∃ al' sl sr,
        wrapBlock wl wr al i j preL.length preR.length = .ok (al', sl, sr) ∧
        ∀ postL postR, ∃ rows,
          sbsRows ⟨a + i, c + j⟩ (preL ++ (sl ++ postL)) (preR ++ (sr ++ postR)) rl rr al'
            = .ok (⟨a + m, c + p⟩, rows) ∧
          rows.map SbsRow.shown = (al.flatMap (entrySpec a c wl wr)).map some := by
  intro al
  induction al with
  | nil =>
    intro i j preL preR rl rr hv
    simp only [validFrom, Option.some.injEq, Prod.mk.injEq] at hv
    obtain ⟨rfl, rfl⟩ := hv
    exact ⟨[], [], [], rfl, fun _ _ => ⟨[], rfl, rfl⟩⟩
  | cons e rest ih =>
    intro i j preL preR rl rr hv
    obtain ⟨mi, pi⟩ := e
    cases mi with
    | none =>
      cases pi with
      | none => simp [validFrom] at hv
      | some y =>
        -- unpaired plus line
        simp only [validFrom] at hv
        split at hv
        · rename_i hy
          subst hy
          have hle := validFrom_le rest i (y + 1) m p hv
          have hyp : y < wr.length := by omega
          have hw : wr[y]? = some wr[y] := by simp [hyp]
          have hpos : 1 ≤ wr[y] := hposr _ (List.getElem_mem hyp)
          obtain ⟨al', sl, sr, hwb, hrows⟩ := ih i (y + 1) preL (preR ++ segStates (4, 5) wr[y]) rl rr hv
          rw [List.length_append, segStates_length] at hwb
          refine ⟨rightOnly preR.length wr[y] ++ al', sl, segStates (4, 5) wr[y] ++ sr, ?_, ?_⟩
          · simp [wrapBlock, hw, hwb, wrapStates_right]
          · intro postL postR
            obtain ⟨rows2, hr2, hs2⟩ := hrows postL postR
            obtain ⟨rows1, hr1, hs1⟩ := entry_right (preL ++ (sl ++ postL))
              (preR ++ ((segStates (4, 5) wr[y] ++ sr) ++ postR)) rl rr (a + i) (c + y) preR.length wr[y] hpos
              (by rw [List.append_assoc]; exact seg_first preR _ 4 5 wr[y] hpos)
              (fun t h1 h2 => by rw [List.append_assoc]; exact seg_cont preR _ 4 5 wr[y] t h1 h2)
              (by omega)
            refine ⟨rows1 ++ rows2, ?_, ?_⟩
            · simp only [List.append_assoc] at hr1 hr2
              rw [sbsRows_append]
              simp only [List.append_assoc]
              rw [hr1]
              simp only []
              rw [show c + y + 1 = c + (y + 1) by omega, hr2]
            · simp [hs1, hs2, entrySpec, hw]
        · simp at hv
    | some x =>
      cases pi with
      | none =>
        -- unpaired minus line
        simp only [validFrom] at hv
        split at hv
        · rename_i hx
          subst hx
          have hle := validFrom_le rest (x + 1) j m p hv
          have hxp : x < wl.length := by omega
          have hw : wl[x]? = some wl[x] := by simp [hxp]
          have hpos : 1 ≤ wl[x] := hposl _ (List.getElem_mem hxp)
          obtain ⟨al', sl, sr, hwb, hrows⟩ := ih (x + 1) j (preL ++ segStates (0, 1) wl[x]) preR rl rr hv
          rw [List.length_append, segStates_length] at hwb
          refine ⟨leftOnly preL.length wl[x] ++ al', segStates (0, 1) wl[x] ++ sl, sr, ?_, ?_⟩
          · simp [wrapBlock, hw, hwb, wrapStates_left]
          · intro postL postR
            obtain ⟨rows2, hr2, hs2⟩ := hrows postL postR
            obtain ⟨rows1, hr1, hs1⟩ := entry_left (preL ++ ((segStates (0, 1) wl[x] ++ sl) ++ postL))
              (preR ++ (sr ++ postR)) rl rr (a + x) (c + j) preL.length wl[x] hpos
              (by rw [List.append_assoc]; exact seg_first preL _ 0 1 wl[x] hpos)
              (fun t h1 h2 => by rw [List.append_assoc]; exact seg_cont preL _ 0 1 wl[x] t h1 h2)
              (by omega)
            refine ⟨rows1 ++ rows2, ?_, ?_⟩
            · simp only [List.append_assoc] at hr1 hr2
              rw [sbsRows_append]
              simp only [List.append_assoc]
              rw [hr1]
              simp only []
              rw [show a + x + 1 = a + (x + 1) by omega, hr2]
            · simp [hs1, hs2, entrySpec, hw]
        · simp at hv
      | some y =>
        -- paired lines
        simp only [validFrom] at hv
        split at hv
        · rename_i hxy
          obtain ⟨hx, hy⟩ := hxy
          subst hx
          subst hy
          have hle := validFrom_le rest (x + 1) (y + 1) m p hv
          have hxp : x < wl.length := by omega
          have hyp : y < wr.length := by omega
          have hwx : wl[x]? = some wl[x] := by simp [hxp]
          have hwy : wr[y]? = some wr[y] := by simp [hyp]
          have hposx : 1 ≤ wl[x] := hposl _ (List.getElem_mem hxp)
          have hposy : 1 ≤ wr[y] := hposr _ (List.getElem_mem hyp)
          obtain ⟨al', sl, sr, hwb, hrows⟩ :=
            ih (x + 1) (y + 1) (preL ++ segStates (0, 1) wl[x]) (preR ++ segStates (4, 5) wr[y]) rl rr hv
          rw [List.length_append, segStates_length, List.length_append, segStates_length] at hwb
          refine ⟨paired preL.length preR.length (min wl[x] wr[y]) ++ leftOnly (preL.length + wr[y]) (wl[x] - wr[y])
              ++ rightOnly (preR.length + wl[x]) (wr[y] - wl[x]) ++ al',
            segStates (0, 1) wl[x] ++ sl, segStates (4, 5) wr[y] ++ sr, ?_, ?_⟩
          · simp [wrapBlock, hwx, hwy, hwb, wrapStates_left, wrapStates_right]
          · intro postL postR
            obtain ⟨rows2, hr2, hs2⟩ := hrows postL postR
            obtain ⟨rows1, hr1, hs1⟩ := entry_pair (preL ++ ((segStates (0, 1) wl[x] ++ sl) ++ postL))
              (preR ++ ((segStates (4, 5) wr[y] ++ sr) ++ postR)) rl rr (a + x) (c + y) preL.length preR.length wl[x] wr[y]
              hposx hposy
              (by rw [List.append_assoc]; exact seg_first preL _ 0 1 wl[x] hposx)
              (fun t h1 h2 => by rw [List.append_assoc]; exact seg_cont preL _ 0 1 wl[x] t h1 h2)
              (by rw [List.append_assoc]; exact seg_first preR _ 4 5 wr[y] hposy)
              (fun t h1 h2 => by rw [List.append_assoc]; exact seg_cont preR _ 4 5 wr[y] t h1 h2)
              (by omega) (by omega)
            refine ⟨rows1 ++ rows2, ?_, ?_⟩
            · simp only [List.append_assoc] at hr1 hr2
              rw [sbsRows_append]
              simp only [List.append_assoc]
              rw [hr1]
              simp only []
              rw [show a + x + 1 = a + (x + 1) by omega, show c + y + 1 = c + (y + 1) by omega, hr2]
            · simp [hs1, hs2, entrySpec, hwx, hwy]
        · simp at hv

/-! ### nothing wraps: `wrap_minusplus_block` is not called -/

theorem getD_ones (wl : List Nat) (h : ∀ x ∈ wl, x = 1) (i : Nat) : wl.getD i 1 = 1 := by
  simp only [List.getD]
  cases hi : wl[i]? with
  | none => rfl
  | some w =>
    have : w ∈ wl := List.mem_of_getElem? hi
    simp [h w this]

theorem getElem?_getD_ones (wl : List Nat) (h : ∀ x ∈ wl, x = 1) (i : Nat) : wl[i]?.getD 1 = 1 := by
  have := getD_ones wl h i
  simpa [List.getD] using this

theorem unwrapped_rows (a c m p : Nat) (wl wr : List Nat) (rl rr : List Bool)
    (hl1 : ∀ x ∈ wl, x = 1) (hr1 : ∀ y ∈ wr, y = 1)
    (hbl : a + m ≤ usizeMax) (hbr : c + p ≤ usizeMax) :
    ∀ (al : Alignment) (i j : Nat), validFrom al i j = some (m, p) →
      ∃ rows, sbsRows ⟨a + i, c + j⟩ (List.replicate m .minus) (List.replicate p .plus) rl rr al
          = .ok (⟨a + m, c + p⟩, rows) ∧
        rows.map SbsRow.shown = (al.flatMap (entrySpec a c wl wr)).map some := by
  intro al
  induction al with
  | nil =>
    intro i j hv
    simp only [validFrom, Option.some.injEq, Prod.mk.injEq] at hv
    obtain ⟨rfl, rfl⟩ := hv
    exact ⟨[], rfl, rfl⟩
  | cons e rest ih =>
    intro i j hv
    obtain ⟨mi, pi⟩ := e
    cases mi with
    | none =>
      cases pi with
      | none => simp [validFrom] at hv
      | some y =>
        simp only [validFrom] at hv
        split at hv
        · rename_i hy
          subst hy
          have hle := validFrom_le rest i (y + 1) m p hv
          obtain ⟨rows, hr, hs⟩ := ih i (y + 1) hv
          have hrow := row_right_first (a + i) (c + y) y (List.replicate m .minus) (List.replicate p .plus) (rawAt rl none) (rawAt rr (some y))
            (by simp [List.getElem?_replicate]; omega) (by omega)
          refine ⟨(⟨some ⟨true, false, none, some (c + y)⟩, some ⟨false, true, none, some (c + y)⟩⟩ : SbsRow) :: rows, ?_, ?_⟩
          · simp only [sbsRows, hrow]
            rw [show c + y + 1 = c + (y + 1) by omega, hr]
          · simp [hs, entrySpec, getElem?_getD_ones wr hr1, SbsRow.shown, Cell.left, Cell.right]
        · simp at hv
    | some x =>
      cases pi with
      | none =>
        simp only [validFrom] at hv
        split at hv
        · rename_i hx
          subst hx
          have hle := validFrom_le rest (x + 1) j m p hv
          obtain ⟨rows, hr, hs⟩ := ih (x + 1) j hv
          have hrow := row_left_first (a + x) (c + j) x (List.replicate m .minus) (List.replicate p .plus) (rawAt rl (some x)) (rawAt rr none)
            (by simp [List.getElem?_replicate]; omega) (by omega)
          refine ⟨(⟨some ⟨true, false, some (a + x), none⟩, some ⟨false, true, some (a + x), none⟩⟩ : SbsRow) :: rows, ?_, ?_⟩
          · simp only [sbsRows, hrow]
            rw [show a + x + 1 = a + (x + 1) by omega, hr]
          · simp [hs, entrySpec, getElem?_getD_ones wl hl1, SbsRow.shown, Cell.left, Cell.right]
        · simp at hv
      | some y =>
        simp only [validFrom] at hv
        split at hv
        · rename_i hxy
          obtain ⟨hx, hy⟩ := hxy
          subst hx
          subst hy
          have hle := validFrom_le rest (x + 1) (y + 1) m p hv
          obtain ⟨rows, hr, hs⟩ := ih (x + 1) (y + 1) hv
          have hrow := row_pair_first (a + x) (c + y) x y (List.replicate m .minus) (List.replicate p .plus) (rawAt rl (some x)) (rawAt rr (some y))
            (by simp [List.getElem?_replicate]; omega) (by simp [List.getElem?_replicate]; omega)
            (by omega) (by omega)
          refine ⟨(⟨some ⟨true, false, some (a + x), none⟩, some ⟨false, true, none, some (c + y)⟩⟩ : SbsRow) :: rows, ?_, ?_⟩
          · simp only [sbsRows, hrow]
            rw [show a + x + 1 = a + (x + 1) by omega, show c + y + 1 = c + (y + 1) by omega, hr]
          · simp [hs, entrySpec, getElem?_getD_ones wl hl1, getElem?_getD_ones wr hr1, SbsRow.shown, Cell.left, Cell.right]
        · simp at hv

/-- `paint_minus_and_plus_lines_side_by_side` on one subhunk: true numbers on first rows, none on
    continuation rows and on the empty half of unpaired rows; the counters advance by exactly
    `(m, p)`. -/
theorem sbsBlock_spec (a c m p : Nat) (al : Alignment) (wl wr : List Nat) (rl rr : List Bool)
    (hv : validFrom al 0 0 = some (m, p)) (hwl : wl.length = m) (hwr : wr.length = p)
    (hposl : ∀ x ∈ wl, 1 ≤ x) (hposr : ∀ y ∈ wr, 1 ≤ y)
    (hbl : a + m + 1 ≤ usizeMax) (hbr : c + p ≤ usizeMax) :
    ∃ rows, sbsBlock ⟨a, c⟩ m p al wl wr rl rr = .ok (⟨a + m, c + p⟩, rows) ∧
      rows.map SbsRow.shown = (sbsSpec a c al wl wr).map some := by
  unfold sbsBlock
  by_cases hw : (wl.any (· ≠ 1) || wr.any (· ≠ 1)) = true
  · obtain ⟨al', sl, sr, hwb, hrows⟩ := wrapped_block a c m p wl wr hwl hwr hposl hposr hbl hbr al 0 0 [] [] [] [] hv
    obtain ⟨rows, hr, hs⟩ := hrows [] []
    simp only [List.length_nil] at hwb
    simp only [List.nil_append, List.append_nil, Nat.add_zero] at hr
    exact ⟨rows, by rw [if_pos hw, hwb]; exact hr, hs⟩
  · have hl1 : ∀ x ∈ wl, x = 1 := by
      intro x hx
      by_cases h1 : x = 1
      · exact h1
      · exact absurd (by simp; exact Or.inl ⟨x, hx, h1⟩) hw
    have hr1 : ∀ y ∈ wr, y = 1 := by
      intro y hy
      by_cases h1 : y = 1
      · exact h1
      · exact absurd (by simp; exact Or.inr ⟨y, hy, h1⟩) hw
    obtain ⟨rows, hr, hs⟩ := unwrapped_rows a c m p wl wr rl rr hl1 hr1 (by omega) hbr al 0 0 hv
    simp only [Nat.add_zero] at hr
    exact ⟨rows, by rw [if_neg hw]; exact hr, hs⟩

/-! ### unchanged lines in side-by-side mode -/

theorem zeroRows_wrapped (l r : Nat) : ∀ (n : Nat),
    ∃ rows, zeroRowsSbs ⟨l, r⟩ (List.replicate n .zeroWrapped) = .ok (⟨l, r⟩, rows) ∧
      rows.map SbsRow.shown = List.replicate n (some (none, none)) := by
  intro n
  induction n with
  | zero => exact ⟨[], rfl, rfl⟩
  | succ n ih =>
    obtain ⟨rows, hr, hs⟩ := ih
    refine ⟨(⟨some ⟨true, false, none, none⟩, some ⟨false, true, none, none⟩⟩ : SbsRow) :: rows, ?_, ?_⟩
    · simp [List.replicate_succ, zeroRowsSbs, zeroPanels, zeroPanelOrder, paintLine, linenumbersAndStyles, lookupArm,
        numberArms, St.code, incrementFor, incrementRule, panelCode, bumpN, emitFor, lookupEmit, emitArms, hr]
    · simp [hs, List.replicate_succ, SbsRow.shown, Cell.left, Cell.right]

/-- `paint_zero_lines_side_by_side`: the first row shows both true numbers, continuation rows none,
    both counters advance by one. -/
theorem zeroSbs_spec (l r rows : Nat) (h1 : l + 1 ≤ usizeMax) (h2 : r + 1 ≤ usizeMax) :
    ∃ rs, zeroSbs ⟨l, r⟩ rows = .ok (⟨l + 1, r + 1⟩, rs) ∧
      rs.map SbsRow.shown = some (some l, some r) :: List.replicate (rows - 1) (some (none, none)) := by
  obtain ⟨rs, hr, hs⟩ := zeroRows_wrapped (l + 1) (r + 1) (rows - 1)
  have hl : l ≤ usizeMax := by omega
  have hr' : r ≤ usizeMax := by omega
  refine ⟨(⟨some ⟨true, false, some l, some r⟩, some ⟨false, true, some l, some r⟩⟩ : SbsRow) :: rs, ?_, ?_⟩
  · simp [zeroSbs, zeroWrappedState, St.ofCode, zeroRowsSbs, zeroPanels, zeroPanelOrder, paintLine, linenumbersAndStyles,
      lookupArm, numberArms, St.code, incrementFor, incrementRule, panelCode, bumpN, addUsize, addUsizeSat, emitFor, lookupEmit,
      emitArms, hl, hr', h1, h2, hr]
  · simp [hs, SbsRow.shown, Cell.left, Cell.right]

/-! ### a whole hunk in side-by-side mode -/

def Block.old : Block → Nat
  | .zero _ => 1
  | .sub m _ _ _ _ _ _ => m

def Block.new : Block → Nat
  | .zero _ => 1
  | .sub _ p _ _ _ _ _ => p

/-- Well-formed block: the alignment uses every line once and in order; one row count ≥ 1 per line. -/
def Block.wf : Block → Prop
  | .zero _ => True
  | .sub m p al wl wr _ _ => validFrom al 0 0 = some (m, p) ∧ wl.length = m ∧ wr.length = p ∧
      (∀ x ∈ wl, 1 ≤ x) ∧ (∀ y ∈ wr, 1 ≤ y)

def blockSpec (a c : Nat) : Block → List (Option Nat × Option Nat)
  | .zero rows => (some a, some c) :: List.replicate (rows - 1) (none, none)
  | .sub _ _ al wl wr _ _ => sbsSpec a c al wl wr

def totalOld : List Block → Nat
  | [] => 0
  | b :: bs => b.old + totalOld bs

def totalNew : List Block → Nat
  | [] => 0
  | b :: bs => b.new + totalNew bs

/-- Specification of a hunk: the blocks in order, each starting where the previous one ended. -/
def hunkSpec : Nat → Nat → List Block → List (Option Nat × Option Nat)
  | _, _, [] => []
  | a, c, b :: bs => blockSpec a c b ++ hunkSpec (a + b.old) (c + b.new) bs

theorem validFrom_zero (al : Alignment) (h : validFrom al 0 0 = some (0, 0)) : al = [] := by
  cases al with
  | nil => rfl
  | cons e rest =>
    obtain ⟨mi, pi⟩ := e
    cases mi <;> cases pi <;> simp only [validFrom] at h
    · simp at h
    · split at h
      · have := validFrom_le _ _ _ _ _ h; omega
      · simp at h
    · split at h
      · have := validFrom_le _ _ _ _ _ h; omega
      · simp at h
    · split at h
      · have := validFrom_le _ _ _ _ _ h; omega
      · simp at h

theorem runBlocksSbs_spec : ∀ (bs : List Block) (a c : Nat), (∀ b ∈ bs, b.wf) →
    a + totalOld bs + 1 ≤ usizeMax → c + totalNew bs + 1 ≤ usizeMax →
    ∃ rows, runBlocksSbs ⟨a, c⟩ bs = .ok (⟨a + totalOld bs, c + totalNew bs⟩, rows) ∧
      rows.map SbsRow.shown = (hunkSpec a c bs).map some := by
  intro bs
  induction bs with
  | nil => intro a c _ _ _; exact ⟨[], rfl, rfl⟩
  | cons b bs ih =>
    intro a c hwf ha hc
    have hb := hwf b (List.mem_cons_self)
    have hrest : ∀ b' ∈ bs, b'.wf := fun b' hb' => hwf b' (List.mem_cons_of_mem _ hb')
    simp only [totalOld, totalNew] at ha hc
    obtain ⟨rows2, hr2, hs2⟩ := ih (a + b.old) (c + b.new) hrest (by omega) (by omega)
    cases b with
    | zero rows =>
      obtain ⟨rows1, hr1, hs1⟩ := zeroSbs_spec a c rows (by simp [Block.old] at ha; omega) (by simp [Block.new] at hc; omega)
      refine ⟨rows1 ++ rows2, ?_, ?_⟩
      · simp only [runBlocksSbs, hr1]
        simp only [Block.old, Block.new] at hr2
        simp [hr2, totalOld, totalNew, Block.old, Block.new, Nat.add_assoc]
      · simp [hs1, hs2, hunkSpec, blockSpec, Block.old, Block.new]
    | sub m p al wl wr rl rr =>
      obtain ⟨hv, hwl, hwr, hpl, hpr⟩ := hb
      by_cases h0 : m = 0 ∧ p = 0
      · obtain ⟨rfl, rfl⟩ := h0
        have hal := validFrom_zero al hv
        subst hal
        refine ⟨rows2, ?_, ?_⟩
        · simp only [runBlocksSbs]
          simp only [Block.old, Block.new, Nat.add_zero] at hr2
          simp [hr2, totalOld, totalNew, Block.old, Block.new]
        · simp [hs2, hunkSpec, blockSpec, sbsSpec, Block.old, Block.new]
      · obtain ⟨rows1, hr1, hs1⟩ := sbsBlock_spec a c m p al wl wr rl rr hv hwl hwr hpl hpr
          (by simp [Block.old] at ha; omega) (by simp [Block.new] at hc; omega)
        refine ⟨rows1 ++ rows2, ?_, ?_⟩
        · simp only [runBlocksSbs, h0, if_false, hr1]
          simp only [Block.old, Block.new] at hr2
          simp [hr2, totalOld, totalNew, Block.old, Block.new, Nat.add_assoc]
        · simp [hs1, hs2, hunkSpec, blockSpec, Block.old, Block.new]

end LineNumbers
