import DeltaModel.Wrap
/-
Helper lemmas for C07: the step relation of the `wrap_line` loop and the generic invariant
principle.
-/
namespace Wrap

theorem gsWidth_append (a b : List G) : gsWidth (a ++ b) = gsWidth a + gsWidth b := by
  induction a with
  | nil => simp [gsWidth]
  | cons g a ih => simp [gsWidth, ih]; omega

theorem rowWidth_append (a b : Row) : rowWidth (a ++ b) = rowWidth a + rowWidth b := by
  induction a with
  | nil => simp [rowWidth]
  | cons g a ih => simp [rowWidth, ih]; omega

theorem takeFit_append (wl : Nat) (gs : List G) : (takeFit wl gs).1 ++ (takeFit wl gs).2 = gs := by
  induction gs generalizing wl with
  | nil => simp [takeFit]
  | cons g gs ih =>
    unfold takeFit
    split
    · simp [ih]
    · simp

theorem takeFit_width (wl : Nat) (gs : List G) : gsWidth (takeFit wl gs).1 ≤ wl := by
  induction gs generalizing wl with
  | nil => simp [takeFit, gsWidth]
  | cons g gs ih =>
    unfold takeFit
    split
    · have := ih (wl - g.w)
      simp [gsWidth]; omega
    · simp [gsWidth]

theorem takeFit_snd_length_le (wl : Nat) (gs : List G) : (takeFit wl gs).2.length ≤ gs.length := by
  have := congrArg List.length (takeFit_append wl gs)
  simp at this; omega

/-- If the first cluster fits, `takeFit` consumes at least one cluster. -/
theorem takeFit_progress (wl : Nat) (g : G) (gs : List G) (h : g.w ≤ wl) :
    (takeFit wl (g :: gs)).2.length < (g :: gs).length := by
  unfold takeFit
  simp [h]
  have := takeFit_snd_length_le (wl - g.w) gs
  omega

/-- If the first cluster does not fit, `takeFit` consumes nothing. -/
theorem takeFit_stuck (wl : Nat) (g : G) (gs : List G) (h : wl < g.w) :
    takeFit wl (g :: gs) = ([], g :: gs) := by
  unfold takeFit
  simp [Nat.not_le.mpr h]

theorem takeFit_snd_subset (wl : Nat) (gs : List G) : ∀ g ∈ (takeFit wl gs).2, g ∈ gs := by
  intro g hg
  have := takeFit_append wl gs
  rw [← this]
  exact List.mem_append_right _ hg

theorem takeFitForce_append (wl : Nat) (gs : List G) :
    (takeFitForce wl gs).1 ++ (takeFitForce wl gs).2 = gs := by
  induction gs generalizing wl with
  | nil => simp [takeFitForce]
  | cons g gs ih =>
    unfold takeFitForce
    split
    · split
      · simp [ih]
      · simp [takeFit_append]
    · simp

theorem takeFitF_append (fx : Fixes) (len wl : Nat) (gs : List G) :
    (takeFitF fx len wl gs).1 ++ (takeFitF fx len wl gs).2 = gs := by
  unfold takeFitF
  split
  · exact takeFitForce_append wl gs
  · exact takeFit_append wl gs

theorem takeFitF_snd_length_le (fx : Fixes) (len wl : Nat) (gs : List G) :
    (takeFitF fx len wl gs).2.length ≤ gs.length := by
  have := congrArg List.length (takeFitF_append fx len wl gs)
  simp at this; omega

theorem takeFitF_snd_subset (fx : Fixes) (len wl : Nat) (gs : List G) :
    ∀ g ∈ (takeFitF fx len wl gs).2, g ∈ gs := by
  intro g hg
  have := takeFitF_append fx len wl gs
  rw [← this]
  exact List.mem_append_right _ hg

theorem takeFit_cons_fit (wl : Nat) (g : G) (gs : List G) (h : g.w ≤ wl) :
    takeFit wl (g :: gs) = (g :: (takeFit (wl - g.w) gs).1, (takeFit (wl - g.w) gs).2) := by
  rw [takeFit]; simp [h]

theorem takeFitForce_cons_fit (wl : Nat) (g : G) (gs : List G) (h : g.w ≤ wl) :
    takeFitForce wl (g :: gs) =
      if g.w = 0 then (g :: (takeFitForce wl gs).1, (takeFitForce wl gs).2)
      else (g :: (takeFit (wl - g.w) gs).1, (takeFit (wl - g.w) gs).2) := by
  rw [takeFitForce]; simp [h]

/-- When every cluster fits the width, forcing changes nothing. -/
theorem takeFitForce_eq (wl : Nat) (gs : List G) (h : ∀ g ∈ gs, g.w ≤ wl) :
    takeFitForce wl gs = takeFit wl gs := by
  induction gs with
  | nil => simp [takeFitForce, takeFit]
  | cons g gs ih =>
    have hg := h g (by simp)
    rw [takeFitForce_cons_fit wl g gs hg, takeFit_cons_fit wl g gs hg]
    split
    · rename_i h0
      rw [ih (fun g' hg' => h g' (List.mem_cons_of_mem _ hg')), h0]
      simp
    · rfl

/-- Without the progress repair, or when the line is not empty, or when every cluster fits,
`takeFitF` is `takeFit`. -/
theorem takeFitF_eq (fx : Fixes) (len wl : Nat) (gs : List G)
    (h : fx.forceProgress = false ∨ len ≠ 0 ∨ ∀ g ∈ gs, g.w ≤ wl) :
    takeFitF fx len wl gs = takeFit wl gs := by
  unfold takeFitF
  split
  · rename_i hc
    rcases h with h | h | h
    · rw [h] at hc; cases hc.1
    · exact absurd hc.2 h
    · exact takeFitForce_eq wl gs h
  · rfl

theorem takeFitForce_progress (wl : Nat) (g : G) (gs : List G) :
    (takeFitForce wl (g :: gs)).2.length < (g :: gs).length := by
  unfold takeFitForce
  split
  · split
    · have := congrArg List.length (takeFitForce_append wl gs)
      simp at this ⊢; omega
    · have := takeFit_snd_length_le (wl - g.w) gs
      simp; omega
  · simp

/-- With the progress repair, on an empty line, a non-empty section always loses a cluster. -/
theorem takeFitF_progress (fx : Fixes) (wl : Nat) (g : G) (gs : List G) (hf : fx.forceProgress = true) :
    (takeFitF fx 0 wl (g :: gs)).2.length < (g :: gs).length := by
  unfold takeFitF
  simp only [hf, true_and, if_true]
  exact takeFitForce_progress wl g gs

/-! ### The step relation -/

theorem allZeroWidth_cons (s : Sec) (r : List Sec) :
    allZeroWidth (s :: r) = true ↔ gsWidth s.2 = 0 ∧ allZeroWidth r = true := by
  simp [allZeroWidth]

/-- "Perfect fit": nothing that needs room follows. -/
def PerfectRest (fx : Fixes) (rest : List Sec) : Prop :=
  rest = [] ∨ isLoneNl rest = true ∨ (fx.zwPerfectFit = true ∧ allZeroWidth rest = true)

/-- The four kinds of loop iteration that continue. -/
inductive StepRel (fx : Fixes) (cfg : Cfg) (sym lw : Nat) : St → St → Prop
  | push (st : St) (style : Nat) (gs : List G) (rest : List Sec)
      (hs : st.stack = (style, gs) :: rest)
      (hl : limitReached (effMax cfg lw) st.result.length = false)
      (hfit : st.len + gsWidth gs < lw ∨ (st.len + gsWidth gs = lw ∧
                (rest = [] ∨ (fx.zwPerfectFit = true ∧ allZeroWidth rest = true)))) :
      StepRel fx cfg sym lw st
        { st with curr := st.curr ++ [(style, gs)], len := st.len + gsWidth gs, stack := rest }
  | nl (st : St) (style : Nat) (gs : List G) (rest : List Sec)
      (hs : st.stack = (style, gs) :: rest)
      (hl : limitReached (effMax cfg lw) st.result.length = false)
      (heq : st.len + gsWidth gs = lw) (hnl : isLoneNl rest = true) :
      StepRel fx cfg sym lw st
        { st with curr := st.curr ++ (style, gs) :: rest, len := st.len + gsWidth gs, stack := [] }
  | split0 (st : St) (style : Nat) (gs : List G) (rest : List Sec)
      (hs : st.stack = (style, gs) :: rest)
      (hl : limitReached (effMax cfg lw) st.result.length = false)
      (hge : lw ≤ st.len + gsWidth gs)
      (hnf : ¬ (st.len + gsWidth gs = lw ∧ PerfectRest fx rest))
      (hw : widthLeft cfg lw st.len gs = 0) (hns : fx.noShortcut = false)
      (hnfo : ¬ (fx.forceProgress = true ∧ st.len = 0)) :
      StepRel fx cfg sym lw st
        { result := st.result ++ [st.curr ++ [(sym, [cfg.leftSym])]],
          curr := [], len := 0, stack := (style, gs) :: rest }
  | splitk (st : St) (style : Nat) (gs : List G) (rest : List Sec)
      (hs : st.stack = (style, gs) :: rest)
      (hl : limitReached (effMax cfg lw) st.result.length = false)
      (hge : lw ≤ st.len + gsWidth gs)
      (hnf : ¬ (st.len + gsWidth gs = lw ∧ PerfectRest fx rest))
      (hw : widthLeft cfg lw st.len gs ≠ 0 ∨ fx.noShortcut = true ∨
            (fx.forceProgress = true ∧ st.len = 0)) :
      StepRel fx cfg sym lw st
        { result := st.result ++
            [st.curr ++ [(style, (takeFitF fx st.len (widthLeft cfg lw st.len gs) gs).1), (sym, [cfg.leftSym])]],
          curr := [], len := 0,
          stack := (style, (takeFitF fx st.len (widthLeft cfg lw st.len gs) gs).2) :: rest }

theorem step_next {fx : Fixes} {cfg : Cfg} {sym lw : Nat} {st st' : St}
    (h : step fx cfg sym lw st = .next st') : StepRel fx cfg sym lw st st' := by
  unfold step at h
  split at h
  · cases h
  · rename_i style gs rest hs
    split at h
    · cases h
    · rename_i hl
      have hl' : limitReached (effMax cfg lw) st.result.length = false := by simpa using hl
      simp only at h
      split at h
      · rename_i hlt
        cases h
        exact StepRel.push st style gs rest hs hl' (Or.inl hlt)
      · rename_i hnlt
        split at h
        · rename_i hpf
          cases h
          exact StepRel.push st style gs rest hs hl' (Or.inr ⟨hpf.1, Or.inl hpf.2⟩)
        · rename_i hnpf
          split at h
          · rename_i hn
            cases h
            exact StepRel.nl st style gs rest hs hl' hn.1 hn.2
          · rename_i hnn
            split at h
            · rename_i hz
              cases h
              exact StepRel.push st style gs rest hs hl' (Or.inr ⟨hz.1, Or.inr hz.2⟩)
            · rename_i hnz
              have hge : lw ≤ st.len + gsWidth gs := Nat.le_of_not_lt hnlt
              have hnf : ¬ (st.len + gsWidth gs = lw ∧ PerfectRest fx rest) := by
                intro ⟨he, ho⟩
                rcases ho with h1 | h2 | h3
                · exact hnpf ⟨he, h1⟩
                · exact hnn ⟨he, h2⟩
                · exact hnz ⟨he, h3⟩
              split at h
              · rename_i hw
                cases h
                exact StepRel.split0 st style gs rest hs hl' hge hnf hw.1 hw.2.1 hw.2.2
              · rename_i hw
                cases h
                refine StepRel.splitk st style gs rest hs hl' hge hnf ?_
                by_cases h0 : widthLeft cfg lw st.len gs = 0
                · right
                  cases hns : fx.noShortcut with
                  | true => left; rfl
                  | false =>
                    right
                    apply Classical.byContradiction
                    intro hnf2
                    exact hw ⟨h0, hns, hnf2⟩
                · left; exact h0

theorem step_done_stackEmpty {fx : Fixes} {cfg : Cfg} {sym lw : Nat} {st : St}
    (h : step fx cfg sym lw st = .done .stackEmpty) : st.stack = [] := by
  unfold step at h
  split at h
  · assumption
  · split at h
    · cases h
    · simp only at h
      repeat (first | cases h | split at h)

theorem step_done_lineLimit {fx : Fixes} {cfg : Cfg} {sym lw : Nat} {st : St}
    (h : step fx cfg sym lw st = .done .lineLimit) :
    st.stack ≠ [] ∧ limitReached (effMax cfg lw) st.result.length = true := by
  unfold step at h
  split at h
  · cases h
  · rename_i hs
    split at h
    · rename_i hl
      exact ⟨by simp [hs], hl⟩
    · simp only at h
      repeat (first | cases h | split at h)

/-- Invariant principle for the loop. -/
theorem loop_inv {fx : Fixes} {cfg : Cfg} {sym lw : Nat} (P : St → Prop)
    (hstep : ∀ st st', P st → StepRel fx cfg sym lw st st' → P st') :
    ∀ (fuel : Nat) (st st' : St) (stop : Stop), P st →
      loop fx cfg sym lw fuel st = some (st', stop) →
      P st' ∧ step fx cfg sym lw st' = .done stop := by
  intro fuel
  induction fuel with
  | zero => intro st st' stop _ h; simp [loop] at h
  | succ n ih =>
    intro st st' stop hp h
    unfold loop at h
    split at h
    · rename_i s hs
      cases h
      exact ⟨hp, hs⟩
    · rename_i st2 hs
      exact ih st2 st' stop (hstep st st2 hp (step_next hs)) h

/-- Not being at the line limit means the effective line width is at least 2. -/
theorem lw_ge_two_of_not_limit {cfg : Cfg} {lw n : Nat}
    (h : limitReached (effMax cfg lw) n = false) : 2 ≤ lw := by
  unfold limitReached effMax at h
  by_cases h1 : lw ≤ Generated.inlineSymbolWidth1
  · simp [h1] at h
  · unfold Generated.inlineSymbolWidth1 at h1
    omega

theorem not_limit_lt {cfg : Cfg} {lw n : Nat}
    (h : limitReached (effMax cfg lw) n = false) (hpos : 0 < effMax cfg lw) :
    n + 1 < effMax cfg lw := by
  unfold limitReached at h
  simp at h
  omega

end Wrap
