import DeltaModel.Wrap
/-
Helper lemmas for C07: the step relation of the `wrap_line` loop and the generic invariant
principle.
-/
namespace Wrap

theorem gsWidth_append (a b : List G) : gsWidth (a ++ b) = gsWidth a + gsWidth b := by
  induction a with
  | nil => simp [gsWidth]
  | cons g a ih => simp [gsWidth, ih]; omega

theorem rowWidth_append (a b : Row) : rowWidth (a ++ b) = rowWidth a + rowWidth b := by
  induction a with
  | nil => simp [rowWidth]
  | cons g a ih => simp [rowWidth, ih]; omega

theorem takeFit_append (wl : Nat) (gs : List G) : (takeFit wl gs).1 ++ (takeFit wl gs).2 = gs := by
  induction gs generalizing wl with
  | nil => simp [takeFit]
  | cons g gs ih =>
    unfold takeFit
    split
    · simp [ih]
    · simp

theorem takeFit_width (wl : Nat) (gs : List G) : gsWidth (takeFit wl gs).1 ≤ wl := by
  induction gs generalizing wl with
  | nil => simp [takeFit, gsWidth]
  | cons g gs ih =>
    unfold takeFit
    split
    · have := ih (wl - g.w)
      simp [gsWidth]; omega
    · simp [gsWidth]

theorem takeFit_snd_length_le (wl : Nat) (gs : List G) : (takeFit wl gs).2.length ≤ gs.length := by
  have := congrArg List.length (takeFit_append wl gs)
  simp at this; omega

/-- If the first cluster fits, `takeFit` consumes at least one cluster. -/
theorem takeFit_progress (wl : Nat) (g : G) (gs : List G) (h : g.w ≤ wl) :
    (takeFit wl (g :: gs)).2.length < (g :: gs).length := by
  unfold takeFit
  simp [h]
  have := takeFit_snd_length_le (wl - g.w) gs
  omega

/-- If the first cluster does not fit, `takeFit` consumes nothing. -/
theorem takeFit_stuck (wl : Nat) (g : G) (gs : List G) (h : wl < g.w) :
    takeFit wl (g :: gs) = ([], g :: gs) := by
  unfold takeFit
  simp [Nat.not_le.mpr h]

theorem takeFit_snd_subset (wl : Nat) (gs : List G) : ∀ g ∈ (takeFit wl gs).2, g ∈ gs := by
  intro g hg
  have := takeFit_append wl gs
  rw [← this]
  exact List.mem_append_right _ hg

/-! ### The step relation -/

theorem allZeroWidth_cons (s : Sec) (r : List Sec) :
    allZeroWidth (s :: r) = true ↔ gsWidth s.2 = 0 ∧ allZeroWidth r = true := by
  simp [allZeroWidth]

/-- "Perfect fit": nothing that needs room follows. -/
def PerfectRest (fx : Fixes) (rest : List Sec) : Prop :=
  rest = [] ∨ isLoneNl rest = true ∨ (fx.zwPerfectFit = true ∧ allZeroWidth rest = true)

/-- The `stuckStop` repair applies. -/
def StuckStop (fx : Fixes) (cfg : Cfg) (lw : Nat) (st : St) (gs : List G) : Prop :=
  fx.stuckStop = true ∧ stuckCond cfg lw st gs

/-- The four kinds of loop iteration that continue. -/
inductive StepRel (fx : Fixes) (cfg : Cfg) (sym lw : Nat) : St → St → Prop
  | push (st : St) (style : Nat) (gs : List G) (rest : List Sec)
      (hs : st.stack = (style, gs) :: rest)
      (hl : limitReached (effMax cfg lw) st.result.length = false)
      (hfit : st.len + gsWidth gs < lw ∨ (st.len + gsWidth gs = lw ∧
                (rest = [] ∨ (isLoneNl rest = false ∧ fx.zwPerfectFit = true ∧ allZeroWidth rest = true)))) :
      StepRel fx cfg sym lw st
        { st with curr := st.curr ++ [(style, gs)], len := st.len + gsWidth gs, stack := rest }
  | nl (st : St) (style : Nat) (gs : List G) (rest : List Sec)
      (hs : st.stack = (style, gs) :: rest)
      (hl : limitReached (effMax cfg lw) st.result.length = false)
      (heq : st.len + gsWidth gs = lw) (hnl : isLoneNl rest = true) :
      StepRel fx cfg sym lw st
        { st with curr := st.curr ++ (style, gs) :: rest, len := st.len + gsWidth gs, stack := [] }
  | split0 (st : St) (style : Nat) (gs : List G) (rest : List Sec)
      (hs : st.stack = (style, gs) :: rest)
      (hl : limitReached (effMax cfg lw) st.result.length = false)
      (hge : lw ≤ st.len + gsWidth gs)
      (hnf : ¬ (st.len + gsWidth gs = lw ∧ PerfectRest fx rest))
      (hns : ¬ StuckStop fx cfg lw st gs)
      (hw : shortcutCond fx cfg lw st gs) :
      StepRel fx cfg sym lw st
        { result := st.result ++ [st.curr ++ [(sym, [cfg.leftSym])]],
          curr := [], len := 0, stack := (style, gs) :: rest }
  | splitk (st : St) (style : Nat) (gs : List G) (rest : List Sec)
      (hs : st.stack = (style, gs) :: rest)
      (hl : limitReached (effMax cfg lw) st.result.length = false)
      (hge : lw ≤ st.len + gsWidth gs)
      (hnf : ¬ (st.len + gsWidth gs = lw ∧ PerfectRest fx rest))
      (hns : ¬ StuckStop fx cfg lw st gs)
      (hw : ¬ shortcutCond fx cfg lw st gs) :
      StepRel fx cfg sym lw st
        { result := st.result ++
            [st.curr ++ [(style, (takeFit (widthLeft cfg lw st.len gs) gs).1), (sym, [cfg.leftSym])]],
          curr := [], len := 0,
          stack := (style, (takeFit (widthLeft cfg lw st.len gs) gs).2) :: rest }

theorem step_next {fx : Fixes} {cfg : Cfg} {sym lw : Nat} {st st' : St}
    (h : step fx cfg sym lw st = .next st') : StepRel fx cfg sym lw st st' := by
  unfold step at h
  split at h
  · cases h
  · rename_i style gs rest hs
    split at h
    · cases h
    · rename_i hl
      have hl' : limitReached (effMax cfg lw) st.result.length = false := by simpa using hl
      simp only at h
      split at h
      · rename_i hlt
        cases h
        exact StepRel.push st style gs rest hs hl' (Or.inl hlt)
      · rename_i hnlt
        split at h
        · rename_i hpf
          cases h
          exact StepRel.push st style gs rest hs hl' (Or.inr ⟨hpf.1, Or.inl hpf.2⟩)
        · rename_i hnpf
          split at h
          · rename_i hn
            cases h
            exact StepRel.nl st style gs rest hs hl' hn.1 hn.2
          · rename_i hnn
            split at h
            · rename_i hz
              cases h
              have hnl : isLoneNl rest = false := by
                cases hb : isLoneNl rest with
                | false => rfl
                | true => exact absurd ⟨hz.1, hb⟩ hnn
              exact StepRel.push st style gs rest hs hl' (Or.inr ⟨hz.1, Or.inr ⟨hnl, hz.2⟩⟩)
            · rename_i hnz
              have hge : lw ≤ st.len + gsWidth gs := Nat.le_of_not_lt hnlt
              have hnf : ¬ (st.len + gsWidth gs = lw ∧ PerfectRest fx rest) := by
                intro ⟨he, ho⟩
                rcases ho with h1 | h2 | h3
                · exact hnpf ⟨he, h1⟩
                · exact hnn ⟨he, h2⟩
                · exact hnz ⟨he, h3⟩
              split at h
              · cases h
              · rename_i hns
                split at h
                · rename_i hw
                  cases h
                  exact StepRel.split0 st style gs rest hs hl' hge hnf hns hw
                · rename_i hw
                  cases h
                  exact StepRel.splitk st style gs rest hs hl' hge hnf hns hw

theorem step_done_stackEmpty {fx : Fixes} {cfg : Cfg} {sym lw : Nat} {st : St}
    (h : step fx cfg sym lw st = .done .stackEmpty) : st.stack = [] := by
  unfold step at h
  split at h
  · assumption
  · split at h
    · cases h
    · simp only at h
      repeat (first | cases h | split at h)

/-- The loop stops with `LineLimit` at the line limit, or (repaired code) when stuck. -/
theorem step_done_lineLimit {fx : Fixes} {cfg : Cfg} {sym lw : Nat} {st : St}
    (h : step fx cfg sym lw st = .done .lineLimit) :
    st.stack ≠ [] ∧ (limitReached (effMax cfg lw) st.result.length = true ∨
      (limitReached (effMax cfg lw) st.result.length = false ∧
        ∃ style gs rest, st.stack = (style, gs) :: rest ∧ StuckStop fx cfg lw st gs)) := by
  unfold step at h
  split at h
  · cases h
  · rename_i style gs rest hs
    split at h
    · rename_i hl
      exact ⟨by simp [hs], Or.inl hl⟩
    · rename_i hl
      simp only at h
      split at h
      · cases h
      · split at h
        · cases h
        · split at h
          · cases h
          · split at h
            · cases h
            · split at h
              · rename_i hst
                exact ⟨by simp [hs], Or.inr ⟨by simpa using hl, style, gs, rest, hs, hst⟩⟩
              · split at h <;> cases h

/-- Invariant principle for the loop. -/
theorem loop_inv {fx : Fixes} {cfg : Cfg} {sym lw : Nat} (P : St → Prop)
    (hstep : ∀ st st', P st → StepRel fx cfg sym lw st st' → P st') :
    ∀ (fuel : Nat) (st st' : St) (stop : Stop), P st →
      loop fx cfg sym lw fuel st = some (st', stop) →
      P st' ∧ step fx cfg sym lw st' = .done stop := by
  intro fuel
  induction fuel with
  | zero => intro st st' stop _ h; simp [loop] at h
  | succ n ih =>
    intro st st' stop hp h
    unfold loop at h
    split at h
    · rename_i s hs
      cases h
      exact ⟨hp, hs⟩
    · rename_i st2 hs
      exact ih st2 st' stop (hstep st st2 hp (step_next hs)) h

/-- Not being at the line limit means the effective line width is at least 2. -/
theorem lw_ge_two_of_not_limit {cfg : Cfg} {lw n : Nat}
    (h : limitReached (effMax cfg lw) n = false) : 2 ≤ lw := by
  unfold limitReached effMax at h
  by_cases h1 : lw ≤ Generated.inlineSymbolWidth1
  · simp [h1] at h
  · unfold Generated.inlineSymbolWidth1 at h1
    omega

theorem not_limit_lt {cfg : Cfg} {lw n : Nat}
    (h : limitReached (effMax cfg lw) n = false) (hpos : 0 < effMax cfg lw) :
    n + 1 < effMax cfg lw := by
  unfold limitReached at h
  simp at h
  omega

end Wrap
