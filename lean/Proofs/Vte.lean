import DeltaModel.Vte
/-!
Step lemmas for `Vte.advance` over the generated transition table. Every fact about the table is
established by `decide` over all 256 byte values, so a change of the table re-checks them.
-/
namespace Vte

/-- The discriminant order the model's numeric codes assume. -/
theorem numbering_ok :
    Generated.vteStateNames = ["Anywhere", "CsiEntry", "CsiIgnore", "CsiIntermediate", "CsiParam",
      "DcsEntry", "DcsIgnore", "DcsIntermediate", "DcsParam", "DcsPassthrough", "Escape",
      "EscapeIntermediate", "Ground", "OscString", "SosPmApcString", "Utf8"] ∧
    Generated.vteActionNames = ["Nop", "Clear", "Collect", "CsiDispatch", "EscDispatch", "Execute",
      "Hook", "Ignore", "OscEnd", "OscPut", "OscStart", "Param", "Print", "Put", "Unhook",
      "BeginUtf8"] ∧
    Generated.vteMaxIntermediates = 2 ∧ Generated.vteMaxParams = 32 := by decide

/-- A parser at rest between characters / sequences. -/
def Ground (p : Parser) : Prop := p.state = 12 ∧ p.utf8Need = 0 ∧ p.utf8Len = 0

theorem ground_init : Ground Parser.init := ⟨rfl, rfl, rfl⟩

/-! ### Table facts -/

theorem sc_ground_ascii : ∀ b, b < 128 → b ≠ 27 →
    stateChange 12 b = (12, 5) ∨ stateChange 12 b = (0, 5) ∨ stateChange 12 b = (0, 12) := by
  decide

theorem sc_ground_esc : stateChange 12 27 = (10, 0) := by decide

theorem sc_ground_lead : ∀ b, b < 256 → 0xC2 ≤ b → b ≤ 0xF4 → stateChange 12 b = (15, 15) := by decide +kernel

theorem sc_escape_bracket : stateChange 10 0x5b = (1, 0) := by decide
theorem sc_escape_osc : stateChange 10 0x5d = (13, 0) := by decide
theorem sc_escape_st : stateChange 10 0x5c = (12, 4) := by decide

theorem sc_csi_param : ∀ b, b < 256 → 0x30 ≤ b → b ≤ 0x3b →
    stateChange 1 b = (4, 11) ∧ stateChange 4 b = (0, 11) := by decide +kernel

theorem sc_csi_final : ∀ b, b < 256 → 0x40 ≤ b → b ≤ 0x7e →
    stateChange 1 b = (12, 3) ∧ stateChange 4 b = (12, 3) := by decide +kernel

theorem sc_osc_put : ∀ b, b < 256 → 0x20 ≤ b → stateChange 13 b = (0, 9) := by decide +kernel
theorem sc_osc_bel : stateChange 13 7 = (12, 0) := by decide
theorem sc_osc_esc : stateChange 13 27 = (10, 0) := by decide

/-! ### Step lemmas -/

theorem eta_state (p : Parser) (h : p.state = 12) : { p with state := 12 } = p := by
  cases p; simp_all

/-- Ground, ASCII byte other than ESC: one text byte, parser unchanged. -/
theorem adv_ground_ascii (p : Parser) (hp : Ground p) (b : Nat) (hb : b < 128) (he : b ≠ 27) :
    advanceN p b = (p, ⟨none, 1⟩) := by
  obtain ⟨hs, _, _⟩ := hp
  rcases sc_ground_ascii b hb he with h | h | h
  · simp [advanceN, hs, h, performStateChange, performAction, sAnywhere, sDcsPassthrough,
      sOscString, sCsiEntry, sDcsEntry, sEscape, sUtf8, hb]
    exact eta_state p hs
  · simp [advanceN, hs, h, performStateChange, performAction, sAnywhere, sUtf8, hb]
  · simp [advanceN, hs, h, performStateChange, performAction, sAnywhere, sUtf8, hb]

/-- The parser after `ESC` from any state that is not `Utf8`/`DcsPassthrough`/`OscString`... here: from Ground. -/
def escP : Parser := { state := 10 }
def csiEntryP : Parser := { state := 1 }
def oscP : Parser := { state := 13 }

theorem adv_ground_esc (p : Parser) (hp : Ground p) : advanceN p 27 = (escP, {}) := by
  obtain ⟨hs, h1, h2⟩ := hp
  cases p
  simp_all [advanceN, sc_ground_esc, performStateChange, performAction, sAnywhere, sDcsPassthrough,
    sOscString, sCsiEntry, sDcsEntry, sEscape, escP, sUtf8]

theorem adv_esc_bracket : advanceN escP 0x5b = (csiEntryP, {}) := by decide
theorem adv_esc_osc : advanceN escP 0x5d = (oscP, {}) := by decide
theorem adv_esc_st : advanceN escP 0x5c = ({ state := 12 }, ⟨some Kind.esc, 0⟩) := by decide

/-! ### CSI parameter bytes -/

theorem sumLens_append (a b : List (List Nat)) : sumLens (a ++ b) = sumLens a + sumLens b := by
  induction a with
  | nil => simp [sumLens]
  | cons x xs ih => simp [sumLens, ih]; omega

theorem maxParams_eq : Generated.vteMaxParams = 32 := numbering_ok.2.2.2
theorem maxInter_eq : Generated.vteMaxIntermediates = 2 := numbering_ok.2.2.1

/-- Inside `ESC [ params`, nothing ignored, no intermediates, `k` parameters closed or open. -/
structure CsiOk (p : Parser) (k : Nat) : Prop where
  st : p.state = 1 ∨ p.state = 4
  inter : p.inter = 0
  ign : p.ignoring = false
  len : p.paramsLen = k
  u1 : p.utf8Need = 0
  u2 : p.utf8Len = 0

theorem csiOk_entry : CsiOk csiEntryP 0 := by
  constructor <;> simp [csiEntryP, Parser.paramsLen, sumLens]

theorem paramsLen_push (p : Parser) (x : Nat) : (p.push x).paramsLen = p.paramsLen + 1 := by
  simp [Parser.push, Parser.paramsLen, sumLens_append, sumLens]; omega

theorem paramsLen_extend (p : Parser) (x : Nat) : (p.extend x).paramsLen = p.paramsLen + 1 := by
  simp [Parser.extend, Parser.paramsLen]; omega

theorem adv_csi_param (p : Parser) (k : Nat) (h : CsiOk p k) (hk : k < 32) (b : Nat)
    (hb1 : 0x30 ≤ b) (hb2 : b ≤ 0x3b) :
    (advanceN p b).2 = {} ∧ CsiOk (advanceN p b).1 (if b < 0x3a then k else k + 1) := by
  have hb : b < 256 := by omega
  obtain ⟨t1, t4⟩ := sc_csi_param b hb hb1 hb2
  have hfull : p.isFull = false := by
    simp [Parser.isFull, maxParams_eq, h.len]; omega
  rcases h.st with hs | hs
  · -- CsiEntry
    by_cases c1 : b = 0x3b
    · subst c1
      simp [advanceN, hs, t1, sUtf8, performStateChange, performAction, sAnywhere, sDcsPassthrough,
        sOscString, sCsiEntry, sDcsEntry, sEscape, hfull]
      constructor <;> simp [Parser.push, Parser.paramsLen, sumLens_append, sumLens, h.inter, h.ign, h.u1, h.u2]
      have := h.len; simp [Parser.paramsLen] at this; omega
    · by_cases c2 : b = 0x3a
      · subst c2
        simp [advanceN, hs, t1, sUtf8, performStateChange, performAction, sAnywhere, sDcsPassthrough,
          sOscString, sCsiEntry, sDcsEntry, sEscape, hfull]
        constructor <;> simp [Parser.extend, Parser.paramsLen, h.inter, h.ign, h.u1, h.u2]
        have := h.len; simp [Parser.paramsLen] at this; omega
      · have c3 : b < 0x3a := by omega
        simp [advanceN, hs, t1, sUtf8, performStateChange, performAction, sAnywhere, sDcsPassthrough,
          sOscString, sCsiEntry, sDcsEntry, sEscape, hfull, c1, c2, c3]
        constructor <;> simp [Parser.paramsLen, h.inter, h.ign, h.u1, h.u2]
        have := h.len; simp [Parser.paramsLen] at this; omega
  · -- CsiParam
    by_cases c1 : b = 0x3b
    · subst c1
      simp [advanceN, hs, t4, sUtf8, performStateChange, performAction, sAnywhere, hfull]
      constructor <;> simp [Parser.push, Parser.paramsLen, sumLens_append, sumLens, h.inter, h.ign, h.u1, h.u2, hs]
      have := h.len; simp [Parser.paramsLen] at this; omega
    · by_cases c2 : b = 0x3a
      · subst c2
        simp [advanceN, hs, t4, sUtf8, performStateChange, performAction, sAnywhere, hfull]
        constructor <;> simp [Parser.extend, Parser.paramsLen, h.inter, h.ign, h.u1, h.u2, hs]
        have := h.len; simp [Parser.paramsLen] at this; omega
      · have c3 : b < 0x3a := by omega
        simp [advanceN, hs, t4, sUtf8, performStateChange, performAction, sAnywhere, hfull, c1, c2, c3]
        constructor <;> simp [Parser.paramsLen, h.inter, h.ign, h.u1, h.u2, hs]
        have := h.len; simp [Parser.paramsLen] at this; omega

theorem performAction_dispatch (p : Parser) (perf : Perf) (b : Nat) (h : p.isFull = false) :
    performAction p perf 3 b = (p.push p.param, csiDispatch (p.push p.param) perf b) := by
  simp [performAction, h]

theorem csiDispatch_ok (q : Parser) (b : Nat) (h1 : q.ignoring = false) (h2 : q.inter = 0)
    (h3 : q.paramsLen ≠ 0) :
    csiDispatch q {} b = ⟨some (if b = 109 then Kind.sgr q.paramsIter else Kind.csi), 0⟩ := by
  unfold csiDispatch
  simp [h1, h2, h3]
  by_cases c : b = 109 <;> simp [c]

/-- The final byte of a well-formed CSI sequence dispatches an element and returns to Ground. -/
theorem adv_csi_final (p : Parser) (k : Nat) (h : CsiOk p k) (hk : k < 32) (b : Nat)
    (hb1 : 0x40 ≤ b) (hb2 : b ≤ 0x7e) :
    (∃ kind, (advanceN p b).2 = ⟨some kind, 0⟩ ∧ (b = 109 → ∃ ps, kind = Kind.sgr ps)) ∧
      Ground (advanceN p b).1 := by
  have hb : b < 256 := by omega
  obtain ⟨t1, t4⟩ := sc_csi_final b hb hb1 hb2
  have hfull : p.isFull = false := by
    simp [Parser.isFull, maxParams_eq, h.len]; omega
  have hlen : (p.push p.param).paramsLen ≠ 0 := by rw [paramsLen_push]; omega
  have hign : (p.push p.param).ignoring = false := by simp [Parser.push, h.ign]
  have hint : (p.push p.param).inter = 0 := by simp [Parser.push, h.inter]
  have hk' := csiDispatch_ok (p.push p.param) b hign hint hlen
  generalize hkind : (if b = 109 then Kind.sgr (p.push p.param).paramsIter else Kind.csi) = kind at hk'
  have key : advanceN p b = ({ p.push p.param with state := 12 }, ⟨some kind, 0⟩) := by
    rcases h.st with hs | hs
    · simp [advanceN, hs, t1, sUtf8, performStateChange, sAnywhere, sDcsPassthrough,
        sOscString, sCsiEntry, sDcsEntry, sEscape, performAction_dispatch _ _ _ hfull, hk']
    · simp [advanceN, hs, t4, sUtf8, performStateChange, sAnywhere, sDcsPassthrough,
        sOscString, sCsiEntry, sDcsEntry, sEscape, performAction_dispatch _ _ _ hfull, hk']
  rw [key]
  refine ⟨⟨kind, rfl, ?_⟩, by simp [Ground, Parser.push, h.u1, h.u2]⟩
  intro hb; subst hkind; exact ⟨(p.push p.param).paramsIter, by simp [hb]⟩

/-! ### OSC strings -/

theorem adv_osc_put (b : Nat) (hb : b < 256) (h20 : 0x20 ≤ b) : advanceN oscP b = (oscP, {}) := by
  have t := sc_osc_put b hb h20
  simp [advanceN, oscP, t, sUtf8, performStateChange, performAction, sAnywhere]

theorem adv_osc_bel : advanceN oscP 7 = ({ state := 12 }, ⟨some Kind.osc, 0⟩) := by decide
theorem adv_osc_esc : advanceN oscP 27 = (escP, ⟨some Kind.osc, 0⟩) := by decide

theorem ground_mk : Ground { state := 12 } := ⟨rfl, rfl, rfl⟩

/-! ### Multi-byte characters in Ground -/

theorem adv_ground_lead (p : Parser) (hp : Ground p) (b : Nat) (h1 : 0xC2 ≤ b) (h2 : b ≤ 0xF4) :
    advanceN p b =
      ({ p with state := 15, utf8Need := utf8SeqLen b - 1, utf8Len := utf8SeqLen b }, {}) := by
  obtain ⟨hs, hn, hl⟩ := hp
  have t := sc_ground_lead b (by omega) h1 h2
  simp [advanceN, hs, t, sUtf8, performStateChange, performAction, sAnywhere, sDcsPassthrough,
    sOscString, sCsiEntry, sDcsEntry, sEscape, processUtf8, hn]

theorem adv_utf8_more (p : Parser) (hs : p.state = 15) (n : Nat) (hn : p.utf8Need = n + 2) (b : Nat) :
    advanceN p b = ({ p with utf8Need := n + 1 }, {}) := by
  simp [advanceN, hs, sUtf8, processUtf8, hn]

theorem adv_utf8_last (p : Parser) (hs : p.state = 15) (hn : p.utf8Need = 1) (b : Nat) :
    advanceN p b = ({ p with utf8Need := 0, utf8Len := 0, state := 12 }, ⟨none, p.utf8Len⟩) := by
  simp [advanceN, hs, sUtf8, processUtf8, hn, sGround]

end Vte
