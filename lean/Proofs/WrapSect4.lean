import Proofs.WrapSect3
/-
C07 helper (sectioning independence, part 4): one iteration on the line is simulated by
iterations on its finest sectioning.
-/
namespace Wrap

/-- Invariants of the run on the line itself that the simulation uses. -/
structure MInv (fx : Fixes) (cfg : Cfg) (sym lw : Nat) (line : List Sec) (st : St) : Prop where
  invL : InvL cfg lw line st
  invW : InvW fx cfg sym lw st
  sufF : flatG st.stack <:+ flatG line
  sufT : st.stack.tail <:+ line
  noEmpty : NoEmptySec st.stack

theorem mInv_init (fx : Fixes) (cfg : Cfg) (sym lw : Nat) (line : List Sec)
    (hz : NlZero line) (hne : NoEmptySec line) : MInv fx cfg sym lw line (initSt line) :=
  ⟨invL_init cfg lw line hz, invW_init fx cfg sym lw line, List.suffix_refl _,
   by simp only [initSt]; exact List.tail_suffix _, hne⟩

theorem takeFit_snd_suffix (wl : Nat) (gs : List G) : (takeFit wl gs).2 <:+ gs :=
  ⟨(takeFit wl gs).1, takeFit_append wl gs⟩

theorem takeFit_rem_ne_nil (wl : Nat) (gs : List G) (h : wl < gsWidth gs) : (takeFit wl gs).2 ≠ [] := by
  intro hnil
  have h1 := takeFit_append wl gs
  rw [hnil, List.append_nil] at h1
  have h2 := takeFit_width wl gs
  rw [h1] at h2
  omega

theorem mInv_step {fx : Fixes} {cfg : Cfg} {sym lw : Nat} {line : List Sec} (hsym : cfg.leftSym.w = 1)
    {st st' : St} (hi : MInv fx cfg sym lw line st) (h : StepRel fx cfg sym lw st st') :
    MInv fx cfg sym lw line st' := by
  have hL := invL_step st st' hi.invL h
  have hW := invW_step (by omega) st st' hi.invL hi.invW h
  obtain ⟨_, iW, sF, sT, nE⟩ := hi
  cases h with
  | push style gs rest hs hl hfit =>
    rw [hs] at sF sT nE
    simp only [List.tail_cons] at sT
    refine ⟨hL, hW, ?_, List.IsSuffix.trans (List.tail_suffix _) sT, fun s hs' => nE s (List.mem_cons_of_mem _ hs')⟩
    rw [flatG_cons] at sF
    exact List.IsSuffix.trans (List.suffix_append _ _) sF
  | nl style gs rest hs hl heq hnl =>
    exact ⟨hL, hW, List.nil_suffix, List.nil_suffix, fun s hs' => by cases hs'⟩
  | split0 style gs rest hs hl hge hnf hns hw =>
    refine ⟨hL, hW, ?_, ?_, ?_⟩
    · simpa [hs] using sF
    · simpa [hs] using sT
    · simpa [hs] using nE
  | splitk style gs rest hs hl hge hnf hns hw =>
    rw [hs] at sF sT nE
    have h2 := lw_ge_two_of_not_limit hl
    have hlen : st.len < lw := len_lt_of_split hs h2 iW.lenlt iW.lenle hge hnf
    refine ⟨hL, hW, ?_, by simpa using sT, ?_⟩
    · simp only [flatG_cons] at sF ⊢
      obtain ⟨pre, hpre⟩ := takeFit_snd_suffix (widthLeft cfg lw st.len gs) gs
      refine List.IsSuffix.trans ?_ sF
      exact ⟨pre, by rw [← List.append_assoc, hpre]⟩
    · intro s hs'
      simp only [List.mem_cons] at hs'
      rcases hs' with rfl | hs'
      · apply takeFit_rem_ne_nil
        rw [widthLeft_eq hsym hlen hge]
        omega
      · exact nE s (List.mem_cons_of_mem _ hs')

/-- One iteration on the line is matched by zero or more iterations on the finest
sectioning. -/
theorem sim_step {fx : Fixes} {cfg : Cfg} {sym lw : Nat} {line : List Sec}
    (H : SimHyp fx cfg lw (flatG line)) {stM stM' stF : St}
    (hrel : Rel stM stF) (hi : MInv fx cfg sym lw line stM) (h : StepRel fx cfg sym lw stM stM') :
    ∃ stF', Steps fx cfg sym lw stF stF' ∧ Rel stM' stF' := by
  obtain ⟨rres, rcur, rlen, rstk⟩ := hrel
  have hreslen : stM.result.length = stF.result.length := by
    have := congrArg List.length rres
    simpa using this
  have hcurlen : stF.len = gsWidth (flatG stF.curr) := by
    rw [← rlen, ← rcur, gsWidth_flatG, hi.invL.len]
  cases h with
  | push style gs rest hs hl hfit =>
    have hstk : stF.stack = fine (gs ++ flatG rest) := by rw [rstk, hs, flatG_cons]
    have hsuf : (gs ++ flatG rest) <:+ flatG line := by
      have := hi.sufF; rw [hs, flatG_cons] at this; exact this
    have hlimF : limitReached (effMax cfg lw) stF.result.length = false := by rw [← hreslen]; exact hl
    have hneR : NoEmptySec rest := fun s hs' => hi.noEmpty s (by rw [hs]; exact List.mem_cons_of_mem _ hs')
    have hle : stF.len + gsWidth gs ≤ lw := by rw [← rlen]; rcases hfit with h | h <;> omega
    have hzero : stF.len + gsWidth gs = lw → gsWidth (flatG rest) = 0 := by
      rw [← rlen, gsWidth_flatG]
      intro heq
      rcases hfit with h | ⟨_, h | h⟩
      · omega
      · rw [h]; rfl
      · exact (allZeroWidth_iff rest).mp h.2.2
    obtain ⟨stF', hsteps, hres, hlen, hcond⟩ := fine_push_run (sym := sym) H gs (flatG rest) stF hstk hsuf hlimF hle hzero
    have hnc : ¬ (gs ≠ [] ∧ stF.len + gsWidth gs = lw ∧ isNlList (flatG rest) = true) := by
      intro ⟨_, heq, hnl⟩
      rw [← rlen] at heq
      rcases hfit with h | ⟨_, h | h⟩
      · omega
      · rw [h] at hnl; simp [flatG, isNlList] at hnl
      · have := isLoneNl_of_flat hneR hnl
        rw [h.1] at this; cases this
    rw [if_neg hnc] at hcond
    refine ⟨stF', hsteps, ?_, ?_, ?_, ?_⟩
    · simp only; rw [hres]; exact rres
    · simp only; rw [flatG_append, hcond.2, rcur]; simp [flatG]
    · simp only; rw [hlen, rlen]
    · simp only; exact hcond.1
  | nl style gs rest hs hl heq hnl =>
    have hstk : stF.stack = fine (gs ++ flatG rest) := by rw [rstk, hs, flatG_cons]
    have hsuf : (gs ++ flatG rest) <:+ flatG line := by
      have := hi.sufF; rw [hs, flatG_cons] at this; exact this
    have hlimF : limitReached (effMax cfg lw) stF.result.length = false := by rw [← hreslen]; exact hl
    have hgs : gs ≠ [] := hi.noEmpty (style, gs) (by rw [hs]; simp)
    have hnlz : NlZero rest := fun sec hsec => hi.invL.nlz sec (by rw [hs]; exact List.mem_cons_of_mem _ hsec)
    have hzero : gsWidth (flatG rest) = 0 := by rw [gsWidth_flatG]; exact isLoneNl_width hnl hnlz
    obtain ⟨stF', hsteps, hres, hlen, hcond⟩ := fine_push_run (sym := sym) H gs (flatG rest) stF hstk hsuf hlimF
      (by rw [← rlen]; omega) (fun _ => hzero)
    have hc : gs ≠ [] ∧ stF.len + gsWidth gs = lw ∧ isNlList (flatG rest) = true :=
      ⟨hgs, by rw [← rlen]; exact heq, flat_of_isLoneNl hnl⟩
    rw [if_pos hc] at hcond
    refine ⟨stF', hsteps, ?_, ?_, ?_, ?_⟩
    · simp only; rw [hres]; exact rres
    · simp only; rw [flatG_append, flatG_cons, hcond.2, rcur]; simp
    · simp only; rw [hlen, rlen]
    · simp only; rw [hcond.1]; rfl
  | split0 style gs rest hs hl hge hnf hns hw =>
    have h2 := lw_ge_two_of_not_limit hl
    have hlen : stM.len < lw := len_lt_of_split hs h2 hi.invW.lenlt hi.invW.lenle hge hnf
    have hlimF : limitReached (effMax cfg lw) stF.result.length = false := by rw [← hreslen]; exact hl
    have hneR : NoEmptySec rest := fun s hs' => hi.noEmpty s (by rw [hs]; exact List.mem_cons_of_mem _ hs')
    have hsufR : rest <:+ line := by have := hi.sufT; rw [hs] at this; simpa using this
    have hgs : gs ≠ [] := hi.noEmpty (style, gs) (by rw [hs]; simp)
    obtain ⟨c, gs', rfl⟩ := List.exists_cons_of_ne_nil hgs
    have hstk : stF.stack = fine (c :: (gs' ++ flatG rest)) := by rw [rstk, hs, flatG_cons]; rfl
    have hsuf : (c :: (gs' ++ flatG rest)) <:+ flatG line := by
      have := hi.sufF; rw [hs, flatG_cons] at this; exact this
    have hwl := widthLeft_eq H.sym1 hlen hge
    have hw0 : lw - stM.len - 1 = 0 := by rw [← hwl]; exact hw.1
    have hcpos : 0 < c.w := by
      rcases hw.2 with hz | hz
      · rcases H.p2 with h | h
        · rw [hz] at h; cases h
        · apply Nat.pos_of_ne_zero
          intro hc0
          have := h c (gs' ++ flatG rest) hsuf hc0
          have hg : gs' = [] := (List.append_eq_nil_iff.mp this).1
          subst hg
          simp [gsWidth, hc0] at hge
          omega
      · simpa [firstW] using hz
    have hnp : ¬ (stF.len + c.w = lw ∧ gsWidth (gs' ++ flatG rest) = 0) := by
      intro ⟨h1, h2⟩
      rw [gsWidth_append, gsWidth_flatG] at h2
      apply hnf
      refine ⟨by rw [rlen]; simp only [gsWidth]; omega, ?_⟩
      exact (perfectRest_iff_width H hneR hsufR).mpr (by omega)
    obtain ⟨row, hstep, hrow⟩ := fine_split (sym := sym) H stF c (gs' ++ flatG rest) hstk hsuf hlimF hcurlen
      (by rw [← rlen]; exact hlen) (by rw [← rlen]; omega) hnp
    refine ⟨_, Steps.single hstep, ?_, rfl, rfl, ?_⟩
    · simp only [List.map_append, List.map_cons, List.map_nil, rres]
      congr 2
      rw [hrow, ← rcur]
      simp [contentRow]
    · simp only; rw [flatG_cons]; rfl
  | splitk style gs rest hs hl hge hnf hns hw =>
    have h2 := lw_ge_two_of_not_limit hl
    have hlen : stM.len < lw := len_lt_of_split hs h2 hi.invW.lenlt hi.invW.lenle hge hnf
    have hlimF : limitReached (effMax cfg lw) stF.result.length = false := by rw [← hreslen]; exact hl
    have hneR : NoEmptySec rest := fun s hs' => hi.noEmpty s (by rw [hs]; exact List.mem_cons_of_mem _ hs')
    have hsufR : rest <:+ line := by have := hi.sufT; rw [hs] at this; simpa using this
    have hwl := widthLeft_eq H.sym1 hlen hge
    have happ := takeFit_append (widthLeft cfg lw stM.len gs) gs
    have hwid := takeFit_width (widthLeft cfg lw stM.len gs) gs
    have hrem : (takeFit (widthLeft cfg lw stM.len gs) gs).2 ≠ [] := by
      apply takeFit_rem_ne_nil; rw [hwl]; omega
    generalize htk : takeFit (widthLeft cfg lw stM.len gs) gs = tk at happ hwid hrem
    obtain ⟨t, rem⟩ := tk
    simp only at happ hwid hrem
    obtain ⟨c, rem', rfl⟩ := List.exists_cons_of_ne_nil hrem
    have hunfit := takeFit_head_unfit (widthLeft cfg lw stM.len gs) gs c rem' (by rw [htk])
    rw [htk] at hunfit
    simp only at hunfit
    rw [hwl] at hwid hunfit
    have hstk : stF.stack = fine (t ++ (c :: rem' ++ flatG rest)) := by
      rw [rstk, hs, flatG_cons]
      simp only
      rw [← happ]
      simp
    have hsuf : (t ++ (c :: rem' ++ flatG rest)) <:+ flatG line := by
      have := hi.sufF
      rw [hs, flatG_cons] at this
      simp only at this
      rw [← happ] at this
      simpa using this
    obtain ⟨stF1, hsteps, hres, hlen1, hcond⟩ := fine_push_run (sym := sym) H t (c :: rem' ++ flatG rest) stF hstk hsuf hlimF
      (by rw [← rlen]; omega) (by rw [← rlen]; intro h; omega)
    have hnc : ¬ (t ≠ [] ∧ stF.len + gsWidth t = lw ∧ isNlList (c :: rem' ++ flatG rest) = true) := by
      intro ⟨_, h, _⟩; rw [← rlen] at h; omega
    rw [if_neg hnc] at hcond
    have hsuf1 : (c :: (rem' ++ flatG rest)) <:+ flatG line :=
      List.IsSuffix.trans (List.suffix_append t _) (by simpa using hsuf)
    have hnp : ¬ (stF1.len + c.w = lw ∧ gsWidth (rem' ++ flatG rest) = 0) := by
      intro ⟨h1, h3⟩
      rw [gsWidth_append, gsWidth_flatG] at h3
      apply hnf
      have hgw : gsWidth gs = gsWidth t + (c.w + gsWidth rem') := by
        rw [← happ, gsWidth_append]; simp [gsWidth]
      refine ⟨by rw [hlen1, ← rlen] at h1; omega, ?_⟩
      exact (perfectRest_iff_width H hneR hsufR).mpr (by omega)
    obtain ⟨row, hstep, hrow⟩ := fine_split (sym := sym) H stF1 c (rem' ++ flatG rest)
      (by rw [hcond.1]; simp) hsuf1 (by rw [hres]; exact hlimF)
      (by rw [hlen1, hcond.2, gsWidth_append, ← hcurlen])
      (by rw [hlen1, ← rlen]; omega) (by rw [hlen1, ← rlen]; omega) hnp
    refine ⟨_, Steps.trans hsteps (Steps.single hstep), ?_, rfl, rfl, ?_⟩
    · simp only [List.map_append, List.map_cons, List.map_nil, hres, rres]
      congr 2
      rw [hrow, hcond.2, ← rcur]
      have : stM.curr ++ [(style, t), (sym, [cfg.leftSym])] = (stM.curr ++ [(style, t)]) ++ [(sym, [cfg.leftSym])] := by simp
      rw [contentRow, this, List.dropLast_concat, flatG_append]
      simp [flatG]
    · simp only; rw [flatG_cons]; simp

end Wrap
