import DeltaModel.Align
/-!
Specification-level view of the alignment table (used only in proofs).

`cellP X Y` is the table cell for the *reversed prefixes* `X`, `Y` (cell `(|X|, |Y|)`), defined by
the textbook recursion; `pathP X Y` is the list of operations read back from that cell, last
operation first. `Proofs/AlignRefine` shows that the executable table of `DeltaModel/Align`
computes exactly these.
-/
namespace Align
open Generated.Align

/-! ### The generated constants: the facts the proofs rely on
(each is re-checked against the regenerated table on every run). -/
theorem originOp_eq : originOp = .noOp := by decide
theorem penaltyAfter_eq : penaltyAfter = .noOp := by decide
theorem firstRowOp_eq : firstRowOp = .deletion := by decide
theorem firstColOp_eq : firstColOp = .insertion := by decide
theorem firstRowStep_eq : firstRowStep = deletionCost := by decide
theorem firstColStep_eq : firstColStep = insertionCost := by decide
theorem firstRowExtra_eq : firstRowExtra = initialMismatchPenalty := by decide
theorem firstColExtra_eq : firstColExtra = initialMismatchPenalty := by decide
theorem deletionCost_pos : 0 < deletionCost := by decide
theorem insertionCost_pos : 0 < insertionCost := by decide
theorem penalty_le_one : initialMismatchPenalty ≤ 1 := by decide
theorem penalty_pos : 0 < initialMismatchPenalty := by decide
/-- The candidate order the proofs cover: the two edit candidates (either order) before the
no-op candidate. Ties therefore never go to the no-op. -/
theorem candidates_order :
    candidates = [(.up, .insertion, .mismatch insertionCost), (.left, .deletion, .mismatch deletionCost),
      (.diag, .noOp, .parentCostIfEqualElseMax)] ∨
    candidates = [(.left, .deletion, .mismatch deletionCost), (.up, .insertion, .mismatch insertionCost),
      (.diag, .noOp, .parentCostIfEqualElseMax)] := by decide

def insCand (up : Nbr) : Cell := ⟨up.pos, .insertion, mismatchCost up.cell insertionCost⟩
def delCand (left : Nbr) : Cell := ⟨left.pos, .deletion, mismatchCost left.cell deletionCost⟩
def noopCand (diag : Nbr) : Cell := ⟨diag.pos, .noOp, diag.cell.cost⟩

/-- The cell `choose` returns (it always returns one, `choose_eq`). -/
def chooseSpec (up left diag : Nbr) (eq : Bool) : Cell := (choose up left diag eq).getD origin

/-- What the proofs use about `choose`: the result is one of the candidates, of minimal cost,
and it is the no-op only when that is strictly cheaper than both edits. -/
theorem choose_cases (up left diag : Nbr) (eq : Bool) :
    ∃ c, choose up left diag eq = some c ∧
    ((c = insCand up ∧ (insCand up).cost ≤ (delCand left).cost ∧
        (eq = true → (insCand up).cost ≤ (noopCand diag).cost)) ∨
    (c = delCand left ∧ (delCand left).cost ≤ (insCand up).cost ∧
        (eq = true → (delCand left).cost ≤ (noopCand diag).cost)) ∨
    (c = noopCand diag ∧ eq = true ∧
        (noopCand diag).cost < (insCand up).cost ∧ (noopCand diag).cost < (delCand left).cost)) := by
  unfold choose
  rcases candidates_order with ho | ho <;> rw [ho] <;> cases eq
  · simp only [List.filterMap_cons, List.filterMap_nil, candidate, minByCost, insCand,
      delCand, noopCand, Bool.false_eq_true, if_false]
    by_cases h : mismatchCost up.cell insertionCost ≤ mismatchCost left.cell deletionCost <;>
      simp [h] <;> omega
  · simp only [List.filterMap_cons, List.filterMap_nil, candidate, minByCost, insCand,
      delCand, noopCand, if_true]
    by_cases h1 : mismatchCost left.cell deletionCost ≤ diag.cell.cost <;>
    by_cases h2 : mismatchCost up.cell insertionCost ≤ mismatchCost left.cell deletionCost <;>
    by_cases h3 : mismatchCost up.cell insertionCost ≤ diag.cell.cost <;> simp [h1, h2, h3] <;> omega
  · simp only [List.filterMap_cons, List.filterMap_nil, candidate, minByCost, insCand,
      delCand, noopCand, Bool.false_eq_true, if_false]
    by_cases h : mismatchCost left.cell deletionCost ≤ mismatchCost up.cell insertionCost <;>
      simp [h] <;> omega
  · simp only [List.filterMap_cons, List.filterMap_nil, candidate, minByCost, insCand,
      delCand, noopCand, if_true]
    by_cases h1 : mismatchCost up.cell insertionCost ≤ diag.cell.cost <;>
    by_cases h2 : mismatchCost left.cell deletionCost ≤ mismatchCost up.cell insertionCost <;>
    by_cases h3 : mismatchCost left.cell deletionCost ≤ diag.cell.cost <;> simp [h1, h2, h3] <;> omega

theorem choose_eq (up left diag : Nbr) (eq : Bool) :
    choose up left diag eq = some (chooseSpec up left diag eq) := by
  obtain ⟨c, hc, _⟩ := choose_cases up left diag eq
  simp [chooseSpec, hc]

theorem chooseSpec_cases (up left diag : Nbr) (eq : Bool) :
    (chooseSpec up left diag eq = insCand up ∧ (insCand up).cost ≤ (delCand left).cost ∧
        (eq = true → (insCand up).cost ≤ (noopCand diag).cost)) ∨
    (chooseSpec up left diag eq = delCand left ∧ (delCand left).cost ≤ (insCand up).cost ∧
        (eq = true → (delCand left).cost ≤ (noopCand diag).cost)) ∨
    (chooseSpec up left diag eq = noopCand diag ∧ eq = true ∧
        (noopCand diag).cost < (insCand up).cost ∧ (noopCand diag).cost < (delCand left).cost) := by
  obtain ⟨c, hc, h⟩ := choose_cases up left diag eq
  have : chooseSpec up left diag eq = c := by simp [chooseSpec, hc]
  rw [this]; exact h

/-- Border cell `(0, j)`, `j ≥ 1`. -/
def colLeft (j : Nat) : Cell := ⟨(0, 0), firstColOp, j * firstColStep + firstColExtra⟩

/-- The table cell for reversed prefixes `X` (of `x`) and `Y` (of `y`). -/
def cellP {α} [DecidableEq α] : List α → List α → Cell
  | [], [] => origin
  | _ :: xs, [] => colTop (xs.length + 1)
  | [], _ :: ys => colLeft (ys.length + 1)
  | a :: xs, b :: ys =>
    chooseSpec ⟨cellP (a :: xs) ys, (xs.length + 1, ys.length)⟩
      ⟨cellP xs (b :: ys), (xs.length, ys.length + 1)⟩
      ⟨cellP xs ys, (xs.length, ys.length)⟩ (decide (a = b))
termination_by xs ys => xs.length + ys.length

/-- Operations read back from cell `(|X|, |Y|)`, last operation first (the origin contributes
nothing; a border cell contributes its own operation only: its parent is cell 0). -/
def pathP {α} [DecidableEq α] : List α → List α → List Op
  | [], [] => []
  | _ :: _, [] => [firstRowOp]
  | [], _ :: _ => [firstColOp]
  | a :: xs, b :: ys =>
    match (cellP (a :: xs) (b :: ys)).op with
    | .insertion => .insertion :: pathP (a :: xs) ys
    | .deletion => .deletion :: pathP xs (b :: ys)
    | .noOp => .noOp :: pathP xs ys
termination_by xs ys => xs.length + ys.length

/-- What `Alignment::operations` returns. -/
def opsSpec {α} [DecidableEq α] (x y : List α) : List Op :=
  if x = [] ∧ y = [] then [originOp] else (pathP x.reverse y.reverse).reverse

end Align
