import DeltaModel.EmphPaint
/-!
Lemmas for the C06 theorems about emphasis as it is painted (`DeltaModel/EmphPaint.lean`).

Part 1: `parse_styles()` — whatever way a style is supplied (directly, by a reference to another option,
by a reference to a user-defined name of the `[delta]` section, through a chain of references), the resolved
style carries `is_emph` exactly when its key is one of the two within-line keys. The generated statement list
is used only through `parseStylesSteps_shape` (the `make_*` calls first, then the resolution, then the flag on
the resolved map for the two keys) and `parsedStyleIsEmph = false`.

Part 2: `update_diff_style_sections` — what one section of a line is painted with.
-/
set_option linter.unusedVariables false
namespace EmphPaint
open Generated.EmphPaint

/-! ### facts about the generated tables -/

theorem parsed_flag (l : Nat) : (parsed l).isEmph = false := by
  simp [parsed, parsedStyleIsEmph]

/-- The function names of the leading `make_*_styles` calls. -/
def makeFns : List PStep → List String
  | .make fn :: rest => fn :: makeFns rest
  | _ => []

/-- `parse_styles()` is: `make_*_styles` calls, `resolve_style_references`, then `is_emph = true` on the
*resolved* entries of the two within-line keys. -/
theorem parseStylesSteps_shape :
    parseStylesSteps = (makeFns parseStylesSteps).map PStep.make ++
      [.resolve, .setEmphResolved "minus-emph-style", .setEmphResolved "plus-emph-style"] := by
  decide

/-! ### association lists -/

theorem mem_of_lookup {α} (l : List (String × α)) (k : String) (v : α) (h : l.lookup k = some v) :
    (k, v) ∈ l := by
  induction l with
  | nil => simp at h
  | cons e l ih =>
    obtain ⟨k', v'⟩ := e
    rw [List.lookup_cons] at h
    split at h
    · rename_i hk
      have : k = k' := by simpa using hk
      simp_all
    · exact List.mem_cons_of_mem _ (ih h)

theorem lookup_isSome_of_mem {α} (l : List (String × α)) (k : String) (v : α) (h : (k, v) ∈ l) :
    (l.lookup k).isSome = true := by
  induction l with
  | nil => simp at h
  | cons e l ih =>
    obtain ⟨k', v'⟩ := e
    rw [List.lookup_cons]
    split
    · rfl
    · rename_i hk
      rcases List.mem_cons.mp h with h | h
      · injection h with h1 h2
        subst h1
        simp at hk
      · exact ih h

/-- No `StyleReference::Style` entry of the map carries the flag. -/
def AllPlain (m : StyleMap) : Prop := ∀ k s, (k, StyleRef.style s) ∈ m → s.isEmph = false

theorem allPlain_nil : AllPlain [] := by
  intro k s h; simp at h

theorem allPlain_append {a b : StyleMap} (ha : AllPlain a) (hb : AllPlain b) : AllPlain (a ++ b) := by
  intro k s h
  rcases List.mem_append.mp h with h | h
  · exact ha k s h
  · exact hb k s h

theorem allPlain_groupEntries (supplied : List (String × Supplied)) (fn : String) :
    AllPlain (groupEntries supplied fn) := by
  intro k s h
  unfold groupEntries at h
  obtain ⟨e, _, he⟩ := List.mem_map.mp h
  injection he with h1 h2
  cases hv : e.2 with
  | direct l =>
    rw [hv] at h2
    simp only [entryOf] at h2
    injection h2 with h2
    subst h2
    exact parsed_flag l
  | ref n =>
    rw [hv] at h2
    simp [entryOf] at h2

/-! ### resolution -/

theorem without_length_lt {node : String} {l : List String} (h : node ∈ l) :
    (without node l).length < l.length :=
  List.length_filter_lt_length_iff_exists.mpr ⟨node, h, by simp⟩

/-- The fuel of `follow` suffices: the loop never runs out of it. -/
theorem followFuel_enough (edges : StyleMap) (git : String → Option Nat) (fuel : Nat) (unv : List String)
    (node : String) (hf : unv.length < fuel) :
    followFuel edges git fuel unv node ≠ .error "model: out of fuel" := by
  induction fuel generalizing unv node with
  | zero => omega
  | succ fuel ih =>
    simp only [followFuel]
    split
    · simp
    · split <;> simp
    · split
      · rename_i hm
        exact ih _ _ (by have := without_length_lt hm; omega)
      · simp

theorem follow_never_out_of_fuel (edges : StyleMap) (git : String → Option Nat) (unv : List String) (node : String) :
    follow edges git unv node ≠ .error "model: out of fuel" :=
  followFuel_enough edges git _ unv node (Nat.lt_succ_self _)

theorem followFuel_flag (edges : StyleMap) (git : String → Option Nat) (hp : AllPlain edges) (fuel : Nat)
    (unv : List String) (node : String) (s : PStyle) (h : followFuel edges git fuel unv node = .ok s) :
    s.isEmph = false := by
  induction fuel generalizing unv node with
  | zero => simp [followFuel] at h
  | succ fuel ih =>
    simp only [followFuel] at h
    split at h
    · rename_i s' hl
      injection h with h
      subst h
      exact hp node s' (mem_of_lookup _ _ _ hl)
    · split at h
      · rename_i l hg
        injection h with h
        subst h
        exact parsed_flag l
      · cases h
    · split at h
      · exact ih _ _ h
      · cases h

/-- Following references ends at a parsed style: the flag is not set, however long the chain. -/
theorem follow_flag (edges : StyleMap) (git : String → Option Nat) (hp : AllPlain edges)
    (unv : List String) (node : String) (s : PStyle) (h : follow edges git unv node = .ok s) :
    s.isEmph = false :=
  followFuel_flag edges git hp _ unv node s h

theorem resolveKeys_spec (edges : StyleMap) (git : String → Option Nat) (ks : List String) (r : Resolved)
    (h : resolveKeys edges git ks = .ok r) :
    r.map (·.1) = ks ∧ ∀ k s, (k, s) ∈ r → follow edges git (keysOf edges) k = .ok s := by
  induction ks generalizing r with
  | nil =>
    simp only [resolveKeys] at h
    injection h with h
    subst h
    simp
  | cons k ks ih =>
    simp only [resolveKeys] at h
    split at h
    · cases h
    · rename_i s hs
      split at h
      · cases h
      · rename_i r' hr'
        injection h with h
        subst h
        obtain ⟨h1, h2⟩ := ih r' hr'
        refine ⟨by simp [h1], ?_⟩
        intro k' s' hm
        rcases List.mem_cons.mp hm with hm | hm
        · injection hm with e1 e2
          subst e1; subst e2
          exact hs
        · exact h2 k' s' hm

/-- After `resolve_style_references` every key of the map has a style, and none carries the flag. -/
theorem resolve_spec (edges : StyleMap) (git : String → Option Nat) (hp : AllPlain edges) (r : Resolved)
    (h : resolve edges git = .ok r) :
    r.map (·.1) = keysOf edges ∧
    ∀ k s, (k, s) ∈ r → follow edges git (keysOf edges) k = .ok s ∧ s.isEmph = false := by
  obtain ⟨h1, h2⟩ := resolveKeys_spec edges git _ r h
  exact ⟨h1, fun k s hm => ⟨h2 k s hm, follow_flag edges git hp _ _ _ (h2 k s hm)⟩⟩

/-! ### the flag on the resolved map -/

theorem lookup_setFlag (k k' : String) (r : Resolved) :
    (setFlag k r).lookup k' = (r.lookup k').map fun s => if k' == k then { s with isEmph := true } else s := by
  induction r with
  | nil => simp [setFlag]
  | cons e r ih =>
    obtain ⟨k0, s0⟩ := e
    unfold setFlag at ih ⊢
    simp only [List.map_cons]
    by_cases h0 : k0 = k
    · subst h0
      simp only [beq_self_eq_true, if_true, List.lookup_cons]
      by_cases h1 : k' = k0
      · subst h1; simp
      · have : (k' == k0) = false := by simpa using h1
        simpa [this] using ih
    · have hk : (k0 == k) = false := by simpa using h0
      simp only [hk, Bool.false_eq_true, if_false, List.lookup_cons]
      by_cases h1 : k' = k0
      · subst h1
        simp [hk]
      · have : (k' == k0) = false := by simpa using h1
        simpa [this] using ih

theorem setFlag_keys (k : String) (r : Resolved) : (setFlag k r).map (·.1) = r.map (·.1) := by
  unfold setFlag
  induction r with
  | nil => rfl
  | cons e r ih =>
    simp only [List.map_cons, ih]
    split <;> rfl

/-! ### the statement list -/

theorem runSteps_append (supplied : List (String × Supplied)) (git : String → Option Nat)
    (a b : List PStep) (st : PState) :
    runSteps supplied git (a ++ b) st =
      match runSteps supplied git a st with
      | .error e => .error e
      | .ok st' => runSteps supplied git b st' := by
  induction a generalizing st with
  | nil => simp [runSteps]
  | cons s a ih =>
    simp only [List.cons_append, runSteps]
    split
    · rfl
    · exact ih _

/-- The map after the `make_*_styles` calls `fns`, starting from `e`. -/
def makeAll (supplied : List (String × Supplied)) : List String → StyleMap → StyleMap
  | [], e => e
  | fn :: fns, e => makeAll supplied fns (groupEntries supplied fn ++ e)

theorem runSteps_makes (supplied : List (String × Supplied)) (git : String → Option Nat)
    (fns : List String) (e : StyleMap) :
    runSteps supplied git (fns.map PStep.make) ⟨e, none⟩ = .ok ⟨makeAll supplied fns e, none⟩ := by
  induction fns generalizing e with
  | nil => rfl
  | cons fn fns ih =>
    simp only [List.map_cons, runSteps, step]
    exact ih _

theorem allPlain_makeAll (supplied : List (String × Supplied)) (fns : List String) (e : StyleMap)
    (he : AllPlain e) : AllPlain (makeAll supplied fns e) := by
  induction fns generalizing e with
  | nil => exact he
  | cons fn fns ih => exact ih _ (allPlain_append (allPlain_groupEntries supplied fn) he)

/-- The map of possibly unresolved styles that `parse_styles()` hands to `resolve_style_references`. -/
def edgesOf (supplied : List (String × Supplied)) : StyleMap :=
  makeAll supplied (makeFns parseStylesSteps) []

/-- `parse_styles()` unfolded: resolution of the map, then the flag on the two keys; both keys must be
present (the two `unwrap_or_else(panic)`). -/
theorem parseStyles_eq (supplied : List (String × Supplied)) (git : String → Option Nat) (r : Resolved)
    (h : parseStyles supplied git = .ok r) :
    ∃ r0, resolve (edgesOf supplied) git = .ok r0 ∧
      (r0.lookup "minus-emph-style").isSome = true ∧ (r0.lookup "plus-emph-style").isSome = true ∧
      r = setFlag "plus-emph-style" (setFlag "minus-emph-style" r0) := by
  unfold parseStyles at h
  rw [parseStylesSteps_shape, runSteps_append, runSteps_makes] at h
  simp only [runSteps, step] at h
  unfold edgesOf
  generalize makeAll supplied (makeFns parseStylesSteps) [] = e at h ⊢
  cases hr : resolve e git with
  | error err => simp [hr] at h
  | ok r0 =>
    simp only [hr] at h
    by_cases h1 : (r0.lookup "minus-emph-style").isSome = true
    · simp only [h1, if_true] at h
      by_cases h2 : ((setFlag "minus-emph-style" r0).lookup "plus-emph-style").isSome = true
      · simp only [h2, if_true] at h
        injection h with h
        refine ⟨r0, rfl, h1, ?_, h.symm⟩
        rw [lookup_setFlag] at h2
        simpa using h2
      · simp [h2] at h
    · simp [h1] at h

/-- Conversely: when the resolution succeeds and both keys are in the map, `parse_styles()` does not panic. -/
theorem parseStyles_ok (supplied : List (String × Supplied)) (git : String → Option Nat) (r0 : Resolved)
    (hr : resolve (edgesOf supplied) git = .ok r0)
    (h1 : (r0.lookup "minus-emph-style").isSome = true) (h2 : (r0.lookup "plus-emph-style").isSome = true) :
    parseStyles supplied git = .ok (setFlag "plus-emph-style" (setFlag "minus-emph-style" r0)) := by
  unfold parseStyles
  rw [parseStylesSteps_shape, runSteps_append, runSteps_makes]
  simp only [runSteps, step]
  unfold edgesOf at hr
  have h2' : ((setFlag "minus-emph-style" r0).lookup "plus-emph-style").isSome = true := by
    rw [lookup_setFlag]; simpa using h2
  simp [hr, h1, h2']

/-! ### `update_diff_style_sections` -/

/-- The rule `update_diff_style_sections` applies to one section, as a function: a section with `is_emph`
keeps its style unless it lies in the trailing whitespace of the line (`isWs`), where it gets the
whitespace-error style; a section without `is_emph` gets the whitespace-error style in the trailing whitespace
(when the line has one style only, or non-emph styles are being substituted), else the non-emph style when
non-emph styles are being substituted (`should`: a non-emph style is given and the line has a partner), else it
keeps its style. `none` = an `unwrap()` on `None`. -/
def paintRule (ws ne : Option PStyle) (should mixed isWs : Bool) (sec : PSec) : Option PStyle :=
  if sec.style.isEmph then (if isWs then ws else some sec.style)
  else if isWs && (!mixed || should) then ws
  else if should then ne
  else some sec.style

/-- What the rule means for emphasis, when neither the whitespace-error nor the non-emph style carries the
flag: emphasis is never invented, an emphasised section keeps its style or (in the trailing whitespace) gets the
whitespace-error style. -/
theorem paintRule_emph (ws ne : Option PStyle) (should mixed isWs : Bool) (sec : PSec) (st : PStyle)
    (hws : ∀ w, ws = some w → w.isEmph = false) (hne : ∀ n, ne = some n → n.isEmph = false)
    (h : paintRule ws ne should mixed isWs sec = some st) :
    (st.isEmph = true → sec.style.isEmph = true ∧ st = sec.style) ∧
    (sec.style.isEmph = true → st = sec.style ∨ (isWs = true ∧ ws = some st)) := by
  unfold paintRule at h
  cases he : sec.style.isEmph <;> cases isWs <;> cases mixed <;> cases should <;> cases ws <;> cases ne <;>
    simp_all

theorem wsNext (b x : Bool) : (if wsErrCleared b x = true then false else b) = (b && x) := by
  cases b <;> cases x <;> rfl

/-- The generated guards give `paintRule`. -/
theorem newStyle_rule (ws ne : Option PStyle) (should mixed isWs : Bool) (sec : PSec) (st : PStyle)
    (h : newStyle ws ne should mixed isWs sec = .ok st) :
    paintRule ws ne should mixed isWs sec = some st := by
  unfold newStyle at h
  unfold paintRule
  cases he : sec.style.isEmph <;> cases isWs <;> cases mixed <;> cases should <;> cases ws <;> cases ne <;>
    simp_all [wsErrBranch, nonEmphBranch, nonEmphBranchWsOverride, unwrap]

/-- No `unwrap()` panics: `is_whitespace_error` implies a whitespace-error style, and non-emph styles are only
substituted when there is one. -/
theorem newStyle_ok (ws ne : Option PStyle) (should mixed isWs : Bool) (sec : PSec)
    (h1 : isWs = true → ws.isSome = true) (h2 : should = true → ne.isSome = true) :
    ∃ st, newStyle ws ne should mixed isWs sec = .ok st := by
  unfold newStyle
  cases he : sec.style.isEmph <;> cases isWs <;> cases mixed <;> cases should <;> cases ws <;> cases ne <;>
    simp_all [wsErrBranch, nonEmphBranch, nonEmphBranchWsOverride, unwrap]

theorem updateLoop_length (ws ne : Option PStyle) (should mixed : Bool) (l : List PSec) (b : Bool)
    (out : List PSec) (h : updateLoop ws ne should mixed b l = .ok out) : out.length = l.length := by
  induction l generalizing b out with
  | nil =>
    simp only [updateLoop] at h
    injection h with h
    subst h
    rfl
  | cons x l ih =>
    simp only [updateLoop] at h
    split at h
    · cases h
    · split at h
      · cases h
      · rename_i out' ho
        injection h with h
        subst h
        simp [ih _ _ ho]

theorem updateLoop_total (ws ne : Option PStyle) (should mixed : Bool) (l : List PSec) (b : Bool)
    (hb : b = true → ws.isSome = true) (hs : should = true → ne.isSome = true) :
    ∃ out, updateLoop ws ne should mixed b l = .ok out := by
  induction l generalizing b with
  | nil => exact ⟨[], rfl⟩
  | cons x l ih =>
    simp only [updateLoop, wsNext]
    have hb' : (b && x.blank) = true → ws.isSome = true := by
      intro h
      exact hb (by cases b <;> simp_all)
    obtain ⟨st, hst⟩ := newStyle_ok ws ne should mixed (b && x.blank) x hb' hs
    obtain ⟨out, ho⟩ := ih (b && x.blank) hb'
    rw [hst]
    simp only
    rw [ho]
    exact ⟨_, rfl⟩

/-- The section at a given place of the visiting order: painted by the rule, with `is_whitespace_error` =
"initially set, and every section visited so far, this one included, is blank". -/
theorem updateLoop_at (ws ne : Option PStyle) (should mixed : Bool) (a : List PSec) (s : PSec) (c : List PSec)
    (b : Bool) (out : List PSec) (h : updateLoop ws ne should mixed b (a ++ s :: c) = .ok out) :
    ∃ oa o oc, out = oa ++ o :: oc ∧ oa.length = a.length ∧ oc.length = c.length ∧ o.blank = s.blank ∧
      newStyle ws ne should mixed (b && a.all (·.blank) && s.blank) s = .ok o.style := by
  induction a generalizing b out with
  | nil =>
    simp only [List.nil_append, updateLoop, wsNext] at h
    split at h
    · cases h
    · rename_i st hst
      split at h
      · cases h
      · rename_i out' ho
        injection h with h
        subst h
        refine ⟨[], ⟨st, s.blank⟩, out', rfl, rfl, updateLoop_length _ _ _ _ _ _ _ ho, rfl, ?_⟩
        simpa using hst
  | cons x a ih =>
    simp only [List.cons_append, updateLoop, wsNext] at h
    split at h
    · cases h
    · rename_i st hst
      split at h
      · cases h
      · rename_i out' ho
        injection h with h
        subst h
        obtain ⟨oa, o, oc, e, h1, h2, h3, h4⟩ := ih _ _ ho
        refine ⟨⟨st, x.blank⟩ :: oa, o, oc, by simp [e], by simp [h1], h2, h3, ?_⟩
        simpa [Bool.and_assoc] using h4

theorem shouldUpdate_some (ne : Option PStyle) (homolog : Bool)
    (h : shouldUpdateNonEmph ne.isSome homolog = true) : ne.isSome = true := by
  cases ne <;> cases homolog <;> simp_all [shouldUpdateNonEmph]

theorem wsErrInitial_some (ws : Option PStyle) (h : wsErrInitial ws.isSome = true) : ws.isSome = true := by
  cases ws <;> simp_all [wsErrInitial]

/-- `update_diff_style_sections` cannot panic on a line. -/
theorem updateLine_total (ws ne : Option PStyle) (homolog : Bool) (secs : List PSec) :
    ∃ out, updateLine ws ne homolog secs = .ok out := by
  unfold updateLine
  obtain ⟨out, ho⟩ := updateLoop_total ws ne (shouldUpdateNonEmph ne.isSome homolog) (moreThanOneStyle secs)
    (if sectionsReversed then secs.reverse else secs) (wsErrInitial ws.isSome)
    (wsErrInitial_some ws) (shouldUpdate_some ne homolog)
  simp only [ho]
  exact ⟨_, rfl⟩

/-- What the section at a given place of a line is painted with: `paintRule`, where the section lies in the
trailing whitespace iff a whitespace-error style is given and it and all later sections are blank. -/
theorem updateLine_at (ws ne : Option PStyle) (homolog : Bool) (pre : List PSec) (s : PSec) (post : List PSec)
    (out : List PSec) (h : updateLine ws ne homolog (pre ++ s :: post) = .ok out) :
    ∃ opre o opost, out = opre ++ o :: opost ∧ opre.length = pre.length ∧ opost.length = post.length ∧
      o.blank = s.blank ∧
      paintRule ws ne (shouldUpdateNonEmph ne.isSome homolog) (moreThanOneStyle (pre ++ s :: post))
        (wsErrInitial ws.isSome && post.all (·.blank) && s.blank) s = some o.style := by
  unfold updateLine at h
  have hrev : sectionsReversed = true := by decide
  simp only [hrev, if_true] at h
  have hl : (pre ++ s :: post).reverse = post.reverse ++ s :: pre.reverse := by simp
  rw [hl] at h
  split at h
  · cases h
  · rename_i out' ho
    injection h with h
    subst h
    obtain ⟨oa, o, oc, e, h1, h2, h3, h4⟩ := updateLoop_at _ _ _ _ _ _ _ _ _ ho
    refine ⟨oc.reverse, o, oa.reverse, by simp [e], by simp [h2], by simp [h1], h3, ?_⟩
    have := newStyle_rule _ _ _ _ _ _ _ h4
    simpa [List.all_reverse] using this

/-! ### from the resolved map to the arguments of `update_diff_style_sections` -/

def isEmphKey (k : String) : Bool := k == "minus-emph-style" || k == "plus-emph-style"

/-- The flag of every resolved style, whichever way it was supplied, and where its look comes from. -/
theorem parseStyles_flag (supplied : List (String × Supplied)) (git : String → Option Nat) (styles : Resolved)
    (h : parseStyles supplied git = .ok styles) (k : String) (s : PStyle) (hk : styles.lookup k = some s) :
    s.isEmph = isEmphKey k ∧
    ∃ s0, follow (edgesOf supplied) git (keysOf (edgesOf supplied)) k = .ok s0 ∧ s.look = s0.look := by
  obtain ⟨r0, hr, _, _, rfl⟩ := parseStyles_eq supplied git styles h
  rw [lookup_setFlag, lookup_setFlag] at hk
  cases h0 : r0.lookup k with
  | none => simp [h0] at hk
  | some s0 =>
    simp only [h0, Option.map_some, Option.some.injEq] at hk
    have hp : AllPlain (edgesOf supplied) := allPlain_makeAll supplied _ [] allPlain_nil
    obtain ⟨hf, hflag⟩ := (resolve_spec _ git hp r0 hr).2 k s0 (mem_of_lookup _ _ _ h0)
    subst hk
    refine ⟨?_, s0, hf, ?_⟩
    · unfold isEmphKey
      by_cases h1 : k = "minus-emph-style"
      · subst h1; simp
      · by_cases h2 : k = "plus-emph-style"
        · subst h2; simp
        · simp [h1, h2, hflag]
    · by_cases h1 : (k == "minus-emph-style") = true <;> by_cases h2 : (k == "plus-emph-style") = true <;>
        simp [h1, h2]

/-- A `Config` style field carries the flag iff the key it reads is a within-line key. -/
theorem cfgField_flag (supplied : List (String × Supplied)) (git : String → Option Nat) (styles : Resolved)
    (h : parseStyles supplied git = .ok styles) (f : String) (s : PStyle) (hf : cfgField styles f = .ok s) :
    ∃ key, configStyleKey.lookup f = some key ∧ s.isEmph = isEmphKey key := by
  unfold cfgField at hf
  split at hf
  · cases hf
  · rename_i key hkey
    split at hf
    · rename_i s' hs
      injection hf with hf
      subst hf
      exact ⟨key, hkey, (parseStyles_flag supplied git styles h key s' hs).1⟩
    · cases hf

/-- The fields `infer_edits` gets for changed sections read the within-line keys; the fields for unchanged
sections, the non-emph styles and the whitespace-error style read other keys (generated tables). -/
theorem emphField_key (side : Side) :
    (configStyleKey.lookup (emphField side)).map isEmphKey = some true := by
  cases side <;> decide

theorem lineField_key (side : Side) :
    (configStyleKey.lookup (lineField side)).map isEmphKey = some false := by
  cases side <;> decide

def plainField (f : String) : Bool := (configStyleKey.lookup f).map isEmphKey == some false

theorem updateCalls_plain :
    updateCalls.all (fun c => plainField c.nonEmphField && c.wsErrField.all plainField) = true := by
  decide

/-- Only added lines are given a whitespace-error style. -/
theorem minus_call_ws : (updateCalls.find? (·.side == Side.minus.name)).map (·.wsErrField) = some none := by
  decide

theorem wsArg_spec (styles : Resolved) (c : UpdateCall) (ws : Option PStyle) (h : wsArg styles c = .ok ws) :
    (c.wsErrField = none → ws = none) ∧
    ∀ w, ws = some w → ∃ f, c.wsErrField = some f ∧ cfgField styles f = .ok w := by
  unfold wsArg at h
  split at h
  · injection h with h
    subst h
    simp
  · rename_i f hf
    split at h
    · cases h
    · rename_i s hs
      injection h with h
      subst h
      refine ⟨by simp [hf], ?_⟩
      intro w hw
      injection hw with hw
      subst hw
      exact ⟨f, hf, hs⟩

theorem neArg_spec (styles : Resolved) (c : UpdateCall) (ne : Option PStyle) (h : neArg styles c = .ok ne) :
    ∀ n, ne = some n → cfgField styles c.nonEmphField = .ok n := by
  unfold neArg at h
  split at h
  · cases h
  · split at h
    · cases h
    · split at h
      · cases h
      · rename_i n hn
        injection h with h
        subst h
        intro n' hn'
        split at hn'
        · injection hn' with hn'
          subst hn'
          exact hn
        · cases hn'

theorem plain_of_field (supplied : List (String × Supplied)) (git : String → Option Nat) (styles : Resolved)
    (h : parseStyles supplied git = .ok styles) (f : String) (s : PStyle) (hp : plainField f = true)
    (hf : cfgField styles f = .ok s) : s.isEmph = false := by
  obtain ⟨key, hk, he⟩ := cfgField_flag supplied git styles h f s hf
  unfold plainField at hp
  rw [hk] at hp
  simp at hp
  rw [he, hp]

end EmphPaint
