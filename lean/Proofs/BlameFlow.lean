import DeltaModel.BlameFlow
import Proofs.BlameColour
import Proofs.BlameRender
/-!
`BlameFlow.runF` (blame lines with numbers, `is_repeat` and the registers taken from the generated table)
against `Blame.run` (keys only, `is_repeat := previous key = key`).

`FlowOk` is what the property needs of the generated table — for every state and every line, whatever its
number: the flag that reaches `get_color` *is* "same key as the previous line", the display flags (blank
metadata, blank number) are raised *only* for the key of the previous line, the state is updated unless it
already holds the key, and no `usize` panic point is hit. Under `FlowOk` a numbered run paints exactly as
the run over its keys (`runF_sim`), so the colour theorems carry over to streams with arbitrary line numbers.
-/
namespace BlameFlow
open Blame (Key Colour KeyMap CState Panic Paint getColor)

/-- The environment declares the registers of the table. -/
def Env.wf (e : Env) : Prop :=
  e.regs.length = Generated.BlameFlow.numRegs.length ∧ e.sregs.length = Generated.BlameFlow.strRegs.length

def FState.wf (s : FState) : Prop :=
  s.regs.length = Generated.BlameFlow.numRegs.length ∧ s.sregs.length = Generated.BlameFlow.strRegs.length

structure FlowOk : Prop where
  /-- no arithmetic panic point, whatever the line number and the registers -/
  total : ∀ e : Env, e.wf → ∃ f, flags e = some f
  /-- `get_color`'s `is_repeat` is "same key as the previous blame line" -/
  style : ∀ (e : Env) f, flags e = some f → f.style = e.keyEq
  /-- the metadata is blanked only for the key of the previous blame line -/
  blank : ∀ (e : Env) f, flags e = some f → f.blank = true → e.keyEq = true
  /-- the number is blanked only for the key of the previous blame line -/
  number : ∀ (e : Env) f, flags e = some f → f.number = true → e.keyEq = true
  /-- the state is `State::Blame(key)` after the line -/
  state : ∀ (e : Env) f, flags e = some f → f.update = false → e.keyEq = true

theorem nextRegs_length {α β : Type} (evalV : Env → β → Option α) (e : Env) :
    ∀ (old : List α) (tbl : List (List (BoolE × β))) (new : List α),
      nextRegs evalV e old tbl = some new → new.length = old.length := by
  intro old
  induction old with
  | nil =>
    intro tbl new h
    cases tbl <;> simp [nextRegs] at h <;> subst h <;> rfl
  | cons o rest ih =>
    intro tbl new h
    cases tbl with
    | nil =>
      simp only [nextRegs] at h
      cases hr : nextRegs evalV e rest [] with
      | none => simp [hr] at h
      | some l =>
        simp only [hr] at h
        injection h with h
        subst h
        simp [ih [] l hr]
    | cons u us =>
      simp only [nextRegs] at h
      cases hv : evalUpd (evalV e) e o u with
      | none => simp [hv] at h
      | some v =>
        cases hr : nextRegs evalV e rest us with
        | none => simp [hv, hr] at h
        | some l =>
          simp only [hv, hr] at h
          injection h with h
          subst h
          simp [ih us l hr]

theorem flags_lengths (e : Env) (f : Flags) (h : flags e = some f) :
    f.regs.length = e.regs.length ∧ f.sregs.length = e.sregs.length := by
  unfold flags at h
  split at h
  · split at h
    · rename_i b s n u r sr hb hs hn hu hr hsr
      injection h with h
      subst h
      exact ⟨nextRegs_length _ _ _ _ _ hr, nextRegs_length _ _ _ _ _ hsr⟩
    · cases h
  · cases h

theorem envOf_wf (s : FState) (hw : s.wf) (l : LineIn) (opq : Nat → Bool) : (envOf s l opq).wf := hw

theorem envOf_keyEq (s : FState) (l : LineIn) (opq : Nat → Bool) :
    (envOf s l opq).keyEq = decide (s.c.prev = some l.key) := rfl

theorem init_wf : FState.wf {} := by simp [FState.wf]

/-- One numbered line under `FlowOk` = one step of the keys-only model. -/
theorem stepF_sim (h : FlowOk) (pal : List Colour) (opq : Nat → Bool) (s : FState) (hw : s.wf) (l : LineIn) :
    (∀ c' p, Blame.step pal s.c l.key l.git = .ok (c', p) →
      ∃ s' fp, stepF pal opq s l = .ok (s', fp) ∧ s'.c = c' ∧ s'.wf ∧ fp.colour = p.colour ∧
        fp.style = p.isRepeat) ∧
    (∀ e, Blame.step pal s.c l.key l.git = .error e → stepF pal opq s l = .error (.base e)) := by
  obtain ⟨f, hf⟩ := h.total (envOf s l opq) (envOf_wf s hw l opq)
  have hstyle : f.style = decide (s.c.prev = some l.key) := by
    rw [h.style _ f hf, envOf_keyEq]
  have hprev : (if f.update then some l.key else s.c.prev) = some l.key := by
    cases hu : f.update with
    | true => rfl
    | false =>
      have := h.state _ f hf hu
      rw [envOf_keyEq] at this
      simpa using this
  have hlen := flags_lengths _ f hf
  have hw' : FState.wf ⟨⟨s.c.map, some l.key⟩, f.regs, f.sregs⟩ := by
    unfold FState.wf
    simp only
    rw [hlen.1, hlen.2]
    exact hw
  constructor
  · intro c' p hs
    unfold Blame.step at hs
    unfold stepF
    simp only [hf, hprev, hstyle]
    by_cases hg : l.git = true
    · simp only [hg, if_true] at hs ⊢
      injection hs with hs
      injection hs with h1 h2
      subst h1; subst h2
      exact ⟨_, _, rfl, rfl, hw', rfl, rfl⟩
    · simp only [hg] at hs ⊢
      cases hc : getColor pal s.c.map l.key s.c.prev (decide (s.c.prev = some l.key)) with
      | error e => simp [hc] at hs
      | ok c =>
        simp only [hc] at hs ⊢
        injection hs with hs
        injection hs with h1 h2
        subst h1; subst h2
        refine ⟨_, _, rfl, rfl, ?_, rfl, rfl⟩
        unfold FState.wf
        simp only
        rw [hlen.1, hlen.2]
        exact hw
  · intro e hs
    unfold Blame.step at hs
    unfold stepF
    simp only [hf, hprev, hstyle]
    by_cases hg : l.git = true
    · simp [hg] at hs
    · simp only [hg] at hs ⊢
      cases hc : getColor pal s.c.map l.key s.c.prev (decide (s.c.prev = some l.key)) with
      | error e' =>
        simp only [hc] at hs ⊢
        injection hs with hs
        subst hs
        rfl
      | ok c => simp [hc] at hs

/-- The keys (and git-colouring marks) of a numbered stream. -/
def keysOf (lines : List LineIn) : List (Key × Bool) := lines.map fun l => (l.key, l.git)

theorem keysOf_plain (lines : List LineIn) (hp : ∀ l ∈ lines, l.git = false) :
    keysOf lines = Blame.plain (lines.map (·.key)) := by
  induction lines with
  | nil => rfl
  | cons l rest ih =>
    have h1 : l.git = false := hp l List.mem_cons_self
    have h2 := ih (fun x hx => hp x (List.mem_cons_of_mem _ hx))
    simp only [keysOf, List.map_cons, Blame.plain] at h2 ⊢
    rw [h1, h2]

/-- A numbered run under `FlowOk` paints exactly as the run over its keys, and fails exactly when it does. -/
theorem runF_sim (h : FlowOk) (pal : List Colour) (opq : Nat → Bool) :
    ∀ (lines : List LineIn) (s : FState), s.wf →
      (∀ c' ps, Blame.run pal s.c (keysOf lines) = .ok (c', ps) →
        ∃ s' fps, runF pal opq s lines = .ok (s', fps) ∧ s'.c = c' ∧ s'.wf ∧
          fps.map (·.colour) = ps.map (·.colour) ∧ fps.map (·.style) = ps.map (·.isRepeat)) ∧
      (∀ e, Blame.run pal s.c (keysOf lines) = .error e → runF pal opq s lines = .error (.base e)) := by
  intro lines
  induction lines with
  | nil =>
    intro s hw
    constructor
    · intro c' ps hr
      simp only [keysOf, List.map_nil, Blame.run] at hr
      injection hr with hr
      injection hr with h1 h2
      subst h1; subst h2
      exact ⟨s, [], rfl, rfl, hw, rfl, rfl⟩
    · intro e hr
      simp [keysOf, Blame.run] at hr
  | cons l rest ih =>
    intro s hw
    obtain ⟨hok, herr⟩ := stepF_sim h pal opq s hw l
    constructor
    · intro c' ps hr
      simp only [keysOf, List.map_cons, Blame.run] at hr
      cases hs : Blame.step pal s.c l.key l.git with
      | error e => simp [hs] at hr
      | ok cp =>
        obtain ⟨c1, p⟩ := cp
        simp only [hs] at hr
        obtain ⟨s1, fp, hsf, hc1, hw1, hcol, hsty⟩ := hok c1 p hs
        cases hrr : Blame.run pal c1 (List.map (fun l => (l.key, l.git)) rest) with
        | error e => simp [hrr] at hr
        | ok cps =>
          obtain ⟨c2, ps'⟩ := cps
          simp only [hrr] at hr
          injection hr with hr
          injection hr with h1 h2
          subst h1; subst h2
          have hrr' : Blame.run pal s1.c (keysOf rest) = .ok (c2, ps') := by rw [hc1]; exact hrr
          obtain ⟨s2, fps, hrf, hc2, hw2, hcols, hstys⟩ := (ih s1 hw1).1 c2 ps' hrr'
          refine ⟨s2, fp :: fps, ?_, hc2, hw2, ?_, ?_⟩
          · simp only [runF, hsf, hrf]
          · simp [hcol, hcols]
          · simp [hsty, hstys]
    · intro e hr
      simp only [keysOf, List.map_cons, Blame.run] at hr
      cases hs : Blame.step pal s.c l.key l.git with
      | error e' =>
        simp only [hs] at hr
        injection hr with hr
        subst hr
        simp only [runF, herr e' hs]
      | ok cp =>
        obtain ⟨c1, p⟩ := cp
        simp only [hs] at hr
        obtain ⟨s1, fp, hsf, hc1, hw1, _, _⟩ := hok c1 p hs
        cases hrr : Blame.run pal c1 (List.map (fun l => (l.key, l.git)) rest) with
        | error e' =>
          simp only [hrr] at hr
          injection hr with hr
          subst hr
          have hrr' : Blame.run pal s1.c (keysOf rest) = .error e' := by rw [hc1]; exact hrr
          simp only [runF, hsf, (ih s1 hw1).2 e' hrr']
        | ok cps =>
          obtain ⟨c2, ps'⟩ := cps
          simp [hrr] at hr

/-- A successful numbered run from the initial state, read back as the run over its keys. -/
theorem runF_ok_run (h : FlowOk) (pal : List Colour) (opq : Nat → Bool) (lines : List LineIn)
    (s : FState) (fps : List FPaint) (hr : runF pal opq {} lines = .ok (s, fps)) :
    ∃ ps, Blame.run pal {} (keysOf lines) = .ok (s.c, ps) ∧
      fps.map (·.colour) = ps.map (·.colour) ∧ fps.map (·.style) = ps.map (·.isRepeat) := by
  obtain ⟨hok, herr⟩ := runF_sim h pal opq lines {} init_wf
  cases hb : Blame.run pal ({} : FState).c (keysOf lines) with
  | error e =>
    rw [herr e hb] at hr
    cases hr
  | ok cps =>
    obtain ⟨c', ps⟩ := cps
    obtain ⟨s', fps', hrf, hc, _, hcol, hsty⟩ := hok c' ps hb
    rw [hrf] at hr
    injection hr with hr
    injection hr with h1 h2
    subst h1; subst h2
    exact ⟨ps, by rw [hc], hcol, hsty⟩

theorem getElem?_of_map_eq {α β γ : Type} (f : α → γ) (g : β → γ) (l1 : List α) (l2 : List β)
    (h : l1.map f = l2.map g) (i : Nat) (b : β) (hb : l2[i]? = some b) :
    ∃ a, l1[i]? = some a ∧ f a = g b := by
  have h1 : (l1.map f)[i]? = (l2.map g)[i]? := by rw [h]
  rw [List.getElem?_map, List.getElem?_map, hb] at h1
  cases ha : l1[i]? with
  | none => simp [ha] at h1
  | some a =>
    simp only [ha, Option.map_some] at h1
    exact ⟨a, rfl, Option.some.inj h1⟩

/-! ### runs split at a position -/

theorem runF_append (pal : List Colour) (opq : Nat → Bool) (s : FState) (a b : List LineIn) :
    runF pal opq s (a ++ b) =
      match runF pal opq s a with
      | .error e => .error e
      | .ok (s1, pa) =>
        match runF pal opq s1 b with
        | .error e => .error e
        | .ok (s2, pb) => .ok (s2, pa ++ pb) := by
  induction a generalizing s with
  | nil =>
    simp only [List.nil_append, runF]
    cases runF pal opq s b with
    | error e => rfl
    | ok x => obtain ⟨s2, pb⟩ := x; rfl
  | cons l rest ih =>
    simp only [List.cons_append, runF]
    cases stepF pal opq s l with
    | error e => rfl
    | ok x =>
      obtain ⟨s', p⟩ := x
      simp only [ih]
      cases runF pal opq s' rest with
      | error e => rfl
      | ok y =>
        obtain ⟨s1, pa⟩ := y
        simp only
        cases runF pal opq s1 b with
        | error e => rfl
        | ok z => obtain ⟨s2, pb⟩ := z; rfl

theorem runF_length (pal : List Colour) (opq : Nat → Bool) :
    ∀ (lines : List LineIn) (s s' : FState) (ps : List FPaint),
      runF pal opq s lines = .ok (s', ps) → ps.length = lines.length := by
  intro lines
  induction lines with
  | nil =>
    intro s s' ps h
    simp only [runF] at h
    injection h with h
    injection h with _ h2
    subst h2; rfl
  | cons l rest ih =>
    intro s s' ps h
    simp only [runF] at h
    cases hs : stepF pal opq s l with
    | error e => simp [hs] at h
    | ok x =>
      obtain ⟨s1, p⟩ := x
      simp only [hs] at h
      cases hr : runF pal opq s1 rest with
      | error e => simp [hr] at h
      | ok y =>
        obtain ⟨s2, ps'⟩ := y
        simp only [hr] at h
        injection h with h
        injection h with _ h2
        subst h2
        simp [ih s1 s2 ps' hr]

/-- What a successful step leaves in the state and reports, in terms of the flags. -/
theorem stepF_flags (pal : List Colour) (opq : Nat → Bool) (s s' : FState) (l : LineIn) (fp : FPaint)
    (h : stepF pal opq s l = .ok (s', fp)) :
    ∃ f, flags (envOf s l opq) = some f ∧ fp.blank = f.blank ∧ fp.number = f.number ∧ fp.style = f.style ∧
      s'.c.prev = (if f.update then some l.key else s.c.prev) := by
  unfold stepF at h
  cases hf : flags (envOf s l opq) with
  | none => simp [hf] at h
  | some f =>
    simp only [hf] at h
    refine ⟨f, rfl, ?_⟩
    by_cases hg : l.git = true
    · simp only [hg, if_true] at h
      injection h with h
      injection h with h1 h2
      subst h1; subst h2
      exact ⟨rfl, rfl, rfl, rfl⟩
    · simp only [hg] at h
      cases hc : getColor pal s.c.map l.key s.c.prev f.style with
      | error e => simp [hc] at h
      | ok c =>
        simp only [hc] at h
        injection h with h
        injection h with h1 h2
        subst h1; subst h2
        exact ⟨rfl, rfl, rfl, rfl⟩

/-- Under `FlowOk`, after a blame line the state holds its key. -/
theorem stepF_prev (h : FlowOk) (pal : List Colour) (opq : Nat → Bool) (s s' : FState) (l : LineIn)
    (fp : FPaint) (hs : stepF pal opq s l = .ok (s', fp)) : s'.c.prev = some l.key := by
  obtain ⟨f, hf, _, _, _, hp⟩ := stepF_flags pal opq s s' l fp hs
  rw [hp]
  cases hu : f.update with
  | true => rfl
  | false =>
    have := h.state _ f hf hu
    rw [envOf_keyEq] at this
    simpa using this

/-- Under `FlowOk`, a display flag (blank metadata, blank number) is raised only when the state holds the
key of this line. -/
theorem stepF_display (h : FlowOk) (pal : List Colour) (opq : Nat → Bool) (s s' : FState) (l : LineIn)
    (fp : FPaint) (hs : stepF pal opq s l = .ok (s', fp)) (hd : fp.blank = true ∨ fp.number = true) :
    s.c.prev = some l.key := by
  obtain ⟨f, hf, hb, hn, _, _⟩ := stepF_flags pal opq s s' l fp hs
  have hk : (envOf s l opq).keyEq = true := by
    rcases hd with hd | hd
    · exact h.blank _ f hf (by rw [← hb]; exact hd)
    · exact h.number _ f hf (by rw [← hn]; exact hd)
  rw [envOf_keyEq] at hk
  simpa using hk

/-- Two consecutive lines `a`, `b` anywhere in a successful numbered run: if `b` is displayed as a repeat
(metadata or number blanked) then `a` has the same key. -/
theorem runF_display_at (h : FlowOk) (pal : List Colour) (opq : Nat → Bool) (pre post : List LineIn)
    (a b : LineIn) (s : FState) (ps : List FPaint)
    (hr : runF pal opq {} (pre ++ a :: b :: post) = .ok (s, ps)) :
    ∃ pb, ps[pre.length + 1]? = some pb ∧ ((pb.blank = true ∨ pb.number = true) → a.key = b.key) := by
  rw [runF_append] at hr
  cases h1 : runF pal opq {} pre with
  | error e => simp [h1] at hr
  | ok x =>
    obtain ⟨s1, p1⟩ := x
    simp only [h1, runF] at hr
    cases ha : stepF pal opq s1 a with
    | error e => simp [ha] at hr
    | ok y =>
      obtain ⟨s2, pa⟩ := y
      simp only [ha] at hr
      cases hb : stepF pal opq s2 b with
      | error e => simp [hb] at hr
      | ok z =>
        obtain ⟨s3, pb⟩ := z
        simp only [hb] at hr
        cases hp : runF pal opq s3 post with
        | error e => simp [hp] at hr
        | ok w =>
          obtain ⟨s4, pp⟩ := w
          simp only [hp] at hr
          injection hr with hr
          injection hr with _ h2
          subst h2
          have hl := runF_length pal opq pre {} s1 p1 h1
          refine ⟨pb, ?_, ?_⟩
          · rw [← hl]
            exact (Blame.getElem?_append_cons_cons p1 pa pb pp).2
          · intro hd
            have e1 := stepF_prev h pal opq s1 s2 a pa ha
            have e2 := stepF_display h pal opq s2 s3 b pb hb hd
            rw [e1] at e2
            exact Option.some.inj e2

/-- The first line of a stream is never displayed as a repeat. -/
theorem runF_display_first (h : FlowOk) (pal : List Colour) (opq : Nat → Bool) (a : LineIn)
    (post : List LineIn) (s : FState) (ps : List FPaint)
    (hr : runF pal opq {} (a :: post) = .ok (s, ps)) :
    ∃ pa, ps[0]? = some pa ∧ pa.blank = false ∧ pa.number = false := by
  simp only [runF] at hr
  cases ha : stepF pal opq {} a with
  | error e => simp [ha] at hr
  | ok y =>
    obtain ⟨s2, pa⟩ := y
    simp only [ha] at hr
    cases hp : runF pal opq s2 post with
    | error e => simp [hp] at hr
    | ok w =>
      obtain ⟨s4, pp⟩ := w
      simp only [hp] at hr
      injection hr with hr
      injection hr with _ h2
      subst h2
      refine ⟨pa, rfl, ?_, ?_⟩
      · cases hb : pa.blank with
        | false => rfl
        | true =>
          have := stepF_display h pal opq {} s2 a pa ha (Or.inl hb)
          simp at this
      · cases hb : pa.number with
        | false => rfl
        | true =>
          have := stepF_display h pal opq {} s2 a pa ha (Or.inr hb)
          simp at this

/-! ### the generated table, flag by flag -/

/-- What `flags` returns is what the expressions of the generated table evaluate to. -/
theorem flags_parts (e : Env) (f : Flags) (h : flags e = some f) :
    evalB e Generated.BlameFlow.blankFlag = some f.blank ∧
    evalB e Generated.BlameFlow.styleFlag = some f.style ∧
    evalB e Generated.BlameFlow.numberFlag = some f.number ∧
    evalB e Generated.BlameFlow.stateGuard = some f.update := by
  unfold flags at h
  split at h
  · split at h
    · rename_i b s n u r sr hb hs hn hu hr hsr
      injection h with h
      subst h
      exact ⟨hb, hs, hn, hu⟩
    · cases h
  · cases h

/-- `FlowOk` from statements about the four generated expressions and totality. -/
theorem flowOk_of_table
    (hstyle : ∀ (e : Env) b, evalB e Generated.BlameFlow.styleFlag = some b → b = e.keyEq)
    (hblank : ∀ e : Env, evalB e Generated.BlameFlow.blankFlag = some true → e.keyEq = true)
    (hnumber : ∀ e : Env, evalB e Generated.BlameFlow.numberFlag = some true → e.keyEq = true)
    (hstate : ∀ e : Env, evalB e Generated.BlameFlow.stateGuard = some false → e.keyEq = true)
    (htotal : ∀ e : Env, e.wf → (flags e).isSome = true) : FlowOk where
  total := by
    intro e hw
    have := htotal e hw
    cases hf : flags e with
    | none => simp [hf] at this
    | some f => exact ⟨f, rfl⟩
  style := fun e f hf => hstyle e f.style (flags_parts e f hf).2.1
  blank := fun e f hf hb => hblank e (by rw [(flags_parts e f hf).1, hb])
  number := fun e f hf hb => hnumber e (by rw [(flags_parts e f hf).2.2.1, hb])
  state := fun e f hf hb => hstate e (by rw [(flags_parts e f hf).2.2.2, hb])

theorem nextRegs_nil {α β : Type} (evalV : Env → β → Option α) (e : Env) (old : List α) :
    nextRegs evalV e old [] = some old := by
  induction old with
  | nil => rfl
  | cons o rest ih => simp [nextRegs, ih]

/-! ### rows of a stream -/

open Blame (StreamCfg Out BlameRec parseBlame formatMeta fmtLineNumber spaces strWidth) in
theorem streamStepF_row (cfg : StreamCfg) (opq : Nat → Bool) (s s' : FState) (line : Str) (git : Bool)
    (r : BlameRec) (o : Out) (hp : parseBlame cfg.mode line = some r)
    (h : streamStepF cfg opq s line git = .ok (s', o)) :
    ∃ key paint pre num suf,
      formatMeta cfg.arith cfg.cw cfg.items (cfg.tsOut r.ts) r.author r.commit = .ok key ∧
      stepF cfg.pal opq s ⟨key, git, r.lineNumber, r.author, r.commit⟩ = .ok (s', paint) ∧
      fmtLineNumber cfg.sep r.lineNumber paint.number = .ok (pre, num, suf) ∧
      o = .row paint.colour paint.blank key
        ⟨if paint.blank then spaces (strWidth cfg.cw key) else key, pre, num, suf,
         Text.expand cfg.tab r.code⟩ := by
  unfold streamStepF at h
  simp only [hp] at h
  cases hk : formatMeta cfg.arith cfg.cw cfg.items (cfg.tsOut r.ts) r.author r.commit with
  | error e => simp [hk] at h
  | ok key =>
    simp only [hk] at h
    cases hs : stepF cfg.pal opq s ⟨key, git, r.lineNumber, r.author, r.commit⟩ with
    | error e => simp [hs] at h
    | ok sp =>
      obtain ⟨s1, paint⟩ := sp
      simp only [hs] at h
      cases hn : fmtLineNumber cfg.sep r.lineNumber paint.number with
      | error e => simp [hn] at h
      | ok t =>
        obtain ⟨pre, num, suf⟩ := t
        simp only [hn] at h
        injection h with h
        injection h with h1 h2
        subst h1; subst h2
        exact ⟨key, paint, pre, num, suf, rfl, hs, hn, rfl⟩

open Blame (StreamCfg Out) in
theorem streamF_length (cfg : StreamCfg) (opq : Nat → Bool) (s : FState) (lines : List (Str × Bool))
    (outs : List Out) (h : streamF cfg opq s lines = .ok outs) : outs.length = lines.length := by
  induction lines generalizing s outs with
  | nil =>
    simp only [streamF] at h
    injection h with h
    subst h; rfl
  | cons lg rest ih =>
    obtain ⟨l, g⟩ := lg
    simp only [streamF] at h
    cases hs : streamStepF cfg opq s l g with
    | error e => simp [hs] at h
    | ok so =>
      obtain ⟨s', o⟩ := so
      simp only [hs] at h
      cases hr : streamF cfg opq s' rest with
      | error e => simp [hr] at h
      | ok os =>
        simp only [hr] at h
        injection h with h
        subst h
        simp [ih s' os hr]

/-! ### deciding `FlowOk` on the generated table

Syntactic, conservative checks of the generated expressions (sound for every table, proved once): the theorem
about the table in `Props/C17.lean` is then a `decide` over the finite generated data. -/

/-- `previous_key.as_deref() == Some(&key)`, in either order, or a conjunction / disjunction of such tests. -/
def isKeyEq : BoolE → Bool
  | .optEq .prevKey (.some .key) => true
  | .optEq (.some .key) .prevKey => true
  | .and a b => isKeyEq a && isKeyEq b
  | .or a b => isKeyEq a && isKeyEq b
  | _ => false

/-- `forces true x`: "`x` holds" forces the key to be the previous key; `forces false x`: "`x` does not hold"
forces it. -/
def forces : Bool → BoolE → Bool
  | true, .ff => true
  | false, .tt => true
  | true, .optEq .prevKey (.some .key) => true
  | true, .optEq (.some .key) .prevKey => true
  | true, .and a b => forces true a || forces true b
  | true, .or a b => forces true a && forces true b
  | false, .and a b => forces false a && forces false b
  | false, .or a b => forces false a || forces false b
  | true, .not a => forces false a
  | false, .not a => forces true a
  | _, _ => false

def totalN (nr : Nat) : NumE → Bool
  | .lit _ => true
  | .lineNumber => true
  | .reg i => decide (i < nr)
  | .add _ _ => false
  | .sub _ _ => false
  | .satAdd a b => totalN nr a && totalN nr b
  | .satSub a b => totalN nr a && totalN nr b

def totalO (ns : Nat) : OptStrE → Bool
  | .sreg i => decide (i < ns)
  | _ => true

def totalB (nr ns : Nat) : BoolE → Bool
  | .optEq a b => totalO ns a && totalO ns b
  | .isSome a => totalO ns a
  | .cmp _ a b => totalN nr a && totalN nr b
  | .and a b => totalB nr ns a && totalB nr ns b
  | .or a b => totalB nr ns a && totalB nr ns b
  | .not a => totalB nr ns a
  | _ => true

/-- No checked `usize` arithmetic anywhere in the table and every register it mentions is declared. -/
def tableTotal : Bool :=
  let nr := Generated.BlameFlow.numRegs.length
  let ns := Generated.BlameFlow.strRegs.length
  Generated.BlameFlow.alwaysN.all (totalN nr) && Generated.BlameFlow.alwaysB.all (totalB nr ns) &&
  totalB nr ns Generated.BlameFlow.blankFlag && totalB nr ns Generated.BlameFlow.styleFlag &&
  totalB nr ns Generated.BlameFlow.numberFlag && totalB nr ns Generated.BlameFlow.stateGuard &&
  Generated.BlameFlow.numNext.all (fun u => u.all fun gv => totalB nr ns gv.1 && totalN nr gv.2) &&
  Generated.BlameFlow.strNext.all (fun u => u.all fun gv => totalB nr ns gv.1 && totalO ns gv.2)

/-- The generated data flow satisfies the checks. -/
def tableOk : Bool :=
  isKeyEq Generated.BlameFlow.styleFlag && forces true Generated.BlameFlow.blankFlag &&
  forces true Generated.BlameFlow.numberFlag && forces false Generated.BlameFlow.stateGuard && tableTotal


local macro "kill" h:ident : tactic =>
  `(tactic| first | (simp [isKeyEq, forces] at $h:ident; done) | (cases $h:ident; done))

/-- The two spellings of the key test are the only `optEq` shapes the checks accept. -/
theorem keyEq_shapes (f : BoolE → Bool) (hf : f = isKeyEq ∨ f = forces true) (a b : OptStrE)
    (h : f (.optEq a b) = true) :
    (a = .prevKey ∧ b = .some .key) ∨ (a = .some .key ∧ b = .prevKey) := by
  rcases hf with hf | hf <;> subst hf
  all_goals
    cases a with
    | prevKey =>
      cases b with
      | some s =>
        cases s with
        | key => exact Or.inl ⟨rfl, rfl⟩
        | author => kill h
        | commit => kill h
      | prevKey => kill h
      | sreg i => kill h
      | none => kill h
    | some s =>
      cases s with
      | key =>
        cases b with
        | prevKey => exact Or.inr ⟨rfl, rfl⟩
        | sreg i => kill h
        | some t => kill h
        | none => kill h
      | author => cases b <;> kill h
      | commit => cases b <;> kill h
    | sreg i => cases b <;> kill h
    | none => cases b <;> kill h

theorem isKeyEq_sound (e : Env) : ∀ x, isKeyEq x = true → evalB e x = some e.keyEq := by
  intro x
  induction x with
  | optEq a b =>
    intro h
    rcases keyEq_shapes isKeyEq (Or.inl rfl) a b h with ⟨ha, hb⟩ | ⟨ha, hb⟩ <;> subst ha <;> subst hb
    · simp [evalB, evalO, evalS, Env.keyEq]
    · simp [evalB, evalO, evalS, Env.keyEq, eq_comm]
  | and a b iha ihb =>
    intro h
    simp only [isKeyEq, Bool.and_eq_true] at h
    simp only [evalB, iha h.1, ihb h.2]
    cases e.keyEq <;> rfl
  | or a b iha ihb =>
    intro h
    simp only [isKeyEq, Bool.and_eq_true] at h
    simp only [evalB, iha h.1, ihb h.2]
    cases e.keyEq <;> rfl
  | tt => intro h; simp [isKeyEq] at h
  | ff => intro h; simp [isKeyEq] at h
  | strEq a b => intro h; simp [isKeyEq] at h
  | isSome a => intro h; simp [isKeyEq] at h
  | cmp op a b => intro h; simp [isKeyEq] at h
  | not a _ => intro h; simp [isKeyEq] at h
  | opq i => intro h; simp [isKeyEq] at h

theorem forces_sound (e : Env) : ∀ x (pol : Bool), forces pol x = true → evalB e x = some pol → e.keyEq = true := by
  intro x
  induction x with
  | tt =>
    intro pol h hv
    cases pol
    · simp [evalB] at hv
    · simp [forces] at h
  | ff =>
    intro pol h hv
    cases pol
    · simp [forces] at h
    · simp [evalB] at hv
  | optEq a b =>
    intro pol h hv
    cases pol
    · simp [forces] at h
    · have hk : isKeyEq (.optEq a b) = true := by
        rcases keyEq_shapes (forces true) (Or.inr rfl) a b h with ⟨ha, hb⟩ | ⟨ha, hb⟩ <;> subst ha <;> subst hb <;> rfl
      rw [isKeyEq_sound e _ hk] at hv
      exact Option.some.inj hv
  | and a b iha ihb =>
    intro pol h hv
    cases pol
    · simp only [forces, Bool.and_eq_true] at h
      simp only [evalB] at hv
      cases ha : evalB e a with
      | none => simp [ha] at hv
      | some va =>
        cases va
        · exact iha false h.1 ha
        · simp only [ha] at hv
          exact ihb false h.2 hv
    · simp only [forces, Bool.or_eq_true] at h
      simp only [evalB] at hv
      cases ha : evalB e a with
      | none => simp [ha] at hv
      | some va =>
        cases va
        · simp [ha] at hv
        · simp only [ha] at hv
          rcases h with h | h
          · exact iha true h ha
          · exact ihb true h hv
  | or a b iha ihb =>
    intro pol h hv
    cases pol
    · simp only [forces, Bool.or_eq_true] at h
      simp only [evalB] at hv
      cases ha : evalB e a with
      | none => simp [ha] at hv
      | some va =>
        cases va
        · simp only [ha] at hv
          rcases h with h | h
          · exact iha false h ha
          · exact ihb false h hv
        · simp [ha] at hv
    · simp only [forces, Bool.and_eq_true] at h
      simp only [evalB] at hv
      cases ha : evalB e a with
      | none => simp [ha] at hv
      | some va =>
        cases va
        · simp only [ha] at hv
          exact ihb true h.2 hv
        · exact iha true h.1 ha
  | not a iha =>
    intro pol h hv
    simp only [evalB] at hv
    cases ha : evalB e a with
    | none => simp [ha] at hv
    | some va =>
      simp only [ha] at hv
      have hpv : (!va) = pol := Option.some.inj hv
      cases pol
      · simp only [forces] at h
        cases va
        · simp at hpv
        · exact iha true h ha
      · simp only [forces] at h
        cases va
        · exact iha false h ha
        · simp at hpv
  | strEq a b => intro pol h _; cases pol <;> simp [forces] at h
  | isSome a => intro pol h _; cases pol <;> simp [forces] at h
  | cmp op a b => intro pol h _; cases pol <;> simp [forces] at h
  | opq i => intro pol h _; cases pol <;> simp [forces] at h

theorem evalN_total (e : Env) : ∀ x, totalN e.regs.length x = true → ∃ v, evalN e x = some v := by
  intro x
  induction x with
  | lit n => intro _; exact ⟨n, rfl⟩
  | lineNumber => intro _; exact ⟨_, rfl⟩
  | reg i =>
    intro h
    simp only [totalN, decide_eq_true_eq] at h
    exact ⟨e.regs[i], by simp [evalN, List.getElem?_eq_getElem h]⟩
  | add a b _ _ => intro h; simp [totalN] at h
  | sub a b _ _ => intro h; simp [totalN] at h
  | satAdd a b iha ihb =>
    intro h
    simp only [totalN, Bool.and_eq_true] at h
    obtain ⟨x, hx⟩ := iha h.1
    obtain ⟨y, hy⟩ := ihb h.2
    exact ⟨(x + y).min usizeMax, by simp [evalN, hx, hy]⟩
  | satSub a b iha ihb =>
    intro h
    simp only [totalN, Bool.and_eq_true] at h
    obtain ⟨x, hx⟩ := iha h.1
    obtain ⟨y, hy⟩ := ihb h.2
    exact ⟨x - y, by simp [evalN, hx, hy]⟩

theorem evalO_total (e : Env) (x : OptStrE) (h : totalO e.sregs.length x = true) : ∃ v, evalO e x = some v := by
  cases x with
  | prevKey => exact ⟨_, rfl⟩
  | sreg i =>
    simp only [totalO, decide_eq_true_eq] at h
    exact ⟨e.sregs[i], by simp [evalO, List.getElem?_eq_getElem h]⟩
  | some s => exact ⟨_, rfl⟩
  | none => exact ⟨_, rfl⟩

theorem evalB_total (e : Env) : ∀ x, totalB e.regs.length e.sregs.length x = true → ∃ v, evalB e x = some v := by
  intro x
  induction x with
  | tt => intro _; exact ⟨_, rfl⟩
  | ff => intro _; exact ⟨_, rfl⟩
  | optEq a b =>
    intro h
    simp only [totalB, Bool.and_eq_true] at h
    obtain ⟨x, hx⟩ := evalO_total e a h.1
    obtain ⟨y, hy⟩ := evalO_total e b h.2
    exact ⟨decide (x = y), by simp [evalB, hx, hy]⟩
  | strEq a b => intro _; exact ⟨_, rfl⟩
  | isSome a =>
    intro h
    simp only [totalB] at h
    obtain ⟨x, hx⟩ := evalO_total e a h
    exact ⟨x.isSome, by simp [evalB, hx]⟩
  | cmp op a b =>
    intro h
    simp only [totalB, Bool.and_eq_true] at h
    obtain ⟨x, hx⟩ := evalN_total e a h.1
    obtain ⟨y, hy⟩ := evalN_total e b h.2
    exact ⟨cmpNat op x y, by simp [evalB, hx, hy]⟩
  | and a b iha ihb =>
    intro h
    simp only [totalB, Bool.and_eq_true] at h
    obtain ⟨x, hx⟩ := iha h.1
    obtain ⟨y, hy⟩ := ihb h.2
    cases x
    · exact ⟨false, by simp [evalB, hx]⟩
    · exact ⟨y, by simp [evalB, hx, hy]⟩
  | or a b iha ihb =>
    intro h
    simp only [totalB, Bool.and_eq_true] at h
    obtain ⟨x, hx⟩ := iha h.1
    obtain ⟨y, hy⟩ := ihb h.2
    cases x
    · exact ⟨y, by simp [evalB, hx, hy]⟩
    · exact ⟨true, by simp [evalB, hx]⟩
  | not a iha =>
    intro h
    simp only [totalB] at h
    obtain ⟨x, hx⟩ := iha h
    exact ⟨!x, by simp [evalB, hx]⟩
  | opq i => intro _; exact ⟨_, rfl⟩

theorem mapM'_total {α β : Type} (f : α → Option β) (l : List α) (h : ∀ a ∈ l, ∃ b, f a = some b) :
    ∃ bs, mapM' f l = some bs := by
  induction l with
  | nil => exact ⟨[], rfl⟩
  | cons a rest ih =>
    obtain ⟨b, hb⟩ := h a List.mem_cons_self
    obtain ⟨bs, hbs⟩ := ih (fun x hx => h x (List.mem_cons_of_mem _ hx))
    exact ⟨b :: bs, by simp [mapM', hb, hbs]⟩

theorem evalUpd_total {α β : Type} (evalV : β → Option α) (e : Env) (old : α) (u : List (BoolE × β))
    (hg : ∀ gv ∈ u, totalB e.regs.length e.sregs.length gv.1 = true) (hv : ∀ gv ∈ u, ∃ v, evalV gv.2 = some v) :
    ∃ v, evalUpd evalV e old u = some v := by
  induction u with
  | nil => exact ⟨old, rfl⟩
  | cons gv rest ih =>
    obtain ⟨g, v⟩ := gv
    obtain ⟨bg, hbg⟩ := evalB_total e g (hg (g, v) List.mem_cons_self)
    cases bg
    · obtain ⟨w, hw⟩ := ih (fun x hx => hg x (List.mem_cons_of_mem _ hx)) (fun x hx => hv x (List.mem_cons_of_mem _ hx))
      exact ⟨w, by simp [evalUpd, hbg, hw]⟩
    · obtain ⟨w, hw⟩ := hv (g, v) List.mem_cons_self
      exact ⟨w, by simp [evalUpd, hbg, hw]⟩

theorem nextRegs_total {α β : Type} (evalV : Env → β → Option α) (e : Env) :
    ∀ (old : List α) (tbl : List (List (BoolE × β))),
      (∀ u ∈ tbl, ∀ gv ∈ u, totalB e.regs.length e.sregs.length gv.1 = true ∧ ∃ v, evalV e gv.2 = some v) →
      ∃ new, nextRegs evalV e old tbl = some new := by
  intro old
  induction old with
  | nil => intro tbl _; exact ⟨[], by cases tbl <;> rfl⟩
  | cons o rest ih =>
    intro tbl h
    cases tbl with
    | nil => exact ⟨o :: rest, nextRegs_nil evalV e (o :: rest)⟩
    | cons u us =>
      obtain ⟨v, hv⟩ := evalUpd_total (evalV e) e o u (fun gv hgv => (h u List.mem_cons_self gv hgv).1)
        (fun gv hgv => (h u List.mem_cons_self gv hgv).2)
      obtain ⟨l, hl⟩ := ih us (fun u' hu' => h u' (List.mem_cons_of_mem _ hu'))
      exact ⟨v :: l, by simp [nextRegs, hv, hl]⟩

theorem flags_total_of_tableTotal (h : tableTotal = true) (e : Env) (hw : e.wf) : (flags e).isSome = true := by
  unfold tableTotal at h
  simp only [Bool.and_eq_true, List.all_eq_true] at h
  obtain ⟨⟨⟨⟨⟨⟨⟨hAN, hAB⟩, hb⟩, hs⟩, hn⟩, hu⟩, hNN⟩, hSN⟩ := h
  rw [← hw.1] at hAN hAB hb hs hn hu hNN hSN
  rw [← hw.2] at hAB hb hs hn hu hNN hSN
  obtain ⟨an, han⟩ := mapM'_total (evalN e) _ (fun a ha => evalN_total e a (hAN a ha))
  obtain ⟨ab, hab⟩ := mapM'_total (evalB e) _ (fun a ha => evalB_total e a (hAB a ha))
  obtain ⟨vb, hvb⟩ := evalB_total e _ hb
  obtain ⟨vs, hvs⟩ := evalB_total e _ hs
  obtain ⟨vn, hvn⟩ := evalB_total e _ hn
  obtain ⟨vu, hvu⟩ := evalB_total e _ hu
  obtain ⟨nr, hnr⟩ := nextRegs_total evalN e e.regs Generated.BlameFlow.numNext (fun u hu' gv hgv => by
    have := hNN u hu' gv hgv
    exact ⟨this.1, evalN_total e gv.2 this.2⟩)
  obtain ⟨sr, hsr⟩ := nextRegs_total evalO e e.sregs Generated.BlameFlow.strNext (fun u hu' gv hgv => by
    have := hSN u hu' gv hgv
    exact ⟨this.1, evalO_total e gv.2 this.2⟩)
  simp [flags, han, hab, hvb, hvs, hvn, hvu, hnr, hsr]

/-- `FlowOk` from the decidable checks of the generated table. -/
theorem flowOk_of_tableOk (h : tableOk = true) : FlowOk := by
  unfold tableOk at h
  simp only [Bool.and_eq_true] at h
  obtain ⟨⟨⟨⟨hs, hb⟩, hn⟩, hu⟩, ht⟩ := h
  refine flowOk_of_table ?_ (fun e hv => forces_sound e _ true hb hv) (fun e hv => forces_sound e _ true hn hv)
    (fun e hv => forces_sound e _ false hu hv) (fun e hw => flags_total_of_tableTotal ht e hw)
  intro e b hv
  rw [isKeyEq_sound e _ hs] at hv
  exact (Option.some.inj hv).symm

end BlameFlow
