import DeltaModel.HeaderWrite
/-!
The generated body of `write_generic_diff_header_header_line` does what `Machine.writeGeneric` says, for every
configuration and every machine: same rows in the same order, same `mode_info` afterwards.
-/
namespace HeaderWrite
open Machine Headers Generated.HeaderWrite

/-- what the generated body leaves: understood; nothing written and `mode_info` untouched under an omitted file style
(outside color-only mode); otherwise the blank line (outside color-only mode), the header drawn with the mode
information as addendum, and `mode_info` empty -/
theorem run_eq (cfg : Cfg) (mi : Str) :
    run cfg mi =
      if cfg.fileStyle.isOmitted ∧ ¬ cfg.colorOnly then { modeInfo := mi }
      else { modeInfo := [], drawFn := true,
             out := (if cfg.colorOnly then [] else [Ev.blank]) ++ [Ev.draw mi] } := by
  unfold run body
  cases ho : cfg.fileStyle.isOmitted <;> cases hc : cfg.colorOnly <;> cases mi <;>
    simp [execStmts, execStmt, evalCond, evalA, ho, hc]

theorem run_understood (cfg : Cfg) (mi : Str) : (run cfg mi).understood = true := by
  rw [run_eq]; split <;> rfl

theorem run_modeInfo (cfg : Cfg) (mi : Str) :
    (run cfg mi).modeInfo = if cfg.fileStyle.isOmitted ∧ ¬ cfg.colorOnly then mi else [] := by
  rw [run_eq]; split <;> rfl

/-- **the generated body is the model's `writeGeneric`** -/
theorem apply_eq_writeGeneric (cfg : Cfg) (m : M) (text raw : Str) :
    apply cfg m text raw = writeGeneric cfg m text raw := by
  unfold apply writeGeneric
  rw [run_eq]
  by_cases h : cfg.fileStyle.isOmitted ∧ ¬ cfg.colorOnly
  · simp only [h, direct]
    rfl
  · simp only [h, if_false]
    cases hc : cfg.colorOnly <;> simp [rowsOfEvents]

end HeaderWrite
