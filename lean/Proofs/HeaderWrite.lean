import DeltaModel.HeaderWrite
/-!
The generated body of `write_generic_diff_header_header_line` does what `Machine.writeGeneric` says, for every
configuration and every machine: same rows in the same order, same `mode_info` afterwards.
-/
-- the simp sets name more than today's body needs, so that harmless rewrites of the Rust function still go through
set_option linter.unusedSimpArgs false
namespace HeaderWrite
open Machine Headers Generated.HeaderWrite

/-- what the generated body leaves: every statement understood; `mode_info` empty, **whatever the configuration**
(since the repair of the early return: the omitted branch clears it too); nothing written under an omitted file style
(outside color-only mode); otherwise the blank line (outside color-only mode), then the header drawn with the mode
information as addendum. (Stated on the three observable fields, so that a rewrite which only introduces a local -
`let info = std::mem::take(mode_info)` before the draw - still satisfies it.) -/
theorem run_spec (cfg : Cfg) (mi : Str) :
    (run cfg mi).understood = true ∧
      (run cfg mi).modeInfo = [] ∧
      (run cfg mi).out = (if cfg.fileStyle.isOmitted ∧ ¬ cfg.colorOnly then []
                          else (if cfg.colorOnly then [] else [Ev.blank]) ++ [Ev.draw mi]) := by
  unfold run body
  cases ho : cfg.fileStyle.isOmitted <;> cases hc : cfg.colorOnly <;> cases hr : cfg.fileStyle.isRaw <;> cases mi <;>
    simp [execStmts, execStmt, evalCond, evalA, lookup, notUnderstood, ho, hc, hr]

theorem run_understood (cfg : Cfg) (mi : Str) : (run cfg mi).understood = true := (run_spec cfg mi).1

theorem run_modeInfo (cfg : Cfg) (mi : Str) : (run cfg mi).modeInfo = [] := (run_spec cfg mi).2.1

theorem run_out (cfg : Cfg) (mi : Str) :
    (run cfg mi).out = if cfg.fileStyle.isOmitted ∧ ¬ cfg.colorOnly then []
                       else (if cfg.colorOnly then [] else [Ev.blank]) ++ [Ev.draw mi] := (run_spec cfg mi).2.2

/-- **the generated body is the model's `writeGeneric`** -/
theorem apply_eq_writeGeneric (cfg : Cfg) (m : M) (text raw : Str) :
    apply cfg m text raw = writeGeneric cfg m text raw := by
  unfold apply writeGeneric
  rw [run_modeInfo, run_out]
  by_cases h : cfg.fileStyle.isOmitted ∧ ¬ cfg.colorOnly
  · simp only [h, direct]
    rfl
  · simp only [h, if_false]
    cases hc : cfg.colorOnly <;> simp [rowsOfEvents]

end HeaderWrite
