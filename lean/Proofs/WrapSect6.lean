import Proofs.WrapSect5
/-
C07 helper (sectioning independence, part 6): the hypotheses in user-facing form.
-/
namespace Wrap

/-- Zero-width clusters occur only as the line's final newline. -/
def ZeroOnlyFinalNl (flat : List G) : Prop :=
  ∀ g r', (g :: r') <:+ flat → g.w = 0 → r' = [] ∧ g.s = "\n"

/-- Every cluster of the line leaves room for the wrap symbol. -/
def FitsG (cfg : Cfg) (lw : Nat) (flat : List G) : Prop := ∀ g ∈ flat, g.w + cfg.leftSym.w ≤ lw

/-- A newline cluster has display width 0. -/
def NlZeroG (flat : List G) : Prop := ∀ g ∈ flat, g.s = "\n" → g.w = 0

theorem nlZero_of_flat {line : List Sec} (h : NlZeroG (flatG line)) : NlZero line := by
  intro sec hsec g hg hs
  apply h g _ hs
  simp only [flatG, List.mem_flatMap]
  exact ⟨sec, hsec, hg⟩

theorem fits_of_flat {cfg : Cfg} {lw : Nat} {line : List Sec} (h : FitsG cfg lw (flatG line)) :
    Fits cfg lw line := by
  intro sec hsec g hg
  apply h g
  simp only [flatG, List.mem_flatMap]
  exact ⟨sec, hsec, hg⟩

theorem simHyp_of {fx : Fixes} {cfg : Cfg} {lw : Nat} {flat : List G}
    (hsym : cfg.leftSym.w = 1)
    (hreg : (fx.zwShortcut = true ∧ fx.zwPerfectFit = true) ∨ ZeroOnlyFinalNl flat)
    (hnl : NlZeroG flat) (hfit : FitsG cfg lw flat) : SimHyp fx cfg lw flat := by
  refine ⟨hsym, ?_, ?_, hfit⟩
  · intro r hr
    constructor
    · rintro (h | h | h)
      · rw [fine_eq_nil.mp h]; rfl
      · rw [isLoneNl_fine] at h
        cases r with
        | nil => cases h
        | cons g r =>
          cases r with
          | nil =>
            have hg : g.s = "\n" := by simpa [isNlList] using h
            have := hnl g (hr.subset (by simp)) hg
            simp [gsWidth, this]
          | cons g' r => cases h
      · rw [← rowWidth_fine]; exact (allZeroWidth_iff _).mp h.2
    · intro h0
      rcases hreg with hA | hB
      · right; right
        exact ⟨hA.2, by rw [allZeroWidth_iff, rowWidth_fine]; exact h0⟩
      · cases r with
        | nil => left; rfl
        | cons g r' =>
          have hg0 : g.w = 0 := by simp [gsWidth] at h0; omega
          obtain ⟨hr', hs⟩ := hB g r' hr hg0
          subst hr'
          right; left
          rw [isLoneNl_fine]
          simp [isNlList, hs]
  · rcases hreg with hA | hB
    · left; exact hA.1
    · right
      intro g r' hsuf hg0
      exact (hB g r' hsuf hg0).1

end Wrap
