import Proofs.TermDraw
import DeltaModel.IngestLine
/-! `raw_line` as `ingest_line_utf8` leaves it (`Line.ingestRaw`): every escape sequence of the
input line is still there, so a balanced line stays balanced — with and without truncation at
`--max-line-length`. -/
namespace IngestProofs
open Term Sgr SgrTerm Line LineProofs

/-- The statements of `ingest_line_utf8` / `ingest_line` in the source are the modelled ones: the
assignments in their order, `truncate_str` applied to the whole `&self.raw_line`, nothing else. -/
theorem steps_as_modelled : ingestStepsAsModelled = true := by decide +kernel

theorem space_ne_esc : ∀ f, (some ' ' : Option Char) = some f → f ≠ ESC := by
  intro f hf; cases hf; decide

/-- What `ingestRaw` returns: the CR-processed line itself, or (truncation) a line with exactly
the escape sequences of the line followed by those of the truncation symbol, in order. -/
theorem ingestRaw_escs (tz trunc : Bool) (maxLen : Nat) (sym items : List Item) (line out : List Char)
    (hpart : flatten items = crStep tz line)
    (hok : ∀ i ∈ items, Item.ok i) (hsym : ∀ i ∈ sym, Item.ok i)
    (h : ingestRaw tz trunc maxLen sym line items = some out) :
    out = crStep tz line ∨
    ∃ r, out = flatten r ∧ escsOf r = escsOf items ++ escsOf sym ∧ ∀ i ∈ r, Item.ok i := by
  unfold ingestRaw at h
  cases trunc with
  | false => simp at h; exact Or.inl h.symm
  | true =>
    simp only [if_true] at h
    cases ht : Line.truncate maxLen sym (some ' ') items with
    | none => simp [ht] at h
    | some r =>
      simp [ht] at h
      subst h
      obtain ⟨hc, hrok⟩ := truncate_escs maxLen sym (some ' ') space_ne_esc items r hok hsym ht
      rcases hc with e | e
      · left; rw [e, hpart]
      · exact Or.inr ⟨r, rfl, e, hrok⟩

/-- **`raw_line` of a balanced line is balanced.** -/
theorem ingestRaw_selfContained (tz trunc : Bool) (maxLen : Nat) (sym items : List Item)
    (line out : List Char)
    (hcr : ∀ a t, splitLastCr line = some (a, t) → (final init a).mode = .ground)
    (hpart : flatten items = crStep tz line)
    (hok : ∀ i ∈ items, Item.ok i) (hsym : ∀ i ∈ sym, Item.ok i)
    (hsc : selfContained (flatten sym)) (hline : selfContained line)
    (h : ingestRaw tz trunc maxLen sym line items = some out) : selfContained out := by
  have hcrs : selfContained (crStep tz line) := by
    unfold selfContained at *
    rw [crStep_selfContained tz line hcr]; exact hline
  unfold ingestRaw at h
  cases trunc with
  | false => simp at h; subst h; exact hcrs
  | true =>
    simp only [if_true] at h
    cases ht : Line.truncate maxLen sym (some ' ') items with
    | none => simp [ht] at h
    | some r =>
      simp [ht] at h
      subst h
      exact (truncate_selfContained maxLen sym (some ' ') space_ne_esc items r hok hsym ht
        (by rw [hpart]; exact hcrs) hsc).1

end IngestProofs
