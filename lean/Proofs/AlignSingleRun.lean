import Proofs.AlignOptimal
/-!
Pure insertion (dually: pure deletion) of one contiguous run of tokens: the operations are
no-ops, then exactly `|b|` insertions, then no-ops — one contiguous emphasised stretch of the
size of the difference. From optimality: the canonical script costs `|b| * insertionCost +
penalty`; any script that cheap has no deletion and a single group.
-/
set_option linter.unusedSimpArgs false
set_option linter.unusedVariables false
namespace Align
open Generated.Align

def groupsFrom (prev : Bool) : List Op → Nat
  | [] => 0
  | .noOp :: r => groupsFrom true r
  | .deletion :: r => (if prev then 1 else 0) + groupsFrom false r
  | .insertion :: r => (if prev then 1 else 0) + groupsFrom false r

theorem scriptCostFrom_decomp (prev : Bool) (s : List Op) :
    scriptCostFrom prev s = countOp .deletion s * deletionCost + countOp .insertion s * insertionCost
      + groupsFrom prev s * initialMismatchPenalty := by
  induction s generalizing prev with
  | nil => simp [scriptCostFrom, countOp, groupsFrom]
  | cons o s ih =>
    cases o <;> cases prev <;>
      simp [scriptCostFrom, countOp, groupsFrom, ih, List.count_cons, Nat.add_mul] <;>
      (try simp only [countOp]) <;> omega

theorem groupsFrom_pos_of_ins (s : List Op) (h : 0 < countOp .insertion s) :
    0 < groupsFrom true s := by
  induction s with
  | nil => simp [countOp] at h
  | cons o s ih =>
    cases o with
    | noOp => simp only [groupsFrom]; apply ih; simpa [countOp, List.count_cons] using h
    | deletion => simp only [groupsFrom, if_true]; omega
    | insertion => simp only [groupsFrom, if_true]; omega

theorem groupsFrom_pos_of_del (s : List Op) (h : 0 < countOp .deletion s) :
    0 < groupsFrom true s := by
  induction s with
  | nil => simp [countOp] at h
  | cons o s ih =>
    cases o with
    | noOp => simp only [groupsFrom]; apply ih; simpa [countOp, List.count_cons] using h
    | deletion => simp only [groupsFrom, if_true]; omega
    | insertion => simp only [groupsFrom, if_true]; omega

/-! ### shape of scripts with a single group of one kind of edit -/

theorem shape_no_group (e other : Op) (he : e ≠ .noOp) (ho : other ≠ .noOp) (heo : e ≠ other)
    (s : List Op) (h0 : countOp other s = 0) (hg : groupsFrom true s = 0) :
    s = List.replicate s.length .noOp := by
  induction s with
  | nil => rfl
  | cons o s ih =>
    cases o with
    | noOp =>
      simp only [groupsFrom] at hg
      have h0' : countOp other s = 0 := by
        simp only [countOp, List.count_cons] at h0 ⊢; omega
      rw [List.length_cons, List.replicate_succ, ← ih h0' hg]
    | deletion => simp [groupsFrom] at hg
    | insertion => simp [groupsFrom] at hg

theorem shape_in_group (e other : Op) (he : e ≠ .noOp) (ho : other ≠ .noOp) (heo : e ≠ other)
    (s : List Op) (h0 : countOp other s = 0) (hg : groupsFrom false s = 0) :
    ∃ j m, s = List.replicate j e ++ List.replicate m .noOp := by
  induction s with
  | nil => exact ⟨0, 0, rfl⟩
  | cons o s ih =>
    have h0' : countOp other s = 0 := by
      simp only [countOp, List.count_cons] at h0 ⊢; omega
    cases o with
    | noOp =>
      simp only [groupsFrom] at hg
      have := shape_no_group e other he ho heo s h0' hg
      exact ⟨0, s.length + 1, by rw [List.replicate_succ, ← this]; rfl⟩
    | deletion =>
      simp only [groupsFrom, Bool.false_eq_true, if_false, Nat.zero_add] at hg
      obtain ⟨j, m, hs⟩ := ih h0' hg
      cases e with
      | noOp => exact absurd rfl he
      | deletion => exact ⟨j + 1, m, by rw [hs, List.replicate_succ]; rfl⟩
      | insertion =>
        cases other with
        | noOp => exact absurd rfl ho
        | insertion => exact absurd rfl heo
        | deletion => simp [countOp, List.count_cons] at h0
    | insertion =>
      simp only [groupsFrom, Bool.false_eq_true, if_false, Nat.zero_add] at hg
      obtain ⟨j, m, hs⟩ := ih h0' hg
      cases e with
      | noOp => exact absurd rfl he
      | insertion => exact ⟨j + 1, m, by rw [hs, List.replicate_succ]; rfl⟩
      | deletion =>
        cases other with
        | noOp => exact absurd rfl ho
        | deletion => exact absurd rfl heo
        | insertion => simp [countOp, List.count_cons] at h0

theorem shape_one_group (e other : Op) (he : e ≠ .noOp) (ho : other ≠ .noOp) (heo : e ≠ other)
    (s : List Op) (h0 : countOp other s = 0) (hg : groupsFrom true s = 1) :
    ∃ k j m, s = List.replicate k .noOp ++ List.replicate j e ++ List.replicate m .noOp := by
  induction s with
  | nil => simp [groupsFrom] at hg
  | cons o s ih =>
    have h0' : countOp other s = 0 := by
      simp only [countOp, List.count_cons] at h0 ⊢; omega
    cases o with
    | noOp =>
      simp only [groupsFrom] at hg
      obtain ⟨k, j, m, hs⟩ := ih h0' hg
      exact ⟨k + 1, j, m, by rw [hs, List.replicate_succ]; rfl⟩
    | deletion =>
      simp only [groupsFrom, if_true] at hg
      obtain ⟨j, m, hs⟩ := shape_in_group e other he ho heo s h0' (by omega)
      cases e with
      | noOp => exact absurd rfl he
      | deletion => exact ⟨0, j + 1, m, by rw [hs, List.replicate_succ]; rfl⟩
      | insertion =>
        cases other with
        | noOp => exact absurd rfl ho
        | insertion => exact absurd rfl heo
        | deletion => simp [countOp, List.count_cons] at h0
    | insertion =>
      simp only [groupsFrom, if_true] at hg
      obtain ⟨j, m, hs⟩ := shape_in_group e other he ho heo s h0' (by omega)
      cases e with
      | noOp => exact absurd rfl he
      | insertion => exact ⟨0, j + 1, m, by rw [hs, List.replicate_succ]; rfl⟩
      | deletion =>
        cases other with
        | noOp => exact absurd rfl ho
        | deletion => exact absurd rfl heo
        | insertion => simp [countOp, List.count_cons] at h0

/-! ### the canonical script -/

variable {α : Type}

theorem ValidScript.noops_prefix {s : List Op} {x y : List α} (p : List α) (h : ValidScript s x y) :
    ValidScript (List.replicate p.length .noOp ++ s) (p ++ x) (p ++ y) := by
  induction p with
  | nil => simpa using h
  | cons a p ih => exact .noop a ih

theorem ValidScript.ins_prefix {s : List Op} {x y : List α} (b : List α) (h : ValidScript s x y) :
    ValidScript (List.replicate b.length .insertion ++ s) x (b ++ y) := by
  induction b with
  | nil => simpa using h
  | cons a b ih => exact .ins a ih

theorem ValidScript.del_prefix {s : List Op} {x y : List α} (b : List α) (h : ValidScript s x y) :
    ValidScript (List.replicate b.length .deletion ++ s) (b ++ x) y := by
  induction b with
  | nil => simpa using h
  | cons a b ih => exact .del a ih

theorem ValidScript.noops_self (l : List α) : ValidScript (List.replicate l.length .noOp) l l := by
  have := ValidScript.noops_prefix l (ValidScript.nil (α := α))
  simpa using this

theorem groupsFrom_noops (prev : Bool) (k : Nat) (r : List Op) :
    groupsFrom prev (List.replicate (k + 1) .noOp ++ r) = groupsFrom true r := by
  induction k generalizing prev with
  | zero => simp [groupsFrom]
  | succ k ih => rw [List.replicate_succ, List.cons_append, groupsFrom, ih]

theorem groupsFrom_noops_nil (prev : Bool) (k : Nat) : groupsFrom prev (List.replicate k .noOp) = 0 := by
  induction k generalizing prev with
  | zero => simp [groupsFrom]
  | succ k ih => rw [List.replicate_succ, groupsFrom, ih]

theorem groupsFrom_false_edits (e : Op) (he : e ≠ .noOp) (j : Nat) (r : List Op) :
    groupsFrom false (List.replicate j e ++ r) = groupsFrom false r := by
  induction j with
  | zero => simp
  | succ j ih =>
    rw [List.replicate_succ, List.cons_append]
    cases e with
    | noOp => exact absurd rfl he
    | deletion => simp [groupsFrom, ih]
    | insertion => simp [groupsFrom, ih]

theorem groupsFrom_canonical (e : Op) (he : e ≠ .noOp) (k j m : Nat) :
    groupsFrom true (List.replicate (k + 1) .noOp ++ List.replicate (j + 1) e ++ List.replicate m .noOp) = 1 := by
  rw [List.append_assoc, groupsFrom_noops, List.replicate_succ, List.cons_append]
  have h2 : groupsFrom false (List.replicate m .noOp) = 0 := groupsFrom_noops_nil false m
  cases e with
  | noOp => exact absurd rfl he
  | deletion => simp [groupsFrom, groupsFrom_false_edits, h2]
  | insertion => simp [groupsFrom, groupsFrom_false_edits, h2]

theorem scriptCost_canonical_ins (k j m : Nat) :
    scriptCost (List.replicate (k + 1) .noOp ++ List.replicate (j + 1) .insertion ++ List.replicate m .noOp)
      = (j + 1) * insertionCost + initialMismatchPenalty := by
  unfold scriptCost
  rw [scriptCostFrom_decomp, groupsFrom_canonical _ (by simp)]
  simp [countOp, List.count_append, List.count_replicate]

theorem scriptCost_canonical_del (k j m : Nat) :
    scriptCost (List.replicate (k + 1) .noOp ++ List.replicate (j + 1) .deletion ++ List.replicate m .noOp)
      = (j + 1) * deletionCost + initialMismatchPenalty := by
  unfold scriptCost
  rw [scriptCostFrom_decomp, groupsFrom_canonical _ (by simp)]
  simp [countOp, List.count_append, List.count_replicate]

/-- A valid script between `x` and a `y` that is `j+1` tokens longer, costing no more than
`(j+1)` insertions in one group, is: no-ops, `j+1` insertions, no-ops. -/
theorem cheap_script_shape_ins {s : List Op} {x y : List α} (j : Nat) (hs : ValidScript s x y)
    (hlen : y.length = x.length + (j + 1))
    (hc : scriptCost s ≤ (j + 1) * insertionCost + initialMismatchPenalty) :
    ∃ k m, s = List.replicate k .noOp ++ List.replicate (j + 1) .insertion ++ List.replicate m .noOp := by
  have hl := hs.length_left
  have hr := hs.length_right
  have hI : countOp .insertion s = countOp .deletion s + (j + 1) := by omega
  unfold scriptCost at hc
  rw [scriptCostFrom_decomp, hI, Nat.add_mul] at hc
  have hg : 0 < groupsFrom true s := groupsFrom_pos_of_ins s (by omega)
  have hgp : initialMismatchPenalty ≤ groupsFrom true s * initialMismatchPenalty :=
    Nat.le_mul_of_pos_left _ hg
  have hD0 : countOp .deletion s * deletionCost = 0 := by omega
  have hD : countOp .deletion s = 0 := by
    rcases Nat.mul_eq_zero.mp hD0 with h | h
    · exact h
    · have := deletionCost_pos; omega
  have hg1 : groupsFrom true s = 1 := by
    by_cases h2 : 2 ≤ groupsFrom true s
    · have := Nat.mul_le_mul_right initialMismatchPenalty h2
      have := penalty_pos
      omega
    · omega
  obtain ⟨k, j', m, hshape⟩ := shape_one_group .insertion .deletion (by simp) (by simp) (by simp) s hD hg1
  have hj : j' = j + 1 := by
    have : countOp .insertion s = j' := by
      rw [hshape]; simp [countOp, List.count_append, List.count_replicate]
    omega
  exact ⟨k, m, by rw [hshape, hj]⟩

theorem cheap_script_shape_del {s : List Op} {x y : List α} (j : Nat) (hs : ValidScript s x y)
    (hlen : x.length = y.length + (j + 1))
    (hc : scriptCost s ≤ (j + 1) * deletionCost + initialMismatchPenalty) :
    ∃ k m, s = List.replicate k .noOp ++ List.replicate (j + 1) .deletion ++ List.replicate m .noOp := by
  have hl := hs.length_left
  have hr := hs.length_right
  have hI : countOp .deletion s = countOp .insertion s + (j + 1) := by omega
  unfold scriptCost at hc
  rw [scriptCostFrom_decomp, hI, Nat.add_mul] at hc
  have hg : 0 < groupsFrom true s := groupsFrom_pos_of_del s (by omega)
  have hgp : initialMismatchPenalty ≤ groupsFrom true s * initialMismatchPenalty :=
    Nat.le_mul_of_pos_left _ hg
  have hD0 : countOp .insertion s * insertionCost = 0 := by omega
  have hD : countOp .insertion s = 0 := by
    rcases Nat.mul_eq_zero.mp hD0 with h | h
    · exact h
    · have := insertionCost_pos; omega
  have hg1 : groupsFrom true s = 1 := by
    by_cases h2 : 2 ≤ groupsFrom true s
    · have := Nat.mul_le_mul_right initialMismatchPenalty h2
      have := penalty_pos
      omega
    · omega
  obtain ⟨k, j', m, hshape⟩ := shape_one_group .deletion .insertion (by simp) (by simp) (by simp) s hD hg1
  have hj : j' = j + 1 := by
    have : countOp .deletion s = j' := by
      rw [hshape]; simp [countOp, List.count_append, List.count_replicate]
    omega
  exact ⟨k, m, by rw [hshape, hj]⟩

variable [DecidableEq α]

/-- Pure insertion of the run `c :: b` between `pre` and `suf`. -/
theorem opsSpec_single_insertion (t : α) (pre suf : List α) (c : α) (b : List α) :
    ∃ k m, opsSpec (t :: (pre ++ suf)) (t :: (pre ++ (c :: b) ++ suf)) =
      List.replicate k .noOp ++ List.replicate (b.length + 1) .insertion ++ List.replicate m .noOp := by
  have hv := opsSpec_valid t (pre ++ suf) (pre ++ (c :: b) ++ suf)
  have ho := opsSpec_optimal t (pre ++ suf) (pre ++ (c :: b) ++ suf)
  have hcan : ValidScript
      (List.replicate (pre.length + 1) .noOp ++ List.replicate (b.length + 1) .insertion ++ List.replicate suf.length .noOp)
      (t :: (pre ++ suf)) (t :: (pre ++ (c :: b) ++ suf)) := by
    have h1 := ValidScript.ins_prefix (c :: b) (ValidScript.noops_self suf)
    have h2 := ValidScript.noops_prefix (t :: pre) h1
    simpa [List.append_assoc] using h2
  have hle := ho.2 _ hcan
  rw [← ho.1, scriptCost_canonical_ins] at hle
  exact cheap_script_shape_ins b.length hv (by simp; omega) hle

/-- Pure deletion of the run `c :: b`. -/
theorem opsSpec_single_deletion (t : α) (pre suf : List α) (c : α) (b : List α) :
    ∃ k m, opsSpec (t :: (pre ++ (c :: b) ++ suf)) (t :: (pre ++ suf)) =
      List.replicate k .noOp ++ List.replicate (b.length + 1) .deletion ++ List.replicate m .noOp := by
  have hv := opsSpec_valid t (pre ++ (c :: b) ++ suf) (pre ++ suf)
  have ho := opsSpec_optimal t (pre ++ (c :: b) ++ suf) (pre ++ suf)
  have hcan : ValidScript
      (List.replicate (pre.length + 1) .noOp ++ List.replicate (b.length + 1) .deletion ++ List.replicate suf.length .noOp)
      (t :: (pre ++ (c :: b) ++ suf)) (t :: (pre ++ suf)) := by
    have h1 := ValidScript.del_prefix (c :: b) (ValidScript.noops_self suf)
    have h2 := ValidScript.noops_prefix (t :: pre) h1
    simpa [List.append_assoc] using h2
  have hle := ho.2 _ hcan
  rw [← ho.1, scriptCost_canonical_del] at hle
  exact cheap_script_shape_del b.length hv (by simp; omega) hle

end Align
