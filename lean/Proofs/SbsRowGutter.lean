import DeltaModel.SbsRow
import Proofs.LineNumbersPad
/-
C07 helper (session 4 / T3): the rendered line-number gutter of one panel has, on every row,
exactly the width `formatted_width()` computes from the format strings and the hunk's maximal
line number — the width `available_line_width` subtracts from the panel.
-/
namespace SbsRow
open LineNumbers

/-- A parsed format element as `parse_line_number_format` builds it: the stored lengths are the
lengths, an element without placeholder has no width, placeholders are `{nm}` / `{np}`. -/
def WfPH (ph : PH) : Prop :=
  ph.preLen = ph.pre.length ∧ ph.sufLen = ph.suf.length ∧ (ph.ph = none → ph.width = none) ∧
  (ph.ph = none ∨ ph.ph = some 1 ∨ ph.ph = some 2)

instance (ph : PH) : Decidable (WfPH ph) := by unfold WfPH; exact inferInstance

/-- The number (if any) has at most `minW` digits (`hunk_max_line_number_width` is the digit count
of the largest number of the hunk: C05). -/
def FitsW (minW : Nat) : Option Nat → Prop
  | none => True
  | some n => (digits n).length ≤ minW

theorem formatLineNumber_length (n : Option Nat) (al : Align) (width minW : Nat) (hw : minW ≤ width)
    (hn : FitsW minW n) : (formatLineNumber n al width).length = width := by
  cases n with
  | none => simp [formatLineNumber]
  | some k =>
    obtain ⟨i, j, he, hs⟩ := pad_shape k width al
    simp only [formatLineNumber, he, List.length_append, List.length_replicate]
    simp only [FitsW] at hn
    omega

/-- Width of the number field of one element. -/
def fieldW (minW : Nat) (ph : PH) : Nat :=
  match ph.ph with
  | none => 0
  | some _ => match ph.width with | some w => max w minW | none => minW

theorem renderFieldGo_length (minW : Nat) (minus plus : Option Nat) (hm : FitsW minW minus) (hp : FitsW minW plus) :
    ∀ (fd : List PH) (acc suf : List Char), (∀ ph ∈ fd, WfPH ph) →
      (renderFieldGo minW minus plus fd acc suf).length =
        acc.length + (fd.map fun ph => ph.pre.length + fieldW minW ph).sum +
          (match fd.getLast? with | some l => l.suf.length | none => suf.length) := by
  intro fd
  induction fd with
  | nil => intro acc suf _; simp [renderFieldGo]
  | cons ph rest ih =>
    intro acc suf hwf
    have hph := hwf ph (by simp)
    simp only [renderFieldGo]
    rw [ih _ _ (fun q hq => hwf q (List.mem_cons_of_mem _ hq))]
    obtain ⟨_, _, _, h4⟩ := hph
    have hlast : (match rest.getLast? with | some l => l.suf.length | none => ph.suf.length) =
        (match (ph :: rest).getLast? with | some l => l.suf.length | none => suf.length) := by
      cases rest with
      | nil => simp
      | cons q rest' =>
        rw [List.getLast?_cons_cons]
        cases hq : (q :: rest').getLast? with
        | none => simp [List.getLast?_eq_none_iff] at hq
        | some l => rfl
    rw [hlast]
    simp only [List.length_append, List.map_cons, List.sum_cons]
    rcases h4 with h | h | h
    · simp only [h, fieldW, List.length_nil]; omega
    · cases hw : ph.width with
      | none =>
        simp only [h, hw, fieldW]
        rw [formatLineNumber_length _ _ minW minW (Nat.le_refl _) hm]; omega
      | some w =>
        simp only [h, hw, fieldW]
        rw [formatLineNumber_length _ _ (max w minW) minW (by omega) hm]; omega
    · cases hw : ph.width with
      | none =>
        simp only [h, hw, fieldW]
        rw [formatLineNumber_length _ _ minW minW (Nat.le_refl _) hp]; omega
      | some w =>
        simp only [h, hw, fieldW]
        rw [formatLineNumber_length _ _ (max w minW) minW (by omega) hp]; omega

theorem sum_map_concat (f : PH → Nat) (l : List PH) (x : PH) : ((l ++ [x]).map f).sum = (l.map f).sum + f x := by
  induction l with
  | nil => simp
  | cons a l ih => simp [ih]; omega

theorem sum_map_reverse (f : PH → Nat) (l : List PH) : (l.reverse.map f).sum = (l.map f).sum := by
  induction l with
  | nil => rfl
  | cons a l ih => simp only [List.reverse_cons, sum_map_concat, ih, List.map_cons, List.sum_cons]; omega

theorem phWidth_wf (minW : Nat) (ph : PH) (h : WfPH ph) :
    (phWidth minW ph).1 = ph.pre.length + fieldW minW ph ∧ (phWidth minW ph).2 = ph.suf.length := by
  obtain ⟨h1, h2, h3, h4⟩ := h
  have a : Generated.SbsRow.widthNoPlaceholder = 0 := rfl
  have b : Generated.SbsRow.widthNoWidth = 0 := rfl
  refine ⟨?_, h2⟩
  simp only [phWidth, fieldW, a, b, h1]
  rcases h4 with h | h | h
  · simp [h, h3 h]
  · simp only [h]; cases ph.width <;> simp <;> omega
  · simp only [h]; cases ph.width <;> simp <;> omega

/-- `formatted_width()` is the sum of prefixes and number fields plus the last suffix. -/
theorem formattedWidth_eq (minW : Nat) (fd : List PH) (hwf : ∀ ph ∈ fd, WfPH ph) :
    formattedWidth fd minW =
      (fd.map fun ph => ph.pre.length + fieldW minW ph).sum +
        (match fd.getLast? with | some l => l.suf.length | none => 0) := by
  rcases List.eq_nil_or_concat fd with rfl | ⟨init, last, rfl⟩
  · rfl
  · simp only [List.concat_eq_append] at hwf ⊢
    have hl : (init ++ [last]).getLast? = some last := by simp
    simp only [formattedWidth, hl, List.reverse_append, List.reverse_cons, List.reverse_nil, List.nil_append,
      List.singleton_append, List.drop_one, List.tail_cons]
    rw [sum_map_reverse, sum_map_concat]
    have hlast := phWidth_wf minW last (hwf last (by simp))
    have hinit : (init.map fun p => (phWidth minW p).1).sum = (init.map fun ph => ph.pre.length + fieldW minW ph).sum := by
      congr 1
      apply List.map_congr_left
      intro p hp
      exact (phWidth_wf minW p (hwf p (by simp [hp]))).1
    rw [hinit, hlast.1, hlast.2]

/-- **The gutter of a panel is as wide as `formatted_width()` says, on every row**: whatever
numbers are shown (or none), provided they have at most `hunk_max_line_number_width` digits. -/
theorem renderField_length (fd : List PH) (minW : Nat) (minus plus : Option Nat)
    (hwf : ∀ ph ∈ fd, WfPH ph) (hne : fd ≠ []) (hm : FitsW minW minus) (hp : FitsW minW plus) :
    (renderField fd minW minus plus).length = formattedWidth fd minW := by
  unfold renderField
  rw [renderFieldGo_length minW minus plus hm hp fd [] [] hwf, formattedWidth_eq minW fd hwf]
  cases h : fd.getLast? with
  | none => simp [List.getLast?_eq_none_iff] at h; exact absurd h hne
  | some l => simp

end SbsRow
