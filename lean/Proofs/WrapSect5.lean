import Proofs.WrapSect4
/-
C07 helper (sectioning independence, part 5): whole runs, and the rows they return.
-/
namespace Wrap

theorem fine_eq_nil {gs : List G} : fine gs = [] ↔ gs = [] := by
  cases gs <;> simp [fine]

/-- The run on the line and the run on its finest sectioning stop together. -/
theorem sim_done {fx : Fixes} {cfg : Cfg} {sym lw : Nat} {line : List Sec}
    (H : SimHyp fx cfg lw (flatG line)) {stM stF : St} {stop : Stop}
    (hrel : Rel stM stF) (hi : MInv fx cfg sym lw line stM)
    (hd : step fx cfg sym lw stM = .done stop) : step fx cfg sym lw stF = .done stop := by
  obtain ⟨rres, rcur, rlen, rstk⟩ := hrel
  have hreslen : stM.result.length = stF.result.length := by
    have := congrArg List.length rres
    simpa using this
  cases stop with
  | stackEmpty =>
    have := step_done_stackEmpty hd
    rw [this] at rstk
    unfold step
    rw [rstk]
    rfl
  | lineLimit =>
    obtain ⟨hs, hcase⟩ := step_done_lineLimit hd
    rcases hcase with hlim | ⟨hnl, style, gs, rest, hstack, hss, hu, hc, hno⟩
    · have hne : flatG stM.stack ≠ [] := fun h => hs (flatG_eq_nil_of_noEmpty hi.noEmpty h)
      obtain ⟨c, b, hcb⟩ := List.exists_cons_of_ne_nil hne
      unfold step
      rw [rstk, hcb, fine_cons]
      simp only [← hreslen, hlim, if_true]
    · -- stuck stop: only without `Fits`
      exfalso
      have hgs : gs ≠ [] := hi.noEmpty (style, gs) (by rw [hstack]; simp)
      obtain ⟨c, gs', rfl⟩ := List.exists_cons_of_ne_nil hgs
      have h2 := lw_ge_two_of_not_limit hnl
      have hl0 : stM.len = 0 := by rw [← hi.invL.len, hc]; rfl
      have hfs : ∀ g' ∈ c :: gs', g'.w + cfg.leftSym.w ≤ lw := by
        intro g' hg'
        apply H.fits
        apply hi.sufF.subset
        rw [hstack, flatG_cons]
        exact List.mem_append_left _ hg'
      -- the section had to be split
      have hge : lw ≤ gsWidth (c :: gs') := by
        unfold step at hd
        rw [hstack] at hd
        simp only [hnl, hl0, Nat.zero_add, Bool.false_eq_true, if_false] at hd
        by_cases hlt : gsWidth (c :: gs') < lw
        · simp [hlt] at hd
        · omega
      have := first_fits_of_fits hfs hge h2
      rw [hl0] at hno
      simp only [firstW] at hno
      omega

/-- Whole runs: the states in which the two loops stop are related. -/
theorem sim_loop {fx : Fixes} {cfg : Cfg} {sym lw : Nat} {line : List Sec}
    (H : SimHyp fx cfg lw (flatG line)) :
    ∀ (fuel : Nat) (stM stF stM' : St) (stop : Stop),
      Rel stM stF → MInv fx cfg sym lw line stM →
      loop fx cfg sym lw fuel stM = some (stM', stop) →
      ∃ stF', Steps fx cfg sym lw stF stF' ∧ Rel stM' stF' ∧ MInv fx cfg sym lw line stM' ∧
        step fx cfg sym lw stF' = .done stop := by
  intro fuel
  induction fuel with
  | zero => intro stM stF stM' stop _ _ h; simp [loop] at h
  | succ n ih =>
    intro stM stF stM' stop hrel hi h
    unfold loop at h
    split at h
    · rename_i s hs
      cases h
      exact ⟨stF, Steps.refl _, hrel, hi, sim_done H hrel hi hs⟩
    · rename_i st2 hs
      have hstep := step_next hs
      obtain ⟨stF2, hsteps, hrel2⟩ := sim_step H hrel hi hstep
      obtain ⟨stF', hsteps', hrel', hi', hd'⟩ := ih st2 stF2 stM' stop hrel2 (mInv_step H.sym1 hi hstep) h
      exact ⟨stF', Steps.trans hsteps hsteps', hrel', hi', hd'⟩

/-- Row contents of the value `wrap_line` returns: clusters per row, inserted sections
removed. -/
def rowContents (o : Out) : List (List G) :=
  (o.rows.take o.nSym).map contentRow ++ (o.rows.drop o.nSym).map (fun r => flatG (r.drop o.nPad))

/-- The row contents are determined by what the simulation relation preserves. -/
theorem rowContents_of_shape {cfg : Cfg} {fill sym lw : Nat} {st : St} {stop : Stop} {o : Out}
    (h : FinishShape cfg fill sym lw st stop o) :
    rowContents o = st.result.map contentRow ++
      (match stop with
       | .stackEmpty => if 0 < st.len then [flatG st.curr] else []
       | .lineLimit => [flatG st.stack]) ∧ o.nSym = st.result.length ∧ o.stop = stop := by
  cases h with
  | plain h0 hs => simp [rowContents, h0]
  | dropped h0 hs => simp [rowContents, h0]
  | right r hr hne h0 hs hlw hpm hpad =>
    simp only [rowContents, h0, if_true, hr]
    simp [contentRow, setLastText_dropLast]
  | limit hs => simp [rowContents]

theorem rel_init (line : List Sec) : Rel (initSt line) (initSt (fine (flatG line))) :=
  ⟨rfl, rfl, rfl, rfl⟩

theorem nlZero_fine {line : List Sec} (hz : NlZero line) : NlZero (fine (flatG line)) := by
  intro sec hsec g hg hs
  simp only [fine, List.mem_map] at hsec
  obtain ⟨g', hg', rfl⟩ := hsec
  simp at hg
  subst hg
  simp only [flatG, List.mem_flatMap] at hg'
  obtain ⟨s, hs', hgs⟩ := hg'
  exact hz s hs' g hgs hs

theorem clusterCount_eq (secs : List Sec) : clusterCount secs = (flatG secs).length := by
  induction secs with
  | nil => rfl
  | cons s r ih => simp [clusterCount, flatG_cons, ih]

/-- **Sectioning independence against the finest sectioning.** -/
theorem wrap_vs_fine {fx : Fixes} {cfg : Cfg} {line : List Sec} {lw fill : Nat} {hint : Option Nat}
    {o1 o2 : Out} (H : SimHyp fx cfg lw (flatG line)) (hz : NlZero line) (hne : NoEmptySec line)
    (h1 : wrapFullF fx cfg line lw fill hint = .ok o1)
    (h2 : wrapFullF fx cfg (fine (flatG line)) lw fill hint = .ok o2) :
    rowContents o1 = rowContents o2 ∧ o1.nSym = o2.nSym ∧ o1.stop = o2.stop := by
  obtain ⟨stM, stopM, hloopM, hfinM⟩ := wrapFull_loop h1
  obtain ⟨stF, stopF, hloopF, hfinF⟩ := wrapFull_loop h2
  obtain ⟨aM, bM, _, _, hdM⟩ := loop_spec hz hloopM
  obtain ⟨aF, bF, _, _, hdF⟩ := loop_spec (nlZero_fine hz) hloopF
  have hshM := finish_shape aM bM.nonempty hdM hfinM
  have hshF := finish_shape aF bF.nonempty hdF hfinF
  obtain ⟨stF', hsteps, hrel, _, hdF'⟩ := sim_loop (sym := symStyleOf fill hint) H _ _ _ _ _ (rel_init line)
    (mInv_init fx cfg _ lw line hz hne) hloopM
  obtain ⟨hstepsF, _⟩ := loop_steps _ _ _ _ hloopF
  obtain ⟨heq, hstop⟩ := steps_done_unique hsteps hdF' hstepsF hdF
  subst heq
  subst hstop
  obtain ⟨c1, n1, s1⟩ := rowContents_of_shape hshM
  obtain ⟨c2, n2, s2⟩ := rowContents_of_shape hshF
  obtain ⟨rres, rcur, rlen, rstk⟩ := hrel
  have hreslen : stM.result.length = stF'.result.length := by
    have := congrArg List.length rres
    simpa using this
  refine ⟨?_, by rw [n1, n2, hreslen], by rw [s1, s2]⟩
  rw [c1, c2, rres]
  congr 1
  cases stopM with
  | stackEmpty => simp only [rlen, rcur]
  | lineLimit => simp only [rstk, flatG_fine]

end Wrap
