import DeltaModel.Options
import Proofs.OptionsFuel
/-!
C13 helper: depth-first traversal with a visited list = first-occurrence de-duplication of
the pre-order traversal of the unfolded tree, for graphs with a rank function (acyclic).
The deque representation is the model's: head = most recently visited.
-/
namespace Options

theorem foldl_filter' {α : Type} (p : α → Bool) (F : List Name → α → List Name) (l : List α)
    (a : List Name) :
    (l.filter p).foldl F a = l.foldl (fun a c => if p c then F a c else a) a := by
  induction l generalizing a with
  | nil => rfl
  | cons x xs ih =>
    by_cases hx : p x
    · simp [hx, ih]
    · simp [hx, ih]

/-- Depth-first traversal, skipping visited names; `acc` = visited, most recent first. -/
def dfs (ch : Name → List Name) : Nat → Name → List Name → List Name
  | 0, _, acc => acc
  | n + 1, f, acc =>
    if acc.contains f then acc else (ch f).foldl (fun a c => dfs ch n c a) (f :: acc)

/-! ### `dedupFrom` -/

theorem dedupFrom_cons_pos {s : List Name} {x : Name} (xs : List Name) (h : x ∈ s) :
    dedupFrom s (x :: xs) = dedupFrom s xs := by
  have e1 : s.contains x = true := by simpa using h
  rw [dedupFrom, if_pos e1]

theorem dedupFrom_cons_neg {s : List Name} {x : Name} (xs : List Name) (h : x ∉ s) :
    dedupFrom s (x :: xs) = x :: dedupFrom (x :: s) xs := by
  have e1 : ¬ (s.contains x = true) := by simpa using h
  rw [dedupFrom, if_neg e1]

theorem flatMap_congr' {α β : Type} {f g : α → List β} (l : List α) (h : ∀ x ∈ l, f x = g x) :
    l.flatMap f = l.flatMap g := by
  induction l with
  | nil => rfl
  | cons x xs ih =>
    simp only [List.flatMap_cons]
    rw [h x List.mem_cons_self, ih (fun y hy => h y (List.mem_cons_of_mem _ hy))]

theorem dedupFrom_congr (l : List Name) : ∀ (s s' : List Name), (∀ x, x ∈ s ↔ x ∈ s') →
    dedupFrom s l = dedupFrom s' l := by
  induction l with
  | nil => intro s s' _; rfl
  | cons x xs ih =>
    intro s s' h
    unfold dedupFrom
    by_cases hx : x ∈ s
    · have hx' : x ∈ s' := (h x).mp hx
      have e1 : s.contains x = true := by simpa using hx
      have e2 : s'.contains x = true := by simpa using hx'
      simp only [e1, e2, ↓reduceIte]
      exact ih s s' h
    · have hx' : x ∉ s' := fun h' => hx ((h x).mpr h')
      have e1 : s.contains x = false := by simpa using hx
      have e2 : s'.contains x = false := by simpa using hx'
      simp only [e1, e2, Bool.false_eq_true, ↓reduceIte]
      congr 1
      apply ih
      intro y
      simp only [List.mem_cons]
      constructor
      · rintro (h1 | h1)
        · exact Or.inl h1
        · exact Or.inr ((h y).mp h1)
      · rintro (h1 | h1)
        · exact Or.inl h1
        · exact Or.inr ((h y).mpr h1)

theorem mem_dedupFrom (l : List Name) : ∀ (s : List Name) (x : Name),
    x ∈ dedupFrom s l ↔ x ∈ l ∧ x ∉ s := by
  induction l with
  | nil => intro s x; simp [dedupFrom]
  | cons y ys ih =>
    intro s x
    unfold dedupFrom
    by_cases hy : y ∈ s
    · have e1 : s.contains y = true := by simpa using hy
      simp only [e1, ↓reduceIte, ih, List.mem_cons]
      constructor
      · rintro ⟨h1, h2⟩; exact ⟨Or.inr h1, h2⟩
      · rintro ⟨h1 | h1, h2⟩
        · subst h1; exact absurd hy h2
        · exact ⟨h1, h2⟩
    · have e1 : s.contains y = false := by simpa using hy
      simp only [e1, Bool.false_eq_true, ↓reduceIte, List.mem_cons, ih]
      constructor
      · rintro (h1 | ⟨h1, h2⟩)
        · subst h1; exact ⟨Or.inl rfl, hy⟩
        · exact ⟨Or.inr h1, fun h3 => h2 (Or.inr h3)⟩
      · rintro ⟨h1 | h1, h2⟩
        · exact Or.inl h1
        · by_cases hxy : x = y
          · exact Or.inl hxy
          · refine Or.inr ⟨h1, ?_⟩
            rintro (h3 | h3)
            · exact hxy h3
            · exact h2 h3

theorem dedupFrom_append (l₁ : List Name) : ∀ (s l₂ : List Name),
    dedupFrom s (l₁ ++ l₂) = dedupFrom s l₁ ++ dedupFrom ((dedupFrom s l₁).reverse ++ s) l₂ := by
  induction l₁ with
  | nil => intro s l₂; simp [dedupFrom]
  | cons x xs ih =>
    intro s l₂
    simp only [List.cons_append]
    by_cases hx : x ∈ s
    · rw [dedupFrom_cons_pos _ hx, dedupFrom_cons_pos _ hx]
      exact ih s l₂
    · rw [dedupFrom_cons_neg _ hx, dedupFrom_cons_neg _ hx, ih (x :: s) l₂]
      simp only [List.cons_append, List.reverse_cons, List.append_assoc, List.nil_append]

theorem dedupFrom_all_mem (l : List Name) (s : List Name) (h : ∀ x ∈ l, x ∈ s) :
    dedupFrom s l = [] := by
  induction l with
  | nil => rfl
  | cons x xs ih =>
    rw [dedupFrom_cons_pos _ (h x List.mem_cons_self)]
    exact ih (fun y hy => h y (List.mem_cons_of_mem _ hy))

/-- De-duplicating twice against the same set changes nothing. -/
theorem dedupFrom_idem (l : List Name) : ∀ (s : List Name),
    dedupFrom s (dedupFrom s l) = dedupFrom s l := by
  induction l with
  | nil => intro s; rfl
  | cons x xs ih =>
    intro s
    by_cases hx : x ∈ s
    · rw [dedupFrom_cons_pos _ hx]
      exact ih s
    · rw [dedupFrom_cons_neg _ hx, dedupFrom_cons_neg _ hx]
      congr 1
      exact ih (x :: s)

/-! ### Pre-order, rank -/

section Graph
variable (ch : Name → List Name) (rank : Name → Nat)
variable (hdec : ∀ f c, c ∈ ch f → rank c < rank f)

/-- Visited names of rank below `r` have all their children visited. -/
def Inv (acc : List Name) (r : Nat) : Prop :=
  ∀ v ∈ acc, rank v < r → ∀ c ∈ ch v, c ∈ acc

include hdec in
theorem rank_preorder : ∀ (k : Nat) (f x : Name), x ∈ preorder ch k f → rank x ≤ rank f := by
  intro k
  induction k with
  | zero => intro f x hx; simp [preorder] at hx; subst hx; exact Nat.le_refl _
  | succ k ih =>
    intro f x hx
    simp only [preorder, List.mem_cons, List.mem_flatMap] at hx
    rcases hx with rfl | ⟨c, hc, hxc⟩
    · exact Nat.le_refl _
    · have := ih c x hxc
      have := hdec f c hc
      omega

include hdec in
theorem closed_preorder (acc : List Name) (r : Nat) (hinv : Inv ch rank acc r) :
    ∀ (k : Nat) (f : Name), f ∈ acc → rank f < r → ∀ x ∈ preorder ch k f, x ∈ acc := by
  intro k
  induction k with
  | zero => intro f hf _ x hx; simp [preorder] at hx; subst hx; exact hf
  | succ k ih =>
    intro f hf hr x hx
    simp only [preorder, List.mem_cons, List.mem_flatMap] at hx
    rcases hx with rfl | ⟨c, hc, hxc⟩
    · exact hf
    · have hcr := hdec f c hc
      exact ih c (hinv f hf hr c hc) (by omega) x hxc

theorem self_mem_preorder (k : Nat) (f : Name) : f ∈ preorder ch k f := by
  cases k <;> simp [preorder]

include hdec in
/-- With enough depth the unfolding is independent of the depth. -/
theorem preorder_fuel : ∀ (n m : Nat) (f : Name), rank f < n → rank f < m →
    preorder ch n f = preorder ch m f := by
  intro n
  induction n with
  | zero => intro m f h; omega
  | succ n ih =>
    intro m f hn hm
    obtain ⟨m, rfl⟩ : ∃ m', m = m' + 1 := ⟨m - 1, by omega⟩
    simp only [preorder]
    congr 1
    apply flatMap_congr'
    intro c hc
    have := hdec f c hc
    exact ih m c (by omega) (by omega)

include hdec in
theorem dfs_fuel : ∀ (n m : Nat) (f : Name) (acc : List Name), rank f < n → rank f < m →
    dfs ch n f acc = dfs ch m f acc := by
  intro n
  induction n with
  | zero => intro m f acc h; omega
  | succ n ih =>
    intro m f acc hn hm
    obtain ⟨m, rfl⟩ : ∃ m', m = m' + 1 := ⟨m - 1, by omega⟩
    simp only [dfs]
    by_cases hc : f ∈ acc
    · simp [hc]
    · have hc' : acc.contains f = false := by simpa using hc
      simp only [hc', Bool.false_eq_true, ↓reduceIte]
      exact foldl_congr_pointwise _ (fun c hcm a => by
        have := hdec f c hcm
        exact ih m c a (by omega) (by omega)) _

include hdec in
/-- **DFS = de-duplicated pre-order.** -/
theorem dfs_spec : ∀ (n : Nat) (f : Name) (acc : List Name) (r : Nat),
    rank f < r → rank f < n → Inv ch rank acc r →
      dfs ch n f acc = (dedupFrom acc (preorder ch n f)).reverse ++ acc ∧
      Inv ch rank (dfs ch n f acc) r := by
  intro n
  induction n with
  | zero => intro f acc r _ h; omega
  | succ n ih =>
    intro f acc r hr hn hinv
    -- the fold over a list of children
    have hfold : ∀ (cs : List Name) (a : List Name) (r' : Nat),
        (∀ c ∈ cs, rank c < r' ∧ rank c < n) → Inv ch rank a r' →
        cs.foldl (fun a c => dfs ch n c a) a =
          (dedupFrom a (cs.flatMap (preorder ch n))).reverse ++ a ∧
        Inv ch rank (cs.foldl (fun a c => dfs ch n c a) a) r' := by
      intro cs
      induction cs with
      | nil => intro a r' _ ha; exact ⟨by simp [dedupFrom], ha⟩
      | cons c cs ihc =>
        intro a r' hcs ha
        have hc := hcs c List.mem_cons_self
        have h1 := ih c a r' hc.1 hc.2 ha
        have h2 := ihc (dfs ch n c a) r' (fun c' hc' => hcs c' (List.mem_cons_of_mem _ hc')) h1.2
        simp only [List.foldl_cons, List.flatMap_cons]
        refine ⟨?_, h2.2⟩
        rw [h2.1, dedupFrom_append, h1.1]
        simp [List.reverse_append, List.append_assoc]
    simp only [dfs]
    by_cases hf : f ∈ acc
    · have e1 : acc.contains f = true := by simpa using hf
      simp only [e1, ↓reduceIte]
      refine ⟨?_, hinv⟩
      rw [dedupFrom_all_mem _ _ (closed_preorder ch rank hdec acc r hinv (n + 1) f hf hr)]
      rfl
    · have e1 : acc.contains f = false := by simpa using hf
      simp only [e1, Bool.false_eq_true, ↓reduceIte]
      have hinv0 : Inv ch rank (f :: acc) (rank f) := by
        intro v hv hvr c hc
        cases hv with
        | head => omega
        | tail _ hv' => exact List.mem_cons_of_mem _ (hinv v hv' (by omega) c hc)
      have hF := hfold (ch f) (f :: acc) (rank f)
        (fun c hc => by have := hdec f c hc; exact ⟨this, by omega⟩) hinv0
      have hpre : preorder ch (n + 1) f = f :: (ch f).flatMap (preorder ch n) := rfl
      have hdd : dedupFrom acc (preorder ch (n + 1) f) =
          f :: dedupFrom (f :: acc) ((ch f).flatMap (preorder ch n)) := by
        rw [hpre, dedupFrom_cons_neg _ hf]
      refine ⟨?_, ?_⟩
      · rw [hF.1, hdd]
        simp [List.reverse_cons, List.append_assoc]
      · -- the invariant at level r
        intro v hv hvr c hc
        rw [hF.1] at hv ⊢
        simp only [List.mem_append, List.mem_reverse, List.mem_cons, mem_dedupFrom] at hv ⊢
        rcases hv with ⟨hvpre, hvn⟩ | rfl | hvacc
        · -- a new descendant of f: rank below rank f, closed by the fold's invariant
          have hvrank : rank v < rank f := by
            obtain ⟨c', hc', hvc'⟩ := List.mem_flatMap.mp hvpre
            have h1 := rank_preorder ch rank hdec n c' v hvc'
            have h2 := hdec f c' hc'
            omega
          have hvmem : v ∈ (ch f).foldl (fun a c => dfs ch n c a) (f :: acc) := by
            rw [hF.1]
            simp only [List.mem_append, List.mem_reverse, mem_dedupFrom]
            exact Or.inl ⟨hvpre, by simpa using hvn⟩
          have := hF.2 v hvmem hvrank c hc
          rw [hF.1] at this
          simpa only [List.mem_append, List.mem_reverse, List.mem_cons, mem_dedupFrom] using this
        · -- f itself: every child heads its own pre-order
          have hcr := hdec v c hc
          have hcpre : c ∈ (ch v).flatMap (preorder ch n) :=
            List.mem_flatMap.mpr ⟨c, hc, self_mem_preorder ch n c⟩
          by_cases hcs : c ∈ v :: acc
          · exact Or.inr (List.mem_cons.mp hcs)
          · exact Or.inl ⟨hcpre, by simpa using hcs⟩
        · exact Or.inr (Or.inr (hinv v hvacc hvr c hc))

end Graph

theorem dfs_sub (ch : Name → List Name) : ∀ (n : Nat) (f : Name) (acc : List Name),
    ∀ x, x ∈ acc → x ∈ dfs ch n f acc := by
  intro n
  induction n with
  | zero => intro f acc x hx; exact hx
  | succ n ih =>
    intro f acc x hx
    simp only [dfs]
    by_cases hc : f ∈ acc
    · simpa [hc] using hx
    · have hc' : acc.contains f = false := by simpa using hc
      simp only [hc', Bool.false_eq_true, ↓reduceIte]
      have : ∀ (cs : List Name) (a : List Name), x ∈ a → x ∈ cs.foldl (fun a c => dfs ch n c a) a := by
        intro cs
        induction cs with
        | nil => intro a h; exact h
        | cons c cs ihc => intro a h; exact ihc _ (ih c a x h)
      exact this _ _ (List.mem_cons_of_mem _ hx)

/-- The children function without self-loops. -/
def noSelf (ch : Name → List Name) (f : Name) : List Name := (ch f).filter (· ≠ f)

/-- A self-loop is never followed (the name is in the deque when its children are visited). -/
theorem dfs_noSelf (ch : Name → List Name) : ∀ (n : Nat) (f : Name) (acc : List Name),
    dfs ch n f acc = dfs (noSelf ch) n f acc := by
  intro n
  induction n with
  | zero => intro f acc; rfl
  | succ n ih =>
    intro f acc
    simp only [dfs]
    by_cases hc : f ∈ acc
    · simp [hc]
    · have hc' : acc.contains f = false := by simpa using hc
      simp only [hc', Bool.false_eq_true, ↓reduceIte]
      unfold noSelf
      rw [foldl_filter']
      have s := foldl_agree
        (F := fun a c => dfs ch n c a)
        (G := fun a c => if decide (c ≠ f) then dfs (fun f => (ch f).filter (· ≠ f)) n c a else a)
        (fun a => f ∈ a) (ch f)
        (fun c _ a ha => by
          by_cases hcf : c = f
          · subst hcf
            have e1 : a.contains c = true := by simpa using ha
            have : dfs ch n c a = a := by
              cases n with
              | zero => rfl
              | succ n => rw [dfs, if_pos e1]
            simp [this, ha]
          · have := ih c a
            unfold noSelf at this
            simp only [ne_eq, hcf, not_false_eq_true, decide_true, ↓reduceIte]
            rw [this]
            exact ⟨rfl, dfs_sub _ n c a f ha⟩)
        (f :: acc) List.mem_cons_self
      exact s.1

/-- Two children functions that agree on a set closed under the first give the same traversal
    from inside the set. -/
theorem dfs_congr_on (ch₁ ch₂ : Name → List Name) (S : Name → Prop)
    (hclosed : ∀ f, S f → ∀ c ∈ ch₁ f, S c) (heq : ∀ f, S f → ch₁ f = ch₂ f) :
    ∀ (n : Nat) (f : Name) (acc : List Name), S f → dfs ch₁ n f acc = dfs ch₂ n f acc := by
  intro n
  induction n with
  | zero => intro f acc _; rfl
  | succ n ih =>
    intro f acc hf
    simp only [dfs]
    by_cases hc : f ∈ acc
    · simp [hc]
    · have hc' : acc.contains f = false := by simpa using hc
      simp only [hc', Bool.false_eq_true, ↓reduceIte]
      rw [← heq f hf]
      exact foldl_congr_pointwise _ (fun c hcm a => ih c a (hclosed f hf c hcm)) _

end Options
