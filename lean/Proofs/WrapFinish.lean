import Proofs.WrapLossless
/-
C07 helper: the code after the loop of `wrap_line` (`finish`) case by case.
-/
namespace Wrap

/-- Decoder: remove the inserted sections (the last section of each of the first `nSym`
rows, the first `nPad` sections of the row after them) and concatenate. -/
def unwrapOut (o : Out) : List Sec :=
  (o.rows.take o.nSym).flatMap List.dropLast ++ ((o.rows.drop o.nSym).flatten).drop o.nPad

theorem modifyLast_concat (f : Row → Row) (l : List Row) (r : Row) :
    modifyLast f (l ++ [r]) = l ++ [f r] := by
  induction l with
  | nil => simp [modifyLast]
  | cons a l ih =>
    cases l with
    | nil => simp [modifyLast]
    | cons b l => simp only [List.cons_append] at ih ⊢; simp [modifyLast, ih]

theorem setLastText_dropLast (g : G) (r : Row) : (setLastText g r).dropLast = r.dropLast := by
  unfold setLastText
  split
  · rfl
  · simp

theorem setLastText_concat (g : G) (r : Row) (st : Nat) (t : List G) :
    setLastText g (r ++ [(st, t)]) = r ++ [(st, [g])] := by
  simp [setLastText]

/-- The three shapes of what `finish` returns. -/
inductive FinishShape (cfg : Cfg) (fill sym lw : Nat) (st : St) : Stop → Out → Prop
  /-- stack empty, the current row has text, no right-alignment -/
  | plain (h0 : 0 < st.len) (hs : st.stack = []) :
      FinishShape cfg fill sym lw st .stackEmpty
        { rows := st.result ++ [st.curr], nSym := st.result.length, nPad := 0, stop := .stackEmpty }
  /-- stack empty, nothing (of positive width) on the current row: it is dropped -/
  | dropped (h0 : st.len = 0) (hs : st.stack = []) :
      FinishShape cfg fill sym lw st .stackEmpty
        { rows := st.result, nSym := st.result.length, nPad := 0, stop := .stackEmpty }
  /-- exactly one wrapped row, second row right-aligned -/
  | right (r : Row) (hr : st.result = [r]) (hne : r ≠ []) (h0 : 0 < st.len) (hs : st.stack = [])
      (hlw : lw ≠ 0)
      (hpm : (st.len * Generated.permilleFactor) / lw < cfg.permille)
      (hpad : 0 < lw - (st.len + cfg.rightPrefixSym.w)) :
      FinishShape cfg fill sym lw st .stackEmpty
        { rows := [setLastText cfg.rightSym r,
                   padSecs fill (lw - (st.len + cfg.rightPrefixSym.w)) ++ (sym, [cfg.rightPrefixSym]) :: st.curr],
          nSym := 1,
          nPad := (padSecs fill (lw - (st.len + cfg.rightPrefixSym.w))).length + 1, stop := .stackEmpty }
  /-- line limit: the rest of the stack becomes the last row -/
  | limit (hs : st.stack ≠ []) :
      FinishShape cfg fill sym lw st .lineLimit
        { rows := st.result ++ [st.stack], nSym := st.result.length, nPad := 0, stop := .lineLimit }

/-- Rows of `result` are never empty (each ends with the wrap symbol). -/
def ResultNonempty (st : St) : Prop := ∀ r ∈ st.result, r ≠ []

theorem finish_shape {fx : Fixes} {cfg : Cfg} {fill sym lw : Nat} {line : List Sec} {st : St} {stop : Stop} {o : Out}
    (hi : InvL cfg lw line st) (hne : ResultNonempty st)
    (hd : step fx cfg sym lw st = .done stop)
    (hf : finish cfg fill sym lw st stop = .ok o) : FinishShape cfg fill sym lw st stop o := by
  cases stop with
  | stackEmpty =>
    have hs := step_done_stackEmpty hd
    unfold finish rightAlign at hf
    by_cases h1 : st.result.length = 1 ∧ 0 < st.len
    · rw [if_pos h1] at hf
      by_cases hlw : lw = 0
      · simp [hlw] at hf
      · rw [if_neg hlw] at hf
        simp only at hf
        by_cases h2 : (st.len * Generated.permilleFactor) / lw < cfg.permille ∧ 0 < lw - (st.len + cfg.rightPrefixSym.w)
        · rw [if_pos h2] at hf
          match hres : st.result, h1.1 with
          | [r], _ =>
            rw [hres] at hf
            simp only at hf
            have hrne : r ≠ [] := hne r (by rw [hres]; simp)
            rw [if_neg hrne] at hf
            simp [h1.2, hs] at hf
            subst hf
            exact FinishShape.right r hres hrne h1.2 hs hlw h2.1 h2.2
        · rw [if_neg h2] at hf
          simp [h1.2, hs] at hf
          subst hf
          exact FinishShape.plain h1.2 hs
    · rw [if_neg h1] at hf
      by_cases h0 : 0 < st.len
      · simp [h0, hs] at hf
        subst hf
        exact FinishShape.plain h0 hs
      · simp [h0, hs] at hf
        subst hf
        exact FinishShape.dropped (by omega) hs
  | lineLimit =>
    obtain ⟨hs, hcase⟩ := step_done_lineLimit hd
    -- the current row is empty, and the number of rows is not yet the limit (or there is none)
    have hfacts : st.curr = [] ∧ st.len = 0 ∧ (st.result.length ≠ effMax cfg lw ∨ st.result = []) := by
      rcases hcase with hlim | ⟨_, style, gs, rest, _, hst⟩
      · obtain ⟨hc, hl0⟩ := hi.fresh hlim
        have hpos : 0 < effMax cfg lw := by
          unfold limitReached at hlim; simp at hlim; exact hlim.1
        have hcnt := hi.count hpos
        exact ⟨hc, hl0, Or.inl (by omega)⟩
      · obtain ⟨_, hu, hc, _⟩ := hst
        have hl0 : st.len = 0 := by rw [← hi.len, hc]; rfl
        refine ⟨hc, hl0, ?_⟩
        by_cases hr : st.result = []
        · exact Or.inr hr
        · left
          rw [hu]
          intro h0
          exact hr (List.eq_nil_of_length_eq_zero h0)
    obtain ⟨hc, hl0, hcnt⟩ := hfacts
    unfold finish rightAlign at hf
    have h1 : ¬ (st.result.length = 1 ∧ 0 < st.len) := by omega
    rw [if_neg h1] at hf
    rcases hcnt with hne' | hnil
    · simp [hl0, hne', hs, modifyLast_concat] at hf
      subst hf
      exact FinishShape.limit hs
    · by_cases hne' : st.result.length ≠ effMax cfg lw
      · simp [hl0, hne', hs, modifyLast_concat] at hf
        subst hf
        exact FinishShape.limit hs
      · have heq : st.result.length = effMax cfg lw := by omega
        have h0 : 0 = effMax cfg lw := by rw [← heq, hnil]; rfl
        simp [hl0, hs, hnil, h0.symm, modifyLast] at hf
        subst hf
        have := FinishShape.limit (cfg := cfg) (fill := fill) (sym := sym) (lw := lw) (st := st) hs
        rw [hnil] at this
        simpa using this

end Wrap
