import Proofs.TermTrunc
import DeltaModel.PaintLine
/-! The line that `paint_lines` writes (`PaintLine.paintedLine`, built by the model from sections, styles and the fill
decision) is self-contained — for every push order, every arm table and every if-chain the interpreters of
`DeltaModel/PaintLine.lean` understand: each of them only ever concatenates neutral texts painted in well-formed styles
and applies one of the three line transformers. -/
namespace PaintLineProofs
open Term Sgr SgrTerm Line LineProofs PaintLine

/-- The Config styles are Rust values. -/
def Cfg.wf (cfg : Cfg) : Prop :=
  Style.wf cfg.minusStyle ∧ Style.wf cfg.zeroStyle ∧ Style.wf cfg.plusStyle ∧ Style.wf cfg.minusNonEmph ∧
  Style.wf cfg.plusNonEmph ∧ Style.wf cfg.nullStyle

def clustersOk (gs : List G) : Prop := ∀ g ∈ gs, ESC ∉ g.s

def PPiece.ok : PPiece → Prop
  | .plain gs => clustersOk gs
  | .linked u gs => ESC ∉ u ∧ BEL ∉ u ∧ clustersOk gs

/-- **What is assumed of the input of a painted line**: styles are Rust values; no text — of a line-number field, of a
merge prefix, of a section — contains ESC (a hyperlink target neither ESC nor BEL). Nothing is assumed about widths. -/
def Input.ok (inp : Input) : Prop :=
  (∀ x ∈ inp.gutter, Style.wf x.1 ∧ PPiece.ok x.2) ∧
  (∀ x ∈ inp.sections, Style.wf x.1 ∧ clustersOk x.2) ∧
  (∀ x ∈ inp.diffSections, Style.wf x.1) ∧
  (∀ s, inp.emptyStyle = some s → Style.wf s) ∧
  (∀ sg r p, inp.st = .hunk sg r (some p) → ESC ∉ p)

theorem gchars_noesc (gs : List G) (h : clustersOk gs) : ESC ∉ gchars gs := by
  simp only [gchars, List.mem_flatMap, not_exists, not_and]
  intro g hg
  exact h g hg

theorem neutral_piece (p : PPiece) (h : PPiece.ok p) : Neutral p.toPiece.chars := by
  cases p with
  | plain gs => exact neutral_text _ (gchars_noesc gs h)
  | linked u gs => exact neutral_link u _ h.1 h.2.1 (gchars_noesc gs h.2.2)

/-- `ANSIStrings` over well-formed styles and ESC-free pieces is self-contained. -/
theorem strings_selfContained (xs : List (Sgr.Style × PPiece)) (h : ∀ x ∈ xs, Style.wf x.1 ∧ PPiece.ok x.2) :
    selfContained (Line.paintLine (toPieces xs)) := by
  unfold Line.paintLine toPieces
  apply selfContained_renderStrings
  · intro x hx
    simp only [List.map_map, List.mem_map, Function.comp] at hx
    obtain ⟨y, hy, rfl⟩ := hx
    exact (h y hy).1
  · intro x hx
    simp only [List.map_map, List.mem_map, Function.comp] at hx
    obtain ⟨y, hy, rfl⟩ := hx
    exact neutral_piece y.2 (h y hy).2

/-! ### `painted_prefix` -/

theorem cfgStyleOf_wf (cfg : Cfg) (h : Cfg.wf cfg) (n : String) (s : Sgr.Style) (hs : cfgStyleOf cfg n = some s) :
    Style.wf s := by
  obtain ⟨h1, h2, h3, h4, h5, h6⟩ := h
  unfold cfgStyleOf at hs
  repeat' split at hs
  all_goals first | (cases hs; assumption) | (exact absurd hs (by simp))

theorem prefixText_ok (st : St) (hp : ∀ sg r p, st = .hunk sg r (some p) → ESC ∉ p) (t : String) (v : List Char)
    (h : prefixText st t = some v) : ESC ∉ v := by
  unfold prefixText at h
  split at h
  · cases st with
    | hunk sg r mp =>
      cases mp with
      | none => simp at h
      | some p =>
        simp only [Option.some.injEq] at h
        subst h
        exact hp sg r _ rfl
    | wrapped _ => simp at h
    | blame => simp at h
    | other => simp at h
  split at h
  · cases h; decide
  split at h
  · cases h; decide
  split at h
  · cases h; decide
  · exact absurd h (by simp)

theorem prefixExpr_ok (cfg : Cfg) (h : Cfg.wf cfg) (st : St) (hp : ∀ sg r p, st = .hunk sg r (some p) → ESC ∉ p)
    (e : String) (s : Sgr.Style) (t : List Char) (he : prefixExpr cfg st e = .ok (some (s, t))) :
    Style.wf s ∧ ESC ∉ t := by
  unfold prefixExpr at he
  split at he
  · exact absurd he (by simp)
  · split at he
    · split at he
      · rename_i sty v hs hv
        simp only [Except.ok.injEq, Option.some.injEq, Prod.mk.injEq] at he
        obtain ⟨rfl, rfl⟩ := he
        exact ⟨cfgStyleOf_wf cfg h _ _ hs, prefixText_ok st hp _ _ hv⟩
      · exact absurd he (by simp)
    · exact absurd he (by simp)

theorem paintedPrefixGo_ok (cfg : Cfg) (h : Cfg.wf cfg) (st : St)
    (hp : ∀ sg r p, st = .hunk sg r (some p) → ESC ∉ p) (arms : List (String × String))
    (s : Sgr.Style) (t : List Char) (he : paintedPrefixGo cfg st arms = .ok (some (s, t))) :
    Style.wf s ∧ ESC ∉ t := by
  induction arms with
  | nil => simp [paintedPrefixGo] at he
  | cons a rest ih =>
    obtain ⟨p, e⟩ := a
    simp only [paintedPrefixGo] at he
    split at he
    · exact absurd he (by simp)
    · exact prefixExpr_ok cfg h st hp e s t he
    · exact ih he

/-! ### The strings of `paint_line` -/

theorem asciiClusters_ok (t : List Char) (h : ESC ∉ t) : clustersOk (asciiClusters t) := by
  intro g hg
  simp only [asciiClusters, List.mem_map] at hg
  obtain ⟨c, hc, rfl⟩ := hg
  simp only [List.mem_singleton]
  intro he
  exact h (he ▸ hc)

theorem loopBody_ok (inner : List (String × List String)) (pfx : Option (Sgr.Style × PPiece)) (handled : Bool)
    (sec : Sgr.Style × List G) (hpfx : ∀ p, pfx = some p → Style.wf p.1 ∧ PPiece.ok p.2)
    (hsec : Style.wf sec.1 ∧ clustersOk sec.2) :
    ∀ x ∈ loopBody inner pfx handled sec, Style.wf x.1 ∧ PPiece.ok x.2 := by
  intro x hx
  simp only [loopBody, List.mem_flatMap] at hx
  obtain ⟨⟨what, guards⟩, _, hx⟩ := hx
  simp only at hx
  split at hx
  · split at hx
    · simp at hx
    · cases pfx with
      | none => simp at hx
      | some p =>
        simp only [Option.toList, List.mem_singleton] at hx
        cases hx
        exact hpfx _ rfl
  · split at hx
    · split at hx
      · simp at hx
      · simp only [List.mem_singleton] at hx
        subst hx
        exact hsec
    · simp at hx

theorem loopGo_ok (inner : List (String × List String)) (pfx : Option (Sgr.Style × PPiece))
    (hpfx : ∀ p, pfx = some p → Style.wf p.1 ∧ PPiece.ok p.2) (handled : Bool) (secs : List (Sgr.Style × List G))
    (hsecs : ∀ x ∈ secs, Style.wf x.1 ∧ clustersOk x.2) :
    ∀ x ∈ loopGo inner pfx handled secs, Style.wf x.1 ∧ PPiece.ok x.2 := by
  induction secs generalizing handled with
  | nil => simp [loopGo]
  | cons s rest ih =>
    intro x hx
    simp only [loopGo, List.mem_append] at hx
    rcases hx with hx | hx
    · exact loopBody_ok inner pfx handled s hpfx (hsecs s List.mem_cons_self) x hx
    · exact ih true (fun y hy => hsecs y (List.mem_cons_of_mem _ hy)) x hx

theorem stringsOf_ok (ps : List (String × List String)) (inp : Input) (hin : Input.ok inp)
    (pfx : Option (Sgr.Style × List Char)) (hpfx : ∀ s t, pfx = some (s, t) → Style.wf s ∧ ESC ∉ t) :
    ∀ x ∈ stringsOf ps inp pfx, Style.wf x.1 ∧ PPiece.ok x.2 := by
  obtain ⟨hg, hs, _, _, _⟩ := hin
  have hp' : ∀ p, (pfx.map fun (s, t) => (s, PPiece.plain (asciiClusters t))) = some p →
      Style.wf p.1 ∧ PPiece.ok p.2 := by
    intro p hp
    cases pfx with
    | none => simp at hp
    | some q =>
      obtain ⟨s, t⟩ := q
      simp only [Option.map_some, Option.some.injEq] at hp
      subst hp
      exact ⟨(hpfx s t rfl).1, asciiClusters_ok t (hpfx s t rfl).2⟩
  have hl := loopGo_ok (ps.filter fun p => p.1 != "gutter") _ hp' false inp.sections hs
  intro x hx
  unfold stringsOf at hx
  simp only at hx
  split at hx
  · split at hx
    · rcases List.mem_append.mp hx with h | h
      · exact hg x h
      · exact hl x h
    · rcases List.mem_append.mp hx with h | h
      · exact hl x h
      · exact hg x h
  · exact hl x hx

/-! ### The fill style -/

theorem lastReal_mem (d : Sgr.Style) (xs : List (Sgr.Style × List Char)) :
    lastReal d xs = d ∨ ∃ x ∈ xs, lastReal d xs = x.1 := by
  induction xs with
  | nil => left; rfl
  | cons x rest ih =>
    obtain ⟨s, t⟩ := x
    simp only [lastReal]
    split
    · split
      · right; exact ⟨(s, t), List.mem_cons_self, rfl⟩
      · left; rfl
    · rcases ih with h | ⟨y, hy, h⟩
      · left; exact h
      · right; exact ⟨y, List.mem_cons_of_mem _ hy, h⟩

theorem fillStyleExpr_wf (cfg : Cfg) (h : Cfg.wf cfg) (inp : Input) (hd : ∀ x ∈ inp.diffSections, Style.wf x.1)
    (e : String) (fs : Sgr.Style) (he : fillStyleExpr cfg inp e = .ok fs) : Style.wf fs := by
  have h' := h
  obtain ⟨h1, h2, h3, h4, h5, h6⟩ := h
  unfold fillStyleExpr at he
  split at he
  · cases he; split <;> assumption
  split at he
  · cases he; split <;> assumption
  split at he
  · cases he
    rcases lastReal_mem cfg.nullStyle inp.diffSections with hl | ⟨y, hy, hl⟩
    · rw [hl]; exact h6
    · rw [hl]; exact hd y hy
  split at he
  · split at he
    · exact absurd he (by simp)
    · rename_i x rest hx
      cases he
      exact hd x (by rw [hx]; exact List.mem_cons_self)
  · split at he
    · rename_i s hs
      cases he
      exact cfgStyleOf_wf cfg h' e _ hs
    · exact absurd he (by simp)

theorem fillStyleGo_wf (cfg : Cfg) (h : Cfg.wf cfg) (inp : Input) (hd : ∀ x ∈ inp.diffSections, Style.wf x.1)
    (arms : List (List String × String)) (fs : Sgr.Style) (he : fillStyleGo cfg inp arms = .ok fs) : Style.wf fs := by
  induction arms with
  | nil => simp [fillStyleGo] at he
  | cons a rest ih =>
    obtain ⟨p, e⟩ := a
    simp only [fillStyleGo] at he
    split at he
    · exact absurd he (by simp)
    · exact fillStyleExpr_wf cfg h inp hd e fs he
    · exact ih he

theorem fillDecision_wf (cfg : Cfg) (h : Cfg.wf cfg) (inp : Input) (hd : ∀ x ∈ inp.diffSections, Style.wf x.1)
    (m : Option FillMethod) (fs : Sgr.Style) (he : fillDecision cfg inp = .ok (m, fs)) : Style.wf fs := by
  unfold fillDecision at he
  split at he
  · exact absurd he (by simp)
  · rename_i fs' hfs
    split at he
    · exact absurd he (by simp)
    · split at he
      · split at he
        · exact absurd he (by simp)
        · simp only [Except.ok.injEq, Prod.mk.injEq] at he
          obtain ⟨_, rfl⟩ := he
          exact fillStyleGo_wf cfg h inp hd _ _ hfs
      · exact absurd he (by simp)

/-! ### The if-chain -/

theorem marker_noesc : ESC ∉ Generated.PaintLine.emptyMarkerWithLineNumbers.toList := by decide

theorem chainAct_selfContained (cfg : Cfg) (inp : Input) (hes : ∀ s, inp.emptyStyle = some s → Style.wf s)
    (fs : Sgr.Style) (hfs : Style.wf fs) (tw : Nat) (line : List Char) (hl : selfContained line) (a : String)
    (out : List Char) (h : chainAct cfg inp fs tw line a = .ok out) : selfContained out := by
  unfold chainAct at h
  split at h
  · cases h; exact rightFill_selfContained line fs hfs hl
  split at h
  · cases h; exact spacesFill_selfContained line fs hfs _ hl
  split at h
  · split at h
    · exact absurd h (by simp)
    · cases h; exact spacesFill_selfContained line fs hfs _ hl
  split at h
  · split at h
    · rename_i es hes'
      cases h
      apply markEmpty_selfContained line es (hes es hes') _ _ hl
      intro t ht
      split at ht
      · cases ht; exact marker_noesc
      · exact absurd ht (by simp)
    · cases h; exact hl
  split at h
  · cases h; exact hl
  · exact absurd h (by simp)

theorem chainGo_selfContained (cfg : Cfg) (inp : Input) (hes : ∀ s, inp.emptyStyle = some s → Style.wf s)
    (mode : Option FillMethod) (fs : Sgr.Style) (hfs : Style.wf fs) (le : Bool) (tw : Nat) (line : List Char)
    (hl : selfContained line) (chain : List (String × String)) (out : List Char)
    (h : chainGo cfg inp mode fs le tw line chain = .ok out) : selfContained out := by
  induction chain with
  | nil => simp only [chainGo, Except.ok.injEq] at h; subst h; exact hl
  | cons c rest ih =>
    obtain ⟨c, a⟩ := c
    simp only [chainGo] at h
    split at h
    · exact absurd h (by simp)
    · exact chainAct_selfContained cfg inp hes fs hfs tw line hl a out h
    · exact ih h

/-! ### The painted line -/

/-- The string `paint_line` returns is self-contained. -/
theorem paintLine_selfContained (cfg : Cfg) (hcfg : Cfg.wf cfg) (inp : Input) (hin : Input.ok inp)
    (strings : List (Sgr.Style × PPiece)) (e : Bool) (h : PaintLine.paintLine cfg inp = .ok (strings, e)) :
    (∀ x ∈ strings, Style.wf x.1 ∧ PPiece.ok x.2) ∧ selfContained (Line.paintLine (toPieces strings)) := by
  unfold PaintLine.paintLine at h
  split at h
  · exact absurd h (by simp)
  · rename_i pfx hp
    split at h
    · simp only [Except.ok.injEq, Prod.mk.injEq] at h
      obtain ⟨rfl, _⟩ := h
      have hok := stringsOf_ok Generated.PaintLine.pushes inp hin pfx (by
        intro s t hst
        subst hst
        exact paintedPrefixGo_ok cfg hcfg inp.st hin.2.2.2.2 _ s t hp)
      exact ⟨hok, strings_selfContained _ hok⟩
    · exact absurd h (by simp)

/-- **Every line `paint_lines` writes is self-contained**, whatever the state, the sections, the fill decision. -/
theorem paintedLine_selfContained (cfg : Cfg) (hcfg : Cfg.wf cfg) (inp : Input) (hin : Input.ok inp)
    (out : List Char) (h : paintedLine cfg inp = .ok out) : selfContained out := by
  unfold paintedLine at h
  split at h
  · exact absurd h (by simp)
  · rename_i strings le hpl
    split at h
    · exact absurd h (by simp)
    · rename_i mode fs hfd
      have hfs := fillDecision_wf cfg hcfg inp hin.2.2.1 mode fs hfd
      exact chainGo_selfContained cfg inp hin.2.2.2.1 mode fs hfs le _ _
        (paintLine_selfContained cfg hcfg inp hin strings le hpl).2 _ out h

/-! ### The items of the painted string: a partition the model makes itself -/

theorem flatten_escItem (e : List Char) : flatten (escItem e) = e := by
  unfold escItem
  split
  · rename_i h
    simp only [List.isEmpty_iff] at h
    simp [flatten, h]
  · simp [flatten, Item.chars]

theorem flatten_pieceItems (p : PPiece) : flatten (pieceItems p) = p.toPiece.chars := by
  cases p with
  | plain gs => simp [pieceItems, flatten, Item.chars, PPiece.toPiece, Piece.chars, gchars]
  | linked u gs =>
    simp [pieceItems, flatten, Item.chars, PPiece.toPiece, Piece.chars, gchars, Line.link]

theorem flatten_itemsTail (prev : Sgr.Style) (xs : List (Sgr.Style × PPiece)) :
    flatten (itemsTail prev xs) = Sgr.renderTail prev ((toPieces xs).map fun x => (x.1, x.2.chars)) := by
  induction xs generalizing prev with
  | nil => simp [itemsTail, flatten_escItem, toPieces, Sgr.renderTail]
  | cons x rest ih =>
    obtain ⟨s, p⟩ := x
    simp only [itemsTail, flatten_append, flatten_escItem, flatten_pieceItems, ih, toPieces, List.map_cons,
      Sgr.renderTail, List.append_assoc]

/-- The items are a faithful partition of the painted string. -/
theorem flatten_lineItems (xs : List (Sgr.Style × PPiece)) :
    flatten (lineItems xs) = Line.paintLine (toPieces xs) := by
  cases xs with
  | nil => simp [lineItems, flatten, Line.paintLine, toPieces, Sgr.renderStrings]
  | cons x rest =>
    obtain ⟨s, p⟩ := x
    have := flatten_itemsTail s rest
    simp only [toPieces] at this
    simp only [lineItems, flatten_append, flatten_escItem, flatten_pieceItems, this, Line.paintLine, toPieces,
      List.map_cons, Sgr.renderStrings, List.append_assoc]

theorem escItem_ok (e : List Char) (h : ∀ s : State, s.mode = .ground → (final s e).mode = .ground) :
    ∀ i ∈ escItem e, Item.ok i := by
  intro i hi
  unfold escItem at hi
  split at hi
  · simp at hi
  · simp only [List.mem_singleton] at hi
    subst hi
    exact h

theorem pre_ground (st : Sgr.Style) (hwf : Style.wf st) (s : State) (hm : s.mode = .ground) :
    (final s (Sgr.pre st)).mode = .ground := by
  rw [final_pre st hwf s hm]; exact hm

theorem reset_ground (s : State) (hm : s.mode = .ground) : (final s Sgr.reset).mode = .ground := by
  rw [final_reset s hm]; exact hm

theorem inf_ground (a b : Sgr.Style) (hb : Style.wf b) (s : State) (hm : s.mode = .ground) :
    (final s (Sgr.inf a b)).mode = .ground := by
  unfold Sgr.inf
  cases h : between a b with
  | none => simpa [final, run] using hm
  | reset =>
    simp only
    rw [final_append, final_reset s hm]
    exact pre_ground b hb _ hm
  | extra e =>
    simp only
    exact pre_ground e (between_extra_wf a b e hb h) s hm

theorem pieceItems_ok (p : PPiece) (h : PPiece.ok p) : ∀ i ∈ pieceItems p, Item.ok i := by
  obtain ⟨c1, c2, c3⟩ := osc8_consts
  cases p with
  | plain gs =>
    intro i hi
    simp only [pieceItems, List.mem_singleton] at hi
    subst hi
    exact h
  | linked u gs =>
    obtain ⟨h1, h2, h3⟩ := h
    intro i hi
    simp only [pieceItems, List.mem_cons, List.not_mem_nil, or_false] at hi
    rcases hi with rfl | rfl | rfl
    · intro s hm
      rw [c1, c2]
      simp only [final, run_osc8 s u h1 h2 hm]
      exact hm
    · exact h3
    · intro s hm
      rw [c3]
      simp only [final, run_osc8 s [] (by simp) (by simp) hm]
      exact hm

theorem itemsTail_ok (prev : Sgr.Style) (xs : List (Sgr.Style × PPiece))
    (h : ∀ x ∈ xs, Style.wf x.1 ∧ PPiece.ok x.2) : ∀ i ∈ itemsTail prev xs, Item.ok i := by
  induction xs generalizing prev with
  | nil =>
    simp only [itemsTail]
    apply escItem_ok
    intro s hm
    split
    · simpa [final, run] using hm
    · exact reset_ground s hm
  | cons x rest ih =>
    obtain ⟨st, p⟩ := x
    have hx := h (st, p) List.mem_cons_self
    intro i hi
    simp only [itemsTail, List.mem_append] at hi
    rcases hi with (hi | hi) | hi
    · exact escItem_ok _ (inf_ground prev st hx.1) i hi
    · exact pieceItems_ok p hx.2 i hi
    · exact ih st (fun y hy => h y (List.mem_cons_of_mem _ hy)) i hi

/-- Every item is well-formed: text items ESC-free, escape items complete sequences. -/
theorem lineItems_ok (xs : List (Sgr.Style × PPiece)) (h : ∀ x ∈ xs, Style.wf x.1 ∧ PPiece.ok x.2) :
    ∀ i ∈ lineItems xs, Item.ok i := by
  cases xs with
  | nil => simp [lineItems]
  | cons x rest =>
    obtain ⟨st, p⟩ := x
    have hx := h (st, p) List.mem_cons_self
    intro i hi
    simp only [lineItems, List.mem_append] at hi
    rcases hi with (hi | hi) | hi
    · exact escItem_ok _ (pre_ground st hx.1) i hi
    · exact pieceItems_ok p hx.2 i hi
    · exact itemsTail_ok st rest (fun y hy => h y (List.mem_cons_of_mem _ hy)) i hi

/-- The statements of `paint_line`, of the loop of `paint_lines`, of `right_fill_background_color`, `mark_empty_line`,
`Style::paint` and the call sites of `paint_lines` in the current source are the modelled ones. -/
theorem shape_as_modelled : shapeAsModelled = true := by decide +kernel

end PaintLineProofs
