import DeltaModel.Blame
/-!
Lemmas about what a rendered blame row contains (`Blame.formatMeta`, `Blame.fmtLineNumber`,
`Blame.streamStep`).
-/
namespace Blame

/-! ### tabs -/

theorem expand_no_tab (w : Nat) (l : Str) (h : '\t' ∉ l) : Text.expand w l = l := by
  unfold Text.expand
  split
  · rfl
  · induction l with
    | nil => rfl
    | cons c cs ih =>
      have hc : c ≠ '\t' := fun e => h (e ▸ List.mem_cons_self)
      have hcs : '\t' ∉ cs := fun m => h (List.mem_cons_of_mem _ m)
      simp [List.flatMap_cons, hc, ih hcs]

/-! ### the line number field -/

theorem filter_spaces (k : Nat) : (spaces k).filter (· != ' ') = [] := by
  induction k with
  | zero => rfl
  | succ k ih => simp [spaces, List.replicate_succ] at ih ⊢

theorem filter_digits (n : Nat) : (Nat.toDigits 10 n).filter (· != ' ') = Nat.toDigits 10 n := by
  apply List.filter_eq_self.mpr
  intro c hc
  have hd : c.isDigit = true := Nat.isDigit_of_mem_toDigits (by decide) (by decide) hc
  have : c ≠ ' ' := by
    intro e; subst e; revert hd; decide
  simpa using this

/-- Whatever the width and alignment, the padded number consists of blanks and the decimal
digits of the number. -/
theorem padNum_digits (n w : Nat) (al : Align) :
    (padNum n w al).filter (· != ' ') = Nat.toDigits 10 n := by
  unfold padNum
  cases al with
  | left => simp [List.filter_append, filter_spaces, filter_digits]
  | right => simp [List.filter_append, filter_spaces, filter_digits]
  | center =>
    simp only
    split <;> simp [List.filter_append, filter_spaces, filter_digits]

/-- The number is shown (not blanked) unless the line repeats the attribution of the line above
and the separator format asks for per-block / every-N numbering. -/
theorem fmtLineNumber_shows (sep : Sep) (n : Nat) (rep : Bool) (pre num suf : Str) (w : Nat)
    (h : fmtLineNumber sep n rep = .ok (pre, num, suf)) (hw : sep.width = some w)
    (hshow : sep.kind = .on ∨ rep = false) :
    num.filter (· != ' ') = Nat.toDigits 10 n ∧ pre = sep.pre ∧ suf = sep.suf := by
  unfold fmtLineNumber at h
  have hempty : numberBlank sep.kind n rep = .ok false := by
    rcases hshow with hk | hr
    · rw [hk]; rfl
    · subst hr
      cases sep.kind with
      | on => rfl
      | perBlock => rfl
      | every k => by_cases hk : k = 0 <;> simp [numberBlank, hk]
  simp only [hempty, hw] at h
  cases hal : sep.align with
  | none => simp [hal] at h
  | some al =>
    simp only [hal] at h
    injection h with h
    injection h with h1 h2
    injection h2 with h2 h3
    refine ⟨?_, h1.symm, h3.symm⟩
    rw [← h2]
    simp [padNum_digits]

/-! ### metadata -/

theorem strWidth_le_length (cw : Char → Nat) (hcw : ∀ c, cw c ≤ 1) (s : Str) : strWidth cw s ≤ s.length := by
  induction s with
  | nil => simp [strWidth]
  | cons c cs ih =>
    have := hcw c
    simp only [strWidth, List.map_cons, List.sum_cons, List.length_cons] at ih ⊢
    omega

theorem padWidth_ok (arith : Nat) (cw : Char → Nat) (w : Nat) (f : Str)
    (h : arith ≠ 0 ∨ strWidth cw f ≤ f.length) : ∃ k, padWidth arith cw w f = .ok k := by
  unfold padWidth
  by_cases ha : arith = 0
  · rcases h with h | h
    · exact absurd ha h
    · exact ⟨w + (f.length - strWidth cw f), by simp [ha, h]⟩
  · exact ⟨w + f.length - strWidth cw f, by simp [ha]⟩

/-- `format_blame_metadata` cannot panic once the padding arithmetic saturates (the proposed
fix), and with the checked subtraction it cannot panic when no character is wider than one
cell. -/
theorem formatMetaGo_ok (arith : Nat) (cw : Char → Nat) (ts author commit : Str)
    (h : arith ≠ 0 ∨ ∀ c, cw c ≤ 1) (items : List Item) (acc suf : Str) :
    ∃ k, formatMetaGo arith cw ts author commit items acc suf = .ok k := by
  induction items generalizing acc suf with
  | nil => exact ⟨_, rfl⟩
  | cons it rest ih =>
    unfold formatMetaGo
    cases hph : it.ph with
    | none => simpa using ih _ _
    | some ph =>
      have hp := padWidth_ok arith cw (it.width.getD Generated.Blame.defaultMetaWidth)
        (fieldText ph ts author commit)
        (h.elim Or.inl (fun hc => Or.inr (strWidth_le_length cw hc _)))
      obtain ⟨k, hk⟩ := hp
      simp only [hk]
      exact ih _ _

theorem infix_padStr (s : Str) (w : Nat) (al : Align) : s <:+: padStr s w al none := by
  unfold padStr
  cases al with
  | left => exact ⟨[], spaces (w - s.length), by simp⟩
  | right => exact ⟨spaces (w - s.length), [], by simp⟩
  | center => exact ⟨spaces ((w - s.length) / 2), spaces (w - s.length - (w - s.length) / 2), by simp⟩

theorem infix_padStr_prec (s : Str) (w : Nat) (al : Align) (p : Nat) : s.take p <:+: padStr s w al (some p) := by
  unfold padStr
  cases al with
  | left => exact ⟨[], spaces (w - (s.take p).length), by simp⟩
  | right => exact ⟨spaces (w - (s.take p).length), [], by simp⟩
  | center => exact ⟨spaces ((w - (s.take p).length) / 2),
      spaces (w - (s.take p).length - (w - (s.take p).length) / 2), by simp⟩

theorem formatMetaGo_prefix (arith : Nat) (cw : Char → Nat) (ts author commit : Str)
    (items : List Item) (acc suf key : Str)
    (h : formatMetaGo arith cw ts author commit items acc suf = .ok key) : acc <+: key := by
  induction items generalizing acc suf with
  | nil =>
    simp only [formatMetaGo] at h
    injection h with h
    exact ⟨suf, h⟩
  | cons it rest ih =>
    unfold formatMetaGo at h
    cases hph : it.ph with
    | none =>
      simp only [hph] at h
      exact (List.prefix_append acc it.pre).trans (ih _ _ h)
    | some ph =>
      simp only [hph] at h
      cases hp : padWidth arith cw (it.width.getD Generated.Blame.defaultMetaWidth) (fieldText ph ts author commit) with
      | error e => simp [hp] at h
      | ok w =>
        simp only [hp] at h
        have := ih _ _ h
        exact (List.prefix_append acc _).trans ((List.append_assoc acc _ _) ▸ this)

/-- Every placeholder of the format puts its field into the metadata: the whole field when it has
no precision, its first `p` characters with precision `p`. -/
theorem formatMetaGo_shows (arith : Nat) (cw : Char → Nat) (ts author commit : Str)
    (items : List Item) (acc suf key : Str)
    (h : formatMetaGo arith cw ts author commit items acc suf = .ok key)
    (it : Item) (hit : it ∈ items) (ph : Field) (hph : it.ph = some ph) :
    (match it.prec with
     | none => fieldText ph ts author commit
     | some p => (fieldText ph ts author commit).take p) <:+: key := by
  induction items generalizing acc suf with
  | nil => simp at hit
  | cons it0 rest ih =>
    unfold formatMetaGo at h
    rcases List.mem_cons.mp hit with e | hmem
    · subst e
      simp only [hph] at h
      cases hp : padWidth arith cw (it.width.getD Generated.Blame.defaultMetaWidth) (fieldText ph ts author commit) with
      | error e => simp [hp] at h
      | ok w =>
        simp only [hp] at h
        have hpre := formatMetaGo_prefix _ _ _ _ _ _ _ _ _ h
        have hin : padStr (fieldText ph ts author commit) w (it.align.getD .left) it.prec <:+: key := by
          obtain ⟨t, ht⟩ := hpre
          exact ⟨acc ++ it.pre, t, by rw [← ht]⟩
        cases hprec : it.prec with
        | none =>
          rw [hprec] at hin
          exact (infix_padStr _ _ _).trans hin
        | some p =>
          rw [hprec] at hin
          exact (infix_padStr_prec _ _ _ _).trans hin
    · cases hph0 : it0.ph with
      | none =>
        simp only [hph0] at h
        exact ih _ _ h hmem
      | some ph0 =>
        simp only [hph0] at h
        cases hp : padWidth arith cw (it0.width.getD Generated.Blame.defaultMetaWidth) (fieldText ph0 ts author commit) with
        | error e => simp [hp] at h
        | ok w =>
          simp only [hp] at h
          exact ih _ _ h hmem

/-! ### the key determines the commit (formats that end with the commit placeholder) -/

/-- The last blank-free word of a string, ignoring trailing blanks. -/
def lastWord (l : Str) : Str :=
  ((l.reverse.dropWhile (· == ' ')).takeWhile (· != ' ')).reverse

theorem dropWhile_spaces_append (k : Nat) (Y : Str) :
    (spaces k ++ Y).dropWhile (· == ' ') = Y.dropWhile (· == ' ') := by
  induction k with
  | zero => rfl
  | succ k ih => simpa [spaces, List.replicate_succ, List.dropWhile] using ih

theorem takeWhile_word (w Z : Str) (hw : ' ' ∉ w) : (w ++ ' ' :: Z).takeWhile (· != ' ') = w := by
  induction w with
  | nil => simp [List.takeWhile]
  | cons c cs ih =>
    have hc : c ≠ ' ' := fun e => hw (by simp [e])
    have := ih (fun h => hw (List.mem_cons_of_mem _ h))
    simp [List.takeWhile, hc, this]

theorem reverse_spaces (k : Nat) : (spaces k).reverse = spaces k := by
  simp [spaces]

theorem lastWord_spec (A c : Str) (k : Nat) (hne : c ≠ []) (hc : ' ' ∉ c) :
    lastWord (A ++ ' ' :: (c ++ spaces k)) = c := by
  unfold lastWord
  have hrev : (A ++ ' ' :: (c ++ spaces k)).reverse = spaces k ++ (c.reverse ++ ' ' :: A.reverse) := by
    simp [reverse_spaces]
  rw [hrev, dropWhile_spaces_append]
  have hne' : c.reverse ≠ [] := by simpa using hne
  have hc' : ' ' ∉ c.reverse := by simpa using hc
  have hd : (c.reverse ++ ' ' :: A.reverse).dropWhile (· == ' ') = c.reverse ++ ' ' :: A.reverse := by
    cases hcr : c.reverse with
    | nil => exact absurd hcr hne'
    | cons x xs =>
      have hx : x ≠ ' ' := by
        intro e; apply hc'; rw [hcr]; simp [e]
      simp [List.dropWhile, hx]
  rw [hd, takeWhile_word _ _ hc']
  simp

/-- The result of `formatMetaGo` when the last item is a placeholder. -/
theorem formatMetaGo_last (arith : Nat) (cw : Char → Nat) (ts author commit : Str)
    (items : List Item) (it : Item) (ph : Field) (hph : it.ph = some ph) (acc suf key : Str)
    (h : formatMetaGo arith cw ts author commit (items ++ [it]) acc suf = .ok key) :
    ∃ acc' w, key = acc' ++ it.pre ++ padStr (fieldText ph ts author commit) w (it.align.getD .left) it.prec ++ it.suf := by
  induction items generalizing acc suf with
  | nil =>
    simp only [List.nil_append] at h
    unfold formatMetaGo at h
    simp only [hph] at h
    cases hp : padWidth arith cw (it.width.getD Generated.Blame.defaultMetaWidth) (fieldText ph ts author commit) with
    | error e => simp [hp] at h
    | ok w =>
      simp only [hp, formatMetaGo] at h
      injection h with h
      exact ⟨acc, w, h.symm⟩
  | cons it0 rest ih =>
    simp only [List.cons_append] at h
    unfold formatMetaGo at h
    cases hph0 : it0.ph with
    | none =>
      simp only [hph0] at h
      exact ih _ _ h
    | some ph0 =>
      simp only [hph0] at h
      cases hp : padWidth arith cw (it0.width.getD Generated.Blame.defaultMetaWidth) (fieldText ph0 ts author commit) with
      | error e => simp [hp] at h
      | ok w =>
        simp only [hp] at h
        exact ih _ _ h

/-- For a format whose last placeholder is `{commit}` (left aligned, no precision) preceded by
a blank — the default `… {commit:<8}` — the metadata key determines the commit: two lines
with the same key are lines of the same commit. -/
theorem key_determines_commit_core (arith : Nat) (cw : Char → Nat) (items : List Item) (it : Item)
    (hph : it.ph = some .commit) (hprec : it.prec = none) (hal : it.align.getD .left = .left)
    (hpre : ∃ p, it.pre = p ++ [' '])
    (ts1 a1 c1 ts2 a2 c2 key : Str) (hc1 : c1 ≠ [] ∧ ' ' ∉ c1) (hc2 : c2 ≠ [] ∧ ' ' ∉ c2)
    (hsufe : it.suf = [])
    (h1 : formatMeta arith cw (items ++ [it]) ts1 a1 c1 = .ok key)
    (h2 : formatMeta arith cw (items ++ [it]) ts2 a2 c2 = .ok key) : c1 = c2 := by
  obtain ⟨p, hp⟩ := hpre
  obtain ⟨acc1, w1, e1⟩ := formatMetaGo_last arith cw ts1 a1 c1 items it .commit hph [] [] key h1
  obtain ⟨acc2, w2, e2⟩ := formatMetaGo_last arith cw ts2 a2 c2 items it .commit hph [] [] key h2
  simp only [fieldText, hprec, hal, padStr, hp, hsufe, List.append_nil] at e1 e2
  have k1 : key = (acc1 ++ p) ++ ' ' :: (c1 ++ spaces (w1 - c1.length)) := by rw [e1]; simp
  have k2 : key = (acc2 ++ p) ++ ' ' :: (c2 ++ spaces (w2 - c2.length)) := by rw [e2]; simp
  have l1 := lastWord_spec (acc1 ++ p) c1 (w1 - c1.length) hc1.1 hc1.2
  have l2 := lastWord_spec (acc2 ++ p) c2 (w2 - c2.length) hc2.1 hc2.2
  rw [← k1] at l1
  rw [← k2] at l2
  rw [← l1, ← l2]

/-! ### one line of the stream -/

/-- What `handle_blame_line` does with a line that parses. -/
theorem streamStep_row (cfg : StreamCfg) (s s' : CState) (line : Str) (git : Bool) (r : BlameRec) (o : Out)
    (hp : parseBlame cfg.mode line = some r) (h : streamStep cfg s line git = .ok (s', o)) :
    ∃ key colour pre num suf,
      formatMeta cfg.arith cfg.cw cfg.items (cfg.tsOut r.ts) r.author r.commit = .ok key ∧
      fmtLineNumber cfg.sep r.lineNumber (decide (s.prev = some key)) = .ok (pre, num, suf) ∧
      s'.prev = some key ∧
      o = .row colour (decide (s.prev = some key)) key
        ⟨if decide (s.prev = some key) then spaces (strWidth cfg.cw key) else key, pre, num, suf,
         Text.expand cfg.tab r.code⟩ := by
  unfold streamStep at h
  simp only [hp] at h
  cases hk : formatMeta cfg.arith cfg.cw cfg.items (cfg.tsOut r.ts) r.author r.commit with
  | error e => simp [hk] at h
  | ok key =>
    simp only [hk] at h
    cases hs : step cfg.pal s key git with
    | error e => simp [hs] at h
    | ok sp =>
      obtain ⟨s1, paint⟩ := sp
      simp only [hs] at h
      have hrep : paint.isRepeat = decide (s.prev = some key) ∧ s1.prev = some key := by
        unfold step at hs
        by_cases hg : git = true
        · simp only [hg, if_true] at hs
          injection hs with hs
          injection hs with h1 h2
          subst h1; subst h2
          exact ⟨rfl, rfl⟩
        · simp only [hg] at hs
          cases hc : getColor cfg.pal s.map key s.prev (decide (s.prev = some key)) with
          | error e => simp [hc] at hs
          | ok c =>
            simp only [hc] at hs
            injection hs with hs
            injection hs with h1 h2
            subst h1; subst h2
            exact ⟨rfl, rfl⟩
      cases hn : fmtLineNumber cfg.sep r.lineNumber paint.isRepeat with
      | error e => simp [hn] at h
      | ok t =>
        obtain ⟨pre, num, suf⟩ := t
        simp only [hn] at h
        injection h with h
        injection h with h1 h2
        rw [hrep.1] at hn h2
        exact ⟨key, paint.colour, pre, num, suf, rfl, hn, by rw [← h1]; exact hrep.2, h2.symm⟩

/-- A line that does not parse leaves the blame state alone and is passed through. -/
theorem streamStep_raw (cfg : StreamCfg) (s : CState) (line : Str) (git : Bool)
    (hp : parseBlame cfg.mode line = none) : streamStep cfg s line git = .ok (s, .raw) := by
  simp [streamStep, hp]

/-- One output per input line, in order. -/
theorem stream_length (cfg : StreamCfg) (s : CState) (lines : List (Str × Bool)) (outs : List Out)
    (h : stream cfg s lines = .ok outs) : outs.length = lines.length := by
  induction lines generalizing s outs with
  | nil =>
    simp only [stream] at h
    injection h with h
    subst h; rfl
  | cons lg rest ih =>
    obtain ⟨l, g⟩ := lg
    simp only [stream] at h
    cases hs : streamStep cfg s l g with
    | error e => simp [hs] at h
    | ok so =>
      obtain ⟨s', o⟩ := so
      simp only [hs] at h
      cases hr : stream cfg s' rest with
      | error e => simp [hr] at h
      | ok os =>
        simp only [hr] at h
        injection h with h
        subst h
        simp [ih s' os hr]

end Blame
