import DeltaModel.Options
import Proofs.OptionsFuel
import Proofs.OptionsPerm
import Proofs.OptionsDfs
import Proofs.Options
/-!
C13 helper: the gathering functions of the model are a depth-first traversal of the feature
graph `childrenOf`, hence (acyclic graphs, regular configurations) the gathered list is the
de-duplicated pre-order of the feature forest — the documented order.
-/
namespace Options

/-- Children of a builtin feature inside the builtin tables. -/
def bChildren (bs : Builtins) (π : List Name) (f : Name) : List Name :=
  match lookup f bs with
  | none => []
  | some t => featuresOf t ++ π.filter (flagTrue t)

theorem gatherB_eq_dfs (bs : Builtins) (π : List Name) :
    ∀ (n : Nat) (f : Name) (acc : List Name),
      gatherB bs π n f acc = dfs (bChildren bs π) n f acc := by
  intro n
  induction n with
  | zero => intro f acc; rfl
  | succ n ih =>
    intro f acc
    unfold gatherB dfs
    by_cases hc : f ∈ acc
    · simp [hc]
    · have hc' : acc.contains f = false := by simpa using hc
      simp only [hc', Bool.false_eq_true, ↓reduceIte]
      cases hl : lookup f bs with
      | none =>
        have : bChildren bs π f = [] := by simp [bChildren, hl]
        rw [this]; rfl
      | some t =>
        have : bChildren bs π f = featuresOf t ++ π.filter (flagTrue t) := by simp [bChildren, hl]
        rw [this]
        simp only [List.foldl_append, foldl_filter']
        have e1 : ∀ a, (featuresOf t).foldl (fun a c => gatherB bs π n c a) a =
            (featuresOf t).foldl (fun a c => dfs (bChildren bs π) n c a) a :=
          foldl_congr_pointwise _ (fun c _ a => ih c a)
        rw [e1]
        exact foldl_congr_pointwise _ (fun c _ a => by rw [ih c a]) _

/-- The hypotheses of `gather_eq_spec` about one configuration. -/
structure Regular (bs : Builtins) (π : List Name) (g : GitCfg) (rank : Name → Nat) (B : Nat) : Prop where
  /-- acyclic (self-loops apart): children have smaller rank -/
  dec : ∀ f c, c ∈ childrenOf bs π g f → rank c < rank f
  bound : ∀ f, rank f < B
  /-- `π` enumerates builtin feature names that are in the map -/
  pi : ∀ c ∈ π, c ∈ builtinNames
  keys : ∀ c ∈ π, (lookup c bs).isSome = true
  /-- the tables come from the generated ones -/
  tables : ∀ f t, lookup f bs = some t → f ∈ builtinNames ∧ ∀ c ∈ featuresOf t, c ∈ builtinNames
  /-- a `[delta "<builtin name>"]` section does not itself enable features -/
  reg : ∀ b ∈ builtinNames, secFeatures g (some b) = [] ∧ ∀ c ∈ π, g.getBool (some b) c ≠ some true

section
variable {bs : Builtins} {π : List Name} {g : GitCfg} {rank : Name → Nat} {B : Nat}
variable (R : Regular bs π g rank B)

include R in
theorem childrenAll_builtin (b : Name) (hb : b ∈ builtinNames) :
    childrenAll bs π g b = bChildren bs π b := by
  have h1 := (R.reg b hb).1
  have h2 : π.filter (fun c => g.getBool (some b) c = some true) = [] := by
    apply List.filter_eq_nil_iff.mpr
    intro c hc
    simpa using (R.reg b hb).2 c hc
  unfold childrenAll
  rw [h1, h2, List.append_nil, List.append_nil]
  rfl

include R in
theorem bChildren_closed (b : Name) (_hb : b ∈ builtinNames) : ∀ c ∈ bChildren bs π b, c ∈ builtinNames := by
  intro c hc
  unfold bChildren at hc
  cases hl : lookup b bs with
  | none => simp [hl] at hc
  | some t =>
    simp only [hl, List.mem_append, List.mem_filter] at hc
    rcases hc with h | h
    · exact (R.tables b t hl).2 c h
    · exact R.pi c h.1

theorem childrenOf_eq_noSelf (bs : Builtins) (π : List Name) (g : GitCfg) :
    childrenOf bs π g = noSelf (childrenAll bs π g) := rfl

include R in
/-- `gather_builtin_features_recursively` on a builtin name = traversal of the whole graph. -/
theorem gatherB_eq_dfs_children (n fb : Nat) (b : Name) (acc : List Name) (hb : b ∈ builtinNames)
    (hn : rank b < n) (hfb : B ≤ fb) :
    gatherB bs π fb b acc = dfs (childrenOf bs π g) n b acc := by
  rw [gatherB_eq_dfs, dfs_noSelf,
    dfs_congr_on (noSelf (bChildren bs π)) (childrenOf bs π g) (· ∈ builtinNames)
      (fun f hf c hc => bChildren_closed R f hf c (List.mem_filter.mp hc).1)
      (fun f hf => by rw [childrenOf_eq_noSelf, noSelf, noSelf, childrenAll_builtin R f hf])
      fb b acc hb]
  exact dfs_fuel (childrenOf bs π g) rank R.dec fb n b acc (by have := R.bound b; omega) hn

include R in
theorem gatherFlags_eq (fb n : Nat) (sec : Option Name) (acc : List Name) (hfb : B ≤ fb)
    (hn : ∀ c ∈ π, g.getBool sec c = some true → rank c < n) :
    gatherFlags bs π fb g sec acc =
      (π.filter (fun c => g.getBool sec c = some true)).foldl
        (fun a c => dfs (childrenOf bs π g) n c a) acc := by
  unfold gatherFlags
  rw [foldl_filter']
  exact foldl_congr_pointwise _ (fun c hc a => by
    by_cases hb : g.getBool sec c = some true
    · simp only [hb, ↓reduceIte, decide_true]
      exact gatherB_eq_dfs_children R n fb c a (R.pi c hc) (hn c hc hb) hfb
    · simp [hb]) _

include R in
/-- The children of a custom feature (not in the builtin map), self-loop removed. -/
theorem childrenOf_custom (f : Name) (hl : lookup f bs = none) :
    childrenOf bs π g f =
      (secFeatures g (some f)).filter (· ≠ f) ++ π.filter (fun c => g.getBool (some f) c = some true) := by
  unfold childrenOf childrenAll
  simp only [hl, List.nil_append, List.filter_append]
  congr 1
  apply List.filter_eq_self.mpr
  intro c hc
  have hk := R.keys c (List.mem_filter.mp hc).1
  have : c ≠ f := by
    intro h
    subst h
    rw [hl] at hk
    simp at hk
  simpa using this

include R in
/-- `gather_features_recursively` behind its `contains` guard = traversal of the graph. -/
theorem gatherR_eq_dfs (fb : Nat) (hfb : B ≤ fb) :
    ∀ (n : Nat) (f : Name) (acc : List Name), rank f < n →
      (if acc.contains f then acc else gatherR bs π fb g n f acc) =
        dfs (childrenOf bs π g) n f acc := by
  intro n
  induction n with
  | zero => intro f acc h; omega
  | succ n ih =>
    intro f acc hn
    by_cases hf : f ∈ acc
    · have e1 : acc.contains f = true := by simpa using hf
      rw [if_pos e1, dfs, if_pos e1]
    · have e1 : acc.contains f = false := by simpa using hf
      simp only [e1, Bool.false_eq_true, ↓reduceIte]
      rw [gatherR]
      cases hl : lookup f bs with
      | some t =>
        have hb : f ∈ builtinNames := (R.tables f t hl).1
        simp only [Option.isSome_some, ↓reduceIte]
        rw [(R.reg f hb).1]
        simp only [List.foldl_nil]
        rw [gatherFlags_eq R fb n (some f) _ hfb (fun c hc h => absurd h ((R.reg f hb).2 c hc))]
        have h2 : π.filter (fun c => g.getBool (some f) c = some true) = [] := by
          apply List.filter_eq_nil_iff.mpr
          intro c hc
          simpa using (R.reg f hb).2 c hc
        rw [h2]
        simp only [List.foldl_nil]
        exact gatherB_eq_dfs_children R (n + 1) fb f acc hb hn hfb
      | none =>
        simp only [Option.isSome_none, Bool.false_eq_true, ↓reduceIte]
        have hch := childrenOf_custom R f hl
        have hrk : ∀ c ∈ childrenOf bs π g f, rank c < n := fun c hc => by
          have := R.dec f c hc; omega
        rw [dfs, if_neg (by rw [e1]; exact Bool.false_ne_true), hch, List.foldl_append,
          foldl_filter' (fun x => decide (x ≠ f)) _ (secFeatures g (some f))]
        -- the `features` key: a self reference is skipped because `f` is in the deque
        have s1 := foldl_agree
          (F := fun a c => if a.contains c then a else gatherR bs π fb g n c a)
          (G := fun a c => if decide (c ≠ f) then dfs (childrenOf bs π g) n c a else a)
          (fun a => f ∈ a) (secFeatures g (some f))
          (fun c hc a ha => by
            by_cases hcf : c = f
            · subst hcf
              have e2 : a.contains c = true := by simpa using ha
              simp [ha]
            · simp only [ne_eq, hcf, not_false_eq_true, decide_true, ↓reduceIte]
              have hcm : c ∈ childrenOf bs π g f := by
                rw [hch]
                exact List.mem_append_left _ (List.mem_filter.mpr ⟨hc, by simpa using hcf⟩)
              rw [ih c a (hrk c hcm)]
              exact ⟨rfl, dfs_sub _ n c a f ha⟩)
          (f :: acc) List.mem_cons_self
        rw [s1.1]
        exact gatherFlags_eq R fb n (some f) _ hfb (fun c hc h =>
          hrk c (by rw [hch]; exact List.mem_append_right _ (List.mem_filter.mpr ⟨hc, by simpa using h⟩)))

/-! ### The top level of `gather_features` -/

/-- One top-level step adds — modulo names already present — the pre-order of root `r`. -/
def StepOK (ch : Name → List Name) (rank : Name → Nat) (B d : Nat) (T : List Name → List Name)
    (r : Name) : Prop :=
  ∀ a, Inv ch rank a B →
    (∃ N', T a = N' ++ a ∧ dedupFrom a N'.reverse = dedupFrom a (preorder ch d r)) ∧
    Inv ch rank (T a) B

structure Good (ch : Name → List Name) (rank : Name → Nat) (B : Nat) (a L : List Name) : Prop where
  dd : dedup a.reverse = dedup L
  mem : ∀ x, x ∈ a ↔ x ∈ L
  inv : Inv ch rank a B

theorem good_step {ch : Name → List Name} {rank : Name → Nat} {B d : Nat} {T : List Name → List Name}
    {r : Name} {a L : List Name} (hg : Good ch rank B a L) (hs : StepOK ch rank B d T r) :
    Good ch rank B (T a) (L ++ preorder ch d r) := by
  obtain ⟨⟨N', hT, hdd⟩, hinv⟩ := hs a hg.inv
  have hmemN : ∀ x, (x ∈ N' ∧ x ∉ a) ↔ (x ∈ preorder ch d r ∧ x ∉ a) := by
    intro x
    have h1 := mem_dedupFrom N'.reverse a x
    have h2 := mem_dedupFrom (preorder ch d r) a x
    rw [hdd] at h1
    simp only [List.mem_reverse] at h1
    exact h1.symm.trans h2
  refine ⟨?_, ?_, hinv⟩
  · rw [hT, List.reverse_append]
    unfold dedup
    rw [dedupFrom_append, dedupFrom_append]
    have e1 : dedupFrom [] a.reverse = dedupFrom [] L := hg.dd
    rw [e1]
    congr 1
    have hset : ∀ x, x ∈ (dedupFrom [] L).reverse ++ [] ↔ x ∈ a := by
      intro x
      simp only [List.append_nil, List.mem_reverse, mem_dedupFrom, List.not_mem_nil, not_false_eq_true,
        and_true]
      exact (hg.mem x).symm
    rw [dedupFrom_congr _ _ a hset, dedupFrom_congr _ _ a hset]
    exact hdd
  · intro x
    rw [hT]
    simp only [List.mem_append]
    by_cases hxa : x ∈ a
    · exact ⟨fun _ => Or.inl ((hg.mem x).mp hxa), fun _ => Or.inr hxa⟩
    · constructor
      · rintro (h | h)
        · exact Or.inr ((hmemN x).mp ⟨h, hxa⟩).1
        · exact absurd h hxa
      · rintro (h | h)
        · exact absurd ((hg.mem x).mpr h) hxa
        · exact Or.inl ((hmemN x).mpr ⟨h, hxa⟩).1

theorem good_foldl {ch : Name → List Name} {rank : Name → Nat} {B d : Nat}
    (T : Name → List Name → List Name) (rs : List Name)
    (hs : ∀ r ∈ rs, StepOK ch rank B d (T r) r) :
    ∀ (a L : List Name), Good ch rank B a L →
      Good ch rank B (rs.foldl (fun a r => T r a) a) (L ++ rs.flatMap (preorder ch d)) := by
  induction rs with
  | nil => intro a L h; simpa using h
  | cons r rs ih =>
    intro a L h
    have h1 := good_step h (hs r List.mem_cons_self)
    have h2 := ih (fun r' hr' => hs r' (List.mem_cons_of_mem _ hr')) _ _ h1
    simpa [List.flatMap_cons, List.append_assoc] using h2

include R in
theorem stepOK_dfs' (n d : Nat) (r : Name) (hn : B ≤ n) (hd : B ≤ d) :
    StepOK (childrenOf bs π g) rank B d (dfs (childrenOf bs π g) n r) r := by
  intro a ha
  have hr := R.bound r
  have h := dfs_spec (childrenOf bs π g) rank R.dec n r a B hr (by omega) ha
  refine ⟨⟨(dedupFrom a (preorder (childrenOf bs π g) n r)).reverse, h.1, ?_⟩, h.2⟩
  rw [List.reverse_reverse, dedupFrom_idem,
    preorder_fuel (childrenOf bs π g) rank R.dec n d r (by omega) (by omega)]

include R in
theorem stepOK_gatherB (N d : Nat) (b : Name) (hb : b ∈ builtinNames) (hN : B ≤ N) (hd : B ≤ d) :
    StepOK (childrenOf bs π g) rank B d (gatherB bs π N b) b := by
  have h := stepOK_dfs' R N d b hN hd
  intro a ha
  rw [gatherB_eq_dfs_children R N N b a hb (by have := R.bound b; omega) hN]
  exact h a ha

theorem foldl_all_contained (X : List Name → Name → List Name) (cs : List Name) (a : List Name)
    (h : ∀ c ∈ cs, c ∈ a) :
    cs.foldl (fun a c => if a.contains c then a else X a c) a = a := by
  induction cs with
  | nil => rfl
  | cons c cs ih =>
    have e1 : a.contains c = true := by simpa using h c List.mem_cons_self
    simp only [List.foldl_cons, e1, ↓reduceIte]
    exact ih (fun c' hc' => h c' (List.mem_cons_of_mem _ hc'))

theorem foldl_dfs_all_mem (ch : Name → List Name) (n : Nat) (cs : List Name) (a : List Name)
    (h : ∀ c ∈ cs, c ∈ a) : cs.foldl (fun a c => dfs ch n c a) a = a := by
  induction cs with
  | nil => rfl
  | cons c cs ih =>
    have e1 : a.contains c = true := by simpa using h c List.mem_cons_self
    have : dfs ch n c a = a := by
      cases n with
      | zero => rfl
      | succ n => rw [dfs, if_pos e1]
    simp only [List.foldl_cons, this]
    exact ih (fun c' hc' => h c' (List.mem_cons_of_mem _ hc'))

include R in
theorem stepOK_gatherR (N d : Nat) (f : Name) (hN : B ≤ N) (hd : B ≤ d) :
    StepOK (childrenOf bs π g) rank B d (gatherR bs π N g N f) f := by
  intro a ha
  have hrf := R.bound f
  by_cases hf : f ∈ a
  · -- already present: nothing new (a custom name is pushed again)
    obtain ⟨n, rfl⟩ : ∃ n, N = n + 1 := ⟨N - 1, by omega⟩
    have hclosed : ∀ c ∈ childrenOf bs π g f, c ∈ a := fun c hc => ha f hf hrf c hc
    have hpre : dedupFrom a (preorder (childrenOf bs π g) d f) = [] :=
      dedupFrom_all_mem _ _ (closed_preorder (childrenOf bs π g) rank R.dec a B ha d f hf hrf)
    rw [gatherR]
    cases hl : lookup f bs with
    | some t =>
      have hb : f ∈ builtinNames := (R.tables f t hl).1
      have e1 : a.contains f = true := by simpa using hf
      have hB0 : gatherB bs π (n + 1) f a = a := by
        rw [gatherB, if_pos e1]
      simp only [Option.isSome_some, ↓reduceIte, hB0]
      rw [(R.reg f hb).1]
      simp only [List.foldl_nil]
      rw [gatherFlags_eq R (n + 1) (n + 1) (some f) _ hN (fun c hc h => absurd h ((R.reg f hb).2 c hc))]
      have h2 : π.filter (fun c => g.getBool (some f) c = some true) = [] := by
        apply List.filter_eq_nil_iff.mpr
        intro c hc
        simpa using (R.reg f hb).2 c hc
      rw [h2]
      simp only [List.foldl_nil]
      exact ⟨⟨[], rfl, by rw [hpre]; rfl⟩, ha⟩
    | none =>
      simp only [Option.isSome_none, Bool.false_eq_true, ↓reduceIte]
      have hch := childrenOf_custom R f hl
      rw [foldl_all_contained _ _ _ (fun c hc => by
        by_cases hcf : c = f
        · subst hcf; exact List.mem_cons_self
        · exact List.mem_cons_of_mem _ (hclosed c (by
            rw [hch]
            exact List.mem_append_left _ (List.mem_filter.mpr ⟨hc, by simpa using hcf⟩))))]
      rw [gatherFlags_eq R (n + 1) (n + 1) (some f) _ hN (fun c _ _ => by have := R.bound c; omega)]
      rw [foldl_dfs_all_mem _ _ _ _ (fun c hc =>
        List.mem_cons_of_mem _ (hclosed c (by rw [hch]; exact List.mem_append_right _ hc)))]
      refine ⟨⟨[f], rfl, ?_⟩, ?_⟩
      · rw [hpre]
        exact dedupFrom_all_mem _ _ (fun x hx => by simp at hx; subst hx; exact hf)
      · intro v hv hvr c hc
        cases hv with
        | head => exact List.mem_cons_of_mem _ (hclosed c hc)
        | tail _ hv' => exact List.mem_cons_of_mem _ (ha v hv' hvr c hc)
  · have e1 : a.contains f = false := by simpa using hf
    have h := gatherR_eq_dfs R N hN N f a (by omega)
    rw [if_neg (by rw [e1]; exact Bool.false_ne_true)] at h
    rw [h]
    exact stepOK_dfs' R N d f hN hd a ha

end

theorem cliFlagOrder_builtin : ∀ p ∈ Generated.Options.cliFlagOrder, p.2 ∈ builtinNames := by decide

/-- `gather_features` (git config object present), any sufficient fuel: the gathered list, read
    from its high-priority end and de-duplicated, is the documented order. -/
theorem gatherFeaturesWith_spec (π : List Name) (inp : Inputs) (g : GitCfg)
    (hg : finalConfig inp = some g) (rank : Name → Nat) (B : Nat)
    (R : Regular (builtinsFor inp) (keysOf (builtinsFor inp) π) g rank B)
    (N d : Nat) (hN : B ≤ N) (hd : B ≤ d) :
    dedup (gatherFeaturesWith N π inp).reverse = specOrder d (keysOf (builtinsFor inp) π) inp g := by
  unfold gatherFeaturesWith specOrder roots
  simp only [hg]
  generalize hbs : builtinsFor inp = bs at R ⊢
  generalize hK : keysOf bs π = K at R ⊢
  -- phase 1: --features / DELTA_FEATURES
  have G0 : Good (childrenOf bs K g) rank B [] [] :=
    ⟨rfl, fun x => Iff.rfl, fun v hv => absurd hv List.not_mem_nil⟩
  have G1 := good_foldl (d := d) (fun r => gatherR bs K N g N r) (inputFeatures inp)
    (fun r _ => stepOK_gatherR R N d r hN hd) [] [] G0
  -- phase 2: command-line flags
  have e2 : ∀ a, Generated.Options.cliFlagOrder.foldl
        (fun a (p : String × String) => if flagOn inp p.1 then gatherB bs K N p.2 a else a) a =
      ((Generated.Options.cliFlagOrder.filter (fun p => flagOn inp p.1)).map (·.2)).foldl
        (fun a r => gatherB bs K N r a) a := by
    intro a
    rw [List.foldl_map, foldl_filter']
  rw [e2]
  have G2 := good_foldl (d := d) (fun r => gatherB bs K N r)
    ((Generated.Options.cliFlagOrder.filter (fun p => flagOn inp p.1)).map (·.2))
    (fun r hr => by
      obtain ⟨p, hp, rfl⟩ := List.mem_map.mp hr
      exact stepOK_gatherB R N d p.2 (cliFlagOrder_builtin p (List.mem_filter.mp hp).1) hN hd)
    _ _ G1
  -- phase 3: [delta] features
  have e3 : ∀ a, (if featuresIsNone inp then
        (secFeatures g none).foldl (fun a f => gatherR bs K N g N f a) a else a) =
      (if featuresIsNone inp then secFeatures g none else []).foldl
        (fun a f => gatherR bs K N g N f a) a := by
    intro a
    by_cases h : featuresIsNone inp <;> simp [h]
  rw [e3]
  have G3 := good_foldl (d := d) (fun r => gatherR bs K N g N r)
    (if featuresIsNone inp then secFeatures g none else [])
    (fun r _ => stepOK_gatherR R N d r hN hd) _ _ G2
  -- phase 4: feature flags in [delta]
  rw [gatherFlags_eq R N N none _ hN (fun c _ _ => by have := R.bound c; omega)]
  have G4 := good_foldl (d := d) (fun r => dfs (childrenOf bs K g) N r)
    (K.filter (fun c => g.getBool none c = some true))
    (fun r _ => stepOK_dfs' R N d r hN hd) _ _ G3
  have := G4.dd
  simp only [List.nil_append] at this
  rw [this]
  simp only [List.flatMap_append]

/-- The same for the model's own fuel. -/
theorem gatherFeatures_spec (π : List Name) (inp : Inputs) (g : GitCfg)
    (hg : finalConfig inp = some g) (rank : Name → Nat) (B : Nat)
    (R : Regular (builtinsFor inp) (keysOf (builtinsFor inp) π) g rank B) (d : Nat) (hd : B ≤ d) :
    dedup (gatherFeatures π inp).reverse = specOrder d (keysOf (builtinsFor inp) π) inp g := by
  have hmax := gatherFeaturesWith_stable π inp
    (max (fuelFor (builtinsFor inp) (keysOf (builtinsFor inp) π) inp (finalConfig inp)) B)
    (Nat.le_max_left _ _)
  rw [← hmax]
  exact gatherFeaturesWith_spec π inp g hg rank B R _ d (Nat.le_max_right _ _) hd

/-! ### Checkable form of the hypotheses -/

/-- Rank of a name given as a table (default 0). -/
def rankOf (rk : List (Name × Nat)) (f : Name) : Nat := (lookup f rk).getD 0

/-- The names that can have children: keys of the builtin map and git config sections. -/
def graphNodes (bs : Builtins) (g : GitCfg) : List Name := bs.map (·.1) ++ g.file.sections.map (·.1)

theorem lookup_isSome_mem {β : Type} (k : String) (l : List (String × β)) (h : (lookup k l).isSome = true) :
    k ∈ l.map (·.1) := by
  cases hl : lookup k l with
  | none => rw [hl] at h; simp at h
  | some v => exact List.mem_map.mpr ⟨(k, v), lookup_mem k l v hl, rfl⟩

theorem childrenAll_node (bs : Builtins) (π : List Name) (g : GitCfg) (f c : Name)
    (hc : c ∈ childrenAll bs π g f) : f ∈ graphNodes bs g := by
  unfold graphNodes
  unfold childrenAll at hc
  simp only [List.mem_append] at hc ⊢
  rcases hc with (h | h) | h
  · cases hl : lookup f bs with
    | none => simp [hl] at h
    | some t => exact Or.inl (lookup_isSome_mem f bs (by simp [hl]))
  · right
    unfold secFeatures at h
    rw [get_section] at h
    by_cases he : g.enabled
    · simp only [he, ↓reduceIte] at h
      cases hs : lookup f g.file.sections with
      | none => simp [hs] at h
      | some sct => exact lookup_isSome_mem f _ (by simp [hs])
    · simp [he] at h
  · right
    have hb := (List.mem_filter.mp h).2
    simp only [decide_eq_true_eq] at hb
    rw [getBool_section] at hb
    by_cases he : g.enabled
    · simp only [he, ↓reduceIte] at hb
      cases hs : lookup f g.file.sections with
      | none => simp [hs] at hb
      | some sct => exact lookup_isSome_mem f _ (by simp [hs])
    · simp [he] at hb

theorem allBuiltins_features_closed :
    ∀ p ∈ allBuiltins, p.1 ∈ builtinNames ∧ ∀ c ∈ featuresOf p.2, c ∈ builtinNames := by
  decide

/-- `Regular` from finitely many decidable checks. -/
theorem regular_of_checks (π : List Name) (inp : Inputs) (g : GitCfg) (rk : List (Name × Nat)) (B : Nat)
    (hdec : ∀ f ∈ graphNodes (builtinsFor inp) g,
      ∀ c ∈ childrenOf (builtinsFor inp) (keysOf (builtinsFor inp) π) g f, rankOf rk c < rankOf rk f)
    (hbound : ∀ p ∈ rk, p.2 < B) (hB : 0 < B) (hπ : ∀ c ∈ π, c ∈ builtinNames)
    (hreg : ∀ b ∈ builtinNames, secFeatures g (some b) = [] ∧
      ∀ c ∈ keysOf (builtinsFor inp) π, g.getBool (some b) c ≠ some true) :
    Regular (builtinsFor inp) (keysOf (builtinsFor inp) π) g (rankOf rk) B := by
  refine ⟨?_, ?_, ?_, ?_, ?_, hreg⟩
  · intro f c hc
    exact hdec f (childrenAll_node _ _ g f c (List.mem_filter.mp hc).1) c hc
  · intro f
    unfold rankOf
    cases hl : lookup f rk with
    | none => simpa using hB
    | some v => simpa using hbound (f, v) (lookup_mem f rk v hl)
  · intro c hc
    exact hπ c (List.mem_filter.mp hc).1
  · intro c hc
    exact (List.mem_filter.mp hc).2
  · intro f t hl
    have hmem : (f, t) ∈ builtinsFor inp := lookup_mem f _ t hl
    have hall : (f, t) ∈ allBuiltins := by
      unfold builtinsFor at hmem
      split at hmem
      · exact (List.mem_filter.mp hmem).1
      · exact hmem
    exact allBuiltins_features_closed (f, t) hall

/-! ### A first-`some` search does not see duplicates -/

theorem firstSome_flatMap_dedupFrom {α : Type} (F : Name → List (Option α)) (l : List Name) :
    ∀ (seen : List Name), (∀ x ∈ seen, firstSome (F x) = none) →
      firstSome (l.flatMap F) = firstSome ((dedupFrom seen l).flatMap F) := by
  induction l with
  | nil => intro seen _; rfl
  | cons x xs ih =>
    intro seen hseen
    by_cases hx : x ∈ seen
    · rw [dedupFrom_cons_pos _ hx, List.flatMap_cons, firstSome_append, hseen x hx]
      simpa using ih seen hseen
    · rw [dedupFrom_cons_neg _ hx, List.flatMap_cons, List.flatMap_cons, firstSome_append, firstSome_append]
      cases hF : firstSome (F x) with
      | some v => rfl
      | none =>
        simp only [Option.none_or]
        exact ih (x :: seen) (fun y hy => by
          cases hy with
          | head => exact hF
          | tail _ h => exact hseen y h)

theorem firstSome_flatMap_dedup {α : Type} (F : Name → List (Option α)) (l : List Name) :
    firstSome (l.flatMap F) = firstSome ((dedup l).flatMap F) :=
  firstSome_flatMap_dedupFrom F l [] (fun _ h => absurd h List.not_mem_nil)

end Options
