import DeltaModel.Wrap
/-
C07 helper: the alignment walk of `wrap_minusplus_block` (`Wrap.blockStep` / `Wrap.blockLoop`).
-/
namespace Wrap

theorem drop_cons_facts {l : List Nat} {n c : Nat} {t : List Nat} (h : l.drop n = c :: t) :
    (l.take (n + 1)).sum = (l.take n).sum + c ∧ l.drop (n + 1) = t ∧
    (l.take (n + 1)) = l.take n ++ [c] ∧ l[n]? = some c := by
  induction l generalizing n with
  | nil => simp at h
  | cons a l ih =>
    cases n with
    | zero => simp at h; obtain ⟨rfl, rfl⟩ := h; simp
    | succ n =>
      simp at h
      obtain ⟨h1, h2, h3, h4⟩ := ih h
      refine ⟨?_, ?_, ?_, ?_⟩
      · simp only [List.take_succ_cons, List.sum_cons, h1]; omega
      · simpa using h2
      · simp only [List.take_succ_cons, h3, List.cons_append]
      · simpa using h4

/-- Invariant of the walk, relative to the original per-line row counts `mc0`, `pc0`. -/
structure BInv (mc0 pc0 : List Nat) (b : BSt) : Prop where
  mOff : b.mOff = (mc0.take b.mExp).sum
  pOff : b.pOff = (pc0.take b.pExp).sum
  mc : b.mc = mc0.drop b.mExp
  pc : b.pc = pc0.drop b.pExp
  ms : b.ms = (mc0.take b.mExp).flatMap lineStates
  ps : b.ps = (pc0.take b.pExp).flatMap lineStates
  alm : b.al.filterMap (·.1) = List.range b.mOff
  alp : b.al.filterMap (·.2) = List.range b.pOff

theorem bInv_init (mc pc : List Nat) : BInv mc pc (initB mc pc) := by
  refine ⟨?_, ?_, ?_, ?_, ?_, ?_, ?_, ?_⟩ <;> simp [initB]

theorem lineStates_length (n : Nat) : (lineStates n).length = n := by
  cases n <;> simp [lineStates]

theorem filterMap_fst_left (l : List Nat) :
    (l.map fun i => ((some i, none) : Option Nat × Option Nat)).filterMap (·.1) = l := by
  induction l with
  | nil => rfl
  | cons a l ih => simp [ih]

theorem filterMap_snd_left (l : List Nat) :
    (l.map fun i => ((some i, none) : Option Nat × Option Nat)).filterMap (·.2) = [] := by
  induction l with
  | nil => rfl
  | cons a l ih => simp [ih]

theorem filterMap_fst_right (l : List Nat) :
    (l.map fun i => ((none, some i) : Option Nat × Option Nat)).filterMap (·.1) = [] := by
  induction l with
  | nil => rfl
  | cons a l ih => simp [ih]

theorem filterMap_snd_right (l : List Nat) :
    (l.map fun i => ((none, some i) : Option Nat × Option Nat)).filterMap (·.2) = l := by
  induction l with
  | nil => rfl
  | cons a l ih => simp [ih]

theorem filterMap_fst_both (a b k : Nat) :
    ((List.range k).map fun i => ((some (a + i), some (b + i)) : Option Nat × Option Nat)).filterMap (·.1)
      = List.range' a k := by
  induction k generalizing a b with
  | zero => rfl
  | succ k ih =>
    rw [List.range_succ_eq_map]
    simp only [List.map_cons, List.map_map, List.filterMap_cons, Nat.add_zero]
    have := ih (a + 1) (b + 1)
    simp only [List.range'_succ]
    congr 1
    rw [← this]
    congr 1
    apply List.map_congr_left
    intro i _
    simp only [Function.comp]
    congr 2 <;> omega

theorem filterMap_snd_both (a b k : Nat) :
    ((List.range k).map fun i => ((some (a + i), some (b + i)) : Option Nat × Option Nat)).filterMap (·.2)
      = List.range' b k := by
  induction k generalizing a b with
  | zero => rfl
  | succ k ih =>
    rw [List.range_succ_eq_map]
    simp only [List.map_cons, List.map_map, List.filterMap_cons, Nat.add_zero]
    have := ih (a + 1) (b + 1)
    simp only [List.range'_succ]
    congr 1
    rw [← this]
    congr 1
    apply List.map_congr_left
    intro i _
    simp only [Function.comp]
    congr 2 <;> omega

theorem range_append_range' (a c : Nat) : List.range a ++ List.range' a c = List.range (a + c) := by
  rw [List.range_eq_range', List.range_eq_range']
  have := List.range'_append (s := 0) (m := a) (n := c) (step := 1)
  simp at this
  exact this

theorem range'_split (a k c : Nat) (h : k ≤ c) :
    List.range' a k ++ List.range' (a + k) (c - k) = List.range' a c := by
  have := List.range'_append (s := a) (m := k) (n := c - k) (step := 1)
  simp only [Nat.one_mul] at this
  rw [this]
  congr 1
  omega

theorem bInv_step {mc0 pc0 : List Nat} {b b' : BSt} {e : Option Nat × Option Nat}
    (hi : BInv mc0 pc0 b) (h : blockStep b e = .ok b') : BInv mc0 pc0 b' := by
  obtain ⟨hmo, hpo, hmc, hpc, hms, hps, halm, halp⟩ := hi
  obtain ⟨m, p⟩ := e
  cases m with
  | none =>
    cases p with
    | none => simp [blockStep] at h
    | some p =>
      simp only [blockStep] at h
      split at h
      · cases h
      · split at h
        · cases h
        · rename_i c pc' hpcq
          cases h
          obtain ⟨f1, f2, f3, _⟩ := drop_cons_facts (hpc ▸ hpcq)
          refine ⟨hmo, ?_, hmc, ?_, hms, ?_, ?_, ?_⟩
          · simp only [f1, hpo]
          · simp only [f2]
          · simp only [f3, List.flatMap_append, hps]; simp
          · simp only [List.filterMap_append, filterMap_fst_right, halm, List.append_nil]
          · simp only [List.filterMap_append, filterMap_snd_right, halp, range_append_range']
  | some m =>
    cases p with
    | none =>
      simp only [blockStep] at h
      split at h
      · cases h
      · split at h
        · cases h
        · rename_i c mc' hmcq
          cases h
          obtain ⟨f1, f2, f3, _⟩ := drop_cons_facts (hmc ▸ hmcq)
          refine ⟨?_, hpo, ?_, hpc, ?_, hps, ?_, ?_⟩
          · simp only [f1, hmo]
          · simp only [f2]
          · simp only [f3, List.flatMap_append, hms]; simp
          · simp only [List.filterMap_append, filterMap_fst_left, halm, range_append_range']
          · simp only [List.filterMap_append, filterMap_snd_left, halp, List.append_nil]
    | some p =>
      simp only [blockStep] at h
      split at h
      · cases h
      · split at h
        · cases h
        · rename_i cm mc' hmcq
          split at h
          · cases h
          · split at h
            · cases h
            · rename_i cp pc' hpcq
              cases h
              obtain ⟨f1, f2, f3, _⟩ := drop_cons_facts (hmc ▸ hmcq)
              obtain ⟨g1, g2, g3, _⟩ := drop_cons_facts (hpc ▸ hpcq)
              refine ⟨?_, ?_, ?_, ?_, ?_, ?_, ?_, ?_⟩
              · simp only [f1, hmo]
              · simp only [g1, hpo]
              · simp only [f2]
              · simp only [g2]
              · simp only [f3, List.flatMap_append, hms]; simp
              · simp only [g3, List.flatMap_append, hps]; simp
              · simp only [List.filterMap_append, filterMap_fst_both, filterMap_fst_left,
                  filterMap_fst_right, halm, List.append_nil, List.append_assoc]
                rw [range'_split _ _ _ (Nat.min_le_left cm cp), range_append_range']
              · simp only [List.filterMap_append, filterMap_snd_both, filterMap_snd_left,
                  filterMap_snd_right, halp, List.append_nil, List.nil_append, List.append_assoc]
                rw [range'_split _ _ _ (Nat.min_le_right cm cp), range_append_range']

theorem bInv_loop {mc0 pc0 : List Nat} : ∀ (al : Align) (b b' : BSt),
    BInv mc0 pc0 b → blockLoop b al = .ok b' → BInv mc0 pc0 b' := by
  intro al
  induction al with
  | nil => intro b b' hi h; simp [blockLoop] at h; subst h; exact hi
  | cons e es ih =>
    intro b b' hi h
    unfold blockLoop at h
    split at h
    · cases h
    · rename_i b2 hb2
      exact ih b2 b' (bInv_step hi hb2) h

/-- The walk only appends to the output alignment and the states. -/
theorem blockStep_mono {b b' : BSt} {e : Option Nat × Option Nat} (h : blockStep b e = .ok b') :
    (∃ x, b'.al = b.al ++ x) ∧ (∃ x, b'.ms = b.ms ++ x) ∧ (∃ x, b'.ps = b.ps ++ x) := by
  obtain ⟨m, p⟩ := e
  cases m <;> cases p <;> simp only [blockStep] at h
  · cases h
  · split at h
    · cases h
    · split at h
      · cases h
      · cases h; exact ⟨⟨_, rfl⟩, ⟨[], by simp⟩, ⟨_, rfl⟩⟩
  · split at h
    · cases h
    · split at h
      · cases h
      · cases h; exact ⟨⟨_, rfl⟩, ⟨_, rfl⟩, ⟨[], by simp⟩⟩
  · split at h
    · cases h
    · split at h
      · cases h
      · split at h
        · cases h
        · split at h
          · cases h
          · cases h; exact ⟨⟨_, by simp only [List.append_assoc]; rfl⟩, ⟨_, rfl⟩, ⟨_, rfl⟩⟩

theorem blockLoop_mono : ∀ (al : Align) (b b' : BSt), blockLoop b al = .ok b' →
    (∃ x, b'.al = b.al ++ x) ∧ (∃ x, b'.ms = b.ms ++ x) ∧ (∃ x, b'.ps = b.ps ++ x) := by
  intro al
  induction al with
  | nil => intro b b' h; simp [blockLoop] at h; subst h; exact ⟨⟨[], by simp⟩, ⟨[], by simp⟩, ⟨[], by simp⟩⟩
  | cons e es ih =>
    intro b b' h
    unfold blockLoop at h
    split at h
    · cases h
    · rename_i b2 hb2
      obtain ⟨⟨x1, h1⟩, ⟨x2, h2⟩, ⟨x3, h3⟩⟩ := blockStep_mono hb2
      obtain ⟨⟨y1, k1⟩, ⟨y2, k2⟩, ⟨y3, k3⟩⟩ := ih b2 b' h
      exact ⟨⟨x1 ++ y1, by rw [k1, h1, List.append_assoc]⟩, ⟨x2 ++ y2, by rw [k2, h2, List.append_assoc]⟩,
        ⟨x3 ++ y3, by rw [k3, h3, List.append_assoc]⟩⟩

theorem blockLoop_append : ∀ (pre : Align) (post : Align) (b b' : BSt),
    blockLoop b (pre ++ post) = .ok b' → ∃ b1, blockLoop b pre = .ok b1 ∧ blockLoop b1 post = .ok b' := by
  intro pre
  induction pre with
  | nil => intro post b b' h; exact ⟨b, rfl, h⟩
  | cons e es ih =>
    intro post b b' h
    simp only [List.cons_append] at h
    unfold blockLoop at h
    split at h
    · cases h
    · rename_i b2 hb2
      obtain ⟨b1, h1, h2⟩ := ih post b2 b' h
      refine ⟨b1, ?_, h2⟩
      unfold blockLoop
      rw [hb2]
      exact h1

end Wrap
