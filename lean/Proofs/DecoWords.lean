import DeltaModel.DecoWords
import Proofs.StyleDenote
import Proofs.StyleTokens
/-!
Decoration words inside style strings: the table-driven functions of `DeltaModel/DecoWords.lean` equal the hand-written
`DeltaStyle.parseDeco` / `fromStrSpecial`; the decoration attributes are a function of the *set* of words; the text part of
an element style is the parse of the string with its decoration words removed; no word list reaches `delta_unreachable`.
-/
namespace DecoWords
open DeltaStyle Generated.DecoArms Generated.StyleTables

/-! ### The generated arms, evaluated -/

/-- Every set of decoration attributes is caught by an explicit arm of `DecorationStyle::from_str`: the two trailing
arms (`_ if is_omitted`, `_ => delta_unreachable`) are dead. -/
theorem runArms_fromStr (a : DecoAttrs) (om : Bool) : runArms decoFromStrArms (attrBits a) om = .kind a.kind := by
  obtain ⟨b, o, u⟩ := a
  cases b <;> cases o <;> cases u <;> cases om <;> decide

/-- `apply_special_decoration_attributes`: no word = keep the decoration; otherwise the variant of the words; the
trailing `_ => NoDecoration` arm is dead. -/
theorem runArms_apply (a : DecoAttrs) :
    runArms decoApplyArms (attrBits a) false = (match a.kind with | none => .keep | some k => .kind (some k)) := by
  obtain ⟨b, o, u⟩ := a
  cases b <;> cases o <;> cases u <;> decide

theorem wrapper_deco : wrapperFlag decoFromStrExtractor = true := by decide
theorem wrapper_special : wrapperFlag specialExtractor = false := by decide

theorem checks_eq (p : Parsed) : firstFailedCheck p decoFromStrChecks =
    if p.raw then some .rawInDecoration else if p.synt then some .syntaxInDecoration else none := by
  obtain ⟨a, o, r, y⟩ := p
  cases r <;> cases y <;> rfl

theorem payload_of_every_variant (k : DecoKind) : decoApplyPayload.lookup (variantName k) = some "payload" := by
  cases k <;> decide

theorem basePayload_eq (deco : Option (DecoKind × Sgr.Style)) :
    basePayload deco = (match deco with | some (_, a) => a | none => {}) := by
  match deco with
  | none => rfl
  | some (k, a) => simp [basePayload, payload_of_every_variant]

/-- The table-driven `DecorationStyle::from_str` is the hand-written one. -/
theorem parseDecoT_eq (env : Env) (s : List Char) : parseDecoT env s = parseDeco env s := by
  unfold parseDecoT parseDeco
  rw [wrapper_deco]
  generalize extractDeco true s = r
  obtain ⟨a, s'⟩ := r
  simp only
  cases parseAnsi env none s' with
  | error e => rfl
  | ok p =>
    simp only [checks_eq, runArms_fromStr]
    by_cases hr : p.raw = true
    · simp [hr]
    · by_cases hs : p.synt = true
      · simp [hr, hs]
      · simp [hr, hs]

theorem fromStrT_eq (env : Env) (d : Option DStyle) (s : List Char) (decoS : Option (List Char)) :
    fromStrT env d s decoS = fromStr env d s decoS := by
  unfold fromStrT fromStr
  have hd : decoDefaultString.toList = [] := by decide
  cases decoS with
  | none => simp only [parseDecoT_eq, hd, Option.getD_none]; rfl
  | some x => simp only [parseDecoT_eq, Option.getD_some]; rfl

/-- The table-driven `from_str_with_handling_of_special_decoration_attributes` is the hand-written one. -/
theorem fromStrSpecialT_eq (env : Env) (d : Option DStyle) (s : List Char) (decoS : Option (List Char)) :
    fromStrSpecialT env d s decoS = fromStrSpecial env d s decoS := by
  unfold fromStrSpecialT fromStrSpecial
  rw [wrapper_special]
  generalize extractDeco false s = r
  obtain ⟨sp, s'⟩ := r
  simp only [fromStrT_eq]
  cases fromStr env d s' decoS with
  | error e => rfl
  | ok st =>
    simp only [applySpecialT, runArms_apply, basePayload_eq]
    cases sp.kind <;> rfl

/-! ### The attributes are a function of the set of words -/

/-- Does some word of the list set `flag`? -/
def requests (b : Bool) (flag : String) (ws : List String) : Bool := ws.any fun w => classify b w == some flag

theorem add_eq (a : DecoAttrs) (attr : String) :
    a.add attr = ⟨a.box || attr == "BOX", a.ol || attr == "OVERLINE", a.ul || attr == "UNDERLINE"⟩ := by
  obtain ⟨x, y, z⟩ := a
  unfold DecoAttrs.add
  split <;> simp_all

theorem extractDecoWords_eq (b : Bool) (ws : List String) :
    extractDecoWords b ws =
      (⟨requests b "BOX" ws, requests b "OVERLINE" ws, requests b "UNDERLINE" ws⟩,
       ws.filter fun w => (classify b w).isNone) := by
  induction ws with
  | nil => rfl
  | cons w ws ih =>
    unfold extractDecoWords
    rw [ih]
    simp only [requests, List.any_cons, List.filter_cons, classify]
    cases h : decoWords.find? (fun e => e.1 = w ∧ (e.2.2 = "always" ∨ b)) with
    | none => simp
    | some e =>
      obtain ⟨x, attr, y⟩ := e
      simp [add_eq, Bool.or_comm]

/-- **The decoration attributes depend on the set of words only**: two word lists with the same members (any order,
any repetition) give the same attributes. -/
theorem attrs_of_same_word_set (b : Bool) (ws ws' : List String) (h : ∀ w, w ∈ ws ↔ w ∈ ws') :
    (extractDecoWords b ws).1 = (extractDecoWords b ws').1 := by
  have hany : ∀ f : String → Bool, ws.any f = ws'.any f := by
    intro f
    rw [Bool.eq_iff_iff, List.any_eq_true, List.any_eq_true]
    exact ⟨fun ⟨x, hx, hf⟩ => ⟨x, (h x).mp hx, hf⟩, fun ⟨x, hx, hf⟩ => ⟨x, (h x).mpr hx, hf⟩⟩
  rw [extractDecoWords_eq, extractDecoWords_eq]
  simp only [requests, hany]

/-- A word that is not in the generated table stays in the style string. -/
theorem classify_some_mem (b : Bool) (w flag : String) (h : classify b w = some flag) :
    w ∈ decoWords.map (·.1) := by
  unfold classify at h
  rw [Option.map_eq_some_iff] at h
  obtain ⟨e, hf, _⟩ := h
  have hm := List.mem_of_find?_eq_some hf
  have hp := List.find?_some hf
  simp only [decide_eq_true_eq] at hp
  exact List.mem_map.mpr ⟨e, hm, hp.1⟩

/-! ### The text part of an element style -/

theorem stripped_eq (s : List Char) :
    stripped s = joinWords ((words s).filter fun w => (classify false w).isNone) := by
  unfold stripped extractDeco
  rw [extractDecoWords_eq]

theorem attrs_eq (b : Bool) (s : List Char) :
    (extractDeco b s).1 = ⟨requests b "BOX" (words s), requests b "OVERLINE" (words s), requests b "UNDERLINE" (words s)⟩ := by
  unfold extractDeco
  rw [extractDecoWords_eq]

/-- What `fromStrSpecial` returns, in one piece: the text part is the parse of the stripped string; the decoration is
that of the decoration option unless the style string itself holds decoration words — then their kind, with the
colours of the decoration option. -/
theorem fromStrSpecial_ok (env : Env) (d : Option DStyle) (s : List Char) (decoS : Option (List Char)) (st : DStyle)
    (h : fromStrSpecial env d s decoS = .ok st) :
    parseAnsi env d (stripped s) = .ok (textPart st) ∧ st.isEmph = false ∧
    ∃ dd, parseDeco env (decoS.getD []) = .ok dd ∧
      st.deco = (match (extractDeco false s).1.kind with
        | none => dd
        | some k => some (k, match dd with | some (_, a) => a | none => {})) := by
  unfold fromStrSpecial at h
  unfold stripped
  generalize extractDeco false s = r at h ⊢
  obtain ⟨sp, s'⟩ := r
  simp only at h ⊢
  unfold fromStr at h
  cases hp : parseAnsi env d s' with
  | error e => simp [hp] at h
  | ok p =>
    cases hd : parseDeco env (decoS.getD []) with
    | error e => simp [hp, hd] at h
    | ok dd =>
      simp only [hp, hd] at h
      cases hk : sp.kind with
      | none =>
        simp only [hk] at h
        injection h with h
        subst h
        exact ⟨rfl, rfl, dd, rfl, rfl⟩
      | some k =>
        simp only [hk] at h
        injection h with h
        subst h
        exact ⟨rfl, rfl, dd, rfl, rfl⟩

/-- Conversely: the only ways `fromStrSpecial` fails are the failures of the two parses. -/
theorem fromStrSpecial_error (env : Env) (d : Option DStyle) (s : List Char) (decoS : Option (List Char)) (e : Fatal)
    (h : fromStrSpecial env d s decoS = .error e) :
    parseAnsi env d (stripped s) = .error e ∨ parseDeco env (decoS.getD []) = .error e := by
  unfold fromStrSpecial at h
  unfold stripped
  generalize extractDeco false s = r at h ⊢
  obtain ⟨sp, s'⟩ := r
  simp only at h ⊢
  unfold fromStr at h
  cases hp : parseAnsi env d s' with
  | error e' => simp [hp] at h; exact Or.inl (by rw [h])
  | ok p =>
    cases hd : parseDeco env (decoS.getD []) with
    | error e' => simp [hp, hd] at h; exact Or.inr (by rw [h])
    | ok dd =>
      simp only [hp, hd] at h
      cases hk : sp.kind <;> simp [hk] at h

/-! ### No word list reaches `delta_unreachable` -/

theorem parseColor_not_unreachable (env : Env) (w : String) : parseColor env w ≠ .error .unreachable := by
  unfold parseColor
  split
  · simp
  · split <;> simp

theorem stepColour_not_unreachable (env : Env) (d : Option DStyle) (st : PState) (w : String) :
    stepColour env d st w ≠ .error .unreachable := by
  cases h : parseColor env w with
  | ok c =>
    simp only [stepColour, h]
    repeat' split
    all_goals simp
  | error e =>
    have he : e ≠ .unreachable := fun x => parseColor_not_unreachable env w (x ▸ h)
    simp only [stepColour, h]
    repeat' split
    all_goals simp [he]

theorem loop_not_unreachable (env : Env) (d : Option DStyle) (ws : List String) (st : PState) :
    loop env d st ws ≠ .error .unreachable := by
  induction ws generalizing st with
  | nil => simp [loop]
  | cons w ws ih =>
    unfold loop
    cases h : stepWord env d st w with
    | ok st' => exact ih st'
    | error e =>
      simp only
      intro he
      injection he with he
      subst he
      unfold stepWord at h
      split at h
      · simp at h
      · exact stepColour_not_unreachable env d st w h

theorem parseAnsi_not_unreachable (env : Env) (d : Option DStyle) (s : List Char) :
    parseAnsi env d s ≠ .error .unreachable := by
  unfold parseAnsi parseWords
  cases h : loop env d {} (words s) with
  | ok st => simp
  | error e =>
    simp only
    intro he
    injection he with he
    subst he
    exact loop_not_unreachable env d (words s) {} h

theorem parseDeco_not_unreachable (env : Env) (s : List Char) : parseDeco env s ≠ .error .unreachable := by
  unfold parseDeco
  generalize extractDeco true s = r
  obtain ⟨a, s'⟩ := r
  simp only
  cases h : parseAnsi env none s' with
  | error e =>
    simp only
    intro he
    injection he with he
    subst he
    exact parseAnsi_not_unreachable env none s' h
  | ok p =>
    simp only
    split
    · simp
    · split <;> simp

/-! ### Word-level form for clean words -/

/-- Words as the tokenizer prints them back unchanged: non-empty, no whitespace, lower case, no quote characters. -/
def CleanWords (ws : List String) : Prop := ∀ w ∈ ws, Tok w.toList ∧ ∀ c ∈ w.toList, isQuote c = false

instance (ws : List String) : Decidable (CleanWords ws) := by unfold CleanWords; exact inferInstance

theorem words_join_clean (ws : List String) (h : CleanWords ws) : words (joinWords ws) = ws := by
  rw [words_joinWords ws (fun w hw => (h w hw).1)]
  conv => rhs; rw [← List.map_id ws]
  apply List.map_congr_left
  intro w hw
  rw [trimQuotes_noquote _ (h w hw).2]
  simp [String.ofList_toList]

/-- For clean words the stripped string tokenizes to the words that are not decoration words. -/
theorem words_stripped (s : List Char) (h : CleanWords (words s)) :
    words (stripped s) = (words s).filter fun w => (classify false w).isNone := by
  rw [stripped_eq]
  exact words_join_clean _ (fun w hw => h w (List.mem_filter.mp hw).1)

/-! ### The words, in closed form (over the generated tables) -/

/-- The words that set `flag` in a decoration string (`b = true`) / in an element's own style string (`b = false`). -/
def wordsFor (b : Bool) (flag : String) : List String :=
  (decoWords.filter fun e => e.2.1 = flag ∧ (e.2.2 = "always" ∨ b)).map (·.1)

/-- The words `_extract_special_decoration_attributes` takes out of an element's own style string. -/
def elementDecoWords : List String := (decoWords.filter fun e => e.2.2 = "always").map (·.1)

/-- The words the parser reads as attribute `a`. -/
def attrWords (a : Sgr.Attr) : List String :=
  (parseWordEffect.filter fun e => decodeEffect e.2 = some (.attr a)).map (·.1)

theorem classify_iff (b : Bool) (flag : String) (hflag : flag ∈ ["BOX", "OVERLINE", "UNDERLINE", "EMPTY"]) (w : String) :
    classify b w = some flag ↔ w ∈ wordsFor b flag := by
  constructor
  · intro h
    unfold classify at h
    rw [Option.map_eq_some_iff] at h
    obtain ⟨e, hf, he⟩ := h
    have hm := List.mem_of_find?_eq_some hf
    have hp := List.find?_some hf
    simp only [decide_eq_true_eq] at hp
    refine List.mem_map.mpr ⟨e, List.mem_filter.mpr ⟨hm, ?_⟩, hp.1⟩
    simp only [decide_eq_true_eq]
    exact ⟨he, hp.2⟩
  · have hall : ∀ b : Bool, ∀ flag ∈ ["BOX", "OVERLINE", "UNDERLINE", "EMPTY"], ∀ w ∈ wordsFor b flag,
        classify b w = some flag := by decide
    exact hall b flag hflag w

theorem classify_none_iff (w : String) : classify false w = none ↔ w ∉ elementDecoWords := by
  constructor
  · intro h hm
    have hall : ∀ w ∈ elementDecoWords, (classify false w).isSome = true := by decide
    have := hall w hm
    rw [h] at this
    simp at this
  · intro h
    cases hc : classify false w with
    | none => rfl
    | some flag =>
      exfalso
      apply h
      unfold classify at hc
      rw [Option.map_eq_some_iff] at hc
      obtain ⟨e, hf, _⟩ := hc
      have hm := List.mem_of_find?_eq_some hf
      have hp := List.find?_some hf
      simp only [decide_eq_true_eq] at hp
      refine List.mem_map.mpr ⟨e, List.mem_filter.mpr ⟨hm, ?_⟩, hp.1⟩
      simpa using hp.2

theorem mem_of_lookup (k : String) (l : List (String × String)) (v : String) (h : l.lookup k = some v) : (k, v) ∈ l := by
  induction l with
  | nil => simp [List.lookup] at h
  | cons x xs ih =>
    obtain ⟨a, c⟩ := x
    simp only [List.lookup] at h
    split at h
    · rename_i heq
      have : k = a := by simpa using heq
      injection h with h
      subst h; subst this
      exact List.mem_cons_self
    · exact List.mem_cons_of_mem _ (ih h)

theorem effectOf_attr_iff (a : Sgr.Attr) (w : String) : effectOf w = some (.attr a) ↔ w ∈ attrWords a := by
  constructor
  · intro h
    unfold effectOf at h
    rw [Option.bind_eq_some_iff] at h
    obtain ⟨e, hl, hd⟩ := h
    refine List.mem_map.mpr ⟨(w, e), List.mem_filter.mpr ⟨mem_of_lookup w _ e hl, ?_⟩, rfl⟩
    simpa using hd
  · have hall : ∀ a : Sgr.Attr, ∀ w ∈ attrWords a, effectOf w = some (.attr a) := by
      intro a; cases a <;> decide
    exact hall a w

theorem denoteWords_attr (env : Env) (d : Option DStyle) (ws : List String) (p : Parsed)
    (h : denoteWords env d ws = .ok p) (a : Sgr.Attr) : p.ansi.get a = present ws a := by
  unfold denoteWords at h
  cases hc : readColours env d (colourWords ws) with
  | error e => simp [hc] at h
  | ok c =>
    simp only [hc] at h
    injection h with h
    subst h
    cases a <;> rfl

/-- **Which words are text attributes of an element's own style string** (`commit-style`, `file-style`,
`hunk-header-style`, …; clean words): attribute `a` is set exactly when some word is an attribute word for `a` and is not
one of the words taken out as decoration requests; the decoration attributes requested are those of `wordsFor false`. -/
theorem element_style_rule (env : Env) (d : Option DStyle) (s : List Char) (decoS : Option (List Char)) (st : DStyle)
    (hc : CleanWords (words s)) (h : fromStrSpecial env d s decoS = .ok st) :
    (∀ a, st.ansi.get a = (words s).any fun w => decide (w ∈ attrWords a ∧ w ∉ elementDecoWords)) ∧
    (extractDeco false s).1 =
      ⟨(words s).any fun w => decide (w ∈ wordsFor false "BOX"), (words s).any fun w => decide (w ∈ wordsFor false "OVERLINE"),
       (words s).any fun w => decide (w ∈ wordsFor false "UNDERLINE")⟩ := by
  have h1 := (fromStrSpecial_ok env d s decoS st h).1
  unfold parseAnsi at h1
  rw [parseWords_eq_denoteWords, words_stripped s hc] at h1
  constructor
  · intro a
    have := denoteWords_attr env d _ _ h1 a
    simp only [textPart] at this
    rw [this]
    unfold present
    rw [List.any_filter]
    apply congrArg
    funext w
    rw [Bool.eq_iff_iff]
    simp only [Bool.and_eq_true, Option.isNone_iff_eq_none, beq_iff_eq, decide_eq_true_eq, classify_none_iff,
      effectOf_attr_iff]
    exact And.comm
  · rw [attrs_eq]
    simp only [requests]
    congr 1 <;> (apply congrArg; funext w; rw [Bool.eq_iff_iff]; simp [classify_iff])

/-- The same for a decoration string: which words select the shape. -/
theorem decoration_string_rule (s : List Char) :
    (extractDeco true s).1 =
      ⟨(words s).any fun w => decide (w ∈ wordsFor true "BOX"), (words s).any fun w => decide (w ∈ wordsFor true "OVERLINE"),
       (words s).any fun w => decide (w ∈ wordsFor true "UNDERLINE")⟩ := by
  rw [attrs_eq]
  simp only [requests]
  congr 1 <;> (apply congrArg; funext w; rw [Bool.eq_iff_iff]; simp [classify_iff])

/-! ### `--color-only` -/

theorem clear_true (key : String) (st : DStyle) (hk : key ∈ colorOnlyClears) :
    clearForColorOnly true key st = { st with deco := none } := by
  have hg : colorOnlyGuard = "opt.color_only" := by decide
  have hv : variantKind colorOnlyValue = some none := by decide
  simp [clearForColorOnly, hg, hk, hv]

theorem clear_false (key : String) (st : DStyle) : clearForColorOnly false key st = st := by
  simp [clearForColorOnly]

theorem fromStrSpecial_not_unreachable (env : Env) (d : Option DStyle) (s : List Char) (decoS : Option (List Char)) :
    fromStrSpecial env d s decoS ≠ .error .unreachable := by
  intro h
  rcases fromStrSpecial_error env d s decoS _ h with h1 | h1
  · exact parseAnsi_not_unreachable env d _ h1
  · exact parseDeco_not_unreachable env _ h1

end DecoWords
