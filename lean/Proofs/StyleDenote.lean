import Proofs.StyleParse
/-! `parseWords = denoteWords`. -/
namespace DeltaStyle
open Sgr (Attr Color)

/-- The loop state after the colour words alone. -/
def toState (c : Colours) (nfg nbg : Bool) : PState :=
  { style := { fg := c.fg, bg := c.bg }, seenFg := nfg, seenBg := nbg, fgAuto := c.fgAuto,
    bgAuto := c.bgAuto, synt := c.synt }

theorem stepColour_fg (env : Env) (d : Option DStyle) (w : String) :
    stepColour env d {} w = mapOk id (match readFg env d w with
      | .ok c => .ok (toState c true false)
      | .error e => .error e) := by
  unfold stepColour readFg
  simp only [Bool.not_false, if_true]
  split
  · simp [mapOk, toState]
  · split
    · simp [mapOk, toState]
    · cases parseColor env w <;> simp [mapOk, toState]

theorem stepColour_bg (env : Env) (d : Option DStyle) (c : Colours) (hb : c.bg = none)
    (hba : c.bgAuto = false) (w : String) :
    stepColour env d (toState c true false) w = (match readBg env d c w with
      | .ok c' => .ok (toState c' true true)
      | .error e => .error e) := by
  unfold stepColour readBg
  simp only [toState, Bool.not_true, Bool.false_eq_true, if_false, Bool.not_false, if_true]
  split
  · rfl
  · split
    · simp [toState]
    · cases parseColor env w <;> simp [toState, hba]

theorem stepColour_third (env : Env) (d : Option DStyle) (c : Colours) (w : String) :
    stepColour env d (toState c true true) w = .error .tooManyColors := by
  simp [stepColour, toState]

theorem readFg_bg (env : Env) (d : Option DStyle) (w : String) (c : Colours)
    (h : readFg env d w = .ok c) : c.bg = none ∧ c.bgAuto = false := by
  unfold readFg at h
  split at h
  · cases h; simp
  · split at h
    · cases h; simp
    · cases hp : parseColor env w with
      | error x => simp [hp] at h
      | ok x => simp [hp] at h; cases h; simp

/-- The loop over colour words alone, from the initial state. -/
theorem loop_colours (env : Env) (d : Option DStyle) (cws : List String)
    (hc : ∀ w ∈ cws, effectOf w = none) :
    ∃ nfg nbg, loop env d {} cws = (match readColours env d cws with
      | .ok c => .ok (toState c nfg nbg)
      | .error e => .error e) := by
  match cws, hc with
  | [], _ => exact ⟨false, false, by simp [loop, readColours, toState]⟩
  | [f], hc =>
    refine ⟨true, false, ?_⟩
    rw [loop_colour_cons env d _ f [] (hc f (by simp)), stepColour_fg]
    simp only [readColours]
    cases readFg env d f <;> simp [mapOk, loop]
  | [f, b], hc =>
    refine ⟨true, true, ?_⟩
    rw [loop_colour_cons env d _ f [b] (hc f (by simp)), stepColour_fg]
    simp only [readColours]
    cases hfg : readFg env d f with
    | error x => simp [mapOk]
    | ok c =>
      obtain ⟨h1, h2⟩ := readFg_bg env d f c hfg
      simp only [mapOk, id]
      rw [loop_colour_cons env d _ b [] (hc b (by simp)), stepColour_bg env d c h1 h2]
      cases readBg env d c b <;> simp [loop]
  | f :: b :: t :: rest, hc =>
    refine ⟨true, true, ?_⟩
    rw [loop_colour_cons env d _ f _ (hc f (by simp)), stepColour_fg]
    simp only [readColours]
    cases hfg : readFg env d f with
    | error x => simp [mapOk]
    | ok c =>
      obtain ⟨h1, h2⟩ := readFg_bg env d f c hfg
      simp only [mapOk, id]
      rw [loop_colour_cons env d _ b _ (hc b (by simp)), stepColour_bg env d c h1 h2]
      cases readBg env d c b with
      | error x => simp
      | ok c' =>
        simp only
        rw [loop_colour_cons env d _ t _ (hc t (by simp)), stepColour_third]

/-! ### The attribute effects, folded -/

theorem beq_attr_omit (a : Attr) : (Effect.attr a == Effect.omitW) = false := by
  rw [beq_eq_false_iff_ne]; simp
theorem beq_attr_raw (a : Attr) : (Effect.attr a == Effect.rawW) = false := by
  rw [beq_eq_false_iff_ne]; simp
theorem beq_attr_ignore (a : Attr) : (Effect.attr a == Effect.ignore) = false := by
  rw [beq_eq_false_iff_ne]; simp
theorem beq_omit_attr (a : Attr) : (Effect.omitW == Effect.attr a) = false := by
  rw [beq_eq_false_iff_ne]; simp
theorem beq_raw_attr (a : Attr) : (Effect.rawW == Effect.attr a) = false := by
  rw [beq_eq_false_iff_ne]; simp
theorem beq_omit_raw : (Effect.omitW == Effect.rawW) = false := by decide
theorem beq_raw_omit : (Effect.rawW == Effect.omitW) = false := by decide
theorem beq_omit_ignore : (Effect.omitW == Effect.ignore) = false := by decide
theorem beq_raw_ignore : (Effect.rawW == Effect.ignore) = false := by decide

theorem fold_get (effs : List Effect) (s : PState) (a : Attr) :
    (effs.foldl applyEffect s).style.get a = (s.style.get a || effs.contains (.attr a)) := by
  induction effs generalizing s with
  | nil => simp
  | cons e effs ih =>
    simp only [List.foldl_cons, ih, List.contains_cons]
    cases e with
    | attr b =>
      by_cases hab : b = a
      · subst hab; cases b <;> simp [applyEffect, Sgr.Style.set, Sgr.Style.get]
      · have : (Effect.attr a == Effect.attr b) = false := by
          simp; exact fun h => hab h.symm
        rw [this]
        cases a <;> cases b <;> simp_all [applyEffect, Sgr.Style.set, Sgr.Style.get]
    | omitW => simp [applyEffect, beq_attr_omit]
    | rawW => simp [applyEffect, beq_attr_raw]
    | ignore => simp [applyEffect, beq_attr_ignore]

theorem fold_fields (effs : List Effect) (s : PState) :
    let r := effs.foldl applyEffect s
    r.style.fg = s.style.fg ∧ r.style.bg = s.style.bg ∧ r.fgAuto = s.fgAuto ∧ r.bgAuto = s.bgAuto ∧
    r.synt = s.synt ∧
    r.seenOmit = (s.seenOmit || effs.contains .omitW) ∧ r.omitted = (s.omitted || effs.contains .omitW) ∧
    r.seenRaw = (s.seenRaw || effs.contains .rawW) ∧ r.raw = (s.raw || effs.contains .rawW) := by
  induction effs generalizing s with
  | nil => simp
  | cons e effs ih =>
    simp only [List.foldl_cons, List.contains_cons]
    obtain ⟨h1, h2, h3, h4, h5, h6, h7, h8, h9⟩ := ih (applyEffect s e)
    simp only [h1, h2, h3, h4, h5, h6, h7, h8, h9]
    cases e with
    | attr b => cases b <;> simp [applyEffect, Sgr.Style.set, beq_omit_attr, beq_raw_attr]
    | omitW => simp [applyEffect, beq_raw_omit]
    | rawW => simp [applyEffect, beq_omit_raw]
    | ignore => simp [applyEffect, beq_omit_ignore, beq_raw_ignore]

theorem effects_contains (ws : List String) (e : Effect) :
    (effects ws).contains e = ws.any fun w => effectOf w == some e := by
  induction ws with
  | nil => rfl
  | cons w ws ih =>
    unfold effects at ih ⊢
    cases hw : effectOf w with
    | none =>
      rw [List.filterMap_cons_none hw, ih]
      simp only [List.any_cons, hw]
      simp
    | some x =>
      rw [List.filterMap_cons_some hw, List.contains_cons, ih]
      simp only [List.any_cons, hw]
      congr 1
      rw [BEq.comm]
      simp

theorem style_ext (x y : Sgr.Style) (h1 : x.fg = y.fg) (h2 : x.bg = y.bg) (h3 : x.bold = y.bold)
    (h4 : x.dimmed = y.dimmed) (h5 : x.italic = y.italic) (h6 : x.underline = y.underline)
    (h7 : x.blink = y.blink) (h8 : x.reverse = y.reverse) (h9 : x.hidden = y.hidden)
    (h10 : x.strike = y.strike) : x = y := by
  cases x; cases y; simp_all

/-- **`parse_ansi_term_style` is the declarative reading.** -/
theorem parseWords_eq_denoteWords (env : Env) (d : Option DStyle) (ws : List String) :
    parseWords env d ws = denoteWords env d ws := by
  unfold parseWords denoteWords
  rw [loop_split]
  obtain ⟨nfg, nbg, hl⟩ := loop_colours env d (colourWords ws) (colourWords_none ws)
  rw [hl]
  cases readColours env d (colourWords ws) with
  | error e => simp [mapOk]
  | ok c =>
    simp only [mapOk]
    obtain ⟨h1, h2, h3, h4, h5, h6, h7, h8, h9⟩ := fold_fields (effects ws) (toState c nfg nbg)
    have hg := fun a => fold_get (effects ws) (toState c nfg nbg) a
    have hz : ∀ a, (toState c nfg nbg).style.get a = false := by intro a; cases a <;> rfl
    simp only [hz, Bool.false_or, effects_contains] at hg
    simp only [effects_contains] at h6 h7 h8 h9
    have : (List.foldl applyEffect (toState c nfg nbg) (effects ws)).style =
        { fg := c.fg, bg := c.bg,
          bold := present ws .bold, dimmed := present ws .dimmed,
          italic := present ws .italic, underline := present ws .underline,
          blink := present ws .blink, reverse := present ws .reverse,
          hidden := present ws .hidden, strike := present ws .strike } := by
      apply style_ext
      · exact h1
      · exact h2
      · exact hg .bold
      · exact hg .dimmed
      · exact hg .italic
      · exact hg .underline
      · exact hg .blink
      · exact hg .reverse
      · exact hg .hidden
      · exact hg .strike
    simp only [finish, h3, h4, h5, h6, h7, h8, h9, this]
    simp [toState, hasOmit, hasRaw]

/-- `parse_ansi_term_style(s, default, true_color, None)` = the declarative reading of `s`. -/
theorem parseAnsi_eq_denote (env : Env) (d : Option DStyle) (s : List Char) :
    parseAnsi env d s = denote env d s :=
  parseWords_eq_denoteWords env d (words s)

end DeltaStyle
