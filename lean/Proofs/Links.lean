import DeltaModel.Links
/-!
OSC 8 hyperlinks: the scanner facts behind `strip_osc8_link`, `site_transparent`, `link_balanced`
and `link_targets`, stated once for lines built from *pieces* (plain text and linked text) and
then instantiated for every call site.
-/
namespace Links
open Ansi

/-- Text that cannot start or continue an OSC string: no `ESC ]`, and no ESC as last byte. Other
escape sequences (SGR, erase-in-line) are allowed. -/
def escSafe : Bytes → Bool
  | [] => true
  | [0x1b] => false
  | 0x1b :: 0x5d :: _ => false
  | _ :: rest => escSafe rest

/-- No ESC and no BEL (what an OSC payload must not contain). -/
def noEscBel (u : Bytes) : Bool := u.all fun b => b != 0x1b && b != 0x07

theorem scan_byte_ne (b : UInt8) (hb : b ≠ 0x1b) (rest : Bytes) :
    scanGo none (b :: rest) = .byte b :: scanGo none rest := by
  rw [scanGo.eq_def]; split <;> simp_all

theorem scan_esc_ne (y : UInt8) (hy : y ≠ 0x5d) (ys : Bytes) :
    scanGo none (0x1b :: y :: ys) = .byte 0x1b :: scanGo none (y :: ys) := by
  rw [scanGo.eq_def]; split <;> simp_all

theorem escSafe_cons_ne (b : UInt8) (hb : b ≠ 0x1b) (rest : Bytes) :
    escSafe (b :: rest) = escSafe rest := by
  rw [escSafe.eq_def]; split <;> simp_all

theorem escSafe_esc (y : UInt8) (hy : y ≠ 0x5d) (ys : Bytes) :
    escSafe (0x1b :: y :: ys) = escSafe (y :: ys) := by
  rw [escSafe.eq_def]; split <;> simp_all

theorem scan_escSafe (t : Bytes) : escSafe t = true → ∀ r,
    scanGo none (t ++ r) = t.map Ev.byte ++ scanGo none r := by
  induction t with
  | nil => intro _ r; simp
  | cons b rest ih =>
    intro h r
    by_cases hb : b = 0x1b
    · subst hb
      cases rest with
      | nil => simp [escSafe] at h
      | cons y ys =>
        by_cases hy : y = 0x5d
        · subst hy; simp [escSafe] at h
        · rw [escSafe_esc y hy] at h
          simp only [List.cons_append, List.map_cons]
          rw [scan_esc_ne y hy]
          have := ih h r
          simp only [List.cons_append, List.map_cons] at this
          rw [this]
    · rw [escSafe_cons_ne b hb] at h
      simp only [List.cons_append, List.map_cons]
      rw [scan_byte_ne b hb, ih h r]

theorem scan_in_osc_byte (p : Bytes) (b : UInt8) (h1 : b ≠ 0x1b) (h2 : b ≠ 0x07) (rest : Bytes) :
    scanGo (some p) (b :: rest) = scanGo (some (p ++ [b])) rest := by
  exact scanGo.eq_6 p b rest (fun e => h2 e) (fun _ e _ => h1 e)

theorem scan_in_osc_st (p : Bytes) (rest : Bytes) :
    scanGo (some p) (0x1b :: 0x5c :: rest) = .osc p :: scanGo none rest := by
  simp [scanGo]

theorem scan_osc_start (rest : Bytes) : scanGo none (0x1b :: 0x5d :: rest) = scanGo (some []) rest := by
  simp [scanGo]

/-- Inside an OSC string a payload without ESC/BEL is collected up to the terminator. -/
theorem scan_payload (u : Bytes) : noEscBel u = true → ∀ acc r,
    scanGo (some acc) (u ++ 0x1b :: 0x5c :: r) = .osc (acc ++ u) :: scanGo none r := by
  induction u with
  | nil => intro _ acc r; simp [scan_in_osc_st]
  | cons b bs ih =>
    intro h acc r
    simp only [noEscBel, List.all_cons, Bool.and_eq_true, bne_iff_ne, ne_eq] at h
    obtain ⟨⟨h1, h2⟩, h3⟩ := h
    simp only [List.cons_append]
    rw [scan_in_osc_byte acc b h1 h2, ih (by simpa [noEscBel] using h3)]
    simp

/-- The events of one hyperlink. -/
theorem scan_osc8 (url text r : Bytes) (hu : noEscBel url = true) (ht : escSafe text = true) :
    scanGo none (osc8 url text ++ r) =
      .osc (eightSemis ++ url) :: (text.map Ev.byte ++ .osc eightSemis :: scanGo none r) := by
  have e : osc8 url text ++ r =
      0x1b :: 0x5d :: ((eightSemis ++ url) ++ 0x1b :: 0x5c ::
        (text ++ (0x1b :: 0x5d :: (eightSemis ++ 0x1b :: 0x5c :: r)))) := by
    simp [osc8, oscIntro, stTerm, eightSemis]
  rw [e, scan_osc_start]
  have h1 : noEscBel (eightSemis ++ url) = true := by
    simp only [noEscBel, List.all_append, Bool.and_eq_true]
    exact ⟨by decide, by simpa [noEscBel] using hu⟩
  rw [scan_payload _ h1, scan_escSafe text ht, scan_osc_start]
  have h2 : noEscBel eightSemis = true := by decide
  rw [scan_payload _ h2]
  simp

/-! ### Lines as pieces -/

/-- A line is a sequence of plain pieces and linked pieces; with links off only the texts remain. -/
inductive Piece where
  | plain (t : Bytes)
  | link (url t : Bytes)
  deriving Repr

def render (links : Bool) : List Piece → Bytes
  | [] => []
  | .plain t :: ps => t ++ render links ps
  | .link u t :: ps => (if links then osc8 u t else t) ++ render links ps

/-- Well-formed pieces: texts cannot start an OSC string, URLs contain no ESC / BEL. -/
def Piece.okT : Piece → Prop
  | .plain t => escSafe t = true
  | .link u t => noEscBel u = true ∧ escSafe t = true

/-- …and, for the link targets, the URL is not empty (`8;;` with an empty URI closes a link). -/
def Piece.ok : Piece → Prop
  | .plain t => escSafe t = true
  | .link u t => noEscBel u = true ∧ u ≠ [] ∧ escSafe t = true

theorem Piece.ok.toT {p : Piece} (h : p.ok) : p.okT := by
  cases p with
  | plain t => exact h
  | link u t => exact ⟨h.1, h.2.2⟩

theorem evText_append (a b : List Ev) : evText (a ++ b) = evText a ++ evText b := by
  induction a with
  | nil => rfl
  | cons x xs ih => cases x <;> simp [evText, ih]

theorem evText_bytes (t : Bytes) : evText (t.map Ev.byte) = t := by
  induction t with
  | nil => rfl
  | cons x xs ih => simp [evText, ih]

/-- **Transparency**: removing the OSC strings from a line rendered with links gives the line
rendered without links. -/
theorem render_transparent (ps : List Piece) (h : ∀ p ∈ ps, p.okT) (r : Bytes) :
    evText (scanGo none (render true ps ++ r)) = render false ps ++ evText (scanGo none r) := by
  induction ps with
  | nil => simp [render]
  | cons p ps ih =>
    have hp := h p (by simp)
    have ih' := ih (fun q hq => h q (by simp [hq]))
    cases p with
    | plain t =>
      simp only [render, List.append_assoc]
      rw [scan_escSafe t hp, evText_append, evText_bytes, ih']
    | link u t =>
      obtain ⟨h1, h3⟩ := hp
      simp only [render, if_true, List.append_assoc, Bool.false_eq_true, if_false]
      rw [scan_osc8 u t _ h1 h3]
      simp only [evText, evText_append, evText_bytes]
      rw [ih']

theorem stripOsc8_render (ps : List Piece) (h : ∀ p ∈ ps, p.okT) :
    stripOsc8 (render true ps) = render false ps := by
  have := render_transparent ps h []
  simpa [stripOsc8, scanGo, evText] using this

/-! ### Link state -/

theorem linkStep_open (st : Option Bytes) (url : Bytes) (h : url ≠ []) :
    linkStep st (.osc (eightSemis ++ url)) = some url := by
  simp [linkStep, eightSemis, List.dropWhile]
  exact h

theorem linkStep_close (st : Option Bytes) : linkStep st (.osc eightSemis) = none := by
  simp [linkStep, eightSemis, List.dropWhile]

theorem foldl_bytes (st : Option Bytes) (t : Bytes) : (t.map Ev.byte).foldl linkStep st = st := by
  induction t with
  | nil => rfl
  | cons x xs ih => simpa [linkStep] using ih

/-- **Balance**: a line rendered with links ends with no link open (and a line that starts with
no link open). -/
theorem render_balanced (ps : List Piece) (h : ∀ p ∈ ps, p.okT) (r : Bytes) :
    (scanGo none (render true ps ++ r)).foldl linkStep none = (scanGo none r).foldl linkStep none := by
  induction ps with
  | nil => simp [render]
  | cons p ps ih =>
    have hp := h p (by simp)
    have ih' := ih (fun q hq => h q (by simp [hq]))
    cases p with
    | plain t =>
      simp only [render, List.append_assoc]
      rw [scan_escSafe t hp, List.foldl_append, foldl_bytes, ih']
    | link u t =>
      obtain ⟨h1, h3⟩ := hp
      simp only [render, if_true, List.append_assoc]
      rw [scan_osc8 u t _ h1 h3]
      simp only [List.foldl_cons, List.foldl_append, foldl_bytes, linkStep_close]
      exact ih'

theorem finalLink_render (ps : List Piece) (h : ∀ p ∈ ps, p.okT) : finalLink (render true ps) = none := by
  have := render_balanced ps h []
  simpa [finalLink, scanGo] using this

/-! ### Link targets -/

/-- For each visible byte of a piece list, the link it must be under. -/
def expectLinked : List Piece → List (Option Bytes × UInt8)
  | [] => []
  | .plain t :: ps => t.map (fun b => (none, b)) ++ expectLinked ps
  | .link u t :: ps => t.map (fun b => (some u, b)) ++ expectLinked ps

theorem linkedGo_bytes (st : Option Bytes) (t : Bytes) (rest : List Ev) :
    linkedGo st (t.map Ev.byte ++ rest) = t.map (fun b => (st, b)) ++ linkedGo st rest := by
  induction t with
  | nil => rfl
  | cons x xs ih => simp [linkedGo, ih]

/-- **Targets**: every byte of a linked piece is under exactly that piece's URL, every other byte
under no link. -/
theorem render_linked (ps : List Piece) (h : ∀ p ∈ ps, p.ok) (r : Bytes) :
    linkedGo none (scanGo none (render true ps ++ r)) = expectLinked ps ++ linkedGo none (scanGo none r) := by
  induction ps with
  | nil => simp [render, expectLinked]
  | cons p ps ih =>
    have hp := h p (by simp)
    have ih' := ih (fun q hq => h q (by simp [hq]))
    cases p with
    | plain t =>
      simp only [render, List.append_assoc, expectLinked]
      rw [scan_escSafe t hp, linkedGo_bytes, ih']
    | link u t =>
      obtain ⟨h1, h2, h3⟩ := hp
      simp only [render, if_true, List.append_assoc, expectLinked]
      rw [scan_osc8 u t _ h1 h3]
      simp only [linkedGo, linkStep_open none u h2, linkedGo_bytes, linkStep_close]
      rw [ih']

theorem linked_render (ps : List Piece) (h : ∀ p ∈ ps, p.ok) : linked (render true ps) = expectLinked ps := by
  have := render_linked ps h []
  simpa [linked, scanGo, linkedGo] using this

end Links
