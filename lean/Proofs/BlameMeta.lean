import DeltaModel.BlameMeta
import Proofs.TermLine
/-!
`format_blame_metadata` / the blame row keep the line self-contained **provided a precision only cuts escape-free text**
(`BlameMeta.precisionOnPlain`), and that side condition holds for every format string when the arms that can run yield
escape-free text (`BlameMeta.armsPlain`, a `decide` over the generated arm table).

All lemmas about `armFor` / `armsPlain` are by induction over an arbitrary arm list, so they survive any re-ordering or
extension of the source's `match`.
-/
namespace BlameMetaProofs
open Term Sgr SgrTerm Line LineProofs BlameMeta

/-- What is assumed of a piece: texts without ESC, a link target with neither ESC nor BEL. -/
def PieceOk : Piece → Prop
  | .plain t => ESC ∉ t
  | .linked u t => ESC ∉ u ∧ BEL ∉ u ∧ ESC ∉ t

def FieldValOk (v : FieldVal) : Prop := ESC ∉ v.plain ∧ ∀ p ∈ v.linked, PieceOk p

/-- The three fields are escape-free (their linked forms well-formed), and the link function, given escape-free text,
returns well-formed pieces. -/
def FieldsOk (f : Fields) : Prop :=
  FieldValOk f.time ∧ FieldValOk f.author ∧ FieldValOk f.commit ∧
  ∀ t, ESC ∉ t → ∀ p ∈ f.relink t, PieceOk p

/-- The literal text of the format string (what stands between the placeholders) has no ESC. -/
def ItemsLitOk (items : List BlameMeta.Item) : Prop := ∀ it ∈ items, ESC ∉ it.pre ∧ ESC ∉ it.suf

theorem neutral_piece (p : Piece) (h : PieceOk p) : Neutral p.chars := by
  cases p with
  | plain t => exact neutral_text t h
  | linked u t => exact neutral_link u t h.1 h.2.1 h.2.2

theorem neutral_pieces (ps : List Piece) (h : ∀ p ∈ ps, PieceOk p) : Neutral (piecesChars ps) := by
  induction ps with
  | nil => exact neutral_nil
  | cons p ps ih =>
    simp only [piecesChars, List.flatMap_cons]
    exact neutral_append _ _ (neutral_piece p (h p List.mem_cons_self))
      (ih fun q hq => h q (List.mem_cons_of_mem _ hq))

theorem esc_not_space : ESC ≠ ' ' := by decide

theorem noesc_spaces (n : Nat) : ESC ∉ spaces n := by
  intro h
  exact esc_not_space (List.eq_of_mem_replicate h)

theorem neutral_spaces (n : Nat) : Neutral (spaces n) := neutral_text _ (noesc_spaces n)

/-- Without a precision `pad` only puts blanks around the string. -/
theorem pad_none_neutral (s : Str) (w : Nat) (al : Align) (h : Neutral s) : Neutral (pad s w al none) := by
  unfold pad
  simp only [cut]
  cases al with
  | left => exact neutral_append _ _ h (neutral_spaces _)
  | right => exact neutral_append _ _ (neutral_spaces _) h
  | center => exact neutral_append _ _ (neutral_spaces _) (neutral_append _ _ h (neutral_spaces _))

/-- Whatever the precision, `pad` of escape-free text is escape-free. -/
theorem pad_noesc (s : Str) (w : Nat) (al : Align) (prec : Option Nat) (h : ESC ∉ s) : ESC ∉ pad s w al prec := by
  have ht : ESC ∉ cut s prec := by
    cases prec with
    | none => exact h
    | some p => exact fun hm => h (List.mem_of_mem_take hm)
  unfold pad
  cases al <;> simp only [List.mem_append, not_or] <;> simp [ht, noesc_spaces]

/-- `armFor` returns one of the arms, and that arm's guard holds. -/
theorem armFor_mem (env : Env) (label : String) (as : List Arm) (a : Arm)
    (h : armFor env label as = .ok (some a)) : a ∈ as ∧ guardsHold env a.guards = some true := by
  induction as with
  | nil => simp [armFor] at h
  | cons b rest ih =>
    unfold armFor at h
    split at h
    · split at h
      · next hg =>
        have : b = a := by simpa using h
        subst this
        exact ⟨List.mem_cons_self, hg⟩
      · exact ⟨List.mem_cons_of_mem _ (ih h).1, (ih h).2⟩
      · simp at h
    · exact ⟨List.mem_cons_of_mem _ (ih h).1, (ih h).2⟩

/-- When every arm that can run yields escape-free text, so does the arm that serves any label. -/
theorem labelPlain_of_armsPlain (env : Env) (h : armsPlainWhen env = true) (label : String) :
    labelPlain env label = true := by
  unfold labelPlain
  split
  · next a ha =>
    obtain ⟨hm, hg⟩ := armFor_mem env label arms a ha
    have := (List.all_eq_true.mp h) a hm
    simp only [hg, Bool.or_eq_true, beq_iff_eq] at this
    rcases this with h1 | h2
    · simp at h1
    · exact h2
  · rfl

theorem precisionOnPlain_of_armsPlain (env : Env) (h : armsPlainWhen env = true) (items : List BlameMeta.Item) :
    precisionOnPlain env items = true := by
  unfold precisionOnPlain
  rw [List.all_eq_true]
  intro it _
  unfold itemPrecOk
  split
  · rfl
  · rfl
  · next lab _ _ => exact labelPlain_of_armsPlain env h lab

theorem fieldVal_ok (f : Fields) (hf : FieldsOk f) (name : String) (v : FieldVal) (h : fieldVal f name = some v) :
    FieldValOk v := by
  unfold fieldVal at h
  split at h
  · cases h; exact hf.1
  · split at h
    · cases h; exact hf.2.1
    · split at h
      · cases h; exact hf.2.2.1
      · simp at h

/-- The pieces of a field are well-formed; when the kind cannot carry escapes they are the plain text. -/
theorem fieldPieces_ok (env : Env) (k : Kind) (v : FieldVal) (hv : FieldValOk v) (ps : List Piece)
    (h : fieldPieces env k v = .ok ps) :
    (∀ p ∈ ps, PieceOk p) ∧ (mayCarryEscapes env k = false → ESC ∉ piecesChars ps) := by
  unfold fieldPieces at h
  unfold mayCarryEscapes
  split at h
  · next hr =>
    cases h
    refine ⟨?_, fun _ => ?_⟩
    · intro p hp
      simp only [List.mem_singleton] at hp
      subst hp
      exact hv.1
    · simpa [piecesChars, Piece.chars] using hv.1
  · next hr =>
    cases h
    refine ⟨hv.2, fun hc => ?_⟩
    simp [hr] at hc
  · simp at h

/-- One placeholder's contribution is neutral. -/
theorem padded_neutral (env : Env) (k : Kind) (v : FieldVal) (hv : FieldValOk v) (ps : List Piece)
    (h : fieldPieces env k v = .ok ps) (w : Nat) (al : Align) (prec : Option Nat)
    (hp : prec = none ∨ mayCarryEscapes env k = false) : Neutral (pad (piecesChars ps) w al prec) := by
  obtain ⟨hok, hplain⟩ := fieldPieces_ok env k v hv ps h
  rcases hp with hp | hp
  · subst hp
    exact pad_none_neutral _ _ _ (neutral_pieces ps hok)
  · exact neutral_text _ (pad_noesc _ _ _ _ (hplain hp))

/-- Linking after padding: what is appended is neutral when the padded string is, and was escape-free if it is linked. -/
theorem postPad_neutral (env : Env) (relink : Str → List Piece)
    (hr : ∀ t, ESC ∉ t → ∀ p ∈ relink t, PieceOk p) (post : List (String × Kind)) (label : String) (plainField : Bool)
    (padded shown : Str) (hn : Neutral padded) (hp : plainField = true → ESC ∉ padded)
    (h : postPad env relink post label plainField padded = .ok shown) : Neutral shown := by
  unfold postPad at h
  split at h
  · cases h; exact hn
  · split at h
    · cases h; exact hn
    · split at h
      · next hpl =>
        cases h
        exact neutral_pieces _ (hr padded (hp hpl))
      · simp at h
    · simp at h

theorem formatMetaGo_neutral (env : Env) (cw : Char → Nat) (f : Fields) (hf : FieldsOk f) (items : List BlameMeta.Item)
    (hlit : ItemsLitOk items) (hprec : precisionOnPlain env items = true) (acc suffix out : Str)
    (hacc : Neutral acc) (hsuf : ESC ∉ suffix) (h : formatMetaGo env cw f items acc suffix = .ok out) :
    Neutral out := by
  induction items generalizing acc suffix with
  | nil =>
    simp only [formatMetaGo, Except.ok.injEq] at h
    subst h
    exact neutral_append _ _ hacc (neutral_text _ hsuf)
  | cons it rest ih =>
    have hl := hlit it List.mem_cons_self
    have hlit' : ItemsLitOk rest := fun x hx => hlit x (List.mem_cons_of_mem _ hx)
    have hprec' : precisionOnPlain env rest = true := by
      unfold precisionOnPlain at hprec ⊢
      rw [List.all_cons, Bool.and_eq_true] at hprec
      exact hprec.2
    have hthis : itemPrecOk env it = true := by
      unfold precisionOnPlain at hprec
      rw [List.all_cons, Bool.and_eq_true] at hprec
      exact hprec.1
    unfold formatMetaGo at h
    split at h
    · -- no placeholder
      split at h
      · exact ih hlit' hprec' _ _ (neutral_append _ _ hacc (neutral_text _ hl.1)) hl.2 h
      · simp at h
    · next lab hlab =>
      split at h
      · simp at h
      · simp at h
      · next a ha =>
        split at h
        · simp at h
        · next v hv =>
          split at h
          · simp at h
          · next ps hps =>
            split at h
            · simp at h
            · next w hw =>
              have hvok := fieldVal_ok f hf a.field v hv
              have hp : it.prec = none ∨ mayCarryEscapes env a.kind = false := by
                cases hpr : it.prec with
                | none => exact Or.inl rfl
                | some p =>
                  right
                  unfold itemPrecOk at hthis
                  rw [hpr, hlab] at hthis
                  simp only [labelPlain, ha] at hthis
                  simpa using hthis
              have hpad := padded_neutral env a.kind v hvok ps hps w (it.align.getD (alignOfString Generated.BlameMeta.defaultAlign))
                it.prec hp
              split at h
              · simp at h
              · next shown hshown =>
                have hplain : (!mayCarryEscapes env a.kind) = true →
                    ESC ∉ pad (piecesChars ps) w (it.align.getD (alignOfString Generated.BlameMeta.defaultAlign)) it.prec := by
                  intro hc
                  have hc' : mayCarryEscapes env a.kind = false := by simpa using hc
                  exact pad_noesc _ _ _ _ ((fieldPieces_ok env a.kind v hvok ps hps).2 hc')
                have hsh := postPad_neutral env f.relink hf.2.2.2 linkAfterPadArms lab _ _ shown hpad hplain hshown
                exact ih hlit' hprec' _ _
                  (neutral_append _ _ hacc (neutral_append _ _ (neutral_text _ hl.1) hsh)) hl.2 h

/-- **The metadata string is neutral** — it leaves a link-free ground state as it found it — whenever a precision only
cuts escape-free text. -/
theorem formatMeta_neutral (env : Env) (cw : Char → Nat) (items : List BlameMeta.Item) (f : Fields) (hf : FieldsOk f)
    (hlit : ItemsLitOk items) (hprec : precisionOnPlain env items = true) (out : Str)
    (h : formatMeta env cw items f = .ok out) : Neutral out :=
  formatMetaGo_neutral env cw f hf items hlit hprec [] [] out neutral_nil (by simp) h

theorem selfContained_of_neutral (t : Str) (h : Neutral t) : selfContained t := h init rfl rfl

/-- The painted pieces in front of the code, for any list of (style, text) names. -/
theorem rowGo_selfContained (mdata : Str) (hm : Neutral mdata) (r : RowIn) (hms : Style.wf r.metaStyle)
    (hss : Style.wf r.sepStyle) (h1 : ESC ∉ r.nrPrefix) (h2 : ESC ∉ r.number) (h3 : ESC ∉ r.nrSuffix)
    (pieces : List (String × String)) (out : Str) (h : rowGo mdata r pieces = .ok out) : selfContained out := by
  induction pieces generalizing out with
  | nil =>
    simp only [rowGo, Except.ok.injEq] at h
    subst h
    decide
  | cons p rest ih =>
    obtain ⟨st, tx⟩ := p
    unfold rowGo at h
    split at h
    · next s t o hs ht ho =>
      simp only [Except.ok.injEq] at h
      subst h
      have hwf : Style.wf s := by
        unfold rowStyle at hs
        split at hs
        · cases hs; exact hms
        · split at hs
          · cases hs; exact hss
          · simp at hs
      have hn : Neutral t := by
        unfold rowText at ht
        split at ht
        · cases ht
          split
          · split
            · exact neutral_spaces _
            · exact hm
          · exact hm
        · split at ht
          · cases ht; exact neutral_text _ h1
          · split at ht
            · cases ht; exact neutral_text _ h2
            · split at ht
              · cases ht; exact neutral_text _ h3
              · simp at ht
      exact selfContained_append _ _ (selfContained_paint s t hwf hn) (ih o ho)
    · simp at h
    · simp at h

theorem blameRow_selfContained (mdata : Str) (hm : Neutral mdata) (r : RowIn) (hms : Style.wf r.metaStyle)
    (hss : Style.wf r.sepStyle) (h1 : ESC ∉ r.nrPrefix) (h2 : ESC ∉ r.number) (h3 : ESC ∉ r.nrSuffix)
    (hcode : selfContained r.code) (out : Str) (h : blameRow mdata r = .ok out) : selfContained out := by
  unfold blameRow at h
  split at h
  · next front hf =>
    simp only [Except.ok.injEq] at h
    subst h
    exact selfContained_append _ _
      (rowGo_selfContained mdata hm r hms hss h1 h2 h3 _ front hf) hcode
  · simp at h

/-- A gutter field: the number padded, the link (if any) around the padded text — neutral for every width, alignment and
link target without ESC / BEL. -/
theorem gutterField_neutral (digits : Str) (hd : ESC ∉ digits) (w : Nat) (al : Align) (url : Option Str)
    (hu : ∀ u, url = some u → ESC ∉ u ∧ BEL ∉ u) : Neutral (gutterField digits w al url) := by
  unfold gutterField
  cases url with
  | none => exact neutral_text _ (pad_noesc _ _ _ _ hd)
  | some u => exact neutral_link u _ (hu u rfl).1 (hu u rfl).2 (pad_noesc _ _ _ _ hd)

/-! ### the executable link function meets what `FieldsOk` asks of `relink` -/

theorem mem_replaceCommit (h : Str) (k : Nat) (tmpl : Str) (c : Char) (hc : c ∈ replaceCommit h k tmpl) :
    c ∈ h ∨ c ∈ tmpl := by
  induction tmpl generalizing k with
  | nil => simp [replaceCommit] at hc
  | cons d rest ih =>
    cases k with
    | succ k =>
      simp only [replaceCommit] at hc
      rcases ih k hc with h1 | h1
      · exact Or.inl h1
      · exact Or.inr (List.mem_cons_of_mem _ h1)
    | zero =>
      simp only [replaceCommit] at hc
      split at hc
      · rcases List.mem_append.mp hc with h1 | h1
        · exact Or.inl h1
        · rcases ih _ h1 with h2 | h2
          · exact Or.inl h2
          · exact Or.inr (List.mem_cons_of_mem _ h2)
      · rcases List.mem_cons.mp hc with h1 | h1
        · exact Or.inr (by rw [h1]; exact List.mem_cons_self)
        · rcases ih _ h1 with h2 | h2
          · exact Or.inl h2
          · exact Or.inr (List.mem_cons_of_mem _ h2)

theorem wordRuns_mem (t : Str) (b : Bool) (w : Str) (h : (b, w) ∈ wordRuns t) : ∀ c ∈ w, c ∈ t := by
  induction t generalizing b w with
  | nil => simp [wordRuns] at h
  | cons d rest ih =>
    cases hr : wordRuns rest with
    | nil =>
      simp only [wordRuns, hr, List.mem_singleton, Prod.mk.injEq] at h
      obtain ⟨_, rfl⟩ := h
      intro c hc
      simp only [List.mem_singleton] at hc
      rw [hc]; exact List.mem_cons_self
    | cons x more =>
      obtain ⟨b', r⟩ := x
      have hr' : ∀ y ∈ wordRuns rest, ∀ c ∈ y.2, c ∈ rest := fun y hy c hc => ih y.1 y.2 hy c hc
      simp only [wordRuns, hr] at h
      split at h
      · rcases List.mem_cons.mp h with h1 | h1
        · have hw : w = d :: r := (Prod.mk.inj h1).2
          subst hw
          intro c hc
          rcases List.mem_cons.mp hc with h2 | h2
          · rw [h2]; exact List.mem_cons_self
          · exact List.mem_cons_of_mem _ (hr' (b', r) (by rw [hr]; exact List.mem_cons_self) c h2)
        · exact fun c hc => List.mem_cons_of_mem _ (hr' (b, w) (by rw [hr]; exact List.mem_cons_of_mem _ h1) c hc)
      · rcases List.mem_cons.mp h with h1 | h1
        · have hw : w = [d] := (Prod.mk.inj h1).2
          subst hw
          intro c hc
          simp only [List.mem_singleton] at hc
          rw [hc]; exact List.mem_cons_self
        · exact fun c hc => List.mem_cons_of_mem _ (hr' (b, w) (by rw [hr]; exact h1) c hc)

theorem relinkGo_ok (tmpl : Str) (h1 : ESC ∉ tmpl) (h2 : BEL ∉ tmpl) (n : Nat) (runs : List (Bool × Str))
    (hr : ∀ x ∈ runs, ESC ∉ x.2) : ∀ p ∈ relinkGo tmpl n runs, PieceOk p := by
  induction runs generalizing n with
  | nil => simp [relinkGo]
  | cons x rest ih =>
    obtain ⟨b, w⟩ := x
    have hw : ESC ∉ w := hr (b, w) List.mem_cons_self
    have hrest : ∀ x ∈ rest, ESC ∉ x.2 := fun x hx => hr x (List.mem_cons_of_mem _ hx)
    intro p hp
    unfold relinkGo at hp
    split at hp
    · next hcond =>
      rcases List.mem_cons.mp hp with hp1 | hp1
      · subst hp1
        split
        · have hall : w.all isLowerHex = true := by
            simp only [Bool.and_eq_true] at hcond
            exact hcond.1.1.2
          have hbel : BEL ∉ w := by
            intro hb
            have := (List.all_eq_true.mp hall) BEL hb
            revert this; decide
          refine ⟨?_, ?_, hw⟩
          · intro hm
            rcases mem_replaceCommit w 0 tmpl ESC hm with h | h
            · exact hw h
            · exact h1 h
          · intro hm
            rcases mem_replaceCommit w 0 tmpl BEL hm with h | h
            · exact hbel h
            · exact h2 h
        · exact hw
      · exact ih (n + 1) hrest p hp1
    · rcases List.mem_cons.mp hp with hp1 | hp1
      · subst hp1; exact hw
      · exact ih n hrest p hp1

/-- `commitRelink` — the link function the driver runs — returns well-formed pieces for escape-free text, for every URL
template without ESC / BEL. -/
theorem commitRelink_ok (tmpl : Option Str) (h : ∀ u, tmpl = some u → ESC ∉ u ∧ BEL ∉ u) (t : Str) (ht : ESC ∉ t) :
    ∀ p ∈ commitRelink tmpl t, PieceOk p := by
  unfold commitRelink
  cases tmpl with
  | none =>
    intro p hp
    simp only [List.mem_singleton] at hp
    subst hp; exact ht
  | some u =>
    exact relinkGo_ok u (h u rfl).1 (h u rfl).2 0 (wordRuns t)
      (fun x hx hm => ht (wordRuns_mem t x.1 x.2 hx ESC hm))

theorem shape_as_modelled : shapeAsModelled = true := by decide +kernel

/-- **The generated arm table, off a terminal**: when stdout is not a terminal, every arm of `format_blame_metadata` that
can run hands `format::pad` escape-free text — whether or not hyperlinks are on. -/
theorem arms_plain_off_terminal (hyperlinks : Bool) :
    armsPlainWhen { hyperlinks := hyperlinks, stdoutIsTerminal := false } = true := by
  cases hyperlinks <;> decide +kernel

/-- … and when hyperlinks are off, wherever stdout goes. -/
theorem arms_plain_without_hyperlinks (terminal : Bool) :
    armsPlainWhen { hyperlinks := false, stdoutIsTerminal := terminal } = true := by
  cases terminal <;> decide +kernel

end BlameMetaProofs
