import Proofs.TermFill
import Proofs.TruncTotal
/-! `truncate_str_impl` and `pad_panel_line_to_width` keep a line self-contained: truncation
copies every escape sequence and only drops or replaces text. -/
namespace LineProofs
open Term Sgr SgrTerm Line Generated.StyleTables

/-- Items as the ANSI iterator yields them from well-formed input: text without ESC; escape
sequences that are complete (read in ground mode they end in ground mode). -/
def Item.ok : Item → Prop
  | .text gs => ∀ g ∈ gs, ESC ∉ g.s
  | .esc e => ∀ s : State, s.mode = .ground → (final s e).mode = .ground

def isEsc : Item → Bool
  | .esc _ => true
  | .text _ => false

/-- The escape sequences of a line, in order. -/
def escsOf (items : List Item) : List Item := items.filter isEsc

theorem flatten_append (a b : List Item) : flatten (a ++ b) = flatten a ++ flatten b := by
  simp [flatten]

theorem text_chars_noesc (gs : List G) (h : ∀ g ∈ gs, ESC ∉ g.s) : ESC ∉ (Item.text gs).chars := by
  simp only [Item.chars, List.mem_flatMap, not_exists, not_and]
  intro g hg
  exact h g hg

/-- Reading a line changes the state only through its escape sequences; ground mode is kept. -/
theorem final_flatten (items : List Item) (hok : ∀ i ∈ items, Item.ok i) (s : State)
    (hm : s.mode = .ground) :
    final s (flatten items) = final s (flatten (escsOf items)) ∧
      (final s (flatten items)).mode = .ground := by
  induction items generalizing s with
  | nil => simp [flatten, escsOf, final, run, hm]
  | cons i items ih =>
    have hi := hok i List.mem_cons_self
    have hrest : ∀ j ∈ items, Item.ok j := fun j hj => hok j (List.mem_cons_of_mem _ hj)
    cases i with
    | text gs =>
      have hne := text_chars_noesc gs hi
      have : final s (Item.text gs).chars = s := by simp [final, run_text s _ hm hne]
      have h1 : flatten (Item.text gs :: items) = (Item.text gs).chars ++ flatten items := by
        simp [flatten]
      have h2 : escsOf (Item.text gs :: items) = escsOf items := by simp [escsOf, isEsc]
      rw [h1, h2, final_append, this]
      exact ih hrest s hm
    | esc e =>
      have hg : (final s e).mode = .ground := hi s hm
      have h1 : flatten (Item.esc e :: items) = e ++ flatten items := by simp [flatten, Item.chars]
      have h2 : flatten (escsOf (Item.esc e :: items)) = e ++ flatten (escsOf items) := by
        simp [escsOf, List.filter, isEsc, flatten, Item.chars]
      rw [h1, h2, final_append, final_append]
      exact ih hrest (final s e) hg

theorem escsOf_ok (items : List Item) (hok : ∀ i ∈ items, Item.ok i) : ∀ i ∈ escsOf items, Item.ok i :=
  fun i hi => hok i (List.mem_filter.mp hi).1

theorem truncText_ok (dw : Nat) (fill : Option Char) (hf : ∀ f, fill = some f → f ≠ ESC)
    (used : Nat) (gs kept : List G) (used' : Nat) (c : Bool) (hok : ∀ g ∈ gs, ESC ∉ g.s)
    (h : truncText dw fill used gs = some (kept, used', c)) : ∀ g ∈ kept, ESC ∉ g.s := by
  induction gs generalizing used kept used' c with
  | nil => simp [truncText] at h; obtain ⟨rfl, _⟩ := h; simp
  | cons g gs ih =>
    simp only [truncText] at h
    split at h
    · -- overflow: nothing, or the fill character
      cases fill with
      | none => simp at h; obtain ⟨rfl, _⟩ := h; simp
      | some f =>
        simp only at h
        split at h
        · simp at h; obtain ⟨rfl, _⟩ := h
          intro g' hg'
          simp at hg'
          subst hg'
          simp only [List.mem_singleton]
          exact fun e => hf f rfl e.symm
        · split at h
          · split at h
            · cases h
            · simp at h; obtain ⟨rfl, _⟩ := h
              intro g' hg'
              obtain ⟨_, rfl⟩ := List.mem_replicate.mp hg'
              simp only [List.mem_singleton]
              exact fun e => hf f rfl e.symm
          · simp at h; obtain ⟨rfl, _⟩ := h; simp
    · cases hr : truncText dw fill (used + g.w) gs with
      | none => simp [hr] at h
      | some p =>
        obtain ⟨r, u, c'⟩ := p
        simp [hr] at h
        obtain ⟨rfl, _⟩ := h
        intro g' hg'
        rcases List.mem_cons.mp hg' with e | e
        · subst e; exact hok g' List.mem_cons_self
        · exact ih (used + g.w) r u c' (fun x hx => hok x (List.mem_cons_of_mem _ hx)) hr g' e

/-- The truncation loop keeps every escape sequence, in order, and yields well-formed items —
in both forms of the source (with and without the `truncated` flag). -/
theorem truncGo_escs (dw : Nat) (fill : Option Char) (hf : ∀ f, fill = some f → f ≠ ESC)
    (cut : Bool) (used : Nat) (items r : List Item) (hok : ∀ i ∈ items, Item.ok i)
    (h : truncGo dw fill cut used items = some r) :
    escsOf r = escsOf items ∧ ∀ i ∈ r, Item.ok i := by
  induction items generalizing cut used r with
  | nil => simp [truncGo] at h; subst h; simp [escsOf]
  | cons i items ih =>
    have hrest : ∀ j ∈ items, Item.ok j := fun j hj => hok j (List.mem_cons_of_mem _ hj)
    cases i with
    | esc e =>
      simp only [truncGo] at h
      cases hr : truncGo dw fill cut used items with
      | none => simp [hr] at h
      | some r' =>
        simp [hr] at h
        subst h
        obtain ⟨h1, h2⟩ := ih cut used r' hrest hr
        refine ⟨by unfold escsOf at h1 ⊢; simp [List.filter, isEsc, h1], ?_⟩
        intro j hj
        rcases List.mem_cons.mp hj with e' | e'
        · subst e'; exact hok _ List.mem_cons_self
        · exact h2 j e'
    | text gs =>
      simp only [truncGo] at h
      split at h
      · -- after the cut: the text item contributes nothing
        cases hr : truncGo dw fill cut used items with
        | none => simp [hr] at h
        | some r' =>
          simp [hr] at h
          subst h
          obtain ⟨h1, h2⟩ := ih cut used r' hrest hr
          refine ⟨by unfold escsOf at h1 ⊢; simp [List.filter, isEsc, h1], ?_⟩
          intro j hj
          rcases List.mem_cons.mp hj with e' | e'
          · subst e'; intro g hg; simp at hg
          · exact h2 j e'
      · cases ht : truncText dw fill used gs with
        | none => simp [ht] at h
        | some p =>
          obtain ⟨kept, used', c⟩ := p
          simp only [ht] at h
          cases hr : truncGo dw fill (cut || c) used' items with
          | none => simp [hr] at h
          | some r' =>
            simp [hr] at h
            subst h
            obtain ⟨h1, h2⟩ := ih (cut || c) used' r' hrest hr
            refine ⟨by unfold escsOf at h1 ⊢; simp [List.filter, isEsc, h1], ?_⟩
            intro j hj
            rcases List.mem_cons.mp hj with e' | e'
            · subst e'
              exact truncText_ok dw fill hf used gs kept used' c (hok _ List.mem_cons_self) ht
            · exact h2 j e'

theorem truncNoTail_escs (dw : Nat) (fill : Option Char) (hf : ∀ f, fill = some f → f ≠ ESC)
    (items r : List Item) (hok : ∀ i ∈ items, Item.ok i) (h : truncNoTail dw fill items = some r) :
    escsOf r = escsOf items ∧ ∀ i ∈ r, Item.ok i := by
  unfold truncNoTail at h
  split at h
  · cases h; exact ⟨rfl, hok⟩
  · exact truncGo_escs dw fill hf false 0 items r hok h

/-- `escapes (truncate s) = escapes s ++ escapes tail`. -/
theorem truncate_escs (dw : Nat) (tail : List Item) (fill : Option Char)
    (hf : ∀ f, fill = some f → f ≠ ESC) (items r : List Item)
    (hok : ∀ i ∈ items, Item.ok i) (htok : ∀ i ∈ tail, Item.ok i)
    (h : Line.truncate dw tail fill items = some r) :
    (r = items ∨ escsOf r = escsOf items ++ escsOf tail) ∧ ∀ i ∈ r, Item.ok i := by
  unfold Line.truncate at h
  split at h
  · cases h; exact ⟨Or.inl rfl, hok⟩
  · cases hrt : truncNoTail dw fill tail with
    | none => simp [hrt] at h
    | some rt =>
      simp only [hrt] at h
      cases hg : truncGo dw fill false (width rt) items with
      | none => simp [hg] at h
      | some r0 =>
        simp [hg] at h
        subst h
        obtain ⟨t1, t2⟩ := truncNoTail_escs dw fill hf tail rt htok hrt
        obtain ⟨g1, g2⟩ := truncGo_escs dw fill hf false (width rt) items r0 hok hg
        refine ⟨Or.inr (by simp [escsOf, List.filter_append] at t1 g1 ⊢; rw [g1, t1]), ?_⟩
        intro j hj
        rcases List.mem_append.mp hj with e | e
        · exact g2 j e
        · exact t2 j e

/-- **Truncation keeps a line self-contained.** -/
theorem truncate_selfContained (dw : Nat) (tail : List Item) (fill : Option Char)
    (hf : ∀ f, fill = some f → f ≠ ESC) (items r : List Item)
    (hok : ∀ i ∈ items, Item.ok i) (htok : ∀ i ∈ tail, Item.ok i)
    (h : Line.truncate dw tail fill items = some r)
    (h1 : selfContained (flatten items)) (h2 : selfContained (flatten tail)) :
    selfContained (flatten r) ∧ ∀ i ∈ r, Item.ok i := by
  obtain ⟨hcase, hrok⟩ := truncate_escs dw tail fill hf items r hok htok h
  refine ⟨?_, hrok⟩
  rcases hcase with e | e
  · subst e; exact h1
  · unfold selfContained at *
    rw [(final_flatten r hrok init rfl).1, e, flatten_append, final_append,
      ← (final_flatten items hok init rfl).1, h1, ← (final_flatten tail htok init rfl).1, h2]

/-! ### `pad_panel_line_to_width` -/

theorem paintItems_ok (st : Sgr.Style) (hwf : Style.wf st) (gs : List G) (hg : ∀ g ∈ gs, ESC ∉ g.s) :
    ∀ i ∈ paintItems st gs, Item.ok i := by
  intro i hi
  unfold paintItems at hi
  split at hi
  · simp at hi; subst hi; exact hg
  · simp at hi
    rcases hi with e | e | e
    · subst e; intro s hm; rw [final_pre st hwf s hm]; exact hm
    · subst e; exact hg
    · subst e; intro s hm; rw [final_reset s hm]; exact hm

theorem paintItems_flatten (st : Sgr.Style) (gs : List G) :
    flatten (paintItems st gs) = paint st (Item.text gs).chars := by
  unfold paintItems paint pre suf
  cases st.isPlain <;> simp [flatten, Item.chars, pre]

theorem withMarker_ok (spec : PadSpec) (line : List Item) (hline : ∀ i ∈ line, Item.ok i)
    (hmark : ∀ st, spec.emptyMark = some st → Style.wf st) (h1 : selfContained (flatten line)) :
    (∀ i ∈ withMarker spec line, Item.ok i) ∧ selfContained (flatten (withMarker spec line)) := by
  have hsp : ∀ g ∈ [(⟨[' '], 1⟩ : G)], ESC ∉ g.s := by
    intro g hg; simp at hg; subst hg; decide
  unfold withMarker
  cases hem : spec.emptyMark with
  | none => exact ⟨hline, h1⟩
  | some st =>
    constructor
    · intro i hi
      rcases List.mem_append.mp hi with e | e
      · exact hline i e
      · exact paintItems_ok st (hmark st hem) _ hsp i e
    · simp only [flatten_append, paintItems_flatten]
      exact selfContained_append _ _ h1
        (selfContained_paint st _ (hmark st hem) (neutral_text _ (text_chars_noesc _ hsp)))

theorem fitPanel_selfContained (spec : PadSpec) (line1 line2 : List Item)
    (hok : ∀ i ∈ line1, Item.ok i) (htail : ∀ i ∈ spec.tail, Item.ok i)
    (h1 : selfContained (flatten line1)) (h2 : selfContained (flatten spec.tail))
    (h : fitPanel spec line1 = some line2) : selfContained (flatten line2) := by
  unfold fitPanel at h
  split at h
  · exact (truncate_selfContained spec.panelWidth spec.tail (some ' ')
      (fun f hf => by cases hf; decide) line1 line2 hok htail h h1 h2).1
  · cases h; exact h1

theorem fillPanel_selfContained (spec : PadSpec) (tw : Nat) (line2 : List Item)
    (hfill : Style.wf spec.fillStyle) (h : selfContained (flatten line2)) :
    selfContained (fillPanel spec tw line2) := by
  unfold fillPanel
  cases spec.fillMode with
  | ansi => exact rightFill_selfContained _ _ hfill h
  | spaces =>
    simp only
    split
    · exact h
    · exact spacesFill_selfContained _ _ hfill _ h
  | none => exact h

/-- **`pad_panel_line_to_width` keeps a panel line self-contained**: marker, truncation and
either fill method. -/
theorem padPanel_selfContained (spec : PadSpec) (line : List Item) (out : List Char)
    (hline : ∀ i ∈ line, Item.ok i) (htail : ∀ i ∈ spec.tail, Item.ok i)
    (hmark : ∀ st, spec.emptyMark = some st → Style.wf st) (hfill : Style.wf spec.fillStyle)
    (h1 : selfContained (flatten line)) (h2 : selfContained (flatten spec.tail))
    (h : padPanel spec line = some out) : selfContained out := by
  unfold padPanel at h
  obtain ⟨hok1, hsc1⟩ := withMarker_ok spec line hline hmark h1
  cases hf : fitPanel spec (withMarker spec line) with
  | none => simp [hf] at h
  | some line2 =>
    simp [hf] at h
    subst h
    exact fillPanel_selfContained spec _ line2 hfill
      (fitPanel_selfContained spec _ line2 hok1 htail hsc1 h2 hf)

end LineProofs
