import DeltaModel.Options
/-!
C13 helper: the statements of `set_options` around the `set_options!` call.
-/
namespace Options

theorem foldl_fixed {α β : Type} (f : β → α → β) (v : β) (l : List α) (h : ∀ s ∈ l, f v s = v) :
    l.foldl f v = v := by
  induction l with
  | nil => rfl
  | cons a t ih =>
    simp only [List.foldl_cons]
    rw [h a List.mem_cons_self]
    exact ih (fun s hs => h s (List.mem_cons_of_mem _ hs))

/-- Generated fact: the side-by-side `normal`→`syntax` rule runs before the `set_options!` call
    (so it can only see clap's default). -/
theorem sbs_rule_runs_before_macro :
    ∀ s ∈ stmts, s.kind = "sbs-normal-to-syntax" → s.phase = "pre" := by decide

/-- Generated fact: the only statements after the `set_options!` call are the computed values,
    the `--24-bit-color` alias and the documented `--color-only` resets. -/
theorem post_statements_allowed :
    ∀ s ∈ stmts, s.phase = "post" → s.kind ∈ ["computed", "alias", "color-only-reset"] := by decide

theorem applyStmt_fixed (feats : List Name) (supplied colorOnly : Bool) (o : Name) (v : Val) (s : Stmt)
    (hs : s ∈ stmts) (hv : v ≠ .dflt)
    (hco : o ∈ colorOnlyResetOptions → colorOnly = false) :
    applyStmt feats supplied colorOnly o v s = v := by
  unfold applyStmt
  by_cases hw : s.writes.contains o
  · simp only [hw, ↓reduceIte]
    by_cases hk : s.kind = "sbs-normal-to-syntax"
    · have hp := sbs_rule_runs_before_macro s hs hk
      simp only [hk, ↓reduceIte, hp]
      split
      · cases v <;> first | rfl | exact absurd rfl hv
      · rfl
    · simp only [hk, ↓reduceIte]
      by_cases hc : s.kind = "color-only-reset"
      · have : o ∈ colorOnlyResetOptions := by
          unfold colorOnlyResetOptions
          refine List.mem_flatMap.mpr ⟨s, List.mem_filter.mpr ⟨hs, by simpa using hc⟩, ?_⟩
          simpa using hw
        simp [hc, hco this]
      · simp [hc]
  · rw [if_neg hw]

end Options
