import Proofs.EditsAnnotate
/-!
`infer_edits`: the greedy pairing loop. Invariant `InvI` of the loop state, kept by the three
ways the state is extended (unpaired plus line, unpaired minus line, homologous pair).
-/
set_option linter.unusedSimpArgs false
set_option linter.unusedVariables false
namespace Edits
open Align Generated.Align

theorem getElem?_append_some {β : Type} {l : List β} {i : Nat} {v : β} (r : List β) (h : l[i]? = some v) :
    (l ++ r)[i]? = some v := by
  have hi : i < l.length := by
    rcases Nat.lt_or_ge i l.length with h' | h'
    · exact h'
    · rw [List.getElem?_eq_none h'] at h; cases h
  rw [List.getElem?_append_left hi]; exact h

structure InvI (cfg : Cfg) (sameLen : Bool) (minus plus : List Line) (nd ni : List Tag)
    (mi : Nat) (st : IState) : Prop where
  pi_le : st.plusIndex ≤ plus.length
  al_m : st.al.filterMap (·.1) = List.range mi
  al_p : st.al.filterMap (·.2) = List.range st.plusIndex
  am_len : st.am.length = mi
  ap_len : st.ap.length = st.plusIndex
  unp_m : ∀ i, (some i, none) ∈ st.al →
    ∃ tag ml, nd[i]? = some tag ∧ minus[i]? = some ml ∧ st.am[i]? = some [⟨tag, ml.gs⟩]
  unp_p : ∀ j, (none, some j) ∈ st.al →
    ∃ tag pl secs, ni[j]? = some tag ∧ plus[j]? = some pl ∧ st.ap[j]? = some secs ∧
      (∀ s ∈ secs, s.tag = tag) ∧ secsG secs = pl.gs
  pair : ∀ i j, (some i, some j) ∈ st.al →
    ∃ ml pl tnd tni a, minus[i]? = some ml ∧ plus[j]? = some pl ∧ nd[i]? = some tnd ∧ tni ∈ ni ∧
      annotatePair ⟨tnd, cfg.del, tni, cfg.ins⟩ ml pl = .ok a ∧
      st.am[i]? = some a.minus ∧ st.ap[j]? = some a.plus ∧
      isHomologousPair cfg sameLen a.numer a.denom = true ∧
      (i, j, a.numer, a.denom) ∈ st.dists

variable {cfg : Cfg} {sameLen : Bool} {minus plus : List Line} {nd ni : List Tag}

/-- (E1) an unpaired plus line is emitted. -/
theorem InvI.push_plus {mi : Nat} {st : IState} (inv : InvI cfg sameLen minus plus nd ni mi st)
    (tag : Tag) (pl : Line) (secs : List Section)
    (hni : ni[st.plusIndex]? = some tag) (hpl : plus[st.plusIndex]? = some pl)
    (htag : ∀ s ∈ secs, s.tag = tag) (hsecs : secsG secs = pl.gs) :
    InvI cfg sameLen minus plus nd ni mi
      { st with ap := st.ap ++ [secs], al := st.al ++ [(none, some st.plusIndex)],
                plusIndex := st.plusIndex + 1 } := by
  have hlt : st.plusIndex < plus.length := by
    rcases Nat.lt_or_ge st.plusIndex plus.length with h' | h'
    · exact h'
    · rw [List.getElem?_eq_none h'] at hpl; cases hpl
  constructor
  · exact hlt
  · simp [List.filterMap_append, inv.al_m]
  · simp [List.filterMap_append, inv.al_p, List.range_succ]
  · exact inv.am_len
  · simp [inv.ap_len]
  · intro i hi
    simp only [List.mem_append, List.mem_singleton, Prod.mk.injEq, reduceCtorEq, false_and, or_false] at hi
    exact inv.unp_m i hi
  · intro j hj
    simp only [List.mem_append, List.mem_singleton, Prod.mk.injEq, true_and, Option.some.injEq] at hj
    rcases hj with hj | rfl
    · obtain ⟨tag', pl', secs', h1, h2, h3, h4, h5⟩ := inv.unp_p j hj
      exact ⟨tag', pl', secs', h1, h2, getElem?_append_some _ h3, h4, h5⟩
    · refine ⟨tag, pl, secs, hni, hpl, ?_, htag, hsecs⟩
      rw [← inv.ap_len]; simp
  · intro i j hij
    simp only [List.mem_append, List.mem_singleton, Prod.mk.injEq, reduceCtorEq, false_and, or_false] at hij
    obtain ⟨ml, pl', tnd, tni, a, h1, h2, h3, h9, h4, h5, h6, h7, h8⟩ := inv.pair i j hij
    exact ⟨ml, pl', tnd, tni, a, h1, h2, h3, h9, h4, h5, getElem?_append_some _ h6, h7, h8⟩

/-- (E2) an unpaired minus line is emitted. -/
theorem InvI.push_minus {mi : Nat} {st : IState} (inv : InvI cfg sameLen minus plus nd ni mi st)
    (tag : Tag) (ml : Line) (hnd : nd[mi]? = some tag) (hml : minus[mi]? = some ml) :
    InvI cfg sameLen minus plus nd ni (mi + 1)
      { st with am := st.am ++ [[⟨tag, ml.gs⟩]], al := st.al ++ [(some mi, none)] } := by
  constructor
  · exact inv.pi_le
  · simp [List.filterMap_append, inv.al_m, List.range_succ]
  · simp [List.filterMap_append, inv.al_p]
  · simp [inv.am_len]
  · exact inv.ap_len
  · intro i hi
    simp only [List.mem_append, List.mem_singleton, Prod.mk.injEq, and_true, Option.some.injEq] at hi
    rcases hi with hi | rfl
    · obtain ⟨tag', ml', h1, h2, h3⟩ := inv.unp_m i hi
      exact ⟨tag', ml', h1, h2, getElem?_append_some _ h3⟩
    · refine ⟨tag, ml, hnd, hml, ?_⟩
      rw [← inv.am_len]; simp
  · intro j hj
    simp only [List.mem_append, List.mem_singleton, Prod.mk.injEq, reduceCtorEq, false_and, or_false] at hj
    exact inv.unp_p j hj
  · intro i j hij
    simp only [List.mem_append, List.mem_singleton, Prod.mk.injEq, reduceCtorEq, and_false, or_false] at hij
    obtain ⟨ml', pl', tnd, tni, a, h1, h2, h3, h9, h4, h5, h6, h7, h8⟩ := inv.pair i j hij
    exact ⟨ml', pl', tnd, tni, a, h1, h2, h3, h9, h4, getElem?_append_some _ h5, h6, h7, h8⟩

/-- (E3) a homologous pair is emitted. -/
theorem InvI.push_pair {mi : Nat} {st : IState} (inv : InvI cfg sameLen minus plus nd ni mi st)
    (ml pl : Line) (tnd tni : Tag) (a : Annotated)
    (hml : minus[mi]? = some ml) (hpl : plus[st.plusIndex]? = some pl) (hnd : nd[mi]? = some tnd)
    (htni : tni ∈ ni)
    (ha : annotatePair ⟨tnd, cfg.del, tni, cfg.ins⟩ ml pl = .ok a)
    (hh : isHomologousPair cfg sameLen a.numer a.denom = true) :
    InvI cfg sameLen minus plus nd ni (mi + 1)
      { st with am := st.am ++ [a.minus], ap := st.ap ++ [a.plus],
                al := st.al ++ [(some mi, some st.plusIndex)],
                plusIndex := st.plusIndex + 1,
                dists := st.dists ++ [(mi, st.plusIndex, a.numer, a.denom)] } := by
  have hlt : st.plusIndex < plus.length := by
    rcases Nat.lt_or_ge st.plusIndex plus.length with h' | h'
    · exact h'
    · rw [List.getElem?_eq_none h'] at hpl; cases hpl
  constructor
  · exact hlt
  · simp [List.filterMap_append, inv.al_m, List.range_succ]
  · simp [List.filterMap_append, inv.al_p, List.range_succ]
  · simp [inv.am_len]
  · simp [inv.ap_len]
  · intro i hi
    simp only [List.mem_append, List.mem_singleton, Prod.mk.injEq, reduceCtorEq, and_false, or_false] at hi
    obtain ⟨tag', ml', h1, h2, h3⟩ := inv.unp_m i hi
    exact ⟨tag', ml', h1, h2, getElem?_append_some _ h3⟩
  · intro j hj
    simp only [List.mem_append, List.mem_singleton, Prod.mk.injEq, reduceCtorEq, false_and, or_false] at hj
    obtain ⟨tag', pl', secs', h1, h2, h3, h4, h5⟩ := inv.unp_p j hj
    exact ⟨tag', pl', secs', h1, h2, getElem?_append_some _ h3, h4, h5⟩
  · intro i j hij
    simp only [List.mem_append, List.mem_singleton, Prod.mk.injEq, Option.some.injEq] at hij
    rcases hij with hij | ⟨rfl, rfl⟩
    · obtain ⟨ml', pl', tnd', tni', a', h1, h2, h3, h9, h4, h5, h6, h7, h8⟩ := inv.pair i j hij
      exact ⟨ml', pl', tnd', tni', a', h1, h2, h3, h9, h4, getElem?_append_some _ h5,
        getElem?_append_some _ h6, h7, by simp [h8]⟩
    · refine ⟨ml, pl, tnd, tni, a, hml, hpl, hnd, htni, ha, ?_, ?_, hh, by simp⟩
      · rw [← inv.am_len]; simp
      · rw [← inv.ap_len]; simp

theorem emitRejected_inv {mi : Nat} :
    ∀ (k : Nat) (st st' : IState), InvI cfg sameLen minus plus nd ni mi st →
      emitRejected plus ni k st = .ok st' →
      InvI cfg sameLen minus plus nd ni mi st' ∧ st'.plusIndex = st.plusIndex + k ∧
        (∀ e ∈ st.al, e ∈ st'.al) := by
  intro k
  induction k with
  | zero =>
    intro st st' inv h
    simp only [emitRejected] at h
    injection h with h; subst h
    exact ⟨inv, rfl, fun e he => he⟩
  | succ k ih =>
    intro st st' inv h
    simp only [emitRejected] at h
    split at h
    · rename_i pl tag hpl hni
      have inv1 := inv.push_plus tag pl [⟨tag, pl.gs⟩] hni hpl (by simp) (by simp [secsG])
      obtain ⟨h1, h2, h3⟩ := ih _ st' inv1 h
      refine ⟨h1, by rw [h2]; simp; omega, fun e he => h3 e (by simp [he])⟩
    · cases h

theorem findHomolog_spec (m : Line) (tndo tnio : Option Tag) :
    ∀ (cands : List Line) (c c' : Nat) (a : Annotated),
      findHomolog cfg sameLen m tndo tnio cands c = .ok (some (c', a)) →
      ∃ k pl tnd tni, c' = c + k ∧ tndo = some tnd ∧ tnio = some tni ∧ cands[k]? = some pl ∧
        annotatePair ⟨tnd, cfg.del, tni, cfg.ins⟩ m pl = .ok a ∧
        isHomologousPair cfg sameLen a.numer a.denom = true := by
  intro cands
  induction cands with
  | nil => intro c c' a h; simp [findHomolog] at h
  | cons p rest ih =>
    intro c c' a h
    simp only [findHomolog] at h
    split at h
    · rename_i tnd tni
      split at h
      · cases h
      · rename_i a' ha'
        split at h
        · rename_i hh
          injection h with h; injection h with h; injection h with h1 h2
          subst h1 h2
          exact ⟨0, p, tnd, tni, rfl, rfl, rfl, rfl, ha', hh⟩
        · obtain ⟨k, pl, tnd', tni', h1, h2, h3, h4, h5, h6⟩ := ih (c + 1) c' a h
          exact ⟨k + 1, pl, tnd', tni', by omega, h2, h3, by simpa using h4, h5, h6⟩
    · cases h

theorem minusLoop_inv :
    ∀ (rest : List Line) (mi : Nat) (st st' : IState), (∀ k, rest[k]? = minus[mi + k]?) →
      InvI cfg sameLen minus plus nd ni mi st →
      minusLoop cfg sameLen plus nd ni rest mi st = .ok st' →
      InvI cfg sameLen minus plus nd ni (mi + rest.length) st' ∧ (∀ e ∈ st.al, e ∈ st'.al) := by
  intro rest
  induction rest with
  | nil =>
    intro mi st st' _ inv h
    simp only [minusLoop] at h
    injection h with h; subst h
    exact ⟨inv, fun e he => he⟩
  | cons m rest ih =>
    intro mi st st' hrest inv h
    have hm : minus[mi]? = some m := by have := hrest 0; simpa using this.symm
    have hrest' : ∀ k, rest[k]? = minus[mi + 1 + k]? := fun k => by
      have := hrest (k + 1); simp only [List.getElem?_cons_succ] at this
      rw [this]; congr 1; omega
    simp only [minusLoop] at h
    split at h
    · cases h
    · split at h
      · cases h
      · -- no homolog
        split at h
        · cases h
        · rename_i tag htag
          have inv1 := inv.push_minus tag m htag hm
          obtain ⟨h1, h2⟩ := ih (mi + 1) _ st' hrest' inv1 h
          refine ⟨by simpa [Nat.add_assoc, Nat.add_comm 1] using h1, fun e he => h2 e (by simp [he])⟩
      · rename_i considered a hf
        obtain ⟨k, pl, tnd, tni, hk, htnd, htni, hpl, ha, hh⟩ := findHomolog_spec m _ _ _ 0 considered a hf
        split at h
        · cases h
        · rename_i st1 he
          obtain ⟨inv1, hpi, hal⟩ := emitRejected_inv considered st st1 inv he
          have hpl' : plus[st1.plusIndex]? = some pl := by
            rw [hpi, hk]; simpa using hpl
          have inv2 := inv1.push_pair m pl tnd tni a hm hpl' htnd (List.mem_of_getElem? htni) ha hh
          obtain ⟨h1, h2⟩ := ih (mi + 1) _ st' hrest' inv2 h
          refine ⟨by simpa [Nat.add_assoc, Nat.add_comm 1] using h1,
            fun e he' => h2 e (by simp [hal e he'])⟩

theorem emitRemaining_inv {mi : Nat} :
    ∀ (rest : List Line) (st st' : IState), (∀ k, rest[k]? = plus[st.plusIndex + k]?) →
      InvI cfg sameLen minus plus nd ni mi st →
      emitRemaining ni rest st = .ok st' →
      InvI cfg sameLen minus plus nd ni mi st' ∧ st'.plusIndex = st.plusIndex + rest.length ∧
        (∀ e ∈ st.al, e ∈ st'.al) := by
  intro rest
  induction rest with
  | nil =>
    intro st st' _ inv h
    simp only [emitRemaining] at h
    injection h with h; subst h
    exact ⟨inv, rfl, fun e he => he⟩
  | cons pl rest ih =>
    intro st st' hrest inv h
    have hpl : plus[st.plusIndex]? = some pl := by have := hrest 0; simpa using this.symm
    simp only [emitRemaining] at h
    split at h
    · cases h
    · rename_i tag htag
      have inv1 := inv.push_plus tag pl (plusSections tag pl.gs) htag hpl
        (plusSections_tag tag pl.gs) (plusSections_secsG tag pl.gs)
      have hrest' : ∀ k, rest[k]? = plus[st.plusIndex + 1 + k]? := fun k => by
        have := hrest (k + 1); simp only [List.getElem?_cons_succ] at this
        rw [this]; congr 1; omega
      obtain ⟨h1, h2, h3⟩ := ih _ st' hrest' inv1 h
      refine ⟨h1, by rw [h2]; simp; omega, fun e he => h3 e (by simp [he])⟩

theorem initI_inv : InvI cfg sameLen minus plus nd ni 0 ⟨0, [], [], [], []⟩ := by
  constructor <;> simp

/-- What `infer_edits` guarantees about its result. -/
theorem inferEdits_inv (r : Inferred) (h : inferEdits cfg minus plus nd ni = .ok r) :
    ∃ st, InvI cfg (decide (minus.length = plus.length)) minus plus nd ni minus.length st ∧
      st.plusIndex = plus.length ∧ r = ⟨st.am, st.ap, st.al, st.dists⟩ := by
  unfold inferEdits at h
  split at h
  · cases h
  · rename_i st hl
    obtain ⟨inv1, _⟩ := minusLoop_inv (cfg := cfg) (minus := minus) (nd := nd) (ni := ni) minus 0 _ st (by simp) initI_inv hl
    split at h
    · cases h
    · rename_i hle
      split at h
      · cases h
      · rename_i st2 he
        injection h with h
        obtain ⟨inv2, hpi, _⟩ := emitRemaining_inv (minus := minus) (plus := plus) (plus.drop st.plusIndex) st st2
          (fun k => by simp [List.getElem?_drop]) (by simpa using inv1) he
        refine ⟨st2, inv2, ?_, h.symm⟩
        rw [hpi]; simp; omega

/-! ### threshold ≥ 1: every candidate is accepted -/

/-- The pairing test accepts every distance (`numer ≤ denom` always holds). -/
def AcceptsAll (cfg : Cfg) (sameLen : Bool) : Prop :=
  ∀ numer denom : Nat, numer ≤ denom → isHomologousPair cfg sameLen numer denom = true

theorem annotatePair_numer_le (t : Tags) (m p : Line) (a : Annotated) (h : annotatePair t m p = .ok a) :
    a.numer ≤ a.denom := by
  obtain ⟨x, y, hx, hy⟩ := annotatePair_ok_tokens t m p a h
  obtain ⟨a', ha', spec⟩ := annotatePair_of_tokens t m p x y hx hy
  rw [h] at ha'; injection ha' with ha'; subst ha'
  exact spec.numer_le

theorem findHomolog_acc (hacc : AcceptsAll cfg sameLen) (m : Line) (tndo tnio : Option Tag)
    (p : Line) (rest : List Line) (c : Nat) (r : Option (Nat × Annotated))
    (h : findHomolog cfg sameLen m tndo tnio (p :: rest) c = .ok r) : ∃ a, r = some (c, a) := by
  simp only [findHomolog] at h
  split at h
  · split at h
    · cases h
    · rename_i a ha
      rw [if_pos (hacc _ _ (annotatePair_numer_le _ _ _ _ ha))] at h
      injection h with h
      exact ⟨a, h.symm⟩
  · cases h

structure InvJ (plus : List Line) (mi : Nat) (st : IState) : Prop where
  pi : st.plusIndex = min mi plus.length
  diag : ∀ i j, (some i, some j) ∈ st.al → i = j
  all : ∀ i, i < min mi plus.length → (some i, some i) ∈ st.al

theorem minusLoop_acc (hacc : AcceptsAll cfg sameLen) :
    ∀ (rest : List Line) (mi : Nat) (st st' : IState), (∀ k, rest[k]? = minus[mi + k]?) →
      InvI cfg sameLen minus plus nd ni mi st → InvJ plus mi st →
      minusLoop cfg sameLen plus nd ni rest mi st = .ok st' →
      InvJ plus (mi + rest.length) st' := by
  intro rest
  induction rest with
  | nil =>
    intro mi st st' _ _ invj h
    simp only [minusLoop] at h
    injection h with h; subst h
    exact invj
  | cons m rest ih =>
    intro mi st st' hrest inv invj h
    have hm : minus[mi]? = some m := by have := hrest 0; simpa using this.symm
    have hrest' : ∀ k, rest[k]? = minus[mi + 1 + k]? := fun k => by
      have := hrest (k + 1); simp only [List.getElem?_cons_succ] at this
      rw [this]; congr 1; omega
    have hlen : mi + (m :: rest).length = mi + 1 + rest.length := by simp; omega
    rw [hlen]
    simp only [minusLoop] at h
    split at h
    · cases h
    · rename_i hle
      split at h
      · cases h
      · -- no homolog: the candidate list was empty
        rename_i hf
        have hdrop : plus.drop st.plusIndex = [] := by
          cases hc : plus.drop st.plusIndex with
          | nil => rfl
          | cons p ps =>
            rw [hc] at hf
            obtain ⟨a, ha⟩ := findHomolog_acc hacc m _ _ p ps 0 none hf
            cases ha
        have hge : plus.length ≤ st.plusIndex := by simpa using hdrop
        have hpi := invj.pi
        split at h
        · cases h
        · rename_i tag htag
          have inv1 := inv.push_minus tag m htag hm
          refine ih (mi + 1) _ st' hrest' inv1 ?_ h
          constructor
          · simp only; omega
          · intro i j hij
            simp only [List.mem_append, List.mem_singleton, Prod.mk.injEq, reduceCtorEq, and_false, or_false] at hij
            exact invj.diag i j hij
          · intro i hi
            have : i < min mi plus.length := by omega
            simp [invj.all i this]
      · rename_i considered a hf
        have hpi := invj.pi
        obtain ⟨k, pl, tnd, tni, hk, htnd, htni, hpl, ha, hh⟩ := findHomolog_spec m _ _ _ 0 considered a hf
        have hc0 : considered = 0 := by
          cases hc : plus.drop st.plusIndex with
          | nil => rw [hc] at hpl; simp at hpl
          | cons p ps =>
            rw [hc] at hf
            obtain ⟨a', ha'⟩ := findHomolog_acc hacc m _ _ p ps 0 _ hf
            injection ha' with ha'; injection ha' with ha'
        subst hc0
        have hk0 : k = 0 := by omega
        subst hk0
        simp only [emitRejected] at h
        have hpl' : plus[st.plusIndex]? = some pl := by simpa using hpl
        have hlt : st.plusIndex < plus.length := by
          rcases Nat.lt_or_ge st.plusIndex plus.length with h' | h'
          · exact h'
          · rw [List.getElem?_eq_none h'] at hpl'; cases hpl'
        have hpim : st.plusIndex = mi := by omega
        have inv2 := inv.push_pair m pl tnd tni a hm hpl' htnd (List.mem_of_getElem? htni) ha hh
        refine ih (mi + 1) _ st' hrest' inv2 ?_ h
        constructor
        · simp only; omega
        · intro i j hij
          simp only [List.mem_append, List.mem_singleton, Prod.mk.injEq, Option.some.injEq] at hij
          rcases hij with hij | ⟨rfl, rfl⟩
          · exact invj.diag i j hij
          · exact hpim.symm
        · intro i hi
          by_cases him : i = mi
          · subst him; simp [hpim]
          · have : i < min mi plus.length := by omega
            simp [invj.all i this]

theorem emitRemaining_al :
    ∀ (rest : List Line) (st st' : IState), emitRemaining ni rest st = .ok st' →
      ∀ e ∈ st'.al, e ∈ st.al ∨ e.1 = none := by
  intro rest
  induction rest with
  | nil =>
    intro st st' h e he
    simp only [emitRemaining] at h
    injection h with h; subst h
    exact Or.inl he
  | cons pl rest ih =>
    intro st st' h e he
    simp only [emitRemaining] at h
    split at h
    · cases h
    · rcases ih _ st' h e he with h1 | h1
      · simp only [List.mem_append, List.mem_singleton] at h1
        rcases h1 with h1 | rfl
        · exact Or.inl h1
        · exact Or.inr rfl
      · exact Or.inr h1

/-- With a threshold that accepts everything, the pairs are exactly `(i, i)`, `i < min m p`. -/
theorem inferEdits_acc (hacc : AcceptsAll cfg (decide (minus.length = plus.length)))
    (r : Inferred) (h : inferEdits cfg minus plus nd ni = .ok r) :
    (∀ i j, (some i, some j) ∈ r.alignment → i = j) ∧
    (∀ i, i < min minus.length plus.length → (some i, some i) ∈ r.alignment) := by
  unfold inferEdits at h
  split at h
  · cases h
  · rename_i st hl
    have invj0 : InvJ plus 0 ⟨0, [], [], [], []⟩ := by
      constructor <;> simp
    have invj := minusLoop_acc (minus := minus) (nd := nd) (ni := ni) hacc minus 0 _ st (by simp) initI_inv invj0 hl
    obtain ⟨inv1, _⟩ := minusLoop_inv (cfg := cfg) (minus := minus) (nd := nd) (ni := ni) minus 0 _ st (by simp) initI_inv hl
    split at h
    · cases h
    · split at h
      · cases h
      · rename_i st2 he
        injection h with h
        subst h
        simp only [Nat.zero_add] at invj
        obtain ⟨_, _, hmono⟩ := emitRemaining_inv (minus := minus) (plus := plus) (plus.drop st.plusIndex) st st2
          (fun k => by simp [List.getElem?_drop]) (by simpa using inv1) he
        constructor
        · intro i j hij
          rcases emitRemaining_al _ st st2 he _ hij with h1 | h1
          · exact invj.diag i j h1
          · cases h1
        · intro i hi
          exact hmono _ (invj.all i hi)

end Edits
