import DeltaModel.Generated.DrawShapes
import Proofs.TermTrunc
/-! The decoration drawing functions (`Draw`, mirroring `src/handlers/draw.rs`) write
self-contained lines. -/
namespace DrawProofs
open Term Sgr SgrTerm LineProofs Draw

/-- The model mirrors the current source: same output statements, in the same order, in every
function of `draw.rs`, and the same variant → function table. -/
theorem shapes_as_modelled :
    Generated.DrawShapes.drawShapes = Draw.modelledShapes ∧
    Generated.DrawShapes.drawFunctionOf = Draw.modelledDrawFunctions := by decide

theorem selfContained_nil : selfContained [] := by decide

/-- If every written piece is self-contained, so is every line. -/
theorem linesAux_selfContained (o : Out) (cur : List Char) (hc : selfContained cur)
    (hp : ∀ p, some p ∈ o → selfContained p) : ∀ l ∈ linesAux cur o, selfContained l := by
  induction o generalizing cur with
  | nil => intro l hl; simp [linesAux] at hl; subst hl; exact hc
  | cons x rest ih =>
    have hrest : ∀ p, some p ∈ rest → selfContained p := fun p h => hp p (List.mem_cons_of_mem _ h)
    cases x with
    | none =>
      intro l hl
      simp only [linesAux, List.mem_cons] at hl
      rcases hl with h | h
      · subst h; exact hc
      · exact ih [] selfContained_nil hrest l h
    | some p =>
      intro l hl
      simp only [linesAux] at hl
      exact ih (cur ++ p) (selfContained_append _ _ hc (hp p List.mem_cons_self)) hrest l hl

theorem lines_selfContained (o : Out) (hp : ∀ p, some p ∈ o → selfContained p) :
    ∀ l ∈ lines o, selfContained l :=
  linesAux_selfContained o [] selfContained_nil hp

/-- What is assumed of the arguments: decoration and text styles are Rust values, the box
characters are not ESC, and the text piece (raw text, or the painted text — which may itself
contain painted runs and hyperlinks) is a self-contained chunk. -/
structure ArgsOk (a : Args) : Prop where
  deco : Style.wf a.deco
  hch : a.ch.horizontal ≠ ESC ∧ a.ch.downLeft ≠ ESC ∧ a.ch.vertical ≠ ESC ∧ a.ch.upLeft ≠ ESC ∧
    a.ch.upHorizontal ≠ ESC
  text : selfContained (textPiece a)

/-- Sufficient for `ArgsOk.text` when the element is painted: a well-formed text style around
neutral text (plain, or with complete hyperlinks) and an ESC-free addendum. -/
theorem textPiece_painted (a : Args) (hr : a.textRaw = false) (hw : Style.wf a.textStyle)
    (ht : Neutral a.text) (ha : ESC ∉ a.addendum) : selfContained (textPiece a) := by
  simp only [textPiece, hr, Bool.false_eq_true, if_false, paintText]
  split
  · exact selfContained_paint _ _ hw ht
  · apply selfContained_paint _ _ hw
    have h1 : Neutral " (".toList := neutral_text _ (by decide)
    have h2 : Neutral ")".toList := neutral_text _ (by decide)
    exact neutral_append _ _ (neutral_append _ _ (neutral_append _ _ ht h1) (neutral_text _ ha)) h2

theorem decoPiece_ok (a : Args) (hd : Style.wf a.deco) (t : List Char) (ht : ESC ∉ t) (p : List Char)
    (h : decoPiece a t = some p) : selfContained p := by
  simp only [decoPiece, Option.some.injEq] at h
  subst h
  exact selfContained_paint _ _ hd (neutral_text _ ht)

theorem replicate_noesc (c : Char) (hc : c ≠ ESC) (n : Nat) : ESC ∉ List.replicate n c := by
  intro h
  exact hc (List.eq_of_mem_replicate h).symm

theorem single_noesc (c : Char) (hc : c ≠ ESC) : ESC ∉ [c] := by
  simp; exact fun h => hc h.symm

theorem boxedPartial_pieces (a : Args) (h : ArgsOk a) : ∀ p, some p ∈ boxedPartial a → selfContained p := by
  obtain ⟨hd, ⟨c1, c2, c3, c4, c5⟩, ht⟩ := h
  intro p hp
  simp only [boxedPartial, List.mem_cons, List.mem_nil_iff, or_false] at hp
  rcases hp with e | e | e | e | e | e | e
  · exact decoPiece_ok a hd _ (replicate_noesc _ c1 _) p e.symm
  · exact decoPiece_ok a hd _ (single_noesc _ c2) p e.symm
  · cases e
  · cases e; exact ht
  · exact decoPiece_ok a hd _ (single_noesc _ c3) p e.symm
  · cases e
  · exact decoPiece_ok a hd _ (replicate_noesc _ c1 _) p e.symm

theorem horizontalLine_pieces (a : Args) (h : ArgsOk a) (n : Nat) :
    ∀ p, some p ∈ horizontalLine a n → selfContained p := by
  intro p hp
  simp only [horizontalLine, List.mem_cons, List.mem_nil_iff, or_false] at hp
  exact decoPiece_ok a h.deco _ (replicate_noesc _ h.hch.1 _) p hp.symm

theorem draw_pieces (s : Shape) (a : Args) (h : ArgsOk a) : ∀ p, some p ∈ draw s a → selfContained p := by
  have hbp := boxedPartial_pieces a h
  have hl := horizontalLine_pieces a h
  have hboxed : ∀ p, some p ∈ boxed a → selfContained p := by
    intro p hp
    simp only [boxed, List.mem_append, List.mem_cons, List.mem_nil_iff, or_false] at hp
    rcases hp with e | e | e
    · exact hbp p e
    · exact decoPiece_ok a h.deco _ (single_noesc _ h.hch.2.2.2.1) p e.symm
    · cases e
  have huo : ∀ k, ∀ p, some p ∈ underOver k a → selfContained p := by
    intro k p hp
    simp only [underOver, List.mem_append, List.mem_cons, List.mem_nil_iff, or_false] at hp
    rcases hp with (e | e | e) | e
    · split at e
      · simp at e
      · rcases List.mem_append.mp e with e' | e'
        · exact hl _ p e'
        · simp at e'
    · cases e; exact h.text
    · cases e
    · split at e
      · simp at e
      · rcases List.mem_append.mp e with e' | e'
        · exact hl _ p e'
        · simp at e'
  cases s with
  | noDecoration =>
    intro p hp
    simp only [draw, noDecoration, List.mem_cons, List.mem_nil_iff, or_false] at hp
    rcases hp with e | e
    · cases e; exact h.text
    · cases e
  | box => exact hboxed
  | boxWithOverline => exact hboxed
  | boxWithUnderOverline => exact hboxed
  | boxWithUnderline =>
    intro p hp
    simp only [draw, boxedWithUnderline, boxedWithWhisker, List.mem_append, List.mem_cons,
      List.mem_nil_iff, or_false] at hp
    rcases hp with ((e | e) | e) | e
    · exact hbp p e
    · exact decoPiece_ok a h.deco _ (single_noesc _ h.hch.2.2.2.2) p e.symm
    · exact hl _ p e
    · cases e
  | underline => exact huo .under
  | overline => exact huo .over
  | underOverline => exact huo .underover

/-- **Every line a decoration draws is self-contained.** -/
theorem draw_lines_selfContained (s : Shape) (a : Args) (h : ArgsOk a) :
    ∀ l ∈ lines (draw s a), selfContained l :=
  lines_selfContained _ (draw_pieces s a h)

end DrawProofs

/-! ### The CR step of ingest keeps a balanced line balanced -/
namespace IngestProofs
open Term Line LineProofs

theorem splitLastCr_eq (line a t : List Char) (h : splitLastCr line = some (a, t)) :
    line = a ++ '\r' :: t := by
  induction line generalizing a t with
  | nil => simp [splitLastCr] at h
  | cons c cs ih =>
    simp only [splitLastCr] at h
    cases hs : splitLastCr cs with
    | some p =>
      obtain ⟨a', t'⟩ := p
      simp only [hs, Option.some.injEq, Prod.mk.injEq] at h
      obtain ⟨rfl, rfl⟩ := h
      simp [ih a' t' hs]
    | none =>
      simp only [hs] at h
      split at h
      · next hc => simp only [Option.some.injEq, Prod.mk.injEq] at h; obtain ⟨rfl, rfl⟩ := h; simp [hc]
      · cases h

/-- A CR read in ground mode is an ordinary character: dropping it does not change the state the
terminal ends in. -/
theorem final_drop_cr (s : State) (a t : List Char) (hm : (final s a).mode = .ground) :
    final s (a ++ '\r' :: t) = final s (a ++ t) := by
  rw [final_append, final_append]
  generalize final s a = s' at hm ⊢
  have hne : ('\r' : Char) ≠ ESC := by decide
  simp [final, run, step, hm, hne]

theorem keeps_tail : Generated.StyleTables.crStepKeepsTail = true := by decide

/-- **The CR step keeps a balanced line balanced** (and an unbalanced one unbalanced), provided the
last CR is not inside an escape sequence. -/
theorem crStep_selfContained (tz : Bool) (line : List Char)
    (hcr : ∀ a t, splitLastCr line = some (a, t) → (final init a).mode = .ground) :
    final init (crStep tz line) = final init line := by
  unfold crStep
  cases hs : splitLastCr line with
  | none => rfl
  | some p =>
    obtain ⟨a, t⟩ := p
    cases tz with
    | false => rfl
    | true =>
      simp only [if_true, keeps_tail]
      rw [splitLastCr_eq line a t hs, final_drop_cr init a t (hcr a t hs)]

end IngestProofs

/-! ### Relativized diff-stat lines -/
namespace StatProofs
open Term Line LineProofs

theorem suffix_verbatim : Generated.StyleTables.statSuffixVerbatim = true := by decide

/-- The rewritten diff-stat line ends in the state git's own `| N +++---` part ends in: the path
piece and the padding are neutral, the suffix is copied whole. -/
theorem statLine_final (path : Piece) (pad : Nat) (suffix : List Char) (hp : Neutral path.chars) :
    final init (statLine path pad suffix) = final init suffix := by
  have hsp : Neutral [' '] := neutral_text _ (by decide)
  have hpad : Neutral (List.replicate pad ' ') := neutral_text _ (by
    intro h; exact absurd (List.eq_of_mem_replicate h) (by decide))
  have : statLine path pad suffix = ([' '] ++ path.chars ++ List.replicate pad ' ') ++ suffix := by
    simp [statLine]
  rw [this, final_append, neutral_append _ _ (neutral_append _ _ hsp hp) hpad init rfl rfl]

end StatProofs
