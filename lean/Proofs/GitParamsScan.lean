import Proofs.GitParams
/-!
The scan of a whole `GIT_CONFIG_PARAMETERS` value as git writes it (`scan_fmtList`): every entry the reader can take
(`goodDelta`) gives exactly its key and value, every inert entry of another section gives nothing.
-/
namespace GitParams
open Generated.GitParams

theorem pairOf_new (w k v : List Char) : pairOf ⟨w, [none, none, some k, some v]⟩ = some (k, v) := by
  simp [pairOf, groupArms, Match.group]

theorem pairOf_old (w k v : List Char) : pairOf ⟨w, [some k, some v, none, none]⟩ = some (k, v) := by
  simp [pairOf, groupArms, Match.group]

theorem prefix_noQB : noQuoteBang keyPrefix.toList = true := by decide
theorem quote_not_in_prefix : '\'' ∉ keyPrefix.toList := by decide
theorem eq_not_in_prefix : '=' ∉ keyPrefix.toList := by decide

theorem noQuoteBang_append (a b : List Char) : noQuoteBang (a ++ b) = (noQuoteBang a && noQuoteBang b) := by
  simp [noQuoteBang]

theorem noQuoteBang_key (k : List Char) (hka : ∀ c ∈ k, keyChar c = true) : noQuoteBang k = true := by
  simp only [noQuoteBang, List.all_eq_true]
  intro c hc
  have := keyChar_noQB (hka c hc)
  simp [this.1, this.2]

theorem noQuote_of_noQB {s : List Char} (h : noQuoteBang s = true) : ∀ c ∈ s, c ≠ '\'' := by
  simp only [noQuoteBang, List.all_eq_true] at h
  intro c hc
  have := h c hc
  simp at this
  exact this.1

/-- What `goodDelta` says, unpacked. -/
theorem goodDelta_unpack {e : Entry} (h : goodDelta e = true) :
    ∃ k v, e.key = keyPrefix.toList ++ k ∧ k ≠ [] ∧ (∀ c ∈ k, keyChar c = true) ∧
      e.value = some v ∧ v ≠ [] ∧ noQuoteBang v = true := by
  unfold goodDelta deltaKey at h
  simp only [Bool.and_eq_true] at h
  obtain ⟨h1, h2⟩ := h
  split at h1
  · rename_i k hs
    cases hv : e.value with
    | none => simp [hv] at h2
    | some v =>
      simp [hv] at h2
      simp at h1
      exact ⟨k, v, stripPrefix_some hs, by simpa using h1.1, h1.2, rfl, by simpa using h2.1, by simpa [noQuoteBang] using h2.2⟩
  · cases h1

theorem isPrefixOf_self_append (p k : List Char) : p.isPrefixOf (p ++ k) = true := by
  induction p with
  | nil => simp
  | cons x xs ih => simp [ih]

theorem good_not_inert {e : Entry} (hgd : goodDelta e = true) : inertForeign e = false := by
  obtain ⟨k, v, hkey, _, _, _, _, _⟩ := goodDelta_unpack hgd
  cases hi : inertForeign e with
  | false => rfl
  | true =>
    unfold inertForeign at hi
    simp only [Bool.and_eq_true, Bool.not_eq_true'] at hi
    rw [hkey, isPrefixOf_self_append] at hi
    exact absurd hi.1.2 (by simp)

def trailerOk (b : List Char) : Prop := b = [] ∨ ∃ r, b = ' ' :: r

theorem scan_good (p : Bool × Entry) (b : List Char) (h : goodDelta p.2 = true) :
    scanAux (fmtE p ++ b) 0 = some (p.2.key, p.2.value.getD []) :: scanAux b 0 := by
  obtain ⟨f, ⟨key, value⟩⟩ := p
  obtain ⟨k, v, hkey, hk, hka, hval, hv, hvq⟩ := goodDelta_unpack h
  simp only at hkey hval
  subst hkey hval
  have hkq : noQuoteBang (keyPrefix.toList ++ k) = true := by
    rw [noQuoteBang_append, prefix_noQB, noQuoteBang_key k hka]; rfl
  have hva := noQuote_of_noQB hvq
  cases f with
  | true =>
    have hw : fmtE (true, ⟨keyPrefix.toList ++ k, some v⟩) =
        '\'' :: (keyPrefix.toList ++ k) ++ '\'' :: '=' :: '\'' :: v ++ ['\''] := by
      simp [fmtE, fmtNew, sq, sqBody_id hkq, sqBody_id hvq]
    have hm := matchAt_new k v b hk hka hv hva
    rw [hw]
    rw [scan_match ('\'' :: (keyPrefix.toList ++ k) ++ '\'' :: '=' :: '\'' :: v ++ ['\'']) b
      ⟨'\'' :: (keyPrefix.toList ++ k) ++ '\'' :: '=' :: '\'' :: v ++ ['\''],
        [none, none, some (keyPrefix.toList ++ k), some v]⟩ (by simp) (by simpa using hm) rfl, pairOf_new]
    rfl
  | false =>
    have hkv : noQuoteBang ((keyPrefix.toList ++ k) ++ '=' :: v) = true := by
      rw [noQuoteBang_append, hkq]; simpa [noQuoteBang] using hvq
    have hw : fmtE (false, ⟨keyPrefix.toList ++ k, some v⟩) =
        '\'' :: (keyPrefix.toList ++ k) ++ '=' :: v ++ ['\''] := by
      simp only [fmtE, fmtOld, sq, sqBody_id hkv]
      simp
    have hm := matchAt_old k v b hk hka hv hva
    rw [hw]
    rw [scan_match ('\'' :: (keyPrefix.toList ++ k) ++ '=' :: v ++ ['\'']) b
      ⟨'\'' :: (keyPrefix.toList ++ k) ++ '=' :: v ++ ['\''],
        [some (keyPrefix.toList ++ k), some v, none, none]⟩ (by simp) (by simpa using hm) rfl, pairOf_old]
    rfl

/-- A quoted text `'s` (closing quote follows) is dead when `s` has no quote and does not start with `delta.`. -/
theorem dead_quoted (s r : List Char) (hs : ∀ c ∈ s, c ≠ '\'')
    (hp : keyPrefix.toList.isPrefixOf s = false) : dead ('\'' :: r) ('\'' :: s) = true := by
  simp only [dead, Bool.and_eq_true, Bool.not_eq_true']
  refine ⟨?_, dead_of_no_quote s _ hs⟩
  cases hx : ("'delta.".toList).isPrefixOf ('\'' :: s ++ '\'' :: r) with
  | false => rfl
  | true =>
    have h2 : keyPrefix.toList.isPrefixOf (s ++ '\'' :: r) = true := by
      rw [prefix_eq]; simpa [List.isPrefixOf] using hx
    have := isPrefixOf_of_append _ s r '\'' quote_not_in_prefix h2
    rw [this] at hp; cases hp

theorem dead_closing (b : List Char) (hb : trailerOk b) : dead b ['\''] = true := by
  rcases hb with rfl | ⟨r, rfl⟩ <;> simp [dead, List.isPrefixOf]

theorem scan_inert (p : Bool × Entry) (b : List Char) (hb : trailerOk b) (h : inertForeign p.2 = true) :
    scanAux (fmtE p ++ b) 0 = scanAux b 0 := by
  apply scanAux_dead
  obtain ⟨f, e⟩ := p
  unfold inertForeign at h
  simp only [Bool.and_eq_true, Bool.not_eq_true'] at h
  obtain ⟨⟨⟨hkq, hke⟩, hkp⟩, hv⟩ := h
  have hkn := noQuote_of_noQB hkq
  cases hval : e.value with
  | none =>
    cases f with
    | true =>
      have : fmtE (true, e) = ('\'' :: e.key) ++ ['\'', '='] := by
        simp [fmtE, fmtNew, hval, sq, sqBody_id hkq]
      rw [this, dead_append, show ['\'', '='] ++ b = '\'' :: ('=' :: b) from rfl, dead_quoted _ _ hkn hkp]
      simp [dead, List.isPrefixOf]
    | false =>
      have : fmtE (false, e) = ('\'' :: e.key) ++ ['\''] := by
        simp [fmtE, fmtOld, hval, sq, sqBody_id hkq]
      rw [this, dead_append, show ['\''] ++ b = '\'' :: b from rfl, dead_quoted _ _ hkn hkp, dead_closing b hb]
      rfl
  | some v =>
    simp only [hval, Bool.and_eq_true, Bool.not_eq_true'] at hv
    obtain ⟨hvq, hvp⟩ := hv
    have hvn := noQuote_of_noQB hvq
    cases f with
    | true =>
      have : fmtE (true, e) = ('\'' :: e.key) ++ (['\'', '='] ++ (('\'' :: v) ++ ['\''])) := by
        simp [fmtE, fmtNew, hval, sq, sqBody_id hkq, sqBody_id hvq]
      rw [this, dead_append, dead_append, dead_append,
        show ['\'', '='] ++ ('\'' :: v ++ ['\'']) ++ b = '\'' :: ('=' :: '\'' :: v ++ '\'' :: b) by simp,
        dead_quoted _ _ hkn hkp, show ['\''] ++ b = '\'' :: b from rfl, dead_quoted _ _ hvn hvp, dead_closing b hb]
      simp [dead, List.isPrefixOf]
    | false =>
      have hs : noQuoteBang (e.key ++ '=' :: v) = true := by
        rw [noQuoteBang_append, hkq]; simpa [noQuoteBang] using hvq
      have hsp : keyPrefix.toList.isPrefixOf (e.key ++ '=' :: v) = false := by
        cases hx : keyPrefix.toList.isPrefixOf (e.key ++ '=' :: v) with
        | false => rfl
        | true =>
          have := isPrefixOf_of_append _ e.key v '=' eq_not_in_prefix hx
          rw [this] at hkp; cases hkp
      have : fmtE (false, e) = ('\'' :: (e.key ++ '=' :: v)) ++ ['\''] := by
        simp [fmtE, fmtOld, hval, sq, sqBody_id hs]
      rw [this, dead_append, show ['\''] ++ b = '\'' :: b from rfl, dead_quoted _ _ (noQuote_of_noQB hs) hsp,
        dead_closing b hb]
      rfl

/-- What the reader must give for the sequence of `-c` entries: the good ones, in order. -/
def expectedPairs (es : List (Bool × Entry)) : List (Option (List Char × List Char)) :=
  es.filterMap fun p => if goodDelta p.2 then some (some (p.2.key, p.2.value.getD [])) else none

theorem scanAux_blank (r : List Char) : scanAux (' ' :: r) 0 = scanAux r 0 := by
  simp [scanAux, matchAt]

theorem scan_fmtList (es : List (Bool × Entry))
    (h : ∀ p ∈ es, goodDelta p.2 = true ∨ inertForeign p.2 = true) :
    scan (fmtList es) = expectedPairs es := by
  unfold scan
  induction es with
  | nil => rfl
  | cons p ps ih =>
    have hp := h p (by simp)
    have ih' := ih (fun q hq => h q (by simp [hq]))
    cases ps with
    | nil =>
      have e : fmtList [p] = fmtE p ++ [] := by simp [fmtList]
      rw [e]
      rcases hp with hg | hi
      · rw [scan_good p [] hg]; simp [expectedPairs, hg, scanAux]
      · have hng : goodDelta p.2 = false := by
          cases hgd : goodDelta p.2 with
          | false => rfl
          | true => rw [good_not_inert hgd] at hi; cases hi
        rw [scan_inert p [] (Or.inl rfl) hi]; simp [expectedPairs, hng, scanAux]
    | cons q qs =>
      have e : fmtList (p :: q :: qs) = fmtE p ++ ' ' :: fmtList (q :: qs) := rfl
      rw [e]
      rcases hp with hg | hi
      · rw [scan_good p _ hg, scanAux_blank, ih']
        simp [expectedPairs, hg]
      · have hng : goodDelta p.2 = false := by
          cases hgd : goodDelta p.2 with
          | false => rfl
          | true => rw [good_not_inert hgd] at hi; cases hi
        rw [scan_inert p _ (Or.inr ⟨_, rfl⟩) hi, scanAux_blank, ih']
        simp [expectedPairs, hng]

end GitParams
