import DeltaModel.Style
/-! The tokenizer reads back a space-joined list of clean words. -/
namespace DeltaStyle

/-- A word that survives `to_lowercase` + `split_whitespace` unchanged: non-empty, no whitespace,
no upper-case letters. -/
def Tok (w : List Char) : Prop := w ≠ [] ∧ ∀ c ∈ w, isWs c = false ∧ c.toLower = c

instance (w : List Char) : Decidable (Tok w) := by unfold Tok; exact inferInstance

theorem splitWsAux_word (w cur rest : List Char) (hw : ∀ c ∈ w, isWs c = false) :
    splitWsAux cur (w ++ rest) = splitWsAux (cur ++ w) rest := by
  induction w generalizing cur with
  | nil => simp
  | cons c cs ih =>
    have hc : isWs c = false := hw c List.mem_cons_self
    have hcs : ∀ c ∈ cs, isWs c = false := fun c h => hw c (List.mem_cons_of_mem _ h)
    simp only [List.cons_append, splitWsAux, hc, Bool.false_eq_true, if_false]
    rw [ih _ hcs]
    simp

theorem space_ws : isWs ' ' = true := by decide

def joinChars : List (List Char) → List Char
  | [] => []
  | [w] => w
  | w :: v :: rest => w ++ ' ' :: joinChars (v :: rest)

theorem joinWords_eq (ws : List String) : joinWords ws = joinChars (ws.map String.toList) := by
  match ws with
  | [] => rfl
  | [w] => rfl
  | w :: v :: rest =>
    simp only [joinWords, List.map, joinChars]
    rw [joinWords_eq (v :: rest)]
    rfl

theorem splitWs_join (ws : List (List Char)) (h : ∀ w ∈ ws, Tok w) :
    splitWs (joinChars ws) = ws := by
  unfold splitWs
  match ws, h with
  | [], _ => rfl
  | [w], h =>
    have hw := h w List.mem_cons_self
    have := splitWsAux_word w [] [] (fun c hc => (hw.2 c hc).1)
    simp only [List.append_nil, List.nil_append] at this
    simp [joinChars, this, splitWsAux, hw.1]
  | w :: v :: rest, h =>
    have hw := h w List.mem_cons_self
    have ih := splitWs_join (v :: rest) (fun x hx => h x (List.mem_cons_of_mem _ hx))
    unfold splitWs at ih
    simp only [joinChars]
    rw [splitWsAux_word w [] _ (fun c hc => (hw.2 c hc).1)]
    simp only [List.nil_append, splitWsAux, space_ws, if_true, hw.1, if_false, ih]

theorem lower_join (ws : List (List Char)) (h : ∀ w ∈ ws, Tok w) :
    lower (joinChars ws) = joinChars ws := by
  have hsp : (' ' : Char).toLower = ' ' := by decide
  match ws, h with
  | [], _ => rfl
  | [w], h =>
    have hw := h w List.mem_cons_self
    simp only [joinChars, lower]
    rw [List.map_congr_left (fun c hc => (hw.2 c hc).2)]
    simp
  | w :: v :: rest, h =>
    have hw := h w List.mem_cons_self
    have ih := lower_join (v :: rest) (fun x hx => h x (List.mem_cons_of_mem _ hx))
    simp only [lower] at ih ⊢
    simp only [joinChars, List.map_append, List.map_cons, hsp, ih]
    rw [List.map_congr_left (fun c hc => (hw.2 c hc).2)]
    simp

/-- Tokenising a space-joined list of clean words gives the words back, quotes trimmed. -/
theorem words_joinWords (ws : List String) (h : ∀ w ∈ ws, Tok w.toList) :
    words (joinWords ws) = ws.map fun w => String.ofList (trimQuotes w.toList) := by
  have h' : ∀ w ∈ ws.map String.toList, Tok w := by
    intro w hw
    simp only [List.mem_map] at hw
    obtain ⟨x, hx, rfl⟩ := hw
    exact h x hx
  unfold words wordsOfLower
  rw [joinWords_eq, lower_join _ h', splitWs_join _ h']
  simp [List.map_map]

theorem dropWhile_noquote (l : List Char) (h : ∀ c ∈ l, isQuote c = false) :
    l.dropWhile isQuote = l := by
  cases l with
  | nil => rfl
  | cons c cs => simp [List.dropWhile, h c List.mem_cons_self]

/-- A word without quote characters is not changed by `trim_matches`. -/
theorem trimQuotes_noquote (l : List Char) (h : ∀ c ∈ l, isQuote c = false) : trimQuotes l = l := by
  unfold trimQuotes
  rw [dropWhile_noquote l h, dropWhile_noquote l.reverse (fun c hc => h c (List.mem_reverse.mp hc))]
  simp

end DeltaStyle
