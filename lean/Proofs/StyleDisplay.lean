import Proofs.StyleTokens
import Proofs.StyleWf
/-!
`impl Display for Style` read back by the parser.

`RoundTrips env p`: the printed form of `p` parses (with no default, as `--show-config` output is
used) to a style that renders the same. Proved for every canonical style all of whose set
attributes have a word in the generated Display table (`display_round_trip_general`).
-/
namespace DeltaStyle
open Sgr (Attr Color)
open Generated.StyleTables

/-- A parsed style as the delta `Style` that `Display` prints. -/
def ofParsed (p : Parsed) : DStyle :=
  { ansi := p.ansi, isOmitted := p.omitted, isRaw := p.raw, isSyntax := p.synt }

/-- Same rendering: a raw style passes its text through untouched whatever else it says;
otherwise colours, attributes and the omit / syntax flags must agree. -/
def sameRendering (p q : Parsed) : Prop := p.raw = q.raw ∧ (p.raw = false → p = q)

def RoundTrips (env : Env) (p : Parsed) : Prop :=
  ∃ t q, display (ofParsed p) = some t ∧ parseAnsi env none t = .ok q ∧ sameRendering p q

def trimW (w : String) : String := String.ofList (trimQuotes w.toList)

/-- Colours that `parse_color` produces: the eight named variants, palette numbers 8–255,
24-bit colours only in true-colour mode. -/
def canonColor (env : Env) : Color → Prop
  | .basic n => n < 8
  | .fixed n => 8 ≤ n ∧ n < 256
  | .rgb r g b => env.trueColor = true ∧ r < 256 ∧ g < 256 ∧ b < 256

/-- What is needed of a printed colour word. -/
def Check (w : String) (sc : SColor) : Prop :=
  Tok w.toList ∧ effectOf (trimW w) = none ∧ trimW w ≠ "syntax" ∧ trimW w ≠ "auto" ∧
    trimW w ≠ "normal" ∧ resolveColorWord (trimW w) = some sc

instance (w : String) (sc : SColor) : Decidable (Check w sc) := by unfold Check; exact inferInstance

def checkOpt (o : Option String) (n : Nat) : Bool :=
  match o with
  | some w => decide (Check w ⟨n, 0, 0, 0⟩)
  | none => false

theorem basic_words_ok : ∀ n, n < 8 → checkOpt (colorWord (.basic n)) n = true := by decide

set_option maxRecDepth 4096 in
theorem fixed_words_ok : ∀ n, n < 256 → 8 ≤ n → checkOpt (colorWord (.fixed n)) n = true := by
  decide

/-! ### The quoted `"#rrggbb"` word -/

theorem hexDigit_spec : ∀ k, k < 16 →
    (hexVal (hexDigit k) = some k ∧ isWs (hexDigit k) = false ∧ (hexDigit k).toLower = hexDigit k ∧
     isQuote (hexDigit k) = false) := by decide

theorem lookup_none {β : Type} (l : List (String × β)) (w : String) (h : ∀ e ∈ l, e.1 ≠ w) :
    l.lookup w = none := by
  induction l with
  | nil => rfl
  | cons e l ih =>
    obtain ⟨k, v⟩ := e
    have hk : k ≠ w := h (k, v) List.mem_cons_self
    have : (w == k) = false := by simp [Ne.symm hk]
    simp [List.lookup, this, ih (fun e he => h e (List.mem_cons_of_mem _ he))]

theorem hash_ne (l : List Char) (k : String) (hk : k.toList.head? ≠ some '#') :
    String.ofList ('#' :: l) ≠ k := by
  intro h
  apply hk
  rw [← h]
  simp [String.toList_ofList]

theorem effect_keys_no_hash : ∀ e ∈ parseWordEffect, e.1.toList.head? ≠ some '#' := by decide

theorem effectOf_hash (l : List Char) : effectOf (String.ofList ('#' :: l)) = none := by
  unfold effectOf
  rw [lookup_none parseWordEffect _ (fun e he => (hash_ne l e.1 (effect_keys_no_hash e he)).symm)]
  rfl

/-- The word `color_to_string` prints for an RGB colour. -/
def rgbWord (r g b : Nat) : String :=
  String.ofList ('"' :: '#' :: (hex2 r ++ hex2 g ++ hex2 b ++ ['"']))

theorem rgbWord_trim (r g b : Nat) (hr : r < 256) (hg : g < 256) (hb : b < 256) :
    trimW (rgbWord r g b) = String.ofList ('#' :: (hex2 r ++ hex2 g ++ hex2 b)) := by
  obtain ⟨_, _, _, q1⟩ := hexDigit_spec (r / 16) (by omega)
  obtain ⟨_, _, _, q6⟩ := hexDigit_spec (b % 16) (by omega)
  have hq : isQuote '"' = true := by decide
  have hh : isQuote '#' = false := by decide
  simp [trimW, rgbWord, String.toList_ofList, trimQuotes, hex2, List.dropWhile, hq, hh, q6]

theorem rgbWord_check (r g b : Nat) (hr : r < 256) (hg : g < 256) (hb : b < 256) :
    Check (rgbWord r g b) ⟨r, g, b, 255⟩ := by
  obtain ⟨v1, w1, l1, _⟩ := hexDigit_spec (r / 16) (by omega)
  obtain ⟨v2, w2, l2, _⟩ := hexDigit_spec (r % 16) (by omega)
  obtain ⟨v3, w3, l3, _⟩ := hexDigit_spec (g / 16) (by omega)
  obtain ⟨v4, w4, l4, _⟩ := hexDigit_spec (g % 16) (by omega)
  obtain ⟨v5, w5, l5, _⟩ := hexDigit_spec (b / 16) (by omega)
  obtain ⟨v6, w6, l6, _⟩ := hexDigit_spec (b % 16) (by omega)
  have hqw : isWs '"' = false ∧ ('"' : Char).toLower = '"' := by decide
  have hhw : isWs '#' = false ∧ ('#' : Char).toLower = '#' := by decide
  refine ⟨?_, ?_, ?_, ?_, ?_, ?_⟩
  · refine ⟨by simp [rgbWord, String.toList_ofList], ?_⟩
    intro c hc
    simp only [rgbWord, String.toList_ofList, hex2, List.cons_append, List.nil_append,
      List.mem_cons, List.mem_nil_iff, or_false] at hc
    rcases hc with h | h | h | h | h | h | h | h | h <;> subst h <;> simp_all
  · rw [rgbWord_trim r g b hr hg hb]; exact effectOf_hash _
  · rw [rgbWord_trim r g b hr hg hb]; exact hash_ne _ _ (by decide)
  · rw [rgbWord_trim r g b hr hg hb]; exact hash_ne _ _ (by decide)
  · rw [rgbWord_trim r g b hr hg hb]; exact hash_ne _ _ (by decide)
  · rw [rgbWord_trim r g b hr hg hb]
    simp only [resolveColorWord, String.toList_ofList, List.head?_cons, if_true, parseHexColor, hex2,
      List.cons_append, List.nil_append, List.mapM_cons, List.mapM_nil, v1, v2, v3, v4, v5, v6,
      Option.pure_def, Option.bind_eq_bind, Option.bind_some]
    simp only [Option.some.injEq, SColor.mk.injEq]
    refine ⟨by omega, by omega, by omega, trivial⟩

/-! ### Colour words read back -/

theorem checkOpt_some (o : Option String) (n : Nat) (h : checkOpt o n = true) :
    ∃ w, o = some w ∧ Check w ⟨n, 0, 0, 0⟩ := by
  cases o with
  | none => simp [checkOpt] at h
  | some w => exact ⟨w, rfl, by simpa [checkOpt] using h⟩

theorem colorWord_reads (env : Env) (c : Color) (hc : canonColor env c) :
    ∃ w sc, colorWord c = some w ∧ Check w sc ∧ toAnsiColor env sc = some c := by
  cases c with
  | basic n =>
    have hn : n < 8 := hc
    obtain ⟨w, hw, hck⟩ := checkOpt_some _ n (basic_words_ok n hn)
    exact ⟨w, ⟨n, 0, 0, 0⟩, hw, hck, by simp [toAnsiColor, toAnsiBasic_length, hn]⟩
  | fixed n =>
    obtain ⟨h8, h256⟩ : 8 ≤ n ∧ n < 256 := hc
    obtain ⟨w, hw, hck⟩ := checkOpt_some _ n (fixed_words_ok n h256 h8)
    refine ⟨w, ⟨n, 0, 0, 0⟩, hw, hck, ?_⟩
    have : ¬ n < 8 := by omega
    simp [toAnsiColor, toAnsiBasic_length, this]
  | rgb r g b =>
    obtain ⟨htc, hr, hg, hb⟩ : env.trueColor = true ∧ r < 256 ∧ g < 256 ∧ b < 256 := hc
    exact ⟨rgbWord r g b, ⟨r, g, b, 255⟩, rfl, rgbWord_check r g b hr hg hb, by simp [toAnsiColor, htc]⟩

/-- A checked colour word is read by `parse_color` as the colour it was printed from. -/
theorem check_parseColor (env : Env) (w : String) (sc : SColor) (c : Color) (hck : Check w sc)
    (ht : toAnsiColor env sc = some c) : parseColor env (trimW w) = .ok (some c) := by
  obtain ⟨_, _, _, _, hn, hr⟩ := hck
  simp [parseColor, hn, hr, ht]

/-! ### The attribute words of the Display table -/

def fieldEffect (f : String) : Option Effect :=
  if f = "is_omitted" then some .omitW else (Attr.ofField f).map .attr

theorem display_table_ok : ∀ e ∈ displayWords,
    Tok e.2.toList ∧ trimW e.2 = e.2 ∧ effectOf e.2 = fieldEffect e.1 ∧ (fieldEffect e.1).isSome = true := by
  decide

/-- Attribute `a` has a word in `impl Display for Style`. -/
def shown (a : Attr) : Bool := displayWords.any fun e => Attr.ofField e.1 == some a

theorem omit_shown : (displayWords.any fun e => e.1 == "is_omitted") = true := by decide

theorem any_filterMap_if {α β : Type} (L : List α) (c : α → Bool) (f : α → β) (g : β → Bool) :
    (L.filterMap fun e => if c e then some (f e) else none).any g = L.any fun e => c e && g (f e) := by
  induction L with
  | nil => rfl
  | cons e L ih =>
    cases hc : c e <;> simp [List.filterMap_cons, hc, ih]

theorem any_congr_mem {α : Type} (L : List α) (f g : α → Bool) (h : ∀ e ∈ L, f e = g e) :
    L.any f = L.any g := by
  induction L with
  | nil => rfl
  | cons e L ih =>
    simp only [List.any_cons, h e List.mem_cons_self,
      ih (fun x hx => h x (List.mem_cons_of_mem _ hx))]

theorem any_and_const {α : Type} (L : List α) (b : Bool) (f : α → Bool) :
    (L.any fun e => b && f e) = (b && L.any f) := by
  induction L with
  | nil => simp
  | cons e L ih => simp only [List.any_cons, ih]; cases b <;> simp

theorem ofField_omitted : Attr.ofField "is_omitted" = none := by decide

theorem field_attr (st : DStyle) (f : String) (a : Attr) :
    (st.field f && (fieldEffect f == some (.attr a))) = (st.ansi.get a && (Attr.ofField f == some a)) := by
  unfold DStyle.field fieldEffect
  by_cases hf : f = "is_omitted"
  · subst hf
    simp only [if_true, ofField_omitted]
    have : (some Effect.omitW == some (Effect.attr a)) = false := by
      rw [beq_eq_false_iff_ne]; simp
    simp [this]
  · simp only [hf, if_false]
    cases ho : Attr.ofField f with
    | none => simp
    | some b =>
      by_cases hab : b = a
      · subst hab; simp
      · have h1 : (some (Effect.attr b) == some (Effect.attr a)) = false := by
          rw [beq_eq_false_iff_ne]; simp [hab]
        have h2 : (some b == some a) = false := by
          rw [beq_eq_false_iff_ne]; simp [hab]
        simp [h1, h2]

theorem field_omit (st : DStyle) (f : String) :
    (st.field f && (fieldEffect f == some .omitW)) = (st.isOmitted && (f == "is_omitted")) := by
  unfold DStyle.field fieldEffect
  by_cases hf : f = "is_omitted"
  · subst hf; simp
  · simp only [hf, if_false]
    have : (f == "is_omitted") = false := by simp [hf]
    rw [this]
    cases ho : Attr.ofField f with
    | none => simp
    | some b =>
      have h1 : (some (Effect.attr b) == some Effect.omitW) = false := by
        rw [beq_eq_false_iff_ne]; simp
      simp [h1]

theorem field_raw (f : String) : (fieldEffect f == some .rawW) = false := by
  unfold fieldEffect
  rw [beq_eq_false_iff_ne]
  split
  · simp
  · cases Attr.ofField f <;> simp

/-- The attribute words printed for `st`, read as effects. -/
theorem attrWords_present (st : DStyle) (a : Attr) :
    present (attrWordsOf st) a = (st.ansi.get a && shown a) := by
  unfold present attrWordsOf
  rw [any_filterMap_if displayWords (fun e => st.field e.1) (fun e => e.2)]
  rw [any_congr_mem displayWords _ (fun e => st.ansi.get a && (Attr.ofField e.1 == some a))]
  · rw [any_and_const]; rfl
  · intro e he
    rw [(display_table_ok e he).2.2.1]
    exact field_attr st e.1 a

theorem attrWords_omit (st : DStyle) : hasOmit (attrWordsOf st) = st.isOmitted := by
  unfold hasOmit attrWordsOf
  rw [any_filterMap_if displayWords (fun e => st.field e.1) (fun e => e.2)]
  rw [any_congr_mem displayWords _ (fun e => st.isOmitted && (e.1 == "is_omitted"))]
  · rw [any_and_const, omit_shown]; simp
  · intro e he
    rw [(display_table_ok e he).2.2.1]
    exact field_omit st e.1

theorem attrWords_raw (st : DStyle) : hasRaw (attrWordsOf st) = false := by
  unfold hasRaw attrWordsOf
  rw [any_filterMap_if displayWords (fun e => st.field e.1) (fun e => e.2)]
  rw [any_congr_mem displayWords _ (fun _ => false)]
  · induction displayWords <;> simp_all
  · intro e he
    rw [(display_table_ok e he).2.2.1, field_raw]
    simp

theorem attrWords_mem (st : DStyle) (w : String) (hw : w ∈ attrWordsOf st) :
    Tok w.toList ∧ trimW w = w ∧ (effectOf w).isSome = true := by
  unfold attrWordsOf at hw
  rw [List.mem_filterMap] at hw
  obtain ⟨e, he, hew⟩ := hw
  split at hew
  · cases hew
    obtain ⟨h1, h2, h3, h4⟩ := display_table_ok e he
    exact ⟨h1, h2, by rw [h3]; exact h4⟩
  · cases hew

/-! ### The round trip -/

/-- Styles whose colours are ones `parse_color` produces, and whose `syntax` flag does not hide a
foreground colour. -/
structure Canon (env : Env) (p : Parsed) : Prop where
  syntFg : p.synt = true → p.ansi.fg = none
  fg : ∀ c, p.ansi.fg = some c → canonColor env c
  bg : ∀ c, p.ansi.bg = some c → canonColor env c

theorem syntax_word : Tok "syntax".toList ∧ trimW "syntax" = "syntax" ∧ effectOf "syntax" = none := by
  decide

theorem normal_word : Tok "normal".toList ∧ trimW "normal" = "normal" ∧ effectOf "normal" = none ∧
    "normal" ≠ "syntax" ∧ "normal" ≠ "auto" := by decide

theorem fg_word (env : Env) (p : Parsed) (hc : Canon env p) :
    ∃ fw, fgWordOf (ofParsed p) = some fw ∧ Tok fw.toList ∧ effectOf (trimW fw) = none ∧
      readFg env none (trimW fw) = .ok { fg := p.ansi.fg, synt := p.synt } := by
  unfold fgWordOf
  cases hs : p.synt with
  | true =>
    obtain ⟨h1, h2, h3⟩ := syntax_word
    refine ⟨"syntax", by simp [ofParsed, hs], h1, by rw [h2]; exact h3, ?_⟩
    rw [h2, hc.syntFg hs]
    simp [readFg]
  | false =>
    cases hf : p.ansi.fg with
    | none =>
      obtain ⟨h1, h2, h3, h4, h5⟩ := normal_word
      refine ⟨"normal", by simp [ofParsed, hs, hf], h1, by rw [h2]; exact h3, ?_⟩
      rw [h2]
      simp [readFg, h4, h5, parseColor]
    | some c =>
      obtain ⟨w, sc, hw, hck, hta⟩ := colorWord_reads env c (hc.fg c hf)
      refine ⟨w, by simp [ofParsed, hs, hf, hw], hck.1, hck.2.1, ?_⟩
      simp [readFg, hck.2.2.1, hck.2.2.2.1, check_parseColor env w sc c hck hta]

theorem bg_word (env : Env) (c : Color) (hc : canonColor env c) :
    ∃ bw, colorWord c = some bw ∧ Tok bw.toList ∧ effectOf (trimW bw) = none ∧
      ∀ c0 : Colours, readBg env none c0 (trimW bw) = .ok { c0 with bg := some c } := by
  obtain ⟨w, sc, hw, hck, hta⟩ := colorWord_reads env c hc
  refine ⟨w, hw, hck.1, hck.2.1, ?_⟩
  intro c0
  simp [readBg, hck.2.2.1, hck.2.2.2.1, check_parseColor env w sc c hck hta]

theorem filter_attrWords (st : DStyle) :
    (attrWordsOf st).filter (fun w => (effectOf w).isNone) = [] := by
  rw [List.filter_eq_nil_iff]
  intro w hw
  have := (attrWords_mem st w hw).2.2
  cases h : effectOf w <;> simp_all

theorem map_trim_attrWords (st : DStyle) : (attrWordsOf st).map trimW = attrWordsOf st := by
  rw [List.map_congr_left (fun w hw => (attrWords_mem st w hw).2.1)]
  simp

theorem any_colour_word (w : String) (h : effectOf w = none) (e : Effect) :
    (effectOf w == some e) = false := by
  rw [h]; rfl

theorem parsed_ext (x y : Parsed) (h1 : x.ansi = y.ansi) (h2 : x.omitted = y.omitted)
    (h3 : x.raw = y.raw) (h4 : x.synt = y.synt) : x = y := by
  cases x; cases y; simp_all

theorem raw_round_trip (env : Env) :
    parseAnsi env none (joinWords ["raw"]) = .ok { raw := true } := by
  have h1 : words (joinWords ["raw"]) = ["raw"] := by decide
  have h2 : effectOf "raw" = some .rawW := by decide
  simp [parseAnsi, h1, parseWords, loop, stepWord, h2, applyEffect, finish]

/-- **Display round trip.** A canonical style all of whose set attributes have a word in the
Display table is printed to a string that parses back to a style rendering the same. -/
theorem display_round_trip_general (env : Env) (p : Parsed) (hc : Canon env p)
    (hcov : ∀ a, p.ansi.get a = true → shown a = true) : RoundTrips env p := by
  cases hraw : p.raw with
  | true =>
    refine ⟨joinWords ["raw"], { raw := true }, ?_, raw_round_trip env, ?_⟩
    · simp [display, displayWordList, ofParsed, hraw]
    · exact ⟨hraw, fun h => by simp [h] at hraw⟩
  | false =>
    obtain ⟨fw, hfw, hftok, hfeff, hfread⟩ := fg_word env p hc
    have hA := attrWords_mem (ofParsed p)
    have hpres : ∀ a, present (attrWordsOf (ofParsed p)) a = p.ansi.get a := by
      intro a
      rw [attrWords_present]
      cases hg : p.ansi.get a with
      | false => simp [ofParsed, hg]
      | true => simp [ofParsed, hg, hcov a hg]
    have homit := attrWords_omit (ofParsed p)
    have hrw := attrWords_raw (ofParsed p)
    cases hbg : p.ansi.bg with
    | none =>
      let ws := attrWordsOf (ofParsed p) ++ [fw]
      have hd : display (ofParsed p) = some (joinWords ws) := by
        have hr : (ofParsed p).isRaw = false := hraw
        have hb : (ofParsed p).ansi.bg = none := hbg
        simp only [display, displayWordList, hr, Bool.false_eq_true, if_false, hfw, hb, Option.map]
        rfl
      have htok : ∀ w ∈ ws, Tok w.toList := by
        intro w hw
        simp only [ws, List.mem_append, List.mem_singleton] at hw
        rcases hw with h | h
        · exact (hA w h).1
        · subst h; exact hftok
      have hwords : words (joinWords ws) = attrWordsOf (ofParsed p) ++ [trimW fw] := by
        rw [words_joinWords ws htok]
        show List.map trimW ws = _
        simp only [ws, List.map_append, map_trim_attrWords, List.map_cons, List.map_nil]
      refine ⟨joinWords ws, p, hd, ?_, rfl, fun _ => rfl⟩
      rw [parseAnsi, hwords, parseWords_eq_denoteWords]
      unfold denoteWords
      have hcw : colourWords (attrWordsOf (ofParsed p) ++ [trimW fw]) = [trimW fw] := by
        simp [colourWords, List.filter_append, filter_attrWords, hfeff]
      rw [hcw]
      simp only [readColours, hfread]
      simp only [present, hasOmit, hasRaw, List.any_append, List.any_cons, List.any_nil,
        any_colour_word _ hfeff, Bool.or_false]
      simp only [present, hasOmit, hasRaw] at hpres homit hrw
      simp only [hpres, homit, hrw, Bool.false_and, Bool.false_eq_true, if_false]
      congr 1
      apply parsed_ext
      · apply style_ext <;> simp [Sgr.Style.get, hbg]
      · simp [ofParsed]
      · simp [hraw]
      · rfl
    | some cb =>
      obtain ⟨bw, hbw, hbtok, hbeff, hbread⟩ := bg_word env cb (hc.bg cb hbg)
      let ws := attrWordsOf (ofParsed p) ++ [fw, bw]
      have hd : display (ofParsed p) = some (joinWords ws) := by
        have hr : (ofParsed p).isRaw = false := hraw
        have hb : (ofParsed p).ansi.bg = some cb := hbg
        simp only [display, displayWordList, hr, Bool.false_eq_true, if_false, hfw, hb, hbw, Option.map]
        rfl
      have htok : ∀ w ∈ ws, Tok w.toList := by
        intro w hw
        simp only [ws, List.mem_append, List.mem_cons, List.mem_nil_iff, or_false] at hw
        rcases hw with h | h | h
        · exact (hA w h).1
        · subst h; exact hftok
        · subst h; exact hbtok
      have hwords : words (joinWords ws) = attrWordsOf (ofParsed p) ++ [trimW fw, trimW bw] := by
        rw [words_joinWords ws htok]
        show List.map trimW ws = _
        simp only [ws, List.map_append, map_trim_attrWords, List.map_cons, List.map_nil]
      refine ⟨joinWords ws, p, hd, ?_, rfl, fun _ => rfl⟩
      rw [parseAnsi, hwords, parseWords_eq_denoteWords]
      unfold denoteWords
      have hcw : colourWords (attrWordsOf (ofParsed p) ++ [trimW fw, trimW bw]) = [trimW fw, trimW bw] := by
        simp [colourWords, List.filter_append, filter_attrWords, hfeff, hbeff]
      rw [hcw]
      simp only [readColours, hfread, hbread]
      simp only [present, hasOmit, hasRaw, List.any_append, List.any_cons, List.any_nil,
        any_colour_word _ hfeff, any_colour_word _ hbeff, Bool.or_false]
      simp only [present, hasOmit, hasRaw] at hpres homit hrw
      simp only [hpres, homit, hrw, Bool.false_and, Bool.false_eq_true, if_false]
      congr 1
      apply parsed_ext
      · apply style_ext <;> simp [Sgr.Style.get, hbg]
      · simp [ofParsed]
      · simp [hraw]
      · rfl

end DeltaStyle
