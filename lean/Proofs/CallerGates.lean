import DeltaModel.Caller
/-!
The gate-level executor used by the model driver (`runGates`) only ever performs
statement-level schedules of the model: whatever it reports is covered by the theorems
about `run`.
-/
namespace Caller

theorem run_append (cfg : Cfg) : ∀ (a b : List Choice) (s : State),
    run cfg s (a ++ b) = (run cfg s a).bind (fun t => run cfg t b)
  | [], b, s => by simp [run]
  | c :: a, b, s => by
      simp only [List.cons_append, run]
      cases step cfg s c with
      | none => simp
      | some s' => simpa using run_append cfg a b s'

theorem settle_sound (cfg : Cfg) : ∀ (n : Nat) (s : State),
    run cfg s (settle cfg n s).2 = some (settle cfg n s).1
  | 0, s => by simp [settle, run]
  | n + 1, s => by
      unfold settle
      split
      · cases h : stepMain cfg s with
        | none => simp [run]
        | some s' => simp [run, step, h, settle_sound cfg n s']
      · simp [run]

theorem gateStep_sound {cfg : Cfg} {s0 : State} {r r' : GateRun} {e : Gate}
    (h : run cfg s0 r.choices = some r.state) (hg : gateStep cfg r e = .ok r') :
    run cfg s0 r'.choices = some r'.state := by
  unfold gateStep at hg
  simp only at hg
  split at hg
  · split at hg
    · cases hb : stepBg cfg r.state with
      | none => simp [hb] at hg
      | some s' =>
        simp only [hb, Except.ok.injEq] at hg
        subst hg
        simp [run_append, h, run, step, hb, settle_sound]
    · simp at hg
  · split at hg
    · cases hm : stepMain cfg r.state with
      | none => simp [hm] at hg
      | some s' =>
        simp only [hm, Except.ok.injEq] at hg
        subst hg
        simp [run_append, h, run, step, hm, settle_sound]
    · simp at hg

theorem runGates_sound {cfg : Cfg} {s0 : State} : ∀ {es : List Gate} {r r' : GateRun} {i : Nat},
    run cfg s0 r.choices = some r.state → runGates cfg r es i = .ok r' →
    run cfg s0 r'.choices = some r'.state
  | [], r, r', i, h, hg => by
      simp only [runGates, Except.ok.injEq] at hg
      exact hg ▸ h
  | e :: es, r, r', i, h, hg => by
      simp only [runGates] at hg
      cases hs : gateStep cfg r e with
      | error err => simp [hs] at hg
      | ok r1 =>
        rw [hs] at hg
        exact runGates_sound (gateStep_sound h hs) hg

end Caller
