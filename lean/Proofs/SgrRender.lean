import Proofs.SgrStrings
/-! `paint` and `ANSIStrings` rendering, displayed by the terminal. -/
namespace SgrTerm
open Term Sgr

/-- The cells a text shows when every character carries style `st` (and link `l`). -/
def cellsOf (st : Sgr.Style) (l : Option (List Char)) (t : List Char) : List Cell :=
  t.map fun c => ⟨c, ofStyle st, l⟩

theorem run_suf (st : Sgr.Style) (s : State) (hm : s.mode = .ground) (hr : s.rend = ofStyle st) :
    run s (suf st) = ({ s with rend := {} }, []) := by
  unfold suf
  cases hp : st.isPlain with
  | true =>
    have : st = {} := by simpa [Style.isPlain] using hp
    subst this
    have : s.rend = {} := by rw [hr]; simp [ofStyle, overlay]
    cases s; simp_all [run]
  | false => simpa using run_reset s hm

/-- What is written between two adjacent strings takes the terminal from the first style's
rendition to the second's. -/
theorem run_inf (a b : Sgr.Style) (hb : Style.wf b) (he : ∀ e, between a b = .extra e → Style.wf e)
    (s : State) (hm : s.mode = .ground) (hr : s.rend = ofStyle a) :
    run s (inf a b) = ({ s with rend := ofStyle b }, []) := by
  unfold inf
  cases h : between a b with
  | none =>
    have := between_none a b h
    subst this
    cases s; simp_all [run]
  | reset =>
    simp only
    rw [run_append, run_reset s hm]
    simp only [List.nil_append]
    rw [run_pre b hb { s with rend := {} } hm]
    simp [ofStyle]
  | extra e =>
    simp only
    rw [run_pre e (he e h) s hm, hr, between_extra a b e h]

/-- The extra style computed by `between` only carries colours of the second style. -/
theorem between_extra_wf (a b e : Sgr.Style) (hb : Style.wf b) (h : between a b = .extra e) :
    Style.wf e := by
  unfold between at h
  split at h
  · exact absurd h (by simp)
  split at h
  · exact absurd h (by simp)
  split at h
  · exact absurd h (by simp)
  split at h
  · exact absurd h (by simp)
  simp only [Difference.extra.injEq] at h
  have hefg : e.fg = if a.fg != b.fg then b.fg else none := by rw [← h]
  have hebg : e.bg = if a.bg != b.bg then b.bg else none := by rw [← h]
  constructor
  · intro c hc
    rw [hefg] at hc
    split at hc
    · exact hb.1 c hc
    · exact absurd hc (by simp)
  · intro c hc
    rw [hebg] at hc
    split at hc
    · exact hb.2 c hc
    · exact absurd hc (by simp)

theorem run_renderTail (xs : List (Sgr.Style × List Char)) (prev : Sgr.Style)
    (hwf : ∀ x ∈ xs, Style.wf x.1) (hesc : ∀ x ∈ xs, ESC ∉ x.2)
    (s : State) (hm : s.mode = .ground) (hr : s.rend = ofStyle prev) :
    run s (renderTail prev xs) =
      ({ s with rend := {} }, xs.flatMap fun x => cellsOf x.1 s.link x.2) := by
  induction xs generalizing prev s with
  | nil =>
    simp only [renderTail, List.flatMap_nil]
    have := run_suf prev s hm hr
    simpa [suf] using this
  | cons x xs ih =>
    obtain ⟨st, t⟩ := x
    have hst : Style.wf st := hwf (st, t) List.mem_cons_self
    have ht : ESC ∉ t := hesc (st, t) List.mem_cons_self
    simp only [renderTail, List.flatMap_cons]
    rw [run_append, run_append,
      run_inf prev st hst (fun e h => between_extra_wf prev st e hst h) s hm hr]
    simp only [List.nil_append]
    rw [run_text { s with rend := ofStyle st } t hm ht]
    have := ih st (fun x hx => hwf x (List.mem_cons_of_mem _ hx))
      (fun x hx => hesc x (List.mem_cons_of_mem _ hx)) ({ s with rend := ofStyle st }) hm rfl
    simp only at this
    rw [this]
    simp [cellsOf]

/-- `ANSIStrings` as the terminal sees it: from any ground state whose rendition is the default,
every text is displayed in exactly its own style and the rendition is the default again at the
end (the hyperlink state is not touched). -/
theorem run_renderStrings (xs : List (Sgr.Style × List Char))
    (hwf : ∀ x ∈ xs, Style.wf x.1) (hesc : ∀ x ∈ xs, ESC ∉ x.2)
    (s : State) (hm : s.mode = .ground) (hr : s.rend = {}) :
    run s (renderStrings xs) = (s, xs.flatMap fun x => cellsOf x.1 s.link x.2) := by
  cases xs with
  | nil => simp [renderStrings, run]
  | cons x xs =>
    obtain ⟨st, t⟩ := x
    have hst : Style.wf st := hwf (st, t) List.mem_cons_self
    have ht : ESC ∉ t := hesc (st, t) List.mem_cons_self
    simp only [renderStrings, List.flatMap_cons]
    rw [run_append, run_append, run_pre st hst s hm]
    simp only [List.nil_append]
    rw [run_text { s with rend := overlay s.rend st } t hm ht]
    have := run_renderTail xs st (fun x hx => hwf x (List.mem_cons_of_mem _ hx))
      (fun x hx => hesc x (List.mem_cons_of_mem _ hx)) ({ s with rend := overlay s.rend st }) hm
      (by simp [hr, ofStyle])
    simp only at this
    rw [this]
    cases s
    simp_all [cellsOf, ofStyle]

/-- `Style::paint(text)`: the text carries exactly the style; default rendition afterwards. -/
theorem run_paint (st : Sgr.Style) (t : List Char) (hwf : Style.wf st) (ht : ESC ∉ t)
    (s : State) (hm : s.mode = .ground) (hr : s.rend = {}) :
    run s (paint st t) = (s, cellsOf st s.link t) := by
  have := run_renderStrings [(st, t)] (by simpa using hwf) (by simpa using ht) s hm hr
  simpa [renderStrings, renderTail, paint, suf] using this

end SgrTerm
