import DeltaModel.Ansi
import Proofs.Vte
/-!
From bytes to elements for benign lines: the per-byte `Performer` results of each token kind, and
`elements (tokBytes ts) = tokElements 0 0 ts` (theorem `elements_tokens`).
-/
namespace Vte

theorem events_append (p : Parser) (a b : List UInt8) :
    events p (a ++ b) = events p a ++ events (run p a) b := by
  induction a generalizing p with
  | nil => rfl
  | cons x xs ih => simp [events, run, ih]

theorem run_append (p : Parser) (a b : List UInt8) : run p (a ++ b) = run (run p a) b := by
  induction a generalizing p with
  | nil => rfl
  | cons x xs ih => simp [run, ih]

theorem events_length (p : Parser) (a : List UInt8) : (events p a).length = a.length := by
  induction a generalizing p with
  | nil => rfl
  | cons x xs ih => simp [events, ih]

end Vte

namespace Ansi
open Vte

theorem toNat_ne_of_ne {a b : UInt8} (h : a ≠ b) : a.toNat ≠ b.toNat := by
  intro e; exact h (UInt8.toNat_inj.mp e)

/-- A character read in Ground: no events until its last byte, which reports its length. -/
theorem events_char (p : Parser) (hp : Ground p) (c : Bytes) (hc : IsChar c) (hne : c ≠ [0x1b]) :
    events p c = List.replicate (c.length - 1) (⟨none, 0⟩ : Perf) ++ [⟨none, c.length⟩] ∧ Ground (run p c) := by
  cases hc with
  | ascii b hb =>
    have hb27 : b.toNat ≠ 27 := by
      intro e; apply hne; congr; exact UInt8.toNat_inj.mp e
    have := adv_ground_ascii p hp b.toNat hb hb27
    simp [events, run, advance, this, hp]
  | two l x h1 h2 hx =>
    have e1 := adv_ground_lead p hp l.toNat h1 (by omega)
    have hl : utf8SeqLen l.toNat = 2 := by simp [utf8SeqLen, h2]
    rw [hl] at e1
    simp [events, run, advance, e1]
    rw [adv_utf8_last _ rfl rfl]
    simp [Ground]
  | three l x y h1 h2 hx hy =>
    have e1 := adv_ground_lead p hp l.toNat (by omega) (by omega)
    have hl : utf8SeqLen l.toNat = 3 := by
      have : ¬ l.toNat < 224 := by omega
      simp [utf8SeqLen, this, h2]
    rw [hl] at e1
    simp [events, run, advance, e1]
    rw [adv_utf8_more _ rfl 0 rfl]
    simp
    rw [adv_utf8_last _ rfl rfl]
    simp [Ground]
  | four l x y z h1 h2 hx hy hz =>
    have e1 := adv_ground_lead p hp l.toNat (by omega) h2
    have hl : utf8SeqLen l.toNat = 4 := by
      have : ¬ l.toNat < 224 := by omega
      have : ¬ l.toNat < 240 := by omega
      simp [utf8SeqLen, *]
    rw [hl] at e1
    simp [events, run, advance, e1]
    rw [adv_utf8_more _ rfl 1 rfl]
    simp
    rw [adv_utf8_more _ rfl 0 rfl]
    simp
    rw [adv_utf8_last _ rfl rfl]
    simp [Ground]

/-- Parameter bytes of a CSI sequence: no events, the parameter count grows with the separators. -/
theorem events_params (body : Bytes) : ∀ (q : Parser) (k : Nat), CsiOk q k →
    (∀ b ∈ body, 0x30 ≤ b.toNat ∧ b.toNat ≤ 0x3b) → k + seps body ≤ 31 →
    events q body = List.replicate body.length (⟨none, 0⟩ : Perf) ∧
      CsiOk (run q body) (k + seps body) := by
  induction body with
  | nil => intro q k hq _ _; simpa [events, run, seps] using hq
  | cons b bs ih =>
    intro q k hq hb hk
    have hb' := hb b (by simp)
    simp only [seps] at hk
    have hstep := adv_csi_param q k hq (by omega) b.toNat hb'.1 hb'.2
    by_cases c : b.toNat < 0x3a
    · have c' : ¬ (0x3a ≤ b.toNat) := by omega
      simp only [c, if_true] at hstep
      simp only [c', if_false] at hk
      have := ih (advance q b).1 k hstep.2 (fun x hx => hb x (by simp [hx])) (by omega)
      simp only [events, run, List.length_cons, List.replicate_succ, seps, c', if_false]
      refine ⟨?_, ?_⟩
      · rw [this.1]; congr 1; exact hstep.1
      · simpa using this.2
    · have c' : 0x3a ≤ b.toNat := by omega
      simp only [c, if_false] at hstep
      simp only [c', if_true] at hk
      have := ih (advance q b).1 (k + 1) hstep.2 (fun x hx => hb x (by simp [hx])) (by omega)
      simp only [events, run, List.length_cons, List.replicate_succ, seps, c', if_true]
      refine ⟨?_, ?_⟩
      · rw [this.1]; congr 1; exact hstep.1
      · have e : k + 1 + seps bs = k + (1 + seps bs) := by omega
        rw [← e]; exact this.2

/-- The element kind a plain CSI sequence `ESC [ body fin` dispatches (it depends on the sequence
only: `ESC [` clears the parser). -/
def csiKind (body : Bytes) (fin : UInt8) : Vte.Kind :=
  match (advance (run csiEntryP body) fin).2.elem with
  | some k => k
  | none => .csi

theorem events_csi (p : Parser) (hp : Ground p) (body : Bytes) (fin : UInt8)
    (hwf : (Tok.csi body fin).WF) :
    events p (Tok.csi body fin).bytes =
      List.replicate (body.length + 2) (⟨none, 0⟩ : Perf) ++ [⟨some (csiKind body fin), 0⟩] ∧
    Ground (run p (Tok.csi body fin).bytes) := by
  obtain ⟨hb, hs, hf1, hf2⟩ := hwf
  have e1 := adv_ground_esc p hp
  have e2 := adv_esc_bracket
  obtain ⟨ev, ok⟩ := events_params body csiEntryP 0 csiOk_entry hb (by omega)
  obtain ⟨⟨kind, hk, _⟩, hg⟩ := adv_csi_final (run csiEntryP body) (0 + seps body) ok (by omega)
    fin.toNat hf1 hf2
  have hkind : csiKind body fin = kind := by
    simp [csiKind, advance, hk]
  have a1 : advance p 0x1b = (escP, ⟨none, 0⟩) := e1
  have a2 : advance escP 0x5b = (csiEntryP, ⟨none, 0⟩) := e2
  simp only [Tok.bytes, events, run, a1, a2, events_append, run_append, ev, hkind]
  refine ⟨?_, ?_⟩
  · simp [List.replicate_succ, advance, hk]
  · simpa [advance] using hg

/-- An SGR sequence (`final = m`) dispatches an `Sgr` element. -/
theorem csiKind_sgr (body : Bytes) (hwf : (Tok.csi body 0x6d).WF) : ∃ ps, csiKind body 0x6d = .sgr ps := by
  obtain ⟨hb, hs, hf1, hf2⟩ := hwf
  obtain ⟨_, ok⟩ := events_params body csiEntryP 0 csiOk_entry hb (by omega)
  obtain ⟨⟨kind, hk, hm⟩, _⟩ := adv_csi_final (run csiEntryP body) (0 + seps body) ok (by omega)
    (0x6d : UInt8).toNat hf1 hf2
  obtain ⟨ps, hps⟩ := hm rfl
  have hk' : (advanceN (run csiEntryP body) 109).2 = ⟨some kind, 0⟩ := hk
  exact ⟨ps, by simp [csiKind, advance, hk', hps]⟩

theorem events_osc_put (pl : Bytes) (h : ∀ b ∈ pl, 0x20 ≤ b.toNat) :
    events oscP pl = List.replicate pl.length (⟨none, 0⟩ : Perf) ∧ run oscP pl = oscP := by
  induction pl with
  | nil => simp [events, run]
  | cons b bs ih =>
    have hb := h b (by simp)
    have e := adv_osc_put b.toNat (UInt8.toNat_lt b) hb
    have := ih (fun x hx => h x (by simp [hx]))
    simp [events, run, advance, e, this, List.replicate_succ]

theorem events_osc (p : Parser) (hp : Ground p) (pl : Bytes) (bel : Bool)
    (hwf : (Tok.osc pl bel).WF) :
    events p (Tok.osc pl bel).bytes =
      List.replicate (pl.length + 2) (⟨none, 0⟩ : Perf) ++
        (if bel then [⟨some Kind.osc, 0⟩] else [⟨some Kind.osc, 0⟩, ⟨some Kind.esc, 0⟩]) ∧
    Ground (run p (Tok.osc pl bel).bytes) := by
  have a1 : advance p 0x1b = (escP, ⟨none, 0⟩) := adv_ground_esc p hp
  have a2 : advance escP 0x5d = (oscP, ⟨none, 0⟩) := adv_esc_osc
  have a3 : advance oscP 0x07 = ({ state := 12 }, ⟨some Kind.osc, 0⟩) := adv_osc_bel
  have a4 : advance oscP 0x1b = (escP, ⟨some Kind.osc, 0⟩) := adv_osc_esc
  have a5 : advance escP 0x5c = ({ state := 12 }, ⟨some Kind.esc, 0⟩) := adv_esc_st
  obtain ⟨ev, rn⟩ := events_osc_put pl hwf
  cases bel with
  | true =>
    simp only [Tok.bytes, events, run, a1, a2, a3, events_append, run_append, ev, rn]
    exact ⟨by simp [List.replicate_succ], ground_mk⟩
  | false =>
    simp only [Tok.bytes, events, run, a1, a2, a4, a5, events_append, run_append, ev, rn]
    exact ⟨by simp [List.replicate_succ], ground_mk⟩

/-! ### Assembling elements -/

theorem assemble_quiet (n tl start pos : Nat) (es : List Perf) :
    assemble tl start pos (List.replicate n (⟨none, 0⟩ : Perf) ++ es) = assemble tl start (pos + n) es := by
  induction n generalizing pos with
  | zero => simp
  | succ n ih =>
    simp only [List.replicate_succ, List.cons_append, assemble, Nat.add_zero, Nat.lt_irrefl, decide_false,
      Bool.and_false, Bool.false_eq_true, if_false, gt_iff_lt]
    rw [ih]; congr 1; omega

/-- A text event that continues text counted without a gap (`pos = start + tl` before the `m - 1`
quiet bytes of the character): both bookkeeping variants agree. -/
theorem assemble_text (m tl start pos : Nat) (es : List Perf) (hm : 0 < m) (hpos : pos + 1 = start + tl + m) :
    assemble tl start pos ((⟨none, m⟩ : Perf) :: es) = assemble (tl + m) start (pos + 1) es := by
  simp only [assemble]
  split
  · congr 1; omega
  · rfl

theorem assemble_elem (k : Kind) (tl start pos : Nat) (es : List Perf) :
    assemble tl start pos ((⟨some k, 0⟩ : Perf) :: es) =
      (if tl > 0 then [⟨.text, start, start + tl⟩] else []) ++
        ⟨ofKind k, start + tl, pos + 1⟩ :: assemble 0 (pos + 1) (pos + 1) es := by
  simp [assemble]

/-- The elements of a token list, computed token by token (`pend` = pending text bytes). -/
def seqElements (at_ : Nat) : Tok → List Element
  | .chr _ => []
  | .csi body fin => [⟨ofKind (csiKind body fin), at_, at_ + (body.length + 3)⟩]
  | .osc pl true => [⟨.osc, at_, at_ + (pl.length + 3)⟩]
  | .osc pl false =>
    [⟨.osc, at_, at_ + (pl.length + 3)⟩, ⟨.esc, at_ + (pl.length + 3), at_ + (pl.length + 4)⟩]

def tokElements (pend start : Nat) : List Tok → List Element
  | [] => if pend > 0 then [⟨.text, start, start + pend⟩] else []
  | .chr c :: ts => tokElements (pend + c.length) start ts
  | t :: ts =>
    (if pend > 0 then [⟨.text, start, start + pend⟩] else []) ++ seqElements (start + pend) t ++
      tokElements 0 (start + pend + t.bytes.length) ts

theorem len_csi (body : Bytes) (fin : UInt8) : (Tok.csi body fin).bytes.length = body.length + 3 := by
  simp [Tok.bytes]
theorem len_osc_bel (pl : Bytes) : (Tok.osc pl true).bytes.length = pl.length + 3 := by
  simp [Tok.bytes]
theorem len_osc_st (pl : Bytes) : (Tok.osc pl false).bytes.length = pl.length + 4 := by
  simp [Tok.bytes]

theorem isChar_length_pos {c : Bytes} (h : IsChar c) : 0 < c.length := by
  cases h <;> simp

theorem assemble_tokens (ts : List Tok) : ∀ (p : Parser) (tl start : Nat), Ground p →
    (∀ t ∈ ts, t.WF) →
    assemble tl start (start + tl) (events p (tokBytes ts)) = tokElements tl start ts := by
  induction ts with
  | nil =>
    intro p tl start _ _
    simp only [tokBytes, events, assemble, tokElements]
    split <;> simp
  | cons t ts ih =>
    intro p tl start hp hwf
    have ht := hwf t (by simp)
    have hts : ∀ t ∈ ts, t.WF := fun x hx => hwf x (by simp [hx])
    cases t with
    | chr c =>
      obtain ⟨ev, hg⟩ := events_char p hp c ht.1 ht.2
      have hpos := isChar_length_pos ht.1
      simp only [tokBytes, Tok.bytes, events_append, ev, List.append_assoc, assemble_quiet,
        List.singleton_append, tokElements]
      rw [assemble_text _ _ _ _ _ hpos (by omega)]
      have e : start + tl + (c.length - 1) + 1 = start + (tl + c.length) := by omega
      rw [e]
      exact ih _ _ _ hg hts
    | csi body fin =>
      obtain ⟨ev, hg⟩ := events_csi p hp body fin ht
      simp only [tokBytes, events_append, ev, List.append_assoc, assemble_quiet,
        List.singleton_append, assemble_elem, tokElements, seqElements]
      have e : start + tl + (body.length + 2) + 1 = start + tl + (Tok.csi body fin).bytes.length := by
        rw [len_csi]; omega
      have e2 : start + tl + (body.length + 3) = start + tl + (Tok.csi body fin).bytes.length := by
        rw [len_csi]
      rw [e, e2]
      have := ih (run p (Tok.csi body fin).bytes) 0 (start + tl + (Tok.csi body fin).bytes.length) hg hts
      simp only [Nat.add_zero] at this
      simp [this]
    | osc pl bel =>
      obtain ⟨ev, hg⟩ := events_osc p hp pl bel ht
      cases bel with
      | true =>
        simp only [tokBytes, events_append, ev, List.append_assoc, assemble_quiet, if_true,
          List.singleton_append, assemble_elem, tokElements, seqElements]
        have e : start + tl + (pl.length + 2) + 1 = start + tl + (Tok.osc pl true).bytes.length := by
          rw [len_osc_bel]; omega
        have e2 : start + tl + (pl.length + 3) = start + tl + (Tok.osc pl true).bytes.length := by
          rw [len_osc_bel]
        rw [e, e2]
        have := ih (run p (Tok.osc pl true).bytes) 0 (start + tl + (Tok.osc pl true).bytes.length) hg hts
        simp only [Nat.add_zero] at this
        simp [this, ofKind]
      | false =>
        simp only [tokBytes, events_append, ev, List.append_assoc, assemble_quiet, Bool.false_eq_true,
          if_false, List.cons_append, List.nil_append, assemble_elem, tokElements, seqElements]
        have e3 : start + tl + (pl.length + 2) + 1 = start + tl + (pl.length + 3) := by omega
        have e4 : start + tl + (pl.length + 3) + 1 = start + tl + (pl.length + 4) := by omega
        have := ih (run p (Tok.osc pl false).bytes) 0 (start + tl + (Tok.osc pl false).bytes.length) hg hts
        simp only [Nat.add_zero, len_osc_st] at this
        simp [e3, e4, len_osc_st, this, ofKind]

/-- **Benign lines**: the iterator yields exactly the token-wise elements. -/
theorem elements_tokens (ts : List Tok) (hwf : ∀ t ∈ ts, t.WF) :
    elements (tokBytes ts) = tokElements 0 0 ts := by
  have := assemble_tokens ts Parser.init 0 0 ground_init hwf
  simpa [elements] using this

end Ansi
