import Proofs.WholeDiffSbs
set_option linter.unusedSimpArgs false
set_option linter.unusedVariables false
/-!
Helper lemmas for C05, whole runs in the side-by-side view, part 4: how to read `specRows` — whatever the
decomposition into blocks, the alignments and the rows per line, the left cells that show a number show
`a, a+1, …` (one per old-file line, in order) and the right cells `c, c+1, …`.
-/
namespace LineNumbers.WholeSbs
open LineNumbers.Whole

abbrev NumRow := Option Nat × Option Nat

def lefts (rows : List NumRow) : List Nat := rows.filterMap (·.1)
def rights (rows : List NumRow) : List Nat := rows.filterMap (·.2)

theorem lefts_append (xs ys : List NumRow) : lefts (xs ++ ys) = lefts xs ++ lefts ys := by simp [lefts]
theorem rights_append (xs ys : List NumRow) : rights (xs ++ ys) = rights xs ++ rights ys := by simp [rights]

theorem lefts_blank (n : Nat) : lefts (List.replicate n (none, none)) = [] ∧ rights (List.replicate n (none, none)) = [] := by
  induction n with
  | zero => exact ⟨rfl, rfl⟩
  | succ n ih => simp [List.replicate_succ, lefts, rights] at ih ⊢

theorem range'_split (a m n : Nat) : List.range' a (m + n) = List.range' a m ++ List.range' (a + m) n := by
  induction m generalizing a with
  | zero => simp
  | succ m ih =>
    have : m + 1 + n = (m + n) + 1 := by omega
    rw [this, List.range'_succ, List.range'_succ, ih (a + 1)]
    simp [Nat.add_assoc, Nat.add_comm 1 m]

/-- a subhunk: the numbered left cells are the removed lines' numbers in order, the numbered right cells the added
    lines' -/
theorem sbsSpec_numbers (a c : Nat) (wl wr : List Nat) : ∀ (al : Alignment) (i j m p : Nat),
    validFrom al i j = some (m, p) →
    lefts (al.flatMap (entrySpec a c wl wr)) = List.range' (a + i) (m - i) ∧
    rights (al.flatMap (entrySpec a c wl wr)) = List.range' (c + j) (p - j) := by
  intro al
  induction al with
  | nil =>
    intro i j m p h
    simp [validFrom] at h
    obtain ⟨rfl, rfl⟩ := h
    simp [lefts, rights]
  | cons e rest ih =>
    intro i j m p h
    obtain ⟨mi, pi⟩ := e
    cases mi with
    | none =>
      cases pi with
      | none => simp [validFrom] at h
      | some y =>
        simp only [validFrom] at h
        split at h
        · rename_i hy; subst hy
          have hle := validFrom_le _ _ _ _ _ h
          obtain ⟨h1, h2⟩ := ih _ _ _ _ h
          have e2 : p - y = (p - (y + 1)) + 1 := by omega
          simp only [List.flatMap_cons, lefts_append, rights_append, entrySpec, h1, h2]
          simp only [lefts, rights, List.filterMap_cons, (lefts_blank _).1, (lefts_blank _).2]
          have b1 := (lefts_blank (wr.getD y 1 - 1)).1
          have b2 := (lefts_blank (wr.getD y 1 - 1)).2
          simp only [lefts, rights] at b1 b2
          rw [b1, b2, e2, List.range'_succ]
          simp [Nat.add_assoc]
        · simp at h
    | some x =>
      cases pi with
      | none =>
        simp only [validFrom] at h
        split at h
        · rename_i hx; subst hx
          have hle := validFrom_le _ _ _ _ _ h
          obtain ⟨h1, h2⟩ := ih _ _ _ _ h
          have e1 : m - x = (m - (x + 1)) + 1 := by omega
          simp only [List.flatMap_cons, lefts_append, rights_append, entrySpec, h1, h2]
          simp only [lefts, rights, List.filterMap_cons]
          have b1 := (lefts_blank (wl.getD x 1 - 1)).1
          have b2 := (lefts_blank (wl.getD x 1 - 1)).2
          simp only [lefts, rights] at b1 b2
          rw [b1, b2, e1, List.range'_succ]
          simp [Nat.add_assoc]
        · simp at h
      | some y =>
        simp only [validFrom] at h
        split at h
        · rename_i hxy; obtain ⟨hx, hy⟩ := hxy; subst hx; subst hy
          have hle := validFrom_le _ _ _ _ _ h
          obtain ⟨h1, h2⟩ := ih _ _ _ _ h
          have e1 : m - x = (m - (x + 1)) + 1 := by omega
          have e2 : p - y = (p - (y + 1)) + 1 := by omega
          simp only [List.flatMap_cons, lefts_append, rights_append, entrySpec, h1, h2]
          simp only [lefts, rights, List.filterMap_cons]
          have b1 := (lefts_blank (max (wl.getD x 1) (wr.getD y 1) - 1)).1
          have b2 := (lefts_blank (max (wl.getD x 1) (wr.getD y 1) - 1)).2
          simp only [lefts, rights] at b1 b2
          rw [b1, b2, e1, e2, List.range'_succ, List.range'_succ]
          simp [Nat.add_assoc]
        · simp at h

/-- **how to read the rows of a hunk**: for every decomposition into blocks, every alignment function that uses each
    line once and in order, every number of rows per line — the left cells that show a number show, from top to
    bottom, `a, a + 1, …, a + (old-file lines) - 1`, the right cells `c, c + 1, …`; every other cell is blank. -/
theorem specRows_numbers (al : AlignOf) (hal : ValidAlign al) : ∀ (bs : List SBlock) (a c : Nat),
    lefts (specRows al a c bs) = List.range' a (cntOld (flatAll bs)) ∧
    rights (specRows al a c bs) = List.range' c (cntNew (flatAll bs)) := by
  intro bs
  induction bs with
  | nil => intro a c; simp [specRows, blocksOf, hunkSpec, lefts, rights, flatAll, cntOld, cntNew, countOld, countNew]
  | cons b bs ih =>
    intro a c
    have hsplit : specRows al a c (b :: bs) =
        blockSpec a c (b.toBlock al) ++ specRows al (a + (b.toBlock al).old) (c + (b.toBlock al).new) bs := by
      simp [specRows, blocksOf, hunkSpec]
    have hcnt := cnt_flatAll al [b]
    simp only [flatAll, List.append_nil] at hcnt
    obtain ⟨i1, i2⟩ := ih (a + (b.toBlock al).old) (c + (b.toBlock al).new)
    rw [hsplit, lefts_append, rights_append, i1, i2]
    simp only [flatAll, cntOld_append, cntNew_append, hcnt.1, hcnt.2]
    have ho : tOld al [b] = (b.toBlock al).old := by simp [tOld, blocksOf, totalOld]
    have hn : tNew al [b] = (b.toBlock al).new := by simp [tNew, blocksOf, totalNew]
    rw [ho, hn, range'_split, range'_split]
    cases b with
    | zero l =>
      have b1 := (lefts_blank (l.rows - 1)).1
      have b2 := (lefts_blank (l.rows - 1)).2
      simp only [lefts, rights] at b1 b2
      simp [SBlock.toBlock, blockSpec, lefts, rights, Block.old, Block.new, b1, b2]
    | sub ms ps =>
      obtain ⟨s1, s2⟩ := sbsSpec_numbers a c (ms.map (·.rows)) (ps.map (·.rows)) (al ms ps) 0 0 _ _ (hal ms ps)
      simp only [Nat.add_zero, Nat.sub_zero] at s1 s2
      simp only [SBlock.toBlock, blockSpec, sbsSpec, Block.old, Block.new, s1, s2, and_self]

/-! ### a concrete alignment function (for examples): pair the first `min m p` lines, the rest unpaired -/

def zipAlign : AlignOf := fun ms ps =>
  paired 0 0 (min ms.length ps.length) ++
    (leftOnly (min ms.length ps.length) (ms.length - min ms.length ps.length) ++
     rightOnly (min ms.length ps.length) (ps.length - min ms.length ps.length))

theorem validFrom_append (xs ys : Alignment) : ∀ (i j m p : Nat), validFrom xs i j = some (m, p) →
    validFrom (xs ++ ys) i j = validFrom ys m p := by
  induction xs with
  | nil => intro i j m p h; simp [validFrom] at h; obtain ⟨rfl, rfl⟩ := h; rfl
  | cons e rest ih =>
    intro i j m p h
    obtain ⟨mi, pi⟩ := e
    cases mi <;> cases pi <;> simp only [validFrom, List.cons_append] at h ⊢
    · cases h
    · split at h
      · rename_i hc; rw [if_pos hc]; exact ih _ _ _ _ h
      · cases h
    · split at h
      · rename_i hc; rw [if_pos hc]; exact ih _ _ _ _ h
      · cases h
    · split at h
      · rename_i hc; rw [if_pos hc]; exact ih _ _ _ _ h
      · cases h

theorem validFrom_paired : ∀ (n i j : Nat), validFrom (paired i j n) i j = some (i + n, j + n)
  | 0, i, j => rfl
  | n + 1, i, j => by simp [paired, validFrom, validFrom_paired n (i + 1) (j + 1)]; omega

theorem validFrom_leftOnly : ∀ (n i j : Nat), validFrom (leftOnly i n) i j = some (i + n, j)
  | 0, i, j => rfl
  | n + 1, i, j => by simp [leftOnly, validFrom, validFrom_leftOnly n (i + 1) j]; omega

theorem validFrom_rightOnly : ∀ (n i j : Nat), validFrom (rightOnly j n) i j = some (i, j + n)
  | 0, i, j => rfl
  | n + 1, i, j => by simp [rightOnly, validFrom, validFrom_rightOnly n i (j + 1)]; omega

theorem zipAlign_valid : ValidAlign zipAlign := by
  intro ms ps
  unfold zipAlign
  rw [validFrom_append _ _ _ _ _ _ (validFrom_paired _ 0 0)]
  simp only [Nat.zero_add]
  rw [validFrom_append _ _ _ _ _ _ (validFrom_leftOnly _ _ _), validFrom_rightOnly]
  congr 2 <;> omega

end LineNumbers.WholeSbs
