import DeltaModel.Grep
import Proofs.GrepLongest
/-! C16, fragment B: unnumbered text line, path with a (short) extension and no blanks. -/
namespace Grep

/-- The numbered regex rejects a line without a `.ext`-sep-number-sep look-alike. -/
theorem parseVariant_extNum_none (line : List Char)
    (h : hasNumLookAlike docExtMax line = false) :
    parseVariant .extNum line = none := by
  rw [← extMaxNum_eq] at h
  have hl : longest (extPathOk Generated.Grep.extMinNum Generated.Grep.extMaxNum) (parseSep true) [] line
      = none := by
    apply longest_none
    intro u' v' hsplit hboth
    obtain ⟨hP, hQ⟩ := hboth
    rw [List.nil_append] at hP
    obtain ⟨c0, mid, e, ext, hu, _, _, _, hext, hlo, hhi⟩ := extPathOk_elim hP
    obtain ⟨⟨k, dg, code'⟩, hr⟩ := Option.isSome_iff_exists.mp hQ
    obtain ⟨t, d, hv, ht, hd, hd2, _⟩ := parseSep_true_elim hr
    have hline : line = (c0 :: (mid ++ [e])) ++ '.' :: (ext ++ t :: (d ++ t :: code')) := by
      rw [hsplit, hu, hv]
      simp [List.append_assoc]
    have hlo' : 1 ≤ ext.length := hlo
    have := hasNumLookAlike_intro Generated.Grep.extMaxNum (c0 :: (mid ++ [e])) ext d code' t
      hext hlo' hhi ht hd hd2
    rw [← hline, h] at this
    exact Bool.noConfusion this
  show Option.map mkParsed (longest (extPathOk Generated.Grep.extMinNum Generated.Grep.extMaxNum)
    (parseSep true) [] line) = none
  rw [hl]
  rfl

/-- The no-spaces regex reads `path s code` back when the code has no `.ext`-sep look-alike. -/
theorem parseVariant_extNoSpaces_some (path code : List Char) (s : Char) (kind : Kind)
    (hpath : noSpacePathOk docExtMin docExtMaxNoSpaces path = true)
    (hks : kindOfSep s = some kind) (hsc : isSepChar s = true)
    (hcode : codeOk code = true)
    (hsepLA : hasSepLookAlike docExtMax code = false)
    (hstart : startsWithNum s code = false) :
    parseVariant .extNoSpaces (path ++ s :: code) = some ⟨path, kind, none, code⟩ := by
  rw [← extMinNoSpaces_eq, ← extMaxNoSpaces_eq] at hpath
  have hl : longest (noSpacePathOk Generated.Grep.extMinNoSpaces Generated.Grep.extMaxNoSpaces)
      (parseSep false) [] (path ++ s :: code) = some ([] ++ path, (kind, none, code)) := by
    apply longest_some
    · simpa using hpath
    · exact parseSep_unnumbered s kind code hks hstart hcode
    · intro u' v' hsplit hlen hboth
      obtain ⟨hP, hQ⟩ := hboth
      rw [List.nil_append] at hP
      obtain ⟨r, hr⟩ := Option.isSome_iff_exists.mp hQ
      obtain ⟨t, rest, hv, ht⟩ := parseSep_some_head hr
      obtain ⟨body, e, ext, hu, _, _, _, hext, hlo, hhi⟩ := noSpacePathOk_elim hP
      have hlo' : 1 ≤ ext.length := hlo
      have hhi' : ext.length ≤ docExtMax := by
        have h6 : ext.length ≤ docExtMaxNoSpaces := extMaxNoSpaces_eq ▸ hhi
        have h6' : ext.length ≤ 6 := h6
        show ext.length ≤ 10
        omega
      have hsext : extOk s = false := extOk_of_isSepChar hsc
      have hsdot : s ≠ '.' := by
        rcases isSepChar_cases hsc with h | h | h <;> rw [h] <;> decide
      -- u' extends path
      obtain ⟨w0, hu', hcodeEq⟩ : ∃ w0, u' = path ++ s :: w0 ∧ code = w0 ++ v' := by
        rcases List.append_eq_append_iff.mp hsplit with ⟨a', ha, hb⟩ | ⟨c', hc, hd⟩
        · cases a' with
          | nil => simp at ha; subst ha; omega
          | cons x xs =>
            simp at hb
            obtain ⟨hx, hb⟩ := hb
            subst hx
            exact ⟨xs, ha, hb⟩
        · subst hc
          simp at hlen
          omega
      -- locate the dot of u' after s
      have hsplit2 : path ++ (s :: w0) = (body ++ [e]) ++ ('.' :: ext) := by
        rw [← hu', hu]; simp
      obtain ⟨w1, hw0⟩ : ∃ w1, w0 = w1 ++ '.' :: ext := by
        rcases List.append_eq_append_iff.mp hsplit2 with ⟨a', ha, hb⟩ | ⟨c', hc, hd⟩
        · cases a' with
          | nil =>
            simp at hb
            exact absurd hb.1 hsdot
          | cons x xs =>
            simp at hb
            exact ⟨xs, hb.2⟩
        · -- s lies in '.' :: ext
          have hmem : s ∈ '.' :: ext := by
            rw [hd]; simp
          rcases List.mem_cons.mp hmem with h1 | h1
          · exact absurd h1 hsdot
          · have := List.all_eq_true.mp hext s h1
            rw [hsext] at this
            exact Bool.noConfusion this
      have hcode2 : code = w1 ++ '.' :: (ext ++ t :: rest) := by
        rw [hcodeEq, hw0, hv]; simp
      have := hasSepLookAlike_intro docExtMax w1 ext rest t hext hlo' hhi' ht
      rw [← hcode2, hsepLA] at this
      exact Bool.noConfusion this
  show Option.map mkParsed (longest
    (noSpacePathOk Generated.Grep.extMinNoSpaces Generated.Grep.extMaxNoSpaces)
    (parseSep false) [] (path ++ s :: code)) = _
  rw [hl]
  simp [mkParsed]

theorem parsePlain_unnumbered (p : Parsed) (h : fragUnnumbered p = true) :
    parsePlain (fmtPlain p) = some p := by
  obtain ⟨path, kind, digits, code⟩ := p
  simp only [fragUnnumbered, Bool.and_eq_true, Bool.not_eq_true', Option.isNone_iff_eq_none] at h
  obtain ⟨⟨⟨⟨⟨⟨⟨hd, hk⟩, hpath⟩, _hcolon⟩, hcode⟩, hnum⟩, hsepLA⟩, hstart⟩ := h
  subst hd
  obtain ⟨s, hs, hks, hsc, _⟩ := sep_of_textKind hk
  rw [hs] at hstart
  simp only [Bool.not_eq_true'] at hstart
  have hline : fmtPlain ⟨path, kind, none, code⟩ = path ++ s :: code := by
    simp [fmtPlain, hs]
  rw [hline] at hnum ⊢
  have h1 := parseVariant_extNum_none _ hnum
  have h2 := parseVariant_extNoSpaces_some path code s kind hpath hks hsc hcode hsepLA hstart
  unfold parsePlain
  rw [plainVariants_eq]
  simp [List.findSome?, h1, h2]

end Grep
