import DeltaModel.Options
import Proofs.OptionsFuel
/-!
C13 helper: when every loop over the builtin feature names has at most one name that does
anything, the enumeration order of the names does not matter.
-/
namespace Options

theorem foldl_none (p : Name → Bool) (h : List Name → Name → List Name) :
    ∀ (cs : List Name) (acc : List Name), (∀ c ∈ cs, p c = false) →
      cs.foldl (fun a c => if p c then h a c else a) acc = acc := by
  intro cs
  induction cs with
  | nil => intro acc _; rfl
  | cons c cs ih =>
    intro acc hall
    have hc : p c = false := hall c List.mem_cons_self
    simp only [List.foldl_cons, hc, Bool.false_eq_true, ↓reduceIte]
    exact ih acc (fun c' hc' => hall c' (List.mem_cons_of_mem _ hc'))

theorem foldl_at_most_one (p : Name → Bool) (h : List Name → Name → List Name) :
    ∀ (π : List Name) (acc : List Name), π.Nodup →
      (∀ c ∈ π, ∀ c' ∈ π, p c = true → p c' = true → c = c') →
      π.foldl (fun a c => if p c then h a c else a) acc =
        (match π.find? p with | some c => h acc c | none => acc) := by
  intro π
  induction π with
  | nil => intro acc _ _; rfl
  | cons c cs ih =>
    intro acc hnd huniq
    have hnd' := (List.nodup_cons.mp hnd)
    by_cases hc : p c = true
    · simp only [List.foldl_cons, hc, ↓reduceIte, List.find?_cons_of_pos]
      apply foldl_none
      intro c' hc'
      cases hpc : p c' with
      | false => rfl
      | true =>
        have : c = c' := huniq c List.mem_cons_self c' (List.mem_cons_of_mem _ hc') hc hpc
        exact absurd (this ▸ hc') hnd'.1
    · have hcf : p c = false := by simpa using hc
      simp only [List.foldl_cons, hcf, Bool.false_eq_true, ↓reduceIte]
      rw [List.find?_cons_of_neg (by simp [hcf])]
      exact ih acc hnd'.2
        (fun a ha b hb => huniq a (List.mem_cons_of_mem _ ha) b (List.mem_cons_of_mem _ hb))

theorem find_perm (p : Name → Bool) {π π' : List Name} (hp : π.Perm π')
    (huniq : ∀ c ∈ π, ∀ c' ∈ π, p c = true → p c' = true → c = c') :
    π.find? p = π'.find? p := by
  cases h : π.find? p with
  | none =>
    have hall : ∀ x ∈ π, ¬ p x = true := by simpa using h
    symm
    rw [List.find?_eq_none]
    intro x hx
    exact hall x (hp.mem_iff.mpr hx)
  | some c =>
    have hpc : p c = true := List.find?_some h
    have hcm : c ∈ π := List.mem_of_find?_eq_some h
    cases h' : π'.find? p with
    | none =>
      have hall : ∀ x ∈ π', ¬ p x = true := by simpa using h'
      exact absurd hpc (hall c (hp.mem_iff.mp hcm))
    | some c' =>
      have hpc' : p c' = true := List.find?_some h'
      have hcm' : c' ∈ π := hp.mem_iff.mpr (List.mem_of_find?_eq_some h')
      rw [huniq c hcm c' hcm' hpc hpc']

/-- A loop over the names with at most one active name gives the same result for both
    enumeration orders. -/
theorem foldl_perm_at_most_one (p : Name → Bool) (h : List Name → Name → List Name)
    {π π' : List Name} (hp : π.Perm π') (hnd : π.Nodup)
    (huniq : ∀ c ∈ π, ∀ c' ∈ π, p c = true → p c' = true → c = c') (acc : List Name) :
    π.foldl (fun a c => if p c then h a c else a) acc =
      π'.foldl (fun a c => if p c then h a c else a) acc := by
  rw [foldl_at_most_one p h π acc hnd huniq,
    foldl_at_most_one p h π' acc (hp.nodup_iff.mp hnd)
      (fun a ha b hb => huniq a (hp.mem_iff.mpr ha) b (hp.mem_iff.mpr hb)),
    find_perm p hp huniq]

/-- At most one boolean entry of a builtin table names a builtin feature in `π`. -/
def TablesAtMostOne (bs : Builtins) (π : List Name) : Prop :=
  ∀ f t, lookup f bs = some t → ∀ c ∈ π, ∀ c' ∈ π, flagTrue t c = true → flagTrue t c' = true → c = c'

/-- At most one builtin feature flag is true in every section of the git config. -/
def SectionsAtMostOne (g : GitCfg) (π : List Name) : Prop :=
  ∀ sec, ∀ c ∈ π, ∀ c' ∈ π, g.getBool sec c = some true → g.getBool sec c' = some true → c = c'

/-- The sections of a git config: the main one and every `[delta "f"]`. -/
def sectionKeys (g : GitCfg) : List (Option Name) := none :: g.file.sections.map (fun p => some p.1)

/-- `SectionsAtMostOne`, quantified over the sections that exist (decidable). -/
abbrev SectionsAtMostOneB (g : GitCfg) (π : List Name) : Prop :=
  ∀ sec ∈ sectionKeys g, ∀ c ∈ π, ∀ c' ∈ π,
    g.getBool sec c = some true → g.getBool sec c' = some true → c = c'

theorem lookup_none_of_not_mem {β : Type} (k : String) (l : List (String × β))
    (h : k ∉ l.map (·.1)) : lookup k l = none := by
  induction l with
  | nil => rfl
  | cons p t ih =>
    obtain ⟨a, b⟩ := p
    have hak : a ≠ k := fun e => h (by simp [e])
    have ht : k ∉ t.map (·.1) := fun hm => h (by simp at hm ⊢; exact Or.inr hm)
    simp [lookup, hak, ih ht]

theorem sectionsAtMostOne_of_bounded (g : GitCfg) (π : List Name) (h : SectionsAtMostOneB g π) :
    SectionsAtMostOne g π := by
  intro sec c hc c' hc' h1 h2
  cases sec with
  | none => exact h none List.mem_cons_self c hc c' hc' h1 h2
  | some f =>
    by_cases hf : f ∈ g.file.sections.map (·.1)
    · refine h (some f) ?_ c hc c' hc' h1 h2
      obtain ⟨p, hp, rfl⟩ := List.mem_map.mp hf
      exact List.mem_cons_of_mem _ (List.mem_map.mpr ⟨p, hp, rfl⟩)
    · have : g.getBool (some f) c = none := by
        rw [getBool_section]
        by_cases he : g.enabled
        · simp [he, lookup_none_of_not_mem f _ hf]
        · simp [he]
      rw [this] at h1
      cases h1

theorem gatherB_perm (bs : Builtins) {π π' : List Name} (hp : π.Perm π') (hnd : π.Nodup)
    (hT : TablesAtMostOne bs π) :
    ∀ n f acc, gatherB bs π n f acc = gatherB bs π' n f acc := by
  intro n
  induction n with
  | zero => intro f acc; rfl
  | succ n ih =>
    intro f acc
    unfold gatherB
    by_cases hc : f ∈ acc
    · simp [hc]
    · have hc' : acc.contains f = false := by simpa using hc
      simp only [hc', Bool.false_eq_true, ↓reduceIte]
      cases hl : lookup f bs with
      | none => rfl
      | some t =>
        simp only []
        have e1 : ∀ a, (featuresOf t).foldl (fun a c => gatherB bs π n c a) a =
            (featuresOf t).foldl (fun a c => gatherB bs π' n c a) a :=
          foldl_congr_pointwise _ (fun c _ a => ih c a)
        rw [e1]
        have e2 : ∀ a, π.foldl (fun a c => if flagTrue t c then gatherB bs π n c a else a) a =
            π.foldl (fun a c => if flagTrue t c then gatherB bs π' n c a else a) a :=
          foldl_congr_pointwise _ (fun c _ a => by rw [ih c a])
        rw [e2]
        exact foldl_perm_at_most_one (flagTrue t) (fun a c => gatherB bs π' n c a) hp hnd
          (hT f t hl) _

theorem gatherFlags_perm (bs : Builtins) {π π' : List Name} (hp : π.Perm π') (hnd : π.Nodup)
    (hT : TablesAtMostOne bs π) (g : GitCfg) (hS : SectionsAtMostOne g π) (fb : Nat)
    (sec : Option Name) (acc : List Name) :
    gatherFlags bs π fb g sec acc = gatherFlags bs π' fb g sec acc := by
  unfold gatherFlags
  have e : ∀ a, π.foldl (fun a c => if g.getBool sec c = some true then gatherB bs π fb c a else a) a =
      π.foldl (fun a c => if g.getBool sec c = some true then gatherB bs π' fb c a else a) a :=
    foldl_congr_pointwise _ (fun c _ a => by rw [gatherB_perm bs hp hnd hT fb c a])
  rw [e]
  have := foldl_perm_at_most_one (fun c => decide (g.getBool sec c = some true))
    (fun a c => gatherB bs π' fb c a) hp hnd
    (fun c hc c' hc' h1 h2 => hS sec c hc c' hc' (by simpa using h1) (by simpa using h2)) acc
  simpa using this

theorem gatherR_perm (bs : Builtins) {π π' : List Name} (hp : π.Perm π') (hnd : π.Nodup)
    (hT : TablesAtMostOne bs π) (g : GitCfg) (hS : SectionsAtMostOne g π) (fb : Nat) :
    ∀ n f acc, gatherR bs π fb g n f acc = gatherR bs π' fb g n f acc := by
  intro n
  induction n with
  | zero => intro f acc; rfl
  | succ n ih =>
    intro f acc
    rw [gatherR, gatherR, gatherB_perm bs hp hnd hT fb f acc]
    have e1 : ∀ a, (secFeatures g (some f)).foldl
          (fun a c => if a.contains c then a else gatherR bs π fb g n c a) a =
        (secFeatures g (some f)).foldl
          (fun a c => if a.contains c then a else gatherR bs π' fb g n c a) a :=
      foldl_congr_pointwise _ (fun c _ a => by rw [ih c a])
    rw [e1]
    exact gatherFlags_perm bs hp hnd hT g hS fb (some f) _

theorem keysOf_perm (bs : Builtins) {π π' : List Name} (hp : π.Perm π') :
    (keysOf bs π).Perm (keysOf bs π') := hp.filter _

theorem keysOf_nodup (bs : Builtins) {π : List Name} (hnd : π.Nodup) : (keysOf bs π).Nodup :=
  hnd.sublist List.filter_sublist

theorem nameUniverse_length_perm (bs : Builtins) {π π' : List Name} (hp : π.Perm π') (inp : Inputs)
    (g : Option GitCfg) : (nameUniverse bs π inp g).length = (nameUniverse bs π' inp g).length := by
  simp only [nameUniverse, List.length_append, hp.length_eq]

theorem gatherFeaturesWith_perm (N : Nat) {π π' : List Name} (hp : π.Perm π') (hnd : π.Nodup)
    (inp : Inputs)
    (hT : TablesAtMostOne (builtinsFor inp) (keysOf (builtinsFor inp) π))
    (hS : ∀ g, finalConfig inp = some g → SectionsAtMostOne g (keysOf (builtinsFor inp) π)) :
    gatherFeaturesWith N π inp = gatherFeaturesWith N π' inp := by
  unfold gatherFeaturesWith
  simp only []
  generalize hbs : builtinsFor inp = bs at hT hS ⊢
  have hpK := keysOf_perm bs hp
  have hndK := keysOf_nodup bs hnd
  generalize keysOf bs π = K at hT hS hpK hndK ⊢
  generalize keysOf bs π' = K' at hpK ⊢
  cases hg : finalConfig inp with
  | none =>
    simp only []
    have e1 : ∀ a, (inputFeatures inp).foldl (fun a f =>
          if (Generated.Options.noConfigExpands && (lookup f bs).isSome) = true then gatherB bs K N f a
          else f :: a) a =
        (inputFeatures inp).foldl (fun a f =>
          if (Generated.Options.noConfigExpands && (lookup f bs).isSome) = true then gatherB bs K' N f a
          else f :: a) a :=
      foldl_congr_pointwise _ (fun f _ a => by rw [gatherB_perm bs hpK hndK hT N f a])
    rw [e1]
    exact foldl_congr_pointwise _ (fun p _ a => by rw [gatherB_perm bs hpK hndK hT N p.2 a]) _
  | some g =>
    simp only []
    have hSg := hS g hg
    have e1 : ∀ a, (inputFeatures inp).foldl (fun a f => gatherR bs K N g N f a) a =
        (inputFeatures inp).foldl (fun a f => gatherR bs K' N g N f a) a :=
      foldl_congr_pointwise _ (fun f _ a => gatherR_perm bs hpK hndK hT g hSg N N f a)
    rw [e1]
    have e2 : ∀ a, Generated.Options.cliFlagOrder.foldl
          (fun a (p : String × String) => if flagOn inp p.1 then gatherB bs K N p.2 a else a) a =
        Generated.Options.cliFlagOrder.foldl
          (fun a (p : String × String) => if flagOn inp p.1 then gatherB bs K' N p.2 a else a) a :=
      foldl_congr_pointwise _ (fun p _ a => by rw [gatherB_perm bs hpK hndK hT N p.2 a])
    rw [e2]
    have e3 : ∀ a, (secFeatures g none).foldl (fun a f => gatherR bs K N g N f a) a =
        (secFeatures g none).foldl (fun a f => gatherR bs K' N g N f a) a :=
      foldl_congr_pointwise _ (fun f _ a => gatherR_perm bs hpK hndK hT g hSg N N f a)
    simp only [e3]
    exact gatherFlags_perm bs hpK hndK hT g hSg N none _

theorem gatherFeatures_perm {π π' : List Name} (hp : π.Perm π') (hnd : π.Nodup) (inp : Inputs)
    (hT : TablesAtMostOne (builtinsFor inp) (keysOf (builtinsFor inp) π))
    (hS : ∀ g, finalConfig inp = some g → SectionsAtMostOne g (keysOf (builtinsFor inp) π)) :
    gatherFeatures π inp = gatherFeatures π' inp := by
  unfold gatherFeatures fuelFor
  rw [nameUniverse_length_perm (builtinsFor inp) (keysOf_perm (builtinsFor inp) hp) inp (finalConfig inp)]
  exact gatherFeaturesWith_perm _ hp hnd inp hT hS

/-- The generated tables: a builtin feature switches on at most one builtin feature through a
    boolean entry (in fact only itself). -/
theorem allBuiltins_at_most_one :
    ∀ p ∈ allBuiltins, ∀ c ∈ builtinNames, ∀ c' ∈ builtinNames,
      flagTrue p.2 c = true → flagTrue p.2 c' = true → c = c' := by
  decide

theorem tablesAtMostOne_builtinsFor (inp : Inputs) (π : List Name) (hπ : ∀ c ∈ π, c ∈ builtinNames) :
    TablesAtMostOne (builtinsFor inp) (keysOf (builtinsFor inp) π) := by
  intro f t hl c hc c' hc' h1 h2
  have hmem : (f, t) ∈ builtinsFor inp := lookup_mem f _ t hl
  have hall : (f, t) ∈ allBuiltins := by
    unfold builtinsFor at hmem
    split at hmem
    · exact (List.mem_filter.mp hmem).1
    · exact hmem
  have hk : ∀ x, x ∈ keysOf (builtinsFor inp) π → x ∈ builtinNames :=
    fun x hx => hπ x (List.mem_filter.mp hx).1
  exact allBuiltins_at_most_one (f, t) hall c (hk c hc) c' (hk c' hc') h1 h2

end Options
