import DeltaModel.CallerScan
/-!
Lemmas for the scan model (`DeltaModel/CallerScan.lean`): a total shape gives a total callback and a
total scan; a scan that returns makes `stepBgScan` the protocol's `stepBg`; a scan that panics leaves
the cell `Pending` for ever.
-/
namespace CallerScan
open Caller

/-! ### Totality -/

theorem gitArm_ok (sh : Shape) (rest : Argv) (hg : sh.gitOther.isSome = true) :
    ∃ o, gitArm sh rest = .ok o := by
  obtain ⟨g, hg⟩ := Option.isSome_iff_exists.mp hg
  unfold gitArm
  split
  · exact ⟨g, by simp [hg]⟩
  · split
    · exact ⟨_, rfl⟩
    · exact ⟨g, by simp [hg]⟩

theorem armResult_ok (sh : Shape) (rest : Argv) (r : ArmRes) (hk : r.known = true)
    (hs : sh.subcommandsKnown = true) (hg : sh.gitOther.isSome = true) :
    ∃ o, armResult sh rest r = .ok o := by
  cases r with
  | subcommands =>
    obtain ⟨o, ho⟩ := gitArm_ok sh rest hg
    exact ⟨o, by simp [armResult, hs, ho]⟩
  | result o => exact ⟨o, rfl⟩
  | unknown => simp [ArmRes.known] at hk

theorem evalArms_ok (sh : Shape) (stem : Option Arg) (rest : Argv) (arms : List (ArmPat × ArmRes))
    (hall : arms.all (fun a => a.2.known) = true)
    (hany : arms.any (fun a => armMatches sh stem a.1) = true)
    (hs : sh.subcommandsKnown = true) (hg : sh.gitOther.isSome = true) :
    ∃ o, evalArms sh stem rest arms = .ok o := by
  induction arms with
  | nil => simp at hany
  | cons a more ih =>
    simp only [List.all_cons, Bool.and_eq_true] at hall
    simp only [List.any_cons, Bool.or_eq_true] at hany
    unfold evalArms
    by_cases hm : armMatches sh stem a.1 = true
    · simp only [hm, if_true]
      exact armResult_ok sh rest a.2 hall.1 hs hg
    · simp only [hm]
      refine ih hall.2 ?_
      rcases hany with h | h
      · exact absurd h hm
      · exact h

theorem exhaustive_any (sh : Shape) (stem : Option Arg) (arms : List (ArmPat × ArmRes))
    (h : (hasPat arms .any || (hasPat arms .some_ && hasPat arms .none_)) = true) :
    arms.any (fun a => armMatches sh stem a.1) = true := by
  simp only [hasPat, Bool.or_eq_true, Bool.and_eq_true, List.any_eq_true, decide_eq_true_eq] at h ⊢
  rcases h with ⟨a, ha, hp⟩ | ⟨⟨a, ha, hp⟩, ⟨b, hb, hq⟩⟩
  · exact ⟨a, ha, by rw [hp]; rfl⟩
  · cases stem with
    | none => exact ⟨b, hb, by rw [hq]; rfl⟩
    | some s => exact ⟨a, ha, by rw [hp]; rfl⟩

/-- A total shape gives a callback that returns for EVERY argument slice. -/
theorem describeWith_total (sh : Shape) (h : sh.total = true) (argv : Argv) :
    ∃ o, describeWith sh argv = .ok o := by
  simp only [Shape.total, Bool.and_eq_true] at h
  obtain ⟨⟨⟨⟨⟨⟨hc, hr⟩, he⟩, hg⟩, hs⟩, hall⟩, hex⟩ := h
  unfold describeWith
  cases hcmd : sh.cmd <;> simp [hcmd, CmdAccess.total] at hc
  cases hrest : sh.rest <;> simp [hrest, RestAccess.total] at hr
  simp only [getCommand, getRest]
  cases argv.head? with
  | none =>
    obtain ⟨o, ho⟩ := Option.isSome_iff_exists.mp he
    exact ⟨o, by simp [ho]⟩
  | some c =>
    exact evalArms_ok sh (fileStem c) _ sh.arms hall (exhaustive_any sh _ sh.arms hex) hs hg

theorem scanParents_total (sh : Shape) (h : sh.total = true) (sib : Option Argv) (depth : Nat)
    (ps : List Argv) : ∃ r, scanParents sh sib depth ps = .ok r := by
  induction ps generalizing depth with
  | nil => exact ⟨none, rfl⟩
  | cons p ps ih =>
    unfold scanParents
    obtain ⟨o, ho⟩ := describeWith_total sh h p
    rw [ho]
    cases o with
    | args c => exact ⟨_, rfl⟩
    | argError => exact ⟨_, rfl⟩
    | otherProcess =>
      simp only
      split
      · cases sib with
        | none => exact ih _
        | some s =>
          obtain ⟨o2, ho2⟩ := describeWith_total sh h s
          simp only [ho2]
          cases o2 with
          | args c => exact ⟨_, rfl⟩
          | argError => exact ih _
          | otherProcess => exact ih _
      · exact ih _

theorem scanNeighbours_total (sh : Shape) (h : sh.total = true) (ps : List Argv) :
    ∃ r, scanNeighbours sh ps = .ok r := by
  induction ps with
  | nil => exact ⟨none, rfl⟩
  | cons p ps ih =>
    unfold scanNeighbours
    obtain ⟨o, ho⟩ := describeWith_total sh h p
    obtain ⟨r, hr⟩ := ih
    rw [ho, hr]
    cases o <;> exact ⟨_, rfl⟩

/-- A total shape gives a scan that returns for EVERY process table. -/
theorem scan_total (sh : Shape) (h : sh.total = true) (t : Table) : ∃ g, scan sh t = .ok g := by
  unfold scan
  obtain ⟨r, hr⟩ := scanParents_total sh h t.sibling 1 (t.ancestors.take parentDepthsShape.length)
  rw [hr]
  cases r with
  | some g => exact ⟨g, rfl⟩
  | none => exact scanNeighbours_total sh h t.neighbours

theorem scanReturns_of_total (sh : Shape) (h : sh.total = true) (t : Table) : scanReturns sh t = true := by
  obtain ⟨g, hg⟩ := scan_total sh h t
  simp [scanReturns, hg]

/-! ### A panic of the callback is a panic of the scan -/

/-- The callback panics on the nearest ancestor's command line: so does the scan. -/
theorem scan_panics_of_parent (sh : Shape) (p : Argv) (e : String) (hp : describeWith sh p = .error e)
    (more : List Argv) (sib : Option Argv) (ns : List Argv) :
    scan sh ⟨p :: more, sib, ns⟩ = .error e := by
  simp [scan, parentDepthsShape, scanParents, hp]

/-! ### The protocol with the computation spelled out -/

theorem stepBgScan_true (cfg : Cfg) (s : State) : stepBgScan cfg true s = stepBg cfg s := by
  unfold stepBgScan stepBg
  cases s.bpc <;> rfl

theorem stepScan_true (cfg : Cfg) (s : State) (c : Choice) : stepScan cfg true s c = step cfg s c := by
  cases c <;> simp [stepScan, step, stepBgScan_true]

/-- If the scan returns, the refined system IS the protocol model: every theorem about `run` applies. -/
theorem runScan_true (cfg : Cfg) (s : State) (cs : List Choice) : runScan cfg true s cs = run cfg s cs := by
  induction cs generalizing s with
  | nil => rfl
  | cons c cs ih =>
    simp only [runScan, run, stepScan_true]
    cases step cfg s c with
    | none => rfl
    | some s' => exact ih s'

/-- What stays true for ever once the scan has panicked (or will) and nobody publishes: the cell is
`Pending`, no query has been answered and the main thread is inside its first query. -/
structure Starved (s : State) : Prop where
  cell : s.cell = .pending
  results : s.results = []
  bpc : s.bpc = .compute ∨ s.bpc = .done
  mpc : s.mpc = .qLock ∨ s.mpc = .qCheck ∨ s.mpc = .qSleep ∨ s.mpc = .asleep ∨ s.mpc = .qRelock

theorem starved_init (cfg : Cfg) (hk : cfg.known = none) (hq : 0 < cfg.queries) : Starved (init cfg) := by
  have hq' : cfg.queries ≠ 0 := by omega
  constructor <;> simp [init, hk, queryStart, hq']

theorem starved_step (cfg : Cfg) (s s' : State) (c : Choice) (h : Starved s)
    (hs : stepScan cfg false s c = some s') : Starved s' := by
  obtain ⟨hc, hr, hb, hm⟩ := h
  cases c with
  | bg =>
    simp only [stepScan, stepBgScan] at hs
    rcases hb with hb | hb
    · simp [hb] at hs
      subst hs
      exact ⟨hc, hr, Or.inr rfl, hm⟩
    · simp [hb, stepBg] at hs
  | main =>
    simp only [stepScan] at hs
    rcases hm with hm | hm | hm | hm | hm
    · simp only [stepMain, hm] at hs
      split at hs
      · simp at hs; subst hs; exact ⟨hc, hr, hb, by simp⟩
      · simp at hs
    · simp [stepMain, hm, hc] at hs
      subst hs
      exact ⟨rfl, hr, hb, by simp⟩
    · simp [stepMain, hm] at hs
      subst hs
      exact ⟨hc, hr, hb, by simp⟩
    · simp [stepMain, hm] at hs
    · simp only [stepMain, hm] at hs
      split at hs
      · simp at hs; subst hs; exact ⟨hc, hr, hb, by simp⟩
      · simp at hs
  | spurious =>
    simp only [stepScan, stepSpurious] at hs
    split at hs
    · simp at hs; subst hs; exact ⟨hc, hr, hb, by simp⟩
    · simp at hs

theorem starved_run (cfg : Cfg) (cs : List Choice) (s s' : State) (h : Starved s)
    (hs : runScan cfg false s cs = some s') : Starved s' := by
  induction cs generalizing s with
  | nil => simp [runScan] at hs; subst hs; exact h
  | cons c cs ih =>
    simp only [runScan] at hs
    cases hstep : stepScan cfg false s c with
    | none => simp [hstep] at hs
    | some s1 =>
      rw [hstep] at hs
      exact ih s1 (starved_step cfg s s1 c h hstep) hs

/-! ### Two shapes that differ only in how the slice is accessed -/

theorem armMatches_congr (sh1 sh2 : Shape) (hg : sh1.grepTools = sh2.grepTools) (stem : Option Arg)
    (p : ArmPat) : armMatches sh1 stem p = armMatches sh2 stem p := by
  cases p <;> simp [armMatches, hg]

theorem gitArm_congr (sh1 sh2 : Shape) (h1 : sh1.skipUntil = sh2.skipUntil)
    (h2 : sh1.subcommands = sh2.subcommands) (h3 : sh1.gitOther = sh2.gitOther) (rest : Argv) :
    gitArm sh1 rest = gitArm sh2 rest := by
  simp [gitArm, h1, h2, h3]

theorem evalArms_congr (sh1 sh2 : Shape) (hg : sh1.grepTools = sh2.grepTools)
    (h1 : sh1.skipUntil = sh2.skipUntil) (h2 : sh1.subcommands = sh2.subcommands)
    (h3 : sh1.gitOther = sh2.gitOther) (h4 : sh1.subcommandsKnown = sh2.subcommandsKnown)
    (stem : Option Arg) (rest : Argv) (arms : List (ArmPat × ArmRes)) :
    evalArms sh1 stem rest arms = evalArms sh2 stem rest arms := by
  induction arms with
  | nil => rfl
  | cons a more ih =>
    simp only [evalArms, armMatches_congr sh1 sh2 hg, ih]
    cases a.2 <;> simp [armResult, h4, gitArm_congr sh1 sh2 h1 h2 h3]

/-- The flattened variant computes exactly what the extracted callback computes on every NON-EMPTY
argument slice: the empty slice is the only input on which they differ. -/
theorem flattened_agrees_on_nonempty (hc : theShape.cmd = .next) (hr : theShape.rest = .drop 1)
    (a : Arg) (as : Argv) :
    describeWith flattenedShape (a :: as) = describeWith theShape (a :: as) := by
  have e : evalArms flattenedShape (fileStem a) as theShape.arms = evalArms theShape (fileStem a) as theShape.arms :=
    evalArms_congr flattenedShape theShape rfl rfl rfl rfl rfl _ _ _
  simp [describeWith, flattenedShape, getCommand, getRest, hc, hr]
  simpa [flattenedShape] using e

end CallerScan
