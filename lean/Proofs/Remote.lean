import DeltaModel.Remote
/-!
Lemmas about the remote-URL matcher (`DeltaModel/RemoteRegex.lean`) and the `from_str` / `format_commit_url`
interpreters (`DeltaModel/Remote.lean`), for **every** pattern / arm table that passes the decidable check `armOk`.
Core Lean only.
-/
namespace Remote

/-! ### Atoms -/

theorem mem_cuts {s : List Char} {ks : List Nat} {c r : List Char} :
    (c, r) ∈ cuts s ks ↔ ∃ k ∈ ks, c = s.take k ∧ r = s.drop k := by
  simp only [cuts, List.mem_map, Prod.mk.injEq]
  constructor
  · rintro ⟨k, hk, h1, h2⟩; exact ⟨k, hk, h1.symm, h2.symm⟩
  · rintro ⟨k, hk, h1, h2⟩; exact ⟨k, hk, h1.symm, h2.symm⟩

theorem take_accepts (p : Char → Bool) :
    ∀ (s : List Char) (k : Nat), k ≤ (s.takeWhile p).length → ∀ x ∈ s.take k, p x = true
  | [], _, _, x, hx => by simp at hx
  | _ :: _, 0, _, x, hx => by simp at hx
  | c :: s, k + 1, h, x, hx => by
    by_cases hc : p c = true
    · simp only [List.takeWhile_cons, hc, if_true, List.length_cons] at h
      simp only [List.take_succ_cons, List.mem_cons] at hx
      rcases hx with rfl | hx
      · exact hc
      · exact take_accepts p s k (by omega) x hx
    · simp [hc] at h

theorem length_takeWhile_le' (p : Char → Bool) : ∀ s : List Char, (s.takeWhile p).length ≤ s.length
  | [] => by simp
  | c :: s => by
    have := length_takeWhile_le' p s
    by_cases hc : p c = true <;> simp [hc] <;> omega

/-- What one way of matching an atom guarantees. -/
structure SplitOk (a : Atom) (s c r : List Char) : Prop where
  app : c ++ r = s
  acc : ∀ x ∈ c, a.accepts x = true
  one : a.q = .one → ∃ x, c = [x]
  ne : a.q = .plus ∨ a.q = .plusLazy → c ≠ []

theorem cut_ok (a : Atom) (s : List Char) (k : Nat) (hk : k ≤ (s.takeWhile a.accepts).length) :
    s.take k ++ s.drop k = s ∧ (∀ x ∈ s.take k, a.accepts x = true) ∧ (s.take k).length = k := by
  refine ⟨List.take_append_drop k s, take_accepts _ s k hk, ?_⟩
  have := length_takeWhile_le' a.accepts s
  simp only [List.length_take]
  omega

theorem Atom.splits_sound (a : Atom) (s c r : List Char) (h : (c, r) ∈ a.splits s) : SplitOk a s c r := by
  unfold Atom.splits at h
  have key : ∀ k, k ≤ (s.takeWhile a.accepts).length → c = s.take k → r = s.drop k →
      (a.q = .one → k = 1) → (a.q = .plus ∨ a.q = .plusLazy → 1 ≤ k) → SplitOk a s c r := by
    intro k hk hc hr h1 hp
    obtain ⟨e1, e2, e3⟩ := cut_ok a s k hk
    subst hc hr
    refine ⟨e1, e2, ?_, ?_⟩
    · intro hq
      have := h1 hq
      subst this
      exact List.length_eq_one_iff.mp e3
    · intro hq hnil
      have := hp hq
      rw [hnil] at e3
      simp at e3
      omega
  cases hq : a.q <;> simp only [hq] at h
  · -- one
    split at h
    · rcases mem_cuts.mp h with ⟨k, hk, hc, hr⟩
      simp only [List.mem_singleton] at hk
      subst hk
      exact key 1 (by omega) hc hr (fun _ => rfl) (fun _ => Nat.le_refl 1)
    · simp at h
  · -- opt
    split at h
    · rcases mem_cuts.mp h with ⟨k, hk, hc, hr⟩
      simp only [List.mem_cons, List.not_mem_nil, or_false] at hk
      rcases hk with rfl | rfl
      · exact key 1 (by omega) hc hr (by simp [hq]) (by simp [hq])
      · exact key 0 (by omega) hc hr (by simp [hq]) (by simp [hq])
    · rcases mem_cuts.mp h with ⟨k, hk, hc, hr⟩
      simp only [List.mem_singleton] at hk
      subst hk
      exact key 0 (by omega) hc hr (by simp [hq]) (by simp [hq])
  · -- plus
    rcases mem_cuts.mp h with ⟨k, hk, hc, hr⟩
    simp only [List.mem_reverse, List.mem_range'_1] at hk
    exact key k (by omega) hc hr (by simp [hq]) (fun _ => hk.1)
  · -- star
    rcases mem_cuts.mp h with ⟨k, hk, hc, hr⟩
    simp only [List.mem_reverse, List.mem_range] at hk
    exact key k (by omega) hc hr (by simp [hq]) (by simp [hq])
  · -- plusLazy
    rcases mem_cuts.mp h with ⟨k, hk, hc, hr⟩
    simp only [List.mem_range'_1] at hk
    exact key k (by omega) hc hr (by simp [hq]) (fun _ => hk.1)
  · -- starLazy
    rcases mem_cuts.mp h with ⟨k, hk, hc, hr⟩
    simp only [List.mem_range] at hk
    exact key k (by omega) hc hr (by simp [hq]) (by simp [hq])

/-! ### Atom sequences -/

theorem mem_matchAtoms_cons {a : Atom} {as : List Atom} {s c r : List Char} :
    (c, r) ∈ matchAtoms (a :: as) s ↔
      ∃ c1 r1 c2, (c1, r1) ∈ a.splits s ∧ (c2, r) ∈ matchAtoms as r1 ∧ c = c1 ++ c2 := by
  simp only [matchAtoms, List.mem_flatMap, List.mem_map, Prod.mk.injEq, Prod.exists]
  constructor
  · rintro ⟨c1, r1, h1, c2, r2, h2, rfl, rfl⟩
    exact ⟨c1, r1, c2, h1, h2, rfl⟩
  · rintro ⟨c1, r1, c2, h1, h2, rfl⟩
    exact ⟨c1, r1, h1, c2, r, h2, rfl, rfl⟩

theorem matchAtoms_app : ∀ (as : List Atom) (s c r : List Char), (c, r) ∈ matchAtoms as s → c ++ r = s
  | [], s, c, r, h => by
    simp only [matchAtoms, List.mem_singleton, Prod.mk.injEq] at h
    rw [h.1, h.2]; rfl
  | a :: as, s, c, r, h => by
    obtain ⟨c1, r1, c2, h1, h2, rfl⟩ := mem_matchAtoms_cons.mp h
    have e1 := (Atom.splits_sound a s c1 r1 h1).app
    have e2 := matchAtoms_app as r1 c2 r h2
    rw [List.append_assoc, e2, e1]

theorem isLit_accepts {a : Atom} (ha : a.isLit = true) {x : Char} (hx : a.accepts x = true) : a.chars = [x] := by
  obtain ⟨neg, chars, q⟩ := a
  simp only [Atom.isLit, Bool.and_eq_true, beq_iff_eq] at ha
  obtain ⟨⟨hn, _⟩, hl⟩ := ha
  obtain ⟨y, rfl⟩ := List.length_eq_one_iff.mp hl
  subst hn
  simp only [Atom.accepts, List.contains_cons, List.contains_nil, Bool.or_false, bne_iff_ne, ne_eq,
    Bool.false_eq, beq_eq_false_iff_ne, Decidable.not_not] at hx
  rw [hx]

/-- An all-literal sequence matches its text only. -/
theorem matchAtoms_lit : ∀ (as : List Atom), allLit as = true → ∀ (s c r : List Char),
    (c, r) ∈ matchAtoms as s → c = litText as
  | [], _, s, c, r, h => by
    simp only [matchAtoms, List.mem_singleton, Prod.mk.injEq] at h
    rw [h.1]; rfl
  | a :: as, hl, s, c, r, h => by
    simp only [allLit, List.all_cons, Bool.and_eq_true] at hl
    obtain ⟨c1, r1, c2, h1, h2, rfl⟩ := mem_matchAtoms_cons.mp h
    have sp := Atom.splits_sound a s c1 r1 h1
    have hq : a.q = .one := by
      have := hl.1
      simp only [Atom.isLit, Bool.and_eq_true, beq_iff_eq] at this
      exact this.1.2
    obtain ⟨x, rfl⟩ := sp.one hq
    have hx := sp.acc x (by simp)
    have := isLit_accepts hl.1 hx
    have ih := matchAtoms_lit as (by simpa [allLit] using hl.2) r1 c2 r h2
    simp only [litText, List.flatMap_cons, this, ih]

/-- `u@` with a non-empty `u` free of `@`. -/
def UserAt (pre : List Char) : Prop := ∃ u, u ≠ [] ∧ (∀ x ∈ u, x ≠ '@') ∧ pre = u ++ ['@']

theorem matchAtoms_userAt (s c r : List Char)
    (h : (c, r) ∈ matchAtoms [⟨true, ['@'], .plus⟩, lit '@'] s) : UserAt c := by
  obtain ⟨c1, r1, c2, h1, h2, rfl⟩ := mem_matchAtoms_cons.mp h
  have sp := Atom.splits_sound _ s c1 r1 h1
  have e2 := matchAtoms_lit [lit '@'] (by decide) r1 c2 r h2
  refine ⟨c1, sp.ne (Or.inl rfl), ?_, by rw [e2]; rfl⟩
  intro x hx hxa
  have := sp.acc x hx
  subst hxa
  simp [Atom.accepts] at this

/-! ### Pieces -/

/-- The text a piece consumed (nothing when an optional group did not participate). -/
def textOf (caps : List (Option (List Char))) : List Char := caps.flatMap fun o => o.getD []

def PieceOk (p : Piece) : Option (List Char) → Prop
  | none => p.optional = true
  | some t => ∃ alt ∈ p.alts, ∃ s r, (t, r) ∈ matchAtoms alt s

def PiecesOk : List Piece → List (Option (List Char)) → Prop
  | [], [] => True
  | p :: ps, c :: cs => PieceOk p c ∧ PiecesOk ps cs
  | _, _ => False

theorem Piece.splits_sound (p : Piece) (s : List Char) (o : Option (List Char)) (r : List Char)
    (h : (o, r) ∈ p.splits s) : o.getD [] ++ r = s ∧ PieceOk p o := by
  simp only [Piece.splits, List.mem_append, List.mem_flatMap, List.mem_map, Prod.mk.injEq, Prod.exists] at h
  rcases h with ⟨alt, halt, c, r', hm, rfl, rfl⟩ | h
  · exact ⟨matchAtoms_app alt s c r' hm, alt, halt, s, r', hm⟩
  · split at h
    · simp only [List.mem_singleton, Prod.mk.injEq] at h
      obtain ⟨rfl, rfl⟩ := h
      rename_i ho
      exact ⟨rfl, ho⟩
    · simp at h

theorem matchPieces_sound : ∀ (ps : List Piece) (s : List Char) (caps : List (Option (List Char))) (r : List Char),
    (caps, r) ∈ matchPieces ps s → textOf caps ++ r = s ∧ PiecesOk ps caps
  | [], s, caps, r, h => by
    simp only [matchPieces, List.mem_singleton, Prod.mk.injEq] at h
    obtain ⟨rfl, rfl⟩ := h
    exact ⟨rfl, trivial⟩
  | p :: ps, s, caps, r, h => by
    simp only [matchPieces, List.mem_flatMap, List.mem_map, Prod.mk.injEq, Prod.exists] at h
    obtain ⟨o, r1, h1, cs, r2, h2, rfl, rfl⟩ := h
    obtain ⟨e1, ok1⟩ := Piece.splits_sound p s o r1 h1
    obtain ⟨e2, ok2⟩ := matchPieces_sound ps r1 cs r2 h2
    refine ⟨?_, ok1, ok2⟩
    simp only [textOf, List.flatMap_cons] at e2 ⊢
    rw [List.append_assoc, e2, e1]

/-! ### The slug mirrors the path part -/

theorem suffixTexts_cons (p : Piece) (ps : List Piece) (t : List Char) (h : t ∈ suffixTexts ps) :
    t ∈ suffixTexts (p :: ps) := by
  cases ps with
  | nil => simp [suffixTexts] at h
  | cons q qs => simpa [suffixTexts] using h

theorem evalRs_cons_ok (caps : List (Option (List Char))) (g : RSeg) (gs : List RSeg) (a b : List Char)
    (h1 : evalR caps g = .ok a) (h2 : evalRs caps gs = .ok b) : evalRs caps (g :: gs) = .ok (a ++ b) := by
  simp [evalRs, h1, h2]

theorem mirrors_eval : ∀ (rest : List Piece) (i : Nat) (rs : List RSeg), mirrors i rest rs = true →
    ∀ (done restcaps : List (Option (List Char))), done.length = i → PiecesOk rest restcaps →
    ∃ slug suf, evalRs (done ++ restcaps) rs = .ok slug ∧ textOf restcaps = slug ++ suf ∧
      (suf = [] ∨ suf ∈ suffixTexts rest)
  | [], i, rs, hm, done, restcaps, _, hok => by
    cases rs with
    | nil =>
      cases restcaps with
      | nil => exact ⟨[], [], rfl, rfl, Or.inl rfl⟩
      | cons c cs => exact absurd hok (by simp [PiecesOk])
    | cons g gs => cases g <;> simp [mirrors] at hm
  | p :: ps, i, [], hm, done, restcaps, _, hok => by
    simp only [mirrors, Bool.and_eq_true, List.isEmpty_iff, beq_iff_eq, List.all_eq_true] at hm
    obtain ⟨⟨⟨rfl, hcap⟩, hopt⟩, hall⟩ := hm
    cases restcaps with
    | nil => exact absurd hok (by simp [PiecesOk])
    | cons c cs =>
      cases cs with
      | cons d ds => exact absurd hok.2 (by simp [PiecesOk])
      | nil =>
        refine ⟨[], c.getD [], rfl, by simp [textOf], ?_⟩
        cases c with
        | none => exact Or.inl rfl
        | some t =>
          right
          obtain ⟨alt, halt, s, r, hmm⟩ := hok.1
          have := matchAtoms_lit alt (hall alt halt) s t r hmm
          simp only [suffixTexts, hcap, hopt, beq_self_eq_true, Bool.and_self, if_true, Option.getD_some,
            List.mem_map]
          exact ⟨alt, halt, this.symm⟩
  | p :: ps, i, .lit t :: rs, hm, done, restcaps, hlen, hok => by
    simp only [mirrors, Bool.and_eq_true, beq_iff_eq, Bool.not_eq_true'] at hm
    obtain ⟨⟨⟨_, hopt⟩, halts⟩, hrec⟩ := hm
    cases restcaps with
    | nil => exact absurd hok (by simp [PiecesOk])
    | cons c cs =>
      obtain ⟨ok1, ok2⟩ := hok
      obtain ⟨slug, suf, he, ht, hs⟩ := mirrors_eval ps (i + 1) rs hrec (done ++ [c]) cs (by simp [hlen]) ok2
      have hc : c = some t := by
        cases c with
        | none => simp [PieceOk, hopt] at ok1
        | some t' =>
          obtain ⟨alt, halt, s, r, hmm⟩ := ok1
          split at halts
          · rename_i alt' heq
            rw [heq] at halt
            simp only [List.mem_singleton] at halt
            subst halt
            simp only [Bool.and_eq_true, beq_iff_eq] at halts
            rw [matchAtoms_lit alt halts.1 s t' r hmm, halts.2]
          · simp at halts
      subst hc
      refine ⟨t ++ slug, suf, ?_, ?_, ?_⟩
      · apply evalRs_cons_ok _ _ _ _ _ rfl
        simpa using he
      · simp only [textOf, List.flatMap_cons, Option.getD_some] at ht ⊢
        rw [ht, List.append_assoc]
      · rcases hs with h | h
        · exact Or.inl h
        · exact Or.inr (suffixTexts_cons p ps suf h)
  | p :: ps, i, .grp j u :: rs, hm, done, restcaps, hlen, hok => by
    simp only [mirrors, Bool.and_eq_true, bne_iff_ne, ne_eq, beq_iff_eq, Bool.or_eq_true,
      Bool.not_eq_true'] at hm
    obtain ⟨⟨⟨_, rfl⟩, hu⟩, hrec⟩ := hm
    cases restcaps with
    | nil => exact absurd hok (by simp [PiecesOk])
    | cons c cs =>
      obtain ⟨ok1, ok2⟩ := hok
      obtain ⟨slug, suf, he, ht, hs⟩ := mirrors_eval ps (j + 1) rs hrec (done ++ [c]) cs (by simp [hlen]) ok2
      have hget : (done ++ c :: cs)[j]? = some c := by
        rw [← hlen]; simp
      have hev : evalR (done ++ c :: cs) (.grp j u) = .ok (c.getD []) := by
        cases c with
        | some t => simp [evalR, hget]
        | none =>
          have hopt : p.optional = true := ok1
          have : u = false := by
            rcases hu with h | h
            · rw [hopt] at h; cases h
            · exact h
          simp [evalR, hget, this]
      refine ⟨c.getD [] ++ slug, suf, ?_, ?_, ?_⟩
      · apply evalRs_cons_ok _ _ _ _ _ hev
        simpa using he
      · simp only [textOf, List.flatMap_cons] at ht ⊢
        rw [ht, List.append_assoc]
      · rcases hs with h | h
        · exact Or.inl h
        · exact Or.inr (suffixTexts_cons p ps suf h)
  | p :: ps, i, .missing u :: rs, hm, _, _, _, _ => by simp [mirrors] at hm

/-! ### Complete matches -/

theorem matches_sound (p : Pattern) (s : List Char) (m : Match) (h : m ∈ p.matches s) :
    ∃ r1 r2 r3, (m.pre, r1) ∈ p.pre.splits s ∧ (m.host, r2) ∈ matchAtoms p.host r1 ∧
      (m.sep, r3) ∈ p.sep.splits r2 ∧ (m.tail, []) ∈ matchPieces p.tail r3 := by
  simp only [Pattern.matches, List.mem_flatMap, List.mem_map, List.mem_filter, Prod.exists] at h
  obtain ⟨o, r1, h1, c, r2, h2, d, r3, h3, caps, r4, ⟨h4, he⟩, rfl⟩ := h
  simp only [List.isEmpty_iff] at he
  subst he
  exact ⟨r1, r2, r3, h1, h2, h3, h4⟩

theorem captures_mem (p : Pattern) (s : List Char) (m : Match) (h : p.captures s = some m) : m ∈ p.matches s := by
  unfold Pattern.captures at h
  obtain ⟨t, ht⟩ := List.head?_eq_some_iff.mp h
  rw [ht]; simp

/-- What a recognised origin URL looks like, and what its commit URL is. -/
structure Recognised (pats : List Pattern) (fas : List FormatArm) (arm : Arm) (s : List Char) (r : Repo) : Prop where
  facts : ∃ p fa h pre sepc suf,
    findPattern pats arm.pattern = some p ∧ findFormat fas arm.variant = some fa ∧ r.variant = arm.variant ∧
    hostLit p.host = some h ∧
    s = pre ++ h ++ [sepc] ++ r.slug ++ suf ∧
    (pre = [] ∨ (∃ alt ∈ p.pre.alts, allLit alt = true ∧ pre = litText alt) ∨ UserAt pre) ∧
    sepc ∈ p.sep.chars ∧ (∀ c ∈ h, c ∉ p.sep.chars) ∧
    (suf = [] ∨ suf ∈ suffixTexts p.tail) ∧
    ∀ commit, commitUrlWith fas r commit = some (https ++ h ++ ['/'] ++ r.slug ++ infixOf fa ++ commit)

theorem arm_sound (pats : List Pattern) (fas : List FormatArm) (arm : Arm) (hok : armOk pats fas arm = true)
    (p : Pattern) (hp : findPattern pats arm.pattern = some p) (s : List Char) (m : Match)
    (hm : p.captures s = some m) :
    ∃ slug, slugOf p.tail m.tail arm.slug = .ok slug ∧ Recognised pats fas arm s ⟨arm.variant, slug⟩ := by
  unfold armOk at hok
  rw [hp] at hok
  cases hf : findFormat fas arm.variant with
  | none => simp [hf] at hok
  | some fa =>
    simp only [hf, Bool.and_eq_true, beq_iff_eq, Bool.not_eq_true', List.all_eq_true] at hok
    obtain ⟨⟨⟨⟨⟨hhost, hq⟩, hneg⟩, hcap⟩, hpre⟩, hmir⟩ := hok
    cases hh : hostLit p.host with
    | none => simp [hh] at hhost
    | some h =>
      rw [hh] at hhost
      -- the template
      obtain ⟨a, b, htm, ha, hsepfree⟩ : ∃ a b, fa.template = [.lit a, .slug, .lit b, .commit] ∧
          a = https ++ h ++ ['/'] ∧ (∀ c ∈ h, p.sep.accepts c = false) := by
        split at hhost
        · rename_i h' a b heq1 heq2
          cases heq1
          simp only [Bool.and_eq_true, beq_iff_eq, List.all_eq_true, Bool.not_eq_true'] at hhost
          exact ⟨a, b, heq2, hhost.1, hhost.2⟩
        · simp at hhost
      -- the match
      obtain ⟨r1, r2, r3, h1, h2, h3, h4⟩ := matches_sound p s m (captures_mem p s m hm)
      obtain ⟨e1, ok1⟩ := Piece.splits_sound p.pre s m.pre r1 h1
      have e2 := matchAtoms_app p.host r1 m.host r2 h2
      have hlit : allLit p.host = true := by
        unfold hostLit at hh
        split at hh
        · assumption
        · cases hh
      have hhosttext : m.host = h := by
        have := matchAtoms_lit p.host hlit r1 m.host r2 h2
        unfold hostLit at hh
        rw [if_pos hlit] at hh
        cases hh
        exact this
      have sp3 := Atom.splits_sound p.sep r2 m.sep r3 h3
      obtain ⟨sepc, hsepc⟩ := sp3.one hq
      obtain ⟨e4, ok4⟩ := matchPieces_sound p.tail r3 m.tail [] h4
      obtain ⟨slug, suf, hev, htext, hsuf⟩ := mirrors_eval p.tail 0 _ hmir [] m.tail rfl ok4
      refine ⟨slug, by simpa [slugOf] using hev, ⟨p, fa, h, m.pre.getD [], sepc, suf, hp, hf, rfl, hh, ?_, ?_, ?_, ?_, hsuf, ?_⟩⟩
      · -- the decomposition of the origin URL
        rw [List.append_nil] at e4
        rw [← e1, ← e2, hhosttext, ← sp3.app, hsepc, ← e4, htext]
        simp [List.append_assoc]
      · -- the prefix
        cases hmp : m.pre with
        | none => exact Or.inl rfl
        | some t =>
          right
          rw [hmp] at ok1
          obtain ⟨alt, halt, s', r', hmm⟩ := ok1
          have := hpre alt halt
          simp only [preAltOk, Bool.or_eq_true, beq_iff_eq] at this
          rcases this with hl | hu
          · exact Or.inl ⟨alt, halt, hl, matchAtoms_lit alt hl s' t r' hmm⟩
          · subst hu
            exact Or.inr (matchAtoms_userAt s' t r' hmm)
      · -- the separator
        have := sp3.acc sepc (by rw [hsepc]; simp)
        simpa [Atom.accepts, hneg] using this
      · intro c hc hcs
        have := hsepfree c hc
        simp [Atom.accepts, hneg, hcs] at this
      · intro commit
        simp [commitUrlWith, hf, htm, renderUrl, infixOf, ha, List.append_assoc]

/-- `from_str` never panics on checked tables, and what it recognises has the facts of `Recognised`. -/
theorem recogniseWith_sound (pats : List Pattern) (fas : List FormatArm) :
    ∀ (arms : List Arm), (∀ arm ∈ arms, armOk pats fas arm = true) → ∀ (s : List Char),
      (recogniseWith pats arms s = .ok none) ∨
      (∃ r, recogniseWith pats arms s = .ok (some r) ∧ ∃ arm ∈ arms, Recognised pats fas arm s r)
  | [], _, s => Or.inl rfl
  | arm :: arms, hok, s => by
    have hokarm := hok arm (by simp)
    cases hp : findPattern pats arm.pattern with
    | none => simp [armOk, hp] at hokarm
    | some p =>
      cases hm : p.captures s with
      | none =>
        rcases recogniseWith_sound pats fas arms (fun a ha => hok a (by simp [ha])) s with h | ⟨r, h, a, ha, hr⟩
        · left; simp [recogniseWith, hp, hm, h]
        · right; exact ⟨r, by simp [recogniseWith, hp, hm, h], a, by simp [ha], hr⟩
      | some m =>
        obtain ⟨slug, hs, hr⟩ := arm_sound pats fas arm hokarm p hp s m hm
        right
        exact ⟨⟨arm.variant, slug⟩, by simp [recogniseWith, hp, hm, hs], arm, by simp, hr⟩

end Remote
