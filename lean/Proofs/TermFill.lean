import Proofs.TermLine
/-! `right_fill_background_color`, `mark_empty_line`, the space fill: self-containedness. -/
namespace LineProofs
open Term Sgr SgrTerm Line Generated.StyleTables

theorem toLower_toNat (a : Char) :
    a.toLower.toNat = if 65 ≤ a.toNat ∧ a.toNat ≤ 90 then a.toNat + 32 else a.toNat := by
  unfold Char.toLower
  split
  · next h =>
    have h1 : 65 ≤ a.toNat := by
      have := h.1; rw [ge_iff_le, UInt32.le_iff_toNat_le] at this; exact this
    have h2 : a.toNat ≤ 90 := by
      have := h.2; rw [UInt32.le_iff_toNat_le] at this; exact this
    simp only [h1, h2, and_self, if_true]
    show (a.val + ('a'.val - 'A'.val)).toNat = a.toNat + 32
    rw [UInt32.toNat_add]
    have : ('a'.val - 'A'.val).toNat = 32 := by decide
    rw [this]
    show (a.toNat + 32) % 2 ^ 32 = a.toNat + 32
    omega
  · next h =>
    have : ¬ (65 ≤ a.toNat ∧ a.toNat ≤ 90) := by
      intro ⟨h1, h2⟩
      apply h
      constructor
      · rw [ge_iff_le, UInt32.le_iff_toNat_le]; exact h1
      · rw [UInt32.le_iff_toNat_le]; exact h2
    simp [this]

theorem char_eq_of_toNat (a b : Char) (h : a.toNat = b.toNat) : a = b := by
  have := congrArg Char.ofNat h
  simpa using this

/-- A character whose lower-casing is not a lower-case letter is that character. -/
theorem toLower_eq_nonletter (a x : Char) (hx : x.toNat < 97 ∨ 122 < x.toNat) (h : a.toLower = x) :
    a = x := by
  have h1 := toLower_toNat a
  rw [h] at h1
  apply char_eq_of_toNat
  split at h1 <;> omega

theorem toLower_eq_m (a : Char) (h : a.toLower = 'm') : a = 'm' ∨ a = 'M' := by
  have h1 := toLower_toNat a
  rw [h] at h1
  have hm : ('m' : Char).toNat = 109 := rfl
  split at h1
  · right; apply char_eq_of_toNat; have : ('M' : Char).toNat = 77 := rfl; omega
  · left; apply char_eq_of_toNat; omega

theorem map_eq_four {f : Char → Char} {u : List Char} {w x y z : Char}
    (h : u.map f = [w, x, y, z]) :
    ∃ a b c d, u = [a, b, c, d] ∧ f a = w ∧ f b = x ∧ f c = y ∧ f d = z := by
  cases u with
  | nil => simp at h
  | cons a u =>
    cases u with
    | nil => simp at h
    | cons b u =>
      cases u with
      | nil => simp at h
      | cons c u =>
        cases u with
        | nil => simp at h
        | cons d u =>
          cases u with
          | nil => simp at h; exact ⟨a, b, c, d, rfl, h⟩
          | cons e u => simp at h

theorem line_consts : Line.sgrReset = [ESC, '[', '0', 'm'] ∧ Line.clearToEol = [ESC, '[', '0', 'K'] ∧
    Line.clearToBol = [ESC, '[', '1', 'K'] ∧ asciiLower Line.sgrReset = [ESC, '[', '0', 'm'] := by decide

theorem renderStrings_single_nil (st : Sgr.Style) : renderStrings [(st, [])] = paint st [] := by
  simp [renderStrings, renderTail, paint, suf]

/-- The tail `ESC[0K ESC[0m` brings any state with no open link to the default state. -/
theorem final_el_reset (s : State) (hl : s.link = none) :
    final s ([ESC, '[', '0', 'K'] ++ [ESC, '[', '0', 'm']) = init := by
  rw [final_append, final_esc_csi0 s 'K' (by simp), final_esc_csi0 _ 'm' (by simp)]
  simp [init, hl]

/-- **`right_fill_background_color` keeps a line self-contained** (including when its hack strips
a trailing RESET from the line). -/
theorem rightFill_selfContained (line : List Char) (fill : Sgr.Style) (hwf : Style.wf fill)
    (h : selfContained line) : selfContained (rightFill line fill) := by
  obtain ⟨c1, c2, _, c4⟩ := line_consts
  have hl1 : selfContained (line ++ renderStrings [(fill, [])]) := by
    rw [renderStrings_single_nil]
    exact selfContained_append _ _ h (selfContained_paint fill [] hwf neutral_nil)
  unfold rightFill
  simp only
  generalize line ++ renderStrings [(fill, [])] = l1 at hl1
  rw [c4, c1, c2]
  split
  · next hs =>
    rw [List.isSuffixOf_iff_suffix] at hs
    obtain ⟨t, ht⟩ := hs
    have hmap : l1.map Char.toLower = t ++ [ESC, '[', '0', 'm'] := by simpa [asciiLower] using ht.symm
    rw [List.map_eq_append_iff] at hmap
    obtain ⟨l2, u, hl, _, hu⟩ := hmap
    obtain ⟨a, b, c, d, hu4, ha, hb, hc, hd⟩ := map_eq_four hu
    subst hu4
    have ea : a = ESC := toLower_eq_nonletter a ESC (by decide) ha
    have eb : b = '[' := toLower_eq_nonletter b '[' (by decide) hb
    have ec : c = '0' := toLower_eq_nonletter c '0' (by decide) hc
    have ed : d = 'm' ∨ d = 'M' := toLower_eq_m d hd
    subst ea eb ec hl
    have hlen : [ESC, '[', '0', 'm'].length = 4 := rfl
    have htake : (l2 ++ [ESC, '[', '0', d]).take ((l2 ++ [ESC, '[', '0', d]).length - 4) = l2 := by
      simp
    rw [hlen, htake]
    unfold selfContained at hl1 ⊢
    rw [final_append, final_esc_csi0 _ d (by rcases ed with h | h <;> simp [h])] at hl1
    have hlink : (final init l2).link = none := by
      have := congrArg State.link hl1
      simpa [init] using this
    rw [List.append_assoc, final_append]
    exact final_el_reset _ hlink
  · unfold selfContained at hl1 ⊢
    rw [List.append_assoc, final_append, hl1]
    exact final_el_reset _ rfl

/-- `mark_empty_line` keeps a line self-contained (marker text, or the clear-to-BOL sequence). -/
theorem markEmpty_selfContained (line : List Char) (st : Sgr.Style) (hwf : Style.wf st)
    (marker : Option (List Char)) (hm : ∀ m, marker = some m → ESC ∉ m)
    (h : selfContained line) : selfContained (markEmpty line st marker) := by
  unfold markEmpty
  apply selfContained_append _ _ h
  apply selfContained_paint st _ hwf
  cases marker with
  | some m => exact neutral_text m (hm m rfl)
  | none =>
    obtain ⟨_, _, c3, _⟩ := line_consts
    simp only [Option.getD_none, c3]
    intro s hm' _
    exact final_esc_csi1K s hm'

theorem spacesFill_selfContained (line : List Char) (st : Sgr.Style) (hwf : Style.wf st) (n : Nat)
    (h : selfContained line) : selfContained (spacesFill line st n) := by
  unfold spacesFill
  apply selfContained_append _ _ h
  apply selfContained_paint st _ hwf
  apply neutral_text
  intro hmem
  have := List.eq_of_mem_replicate hmem
  exact absurd this (by decide)

end LineProofs
